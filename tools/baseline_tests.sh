#!/bin/bash
# Runs the pinned test command on a scratch worktree of /repo's HEAD and reports how many of the
# stable_pass tests of /root/.vp/BASELINE.json pass. Usage: tools/baseline_tests.sh [scratch-dir]
set -u
WT=${1:-/root/scratch/baseline-wt}
rm -rf "$WT"; git -C /repo worktree prune
git -C /repo worktree add -q --detach "$WT" HEAD || exit 2
rm -f "$WT/test/normal/gostring_gen_test.go"
(cd "$WT" && GOPROXY=off go test -mod=mod -json -vet=off -count=1 -timeout 25m ./... > /root/scratch/baseline.gotest.json 2>/root/scratch/baseline.stderr)
python3 - <<'PY'
import json
want=set(json.load(open('/root/.vp/BASELINE.json'))['stable_pass'])
res={}
for l in open('/root/scratch/baseline.gotest.json'):
    try: e=json.loads(l)
    except Exception: continue
    if e.get('Test') and e.get('Action') in ('pass','fail','skip'):
        res[e['Package']+'::'+e['Test']]=e['Action']
ok=[t for t in want if res.get(t)=='pass']
bad=sorted(t for t in want if res.get(t)!='pass')
print("baseline: %d/%d stable tests pass"%(len(ok),len(want)))
for t in bad[:20]: print("  NOT PASSING:",t,res.get(t))
PY
git -C /repo worktree remove --force "$WT"
