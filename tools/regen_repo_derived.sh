#!/bin/bash
# Regenerates the derived.gen.go files committed in /repo (test/normal, example/plugin/*, …) with the
# goderive built from /repo's working tree, the way the repository's Makefiles do. Used only when
# preparing a `fix:` commit, so that the commit carries the regenerated outputs a maintainer's
# `make diff` would demand. Not used by any registered check.
set -e
REPO=${1:-/repo}
BIN=$(mktemp -d)/goderive
(cd "$REPO" && GOPROXY=off go build -o "$BIN" .)
run() { (cd "$REPO/$1" && shift && "$BIN" "$@" 2>&1 | grep -v "^$" || true); }
run test/normal ./...
for d in "$REPO"/example/plugin/*/; do
  [ -f "$d/derived.gen.go" ] && (cd "$d" && "$BIN" . 2>&1 || true)
done
run example/prefix --prefix=generate ./...
run example/pluginprefix --pluginprefix=equal=eq ./...
run example/gogenerate .
rm -rf "$(dirname "$BIN")"
git -C "$REPO" status --short
