#!/bin/bash
# tools/import_round.sh <prefix> <outdir-prefix> <wt-prefix> cNN... : imports sub-agent deliveries <outdir-prefix>-cNN/{A,B} as
# seeded/<prefix>-CNN-{A,B}, removes the scratch worktree and runs the registered check against each.
pre=$1; outp=$2; wtp=$3; shift 3
cd /verif
for c in "$@"; do
  C=$(echo $c | tr c C)
  for x in A B; do
    [ -d $outp-$c/$x ] || continue
    mkdir -p seeded/$pre-$C-$x
    cp -r $outp-$c/$x/* seeded/$pre-$C-$x/
    find seeded/$pre-$C-$x -type f -size +2M -delete
  done
  git -C /repo worktree remove --force $wtp-$c 2>/dev/null
  for x in A B; do
    [ -d seeded/$pre-$C-$x ] && python3 tools/run_seeded.py $pre-$C-$x --verify 2>&1 | grep -v conda | tail -2
  done
done
