#!/usr/bin/env python3
"""Regenerates /verif/MANIFEST.json from the table below (claimed checks) — every property without a
working check module + Lean theorems is listed under not_applicable with the reason."""
import json
import os

VERIF = os.path.dirname(os.path.dirname(os.path.abspath(__file__)))

TRUST = ("trusted: Lean 4.33 kernel; axioms propext / Classical.choice / Quot.sound only (audited per theorem on every run); "
         "the hand-written model, tied to the current tree by the correspondence named in the text (bounded by corpus quality); "
         "the Go harness and toolchain; ")

CLAIMS = {
    "C01": dict(
        text="Lean theorems (G/Worklist): the generate-until-done work list registers exactly the transitive closure of helper requests, generates each registered key exactly once, and terminates when that closure is finite — for every request function and plugin order; Props/C01r instantiates this with the CONCRETE helper-request relation of equal/compare/hash/deepcopy/clone/sort/keys (G/Requests.lean: finite closed key universe, termination without hypothesis) and the tie requires the real goderive to generate exactly the predicted closure in ~680 isolated one-call packages per seed and to call exactly the predicted helpers in the shared corpus. Type-correctness of the emitted text is decided by the real Go type checker on generated programs: all 33 plugins in every call-site form, recursive/embedded/imported/same-named-package/unexported-field types, seeded random declarations, and the bounded-exhaustive type corpus.",
        note="partial: 'type-checks' is decided by go vet on the generated corpus, not in Lean; types.TypeString printing trusted; name resolution soundness is C11's theorem",
        technique="Lean 4 proof of work-list closure/exactly-once/termination + compile oracle on generated programs",
        engine="lean-model + blackbox-compile", ref="DESIGN.md §6 C01"),
    "C02": dict(
        text="Lean theorems: the model of the emitted Equal (mirroring plugin/equal's dispatch) equals the independent structural-equality specification for every environment, supported type and well-typed value pair, without panic; component-position = top-level; the specification is an equivalence relation that ignores addresses, spare capacity and map insertion order. Tied to the current tree by running the real goderive on a bounded-exhaustive type corpus and diffing emitted code, model and spec on every pool pair and single-position mutation (exact match required).",
        note="user-declared Equal methods are modelled (S/Methods.EqualM, Props/C02c) with the method bodies the corpus emits; user DeepCopy/GoString methods are not",
        technique="Lean 4 proof (model = spec by induction on values) + differential correspondence model vs emitted code",
        engine="lean-model + t1-behaviour", ref="DESIGN.md §6 C02"),
    "C03": dict(
        text="Lean theorems: the model of the emitted Compare equals the value-directed lexicographic order cmpVal for all supported types and typed values without panic; cmpVal ranges over {-1,0,1}, is antisymmetric and transitive on NaN-free values of one type, is 0 exactly when structEq holds (maps: uniqueness of the sorted key sequence), and a single differing leaf / nil-ness / element / field / map value decides the order in the natural way. Tied by exact integer match of emitted code vs model vs spec on all pool pairs and mutations, plus Compare==0 <=> Equal on the emitted functions.",
        note="sort.Slice/Strings/Ints/Float64s assumed to sort (the model sorts map keys itself); user Equal/Compare methods modelled (Props/C03c): Compare==0 <=> Equal is checked where the methods come in pairs; the value-parameter case is known finding F40",
        technique="Lean 4 proof (model = cmpVal; total-order laws by induction) + differential correspondence",
        engine="lean-model + t1-behaviour", ref="DESIGN.md §6 C03"),
    "C04": dict(
        text="Lean theorems: for every supported type, structurally equal NaN-free values have the same model hash (floats via the +0 normalisation, maps via uniqueness of the sorted key sequence, skipped unexported fields only remove information); hashing never panics and ignores addresses, spare capacity and insertion order. Tied by EXACT uint64 match between emitted code and model on every pool value and mutation, Equal=>same-hash on the emitted functions over equality-preserving rewrites and all pool pairs, repeated and cross-process runs, argument observed unchanged.",
        note="purity/repeatability are observed by the tie (a Lean function is pure by construction); sort.* trusted; user Equal/Hash methods modelled (Props/C04c): Equal => same hash where every type declaring Equal also declares Hash",
        technique="Lean 4 proof (structEq => equal hash by induction) + exact-value differential correspondence",
        engine="lean-model + t1-behaviour", ref="DESIGN.md §6 C04"),
    "C05": dict(
        text="Lean theorems about the allocation-threading model of deriveDeepCopy/deriveClone: the result is structurally equal to the source incl. nil-ness (Go's equality, NaN-free sources) and, for every source incl. NaN leaves and NaN map keys, of the same shape and bits (Spec.shapeEq: leaves bit for bit, map entries paired one to one; implies the former on NaN-free values); every address of the result is either memory of the prior destination or freshly allocated, hence disjoint from the source; the result is tree-shaped; writes through either side are invisible through the other; no panic under the property's precondition — for all supported types, sources and tree-shaped disjoint prior destinations. Tied by exact match of the canonically numbered destination heap (same reuse of the prior destination's memory, same fresh allocations) between emitted code and model, plus memory-range disjointness, reflect.DeepEqual or bit-identical shape (rt.ShapeEqual, which judges sources holding a NaN) and source-unchanged observed on the real run.",
        note="'source unchanged' is carried by the tie; user DeepCopy methods not in the corpus; slices of zero-size elements excluded (no observable identity)",
        technique="Lean 4 proof (freshness/equality/tree-shape by joint induction) + heap-shape differential correspondence",
        engine="lean-model + t1-behaviour", ref="DESIGN.md §6 C05"),
    "C06": dict(
        text="Lean theorem: evaluating the model of the emitted GoString expression language rebuilds a value structurally equal to the original (nil vs empty, pointer targets) at fresh addresses, for all supported exported types, with the lexical layer (%#v) as a stated parameter. Tied through the real Go compiler: the returned texts are compiled into a second-stage program, evaluated, observed and compared with the model's evaluation and with reflect.DeepEqual of the original.",
        note="fmt %#v and the Go compiler are exercised, not proved",
        technique="Lean 4 proof (round-trip of a deep embedding) + two-stage compile-and-evaluate correspondence",
        engine="lean-model + t1-behaviour", ref="DESIGN.md §6 C06"),
    "C07": dict(
        text="Lean theorems about the write/reload/retry loop over an abstract loader: a pass reads from the file on disk only the signatures of callees whose result flows into another derive call; hence without such flows the file left behind never depends on the old file (absent, stale, truncated), with flows one run reproduces the from-scratch file whenever the old file agrees on the flowing signatures; no calls left => file removed; the unrestricted statement is refuted by a concrete witness (stale flowing signature), which is known finding F7. Tied by edit histories and byte-prefix truncations of old/new outputs on the real binary, byte-compared with from-scratch runs, and by RUNNING the model's regen (driver op regen) next to the real binary on generated flow scenarios (chains of derive calls through variables and nested calls x old-file variants; plugin table measured on one-call packages): exit kind and every generated function's parameter and result types must agree on three runs per scenario, and the stale-signature differences (F7) must be predicted exactly.",
        note="partial: go/loader's tolerance of a broken file is the model's loader contract; F7 and F24 are recorded known findings",
        technique="Lean 4 proof (congruence of the pass in the loaded signatures) + history/crash-state differential on the real binary + executable-model correspondence on flow scenarios",
        engine="lean-model + blackbox-history", ref="DESIGN.md §6 C07"),
    "C18": dict(
        text="Lean theorems about the four emitted memo shapes as state machines over the captured table, for call sequences of any length: every answer equals f's own answer whenever f respects the key comparison the emitted code makes (necessary: refuted otherwise by a witness), and f is invoked at most once per class of Equal argument tuples — for the hash-bucket shape given Equal => same hash (C04), with colliding hashes of unequal arguments handled by the scan. Tied by playing whole call sequences (repeats, Equal-but-not-identical copies, ±0, constructed hash collisions, zero-argument and no-result forms) against the real deriveMem and the model: results, f's call log and the emitted shape must match exactly.",
        note="the hypotheses 'key comparison = structural equality' and 'Equal => same hash' are C02/C04's theorems, cited as hypotheses",
        technique="Lean 4 proof (invariant over call sequences) + call-sequence differential correspondence",
        engine="lean-model + t1-behaviour", ref="DESIGN.md §6 C18"),
    "C13": dict(
        text="Lean theorems about loop-shaped models of the emitted sort/keys/min/max: sort (over any sorter meeting the stated contract; insertion and merge sort proved to meet it) returns a permutation that is sorted under the derived comparison; keys returns every key exactly once for any iteration order; min/max return an element of the list that no other element precedes/follows, the default for an empty list; the two-value forms return one of their arguments accordingly. Tied by op-by-op correspondence on lists/maps over 18-35 element types (named basics, bool/complex, structs, pointers, slices) incl. duplicates, sorted/reversed, nil elements.",
        note="sort.Slice/Strings/Ints/Float64s are the sorter parameter with its contract; Compare's total-order laws are C03's theorems, taken as hypotheses",
        technique="Lean 4 proof (loop invariants over lists) + differential correspondence",
        engine="lean-model + t1-behaviour", ref="DESIGN.md §6 C13"),
    "C14": dict(
        text="Lean theorems about the emitted loops (index variables, in-place compaction, early returns) of contains/unique/set/union/intersect/filter/takewhile/all/any with predicates as logging oracles: results equal the textbook definitions and the predicate log is the specified prefix in order; the hash-bucket unique keeps first occurrences given Equal => same hash (needed: refuted otherwise by a witness). Tied by op-by-op correspondence incl. call logs and the input as observed after in-place calls, over comparable and non-comparable element types, Equal-but-not-identical elements, nil/empty lists, +0/-0 keys.",
        note="Equal = structEq and Equal => same hash are C02/C04's theorems, taken as hypotheses",
        technique="Lean 4 proof (loop invariants with call logs) + differential correspondence",
        engine="lean-model + t1-behaviour", ref="DESIGN.md §6 C14"),
    "C17": dict(
        text="Lean theorems: fmap over a slice = List.map with one call per element in order and the same length; over a string the same for its runes for EVERY byte string (Go's range decoder is modelled: invalid encodings yield U+FFFD width 1) ; join of slices = flatten (nil for nil), join of strings = concatenation. Tied by op-by-op correspondence (results, call log, input re-observed) over 36 (element, result) type pairs and strings with 2-4 byte runes, boundary code points, truncated/overlong/surrogate/invalid encodings — which also validates the UTF-8 decoder model against the Go runtime.",
        note="Go's UTF-8 range semantics are modelled and validated by the tie, not proved from the runtime's source",
        technique="Lean 4 proof + differential correspondence",
        engine="lean-model + t1-behaviour", ref="DESIGN.md §6 C17"),
    "C11": dict(
        text="Lean theorems about the name table as a state machine over abstract types and an arbitrary assignability relation: an invariant (names unique, no two entries with identical type lists, later entries never assignable to earlier ones, generated ⊆ names) holds in every reachable state; freshly minted names avoid reserved and bound names and the Go candidate loop terminates; without flags registration fails exactly on a conflict or duplicate (defined on the call list alone); -autoname alone / -dedup alone / both behave as stated; the 'unreachable' panic is unreachable; on success every call's final name is bound to exactly its argument types and each plugin has one name per type list. Tied in-process (build tag verif) by 94k operation lines on the real typesMap vs the model, and black-box by all assignments of <=3 calls x names x types x plugins x 4 flag combinations on the real binary (exit status, error class, rewritten call names, callee parameter types, one function per key).",
        note="EqIsIdentityOn (pairwise non-assignable argument types) is the property's own domain restriction for fail_iff_clash; resolve_sound_general covers the rest",
        technique="Lean 4 proof (inductive invariant over operation sequences) + in-process state-machine correspondence + exhaustive black-box",
        engine="lean-model + t3-hooks + blackbox", ref="DESIGN.md §6 C11"),
    "C12": dict(
        text="Lean theorems: for pairwise distinct prefixes any result meeting sort.Slice's contract is the unique (length desc, string desc) order, hence independent of registration order; the first match has the longest matching prefix; under a consistent prefix change with freshness the name table and the whole registration loop commute with the renaming (global -prefix: dispatch equivalence is a theorem; the 33 default prefixes are prefix-free, checked against main.go's table on every run); names of different plugins are disjoint for prefix-free prefix sets, and the cross-plugin capture under overrides is refuted by a decided witness (known finding F13, replayed on every run). Tied by sortPlugins/dispatch lines in-process and by default-vs-renamed runs of the real binary (textual equality after renaming for -prefix, canonical equality for overrides, handler identity under nested prefixes).",
        note="textual equality of whole generated files is carried by the black-box tie, not proved; flag parsing trusted",
        technique="Lean 4 proof (equivariance under renaming, canonical sort) + in-process and renamed-run differential",
        engine="lean-model + t3-hooks + blackbox", ref="DESIGN.md §6 C12"),
    "C15": dict(
        text="Lean theorems about the signature surgery (currySig/uncurrySig/flipSig/applySig/renaming) and the emitted wrapper as a term with named binding and shadowing, evaluated against a logging f: for every valid signature the wrapper calls f exactly once with every argument in its position and returns its results; uncurry of curry is f; tuple yields its arguments; the generator's renaming yields distinct usable names. One model bit per repaired defect is probed on the real tool each run, with theorems for both settings and decided witnesses for the unrepaired ones. Tied per signature class (336 small packages): predicted compilability vs go build, and behaviour ops (results + call log) vs the model.",
        note="remaining known finding F6b (uncurry merges clashing outer/inner names) is the exact side condition of uncurry_spec_partial",
        technique="Lean 4 proof (term semantics with binding) + per-signature differential correspondence",
        engine="lean-model + t1-behaviour", ref="DESIGN.md §6 C15"),
    "C16": dict(
        text="Lean theorems: compose (for every number of stages and failing position, by induction on the stage list), the error forms of fmap and join, traverse and toerror evaluate their stages left to right, each at most once, stop at the first failure returning exactly that error and zero results (nil slice for traverse), and equal sequential composition when nothing fails; zero-value text is well-typed for every result type. Tied by chains of 2..4 stages x result arities x every failing stage x two error objects, traverse over every length/failing index, with instrumented stages (results, error identity, call log) and predicted compilability per package.",
        note="join/bind pass f's own results through when f itself fails (return f()), as the emitted code does; recorded as an assumption of the spec",
        technique="Lean 4 proof (induction over the stage list with call logs) + differential correspondence",
        engine="lean-model + t1-behaviour", ref="DESIGN.md §6 C16"),
    "C08": dict(
        text="Facts regenerated from the current source on every run (go/types-based extractor -> Generated/Facts.lean) and re-checked by the kernel: the list of map-range sites equals the three the theorems cover, there is no mutable package-level state. Lean theorems: each site's result is invariant under any permutation of the iteration order (reserved-name union, the Done conjunction incl. its import side effects, the import block written after sorting paths given the proved import-table invariant 'one alias per path'), and name lookup is registration-ordered with exact match first. Tied by byte comparison of derived.gen.go over repeated runs and invocation variants (alone/grouped/reordered/./.../import path/other cwd/importer pairs) on packages built to be ambiguous, and by NewImport traces on the real printer checked against the model by the kernel.",
        note="the loader's package identity and ordering are outside the scanned sources (goderive now sorts packages itself); gofmt/parser trusted",
        technique="regenerated source facts + Lean 4 permutation-invariance proofs + repeated-run/variant byte differential",
        engine="lean-model + t4-facts + blackbox", ref="DESIGN.md §6 C08"),
    "C09": dict(
        text="Facts regenerated from the current source and re-checked by the kernel: no swallowed error in any gen*/field*/Generate/Add function, every constant index into typs is guarded by the length checks that dominate it (for every argument count), the explicit panic sites are exactly the listed ones, each with a theorem that it is unreachable (rename, newCall, Generating on a registered key, In/Out balance condition) and NewImport always returns. The termination proofs of the work list (C01), newName (C11) and the reload loop (C07) are the no-hang arguments. Tied by a malformed-input stream on the real binary: 1567 packages (unsupported constituents at every position x 15 plugins, bad arguments x 18 plugins, named twins, unordered types, broken packages/derived files, alias clashes) under time and memory limits: no panic, no hang, exit 0 only with a file that parses and type-checks, a diagnostic naming call or type otherwise.",
        note="that every plugin rejects every unsupported type is carried by the stream, not proved; panics inside go/types, go/loader, go/format are outside the model",
        technique="regenerated source facts + Lean 4 proofs of guard/unreachability + malformed-input stream with compile oracle",
        engine="lean-model + t4-facts + blackbox", ref="DESIGN.md §6 C09"),
    "C10": dict(
        text="Facts regenerated from the current source and re-checked by the kernel: the file-system call sites are exactly the modelled ones and the only source mutators are os.Remove (Delete), os.Create (Print) and os.OpenFile (newPackage) with the flags read from the source. Lean theorems: with O_TRUNC among those flags a rewrite leaves exactly the new bytes (without it a shorter rewrite leaves a tail: witness); without -autoname/-dedup every effect of a pass targets derived.gen.go whatever the outcome; with flags a rewritten file contains a renamed call. Tied by recursive snapshots + strace of 212 runs over all flag combinations and outcomes (every mutating syscall must be a modelled effect) and by a byte oracle for rewritten files (go/format of the original AST with exactly the renamed identifiers substituted; shorter/equal/longer names, unformatted files, trailing comments).",
        note="go/format, the parser and the loader's read-only behaviour are trusted (strace checks the latter on every run)",
        technique="regenerated source facts + Lean 4 proof over a byte-level write model + file-system/strace differential",
        engine="lean-model + t4-facts + blackbox", ref="DESIGN.md §6 C10"),
    "C19": dict(
        text="Lean theorems over labelled transition systems for the emitted goroutine structures (fmap over a channel, the WaitGroup join in its chan-of-chan and slice-of-chan forms, the select join, dup, pipeline as a product), quantified over Reachable — every interleaving — and unbounded in number of inputs, items, capacities and close order: delivery accounting (exactly once at quiescence), per-input order, no send on a closed channel, outputs closed once and only after all inputs are closed and drained, progress of every non-final state, clean termination, and a strictly decreasing measure (no livelock). Tied by (T4) the channel-operation skeleton of every emitted function, re-extracted from the file goderive emits now and compared by the kernel with the skeleton the LTS was written for; (T5) the emitted code rewritten onto a deterministic scheduler, explored by seeded random schedules, exhaustive DFS and sleep-set reduced DFS, every step log replayed on the LTS by the driver and the property's observable clauses checked on the run; and real-runtime stress under the race detector.",
        note="partial: memory-level data-race freedom and the faithfulness of the channel semantics to the Go runtime are observed (race detector, scheduler runs), not proved",
        technique="Lean 4 proof (inductive invariants over all interleavings) + skeleton facts + scheduler trace validation + race stress",
        engine="lean-model + t4-conc-facts + t5-sched + race-stress", ref="DESIGN.md §6 C19"),
    "C20": dict(
        text="Lean theorems over the transition system of the emitted Do (n workers, unbuffered error channel, pairwise rendezvous between user functions), for every interleaving and every n, failing subset and rendezvous list: all workers are spawned before the first receive, main returns only after every worker has written, the returned tuple is the workers' values in position, the error is nil iff all succeeded and otherwise one actually returned, the write and read of a result variable are never both enabled, progress with rendezvousing functions, termination, no worker left blocked. Tied by the skeleton facts, scheduler trace validation (exhaustive for small n) and race-detector stress as for C19.",
        note="partial: as C19",
        technique="Lean 4 proof (inductive invariants over all interleavings) + skeleton facts + scheduler trace validation + race stress",
        engine="lean-model + t4-conc-facts + t5-sched + race-stress", ref="DESIGN.md §6 C20"),
}

OTHER = {
    "C08": "check being built (fact extractor + determinism theorems + repeated-run/invocation-variant differential)",
    "C09": "check being built (fact theorems on swallowed errors/index guards + malformed-input stream)",
    "C10": "check being built (rewrite model with regenerated open flags + file-system snapshots/strace)",
    "C11": "check being built (name-table state machine proofs + in-process T3 + exhaustive tiny packages)",
    "C12": "check being built (prefix sort/dispatch/equivariance proofs + renamed-run differential)",
    "C13": "check being built (list helper models/proofs + correspondence)",
    "C14": "check being built (list helper models/proofs + correspondence)",
    "C15": "check being built (signature plumbing model/proofs + correspondence)",
    "C16": "check being built (error chain model/proofs + correspondence)",
    "C17": "check being built (fmap/join models/proofs + correspondence)",
    "C18": "check being built (memo state machine proofs + call-sequence correspondence)",
    "C19": "check being built (LTS proofs + skeleton facts + deterministic-scheduler trace validation)",
    "C20": "check being built (LTS proofs + skeleton facts + deterministic-scheduler trace validation)",
}


def ready(pid):
    return (os.path.exists(os.path.join(VERIF, "vlib", "props", pid.lower() + ".py")) and
            os.path.exists(os.path.join(VERIF, "lean", "GoderiveModel", "Props", pid + ".lean")))


def main():
    import sys
    claimed = [a for a in sys.argv[1:]]
    hooks_commits = ["b44e0a5", "7f51ee8", "44c03c0"]
    m = {
        "version": 1,
        "setup_cmd": "./setup.sh",
        "hooks": {
            "guard": "verif",
            "enable": "go build -tags verif ./...  (only derive/verif_hooks.go and derive/verif_hooks_order.go carry the tag; used by the in-process T3 driver)",
            "baseline_off_cmd": "cd /repo && go test -mod=mod -json -vet=off -count=1 -timeout 25m ./...",
            "source_commits": hooks_commits,
            "add_only": True,
        },
        "engines": [
            {"name": "lean-model", "path": "lean/", "serves_properties": claimed,
             "kind_free_text": "Lean 4 models (GoderiveModel/S, G, K), specs (Spec), property theorems (Props/Cxx.lean), per-theorem axiom audit; compiled line-protocol driver (Driver/)"},
            {"name": "t1-behaviour", "path": "harness/", "serves_properties": [c for c in claimed if c in ("C02", "C03", "C04", "C05", "C06", "C13", "C14", "C15", "C16", "C17", "C18")],
             "kind_free_text": "behavioural correspondence: real goderive (rebuilt from /repo) on generated corpora, emitted code compiled and driven by a reflection runtime, Lean driver answers the same op lines, outputs diffed"},
            {"name": "t3-hooks", "path": "harness-t3/", "serves_properties": [c for c in claimed if c in ("C11", "C12", "C08")],
             "kind_free_text": "in-process correspondence through /repo/derive/verif_hooks.go (build tag verif): operation sequences on the real typesMap / printer / sortPlugins vs the Lean state machines"},
            {"name": "t4-facts", "path": "harness/cmd/facts/", "serves_properties": [c for c in claimed if c in ("C08", "C09", "C10", "C12")],
             "kind_free_text": "go/types-based fact extractor regenerating lean/GoderiveModel/Generated/Facts.lean from /repo's current source; the fact theorems are re-checked by lake build on every run"},
            {"name": "t5-sched", "path": "harness/vsched/", "serves_properties": [c for c in claimed if c in ("C19", "C20")],
             "kind_free_text": "emitted concurrent code rewritten onto a deterministic scheduler (random / DFS / sleep-set DFS), step logs replayed on the Lean LTS; skeleton facts in Generated/ConcFacts.lean; race-detector stress"},
            {"name": "blackbox", "path": "vlib/props/", "serves_properties": [c for c in claimed if c in ("C01", "C07", "C08", "C09", "C10", "C11", "C12")],
             "kind_free_text": "runs of the real binary on generated packages/histories with compile, byte and file-system oracles"},
        ],
        "checks": [],
        "not_applicable": [],
        "notes": "All checks rebuild goderive from /repo's working tree (cache keyed by a hash of main.go, derive/, plugin/, go.mod). VERIF_SEED selects corpora. known_findings.json lists repaired (fixed:) and recorded (known) defects; KNOWN-FINDING lines are printed only for 'known' entries whose witness class was replayed on this run.",
    }
    allp = ["C%02d" % i for i in range(1, 21)]
    for pid in allp:
        if pid in claimed:
            c = CLAIMS[pid]
            m["checks"].append({
                "property_id": pid,
                "quick_cmd": "./check %s --tier quick" % pid,
                "thorough_cmd": "./check %s --tier thorough" % pid,
                "evidence_file": "evidence/%s.json" % pid,
                "replay_cmd_template": "./check %s --replay {path}" % pid,
                "engine": c["engine"],
                "level_claimed": {"category": "proof", "text": c["text"], "design_ref": c["ref"]},
                "level_note": TRUST + c["note"],
                "technique": c["technique"],
            })
        else:
            m["not_applicable"].append({"property_id": pid, "reason": OTHER.get(pid, CLAIMS.get(pid, {}).get("pending", "check being built"))})
    with open(os.path.join(VERIF, "MANIFEST.json"), "w") as f:
        json.dump(m, f, indent=1)
    print("claimed:", claimed)


if __name__ == "__main__":
    main()
