#!/bin/bash
# tools/coverage.sh [Cxx …]: runs the given checks (default: all) with a coverage-instrumented goderive and prints the
# source blocks of derive/ and plugin/ that no corpus reached. A gap finder for the generators, not a check.
cd /verif
COV=/root/scratch/cov; rm -rf $COV; mkdir -p $COV
props=${@:-C01 C02 C03 C04 C05 C06 C07 C08 C09 C10 C11 C12 C13 C14 C15 C16 C17 C18 C19 C20}
for p in $props; do VERIF_COVER=1 GOCOVERDIR=$COV ./check $p 2>&1 | grep "^OK\|^VIOLATION" | cut -c1-120; done
cd /repo && go tool covdata textfmt -i=$COV -o /root/scratch/cov.txt && go tool cover -func=/root/scratch/cov.txt | sort -k3 -n | head -80
