#!/usr/bin/env python3
"""Rewrites the table between the SEEDED-TABLE markers of DESIGN.md from seeded/*/{meta,result}.json."""
import glob
import json
import os
import re

VERIF = os.path.dirname(os.path.dirname(os.path.abspath(__file__)))


def row(d):
    sid = os.path.basename(d)
    meta = json.load(open(os.path.join(d, "meta.json")))
    res = {}
    if os.path.exists(os.path.join(d, "result.json")):
        res = json.load(open(os.path.join(d, "result.json")))
    caught, how = [], []
    for p, c in sorted((res.get("checks") or {}).items()):
        if c.get("detected"):
            caught.append(p)
            how.append("input" if c.get("with_failing_input") else "nfi")
    if meta.get("overtaken"):
        caught, how = ["—"], ["overtaken by a later fix in /repo: " + re.sub(r"\s+", " ", meta["overtaken"])[:140].replace("|", "/")]
    elif not res.get("applies", True):
        caught, how = ["—"], ["patch no longer applies"]
    elif not caught:
        caught, how = ["—"], ["missed"]
    title = meta.get("title", "?").replace("|", "/")
    needs = re.sub(r"\s+", " ", meta.get("needs_to_manifest", ""))[:160].replace("|", "/")
    return "| %s | %s — *needs:* %s | %s | %s |" % (sid, title, needs, ", ".join(caught), ", ".join(sorted(set(how))))


def main():
    rows = [row(d) for d in sorted(glob.glob(os.path.join(VERIF, "seeded", "*-C??-?")))]
    n = len(rows)
    det = sum(1 for r in rows if "| missed |" not in r and "no longer applies" not in r and "overtaken by" not in r)
    inp = sum(1 for r in rows if re.search(r"\| (input|input, nfi) \|$", r))
    text = ("%d seeded changes; %d detected (%d with a concrete failing input as replay, the rest as a broken proof / fact / "
            "correspondence with `no-failing-input-found`); %d missed.\n\n"
            "| id | change — what it needs to manifest | caught by | how |\n|---|---|---|---|\n%s\n" % (n, det, inp, n - det, "\n".join(rows)))
    p = os.path.join(VERIF, "DESIGN.md")
    s = open(p).read()
    a, b = "<!-- SEEDED-TABLE-BEGIN -->", "<!-- SEEDED-TABLE-END -->"
    if a not in s:
        raise SystemExit("markers missing in DESIGN.md")
    s = s[:s.index(a) + len(a)] + "\n" + text + s[s.index(b):]
    open(p, "w").write(s)
    print("%d rows, %d detected, %d with input" % (n, det, inp))


if __name__ == "__main__":
    main()
