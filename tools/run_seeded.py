#!/usr/bin/env python3
"""Runs registered checks against a seeded breaking change.

  tools/run_seeded.py <seeded-id> [Cxx ...]      (default: the property named in meta.json)

Creates a scratch worktree of /repo's HEAD under /tmp, applies seeded/<id>/patch.diff there, confirms
it still builds, runs the demonstration (must fail with the change), runs `./check Cxx` with
VERIF_REPO pointing at the worktree (equivalent to `git -C /repo apply` + check + `checkout -- .`,
but safe to run while other checks use /repo), records the outcome in seeded/<id>/result.json and
removes the worktree."""
import json
import os
import subprocess
import sys
import time

VERIF = os.path.dirname(os.path.dirname(os.path.abspath(__file__)))


def sh(cmd, **kw):
    return subprocess.run(cmd, stdout=subprocess.PIPE, stderr=subprocess.STDOUT, text=True, errors="replace", **kw)


def main():
    sid = sys.argv[1]
    d = os.path.join(VERIF, "seeded", sid)
    meta = json.load(open(os.path.join(d, "meta.json")))
    props = [a for a in sys.argv[2:] if not a.startswith("--")] or [meta["property"]]
    wt = "/tmp/seed-%s-%d" % (sid, os.getpid())
    env = dict(os.environ, GOPROXY="off", GOFLAGS="-mod=mod")
    env.pop("GOSUMDB", None)
    res = {"id": sid, "property": meta["property"], "checks": {}, "at": time.strftime("%Y-%m-%dT%H:%M:%SZ", time.gmtime())}
    try:
        print(sh(["git", "-C", "/repo", "worktree", "add", "-q", "--detach", wt, "HEAD"]).stdout)
        ap = sh(["git", "-C", wt, "apply", os.path.join(d, "patch.diff")])
        res["applies"] = ap.returncode == 0
        if ap.returncode != 0:
            print("patch does not apply:", ap.stdout)
            return finish(d, res, wt)
        b = sh(["go", "build", "-o", os.path.join(wt, "goderive.seeded"), "."], cwd=wt, env=dict(env, GOFLAGS=""))
        res["builds"] = b.returncode == 0
        if b.returncode != 0:
            print(b.stdout)
            return finish(d, res, wt)
        demo = os.path.join(d, "demo", "run.sh")
        if os.path.exists(demo):
            tmpdemo = wt + "-demo"
            sh(["cp", "-r", os.path.join(d, "demo"), tmpdemo])
            r = sh(["bash", "run.sh", os.path.join(wt, "goderive.seeded")], cwd=tmpdemo, env=env, timeout=600)
            res["demo_fails_with_change"] = r.returncode != 0
            sh(["rm", "-rf", tmpdemo])
        os.remove(os.path.join(wt, "goderive.seeded"))
        if "--verify" in sys.argv or "confirmed" not in meta:
            # demonstration passes on the unchanged tree
            base = "/tmp/seed-base-goderive-%d" % os.getpid()
            sh(["go", "build", "-o", base, "."], cwd="/repo", env=dict(env, GOFLAGS=""))
            if os.path.exists(demo):
                tmpdemo = wt + "-demo0"
                sh(["cp", "-r", os.path.join(d, "demo"), tmpdemo])
                r0 = sh(["bash", "run.sh", base], cwd=tmpdemo, env=env, timeout=600)
                res["demo_passes_without"] = r0.returncode == 0
                sh(["rm", "-rf", tmpdemo])
            os.remove(base)
            # the existing test suite still passes with the change (gopath2 fails to set up on the unchanged tree too)
            t = sh(["go", "test", "-mod=mod", "-vet=off", "-count=1", "./..."], cwd=wt, env=env, timeout=1800)
            bad = [l for l in t.stdout.splitlines() if (l.startswith("FAIL") or l.startswith("--- FAIL")) and "gopath2" not in l and l.strip() != "FAIL"]
            res["tests_pass_with_change"] = not bad
            res["test_failures"] = bad[:5]
            sh(["git", "-C", wt, "clean", "-fdq"])
        for p in props:
            t = time.time()
            r = sh([os.path.join(VERIF, "check"), p], cwd=VERIF, env=dict(env, VERIF_REPO=wt), timeout=3600)
            lines = [l for l in r.stdout.splitlines() if l.startswith("VIOLATION") or l.startswith("OK ") or l.startswith("KNOWN-FINDING")]
            viol = [l for l in lines if l.startswith("VIOLATION")]
            res["checks"][p] = {"exit": r.returncode, "detected": r.returncode != 0 and bool(viol),
                                "with_failing_input": any("no-failing-input-found" not in l for l in viol),
                                "first_lines": lines[:4], "detail": [l.strip() for l in r.stdout.splitlines() if l.startswith("  ")][:2],
                                "wall_s": round(time.time() - t, 1)}
            print(p, "->", "DETECTED" if res["checks"][p]["detected"] else "missed", lines[:2])
    finally:
        return finish(d, res, wt)


def finish(d, res, wt):
    sh(["git", "-C", "/repo", "worktree", "remove", "--force", wt])
    sh(["rm", "-rf", wt])
    with open(os.path.join(d, "result.json"), "w") as f:
        json.dump(res, f, indent=1)
    # the fact files under lean/GoderiveModel/Generated were rewritten for the modified tree: put the committed ones back
    sh(["git", "-C", VERIF, "checkout", "--", "lean/GoderiveModel/Generated"])
    # restore the evidence files the run overwrote? No: evidence is rewritten by the next unchanged-tree run.
    return 0


if __name__ == "__main__":
    sys.exit(main())
