module verift3

go 1.24

require github.com/awalterschulze/goderive v0.0.0

replace github.com/awalterschulze/goderive => /repo
