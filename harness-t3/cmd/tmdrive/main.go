// Command tmdrive drives the REAL name table (typesMap), plugin ordering and import table of
// goderive in-process through the hooks of derive/verif_hooks.go (build tag verif) and answers the
// op lines documented in /verif/lean/Driver/OpsGen.lean, one `<id> impl=<answer>` line per op line.
// The Lean driver answers the same lines from the model; the check diffs the two (tie T3).
package main

import (
	"bufio"
	"fmt"
	"go/token"
	"go/types"
	"os"
	"sort"
	"strconv"
	"strings"

	"github.com/awalterschulze/goderive/derive"
)

// ---------------------------------------------------------------- S-expressions

type sexp struct {
	atom string
	list []*sexp
	isL  bool
}

func tokenize(s string) []string {
	var out []string
	cur := ""
	flush := func() {
		if cur != "" {
			out = append(out, cur)
			cur = ""
		}
	}
	for _, c := range s {
		switch c {
		case '(', ')':
			flush()
			out = append(out, string(c))
		case ' ', '\t', '\n', '\r':
			flush()
		default:
			cur += string(c)
		}
	}
	flush()
	return out
}

func parseSeq(toks []string, pos int) ([]*sexp, int, bool) {
	var out []*sexp
	for pos < len(toks) {
		switch toks[pos] {
		case ")":
			return out, pos, true
		case "(":
			xs, p, ok := parseSeq(toks, pos+1)
			if !ok || p >= len(toks) || toks[p] != ")" {
				return nil, 0, false
			}
			out = append(out, &sexp{list: xs, isL: true})
			pos = p + 1
		default:
			out = append(out, &sexp{atom: toks[pos]})
			pos++
		}
	}
	return out, pos, true
}

func parseAll(line string) ([]*sexp, bool) {
	toks := tokenize(line)
	xs, p, ok := parseSeq(toks, 0)
	if !ok || p != len(toks) {
		return nil, false
	}
	return xs, true
}

// ---------------------------------------------------------------- names

type badOp struct{ why string }

func bad(format string, a ...interface{}) { panic(badOp{fmt.Sprintf(format, a...)}) }

type illTyped struct{}

func hexv(c byte) int {
	switch {
	case '0' <= c && c <= '9':
		return int(c - '0')
	case 'a' <= c && c <= 'f':
		return int(c-'a') + 10
	case 'A' <= c && c <= 'F':
		return int(c-'A') + 10
	}
	return -1
}

func unesc(s string) string {
	if s == "%" {
		return ""
	}
	var b []byte
	for i := 0; i < len(s); i++ {
		c := s[i]
		if c == '%' {
			if i+2 >= len(s) {
				bad("bad escape in %q", s)
			}
			x, y := hexv(s[i+1]), hexv(s[i+2])
			if x < 0 || y < 0 {
				bad("bad escape in %q", s)
			}
			b = append(b, byte(x*16+y))
			i += 2
			continue
		}
		if c >= 128 {
			bad("non-ascii atom %q", s)
		}
		b = append(b, c)
	}
	return string(b)
}

func plain(c byte) bool {
	return ('0' <= c && c <= '9') || ('A' <= c && c <= 'Z') || ('a' <= c && c <= 'z') || c == '_'
}

func esc(s string) string {
	if s == "" {
		return "%"
	}
	var sb strings.Builder
	for i := 0; i < len(s); i++ {
		c := s[i]
		if plain(c) {
			sb.WriteByte(c)
		} else {
			fmt.Fprintf(&sb, "%%%02X", c)
		}
	}
	return sb.String()
}

// ---------------------------------------------------------------- types

type universe struct {
	pkgs   map[int]*types.Package
	pkgIdx map[*types.Package]int
	named  map[string]*types.Named // key pkg/name
	under  map[string]string       // key -> wire of underlying
}

func newUniverse() *universe {
	return &universe{map[int]*types.Package{}, map[*types.Package]int{}, map[string]*types.Named{}, map[string]string{}}
}

func (u *universe) pkg(i int) *types.Package {
	if p, ok := u.pkgs[i]; ok {
		return p
	}
	var p *types.Package
	switch i {
	case 0:
		p = types.NewPackage("verif/self", "self")
	case 1:
		p = types.NewPackage("ext/a/lib", "lib")
	case 2:
		p = types.NewPackage("ext/b/lib", "lib")
	default:
		p = types.NewPackage(fmt.Sprintf("ext/q%d", i), fmt.Sprintf("q%d", i))
	}
	u.pkgs[i] = p
	u.pkgIdx[p] = i
	return p
}

var basics = map[string]types.BasicKind{
	"bool": types.Bool, "int": types.Int, "i8": types.Int8, "i16": types.Int16, "i32": types.Int32, "i64": types.Int64,
	"uint": types.Uint, "u8": types.Uint8, "u16": types.Uint16, "u32": types.Uint32, "u64": types.Uint64,
	"uintptr": types.Uintptr, "f32": types.Float32, "f64": types.Float64, "c64": types.Complex64,
	"c128": types.Complex128, "string": types.String,
}

var basicAtom = map[types.BasicKind]string{}

func init() {
	for a, k := range basics {
		basicAtom[k] = a
	}
}

func (u *universe) ty(e *sexp) types.Type {
	if !e.isL {
		switch e.atom {
		case "func":
			return types.NewSignatureType(nil, nil, nil, nil, nil, false)
		case "iface":
			return types.NewInterfaceType(nil, nil).Complete()
		case "error":
			return types.Universe.Lookup("error").Type()
		}
		k, ok := basics[e.atom]
		if !ok {
			bad("unknown type atom %q", e.atom)
		}
		return types.Typ[k]
	}
	if len(e.list) == 0 || e.list[0].isL {
		bad("bad type")
	}
	a := e.list[1:]
	switch e.list[0].atom {
	case "if":
		// interface{ M1(); M2() … }
		var ms []*types.Func
		for _, m := range atoms(a) {
			ms = append(ms, types.NewFunc(token.NoPos, u.pkg(0), unesc(m), methodSig(unesc(m), nil)))
		}
		return types.NewInterfaceType(ms, nil).Complete()
	case "nm", "nmm", "nmp":
		if len(a) < 3 || (e.list[0].atom == "nm" && len(a) != 3) || a[0].isL || a[1].isL {
			bad("bad nm")
		}
		pi, err := strconv.Atoi(a[0].atom)
		if err != nil || pi < 0 {
			bad("bad nm pkg")
		}
		name := unesc(a[1].atom)
		under := u.ty(a[2])
		key := fmt.Sprintf("%d/%s", pi, name)
		w := u.show(under)
		if n, ok := u.named[key]; ok {
			if u.under[key] != w {
				panic(illTyped{})
			}
			return n
		}
		n := types.NewNamed(types.NewTypeName(token.NoPos, u.pkg(pi), name, nil), under.Underlying(), nil)
		for _, m := range atoms(a[3:]) {
			// nmm: value receiver (T and *T have the method); nmp: pointer receiver (only *T has it, and the method set of
			// T is empty although the type declares methods)
			var rt types.Type = n
			if e.list[0].atom == "nmp" {
				rt = types.NewPointer(n)
			}
			recv := types.NewVar(token.NoPos, u.pkg(pi), "x", rt)
			n.AddMethod(types.NewFunc(token.NoPos, u.pkg(pi), unesc(m), methodSig(unesc(m), recv)))
		}
		u.named[key] = n
		u.under[key] = w
		return n
	case "p":
		if len(a) != 1 {
			bad("bad p")
		}
		return types.NewPointer(u.ty(a[0]))
	case "sl":
		if len(a) != 1 {
			bad("bad sl")
		}
		return types.NewSlice(u.ty(a[0]))
	case "ch", "chr", "chs":
		if len(a) != 1 {
			bad("bad ch")
		}
		dir := map[string]types.ChanDir{"ch": types.SendRecv, "chr": types.RecvOnly, "chs": types.SendOnly}[e.list[0].atom]
		return types.NewChan(dir, u.ty(a[0]))
	case "ar":
		if len(a) != 2 || a[0].isL {
			bad("bad ar")
		}
		n, err := strconv.Atoi(a[0].atom)
		if err != nil || n < 0 {
			bad("bad ar len")
		}
		return types.NewArray(u.ty(a[1]), int64(n))
	case "m":
		if len(a) != 2 {
			bad("bad m")
		}
		return types.NewMap(u.ty(a[0]), u.ty(a[1]))
	case "st", "stt":
		var tags []string
		if e.list[0].atom == "stt" {
			if len(a) < 2 || a[0].isL {
				bad("bad stt")
			}
			tags = []string{"json:\"" + unesc(a[0].atom) + "\""}
			a = a[1:]
		}
		fs := make([]*types.Var, len(a))
		for i, f := range a {
			fs[i] = types.NewField(token.NoPos, u.pkg(0), fmt.Sprintf("F%d", i), u.ty(f), false)
		}
		return types.NewStruct(fs, tags)
	}
	bad("unknown type head %q", e.list[0].atom)
	return nil
}

// methodSig: M() for every method name, Error() string for Error (so that the type implements error).
func methodSig(name string, recv *types.Var) *types.Signature {
	var res *types.Tuple
	if name == "Error" || name == "String" {
		res = types.NewTuple(types.NewVar(token.NoPos, nil, "", types.Typ[types.String]))
	}
	return types.NewSignatureType(recv, nil, nil, nil, res, false)
}

// show prints a type in the wire form with `,` for spaces. For a named type the underlying type
// printed is the one it was declared with on the wire.
func (u *universe) show(t types.Type) string {
	switch t := t.(type) {
	case *types.Basic:
		if a, ok := basicAtom[t.Kind()]; ok {
			return a
		}
		return "?" + t.Name()
	case *types.Named:
		if t.Obj().Pkg() == nil && t.Obj().Name() == "error" {
			return "error"
		}
		key := fmt.Sprintf("%d/%s", u.pkgIdx[t.Obj().Pkg()], t.Obj().Name())
		return fmt.Sprintf("(nm,%d,%s,%s)", u.pkgIdx[t.Obj().Pkg()], esc(t.Obj().Name()), u.under[key])
	case *types.Pointer:
		return "(p," + u.show(t.Elem()) + ")"
	case *types.Slice:
		return "(sl," + u.show(t.Elem()) + ")"
	case *types.Chan:
		return "(" + map[types.ChanDir]string{types.SendRecv: "ch", types.RecvOnly: "chr", types.SendOnly: "chs"}[t.Dir()] + "," + u.show(t.Elem()) + ")"
	case *types.Array:
		return fmt.Sprintf("(ar,%d,%s)", t.Len(), u.show(t.Elem()))
	case *types.Map:
		return "(m," + u.show(t.Key()) + "," + u.show(t.Elem()) + ")"
	case *types.Struct:
		s := "(st"
		if t.NumFields() > 0 && t.Tag(0) != "" {
			s = "(stt," + esc(strings.TrimSuffix(strings.TrimPrefix(t.Tag(0), "json:\""), "\""))
		}
		for i := 0; i < t.NumFields(); i++ {
			s += "," + u.show(t.Field(i).Type())
		}
		return s + ")"
	case *types.Signature:
		return "func"
	case *types.Interface:
		if t.NumMethods() == 0 {
			return "iface"
		}
		s := "(if"
		for i := 0; i < t.NumMethods(); i++ { // sorted by go/types
			s += "," + esc(t.Method(i).Name())
		}
		return s + ")"
	}
	return "?"
}

func (u *universe) typs(es []*sexp) []types.Type {
	out := make([]types.Type, len(es))
	for i, e := range es {
		out[i] = u.ty(e)
	}
	return out
}

func (u *universe) showTyps(ts []types.Type) string {
	ss := make([]string, len(ts))
	for i, t := range ts {
		ss[i] = u.show(t)
	}
	return "[" + strings.Join(ss, ",") + "]"
}

// ---------------------------------------------------------------- ops

func atoms(es []*sexp) []string {
	out := make([]string, len(es))
	for i, e := range es {
		if e.isL {
			bad("atom expected")
		}
		out[i] = e.atom
	}
	return out
}

func bool01(s string) bool {
	switch s {
	case "0":
		return false
	case "1":
		return true
	}
	bad("bad bool %q", s)
	return false
}

func errClass(err error) string {
	msg := err.Error()
	if strings.HasPrefix(msg, "ambigious function names for type ") {
		i := strings.LastIndex(msg, "= (")
		body := strings.TrimSuffix(msg[i+3:], ")")
		parts := strings.Split(body, " | ")
		if len(parts) == 2 {
			return "err:dup:" + esc(parts[0]) + ":" + esc(parts[1])
		}
		return "err:dup:?"
	}
	if strings.HasPrefix(msg, "conflicting function names ") {
		rest := strings.TrimPrefix(msg, "conflicting function names ")
		i := strings.Index(rest, "(")
		if i >= 0 {
			return "err:conflict:" + esc(rest[:i])
		}
		return "err:conflict:?"
	}
	return "err:other:" + esc(msg)
}

func runTm(args []*sexp) string {
	if len(args) == 0 || !args[0].isL {
		bad("tm: cfg expected")
	}
	c := args[0].list
	if len(c) != 5 || c[0].atom != "cfg" || c[1].isL || !c[2].isL || c[3].isL || c[4].isL {
		bad("tm: bad cfg")
	}
	u := newUniverse()
	var reserved []string
	for _, r := range atoms(c[2].list) {
		reserved = append(reserved, unesc(r))
	}
	tab := derive.VerifNewTable(u.pkg(0), unesc(c[1].atom), reserved, bool01(c[3].atom), bool01(c[4].atom))
	var answers []string
	for _, op := range args[1:] {
		if !op.isL || len(op.list) == 0 || op.list[0].isL {
			bad("tm: bad op")
		}
		a := op.list[1:]
		switch op.list[0].atom {
		case "set":
			if len(a) < 1 || a[0].isL {
				bad("set: name expected")
			}
			name, err := tab.SetFuncName(unesc(a[0].atom), u.typs(a[1:])...)
			if err != nil {
				answers = append(answers, errClass(err))
			} else {
				answers = append(answers, "ok:"+esc(name))
			}
		case "get":
			answers = append(answers, esc(tab.GetFuncName(u.typs(a)...)))
		case "gen":
			ts := u.typs(a)
			func() {
				defer func() {
					if r := recover(); r != nil {
						if _, ok := r.(badOp); ok {
							panic(r)
						}
						answers = append(answers, "panic")
					}
				}()
				tab.Generating(ts...)
				answers = append(answers, "ok")
			}()
		case "togen":
			s := "{"
			for _, ts := range tab.ToGenerate() {
				s += u.showTyps(ts)
			}
			answers = append(answers, s+"}")
		case "done":
			answers = append(answers, strconv.FormatBool(tab.Done()))
		case "nameof":
			n, ok := tab.NameOf(u.typs(a)...)
			if ok {
				answers = append(answers, esc(n))
			} else {
				answers = append(answers, "none")
			}
		case "newname":
			answers = append(answers, esc(tab.NewName(u.typs(a)...)))
		case "names":
			ns := tab.Names()
			for i := range ns {
				ns[i] = esc(ns[i])
			}
			answers = append(answers, "{"+strings.Join(ns, ",")+"}")
		default:
			bad("tm: unknown op %q", op.list[0].atom)
		}
	}
	return "impl=" + strings.Join(answers, ";")
}

func pairs(es []*sexp) [][2]string {
	out := make([][2]string, len(es))
	for i, e := range es {
		if !e.isL || len(e.list) != 2 || e.list[0].isL || e.list[1].isL {
			bad("pair expected")
		}
		out[i] = [2]string{unesc(e.list[0].atom), unesc(e.list[1].atom)}
	}
	return out
}

func sortedPlugins(ps [][2]string) []derive.Plugin {
	pl := make([]derive.Plugin, len(ps))
	for i, p := range ps {
		pl[i] = derive.NewPlugin(p[0], p[1], nil)
	}
	derive.VerifSortPlugins(pl)
	return pl
}

func runSortPlugins(args []*sexp) string {
	ps := pairs(args)
	pl := sortedPlugins(ps)
	seen := map[string]bool{}
	distinct := true
	pf := make([]string, len(pl))
	nm := make([]string, len(pl))
	for i, p := range pl {
		pf[i] = esc(p.GetPrefix())
		nm[i] = esc(p.Name())
		if seen[p.GetPrefix()] {
			distinct = false
		}
		seen[p.GetPrefix()] = true
	}
	names := "-"
	if distinct {
		names = strings.Join(nm, ",")
	}
	return "impl=" + strings.Join(pf, ",") + "|" + names
}

// runDispatch sorts with the real sortPlugins and then applies the first-match loop of pkg.Add
// (three lines that cannot be reached through a hook; the real loop is exercised by T2).
func runDispatch(args []*sexp) string {
	as := atoms(args)
	if len(as) < 1 {
		bad("dispatch: call name expected")
	}
	call := unesc(as[0])
	var ps [][2]string
	for i, p := range as[1:] {
		ps = append(ps, [2]string{fmt.Sprintf("p%d", i), unesc(p)})
	}
	for _, p := range sortedPlugins(ps) {
		if strings.HasPrefix(call, p.GetPrefix()) {
			return "impl=" + esc(p.GetPrefix())
		}
	}
	return "impl=none"
}

func runEq(args []*sexp) string {
	if len(args) != 2 || !args[0].isL || !args[1].isL {
		bad("eq: two lists expected")
	}
	u := newUniverse()
	a, b := u.typs(args[0].list), u.typs(args[1].list)
	ident := len(a) == len(b)
	if ident {
		for i := range a {
			if !types.Identical(a[i], b[i]) {
				ident = false
			}
		}
	}
	return fmt.Sprintf("impl=%v,%v", derive.VerifEq(a, b), ident)
}

func runImports(args []*sexp) (res string) {
	ps := pairs(args)
	p := derive.VerifNewPrinter("self")
	var as []string
	defer func() {
		if r := recover(); r != nil {
			if _, ok := r.(badOp); ok {
				panic(r)
			}
			res = "impl=" + strings.Join(append(as, "panic"), ",")
		}
	}()
	for _, x := range ps {
		imp := p.NewImport(x[0], x[1])
		as = append(as, esc(imp()))
	}
	tab := p.Imports()
	keys := make([]string, 0, len(tab))
	for k := range tab {
		keys = append(keys, k)
	}
	sort.Strings(keys)
	es := make([]string, len(keys))
	for i, k := range keys {
		es[i] = esc(k) + "=" + esc(tab[k])
	}
	return "impl=" + strings.Join(as, ",") + "|" + strings.Join(es, ",")
}

func runOp(name string, args []*sexp) (res string) {
	defer func() {
		if r := recover(); r != nil {
			switch r.(type) {
			case badOp:
				res = "bad-op"
			case illTyped:
				res = "ill-typed"
			default:
				panic(r)
			}
		}
	}()
	switch name {
	case "tm":
		return runTm(args)
	case "sortplugins":
		return runSortPlugins(args)
	case "dispatch":
		return runDispatch(args)
	case "eq":
		return runEq(args)
	case "imports":
		return runImports(args)
	case "unvendor":
		as := atoms(args)
		if len(as) != 1 {
			bad("unvendor: one path")
		}
		return "impl=" + esc(derive.VerifUnvendor(unesc(as[0])))
	}
	return "skip"
}

func main() {
	in := bufio.NewReaderSize(os.Stdin, 1<<20)
	out := bufio.NewWriterSize(os.Stdout, 1<<20)
	defer out.Flush()
	for {
		line, err := in.ReadString('\n')
		if len(line) > 0 {
			xs, ok := parseAll(line)
			switch {
			case !ok:
				fmt.Fprintln(out, "bad-line")
			case len(xs) == 0:
			case len(xs) >= 3 && !xs[0].isL && xs[0].atom == "op" && !xs[1].isL && !xs[2].isL:
				fmt.Fprintf(out, "%s %s\n", xs[1].atom, runOp(xs[2].atom, xs[3:]))
			default:
				// decl / ty lines of the shared protocol are not needed here
			}
		}
		if err != nil {
			return
		}
	}
}
