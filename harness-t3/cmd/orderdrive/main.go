// Command orderdrive answers the `genorder` op lines documented in /verif/lean/Driver/OpsOrder.lean from the
// REAL ordering of the packages of one invocation (sort by path, then importedFirst) through the hook
// derive.VerifGenerationOrder (derive/verif_hooks_order.go, build tag verif): one `<id> impl=<answer>` line
// per op line. The Lean driver answers the same lines from the model G/Order; vlib/order.py diffs the two.
//
//	op <id> genorder (<path> <dir> <named 0|1> (<import>…)) …   →   <id> impl=<path>,<path>,…
package main

import (
	"bufio"
	"fmt"
	"os"
	"strings"

	"github.com/awalterschulze/goderive/derive"
)

// parsePkgs parses the tokens after `op <id> genorder`; ok is false on any deviation from the grammar.
func parsePkgs(toks []string) (pkgs []derive.VerifPackage, ok bool) {
	pos := 0
	atom := func() (string, bool) {
		if pos >= len(toks) || toks[pos] == "(" || toks[pos] == ")" {
			return "", false
		}
		pos++
		return toks[pos-1], true
	}
	lit := func(s string) bool {
		if pos < len(toks) && toks[pos] == s {
			pos++
			return true
		}
		return false
	}
	seen := map[string]bool{}
	for pos < len(toks) {
		if !lit("(") {
			return nil, false
		}
		var p derive.VerifPackage
		var named string
		var ok1, ok2, ok3 bool
		p.Path, ok1 = atom()
		p.Dir, ok2 = atom()
		named, ok3 = atom()
		if !ok1 || !ok2 || !ok3 || (named != "0" && named != "1") || !lit("(") {
			return nil, false
		}
		p.Named = named == "1"
		for !lit(")") {
			i, ok := atom()
			if !ok {
				return nil, false
			}
			p.Imports = append(p.Imports, i)
		}
		if !lit(")") || seen[p.Path] {
			return nil, false
		}
		seen[p.Path] = true
		pkgs = append(pkgs, p)
	}
	return pkgs, true
}

func tokenize(s string) []string {
	s = strings.ReplaceAll(s, "(", " ( ")
	s = strings.ReplaceAll(s, ")", " ) ")
	return strings.Fields(s)
}

func main() {
	in := bufio.NewReaderSize(os.Stdin, 1<<20)
	out := bufio.NewWriter(os.Stdout)
	defer out.Flush()
	sc := bufio.NewScanner(in)
	sc.Buffer(make([]byte, 1<<20), 1<<26)
	for sc.Scan() {
		toks := tokenize(sc.Text())
		if len(toks) == 0 {
			continue
		}
		if len(toks) < 3 || toks[0] != "op" {
			fmt.Fprintln(out, "bad-line")
			continue
		}
		id := toks[1]
		if toks[2] != "genorder" {
			fmt.Fprintf(out, "%s bad-op\n", id)
			continue
		}
		pkgs, ok := parsePkgs(toks[3:])
		if !ok {
			fmt.Fprintf(out, "%s bad-op\n", id)
			continue
		}
		fmt.Fprintf(out, "%s impl=%s\n", id, strings.Join(derive.VerifGenerationOrder(pkgs), ","))
	}
}
