#!/bin/bash
# MANIFEST.setup_cmd: builds the framework from files on disk only (offline).
set -e
cd "$(dirname "$0")"
export GOPROXY=off GOFLAGS=-mod=mod
unset GOSUMDB
(cd lean && lake build driver)
# every property module that exists (each check also builds its own target)
for f in lean/GoderiveModel/Props/C*.lean; do
  m=$(basename "$f" .lean)
  (cd lean && lake build "GoderiveModel.Props.$m") || echo "setup: WARNING: GoderiveModel.Props.$m does not build"
done
python3 - <<'PY'
import sys
sys.path.insert(0, ".")
from vlib import common
common.build_tools()
common.build_goderive()
print("setup ok")
PY
