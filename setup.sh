#!/bin/bash
# MANIFEST.setup_cmd: builds the framework from files on disk only (offline).
set -e
cd "$(dirname "$0")"
export GOPROXY=off GOFLAGS=-mod=mod
unset GOSUMDB
# regenerate the source-fact files (T4) from /repo's current tree before building the proofs that read them
python3 - <<'PY' || echo "setup: WARNING: fact regeneration failed (the checks regenerate them again)"
import sys
sys.path.insert(0, ".")
from vlib import common, runs, conc
tool = common.tool_path("facts")
p = common.sh([tool, "-repo", common.REPO, "-out", runs.FACTS_LEAN], timeout=300)
print("facts:", p.stdout.strip()[:200], p.returncode)
class R:  # minimal report stand-in
    def violation(self, *a, **k): print("setup: conc facts:", a[0][:300])
conc.prepare(R())
PY
(cd lean && lake build driver)
# every property module that exists (each check also builds its own target)
for f in lean/GoderiveModel/Props/C*.lean; do
  m=$(basename "$f" .lean)
  (cd lean && lake build "GoderiveModel.Props.$m") || echo "setup: WARNING: GoderiveModel.Props.$m does not build"
done
python3 - <<'PY'
import sys
sys.path.insert(0, ".")
from vlib import common
common.build_tools()
common.build_goderive()
print("setup ok")
PY
