/-
Layer S: what the function emitted by plugin/gostring for a type `T` RETURNS — a text in a little
language of Go — and what that text denotes.

* `G τ` is a deep embedding of the little language the plugin prints:

    func() T { this := &T{} | new(R) | make(T, n) | make(T) | T{}
               this.F = e | *this = e | this[i] = e | this[lit] = e | keyN := e; this[keyN] = e
               return this | *this | nil | e }()
    func (v B) *B { return &v }(lit)        T{lit, …}   map[K]V{lit: lit, …}   lit

  `τ` is the type of leaf texts (what `fmt`'s `%#v` prints for a value of a basic type). The lexical
  layer is a parameter `Lex τ` (`print` = `%#v`, `parse` = the Go compiler reading the constant
  back at that basic type); its contract `Lex.Round` is stated here, exercised by the tie on every
  leaf, and never proved about the real `fmt`/compiler.
* `goString env L T v : G τ` mirrors `genFunc`/`genStatement`/`genField` of
  /repo/plugin/gostring/gostring.go branch by branch (`top` = `genStatement`, `field` = `genField`):
  whole-container `%#v` shortcuts when the element type is *syntactically* a basic type, nil guards
  (`return nil` at the top, NO statement for a nil field), the three map forms, pointer to struct vs
  pointer to anything else, arrays.
* `evalG env L e n` is the semantics of the language: what the Go compiler + runtime make of the
  text, threading the next fresh address `n` through every `&T{}`, `new`, `make`, composite literal
  and `&v`. `Res.panic` stands for "does not compile" as well as for a run-time panic.
-/
import GoderiveModel.U.Ty
import GoderiveModel.U.Val
import GoderiveModel.U.Float
import GoderiveModel.U.Typing
import GoderiveModel.S.Equal
import GoderiveModel.Spec.StructEq

namespace Goderive
open Val

namespace GoString

/-! ## The lexical layer (parameter) -/

/-- `print b v` : what `%#v` prints for the value `v` of basic type `b`;
`parse b t` : the value the Go compiler gives the constant expression `t` in a context of type `b`
(`none`: rejected). -/
structure Lex (τ : Type) where
  print : Basic → Val → τ
  parse : Basic → τ → Option Val

def fltFinite (w bits : Nat) : Bool := fltExp w bits != 2 ^ (expBits w) - 1

/-- no NaN and no ±Inf anywhere ("values with finite floats") -/
def finiteFloats : Val → Bool
  | .flt w b => fltFinite w b
  | .cplx w a b => fltFinite w a && fltFinite w b
  | .ptr _ v => finiteFloats v
  | .slice _ _ es => finiteFloats es
  | .arr es => finiteFloats es
  | .struct fs => finiteFloats fs
  | .map _ es => finiteFloats es
  | .pair k v => finiteFloats k && finiteFloats v
  | .scons h t => finiteFloats h && finiteFloats t
  | _ => true

/-- **The stated contract of the lexical layer**: a finite value of a basic type, printed with `%#v`
and read back by the compiler at that type, is a value of that type equal to the original under Go's
`==` (`leafEq`; so `-0.0`, printed `-0` and read back as `+0`, is within the contract). -/
def Lex.Round {τ : Type} (L : Lex τ) : Prop :=
  ∀ b v, basicHasType b v = true → finiteFloats v = true →
    ∃ v', L.parse b (L.print b v) = some v' ∧ basicHasType b v' = true ∧ leafEq v v' = true

/-! ## The little language -/

inductive G (τ : Type) where
  -- expressions
  | leaf (b : Basic) (txt : τ)             -- `%#v` of a value of basic type `b`
  | sliceLit (T : Ty) (elems : G τ)        -- `%#v` of a non-nil slice of basics: `T{l, …}` (spine of leaves)
  | arrayLit (T : Ty) (elems : G τ)        -- `%#v` of an array of basics
  | mapLit (T : Ty) (entries : G τ)        -- `%#v` of a non-nil map basic → basic (spine of `kv`)
  | kv (k v : G τ)
  | enil
  | econs (hd tl : G τ)
  | addrOf (b : Basic) (arg : G τ)         -- `func (v B) *B { return &v }(lit)`
  | addrEmpty (T : Ty)                     -- `&T{}` of a field-less struct (in `return &T{}`)
  | call (T : Ty) (body : G τ)             -- `func() T { body }()`
  | bad                                    -- the generator reports an error: no text
  -- function bodies: `seq stmt rest` … ending in a return
  | seq (s rest : G τ)
  | retThis                                -- `return this`
  | retDeref                               -- `return *this`
  | retNil                                 -- `return nil`
  | ret (e : G τ)                          -- `return e`
  -- statements
  | skip                                   -- nothing printed (a nil field)
  | newStruct (T : Ty)                     -- `this := &T{}`
  | newPtr (R : Ty)                        -- `this := new(R)`
  | makeSlice (T : Ty) (n : Nat)           -- `this := make(T, n)`
  | makeMap (T : Ty)                       -- `this := make(T)`
  | arrZero (T : Ty)                       -- `this := T{}`
  | setField (i : Nat) (exported : Bool) (e : G τ)   -- `this.F_i = e`
  | setDeref (e : G τ)                     -- `*this = e`
  | setIndex (i : Nat) (e : G τ)           -- `this[i] = e`
  | setKeyLit (k e : G τ)                  -- `this[lit] = e`
  | keyDecl (j : Nat) (e : G τ)            -- `keyJ := e`
  | setKeyVar (j : Nat) (e : G τ)          -- `this[keyJ] = e`
  deriving Repr, Inhabited

/-- where `genField` writes: its `this` argument is `this.F` or `*this` -/
inductive Tgt where
  | fld (i : Nat) (exported : Bool)
  | deref
  deriving Repr, Inhabited, DecidableEq

def assign {τ : Type} (t : Tgt) (e : G τ) : G τ :=
  match t with
  | .fld i ex => .setField i ex e
  | .deref => .setDeref e

/-! ## Small helpers on spines -/

def sreplicate : Nat → Val → Val
  | 0, _ => .snil
  | n + 1, v => .scons v (sreplicate n v)

/-- replace position `i` of a spine (`none`: out of range) -/
def setNth : Nat → Val → Val → Option Val
  | 0, v, .scons _ t => some (.scons v t)
  | i + 1, v, .scons h t => (setNth i v t).map (.scons h)
  | _, _, _ => none

/-- `m[k] = v`: replace the entry with an `==` key or append -/
def mapSet (k v : Val) : Val → Val
  | .scons (.pair k' w) rest =>
    if goEq k k' then .scons (.pair k' v) rest else .scons (.pair k' w) (mapSet k v rest)
  | _ => .scons (.pair k v) .snil

/-- `_, isBasic := t.(*types.Basic)`: a *syntactic* test — a named basic type is not `*types.Basic` -/
def isBasicTy : Ty → Option Basic
  | .basic b => some b
  | _ => none

/-! ## Zero values, cut at depth one

`&T{}`, `new(T)`, `make([]E, n)` and `[n]E{}` create zero values. Components of pointer, slice and
map type are `nil`, components of basic type their zero; for a component of struct or array type the
placeholder `snil` stands for "the zero value of that type": the emitted text overwrites every such
component unconditionally (genField guards only pointers, slices and maps), so no placeholder can
survive in a result — `gostring_roundtrip` proves exactly that (a placeholder is never `structEq`
to anything). This keeps the definition free of fuel for recursive declarations. -/
def zero0 (env : Env) (T : Ty) : Val :=
  match env.under T with
  | .basic .bool => .bool false
  | .basic (.int _ _) => .int 0
  | .basic (.float w) => .flt w 0
  | .basic (.complex w) => .cplx (w / 2) 0 0
  | .basic .string => .str []
  | .ptr _ => .nilv
  | .slice _ => .nilv
  | .map _ _ => .nilv
  | _ => .snil

def zeroFields (env : Env) : Ty → Val
  | .fcons T rest => .scons (zero0 env T) (zeroFields env rest)
  | _ => .snil

def zero1 (env : Env) (T : Ty) : Val :=
  match env.under T with
  | .array n E => .arr (sreplicate n (zero0 env E))
  | .struct fs => .struct (zeroFields env fs)
  | _ => zero0 env T

/-! ## `goString`: the text the emitted function returns for a value -/

/-- which fields of the struct type `R` are unexported (known for declared types only) -/
def privMaskOf (env : Env) : Ty → List Bool
  | .named i => match env.decl? i with
      | some d => d.privMask
      | none => []
  | _ => []

def isExternal (env : Env) : Ty → Bool
  | .named i => match env.decl? i with
      | some d => d.external
      | none => false
  | _ => false

def exportedAt (mask : List Bool) (i : Nat) : Bool := !(mask.getD i false)

/-- `%#v` of the elements of a container of basic type `b` -/
def leaves {τ : Type} (L : Lex τ) (b : Basic) : Val → G τ
  | .scons x r => .econs (.leaf b (L.print b x)) (leaves L b r)
  | _ => .enil

/-- `%#v` of the entries of a map from basic `bk` to basic `bv` -/
def entryLeaves {τ : Type} (L : Lex τ) (bk bv : Basic) : Val → G τ
  | .scons (.pair k v) r => .econs (.kv (.leaf bk (L.print bk k)) (.leaf bv (L.print bv v))) (entryLeaves L bk bv r)
  | _ => .enil

mutual
/-- `genStatement(T, "this")`: the body printed between `func() T {` and `}()` -/
def top {τ : Type} (env : Env) (L : Lex τ) (T : Ty) (v : Val) : G τ :=
  match env.under T with
  | .basic b => .ret (.leaf b (L.print b v))
  | .ptr R =>
    match v with
    | .nilv => .retNil
    | .ptr _ x =>
      match env.under R with
      | .struct fs =>
        if isExternal env R && (privMaskOf env R).any id then .bad      -- "private fields of external structs not supported"
        else if fs = .fnil then .ret (.addrEmpty R)
        else
          match x with
          | .struct xs => .seq (.newStruct R) (fieldsG env L fs (privMaskOf env R) xs 0 .retThis)
          | _ => .bad
      | _ => .seq (.newPtr R) (.seq (field env L R x .deref) .retThis)
    | _ => .bad
  | .struct fs =>
    match v with
    | .struct xs => .seq (.newStruct T) (fieldsG env L fs (privMaskOf env T) xs 0 .retDeref)
    | _ => .bad
  | .slice E =>
    match v with
    | .nilv => .retNil
    | .slice _ _ xs =>
      match isBasicTy E with
      | some b => .ret (.sliceLit T (leaves L b xs))
      | none => .seq (.makeSlice T xs.slen) (elemsG env L E xs 0 .retThis)
    | _ => .bad
  | .array _ E =>
    match v with
    | .arr xs =>
      match isBasicTy E with
      | some b => .ret (.arrayLit T (leaves L b xs))
      | none => .seq (.arrZero T) (elemsG env L E xs 0 .retThis)
    | _ => .bad
  | .map K V =>
    match v with
    | .nilv => .retNil
    | .map _ es =>
      match isBasicTy K, isBasicTy V with
      | some bk, some bv => .ret (.mapLit T (entryLeaves L bk bv es))
      | some bk, none => .seq (.makeMap T) (entriesLitG env L bk V es .retThis)
      | none, _ => .seq (.makeMap T) (entriesVarG env L K V es 0 .retThis)
    | _ => .bad
  | _ => .bad                                     -- "unsupported root type"
termination_by (sizeOf v, 0)

/-- the `for _, field := range fields { genField(field.Type, "this."+name) }` loop, then `k` -/
def fieldsG {τ : Type} (env : Env) (L : Lex τ) (fs : Ty) (mask : List Bool) (xs : Val) (i : Nat) (k : G τ) : G τ :=
  match fs, xs with
  | .fcons F rest, .scons x r => .seq (field env L F x (.fld i (exportedAt mask i))) (fieldsG env L rest mask r (i + 1) k)
  | _, _ => k
termination_by (sizeOf xs, 2)

/-- the run-time loop `for i := range this { "this[%d] = %s", i, helper(this[i]) }`, then `k` -/
def elemsG {τ : Type} (env : Env) (L : Lex τ) (E : Ty) (xs : Val) (i : Nat) (k : G τ) : G τ :=
  match xs with
  | .scons x r => .seq (.setIndex i (.call E (top env L E x))) (elemsG env L E r (i + 1) k)
  | _ => k
termination_by (sizeOf xs, 2)

/-- `for k, v := range this { "this[%#v] = %s", k, helper(v) }` (basic key, non-basic value) -/
def entriesLitG {τ : Type} (env : Env) (L : Lex τ) (bk : Basic) (V : Ty) (es : Val) (k : G τ) : G τ :=
  match es with
  | .scons (.pair key v) r =>
    .seq (.setKeyLit (.leaf bk (L.print bk key)) (.call V (top env L V v))) (entriesLitG env L bk V r k)
  | _ => k
termination_by (sizeOf es, 2)

/-- `for k, v := range this { "key%d := %s", i, helper(k); "this[key%d] = %s", i, helper(v); i++ }` -/
def entriesVarG {τ : Type} (env : Env) (L : Lex τ) (K V : Ty) (es : Val) (i : Nat) (k : G τ) : G τ :=
  match es with
  | .scons (.pair key v) r =>
    .seq (.keyDecl i (.call K (top env L K key)))
      (.seq (.setKeyVar i (.call V (top env L V v))) (entriesVarG env L K V r (i + 1) k))
  | _ => k
termination_by (sizeOf es, 2)

/-- `genField(F, tgt)`: the statement printed for a component of type `F` holding `x` -/
def field {τ : Type} (env : Env) (L : Lex τ) (F : Ty) (x : Val) (tgt : Tgt) : G τ :=
  match env.under F with
  | .basic b => assign tgt (.leaf b (L.print b x))
  | .ptr R =>
    match x with
    | .nilv => .skip                                              -- `if this.F != nil { … }`
    | .ptr a y =>
      match isBasicTy R with
      | some b => assign tgt (.addrOf b (.leaf b (L.print b y)))
      | none => assign tgt (.call (.ptr R) (top env L (.ptr R) (.ptr a y)))  -- helper for the *underlying* pointer type
    | _ => .bad
  | .slice E =>
    match x with
    | .nilv => .skip
    | .slice a sp xs =>
      match isBasicTy E with
      | some b => assign tgt (.sliceLit F (leaves L b xs))
      | none => assign tgt (.call F (top env L F (.slice a sp xs)))
    | _ => .bad
  | .array _ E =>
    match x with
    | .arr xs =>
      match isBasicTy E with
      | some b => assign tgt (.arrayLit F (leaves L b xs))
      | none => assign tgt (.call F (top env L F (.arr xs)))
    | _ => .bad
  | .map K V =>
    match x with
    | .nilv => .skip
    | .map a es =>
      match isBasicTy K, isBasicTy V with
      | some bk, some bv => assign tgt (.mapLit F (entryLeaves L bk bv es))
      | _, _ => assign tgt (.call F (top env L F (.map a es)))
    | _ => .bad
  | .struct _ => assign tgt (.call F (top env L F x))
  | _ => .bad                                     -- "unsupported field type"
termination_by (sizeOf x, 1)
end

/-- the text `deriveGoString(v)` returns for `v : T` (`genFunc`) -/
def goString {τ : Type} (env : Env) (L : Lex τ) (T : Ty) (v : Val) : G τ := .call T (top env L T v)

/-! ## `evalG`: what the Go compiler and runtime make of a text -/

/-- local variables of one function literal: `this` (the placeholder `snil` before its declaration)
and the `keyN` variables -/
structure Frame where
  this : Val := .snil
  keys : List (Nat × Val) := []
  deriving Repr, Inhabited

abbrev St := Nat   -- next fresh address

mutual
/-- expressions -/
def evalE {τ : Type} (env : Env) (L : Lex τ) (e : G τ) (n : St) : Res (Val × St) :=
  match e with
  | .leaf b t =>
    match L.parse b t with
    | some v => .ok (v, n)
    | none => .panic
  | .sliceLit _ es => do
      let (vs, n1) ← evalSeq env L es n
      .ok (.slice n1 0 vs, n1 + 1)
  | .arrayLit _ es => do
      let (vs, n1) ← evalSeq env L es n
      .ok (.arr vs, n1)
  | .mapLit _ es => do
      let (vs, n1) ← evalEntries env L es n
      if keysDistinct vs then .ok (.map n1 vs, n1 + 1) else .panic   -- "duplicate key in map literal"
  | .addrOf _ a => do
      let (v, n1) ← evalE env L a n
      .ok (.ptr n1 v, n1 + 1)
  | .addrEmpty _ => .ok (.ptr n (.struct .snil), n + 1)
  | .call _ body => evalBody env L body {} n
  | _ => .panic

def evalSeq {τ : Type} (env : Env) (L : Lex τ) (es : G τ) (n : St) : Res (Val × St) :=
  match es with
  | .enil => .ok (.snil, n)
  | .econs h t => do
      let (v, n1) ← evalE env L h n
      let (vs, n2) ← evalSeq env L t n1
      .ok (.scons v vs, n2)
  | _ => .panic

def evalEntries {τ : Type} (env : Env) (L : Lex τ) (es : G τ) (n : St) : Res (Val × St) :=
  match es with
  | .enil => .ok (.snil, n)
  | .econs (.kv k v) t => do
      let (kv, n1) ← evalE env L k n
      let (vv, n2) ← evalE env L v n1
      let (vs, n3) ← evalEntries env L t n2
      .ok (.scons (.pair kv vv) vs, n3)
  | _ => .panic

/-- a function body: statements, then a return -/
def evalBody {τ : Type} (env : Env) (L : Lex τ) (body : G τ) (fr : Frame) (n : St) : Res (Val × St) :=
  match body with
  | .seq s rest => do
      let (fr1, n1) ← evalStmt env L s fr n
      evalBody env L rest fr1 n1
  | .retThis => .ok (fr.this, n)
  | .retDeref =>
    match fr.this with
    | .ptr _ v => .ok (v, n)
    | _ => .panic
  | .retNil => .ok (.nilv, n)
  | .ret e => evalE env L e n
  | _ => .panic

/-- one statement -/
def evalStmt {τ : Type} (env : Env) (L : Lex τ) (s : G τ) (fr : Frame) (n : St) : Res (Frame × St) :=
  match s with
  | .skip => .ok (fr, n)
  | .newStruct T => .ok ({ fr with this := .ptr n (zero1 env T) }, n + 1)
  | .newPtr R => .ok ({ fr with this := .ptr n (zero1 env R) }, n + 1)
  | .makeSlice T len =>
    match env.under T with
    | .slice E => .ok ({ fr with this := .slice n 0 (sreplicate len (zero0 env E)) }, n + 1)
    | _ => .panic
  | .makeMap _ => .ok ({ fr with this := .map n .snil }, n + 1)
  | .arrZero T => .ok ({ fr with this := zero1 env T }, n)
  | .setField i exported e =>
    if !exported then .panic else          -- "cannot refer to unexported field" in the importing package
    match evalE env L e n with
    | .ok (v, n1) =>
      match fr.this with
      | .ptr a (.struct fs) =>
        match setNth i v fs with
        | some fs' => .ok ({ fr with this := .ptr a (.struct fs') }, n1)
        | none => .panic
      | _ => .panic
    | .panic => .panic
  | .setDeref e =>
    match evalE env L e n with
    | .ok (v, n1) =>
      match fr.this with
      | .ptr a _ => .ok ({ fr with this := .ptr a v }, n1)
      | _ => .panic
    | .panic => .panic
  | .setIndex i e =>
    match evalE env L e n with
    | .ok (v, n1) =>
      match fr.this with
      | .slice a sp es =>
        match setNth i v es with
        | some es' => .ok ({ fr with this := .slice a sp es' }, n1)
        | none => .panic
      | .arr es =>
        match setNth i v es with
        | some es' => .ok ({ fr with this := .arr es' }, n1)
        | none => .panic
      | _ => .panic
    | .panic => .panic
  | .setKeyLit k e =>
    match evalE env L k n with
    | .ok (kv, n1) =>
      match evalE env L e n1 with
      | .ok (v, n2) =>
        match fr.this with
        | .map a es => .ok ({ fr with this := .map a (mapSet kv v es) }, n2)
        | _ => .panic
      | .panic => .panic
    | .panic => .panic
  | .keyDecl j e =>
    match evalE env L e n with
    | .ok (kv, n1) => .ok ({ fr with keys := (j, kv) :: fr.keys }, n1)
    | .panic => .panic
  | .setKeyVar j e =>
    match fr.keys.lookup j with
    | some kv =>
      match evalE env L e n with
      | .ok (v, n1) =>
        match fr.this with
        | .map a es => .ok ({ fr with this := .map a (mapSet kv v es) }, n1)
        | _ => .panic
      | .panic => .panic
    | none => .panic
  | _ => .panic
end

/-- the value of a text (a closed expression) when evaluated with `n` as the next fresh address -/
def evalG {τ : Type} (env : Env) (L : Lex τ) (e : G τ) (n : St) : Res (Val × St) := evalE env L e n

/-! ## Which types the generator supports, and "exported fields" -/

/-- the generator has a case for every constituent of `T` (`genStatement`/`genField` know basic,
pointer, struct, slice, array and map types; names must be declared) -/
def okG (env : Env) : Ty → Bool
  | .basic _ => true
  | .named i => (env.decl? i).isSome
  | .ptr R => okG env R
  | .slice E => okG env E
  | .array _ E => okG env E
  | .map K V => okG env K && okG env V
  | .struct fs => okG env fs
  | .fnil => true
  | .fcons F r => okG env F && okG env r
  | _ => false

/-- `deriveGoString` is generated for `T` (closed world: named types may be recursive, so every
declaration of the environment is checked rather than the ones reachable from `T`) -/
def SupportedGS (env : Env) (T : Ty) : Bool := okG env T && env.decls.all fun d => okG env d.under

/-- every field of every declared struct type is exported (unnamed struct types of the universe carry
no field names; the corpus spells all of theirs with capitals) -/
def ExportedOnly (env : Env) : Bool := env.decls.all fun d => d.privMask.all fun p => !p

/-! ## The value-level lexical layer used by the driver and by the non-vacuity examples

Leaf texts are the values themselves; reading back maps `-0.0` to `+0.0` (the compiler evaluates the
constant expression `-0` exactly: there is no negative zero constant). This is what the tie observes
of `%#v` + `go build` on every leaf of the corpus. -/

def normZero (w bits : Nat) : Nat := if bits = 2 ^ (w - 1) then 0 else bits

def normLeaf : Val → Val
  | .flt w b => .flt w (normZero w b)
  | .cplx w a b => .cplx w (normZero w a) (normZero w b)
  | v => v

def valLex : Lex Val := { print := fun _ v => v, parse := fun _ v => some (normLeaf v) }

end GoString
end Goderive
