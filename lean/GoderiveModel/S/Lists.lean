/-
Layer S: the slice / map / string helper plugins (sort, keys, min, max, contains, unique, set, union,
intersect, filter, takewhile, all, any, fmap and join in their slice and string forms).

Every helper is written as the loop its template contains (plugin/<name>/<name>.go): index
variables and in-place writes where the emitted code mutates the input (filter, unique), early
returns as early returns. A Go slice is modelled up to identity as `Sl = Option (List Val)`
(`none` = nil). Functions that write into their input return the result *and* the input as the
caller sees it afterwards.

Parameters of the models (chosen by the plugins exactly as `elemEq`, `minLt`, `sortLess` … below do):
 * `eq   : Val → Val → Res Bool`   element equality: `==` when `canEqual`, else derived Equal
 * `hash : Val → Res UInt64`       derived Hash of the element type
 * `lt / gt`                       `<` / `>` on basic types, else `deriveCompare(a, b) < 0` / `> 0`
 * `sorter`                        `sort.Slice / sort.Ints / sort.Strings / sort.Float64s` (contract in Spec/Lists)
 * `π`                             Go map iteration order (any permutation)
 * predicates and mapped functions are *stateful oracles* `Fn σ β = Val → σ → β × σ`, so that call
   order and call count are part of the result; `Script` is the scripted instance with a call log.
-/
import GoderiveModel.U.Ty
import GoderiveModel.U.Val
import GoderiveModel.U.Float
import GoderiveModel.U.Utf8
import GoderiveModel.S.Equal
import GoderiveModel.S.Compare
import GoderiveModel.S.Hash
import GoderiveModel.S.Methods

namespace Goderive
namespace Lists


/-- a Go slice up to identity: `none` is the nil slice -/
abbrev Sl := Option (List Val)

def Sl.elems : Sl → List Val
  | none => []
  | some xs => xs

def Sl.ofVal : Val → Option Sl
  | .nilv => some none
  | .slice _ _ es => some (some es.toList)
  | _ => none

/-- `list[:j]` (and `list` itself) shares the backing array of `list` unless that array is empty
(`len + spare = 0`): what filter, the hash path of unique, and sort return -/
def viewAliases (len spare : Nat) : Bool := decide (len + spare > 0)

/-- `append(this, x₁ … xₖ)` one element at a time stays in the backing array of `this` exactly when
all `k` elements fit into its spare capacity (Go reallocates at the first append that does not fit
and never returns to the old array); an empty backing array is shared with nothing -/
def appendAliases (len spare added : Nat) : Bool := decide (len + spare > 0) && decide (added ≤ spare)

/-! ### Oracles: user functions with observable call order -/

/-- a user-supplied function value: called with an element and the oracle state -/
abbrev Fn (σ β : Type) := Val → σ → β × σ

/-- scripted oracle: the k-th call answers `script[k]` (`dflt` when the script is exhausted) and
appends its argument to the call log -/
structure Script (β : Type) where
  script : List β
  log : List Val := []

def Script.call {β : Type} (dflt : β) : Fn (Script β) β :=
  fun v s => (s.script.headD dflt, { script := s.script.tail, log := s.log ++ [v] })

/-- a pure function observed through a call log -/
def logged {β : Type} (f : Val → β) : Fn (List Val) β :=
  fun v log => (f v, log ++ [v])

/-! ### How the plugins pick the element operations -/

/-- natural `<` of the basic types that have one (`bool`, complex: the emitted code does not compile) -/
def goLt : Val → Val → Res Bool
  | .int a, .int b => .ok (decide (a < b))
  | .flt w a, .flt _ b => .ok (fltLt w a b)
  | .str a, .str b => .ok (decide (cmpBytes a b < 0))
  | _, _ => .panic

def cmpNeg (r : Res Int) : Res Bool :=
  match r with
  | .ok c => .ok (decide (c < 0))
  | .panic => .panic

def cmpPos (r : Res Int) : Res Bool :=
  match r with
  | .ok c => .ok (decide (c > 0))
  | .panic => .panic

/-- contains / union / intersect: `v == item` when `canEqual(etyp)`, else `deriveEqual(v, item)` -/
def elemEq (env : Env) (E : Ty) : Val → Val → Res Bool :=
  if canEqual env E then fun a b => .ok (goEq a b) else Equal.top env E

/-- `isOrdered` of plugin/min and plugin/max: an unnamed basic type with `<` (not bool, not complex) -/
def isOrderedBasic : Ty → Bool
  | .basic .bool => false
  | .basic (.complex _) => false
  | .basic _ => true
  | _ => false

/-- min: `v < m` when the element type is an ordered `*types.Basic`, else `deriveCompare(v, m) < 0` -/
def minLt (env : Env) (E : Ty) : Val → Val → Res Bool :=
  if isOrderedBasic E then goLt else fun a b => cmpNeg (Compare.top env E a b)

/-- max: `v > m` when the element type is an ordered `*types.Basic`, else `deriveCompare(v, m) > 0` -/
def maxGt (env : Env) (E : Ty) : Val → Val → Res Bool :=
  if isOrderedBasic E then fun a b => goLt b a else fun a b => cmpPos (Compare.top env E a b)

/-- sort: the `less` function handed to `sort.*` (plugin/sort `printSortFunc`); `none` = unsupported -/
def sortLess (env : Env) (E : Ty) : Option (Val → Val → Res Bool) :=
  match env.under E with
  | .basic .bool => some fun a b => cmpNeg (Compare.top env E a b)
  | .basic (.complex _) => some fun a b => cmpNeg (Compare.top env E a b)
  | .basic _ => some goLt
  | .ptr _ => some fun a b => cmpNeg (Compare.top env E a b)
  | .struct _ => some fun a b => cmpNeg (Compare.top env E a b)
  | .slice _ => some fun a b => cmpNeg (Compare.top env E a b)
  | .array _ _ => some fun a b => cmpNeg (Compare.top env E a b)
  | .map _ _ => some fun a b => cmpNeg (Compare.top env E a b)
  | _ => none

/-! The same choices with the method-aware models of S/Methods.lean (`EqualM`, `CompareM`: a named type that
declares its own Equal / Compare method is compared by that method where the generator calls it). The
plugins' own `isOrdered` test is structural; their `canEqual` test also asks `derive.HasEqualMethod`. On environments
without methods these coincide with the definitions above (`EqualM` / `CompareM` agree with `Equal` /
`Compare` there: Props/C02, C03); the driver runs these. -/

/-- contains (and union / intersect through it): `v == item` when `canEqual(etyp) && !derive.HasEqualMethod(etyp)`
— comparable and no own Equal method on the type or on a field / array element, which is `canEqualM` —
else `deriveEqual(v, item)` -/
def elemEqM (env : Env) (E : Ty) : Val → Val → Res Bool :=
  if canEqualM env E then fun a b => .ok (goEq a b) else EqualM.top env E

/-- unique: the map-key path when `derive.IsComparable(elem) && !derive.HasEqualMethod(elem)`, else the
hash-bucket loop with `deriveHash` / `deriveEqual` -/
def uniqueUsesMapM (env : Env) (E : Ty) : Bool := canEqualM env E

/-- unique, hash-bucket loop: `hash := deriveHash(list[i])`, except for a `==`-comparable element type with an
own Equal method inside (`IsComparable && HasEqualMethod`), where `hash := uint64(0)`: one bucket, every
element is compared with all the kept ones (nothing says the derived hash agrees with the method) -/
def uniqueHashM (env : Env) (E : Ty) : Val → Res UInt64 :=
  if canEqual env E && !canEqualM env E then fun _ => .ok 0 else HashM.top env E

def minLtM (env : Env) (E : Ty) : Val → Val → Res Bool :=
  if isOrderedBasic E then goLt else fun a b => cmpNeg (CompareM.top env E a b)

def maxGtM (env : Env) (E : Ty) : Val → Val → Res Bool :=
  if isOrderedBasic E then fun a b => goLt b a else fun a b => cmpPos (CompareM.top env E a b)

def sortLessM (env : Env) (E : Ty) : Option (Val → Val → Res Bool) :=
  match env.under E with
  | .basic .bool => some fun a b => cmpNeg (CompareM.top env E a b)
  | .basic (.complex _) => some fun a b => cmpNeg (CompareM.top env E a b)
  | .basic _ => some goLt
  | .ptr _ => some fun a b => cmpNeg (CompareM.top env E a b)
  | .struct _ => some fun a b => cmpNeg (CompareM.top env E a b)
  | .slice _ => some fun a b => cmpNeg (CompareM.top env E a b)
  | .array _ _ => some fun a b => cmpNeg (CompareM.top env E a b)
  | .map _ _ => some fun a b => cmpNeg (CompareM.top env E a b)
  | _ => none

/-- unique: `derive.IsComparable(elem)` chooses `keys(set(list))`, otherwise the hash-bucket loop -/
def uniqueUsesMap (env : Env) (E : Ty) : Bool := canEqual env E

/-! ### C13: sort, keys, min, max -/

def resIsOk {α : Type} : Res α → Bool
  | .ok _ => true
  | .panic => false

def resTrue : Res Bool → Bool
  | .ok b => b
  | .panic => false

/-- `sort.Slice(list, less); return list`: sorts in place, so the input is the output afterwards.
`sort.*` may call `less` on any pair; a panicking `less` is modelled as a panic of the call. -/
def sort (sorter : (Val → Val → Bool) → List Val → List Val) (less : Val → Val → Res Bool)
    (list : Sl) : Res Sl :=
  match list with
  | none => .ok none
  | some xs =>
    if xs.all (fun a => xs.all (fun b => resIsOk (less a b))) then
      .ok (some (sorter (fun a b => resTrue (less a b)) xs))
    else .panic

/-- insertion into a sorted list: before the first element that `x` precedes -/
def insertSorted (lt : Val → Val → Bool) (x : Val) : List Val → List Val
  | [] => [x]
  | y :: ys => if lt x y then x :: y :: ys else y :: insertSorted lt x ys

/-- the sorter instance the driver runs (the contract is what the theorems use) -/
def insertionSort (lt : Val → Val → Bool) : List Val → List Val
  | [] => []
  | x :: xs => insertSorted lt x (insertionSort lt xs)

/-- a second instance: core's merge sort on `le a b := !lt b a` -/
def mergeSorter (lt : Val → Val → Bool) (xs : List Val) : List Val :=
  xs.mergeSort (fun a b => !lt b a)

/-- keys of a map spine, insertion order -/
def mapKeys : Val → List Val
  | .scons (.pair k _) rest => k :: mapKeys rest
  | _ => []

/-- `keys := make([]K, 0, len(m)); for key := range m { keys = append(keys, key) }` with iteration
order `π`; a nil map gives an empty non-nil slice -/
def keys (π : List Val → List Val) (m : Val) : Res Sl :=
  match m with
  | .nilv => .ok (some [])
  | .map _ es => .ok (some (π (mapKeys es)))
  | _ => .panic

/-- `for i, v := range list { if v < m { m = list[i] } }` -/
def minLoop (lt : Val → Val → Res Bool) (m : Val) : List Val → Res Val
  | [] => .ok m
  | v :: rest =>
    match lt v m with
    | .ok true => minLoop lt v rest
    | .ok false => minLoop lt m rest
    | .panic => .panic

/-- `if len(list) == 0 { return def }; m := list[0]; list = list[1:]; for … ; return m`
(max is the same function with `gt`) -/
def minList (lt : Val → Val → Res Bool) (list : Sl) (dflt : Val) : Res Val :=
  match list.elems with
  | [] => .ok dflt
  | m :: rest => minLoop lt m rest

/-- `if a < b { return a }; return b` (max: `if a > b`) -/
def min2 (lt : Val → Val → Res Bool) (a b : Val) : Res Val :=
  match lt a b with
  | .ok true => .ok a
  | .ok false => .ok b
  | .panic => .panic

/-! ### C14: contains, unique, set, union, intersect, filter, takewhile, all, any -/

/-- `for _, v := range list { if eq(v, item) { return true } }; return false` -/
def contains (eq : Val → Val → Res Bool) (item : Val) : List Val → Res Bool
  | [] => .ok false
  | v :: rest =>
    match eq v item with
    | .ok true => .ok true
    | .ok false => contains eq item rest
    | .panic => .panic

/-- `set[v] = struct{}{}` on a Go map represented by its key list: an existing `==` key is
overwritten in place (the runtime updates the stored key: observable for `+0`/`-0`), a new key is added -/
def setInsert (k : Val) : List Val → List Val
  | [] => [k]
  | k' :: rest => if goEq k k' then k :: rest else k' :: setInsert k rest

/-- `set := make(map[T]struct{}, len(list)); for _, v := range list { set[v] = struct{}{} }`:
the key list of the resulting (never nil) map -/
def set (list : Sl) : List Val :=
  list.elems.foldl (fun m v => setInsert v m) []

/-- inner loop of unique: `for _, index := range indexes { if eq(list[index], list[i]) { contains = true; break } }` -/
def bucketContains (eq : Val → Val → Res Bool) (buf : List Val) (x : Val) : List Nat → Res Bool
  | [] => .ok false
  | idx :: rest =>
    match buf[idx]? with
    | none => .panic
    | some y =>
      match eq y x with
      | .ok true => .ok true
      | .ok false => bucketContains eq buf x rest
      | .panic => .panic

/-- the hash-bucket loop of unique, on the array `buf` (the input, compacted in place), the table
`map[uint64][]int` (a missing key reads as nil) and the counters `i`, `u` -/
def uniqueLoop (hash : Val → Res UInt64) (eq : Val → Val → Res Bool)
    (buf : List Val) (table : UInt64 → List Nat) (i u : Nat) : Res (List Val × Nat) :=
  if h : i < buf.length then
    match hash buf[i] with
    | .panic => .panic
    | .ok hv =>
      match bucketContains eq buf buf[i] (table hv) with
      | .panic => .panic
      | .ok true => uniqueLoop hash eq buf table (i + 1) u
      | .ok false =>
        if u < buf.length then
          uniqueLoop hash eq (if i != u then buf.set u buf[i] else buf)
            (fun k => if k == hv then table k ++ [u] else table k) (i + 1) (u + 1)
        else .panic
  else .ok (buf, u)
termination_by buf.length - i
decreasing_by
  all_goals simp_wf
  all_goals first
    | omega
    | (split <;> (try simp) <;> omega)

/-- deriveUnique: returns (result, input as seen afterwards).
`if len(list) == 0 { return nil }`; comparable elements: `keys(set(list))` (order `π`);
otherwise the hash-bucket loop and `list[:u]`. -/
def unique (useMap : Bool) (π : List Val → List Val) (hash : Val → Res UInt64)
    (eq : Val → Val → Res Bool) (list : Sl) : Res (Sl × Sl) :=
  match list with
  | none => .ok (none, none)
  | some [] => .ok (none, some [])
  | some xs =>
    if useMap then .ok (some (π (set (some xs))), some xs)
    else
      match uniqueLoop hash eq xs (fun _ => []) 0 0 with
      | .ok (buf, u) => .ok (some (buf.take u), some buf)
      | .panic => .panic

/-- `for i, v := range that { if !contains(this, v) { this = append(this, that[i]) } }; return this` -/
def unionLoop (eq : Val → Val → Res Bool) (this : Sl) : List Val → Res Sl
  | [] => .ok this
  | v :: rest =>
    match contains eq v this.elems with
    | .ok true => unionLoop eq this rest
    | .ok false => unionLoop eq (some (this.elems ++ [v])) rest
    | .panic => .panic

def unionList (eq : Val → Val → Res Bool) (this that : Sl) : Res Sl :=
  unionLoop eq this that.elems

/-- `intersect := make([]T, 0, min(len(this), len(that))); for i, v := range this { if contains(that, v) { intersect = append(intersect, this[i]) } }` -/
def intersectLoop (eq : Val → Val → Res Bool) (that : List Val) (acc : List Val) : List Val → Res (List Val)
  | [] => .ok acc
  | v :: rest =>
    match contains eq v that with
    | .ok true => intersectLoop eq that (acc ++ [v]) rest
    | .ok false => intersectLoop eq that acc rest
    | .panic => .panic

def intersectList (eq : Val → Val → Res Bool) (this that : Sl) : Res Sl :=
  match intersectLoop eq that.elems [] this.elems with
  | .ok r => .ok (some r)
  | .panic => .panic

/-- a `map[K]struct{}` argument: `none` = nil map, else its keys in insertion order -/
def mapKeySet : Val → Option (Option (List Val))
  | .nilv => some none
  | .map _ es => some (some (mapKeys es))
  | _ => none

/-- `for k := range that { union[k] = struct{}{} }` on the first map (assignment to an entry of a
nil map panics) -/
def unionMapLoop (union : Option (List Val)) : List Val → Res (Option (List Val))
  | [] => .ok union
  | k :: rest =>
    match union with
    | none => .panic
    | some ks => unionMapLoop (some (setInsert k ks)) rest

/-- deriveUnion on maps: `if union == nil && len(that) > 0 { union = make(…) }; for k := range that
{ union[k] = struct{}{} }; return union`. Writes into the first map unless that is nil; `π` is the
iteration order over `that`. Returns (result, first map as the caller sees it afterwards). -/
def unionMap (π : List Val → List Val) (union that : Option (List Val)) :
    Res (Option (List Val) × Option (List Val)) :=
  let ks := that.getD []
  match union with
  | none =>
    if ks.length > 0 then
      match unionMapLoop (some []) (π ks) with
      | .ok r => .ok (r, none)
      | .panic => .panic
    else .ok (none, none)
  | some u =>
    match unionMapLoop (some u) (π ks) with
    | .ok r => .ok (r, r)
    | .panic => .panic

/-- `that[k]` lookup: `_, ok := that[k]` -/
def hasKey (k : Val) (ks : List Val) : Bool := ks.any (fun k' => goEq k k')

/-- `intersect := make(map[K]struct{}, …); for k := range this { if _, ok := that[k]; ok { intersect[k] = struct{}{} } }` -/
def intersectMap (π : List Val → List Val) (this that : Option (List Val)) : List Val :=
  (π (this.getD [])).foldl (fun acc k => if hasKey k (that.getD []) then setInsert k acc else acc) []

/-- the loop of deriveFilter on the array `buf` (= the input, written in place):
`for i, elem := range list { if predicate(elem) { if i != j { list[j] = list[i] }; j++ } }` -/
def filterLoop {σ : Type} (p : Fn σ Bool) (buf : List Val) (i j : Nat) (s : σ) :
    Res (List Val × Nat × σ) :=
  if h : i < buf.length then
    match p buf[i] s with
    | (true, s') =>
      if j < buf.length then
        filterLoop p (if i != j then buf.set j buf[i] else buf) (i + 1) (j + 1) s'
      else .panic
    | (false, s') => filterLoop p buf (i + 1) j s'
  else .ok (buf, j, s)
termination_by buf.length - i
decreasing_by
  all_goals simp_wf
  all_goals first
    | omega
    | (split <;> (try simp) <;> omega)

/-- deriveFilter: `j := 0; for …; return list[:j]`; returns ((result, input afterwards), oracle) -/
def filter {σ : Type} (p : Fn σ Bool) (list : Sl) (s : σ) : Res ((Sl × Sl) × σ) :=
  match list with
  | none => .ok ((none, none), s)
  | some xs =>
    match filterLoop p xs 0 0 s with
    | .ok (buf, j, s') => .ok ((some (buf.take j), some buf), s')
    | .panic => .panic

/-- `out := make([]T, 0, len(list)); for i, elem := range list { if !predicate(elem) { break }; out = append(out, list[i]) }` -/
def takeWhileLoop {σ : Type} (p : Fn σ Bool) (out : List Val) : List Val → σ → List Val × σ
  | [], s => (out, s)
  | elem :: rest, s =>
    match p elem s with
    | (true, s') => takeWhileLoop p (out ++ [elem]) rest s'
    | (false, s') => (out, s')

def takeWhile {σ : Type} (p : Fn σ Bool) (list : Sl) (s : σ) : Sl × σ :=
  let (out, s') := takeWhileLoop p [] list.elems s
  (some out, s')

/-- `for _, elem := range slice { if !predicate(elem) { return false } }; return true` -/
def all {σ : Type} (p : Fn σ Bool) : List Val → σ → Bool × σ
  | [], s => (true, s)
  | elem :: rest, s =>
    match p elem s with
    | (true, s') => all p rest s'
    | (false, s') => (false, s')

/-- `for _, elem := range list { if pred(elem) { return true } }; return false` -/
def any {σ : Type} (p : Fn σ Bool) : List Val → σ → Bool × σ
  | [], s => (false, s)
  | elem :: rest, s =>
    match p elem s with
    | (true, s') => (true, s')
    | (false, s') => any p rest s'

/-! ### C17: fmap and join, slice and string forms -/

/-- the value a fresh `make([]T, n)` cell holds before it is written (a placeholder: the model does
not know T's zero value; the theorems show that no placeholder survives) -/
def zeroCell : Val := .snil

/-- `for i, elem := range list { out[i] = f(elem) }` on the output array `out` -/
def fmapLoop {σ : Type} (f : Fn σ Val) (out : List Val) (i : Nat) : List Val → σ → Res (List Val × σ)
  | [], s => .ok (out, s)
  | elem :: rest, s =>
    match f elem s with
    | (r, s') =>
      if i < out.length then fmapLoop f (out.set i r) (i + 1) rest s'
      else .panic

/-- deriveFmap over a slice: `out := make([]B, len(list)); for …; return out` (never nil) -/
def fmap {σ : Type} (f : Fn σ Val) (list : Sl) (s : σ) : Res (Sl × σ) :=
  match fmapLoop f (List.replicate list.elems.length zeroCell) 0 list.elems s with
  | .ok (out, s') => .ok (some out, s')
  | .panic => .panic

/-- `[]rune(ss)`: the runes of a string as `int32` values -/
def runesOf (bytes : List Nat) : List Val := (decodeRunes bytes).map (fun r => Val.int (Int.ofNat r))

/-- deriveFmap over a string: `out := make([]B, len([]rune(ss))); for i, elem := range []rune(ss) { out[i] = f(elem) }` -/
def fmapString {σ : Type} (f : Fn σ Val) (bytes : List Nat) (s : σ) : Res (Sl × σ) :=
  fmap f (some (runesOf bytes)) s

/-- the first loop of deriveJoin: `l := 0; for _, elem := range listOfLists { l += len(elem) }` -/
def joinLen : List Sl → Nat
  | [] => 0
  | e :: rest => e.elems.length + joinLen rest

/-- the second loop: `for _, elem := range listOfLists { res = append(res, elem...) }` -/
def joinLoop (res : List Val) : List Sl → List Val
  | [] => res
  | e :: rest => joinLoop (res ++ e.elems) rest

/-- deriveJoin over a slice of slices: `if listOfLists == nil { return nil }; …; res := make([]T, 0, l); …` -/
def join (lists : Option (List Sl)) : Sl :=
  match lists with
  | none => none
  | some ls => some (joinLoop [] ls)

/-- `strings.Join(list, "")` on byte strings -/
def joinStrings : List (List Nat) → List Nat
  | [] => []
  | s :: rest => s ++ joinStrings rest

end Lists
end Goderive
