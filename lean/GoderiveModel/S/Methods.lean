/-
Layer S, extension: types that declare their own Equal / Compare / Hash methods.

`EqualM`, `CompareM`, `HashM` are the models of plugin/equal, compare, hash INCLUDING the dispatch to
user methods (`equalMethodInputParam`, `compareMethodInputParam`, `hasHashMethod`). On environments
without methods they coincide with `Equal`, `Compare`, `Hash` (Props: `…M_eq_of_noMethods`), which is
what the main theorems are about. The user's methods of the corpus look at the first field only:
`userEq…`, `userCmp…`, `userHash…` below are their semantics.

Where the generator does NOT use a method although the type has one (mirrored here):
* the function generated for `*T` (T a named struct) compares / hashes the fields: it is what the
  user's own method is meant to call (`func (t *T) Equal(o *T) bool { return deriveEqual(t, o) }`);
* compare, for a method with a VALUE parameter reached through a pointer or at top level, falls
  through to the helper for the pointer type, which compares fields.
-/
import GoderiveModel.U.Ty
import GoderiveModel.U.Val
import GoderiveModel.S.Equal
import GoderiveModel.S.Compare
import GoderiveModel.S.Hash

namespace Goderive
open Val

def Env.eqM? (env : Env) : Ty → Option UserFn
  | .named i => (env.decl? i).bind (·.eqM)
  | _ => none
def Env.cmpM? (env : Env) : Ty → Option UserFn
  | .named i => (env.decl? i).bind (·.cmpM)
  | _ => none
def Env.hashM? (env : Env) : Ty → Option UserFn
  | .named i => (env.decl? i).bind (·.hashM)
  | _ => none

/-- no declaration has a method: the environments of the main theorems -/
def Env.noMethods (env : Env) : Bool :=
  env.decls.all fun d => d.eqM.isNone && d.cmpM.isNone && d.hashM.isNone

/-- `canEqual` of plugin/equal: a named type with an Equal method is never compared with `==` -/
def canEqualM (env : Env) : Ty → Bool
  | .basic _ => true
  | .named i => match env.decl? i with
      | some d => d.canEqM
      | none => false
  | .array _ t => canEqualM env t
  | .struct fs => canEqualM env fs
  | .fnil => true
  | .fcons t r => canEqualM env t && canEqualM env r
  | _ => false

def firstField : Val → Option Val
  | .struct (.scons a _) => some a
  | _ => none

/-- `this.A == that.A` -/
def userEqVal (x y : Val) : Res Bool :=
  match firstField x, firstField y with
  | some a, some b => .ok (goEq a b)
  | _, _ => .panic

def userEqPtr : Val → Val → Res Bool
  | .nilv, .nilv => .ok true
  | .nilv, .ptr _ _ => .ok false
  | .ptr _ _, .nilv => .ok false
  | .ptr _ a, .ptr _ b => userEqVal a b
  | _, _ => .panic

def userCmpVal (x y : Val) : Res Int :=
  match firstField x, firstField y with
  | some (.int a), some (.int b) => .ok (cmpInt a b)
  | _, _ => .panic

def userCmpPtr : Val → Val → Res Int
  | .nilv, .nilv => .ok 0
  | .nilv, .ptr _ _ => .ok (-1)
  | .ptr _ _, .nilv => .ok 1
  | .ptr _ a, .ptr _ b => userCmpVal a b
  | _, _ => .panic

/-- `int32(n)`: truncation to 32 bits, two's complement -/
def toI32 (n : Int) : Int := (n + 2 ^ 31) % 2 ^ 32 - 2 ^ 31

/-- `uint64(this.Hash())` with `Hash() int32 { return int32(this.A) }` -/
def userHashVal (x : Val) : Res UInt64 :=
  match firstField x with
  | some (.int a) => .ok (toU64 (toI32 a))
  | _ => .panic

def userHashPtr : Val → Res UInt64
  | .nilv => .ok 0
  | .ptr _ a => userHashVal a
  | _ => .panic

namespace EqualM

mutual
def top (env : Env) (T : Ty) (x y : Val) : Res Bool :=
  match env.under T with
  | .basic _ => .ok (goEq x y)
  | .ptr R =>
    match env.under R with
    | .struct fs =>
      if R.isNamed then
        match x, y with
        | .nilv, .nilv => .ok true
        | .nilv, .ptr _ _ => .ok false
        | .ptr _ _, .nilv => .ok false
        | .ptr _ (.struct xs), .ptr _ (.struct ys) => fields env fs xs ys   -- the user's method is NOT consulted here
        | _, _ => .panic
      else .panic
    | _ =>
      match x, y with
      | .nilv, .nilv => .ok true
      | .nilv, .ptr _ _ => .ok false
      | .ptr _ _, .nilv => .ok false
      | .ptr _ a, .ptr _ b => top env R a b
      | _, _ => .panic
  | .struct fs =>
    if T.isNamed then
      match env.eqM? T with
      | some _ => userEqVal x y            -- `(&this).Equal(&that)` / `(*(&this)).Equal(*(&that))`
      | none =>
        match x, y with
        | .struct xs, .struct ys => fields env fs xs ys
        | _, _ => .panic
    else if canEqualM env (.struct fs) then .ok (goEq x y)
    else
      match x, y with
      | .struct xs, .struct ys => fields env fs xs ys
      | _, _ => .panic
  | .slice E =>
    match x, y with
    | .nilv, .nilv => .ok true
    | .nilv, .slice _ _ _ => .ok false
    | .slice _ _ _, .nilv => .ok false
    | .slice _ _ xs, .slice _ _ ys =>
      if xs.slen != ys.slen then .ok false else elems env E xs ys
    | _, _ => .panic
  | .array _ E =>
    match x, y with
    | .arr xs, .arr ys => elems env E xs ys
    | _, _ => .panic
  | .map _ V =>
    match x, y with
    | .nilv, .nilv => .ok true
    | .nilv, .map _ _ => .ok false
    | .map _ _, .nilv => .ok false
    | .map _ xs, .map _ ys =>
      if xs.slen != ys.slen then .ok false else entries env V xs ys
    | _, _ => .panic
  | _ => .panic
termination_by (sizeOf x, 0)

def fields (env : Env) (fs : Ty) (xs ys : Val) : Res Bool :=
  match fs, xs, ys with
  | .fnil, .snil, .snil => .ok true
  | .fcons F rest, .scons a xs', .scons b ys' => do
      let r ← field env F a b
      if r then fields env rest xs' ys' else .ok false
  | _, _, _ => .panic
termination_by (sizeOf xs, 2)

def elems (env : Env) (E : Ty) (xs ys : Val) : Res Bool :=
  match xs, ys with
  | .snil, .snil => .ok true
  | .scons a xs', .scons b ys' => do
      let r ← field env E a b
      if r then elems env E xs' ys' else .ok false
  | _, _ => .panic
termination_by (sizeOf xs, 2)

def entries (env : Env) (V : Ty) (xs ys : Val) : Res Bool :=
  match xs with
  | .snil => .ok true
  | .scons (.pair k v) xs' =>
    match mapLookup k ys with
    | none => .ok false
    | some w => do
      let r ← field env V v w
      if r then entries env V xs' ys else .ok false
  | _ => .panic
termination_by (sizeOf xs, 2)

def field (env : Env) (F : Ty) (x y : Val) : Res Bool :=
  match env.eqM? F with
  | some _ => userEqVal x y                -- `this.F.Equal(&that.F)` / `this.F.Equal(that.F)`
  | none =>
  if canEqualM env F then .ok (goEq x y)
  else
    match env.under F with
    | .ptr R =>
      match env.eqM? R with
      | some .ptr => userEqPtr x y          -- `this.F.Equal(that.F)` on the pointers
      | some .val =>                        -- nil guards, then `(*this.F).Equal(*that.F)`
        match x, y with
        | .nilv, .nilv => .ok true
        | .nilv, .ptr _ _ => .ok false
        | .ptr _ _, .nilv => .ok false
        | .ptr _ a, .ptr _ b => userEqVal a b
        | _, _ => .panic
      | none =>
        if R.isNamed then top env (.ptr R) x y
        else
          match x, y with
          | .nilv, .nilv => .ok true
          | .nilv, .ptr _ _ => .ok false
          | .ptr _ _, .nilv => .ok false
          | .ptr _ a, .ptr _ b => field env R a b
          | _, _ => .panic
    | .array n E => top env (.array n E) x y
    | .slice E =>
      if isByte E then bytesEqual x y
      else top env (.slice E) x y
    | .map K V => top env (.map K V) x y
    | .struct _ =>
      if F.isNamed then top env F x y
      else .panic
    | _ => .panic
termination_by (sizeOf x, 1)
end

end EqualM

namespace CompareM

mutual
def top (env : Env) (T : Ty) (x y : Val) : Res Int :=
  match env.under T with
  | .basic _ => cmpLeaf x y
  | .ptr R =>
    match x, y with
    | .nilv, .nilv => .ok 0
    | .nilv, .ptr _ _ => .ok (-1)
    | .ptr _ _, .nilv => .ok 1
    | .ptr _ a, .ptr _ b =>
      match env.under R with
      | .struct fs =>
        if R.isNamed then
          match a, b with
          | .struct xs, .struct ys => fields env fs xs ys       -- the user's method is NOT consulted here
          | _, _ => .panic
        else .panic
      | _ => top env R a b
    | _, _ => .panic
  | .struct fs =>
    if T.isNamed then
      match env.cmpM? T with
      | some .ptr => userCmpVal x y        -- `(&this).Compare(&that)`
      | _ =>                               -- no method, or a value parameter: helper for `*T` → fields
        match x, y with
        | .struct xs, .struct ys => fields env fs xs ys
        | _, _ => .panic
    else .panic
  | .slice E =>
    match x, y with
    | .nilv, .nilv => .ok 0
    | .nilv, .slice _ _ _ => .ok (-1)
    | .slice _ _ _, .nilv => .ok 1
    | .slice _ _ xs, .slice _ _ ys =>
      if xs.slen != ys.slen then .ok (if xs.slen < ys.slen then -1 else 1)
      else elems env E xs ys
    | _, _ => .panic
  | .array _ E =>
    match x, y with
    | .arr xs, .arr ys => elems env E xs ys
    | _, _ => .panic
  | .map _ V =>
    match x, y with
    | .nilv, .nilv => .ok 0
    | .nilv, .map _ _ => .ok (-1)
    | .map _ _, .nilv => .ok 1
    | .map _ xs, .map _ ys =>
      if xs.slen != ys.slen then .ok (if xs.slen < ys.slen then -1 else 1)
      else entries env V (sortEntries xs) (sortEntries ys)
    | _, _ => .panic
  | _ => .panic
termination_by (sizeOf x, 0)
decreasing_by
  all_goals first
    | decreasing_tactic
    | (apply Prod.Lex.left; simp [sizeOf_sortEntries]; omega)

def fields (env : Env) (fs : Ty) (xs ys : Val) : Res Int :=
  match fs, xs, ys with
  | .fnil, .snil, .snil => .ok 0
  | .fcons F rest, .scons a xs', .scons b ys' => do
      let c ← field env F a b
      if c != 0 then .ok c else fields env rest xs' ys'
  | _, _, _ => .panic
termination_by (sizeOf xs, 2)

def elems (env : Env) (E : Ty) (xs ys : Val) : Res Int :=
  match xs, ys with
  | .snil, .snil => .ok 0
  | .scons a xs', .scons b ys' => do
      let c ← field env E a b
      if c != 0 then .ok c else elems env E xs' ys'
  | _, _ => .panic
termination_by (sizeOf xs, 2)

def entries (env : Env) (V : Ty) (xs ys : Val) : Res Int :=
  match xs, ys with
  | .snil, .snil => .ok 0
  | .scons (.pair k v) xs', .scons (.pair k' w) ys' =>
    if goEq k k' then do
      let c ← field env V v w
      if c != 0 then .ok c else entries env V xs' ys'
    else
      let c := cmpKey k k'
      if c != 0 then .ok c else entries env V xs' ys'
  | _, _ => .panic
termination_by (sizeOf xs, 2)

def field (env : Env) (F : Ty) (x y : Val) : Res Int :=
  match env.cmpM? F with
  | some _ => userCmpVal x y               -- `this.F.Compare(&that.F)` / `this.F.Compare(that.F)`
  | none =>
    match env.under F with
    | .ptr R =>
      match env.cmpM? R with
      | some .ptr => userCmpPtr x y        -- `this.F.Compare(that.F)` on the pointers
      | _ => top env F x y                 -- (value parameter: falls through to the helper for the pointer type)
    | .struct _ => if F.isNamed then top env F x y else .panic
    | _ => top env F x y
termination_by (sizeOf x, 1)
end

end CompareM

namespace HashM

mutual
def top (env : Env) (T : Ty) (x : Val) : Res UInt64 :=
  match env.under T with
  | .basic _ => Hash.leaf x
  | .ptr R =>
    match x with
    | .nilv => .ok 0
    | .ptr _ a =>
      match env.under R with
      | .struct fs =>
        if R.isNamed then
          match a with
          | .struct xs =>
            if fs = .fnil then .ok 17
            else fields env (env.skipMask R) fs xs 17          -- the user's method is NOT consulted here
          | _ => .panic
        else do let c ← field env R a; .ok ((31 * 17) + c)
      | _ => do let c ← field env R a; .ok ((31 * 17) + c)
    | _ => .panic
  | .struct fs =>
    match env.hashM? T with
    | some _ => userHashVal x              -- `(&object).Hash()`
    | none =>
      match x with
      | .struct xs =>
        if fs = .fnil then .ok 17
        else fields env (env.skipMask T) fs xs 17
      | _ => .panic
  | .slice E =>
    match x with
    | .nilv => .ok 0
    | .slice _ _ xs => elems env E xs 17
    | _ => .panic
  | .array _ E =>
    match x with
    | .arr xs => elems env E xs 17
    | _ => .panic
  | .map K V =>
    match x with
    | .nilv => .ok 0
    | .map _ xs => entries env K V (sortEntries xs) 17
    | _ => .panic
  | _ => .panic
termination_by (sizeOf x, 0)
decreasing_by
  all_goals first
    | decreasing_tactic
    | (apply Prod.Lex.left; simp [sizeOf_sortEntries]; omega)

def fields (env : Env) (skip : List Bool) (fs : Ty) (xs : Val) (h : UInt64) : Res UInt64 :=
  match fs, xs with
  | .fnil, .snil => .ok h
  | .fcons F rest, .scons a xs' =>
    if skip.headD false then fields env skip.tail rest xs' h
    else do
      let c ← field env F a
      fields env skip.tail rest xs' (mix h c)
  | _, _ => .panic
termination_by (sizeOf xs, 2)

def elems (env : Env) (E : Ty) (xs : Val) (h : UInt64) : Res UInt64 :=
  match xs with
  | .snil => .ok h
  | .scons a xs' => do
      let c ← field env E a
      elems env E xs' (mix h c)
  | _ => .panic
termination_by (sizeOf xs, 2)

def entries (env : Env) (K V : Ty) (xs : Val) (h : UInt64) : Res UInt64 :=
  match xs with
  | .snil => .ok h
  | .scons (.pair k v) xs' => do
      let ck ← field env K k
      let cv ← field env V v
      entries env K V xs' (mix (mix h ck) cv)
  | _ => .panic
termination_by (sizeOf xs, 2)

def field (env : Env) (F : Ty) (x : Val) : Res UInt64 :=
  match env.under F with
  | .ptr R =>
    match env.hashM? R with
    | some _ => userHashPtr x              -- `this.F.Hash()` on the pointer (nil-safe method)
    | none => top env F x
  | _ => top env F x                       -- a named struct with a method: `top` answers with the method
termination_by (sizeOf x, 1)
end

end HashM

end Goderive
