/-
Layer S, property C16: the error-propagating helpers emitted by plugin/compose, the error forms of
plugin/fmap and plugin/join, plugin/traverse and plugin/toerror.

Stages are *logging* functions: running one yields its non-error results and an optional error, and
every call is recorded as `(stage index, argument vector)`. Each helper is written in the shape of
the emitted code (straight-line chain with an early return after every stage, index loop with early
return, …), not in the shape of the specification (`Spec/Funcs.lean`).

The emitted text also contains a *zero value* for every non-error result of the last stage, printed
by `derive.Zero`. `zeroText` mirrors that function, `ZeroOk` says when such a text is a well-typed
zero value of the type; `composeWf` & co. are the compile predictions used by the correspondence.

`Cfg`: one boolean per known defect class (DESIGN §9-F5), selected by probing the real tool:
* `zeroFixed`: the zero value printed for named basic types, structs and arrays is well typed;
* `lhsFixed`: compose copes with a stage that has no non-error result (today: `, err0 := f0(…)`).
-/
import GoderiveModel.U.Ty
import GoderiveModel.S.Plumb

namespace Goderive.ErrChain

structure Cfg where
  zeroFixed : Bool := false
  lhsFixed : Bool := false
  errTypeFixed : Bool := false   -- a custom error type as the last RESULT of a stage gives a usable helper
  errRecvFixed : Bool := false   -- `IsError` no longer accepts a type whose `Error` has a pointer receiver, used by value
  typedNilFixed : Bool := false  -- a nil custom error handed to join counts as "no error"
  passFixed : Bool := false      -- join no longer passes on what its last stage returned beside its error
  tupleFixed : Bool := false     -- fmap's multi-result form no longer reuses a user's deriveTuple of merely assignable types
  localsFixed : Bool := false    -- toerror's locals `success` / `out<i>` no longer collide with parameters of those names
  deriving DecidableEq, Repr, Inhabited

def Cfg.current : Cfg := {}
def Cfg.fixed : Cfg :=
  { zeroFixed := true, lhsFixed := true, errTypeFixed := true, errRecvFixed := true, typedNilFixed := true,
    localsFixed := true, passFixed := true, tupleFixed := true }

/-! ### `derive.IsError`: which types stand where an `error` is expected

The generator decides with a hand-written scan: the type must be NAMED (`*types.Named`) and either be
called `error` or declare a method `Error` without parameters and with the single result `string`
(a basic type). `types.Named.NumMethods` lists methods of both receiver kinds. -/

inductive ErrTy where
  | builtin            -- the predeclared `error`
  | namedNilable       -- `type E []string; func (E) Error() string`
  | namedStruct        -- `type E struct{…}; func (E) Error() string`: no nil value
  | namedPtrRecv       -- `type E …; func (*E) Error() string`, used BY VALUE: does not implement error
  | pointerToNamed     -- `*E` with `func (*E) Error() string`: implements error, is not a named type
  | namedIface         -- `type E interface{ error }`: implements error, declares no method itself
  | nearMiss           -- `Error(x int) string`, `Error() (string, int)`, `Error() int`, `Error() NamedString`
  deriving DecidableEq, Repr, Inhabited

/-- where a type stands in for `error` -/
inductive ErrPos where
  | result      -- last result of a stage function (compose, traverse, fmap and join error forms)
  | joinArg     -- the error VALUE given to join
  | toErrorArg  -- the error VALUE given to toerror
  deriving DecidableEq, Repr, Inhabited

/-- the original `derive.IsError`: named, and called `error` or declaring `Error() string` on either receiver -/
def isErrorScan : ErrTy → Bool
  | .builtin | .namedNilable | .namedStruct | .namedPtrRecv => true
  | _ => false

/-- the Go truth: a value of the type is assignable to `error` -/
def implementsError : ErrTy → Bool
  | .builtin | .namedNilable | .namedStruct | .pointerToNamed | .namedIface => true
  | _ => false

/-- does the generator accept the type at that position. The repairs are refusals:
`errTypeFixed` — a result must be the predeclared `error` itself (function types are invariant, the
helper's parameter is printed with `error`); `typedNilFixed` — so must join's error argument (a nil
custom error would arrive as a non-nil `error`); `errRecvFixed` — toerror asks go/types whether the
value implements `error` (accepting `*E` and interfaces, refusing pointer-receiver types by value) -/
def isError (cfg : Cfg) : ErrPos → ErrTy → Bool
  | .result, t => if cfg.errTypeFixed then t == .builtin else isErrorScan t
  | .joinArg, t => if cfg.typedNilFixed then t == .builtin else isErrorScan t
  | .toErrorArg, t => if cfg.errRecvFixed then implementsError t else isErrorScan t

/-- once accepted, does the package compile: in result position only the predeclared `error` fits the
printed parameter type; a value must implement `error` -/
def compilesAt : ErrPos → ErrTy → Bool
  | .result, t => t == .builtin
  | _, t => implementsError t

/-- what a sound generator may do: in result position and for join's argument only the predeclared
`error` can be served (everything else must be refused); toerror serves every value that implements `error` -/
def shouldAccept : ErrPos → ErrTy → Bool
  | .toErrorArg, t => implementsError t
  | _, t => t == .builtin

/-! ### `derive.Zero` -/

/-- the texts `derive.Zero` can print, plus `composite` (`T{}` / `*new(T)`: what a repaired generator
needs for structs and arrays) -/
inductive ZText where
  | zero        -- `0`
  | emptyStr    -- `""`
  | false_      -- `false`
  | nil         -- `nil`
  | composite   -- `T{}`
  deriving DecidableEq, Repr, Inhabited

def ZText.text : ZText → String
  | .zero => "0"
  | .emptyStr => "\"\""
  | .false_ => "false"
  | .nil => "nil"
  | .composite => "T{}"

/-- `derive.Zero`: a type switch on `*types.Basic` only — a *named* type is never `*types.Basic` -/
def zeroText : Ty → ZText
  | .basic .string => .emptyStr
  | .basic .bool => .false_
  | .basic _ => .zero
  | _ => .nil

def zeroOkB (env : Env) (T : Ty) (z : ZText) : Bool :=
  match env.under T, z with
  | .basic .string, .emptyStr => true
  | .basic .bool, .false_ => true
  | .basic (.int _ _), .zero => true
  | .basic (.float _), .zero => true
  | .basic (.complex _), .zero => true
  | .ptr _, .nil => true
  | .slice _, .nil => true
  | .map _ _, .nil => true
  | .chan _, .nil => true
  | .func, .nil => true
  | .iface, .nil => true
  | .struct _, .composite => true
  | .array _ _, .composite => true
  | _, _ => false

/-- `ZeroOk env T z`: the text `z` is a well-typed expression denoting the zero value of `T`
(`nil` for pointer/slice/map/chan/func/interface, `0`/`""`/`false` for (named) numeric/string/bool,
a composite literal for struct/array) -/
def ZeroOk (env : Env) (T : Ty) (z : ZText) : Prop := zeroOkB env T z = true

instance (env : Env) (T : Ty) (z : ZText) : Decidable (ZeroOk env T z) :=
  inferInstanceAs (Decidable (zeroOkB env T z = true))

/-- what a repaired `Zero` prints: chosen by the underlying type -/
def fixedZero (env : Env) (T : Ty) : ZText :=
  match env.under T with
  | .basic .string => .emptyStr
  | .basic .bool => .false_
  | .basic _ => .zero
  | .struct _ => .composite
  | .array _ _ => .composite
  | _ => .nil

def zeroTextC (cfg : Cfg) (env : Env) (T : Ty) : ZText :=
  if cfg.zeroFixed then fixedZero env T else zeroText T

/-- every zero printed for the result types `ts` is well typed -/
def zerosOk (cfg : Cfg) (env : Env) (ts : List Ty) : Bool :=
  ts.all fun T => zeroOkB env T (zeroTextC cfg env T)

/-! ### stages, logs, results -/

structure Stage (V E : Type) where
  run : List V → List V × Option E

abbrev Log (V : Type) := List (Nat × List V)

structure Result (V E : Type) where
  res : List V
  err : Option E
  log : Log V
  deriving DecidableEq, Repr

/-! ### plugin/compose `genError` -/

/-- the emitted straight-line chain, from stage `i` on, with the current variables `v_i_*`:
```go
v_{i+1}_0, …, err_i := f_i(v_i_0, …)
if err_i != nil { return <zeros>, err_i }
…
return v_n_0, …, nil
``` -/
def composeFrom {V E} (zeros : List V) : Nat → List (Stage V E) → List V → Log V → Result V E
  | _, [], vars, log => { res := vars, err := none, log := log }
  | i, s :: rest, vars, log =>
    match s.run vars with
    | (_, some e) => { res := zeros, err := some e, log := log ++ [(i, vars)] }
    | (next, none) => composeFrom zeros (i + 1) rest next (log ++ [(i, vars)])

def compose {V E} (zeros : List V) (stages : List (Stage V E)) (args : List V) : Result V E :=
  composeFrom zeros 0 stages args []

/-- compile prediction: `outs` = the non-error result types of every stage. The left-hand side
`v_{i+1}_*, err_i :=` and the `return <zeros>, err_i` are comma-joined lists: empty ⇒ syntax error. -/
def composeWf (cfg : Cfg) (env : Env) (outs : List (List Ty)) : Bool :=
  (cfg.lhsFixed || outs.all (fun o => !o.isEmpty)) && zerosOk cfg env (outs.getLast?.getD [])

/-! ### plugin/fmap `genError`: `deriveFmap(f func(A) B…, g func() (A, error))` -/

/-- ```go
v, err := g()
if err != nil { return <zero>, err }
return f(v), nil          // 0 results: `f(v); return nil`; ≥2 results: `return deriveTuple(f(v)), nil`
```
`g` is stage 0 (no arguments), `f` stage 1 (cannot fail). `zeros` = what is returned beside the error. -/
def fmapE {V E} (zeros : List V) (g : Stage V E) (f : List V → List V) : Result V E :=
  match g.run [] with
  | (_, some e) => { res := zeros, err := some e, log := [(0, [])] }
  | (v, none) => { res := f v, err := none, log := [(0, []), (1, v)] }

/-- the zero is printed only when `f` has exactly one result (0: nothing; ≥2: `nil` function) -/
def fmapWf (cfg : Cfg) (env : Env) (outs : List Ty) : Bool :=
  match outs with
  | [T] => zeroOkB env T (zeroTextC cfg env T)
  | _ => true

/-! ### plugin/join `genError`: `deriveJoin(f func() (T…, error), err error)` -/

/-- ```go
if err != nil { return <zeros>, err }
return f()
``` -/
def joinE {V E} (zeros : List V) (f : Stage V E) (err : Option E) : Result V E :=
  match err with
  | some e => { res := zeros, err := some e, log := [] }
  | none =>
    match f.run [] with
    | (r, e) => { res := r, err := e, log := [(1, [])] }

def joinWf (cfg : Cfg) (env : Env) (outs : List Ty) : Bool := zerosOk cfg env outs

/-- `deriveJoin(deriveFmap(f, g))` with `f func(A) (B…, error)`: fmap runs `g`, then `f` eagerly
(inside `deriveTuple(f(v))`), join unpacks the tuple -/
def bindE {V E} (zeros : List V) (g f : Stage V E) : Result V E :=
  match g.run [] with
  | (_, some e) => { res := zeros, err := some e, log := [(0, [])] }
  | (v, none) =>
    match f.run v with
    | (r, e) => { res := r, err := e, log := [(0, []), (1, v)] }

/-! ### helpers that return a FUNCTION value: what has been evaluated when the helper returns

"Each stage exactly once" needs a point in time. For the helpers whose result is a function there are
two: the moment the helper returns, and every later invocation of the returned function.

* compose, toerror (and the C15 wrappers) return a function literal around the stages: building it
  evaluates nothing; every INVOCATION runs the chain above, i.e. every stage at most once per
  invocation, left to right (`compose` / `toError` are the meaning of one invocation).
* the error form of fmap for an `f` with two or more results is the only helper that returns a function
  holding already evaluated results: `return deriveTuple(f(v)), nil` runs `g` and then `f` before it
  returns, and the returned function only hands the stored results out — `f` runs exactly once, no
  matter whether the returned function is called zero, one or many times. That is `Thunk`.
-/

/-- a function value `func() (results…)` returned by a helper -/
structure Thunk (V E : Type) where
  vals : List V            -- the non-error results it yields
  err : Option E           -- the error it yields as last result (`deriveJoin(deriveFmap(f, g))`: f's own)
  perCall : Log V          -- the calls EVERY invocation performs (emitted code: none)
  deriving DecidableEq, Repr

/-- one invocation of the returned function -/
def Thunk.invoke {V E} (t : Thunk V E) : Result V E := { res := t.vals, err := t.err, log := t.perCall }

/-- the log after `n` invocations of the returned function, starting from the log `l0` at the return
of the helper -/
def Thunk.logAfter {V E} (t : Thunk V E) (l0 : Log V) : Nat → Log V
  | 0 => l0
  | n + 1 => t.logAfter l0 n ++ t.perCall

structure FnResult (V E : Type) where
  fn : Option (Thunk V E)  -- `none` = the nil function
  err : Option E
  log : Log V              -- the calls made by the time the helper returns
  deriving DecidableEq, Repr

/-- fmap, error form, `f` with ≥ 2 results (`f`'s last result may be an error: it stays inside):
```go
v, err := g()
if err != nil { return nil, err }
return deriveTuple(f(v)), nil       // f(v) is evaluated HERE; deriveTuple stores its results
``` -/
def fmapEFn {V E} (g f : Stage V E) : FnResult V E :=
  match g.run [] with
  | (_, some e) => { fn := none, err := some e, log := [(0, [])] }
  | (v, none) =>
    match f.run v with
    | (r, e) => { fn := some { vals := r, err := e, perCall := [] }, err := none, log := [(0, []), (1, v)] }

/-- `deriveJoin(fn, err)` on a function value: `if err != nil { return zeros, err }; return fn()`.
`none` = calling the nil function (a Go panic; unreachable after `fmapEFn`) -/
def joinFn {V E} (zeros : List V) (fn : Option (Thunk V E)) (err : Option E) : Option (Result V E) :=
  match err, fn with
  | some e, _ => some { res := zeros, err := some e, log := [] }
  | none, some t => some t.invoke
  | none, none => none

/-! ### the last stage's own values (round 7)

`deriveJoin` ends in `return f()`: when `f` itself fails, whatever `f` returned beside its error is
handed on (`joinE`, `bindE`, `joinFn` above are that code). A repaired join (`passFixed`) returns the
zero values beside ANY error: -/

def zeroOnError {V E} (pass : Bool) (zeros : List V) (r : Result V E) : Result V E :=
  if pass && r.err.isSome then { r with res := zeros } else r

def joinEC {V E} (pass : Bool) (zeros : List V) (f : Stage V E) (err : Option E) : Result V E :=
  zeroOnError pass zeros (joinE zeros f err)

def bindEC {V E} (pass : Bool) (zeros : List V) (g f : Stage V E) : Result V E :=
  zeroOnError pass zeros (bindE zeros g f)

/-! ### plugin/traverse -/

structure TResult (V E : Type) where
  out : Option (List V)       -- `none` = the nil slice
  err : Option E
  log : Log V
  deriving DecidableEq, Repr

/-- ```go
out := make([]B, len(list)); var err error
for i, elem := range list {
    out[i], err = f(elem)
    if err != nil { return nil, err }
}
return out, nil
``` -/
def traverseFrom {V E} (f : V → V × Option E) : Nat → List V → List V → Log V → TResult V E
  | _, [], out, log => { out := some out, err := none, log := log }
  | i, x :: rest, out, log =>
    match f x with
    | (_, some e) => { out := none, err := some e, log := log ++ [(i, [x])] }
    | (y, none) => traverseFrom f (i + 1) rest (out ++ [y]) (log ++ [(i, [x])])

def traverse {V E} (f : V → V × Option E) (list : List V) : TResult V E :=
  traverseFrom f 0 list [] []

/-! ### plugin/toerror: `deriveToError(err error, f func(ps…) (outs…, bool))` -/

/-- ```go
out0, …, success := f(ps…)
if success { return out0, …, nil }
return out0, …, err
``` -/
def toError {V E} (err : E) (f : List V → List V × Bool) (args : List V) : Result V E :=
  match f args with
  | (outs, true) => { res := outs, err := none, log := [(0, args)] }
  | (outs, false) => { res := outs, err := some err, log := [(0, args)] }

open Plumb in
def successName : Name := ['s', 'u', 'c', 'c', 'e', 's', 's']
open Plumb in
def outPrefix : Name := ['o', 'u', 't']

open Plumb in
/-- the wrapper of toerror has the same naming structure as the C15 wrappers: `err` and `f` are bound
first, then the parameters of `f` (after `RenameBlankIdentifier`), and the body refers to
`f`, the parameters, `err`, and declares `out<i>` and `success` in the scope of the parameters -/
def toErrorParams (cfg : Plumb.Cfg) (ps : List Param) : List Param :=
  effParams cfg [fName, errName] paramPrefix ps

open Plumb in
/-- the binder `err error` (the type id is outside the corpus table: no parameter has type `error`) -/
def errBinder : Binder := { name := errName, ty := .val 1000000 }

open Plumb in
def toErrorTm (cfg : Plumb.Cfg) (ps0 : List Param) : Tm :=
  let ps := toErrorParams cfg ps0
  .lam [errBinder, fBinder [ps] 1] (.lam (binders ps) (.call fName [names ps] true))

open Plumb in
/-- compile prediction for toerror: the call `f(ps…)` resolves, the final `return …, err` still sees
the supplied error, and no parameter collides with the locals `success` / `out<i>` -/
def toErrorWf (cfg : Plumb.Cfg) (ps0 : List Param) : Bool :=
  let ps := toErrorParams cfg ps0
  wrapperWellFormed (toErrorTm cfg ps0) &&
    (names ps).all fun n => n != errName && n != successName && !outPrefix.isPrefixOf n

open Plumb in
/-- the locals `out0 … out<k-1>, success := f(ps…)` share the scope of the parameters. A parameter with
one of those names is simply assigned to (the call's arguments are evaluated first), which type-checks
iff its type is the type of that result (`bool` for `success`); and `:=` needs at least one new name. -/
def toErrorLocalsOk (ps : List Param) (rs : List Nat) (boolTy : Nat) : Bool :=
  let lhs := (rs.zipIdx.map fun (t, j) => (genName outPrefix j, t)) ++ [(successName, boolTy)]
  lhs.all (fun (n, t) => match ps.find? (fun p => p.name == n) with
    | some p => p.ty == t
    | none => true) &&
  lhs.any (fun (n, _) => !(names ps).contains n)

open Plumb in
/-- exact compile prediction for toerror (`toErrorWf` is the sufficient condition used by the theorem) -/
def toErrorWfExact (cfg : Plumb.Cfg) (localsFixed : Bool) (ps0 : List Param) (rs : List Nat) (boolTy : Nat) : Bool :=
  let ps := toErrorParams cfg ps0
  wrapperWellFormed (toErrorTm cfg ps0) && (names ps).all (fun n => n != errName) &&
    (localsFixed || toErrorLocalsOk ps rs boolTy)

end Goderive.ErrChain
