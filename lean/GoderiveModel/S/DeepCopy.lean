/-
Layer S: what plugin/deepcopy (and plugin/clone) emit, as functions from (source, prior destination,
next fresh address) to (destination after the call, next fresh address).

`top`   = `genStatement`: the body of `deriveDeepCopy(dst, src T)` (dst is the *same object* after the
          call for pointers and maps; for slices the same backing array);
`field` = `genField`: the statements that overwrite the l-value `that` from `this`.
Every `new`, `make` takes a fresh address. A slice value `slice a spare elems` denotes a view of a
backing array whose hidden part (the spare capacity) holds zero values.
-/
import GoderiveModel.U.Ty
import GoderiveModel.U.Val
import GoderiveModel.S.Equal

namespace Goderive
open Val

/-- `canCopy` of plugin/deepcopy is the same predicate as `canEqual` (pointer-free) -/
abbrev canCopy := canEqual

def spineOfList : List Val → Val := Val.ofList

def sappend : Val → Val → Val
  | .scons h t, ys => .scons h (sappend t ys)
  | _, ys => ys

def stake : Nat → Val → Val
  | 0, _ => .snil
  | n + 1, .scons h t => .scons h (stake n t)
  | _, _ => .snil

def sdrop : Nat → Val → Val
  | 0, v => v
  | n + 1, .scons _ t => sdrop n t
  | _, _ => .snil

def sreplicate : Nat → Val → Val
  | 0, _ => .snil
  | n + 1, v => .scons v (sreplicate n v)

mutual
/-- the zero value of a type (fuel bounds the unfolding of declarations) -/
def zeroVal (env : Env) : Nat → Ty → Val
  | 0, _ => .snil
  | f + 1, T =>
    match env.under T with
    | .basic .bool => .bool false
    | .basic (.int _ _) => .int 0
    | .basic (.float w) => .flt w 0
    | .basic (.complex w) => .cplx (w / 2) 0 0
    | .basic .string => .str []
    | .ptr _ => .nilv
    | .slice _ => .nilv
    | .map _ _ => .nilv
    | .array n E => .arr (sreplicate n (zeroVal env f E))
    | .struct fs => .struct (zeroFields env f fs)
    | _ => .snil
def zeroFields (env : Env) : Nat → Ty → Val
  | 0, _ => .snil
  | f + 1, .fcons T rest => .scons (zeroVal env f T) (zeroFields env f rest)
  | _, _ => .snil
end

/-- `dst[k]` read: the stored value or the zero value -/
def mapGet (k : Val) (z : Val) (es : Val) : Val :=
  match mapLookup k es with
  | some v => v
  | none => z

/-- `dst[k] = v`: replace in place or append -/
def mapSet (k v : Val) : Val → Val
  | .scons (.pair k' w) rest => if goEq k k' then .scons (.pair k' v) rest else .scons (.pair k' w) (mapSet k v rest)
  | _ => .scons (.pair k v) .snil

namespace DeepCopy

abbrev St := Nat   -- next fresh address

/-- fuel for zero values: more than any finite declaration chain in the environment -/
def zfuel (env : Env) : Nat := env.decls.length + 8

mutual
def top (env : Env) (T : Ty) (src dst : Val) (n : St) : Res (Val × St) :=
  match env.under T with
  | .ptr R =>
    match src, dst with
    | .ptr _ s, .ptr da d =>
      match env.under R with
      | .struct fs =>
        if R.isNamed then
          if fs = .fnil then .ok (dst, n) else      -- no field: no statement, nothing dereferenced
          match s, d with
          | .struct ss, .struct ds => do
              let (ds', n') ← fields env fs ss ds n
              .ok (.ptr da (.struct ds'), n')
          | _, _ => .panic
        else .panic                         -- pointer to unnamed struct: unsupported, nothing emitted
      | _ => do
          let (d', n') ← field env R s d n
          .ok (.ptr da d', n')
    | _, _ =>
      match env.under R with
      | .struct .fnil => if R.isNamed then .ok (dst, n) else .panic
      | _ => .panic                          -- nil dereference
  | .slice E =>
    match src, dst with
    | .nilv, d => .ok (d, n)
    | .slice _ _ ss, .nilv =>
      if ss.slen == 0 || canCopy env E then .ok (.nilv, n) else .panic
    | .slice _ _ ss, .slice da dsp ds =>
      if canCopy env E then
        .ok (.slice da dsp (sappend (stake ds.slen ss) (sdrop ss.slen ds)), n)   -- copy(dst, src)
      else do
        let (ds', n') ← elems env E ss ds n
        .ok (.slice da dsp ds', n')
    | _, _ => .panic
  | .map _ V =>
    match src, dst with
    | .nilv, d => .ok (d, n)
    | .map _ ss, .nilv => if ss.slen == 0 then .ok (.nilv, n) else .panic   -- assignment to nil map
    | .map _ ss, .map da ds => do
        let (ds', n') ← entries env V ss ds n
        .ok (.map da ds', n')
    | _, _ => .panic
  | _ => .panic
termination_by (sizeOf src, 0)

/-- fields of a named struct, in order -/
def fields (env : Env) (fs : Ty) (ss ds : Val) (n : St) : Res (Val × St) :=
  match fs, ss, ds with
  | .fnil, .snil, .snil => .ok (.snil, n)
  | .fcons F rest, .scons s ss', .scons d ds' => do
      let (d', n1) ← field env F s d n
      let (r, n2) ← fields env rest ss' ds' n1
      .ok (.scons d' r, n2)
  | _, _, _ => .panic
termination_by (sizeOf ss, 2)

/-- `for i, v := range src { genField(E, v, dst[i]) }`: index panic when dst is shorter -/
def elems (env : Env) (E : Ty) (ss ds : Val) (n : St) : Res (Val × St) :=
  match ss, ds with
  | .snil, d => .ok (d, n)
  | .scons s ss', .scons d ds' => do
      let (d', n1) ← field env E s d n
      let (r, n2) ← elems env E ss' ds' n1
      .ok (.scons d' r, n2)
  | _, _ => .panic
termination_by (sizeOf ss, 2)

/-- `for k, v := range src { var dst_value V; genField(V, v, dst_value); dst[k] = dst_value }`: the copy of a
value is built in a variable of its own (F68), so what the destination held under `k` is never its prior
(for a copyable `V` the value is assigned as it is and the prior does not matter either) -/
def entries (env : Env) (V : Ty) (ss ds : Val) (n : St) : Res (Val × St) :=
  match ss with
  | .snil => .ok (ds, n)
  | .scons (.pair k v) ss' => do
      let (v', n1) ← field env V v (zeroVal env (zfuel env) V) n
      entries env V ss' (mapSet k v' ds) n1
  | _ => .panic
termination_by (sizeOf ss, 2)

/-- `genField`: overwrite the l-value `that` (prior value `prior`) from `src` -/
def field (env : Env) (F : Ty) (src prior : Val) (n : St) : Res (Val × St) :=
  if canCopy env F then .ok (src, n)
  else
    match env.under F with
    | .ptr R =>
      match src with
      | .nilv => .ok (.nilv, n)
      | .ptr a s =>
        if canCopy env R then .ok (.ptr n s, n + 1)                                  -- `*that = *this`
        else top env (.ptr R) (.ptr a s) (.ptr n (zeroVal env (zfuel env) R)) (n + 1) -- helper(that, this)
      | _ => .panic
    | .array _ E =>
      match src, prior with
      | .arr ss, .arr ds => do
          let (ds', n') ← elems env E ss ds n
          .ok (.arr ds', n')
      | _, _ => .panic
    | .slice E =>
      match src with
      | .nilv => .ok (.nilv, n)
      | .slice sa ssp ss =>
        let L := ss.slen
        let z := zeroVal env (zfuel env) E
        let fresh : Val × St := (.slice n 0 (sreplicate L z), n + 1)
        let (base, n1) : Val × St :=
          match prior with
          | .slice da dsp ds =>
            if L > ds.slen then
              (if ds.slen + dsp ≥ L then (.slice da (ds.slen + dsp - L) (sappend ds (sreplicate (L - ds.slen) z)), n)
               else fresh)
            else if L < ds.slen then (.slice da (dsp + (ds.slen - L)) (stake L ds), n)
            else (prior, n)
          | _ => fresh
        if canCopy env E then
          match base with
          | .slice a sp _ => .ok (.slice a sp ss, n1)                                -- copy(that, this)
          | _ => .panic
        else top env (.slice E) (.slice sa ssp ss) base n1
      | _ => .panic
    | .map K V =>
      match src with
      | .nilv => .ok (.nilv, n)
      | .map sa ss => top env (.map K V) (.map sa ss) (.map n .snil) (n + 1)
      | _ => .panic
    | .struct fs =>
      -- `{ field := new(F); helper(field, &this); that = *field }`
      if F.isNamed then
        match src with
        | .struct ss => do
            let (ds', n') ← fields env fs ss (zeroFields env (zfuel env) fs) (n + 1)
            .ok (.struct ds', n')
        | _ => .panic
      else .panic
    | _ => .panic
termination_by (sizeOf src, 1)
end

/-- `deriveClone(src T) T` -/
def clone (env : Env) (T : Ty) (src : Val) (n : St) : Res (Val × St) :=
  match env.under T with
  | .ptr R =>
    match src with
    | .nilv => .ok (.nilv, n)
    | _ => top env T src (.ptr n (zeroVal env (zfuel env) R)) (n + 1)
  | .slice E =>
    match src with
    | .nilv => .ok (.nilv, n)
    | .slice _ _ ss => top env T src (.slice n 0 (sreplicate ss.slen (zeroVal env (zfuel env) E))) (n + 1)
    | _ => .panic
  | .map _ _ =>
    match src with
    | .nilv => .ok (.nilv, n)
    | _ => top env T src (.map n .snil) (n + 1)
  | _ =>
    -- `dst := new(T); deepcopy(dst, &src); return *dst`
    if canCopy env T then .ok (src, n + 1)
    else field env T src (zeroVal env (zfuel env) T) (n + 1)

end DeepCopy
end Goderive
