/-
Which types plugin/equal supports: a decidable, syntactic, closed-world check.

The model `Equal.top`/`Equal.field` returns `Res.panic` for code the generator refuses to emit:
* a pointer to an UNNAMED struct (`top` on `*struct{…}`: "unsupported type");
* an UNNAMED struct that is not `canEqual`, in component position (`field`: generator error);
* `chan`, `func`, interface types.
`Supported` excludes exactly these, in `T` and in the underlying type of every declaration of the
environment (named types may be recursive, so the check cannot follow names).
-/
import GoderiveModel.U.Ty
import GoderiveModel.S.Equal

namespace Goderive
namespace Equal

/-- `T` is supported in component position (field, element, map value, pointee). -/
def okComp (env : Env) : Ty → Bool
  | .basic _ => true
  | .named i => (env.decl? i).isSome            -- closed world: no dangling names
  | .ptr R => (match R with | .struct _ => false | _ => true) && okComp env R
  | .slice E => okComp env E
  | .array _ E => okComp env E
  | .map K V => canEqual env K && okComp env V  -- Go map keys are comparable
  | .struct fs => canEqual env (.struct fs)     -- unnamed struct component: only via `==`
  | .fnil => true
  | .fcons F r => okComp env F && okComp env r
  | .chan _ => false
  | .func => false
  | .iface => false

/-- `T` is supported as the type a function is generated for (or as the underlying type of a
declaration): as `okComp`, but an unnamed struct need not be comparable, its fields are compared
one by one. -/
def okTop (env : Env) : Ty → Bool
  | .struct fs => okComp env fs
  | T => okComp env T

/-- every declared type of the environment is supported -/
def envOk (env : Env) : Bool := env.decls.all fun d => okTop env d.under

end Equal

/-- `deriveEqual` can be generated for `T` (top-level position). -/
def Supported (env : Env) (T : Ty) : Bool := Equal.okTop env T && Equal.envOk env

/-- `T` can also occur as a component of another supported type (this only excludes the unnamed
non-comparable struct itself, for which `field` emits nothing). -/
def SupportedComp (env : Env) (T : Ty) : Bool := Equal.okComp env T && Equal.envOk env

end Goderive
