/-
Layer S, property C15: what the wrappers emitted by plugin/curry, uncurry, flip, apply and tuple do.

The generators do two things:

1. *signature surgery* on the parameter list of the wrapped function (`currySig`, `uncurrySig`,
   `flipSig`, `applySig`, after `derive.RenameBlankIdentifier[With]`), reproduced here as list functions
   over `(name, type-id)` pairs;
2. they print a nest of function literals whose body is the *text* `f(<names>)`. Whether that text
   means "call the wrapped function with every argument in its position" depends on what the names
   resolve to, so the emitted wrapper is modelled as a term of a tiny lambda language with NAMED
   binding and shadowing (`Tm`): `f` is bound first, then each parameter list in order, and the body
   looks its names up in that environment (innermost binder first), exactly like Go's scoping.

(The dynamic semantics does not depend on the number of results: `run*` fix it to 1.)

`wf` is the static judgement (does the emitted text compile?), `eval` the dynamic one (what does the
wrapper do when applied?). The function under test is a *logging* function, so "exactly once, with
these arguments" is visible in the result.

One boolean of `Cfg` per known defect class of the current generator (DESIGN §9-F6); the check probes
the real tool once per run and selects the setting:
* `unnamedFixed`: unnamed parameters (`func(int, string)`) no longer print `f(, )`;
* `shadowFixed`: a parameter called like the generator's own binder (`f`) no longer captures it;
* `crossFixed`: uncurry renames an inner parameter that bears the name of the outer one (94a60e5);
* `voidFixed`: a wrapped function without results is no longer forwarded as `return f(…)`
  (found by this check; curry, uncurry, flip and apply are affected).
A repaired generator is modelled as one that switches to positional names (`param_<i>`) in the
offending case: any sound repair is observationally equal to that.
-/
namespace Goderive.Plumb

/-- identifiers are character lists (so that prefix tests and `strconv.Itoa` have usable lemmas);
`[]` is the name of an unnamed parameter -/
abbrev Name := List Char

structure Param where
  name : Name
  ty : Nat
  deriving DecidableEq, Repr, Inhabited

structure Cfg where
  unnamedFixed : Bool := false
  shadowFixed : Bool := false
  crossFixed : Bool := false
  voidFixed : Bool := false
  prefixFixed : Bool := false     -- user names `param_…` / `innerParam_…` are renamed like blanks (c612461)
  universeFixed : Bool := false   -- so are predeclared identifiers (`nil`, `string`, `len`, …) (568d1b4)
  resultsFixed : Bool := false    -- result names are dropped when one is `f` / `param_…` / `innerParam_…` (18449d4)
  resultOuterFixed : Bool := false -- uncurry: … and when an inner RESULT bears the name of an outer parameter
  qualFixed : Bool := false       -- a parameter named like a package that qualifies a type of the signature is unusable (F102)
  /-- not a variant bit but an input: the package names that qualify types printed in the signature at hand
  (`qualifiers(sig)`; the model has type ids, not type texts, so the caller supplies them) -/
  quals : List Name := []
  deriving DecidableEq, Repr, Inhabited

/-- the generator as it is at the pinned commit -/
def Cfg.current : Cfg := {}
/-- all defect classes repaired -/
def Cfg.fixed : Cfg :=
  { unnamedFixed := true, shadowFixed := true, crossFixed := true, voidFixed := true, prefixFixed := true,
    universeFixed := true, resultsFixed := true, resultOuterFixed := true, qualFixed := true }

def blank : Name := ['_']
def fName : Name := ['f']
def paramPrefix : Name := ['p', 'a', 'r', 'a', 'm', '_']
def innerPrefix : Name := ['i', 'n', 'n', 'e', 'r', 'P', 'a', 'r', 'a', 'm', '_']
def vPrefix : Name := ['v']

/-- `prefix + strconv.Itoa(i)` -/
def genName (pre : Name) (i : Nat) : Name := pre ++ Nat.toDigits 10 i

def names (ps : List Param) : List Name := ps.map (·.name)
def tys (ps : List Param) : List Nat := ps.map (·.ty)

/-! ### `derive/params.go` -/

/-- Go's predeclared identifiers (`types.Universe`) -/
def goUniverse : List Name := [
  ['a', 'n', 'y'], ['b', 'o', 'o', 'l'], ['b', 'y', 't', 'e'], ['c', 'o', 'm', 'p', 'a', 'r', 'a', 'b', 'l', 'e'],
  ['c', 'o', 'm', 'p', 'l', 'e', 'x', '6', '4'], ['c', 'o', 'm', 'p', 'l', 'e', 'x', '1', '2', '8'], ['e', 'r', 'r', 'o', 'r'], ['f', 'l', 'o', 'a', 't', '3', '2'],
  ['f', 'l', 'o', 'a', 't', '6', '4'], ['i', 'n', 't'], ['i', 'n', 't', '8'], ['i', 'n', 't', '1', '6'],
  ['i', 'n', 't', '3', '2'], ['i', 'n', 't', '6', '4'], ['r', 'u', 'n', 'e'], ['s', 't', 'r', 'i', 'n', 'g'],
  ['u', 'i', 'n', 't'], ['u', 'i', 'n', 't', '8'], ['u', 'i', 'n', 't', '1', '6'], ['u', 'i', 'n', 't', '3', '2'],
  ['u', 'i', 'n', 't', '6', '4'], ['u', 'i', 'n', 't', 'p', 't', 'r'], ['t', 'r', 'u', 'e'], ['f', 'a', 'l', 's', 'e'],
  ['i', 'o', 't', 'a'], ['n', 'i', 'l'], ['a', 'p', 'p', 'e', 'n', 'd'], ['c', 'a', 'p'],
  ['c', 'l', 'e', 'a', 'r'], ['c', 'l', 'o', 's', 'e'], ['c', 'o', 'm', 'p', 'l', 'e', 'x'], ['c', 'o', 'p', 'y'],
  ['d', 'e', 'l', 'e', 't', 'e'], ['i', 'm', 'a', 'g'], ['l', 'e', 'n'], ['m', 'a', 'k', 'e'],
  ['m', 'a', 'x'], ['m', 'i', 'n'], ['n', 'e', 'w'], ['p', 'a', 'n', 'i', 'c'],
  ['p', 'r', 'i', 'n', 't'], ['p', 'r', 'i', 'n', 't', 'l', 'n'], ['r', 'e', 'a', 'l'], ['r', 'e', 'c', 'o', 'v', 'e', 'r']]

def errName : Name := ['e', 'r', 'r']

/-- `unusable`: a parameter that cannot be forwarded under its own name. At the pinned commit that was
only `_`; every later repair added a clause (one model bit each, so that the model is the code of every
stage): unnamed; `f` and `err`; the names handed out by the renaming itself (`param_…`, `innerParam_…`);
the predeclared identifiers; the package names that qualify the types of the signature. -/
def unusable (cfg : Cfg) (n : Name) : Bool :=
  n == blank ||
  (cfg.unnamedFixed && n == []) ||
  (cfg.shadowFixed && (n == fName || n == errName)) ||
  (cfg.prefixFixed && (paramPrefix.isPrefixOf n || innerPrefix.isPrefixOf n)) ||
  (cfg.universeFixed && goUniverse.contains n) ||
  (cfg.qualFixed && cfg.quals.contains n)

/-- `hasBlankIdentifier` -/
def hasBlank (cfg : Cfg) (ps : List Param) : Bool := ps.any (fun p => unusable cfg p.name)

/-- `rename`: position `i` is renamed to `prefix<i>` when its name is unusable or already starts with
the prefix -/
def renameFrom (cfg : Cfg) (pre : Name) : Nat → List Param → List Param
  | _, [] => []
  | i, p :: rest =>
    (if unusable cfg p.name || pre.isPrefixOf p.name then { p with name := genName pre i } else p)
      :: renameFrom cfg pre (i + 1) rest

/-- `RenameBlankIdentifierWith` (parameters): nothing happens unless some parameter is unusable -/
def renameBlankWith (cfg : Cfg) (pre : Name) (ps : List Param) : List Param :=
  if hasBlank cfg ps then renameFrom cfg pre 0 ps else ps

/-- `RenameBlankIdentifier` -/
def renameBlank (cfg : Cfg) (ps : List Param) : List Param := renameBlankWith cfg paramPrefix ps

/-- positional names for every parameter (tuple's `v<i>`; and the model of a generator that would
repair the remaining uncurry clash) -/
def positionalFrom (pre : Name) : Nat → List Param → List Param
  | _, [] => []
  | i, p :: rest => { p with name := genName pre i } :: positionalFrom pre (i + 1) rest

/-- the parameter list the generator works with after `Add` (`_avoid`: the binders the emitted body
refers to besides the parameters; kept for the statements, the renaming does not depend on it) -/
def effParams (cfg : Cfg) (_avoid : List Name) (pre : Name) (ps : List Param) : List Param :=
  renameBlankWith cfg pre ps

/-- `hasCapturingName`: a RESULT named `f` or like a renamed parameter -/
def capturing (n : Name) : Bool := n == fName || paramPrefix.isPrefixOf n || innerPrefix.isPrefixOf n

/-- the result names the wrappers are printed with: all stripped when one of them is capturing (`resultsFixed`) -/
def effResults (cfg : Cfg) (rs : List Name) : List Name :=
  if cfg.resultsFixed && rs.any capturing then rs.map (fun _ => []) else rs

/-! ### signature surgery -/

/-- `currySig`: first parameter / the rest -/
def currySig (ps : List Param) : List Param × List Param := (ps.take 1, ps.drop 1)

/-- `flipSig`: the first two parameters swapped -/
def flipSig : List Param → List Param
  | a :: b :: rest => b :: a :: rest
  | ps => ps

/-- `applySig`: last parameter / the others -/
def applySig (ps : List Param) : List Param × List Param := (ps.drop (ps.length - 1), ps.take (ps.length - 1))

/-- `uncurrySig`: outer parameters followed by the parameters of the returned function -/
def uncurrySig (outer inner : List Param) : List Param := outer ++ inner

/-! ### the emitted wrapper as a term with named binding -/

inductive BTy where
  | val (t : Nat)                       -- an ordinary parameter of the type with that id
  | fn (groups : List (List Nat)) (nres : Nat)   -- a (possibly curried) function: parameter types per call, number of results
  deriving DecidableEq, Repr, Inhabited

structure Binder where
  name : Name
  ty : BTy
  deriving DecidableEq, Repr, Inhabited

def Param.toBinder (p : Param) : Binder := { name := p.name, ty := .val p.ty }

inductive Tm where
  | lam (bs : List Binder) (body : Tm)              -- `func(bs) … { return body }`
  | call (head : Name) (groups : List (List Name)) (ret : Bool)  -- `[return ]head(names…)(names…)`
  | ret (ns : List Name)                            -- `v0, v1, …`
  deriving Repr, Inhabited

def binders (ps : List Param) : List Binder := ps.map Param.toBinder

def fBinder (groups : List (List Param)) (nres : Nat) : Binder :=
  { name := fName, ty := .fn (groups.map tys) nres }

/-- every generator prints `return f(…)`, whether or not `f` has results; a repaired one drops the
`return` for a function without results -/
def retFlag (cfg : Cfg) (nres : Nat) : Bool := !(cfg.voidFixed && nres == 0)

/-- plugin/curry `genFuncFor`:
`func deriveCurry(f F) func(first) func(rest) R { return func(first) … { return func(rest) R { return f(all) } } }` -/
def curryTm (cfg : Cfg) (ps0 : List Param) (nres : Nat) : Tm :=
  let ps := effParams cfg [fName] paramPrefix ps0
  let (first, rest) := currySig ps
  .lam [fBinder [ps] nres]
    (.lam (binders first) (.lam (binders rest) (.call fName [names ps] (retFlag cfg nres))))

/-- plugin/flip: `func deriveFlip(f F) func(flipped) R { return func(flipped) R { return f(all) } }` -/
def flipTm (cfg : Cfg) (ps0 : List Param) (nres : Nat) : Tm :=
  let ps := effParams cfg [fName] paramPrefix ps0
  .lam [fBinder [ps] nres] (.lam (binders (flipSig ps)) (.call fName [names ps] (retFlag cfg nres)))

/-- plugin/apply: `func deriveApply(f F, last T) func(others) R { return func(others) R { return f(all) } }`;
`f` and the pre-bound parameter share one parameter list -/
def applyTm (cfg : Cfg) (ps0 : List Param) (nres : Nat) : Tm :=
  let ps := effParams cfg [fName] paramPrefix ps0
  let (last, others) := applySig ps
  .lam (fBinder [ps] nres :: binders last)
    (.lam (binders others) (.call fName [names ps] (retFlag cfg nres)))

/-- plugin/uncurry `renameParam` (94a60e5): an inner parameter that bears the name `x` of the outer one
(if that is a real name) becomes `innerParam_<its index in the inner list>` -/
def renameParam (x : Name) (pre : Name) : Nat → List Param → List Param
  | _, [] => []
  | i, p :: rest =>
    (if x != [] && x != blank && p.name == x then { p with name := genName pre i } else p)
      :: renameParam x pre (i + 1) rest

/-- the name of the (single) outer parameter as the user wrote it -/
def outerName : List Param → Name
  | [p] => p.name
  | _ => []

/-- the two parameter lists of plugin/uncurry after `Add`: with `crossFixed`, first `renameParam` on the
inner list, then the blank renaming with `innerParam_` inside and `param_` outside -/
def uncurryParams (cfg : Cfg) (outer0 inner0 : List Param) : List Param × List Param :=
  let inner1 := if cfg.crossFixed then renameParam (outerName outer0) innerPrefix 0 inner0 else inner0
  (effParams cfg [fName] paramPrefix outer0, effParams cfg [fName] innerPrefix inner1)

/-- plugin/uncurry: `func deriveUncurry(f F) func(outer…, inner…) R { return func(outer…, inner…) R { return f(outer)(inner) } }` -/
def uncurryTm (cfg : Cfg) (outer0 inner0 : List Param) (nres : Nat) : Tm :=
  let (outer, inner) := uncurryParams cfg outer0 inner0
  .lam [fBinder [outer, inner] nres]
    (.lam (binders (uncurrySig outer inner)) (.call fName [names outer, names inner] (retFlag cfg nres)))

/-- plugin/tuple: `func deriveTuple(v0 T0, …) func() (T0, …) { return func() (T0, …) { return v0, … } }` -/
def tupleParams (ts : List Nat) : List Param := positionalFrom vPrefix 0 (ts.map fun t => { name := [], ty := t })

def tupleTm (ts : List Nat) : Tm :=
  .lam (binders (tupleParams ts)) (.lam [] (.ret (names (tupleParams ts))))

/-! ### static semantics: does the emitted text compile? -/

/-- a name that can be written as an operand: not missing, not `_` -/
def usable (n : Name) : Bool := n != [] && n != blank

def nodupB : List Name → Bool
  | [] => true
  | n :: rest => !rest.contains n && nodupB rest

/-- uncurry merges the outer parameters into the signature of the returned function: a RESULT of that
function may bear the name of an outer parameter (`func(a int) func(b string) (a int)`). The code as
it is keeps the name (`a` declared twice); a repaired generator drops the result names then. -/
def effResultsUncurry (cfg : Cfg) (outerNames : List Name) (rs : List Name) : List Name :=
  let r := effResults cfg rs
  if cfg.resultOuterFixed && r.any (fun n => n != [] && n != blank && outerNames.contains n) then r.map (fun _ => [])
  else r

/-- the named results of the innermost function literal are declared in the scope of its parameters
`inner` and shadow everything outside (`f` and the parameters `outerPs` of enclosing literals): the
text compiles iff the results are all named or all unnamed, the named ones are distinct from each
other and from `inner`, and none of them hides a name the body uses -/
def resultsOk (outerPs inner rs : List Name) : Bool :=
  (rs.all (· == []) || rs.all (· != [])) &&
  nodupB ((rs ++ inner).filter (fun n => n != [] && n != blank)) &&
  rs.all (fun n => n == [] || (n != fName && !outerPs.contains n))

/-- one parameter list: names all present or all absent (Go's syntax), no name declared twice -/
def groupOk (bs : List Binder) : Bool :=
  let ns := bs.map (·.name)
  (ns.all (· == []) || ns.all (· != [])) && nodupB (ns.filter usable)

/-- innermost binder first -/
def lookupB : List Binder → Name → Option BTy
  | [], _ => none
  | b :: rest, n => if b.name == n then some b.ty else lookupB rest n

def argsOk (env : List Binder) : List Name → List Nat → Bool
  | [], [] => true
  | n :: ns, t :: ts => usable n && lookupB env n == some (.val t) && argsOk env ns ts
  | _, _ => false

def groupsOk (env : List Binder) : List (List Name) → List (List Nat) → Bool
  | [], [] => true
  | g :: gs, t :: ts => argsOk env g t && groupsOk env gs ts
  | _, _ => false

def retOk (env : List Binder) : List Name → Bool
  | [] => true
  | n :: ns => usable n && (match lookupB env n with | some (.val _) => true | _ => false) && retOk env ns

/-- `wf env t`: the emitted text type-checks in scope `env` (innermost first) -/
def wf (env : List Binder) : Tm → Bool
  | .lam bs body => groupOk bs && wf (bs.reverse ++ env) body
  | .call h gs ret =>
    match lookupB env h with
    | some (.fn ts n) => groupsOk env gs ts && (ret == decide (0 < n))   -- `return f()` needs a value
    | _ => false
  | .ret ns => retOk env ns

/-- the compile prediction of the correspondence -/
def wrapperWellFormed (t : Tm) : Bool := wf [] t

/-! ### dynamic semantics -/

/-- outcome of running a wrapper: `none` = stuck (the text does not mean anything), otherwise the
call log (argument vector of every invocation of the function under test) and the results -/
abbrev Out (α : Type) := Option (List (List α) × List α)

inductive RV (α : Type) where
  | val (a : α)
  | fn (g : List (List α) → Out α)     -- a function value: applied to its argument groups

def lookupV {α} : List (Name × RV α) → Name → Option (RV α)
  | [], _ => none
  | (m, v) :: rest, n => if m == n then some v else lookupV rest n

def lookupVal {α} (env : List (Name × RV α)) (n : Name) : Option α :=
  if usable n then
    match lookupV env n with
    | some (.val a) => some a
    | _ => none
  else none

def lookupVals {α} (env : List (Name × RV α)) : List Name → Option (List α)
  | [] => some []
  | n :: ns => match lookupVal env n, lookupVals env ns with
    | some a, some r => some (a :: r)
    | _, _ => none

def lookupGroups {α} (env : List (Name × RV α)) : List (List Name) → Option (List (List α))
  | [] => some []
  | g :: gs => match lookupVals env g, lookupGroups env gs with
    | some a, some r => some (a :: r)
    | _, _ => none

/-- bind one parameter list (later parameters are looked up first; within a well-formed list that
makes no difference) -/
def bindG {α} (bs : List Binder) (vs : List (RV α)) : List (Name × RV α) :=
  ((bs.map (·.name)).zip vs).reverse

/-- apply a term to successive argument lists -/
def eval {α} : List (Name × RV α) → Tm → List (List (RV α)) → Out α
  | env, .lam bs body, vs :: rest =>
    if bs.length = vs.length then eval (bindG bs vs ++ env) body rest else none
  | env, .call h gs _, [] =>
    match lookupV env h, lookupGroups env gs with
    | some (.fn g), some args => g args
    | _, _ => none
  | env, .ret ns, [] =>
    match lookupVals env ns with
    | some vs => some ([], vs)
    | none => none
  | _, _, _ => none

/-- the instrumented function under test: logs its argument vector, returns `f` of it -/
def logging {α} (f : List α → List α) : List (List α) → Out α :=
  fun gs => some ([gs.flatten], f gs.flatten)

/-- the instrumented curried function (`func(a) func(rest…) R`): logs the outer call and the inner call -/
def loggingCurried {α} (f : List α → List α) : List (List α) → Out α
  | [a, rest] => some ([a, a ++ rest], f (a ++ rest))
  | _ => none

def vals {α} (as : List α) : List (RV α) := as.map .val

/-- `deriveCurry(f)(a)(rest…)` -/
def runCurry {α} (cfg : Cfg) (ps : List Param) (f : List α → List α) (a : α) (rest : List α) : Out α :=
  eval [] (curryTm cfg ps 1) [[.fn (logging f)], [.val a], vals rest]

/-- `deriveFlip(f)(args…)` -/
def runFlip {α} (cfg : Cfg) (ps : List Param) (f : List α → List α) (args : List α) : Out α :=
  eval [] (flipTm cfg ps 1) [[.fn (logging f)], vals args]

/-- `deriveApply(f, last)(others…)` -/
def runApply {α} (cfg : Cfg) (ps : List Param) (f : List α → List α) (last : α) (others : List α) : Out α :=
  eval [] (applyTm cfg ps 1) [[.fn (logging f), .val last], vals others]

/-- `deriveUncurry(fc)(args…)` for an instrumented curried `fc` -/
def runUncurry {α} (cfg : Cfg) (outer inner : List Param) (f : List α → List α) (args : List α) : Out α :=
  eval [] (uncurryTm cfg outer inner 1) [[.fn (loggingCurried f)], vals args]

/-- the value `deriveCurry(f)` as a curried function -/
def curried {α} (cfg : Cfg) (ps : List Param) (f : List α → List α) : List (List α) → Out α
  | [[a], rest] => runCurry cfg ps f a rest
  | _ => none

/-- `deriveUncurry(deriveCurry(f))(args…)`: uncurry sees the (already renamed) signature of the
curry wrapper -/
def runUncurryCurry {α} (cfg : Cfg) (ps : List Param) (f : List α → List α) (args : List α) : Out α :=
  let (first, rest) := currySig (effParams cfg [fName] paramPrefix ps)
  eval [] (uncurryTm cfg first rest 1) [[.fn (curried cfg ps f)], vals args]

/-- `deriveTuple(args…)()` -/
def runTuple {α} (ts : List Nat) (args : List α) : Out α :=
  eval [] (tupleTm ts) [vals args, []]

end Goderive.Plumb
