/-
Layer S: what the function emitted by plugin/hash for a type `T` computes (`uint64` arithmetic wraps).
-/
import GoderiveModel.U.Ty
import GoderiveModel.U.Val
import GoderiveModel.U.Float
import GoderiveModel.U.Utf8
import GoderiveModel.S.Compare

namespace Goderive
open Val

/-- `uint64(x)` of a Go integer: two's complement truncation -/
def toU64 (n : Int) : UInt64 := UInt64.ofNat (n % (2 ^ 64 : Int)).toNat

/-- `math.Float64bits(x + 0)`: adding 0 turns -0 into +0 and changes no other (non-NaN) value -/
def normBits (w bits : Nat) : Nat :=
  if fltMag w bits = 0 then 0 else bits

def mix (h c : UInt64) : UInt64 := 31 * h + c

/-- `for _, c := range s { h = 31*h + uint64(c) }` -/
def hashString (bs : List Nat) : UInt64 :=
  (decodeRunes bs).foldl (fun h r => mix h (UInt64.ofNat r)) 0

namespace Hash

/-- numeric leaves are inlined by `field()`; bool and string go through their helper -/
def leaf : Val → Res UInt64
  | .bool b => .ok (if b then 1 else 0)
  | .int n => .ok (toU64 n)
  | .flt w b => .ok (UInt64.ofNat (normBits w b))
  | .cplx w a b => .ok (31 * ((31 * 17) + UInt64.ofNat (normBits w a)) + UInt64.ofNat (normBits w b))
  | .str bs => .ok (hashString bs)
  | _ => .panic

mutual
def top (env : Env) (T : Ty) (x : Val) : Res UInt64 :=
  match env.under T with
  | .basic _ => leaf x
  | .ptr R =>
    match x with
    | .nilv => .ok 0
    | .ptr _ a =>
      match env.under R with
      | .struct fs =>
        if R.isNamed then
          match a with
          | .struct xs =>
            if fs = .fnil then .ok 17
            else fields env (env.skipMask R) fs xs 17
          | _ => .panic
        else do let c ← field env R a; .ok ((31 * 17) + c)
      | _ => do let c ← field env R a; .ok ((31 * 17) + c)
    | _ => .panic
  | .struct fs =>
    match x with
    | .struct xs =>
      if fs = .fnil then .ok 17
      else fields env (env.skipMask T) fs xs 17
    | _ => .panic
  | .slice E =>
    match x with
    | .nilv => .ok 0
    | .slice _ _ xs => elems env E xs 17
    | _ => .panic
  | .array _ E =>
    match x with
    | .arr xs => elems env E xs 17
    | _ => .panic
  | .map K V =>
    match x with
    | .nilv => .ok 0
    | .map _ xs => entries env K V (sortEntries xs) 17
    | _ => .panic
  | _ => .panic
termination_by (sizeOf x, 0)
decreasing_by
  all_goals first
    | decreasing_tactic
    | (apply Prod.Lex.left; simp [sizeOf_sortEntries]; omega)

/-- `h = 31*h + field(Fi)`; unexported fields of imported structs are skipped (`skip`) -/
def fields (env : Env) (skip : List Bool) (fs : Ty) (xs : Val) (h : UInt64) : Res UInt64 :=
  match fs, xs with
  | .fnil, .snil => .ok h
  | .fcons F rest, .scons a xs' =>
    if skip.headD false then fields env skip.tail rest xs' h
    else do
      let c ← field env F a
      fields env skip.tail rest xs' (mix h c)
  | _, _ => .panic
termination_by (sizeOf xs, 2)

def elems (env : Env) (E : Ty) (xs : Val) (h : UInt64) : Res UInt64 :=
  match xs with
  | .snil => .ok h
  | .scons a xs' => do
      let c ← field env E a
      elems env E xs' (mix h c)
  | _ => .panic
termination_by (sizeOf xs, 2)

def entries (env : Env) (K V : Ty) (xs : Val) (h : UInt64) : Res UInt64 :=
  match xs with
  | .snil => .ok h
  | .scons (.pair k v) xs' => do
      let ck ← field env K k
      let cv ← field env V v
      entries env K V xs' (mix (mix h ck) cv)
  | _ => .panic
termination_by (sizeOf xs, 2)

/-- `field()`: numeric leaves inline, everything else calls the helper for the component type -/
def field (env : Env) (F : Ty) (x : Val) : Res UInt64 := top env F x
termination_by (sizeOf x, 1)
end

end Hash
end Goderive
