/-
Layer S: what the function emitted by plugin/equal for a type `T` computes.

Written in the shape of the generator (plugin/equal/equal.go), not of the specification:
`top`   = the body `genStatement` emits for the function generated for `T`;
`field` = the expression `field()` emits for a component of type `T`
          (`==` shortcut when `canEqual`, `bytes.Equal` for `[]byte`, inlined nil-guard + deref for
          pointers to unnamed types, otherwise a *call* to the helper generated for that type = `top`).
`Res.panic` is a Go panic (nil dereference, index out of range) or code the generator refuses to emit.
-/
import GoderiveModel.U.Ty
import GoderiveModel.U.Val
import GoderiveModel.U.Float

namespace Goderive
open Val

/-- Go's `==` on values of comparable (pointer-free) types. -/
def goEq : Val → Val → Bool
  | .bool a, .bool b => a == b
  | .int a, .int b => a == b
  | .flt w a, .flt _ b => fltEq w a b
  | .cplx w a b, .cplx _ c d => fltEq w a c && fltEq w b d
  | .str a, .str b => a == b
  | .arr xs, .arr ys => goEq xs ys
  | .struct xs, .struct ys => goEq xs ys
  | .snil, .snil => true
  | .scons a r, .scons b s => goEq a b && goEq r s
  | _, _ => false

/-- `(this == nil) == (that == nil) && bytes.Equal(this, that)`: the `[]byte` field shortcut -/
def bytesEqual : Val → Val → Res Bool
  | .nilv, .nilv => .ok true
  | .nilv, .slice _ _ _ => .ok false
  | .slice _ _ _, .nilv => .ok false
  | .slice _ _ xs, .slice _ _ ys => .ok (goEq xs ys)
  | _, _ => .panic

/-- map lookup `that[k]` with Go key equality -/
def mapLookup (k : Val) : Val → Option Val
  | .scons (.pair k' v) rest => if goEq k k' then some v else mapLookup k rest
  | _ => none

def isByte : Ty → Bool
  | .basic (.int 8 false) => true
  | _ => false

namespace Equal

mutual
/-- body of the function generated for `T` (plugin/equal `genStatement`) -/
def top (env : Env) (T : Ty) (x y : Val) : Res Bool :=
  match env.under T with
  | .basic _ => .ok (goEq x y)
  | .ptr R =>
    match env.under R with
    | .struct fs =>
      if R.isNamed then
        match x, y with
        | .nilv, .nilv => .ok true
        | .nilv, .ptr _ _ => .ok false
        | .ptr _ _, .nilv => .ok false
        | .ptr _ (.struct xs), .ptr _ (.struct ys) => fields env fs xs ys
        | _, _ => .panic
      else .panic            -- pointer to unnamed struct: "unsupported type", nothing is emitted
    | _ =>
      match x, y with
      | .nilv, .nilv => .ok true
      | .nilv, .ptr _ _ => .ok false
      | .ptr _ _, .nilv => .ok false
      | .ptr _ a, .ptr _ b => top env R a b
      | _, _ => .panic
  | .struct fs =>
    if T.isNamed then
      match x, y with
      | .struct xs, .struct ys => fields env fs xs ys       -- via `field(&this, &that, *T)`
      | _, _ => .panic
    else if canEqual env (.struct fs) then .ok (goEq x y)
    else
      match x, y with
      | .struct xs, .struct ys => fields env fs xs ys
      | _, _ => .panic
  | .slice E =>
    match x, y with
    | .nilv, .nilv => .ok true
    | .nilv, .slice _ _ _ => .ok false
    | .slice _ _ _, .nilv => .ok false
    | .slice _ _ xs, .slice _ _ ys =>
      if xs.slen != ys.slen then .ok false else elems env E xs ys
    | _, _ => .panic
  | .array _ E =>
    match x, y with
    | .arr xs, .arr ys => elems env E xs ys
    | _, _ => .panic
  | .map _ V =>
    match x, y with
    | .nilv, .nilv => .ok true
    | .nilv, .map _ _ => .ok false
    | .map _ _, .nilv => .ok false
    | .map _ xs, .map _ ys =>
      if xs.slen != ys.slen then .ok false else entries env V xs ys
    | _, _ => .panic
  | _ => .panic
termination_by (sizeOf x, 0)

/-- `this.F0 == that.F0 && field(F1) && …` over the fields of a struct, in order -/
def fields (env : Env) (fs : Ty) (xs ys : Val) : Res Bool :=
  match fs, xs, ys with
  | .fnil, .snil, .snil => .ok true
  | .fcons F rest, .scons a xs', .scons b ys' => do
      let r ← field env F a b
      if r then fields env rest xs' ys' else .ok false
  | _, _, _ => .panic
termination_by (sizeOf xs, 2)

/-- `for i := 0; i < len(this); i++ { if !(field(this[i], that[i])) { return false } }; return true` -/
def elems (env : Env) (E : Ty) (xs ys : Val) : Res Bool :=
  match xs, ys with
  | .snil, .snil => .ok true
  | .scons a xs', .scons b ys' => do
      let r ← field env E a b
      if r then elems env E xs' ys' else .ok false
  | _, _ => .panic
termination_by (sizeOf xs, 2)

/-- `for k, v := range this { thatv, ok := that[k]; if !ok {return false}; if !(field(v, thatv)) {return false} }`.
The answer does not depend on the iteration order because the first failure returns `false` and
success needs all entries (proved: `entries_perm`). -/
def entries (env : Env) (V : Ty) (xs ys : Val) : Res Bool :=
  match xs with
  | .snil => .ok true
  | .scons (.pair k v) xs' =>
    match mapLookup k ys with
    | none => .ok false
    | some w => do
      let r ← field env V v w
      if r then entries env V xs' ys else .ok false
  | _ => .panic
termination_by (sizeOf xs, 2)

/-- expression emitted by plugin/equal `field()` for a component of type `F` -/
def field (env : Env) (F : Ty) (x y : Val) : Res Bool :=
  if canEqual env F then .ok (goEq x y)
  else
    match env.under F with
    | .ptr R =>
      if R.isNamed then top env (.ptr R) x y        -- helper generated for the pointer type
      else
        match x, y with
        | .nilv, .nilv => .ok true
        | .nilv, .ptr _ _ => .ok false
        | .ptr _ _, .nilv => .ok false
        | .ptr _ a, .ptr _ b => field env R a b
        | _, _ => .panic
    | .array n E => top env (.array n E) x y
    | .slice E =>
      if isByte E then bytesEqual x y
      else top env (.slice E) x y
    | .map K V => top env (.map K V) x y
    | .struct _ =>
      if F.isNamed then top env F x y               -- `field(&this, &that, *F)` → helper for `*F`, both non-nil
      else .panic                                   -- unnamed non-comparable struct: generator error, nothing emitted
    | _ => .panic
termination_by (sizeOf x, 1)
end

end Equal
end Goderive
