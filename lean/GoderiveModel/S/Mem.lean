/-
Layer S: what the function returned by the code that plugin/mem emits (`deriveMem…(f)`) does, as a
state machine over the table captured by the returned closure.

plugin/mem/mem.go `genFunc` emits one of four shapes, chosen from the parameter list
(`shapeOf`, with `derive.IsComparable` = `canEqual`):

* `flag`   — no parameter:      `memoized := false; var res… ; if !memoized { res… = f(); memoized = true }; return res…`
* `single` — one comparable parameter:             `m := map[T]out;      if v, ok := m[param0]; ok { return v }; v := f(param0); m[param0] = v`
* `input`  — several parameters, all comparable:   `m := map[input]out;  in := input{param0, …}; if v, ok := m[in]; ok …`
* `bucket` — otherwise:         `m := map[uint64][]mem; h := deriveHash(in); vs, ok := m[h];
                                 if ok { for _, v := range vs { if deriveEqual(v.in, in) { return v.out } } };
                                 res… := f(param…); m[h] = append(m[h], mem{in, out}); return res…`

(the bucket shape for a function without results is emitted in compilable form since the repair of
finding F18: `f(param…); m[h] = append(m[h], mem{in})`)

times how the results are stored (`pack`): nothing (`struct{}` / no `out` field) for no result, the
value itself for one result, an `output{Res0, Res1, …}` struct for two or more.

Go map keys are compared with `==` (`goEq`: structural on comparable types, `+0 == -0`, NaN never
equal to itself). The derived Hash and Equal of the key type are *parameters* (`Cfg.hash`, `Cfg.eq`)
so that the theorems of `Props/C18.lean` can say exactly which facts about them they use; the driver
instantiates them with `Hash.top` / `Equal.top` of the key type. `f` is a parameter as well: a pure
function from the argument tuple to the result tuple.
-/
import GoderiveModel.U.Ty
import GoderiveModel.U.Val
import GoderiveModel.S.Equal
import GoderiveModel.S.Hash

namespace Goderive.Mem
open Goderive Val

abbrev Args := List Val
abbrev Results := List Val
/-- the user's function: argument tuple ↦ result tuple -/
abbrev Fn := Args → Results

inductive Shape where
  | flag | single | input | bucket
  deriving DecidableEq, Repr, Inhabited

/-- `types.NewStruct(paramFields)`: the unnamed struct `{Param0 T0; Param1 T1; …}` -/
def paramStruct (ps : List Ty) : Ty := .struct (ps.foldr Ty.fcons Ty.fnil)

/-- the dispatch of `genFunc`, in the order of the code -/
def shapeOf (env : Env) (ps : List Ty) : Shape :=
  match ps with
  | [] => .flag
  | [T] =>
    if canEqual env T then .single
    else if canEqual env (paramStruct [T]) then .input
    else .bucket
  | ps => if canEqual env (paramStruct ps) then .input else .bucket

/-- the type whose derived Hash / Equal the bucket shape calls (and the key type of the map shapes):
the parameter itself when there is one, the `input` struct otherwise -/
def keyTy (ps : List Ty) : Ty :=
  match ps with
  | [T] => T
  | ps => paramStruct ps

/-- the key built from the arguments: `param0`, or `input{param0, param1, …}` -/
def keyOf : Args → Val
  | [a] => a
  | as => .struct (Val.ofList as)

/-- how `n` results are stored in the table: `struct{}{}` / the value / `output{res0, res1, …}` -/
def pack (n : Nat) (rs : Results) : Val :=
  match n, rs with
  | 1, [r] => r
  | 0, _ => .struct .snil
  | _, rs => .struct (Val.ofList rs)

/-- `return` / `return v` / `return o.Res0, o.Res1, …` -/
def unpack (n : Nat) (v : Val) : Results :=
  match n, v with
  | 0, _ => []
  | 1, v => [v]
  | _, .struct fs => fs.toList
  | _, _ => []

/-! ### Go maps as association lists -/

/-- `v, ok := m[k]` on a `map[K]V` with comparable `K` -/
def mapGet : List (Val × Val) → Val → Option Val
  | [], _ => none
  | (k', v) :: r, k => if goEq k k' then some v else mapGet r k

/-- `m[k] = v` -/
def mapSet : List (Val × Val) → Val → Val → List (Val × Val)
  | [], k, v => [(k, v)]
  | (k', v') :: r, k, v => if goEq k k' then (k', v) :: r else (k', v') :: mapSet r k v

/-- `vs, ok := m[h]` on the `map[uint64][]mem` -/
def tblGet : List (UInt64 × List (Val × Val)) → UInt64 → Option (List (Val × Val))
  | [], _ => none
  | (h', b) :: r, h => if h = h' then some b else tblGet r h

/-- `m[h] = b` -/
def tblSet : List (UInt64 × List (Val × Val)) → UInt64 → List (Val × Val) →
    List (UInt64 × List (Val × Val))
  | [], h, b => [(h, b)]
  | (h', b') :: r, h, b => if h = h' then (h', b) :: r else (h', b') :: tblSet r h b

/-- `for _, v := range vs { if deriveEqual(v.in, in) { return v.out } }`: the stored results of the
first entry of the bucket whose `in` is Equal to the key -/
def scan (eq : Val → Val → Bool) (k : Val) : List (Val × Val) → Option Val
  | [] => none
  | (i, o) :: r => if eq i k then some o else scan eq k r

/-! ### The machine -/

/-- what the closure captures -/
inductive State where
  | flag (memoized : Bool) (res : Results)
  | map (m : List (Val × Val))
  | bucket (t : List (UInt64 × List (Val × Val)))
  deriving Repr, Inhabited

structure Cfg where
  shape : Shape
  /-- number of results of the signature -/
  nres : Nat
  /-- zero values of the result types (`var res0 T0`), only read by the `flag` shape -/
  zeros : Results := []
  /-- derived Hash of the key type (`bucket` shape) -/
  hash : Val → UInt64 := fun _ => 0
  /-- derived Equal of the key type (`bucket` shape): `eq stored new` -/
  eq : Val → Val → Bool := fun _ _ => false

/-- the configuration of the code emitted for parameter types `ps` and `nres` results: the shape
chosen by `genFunc`, and derived Hash / Equal of the key type (`g.hash.GetFuncName(…)`,
`g.equal.GetFuncName(…, …)`). A panic of either aborts the call in Go; the driver checks for it
before playing a sequence (they do not panic on well-typed values of supported types: C02, C04). -/
def cfgOf (env : Env) (ps : List Ty) (nres : Nat) : Cfg :=
  { shape := shapeOf env ps, nres := nres,
    hash := fun k => match Hash.top env (keyTy ps) k with
      | .ok h => h
      | .panic => 0,
    eq := fun a b => match Equal.top env (keyTy ps) a b with
      | .ok r => r
      | .panic => false }

/-- the state right after `m := deriveMem(f)` -/
def init (c : Cfg) : State :=
  match c.shape with
  | .flag => .flag false c.zeros
  | .single => .map []
  | .input => .map []
  | .bucket => .bucket []

/-- one call of the memoised function: new state, returned results, whether `f` was invoked -/
def step (c : Cfg) (f : Fn) (s : State) (args : Args) : State × Results × Bool :=
  match s with
  | .flag memoized res =>
    if memoized then (s, res, false)
    else
      let rs := f args
      (.flag true rs, rs, true)
  | .map m =>
    let k := keyOf args
    match mapGet m k with
    | some v => (s, unpack c.nres v, false)
    | none =>
      let rs := f args
      (.map (mapSet m k (pack c.nres rs)), rs, true)
  | .bucket t =>
    let k := keyOf args
    let h := c.hash k
    match scan c.eq k ((tblGet t h).getD []) with
    | some o => (s, unpack c.nres o, false)
    | none =>
      let rs := f args
      (.bucket (tblSet t h ((tblGet t h).getD [] ++ [(k, pack c.nres rs)])), rs, true)

/-- plays a call sequence from state `s`: per call the arguments, the answer, and whether `f` ran -/
def runFrom (c : Cfg) (f : Fn) : State → List Args → List (Args × Results × Bool)
  | _, [] => []
  | s, a :: rest =>
    let o := step c f s a
    (a, o.2.1, o.2.2) :: runFrom c f o.1 rest

def answersFrom (c : Cfg) (f : Fn) (s : State) (calls : List Args) : List Results :=
  (runFrom c f s calls).map (·.2.1)

/-- the argument tuples `f` was invoked on, in order -/
def logFrom (c : Cfg) (f : Fn) (s : State) (calls : List Args) : List Args :=
  ((runFrom c f s calls).filter (·.2.2)).map (·.1)

/-- the answers of `m := deriveMem(f); m(calls₀); m(calls₁); …` -/
def answers (c : Cfg) (f : Fn) (calls : List Args) : List Results := answersFrom c f (init c) calls

/-- the call log of `f` during that sequence -/
def log (c : Cfg) (f : Fn) (calls : List Args) : List Args := logFrom c f (init c) calls

/-- "a call with arguments `a` finds the entry made for `a0`": the comparison the emitted code
performs between a stored key and the new one (`true` for the flag shape: there is one entry) -/
def hit (c : Cfg) (a0 a : Args) : Bool :=
  match c.shape with
  | .flag => true
  | .single => goEq (keyOf a) (keyOf a0)
  | .input => goEq (keyOf a) (keyOf a0)
  | .bucket => c.eq (keyOf a0) (keyOf a)

end Goderive.Mem
