/-
Layer S: what the function emitted by plugin/compare for a type `T` computes.
`top` = body emitted by `genStatement`; `field` = expression emitted by `field()`.
Map comparison goes through `sortEntries` (= deriveSort(deriveKeys(m)) with the derived order of the
key type, value-directed `cmpKey` because keys are pointer-free).
-/
import GoderiveModel.U.Ty
import GoderiveModel.U.Val
import GoderiveModel.U.Float
import GoderiveModel.S.Equal

namespace Goderive
open Val

def cmpInt (a b : Int) : Int := if a == b then 0 else if a < b then -1 else 1

/-- `strings.Compare` / `bytes.Compare`: byte-wise lexicographic -/
def cmpBytes : List Nat → List Nat → Int
  | [], [] => 0
  | [], _ :: _ => -1
  | _ :: _, [] => 1
  | a :: r, b :: s => if a == b then cmpBytes r s else if a < b then -1 else 1

def cmpFlt (w a b : Nat) : Int :=
  if fltEq w a b then 0 else if fltLt w a b then -1 else 1

def cmpBool (a b : Bool) : Int := if a == b then 0 else if b then -1 else 1

/-- leaves: false<true, numeric <, byte-wise strings, real before imaginary part -/
def cmpLeaf : Val → Val → Res Int
  | .bool a, .bool b => .ok (cmpBool a b)
  | .int a, .int b => .ok (cmpInt a b)
  | .flt w a, .flt _ b => .ok (cmpFlt w a b)
  | .cplx w a b, .cplx _ c d => .ok (if fltEq w a c then cmpFlt w b d else if fltLt w a c then -1 else 1)
  | .str a, .str b => .ok (cmpBytes a b)
  | _, _ => .panic

/-- the derived order on pointer-free values (map keys): leaves, arrays and structs element-wise -/
def cmpKey : Val → Val → Int
  | .bool a, .bool b => cmpBool a b
  | .int a, .int b => cmpInt a b
  | .flt w a, .flt _ b => cmpFlt w a b
  | .cplx w a b, .cplx _ c d => if fltEq w a c then cmpFlt w b d else if fltLt w a c then -1 else 1
  | .str a, .str b => cmpBytes a b
  | .arr xs, .arr ys => cmpKey xs ys
  | .struct xs, .struct ys => cmpKey xs ys
  | .scons a r, .scons b s => let c := cmpKey a b; if c != 0 then c else cmpKey r s
  | _, _ => 0

/-- insert an entry into a spine sorted by key -/
def insertEntry (e : Val) : Val → Val
  | .scons h t =>
    match e, h with
    | .pair k _, .pair k' _ => if cmpKey k k' ≤ 0 then .scons e (.scons h t) else .scons h (insertEntry e t)
    | _, _ => .scons e (.scons h t)
  | s => .scons e s

/-- entries in ascending key order: `sort(keys(m))` paired with their values -/
def sortEntries : Val → Val
  | .scons e r => insertEntry e (sortEntries r)
  | s => s

theorem sizeOf_insertEntry (e s : Val) : sizeOf (insertEntry e s) = 1 + sizeOf e + sizeOf s := by
  induction s with
  | scons h t _ iht =>
    unfold insertEntry
    split
    · split <;> simp_all <;> omega
    · simp
  | _ => simp [insertEntry]

theorem sizeOf_sortEntries (s : Val) : sizeOf (sortEntries s) = sizeOf s := by
  induction s with
  | scons e r _ ihr => simp [sortEntries, sizeOf_insertEntry, ihr]
  | _ => simp [sortEntries]

namespace Compare

mutual
def top (env : Env) (T : Ty) (x y : Val) : Res Int :=
  match env.under T with
  | .basic _ => cmpLeaf x y
  | .ptr R =>
    match x, y with
    | .nilv, .nilv => .ok 0
    | .nilv, .ptr _ _ => .ok (-1)
    | .ptr _ _, .nilv => .ok 1
    | .ptr _ a, .ptr _ b =>
      match env.under R with
      | .struct fs =>
        if R.isNamed then
          match a, b with
          | .struct xs, .struct ys => fields env fs xs ys
          | _, _ => .panic
        else .panic        -- helper for the unnamed struct type: "unsupported compare type"
      | _ => top env R a b  -- helper generated for the pointee type
    | _, _ => .panic
  | .struct fs =>
    if T.isNamed then
      match x, y with
      | .struct xs, .struct ys => fields env fs xs ys
      | _, _ => .panic
    else .panic              -- unnamed struct: "unsupported compare type"
  | .slice E =>
    match x, y with
    | .nilv, .nilv => .ok 0
    | .nilv, .slice _ _ _ => .ok (-1)
    | .slice _ _ _, .nilv => .ok 1
    | .slice _ _ xs, .slice _ _ ys =>
      if xs.slen != ys.slen then .ok (if xs.slen < ys.slen then -1 else 1)
      else elems env E xs ys
    | _, _ => .panic
  | .array _ E =>
    match x, y with
    | .arr xs, .arr ys => elems env E xs ys
    | _, _ => .panic
  | .map _ V =>
    match x, y with
    | .nilv, .nilv => .ok 0
    | .nilv, .map _ _ => .ok (-1)
    | .map _ _, .nilv => .ok 1
    | .map _ xs, .map _ ys =>
      if xs.slen != ys.slen then .ok (if xs.slen < ys.slen then -1 else 1)
      else entries env V (sortEntries xs) (sortEntries ys)
    | _, _ => .panic
  | _ => .panic
termination_by (sizeOf x, 0)
decreasing_by
  all_goals first
    | decreasing_tactic
    | (apply Prod.Lex.left; simp [sizeOf_sortEntries]; omega)

/-- `if c := field(Fi); c != 0 { return c }` over the fields in order; `return 0` -/
def fields (env : Env) (fs : Ty) (xs ys : Val) : Res Int :=
  match fs, xs, ys with
  | .fnil, .snil, .snil => .ok 0
  | .fcons F rest, .scons a xs', .scons b ys' => do
      let c ← field env F a b
      if c != 0 then .ok c else fields env rest xs' ys'
  | _, _, _ => .panic
termination_by (sizeOf xs, 2)

def elems (env : Env) (E : Ty) (xs ys : Val) : Res Int :=
  match xs, ys with
  | .snil, .snil => .ok 0
  | .scons a xs', .scons b ys' => do
      let c ← field env E a b
      if c != 0 then .ok c else elems env E xs' ys'
  | _, _ => .panic
termination_by (sizeOf xs, 2)

/-- the loop over the two sorted key lists: equal keys → compare the values, else compare the keys -/
def entries (env : Env) (V : Ty) (xs ys : Val) : Res Int :=
  match xs, ys with
  | .snil, .snil => .ok 0
  | .scons (.pair k v) xs', .scons (.pair k' w) ys' =>
    if goEq k k' then do
      let c ← field env V v w
      if c != 0 then .ok c else entries env V xs' ys'
    else
      let c := cmpKey k k'
      if c != 0 then .ok c else entries env V xs' ys'
  | _, _ => .panic
termination_by (sizeOf xs, 2)

/-- `field()`: `strings.Compare` for strings, otherwise a call to the helper for the component type -/
def field (env : Env) (F : Ty) (x y : Val) : Res Int :=
  match env.under F with
  | .struct _ => if F.isNamed then top env F x y else .panic
  | _ => top env F x y
termination_by (sizeOf x, 1)
end

end Compare
end Goderive
