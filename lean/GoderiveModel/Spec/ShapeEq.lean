/-
Specification: bit-level structural equality ("same shape, same bits"), written with no reference to
the generator's dispatch. It differs from `Spec.structEq` (Spec/StructEq.lean) at float leaves and at
map entries only:

* leaves are compared by their BITS: two floats are the same iff their bit patterns are (a NaN equals a
  NaN with the same payload, `+0` differs from `-0`); complex numbers by the bits of both parts; booleans,
  integers and strings by value;
* same nil-ness at every pointer, slice and map (nil is different from empty);
* slices and arrays: same length, elements pairwise `shapeEq` by position; structs field by field;
  pointers: the pointees are `shapeEq` (addresses, spare capacity are not compared);
* maps `xs`, `ys` (entry spines): `entriesMatch xs ys`, which takes the entries `(k, v)` of `xs` one after the
  other, removes from what is left of `ys` the FIRST entry `(k', w)` with `shapeEq K k k'` and
  `shapeEq V v w`, fails if there is none, and at the end demands that nothing of `ys` is left.
  So `entriesMatch xs ys = true` exhibits a one-to-one pairing of ALL entries of `xs` with ALL entries of
  `ys` (in particular the same number of entries) such that paired entries have `shapeEq` keys and
  `shapeEq` values; the order of the entries in either spine is irrelevant to the existence of such a pairing.
  Keys are never looked up with Go's `==`, hence an entry under a NaN key (which `==` cannot find) is
  matched like any other, by the bit pattern of its key and the shape of its value.

`structEq` says `false` for a perfect copy of a map with a NaN key (no `==`-equal key exists) and for a
NaN leaf; `shapeEq` says `true` for both. On NaN-free values `shapeEq` implies `structEq`
(`shapeEq_structEq` in Lemmas/DeepCopy/Shape.lean); the converse fails only for `+0` / `-0`.
-/
import GoderiveModel.U.Ty
import GoderiveModel.U.Val

namespace Goderive
open Val

/-- identity of leaves, bit for bit (`flt w bits`: same width and same bit pattern) -/
def leafBits : Val → Val → Bool
  | .bool a, .bool b => a == b
  | .int a, .int b => a == b
  | .flt w a, .flt w' b => w == w' && a == b
  | .cplx w a b, .cplx w' c d => w == w' && a == c && b == d
  | .str a, .str b => a == b
  | _, _ => false

namespace Spec

mutual
def shapeEq (env : Env) (T : Ty) (x y : Val) : Bool :=
  match env.under T, x, y with
  | .basic _, a, b => leafBits a b
  | .ptr _, .nilv, .nilv => true
  | .ptr R, .ptr _ a, .ptr _ b => shapeEq env R a b
  | .slice _, .nilv, .nilv => true
  | .slice E, .slice _ _ xs, .slice _ _ ys => seqShape env E xs ys
  | .array _ E, .arr xs, .arr ys => seqShape env E xs ys
  | .struct fs, .struct xs, .struct ys => fieldsShape env fs xs ys
  | .map _ _, .nilv, .nilv => true
  | .map K V, .map _ xs, .map _ ys => entriesMatch env K V xs ys
  | _, _, _ => false
termination_by (sizeOf x, 0)

/-- same length and pointwise the same shape -/
def seqShape (env : Env) (E : Ty) (xs ys : Val) : Bool :=
  match xs, ys with
  | .snil, .snil => true
  | .scons a r, .scons b s => shapeEq env E a b && seqShape env E r s
  | _, _ => false
termination_by (sizeOf xs, 1)

def fieldsShape (env : Env) (fs : Ty) (xs ys : Val) : Bool :=
  match fs, xs, ys with
  | .fnil, .snil, .snil => true
  | .fcons F rest, .scons a r, .scons b s => shapeEq env F a b && fieldsShape env rest r s
  | _, _, _ => false
termination_by (sizeOf xs, 1)

/-- every entry of `xs`, in turn, finds (and uses up) an entry of `ys` of the same shape; none is left -/
def entriesMatch (env : Env) (K V : Ty) (xs ys : Val) : Bool :=
  match xs with
  | .snil => (match ys with | .snil => true | _ => false)
  | .scons (.pair k v) r =>
    match takeEntry env K V k v ys with
    | some ys' => entriesMatch env K V r ys'
    | none => false
  | _ => false
termination_by (sizeOf xs, 2)

/-- `ys` without its first entry whose key is `shapeEq` to `k` and whose value is `shapeEq` to `v` -/
def takeEntry (env : Env) (K V : Ty) (k v : Val) (ys : Val) : Option Val :=
  match ys with
  | .scons (.pair k' w) s =>
      if shapeEq env K k k' && shapeEq env V v w then some s
      else match takeEntry env K V k v s with
        | some s' => some (.scons (.pair k' w) s')
        | none => none
  | _ => none
termination_by (sizeOf k + sizeOf v + 1, sizeOf ys)
end

end Spec
end Goderive
