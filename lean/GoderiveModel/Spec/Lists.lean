/-
Specifications for C13 / C14 / C17: textbook list definitions, written with no reference to the
loops of the emitted code. Core's `List.filter`, `takeWhile`, `all`, `any`, `map`, `flatten`,
`Perm`, `Pairwise` are used as they are; what core does not have is defined here over an abstract
element equality `e : Val → Val → Bool` (the verdict of derived Equal / `==`).
-/
import GoderiveModel.U.Val
import GoderiveModel.U.Utf8

namespace Goderive
namespace Spec

/-- some element is Equal to the item -/
def containsBy (e : Val → Val → Bool) (xs : List Val) (x : Val) : Bool :=
  xs.any (fun v => e v x)

/-- first-occurrence dedup: keep an element iff no earlier *kept* element is Equal to it -/
def dedupFirst (e : Val → Val → Bool) (xs : List Val) : List Val :=
  xs.foldl (fun kept x => if kept.any (fun y => e y x) then kept else kept ++ [x]) []

/-- union of two lists: the first list as it is, then the new items of the second, each once,
in their order of first occurrence -/
def unionBy (e : Val → Val → Bool) (this that : List Val) : List Val :=
  this ++ dedupFirst e (that.filter (fun v => !containsBy e this v))

/-- intersection of two lists, in the first list's order -/
def intersectBy (e : Val → Val → Bool) (this that : List Val) : List Val :=
  this.filter (fun v => containsBy e that v)

/-- `ys` is a set of representatives of `xs` modulo `e`: every element of `xs` is Equal to some
element of `ys`, every element of `ys` comes from `xs`, and no two elements of `ys` are Equal -/
structure IsSetOf (e : Val → Val → Bool) (xs ys : List Val) : Prop where
  covers : ∀ x ∈ xs, ∃ y ∈ ys, e y x = true
  sound : ∀ y ∈ ys, y ∈ xs
  distinct : ys.Pairwise (fun a b => e a b = false)

/-- `e` is an equivalence on the elements of `U` (for derived Equal: C02; for `==`: NaN-freeness) -/
structure EquivOn (e : Val → Val → Bool) (U : List Val) : Prop where
  refl : ∀ a ∈ U, e a a = true
  symm : ∀ a ∈ U, ∀ b ∈ U, e a b = true → e b a = true
  trans : ∀ a ∈ U, ∀ b ∈ U, ∀ c ∈ U, e a b = true → e b c = true → e a c = true

/-- non-decreasing under a three-way comparison `c` (`c b a ≥ 0` for every earlier `a`, later `b`) -/
def SortedBy (c : Val → Val → Int) (xs : List Val) : Prop :=
  xs.Pairwise (fun a b => c b a ≥ 0)

/-- non-decreasing under a strict order `lt`: no later element strictly precedes an earlier one -/
def SortedLt (lt : Val → Val → Bool) (xs : List Val) : Prop :=
  xs.Pairwise (fun a b => lt b a = false)

/-- `lt` is a strict order on the elements of `xs` as far as sorting needs it: asymmetric and
transitive (both follow from C03 for the derived Compare and hold for `<` on basic types) -/
structure StrictOrderOn (lt : Val → Val → Bool) (xs : List Val) : Prop where
  asymm : ∀ a ∈ xs, ∀ b ∈ xs, lt a b = true → lt b a = false
  trans : ∀ a ∈ xs, ∀ b ∈ xs, ∀ c ∈ xs, lt a b = true → lt b c = true → lt a c = true
  /-- incomparability is transitive (strict *weak* order); needed by merge-style sorters -/
  negTrans : ∀ a ∈ xs, ∀ b ∈ xs, ∀ c ∈ xs, lt a b = false → lt b c = false → lt a c = false

/-- contract of `sort.Slice` / `sort.Ints` / `sort.Strings` / `sort.Float64s`: the output is a
permutation of the input and, when `less` is a strict weak order on the elements, sorted -/
structure SorterOK (sorter : (Val → Val → Bool) → List Val → List Val) : Prop where
  perm : ∀ lt xs, (sorter lt xs).Perm xs
  sorted : ∀ lt xs, StrictOrderOn lt xs → SortedLt lt (sorter lt xs)

/-- `m` is a minimal element of `xs`: it is in the list and no element strictly precedes it -/
def IsMinOf (lt : Val → Val → Bool) (xs : List Val) (m : Val) : Prop :=
  m ∈ xs ∧ ∀ y ∈ xs, lt y m = false

/-- the runes of a string as Go's `[]rune(s)` / `range s` yields them -/
def runes (bytes : List Nat) : List Val := (decodeRunes bytes).map (fun r => Val.int (Int.ofNat r))

/-- textbook filter / takeWhile / all / any / map in the state monad of the oracle: the function is
called on the elements in order, once each (short-circuiting where the textbook definition does) -/
def filterM {σ : Type} (p : Val → σ → Bool × σ) : List Val → σ → List Val × σ
  | [], s => ([], s)
  | x :: r, s =>
    let (b, s1) := p x s
    let (ys, s2) := filterM p r s1
    (if b then x :: ys else ys, s2)

def takeWhileM {σ : Type} (p : Val → σ → Bool × σ) : List Val → σ → List Val × σ
  | [], s => ([], s)
  | x :: r, s =>
    let (b, s1) := p x s
    if b then
      let (ys, s2) := takeWhileM p r s1
      (x :: ys, s2)
    else ([], s1)

def allM {σ : Type} (p : Val → σ → Bool × σ) : List Val → σ → Bool × σ
  | [], s => (true, s)
  | x :: r, s =>
    let (b, s1) := p x s
    if b then allM p r s1 else (false, s1)

def anyM {σ : Type} (p : Val → σ → Bool × σ) : List Val → σ → Bool × σ
  | [], s => (false, s)
  | x :: r, s =>
    let (b, s1) := p x s
    if b then (true, s1) else anyM p r s1

def mapM {σ : Type} (f : Val → σ → Val × σ) : List Val → σ → List Val × σ
  | [], s => ([], s)
  | x :: r, s =>
    let (y, s1) := f x s
    let (ys, s2) := mapM f r s1
    (y :: ys, s2)

end Spec
end Goderive
