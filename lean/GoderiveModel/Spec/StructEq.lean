/-
Specification: structural equality, written with no reference to the generator's dispatch
(no `==` shortcut, no `bytes.Equal`, no inlining, no panics): same nil-ness at every pointer, slice
and map, same lengths and key sets, equal leaves.
-/
import GoderiveModel.U.Ty
import GoderiveModel.U.Val
import GoderiveModel.U.Float

namespace Goderive
open Val

/-- equality of leaves: IEEE `==` for floats (so `+0 = -0`), identity otherwise -/
def leafEq : Val → Val → Bool
  | .bool a, .bool b => a == b
  | .int a, .int b => a == b
  | .flt w a, .flt _ b => fltEq w a b
  | .cplx w a b, .cplx _ c d => fltEq w a c && fltEq w b d
  | .str a, .str b => a == b
  | _, _ => false

namespace Spec

mutual
def structEq (env : Env) (T : Ty) (x y : Val) : Bool :=
  match env.under T, x, y with
  | .basic _, a, b => leafEq a b
  | .ptr _, .nilv, .nilv => true
  | .ptr R, .ptr _ a, .ptr _ b => structEq env R a b
  | .slice _, .nilv, .nilv => true
  | .slice E, .slice _ _ xs, .slice _ _ ys => seqEq env E xs ys
  | .array _ E, .arr xs, .arr ys => seqEq env E xs ys
  | .struct fs, .struct xs, .struct ys => fieldsEq env fs xs ys
  | .map _ _, .nilv, .nilv => true
  | .map K V, .map _ xs, .map _ ys => xs.slen == ys.slen && entriesIn env K V xs ys
  | _, _, _ => false
termination_by (sizeOf x, 0)

/-- same length and pointwise equal -/
def seqEq (env : Env) (E : Ty) (xs ys : Val) : Bool :=
  match xs, ys with
  | .snil, .snil => true
  | .scons a r, .scons b s => structEq env E a b && seqEq env E r s
  | _, _ => false
termination_by (sizeOf xs, 1)

def fieldsEq (env : Env) (fs : Ty) (xs ys : Val) : Bool :=
  match fs, xs, ys with
  | .fnil, .snil, .snil => true
  | .fcons F rest, .scons a r, .scons b s => structEq env F a b && fieldsEq env rest r s
  | _, _, _ => false
termination_by (sizeOf xs, 1)

/-- every entry of `xs` has an entry of `ys` with an equal key and an equal value -/
def entriesIn (env : Env) (K V : Ty) (xs ys : Val) : Bool :=
  match xs with
  | .snil => true
  | .scons (.pair k v) r => valueAt env K V k v ys && entriesIn env K V r ys
  | _ => false
termination_by (sizeOf xs, 2)

def valueAt (env : Env) (K V : Ty) (k v : Val) (ys : Val) : Bool :=
  match ys with
  | .scons (.pair k' w) s =>
      (structEq env K k k' && structEq env V v w) || valueAt env K V k v s
  | _ => false
termination_by (sizeOf k + sizeOf v + 1, sizeOf ys)
end

end Spec
end Goderive
