/-
Specification of structural equality in the presence of user-declared Equal methods:
"where a named component declares its own Equal method the answer at that component is that method's".
`structEqM` is the component semantics (map KEYS are matched with the method-free equality `structEq`:
the key set of a Go map is determined by `==`, never by a user method; map VALUES are components);
`structEqTopM` is the answer of the function generated for a
type: the function for `*T` (T a named struct) is what T's own method is meant to delegate to, so it
compares T's fields even when T declares a method.
-/
import GoderiveModel.S.Methods
import GoderiveModel.Spec.StructEq

namespace Goderive
namespace Spec

mutual
def structEqM (env : Env) (T : Ty) (x y : Val) : Bool :=
  match env.eqM? T with
  | some _ => userEqVal x y == .ok true
  | none =>
    match env.under T, x, y with
    | .basic _, a, b => leafEq a b
    | .ptr _, .nilv, .nilv => true
    | .ptr R, .ptr _ a, .ptr _ b => structEqM env R a b
    | .slice _, .nilv, .nilv => true
    | .slice E, .slice _ _ xs, .slice _ _ ys => seqEqM env E xs ys
    | .array _ E, .arr xs, .arr ys => seqEqM env E xs ys
    | .struct fs, .struct xs, .struct ys => fieldsEqM env fs xs ys
    | .map _ _, .nilv, .nilv => true
    | .map K V, .map _ xs, .map _ ys => xs.slen == ys.slen && entriesInM env K V xs ys
    | _, _, _ => false
termination_by (sizeOf x, 0)

def seqEqM (env : Env) (E : Ty) (xs ys : Val) : Bool :=
  match xs, ys with
  | .snil, .snil => true
  | .scons a r, .scons b s => structEqM env E a b && seqEqM env E r s
  | _, _ => false
termination_by (sizeOf xs, 1)

def fieldsEqM (env : Env) (fs : Ty) (xs ys : Val) : Bool :=
  match fs, xs, ys with
  | .fnil, .snil, .snil => true
  | .fcons F rest, .scons a r, .scons b s => structEqM env F a b && fieldsEqM env rest r s
  | _, _, _ => false
termination_by (sizeOf xs, 1)

def entriesInM (env : Env) (K V : Ty) (xs ys : Val) : Bool :=
  match xs with
  | .snil => true
  | .scons (.pair k v) r => valueAtM env K V k v ys && entriesInM env K V r ys
  | _ => false
termination_by (sizeOf xs, 2)

def valueAtM (env : Env) (K V : Ty) (k v : Val) (ys : Val) : Bool :=
  match ys with
  | .scons (.pair k' w) s =>
      (structEq env K k k' && structEqM env V v w) || valueAtM env K V k v s
  | _ => false
termination_by (sizeOf k + sizeOf v + 1, sizeOf ys)
end

def structFields? : Ty → Option Ty
  | .struct fs => some fs
  | _ => none

/-- the answer of the function generated for `T` itself -/
def structEqTopM (env : Env) (T : Ty) (x y : Val) : Bool :=
  match env.under T, x, y with
  | .ptr _, .nilv, .nilv => true
  | .ptr R, .ptr _ a, .ptr _ b =>
    match structFields? (env.under R) with
    | some fs =>
      if R.isNamed then
        (match a, b with
         | .struct xs, .struct ys => fieldsEqM env fs xs ys
         | _, _ => false)
      else structEqM env R a b
    | none => structEqTopM env R a b
  | _, _, _ => structEqM env T x y
termination_by sizeOf x

end Spec
end Goderive
