/-
Reference definitions for properties C15 and C16. Nothing in here looks at parameter names, emitted
text or configuration: C15 is stated by *position*, C16 by "the first stage that fails".
-/
import GoderiveModel.S.Plumb
import GoderiveModel.S.ErrChain

namespace Goderive.Spec

open Goderive.Plumb (Out)
open Goderive.ErrChain (Stage Log Result TResult Thunk FnResult)

/-! ### C15: calling the wrapper calls `f` exactly once, arguments in their proper positions -/

/-- one invocation of `f` with `args`, its results returned unchanged -/
def callOnce {α} (f : List α → List α) (args : List α) : Out α := some ([args], f args)

/-- `deriveCurry(f)(a)(rest…)` -/
def currySpec {α} (f : List α → List α) (a : α) (rest : List α) : Out α := callOnce f (a :: rest)

/-- `deriveFlip(f)(b, a, rest…)` = `f(a, b, rest…)` -/
def flipSpec {α} (f : List α → List α) : List α → Out α
  | b :: a :: rest => callOnce f (a :: b :: rest)
  | _ => none

/-- `deriveApply(f, last)(others…)` = `f(others…, last)` -/
def applySpec {α} (f : List α → List α) (last : α) (others : List α) : Out α :=
  callOnce f (others ++ [last])

/-- `deriveUncurry(fc)(a, rest…)` = `fc(a)(rest…)`: the curried function is entered once with `a`,
the function it returns once with `rest` -/
def uncurrySpec {α} (f : List α → List α) : List α → Out α
  | a :: rest => some ([[a], a :: rest], f (a :: rest))
  | [] => none

/-- `deriveTuple(args…)()` yields exactly its arguments and calls nothing -/
def tupleSpec {α} (args : List α) : Out α := some ([], args)

/-! ### C16 -/

/-- the argument vector every stage would receive if no stage failed (hand-written sequential
composition) -/
def inputs {V E} : List (Stage V E) → List V → List (List V)
  | [], _ => []
  | s :: rest, a => a :: inputs rest (s.run a).1

/-- the result of the hand-written sequential composition -/
def finalOut {V E} : List (Stage V E) → List V → List V
  | [], a => a
  | s :: rest, a => finalOut rest (s.run a).1

/-- the error every stage would report on its input of the sequential composition -/
def errors {V E} : List (Stage V E) → List V → List (Option E)
  | [], _ => []
  | s :: rest, a => (s.run a).2 :: errors rest (s.run a).1

/-- number the entries of a log from `i` -/
def indexFrom {V} : Nat → List (List V) → Log V
  | _, [] => []
  | i, a :: rest => (i, a) :: indexFrom (i + 1) rest

/-- Compose: with `k` = the number of stages that succeed before the first failure,
stages `0..k` are called once each, in order, on the inputs of the sequential composition; if stage
`k` exists (it fails) its error is returned with zero results, otherwise the sequential result with a
nil error. -/
def composeSpec {V E} (zeros : List V) (stages : List (Stage V E)) (args : List V) : Result V E :=
  let es := errors stages args
  let k := (es.takeWhile Option.isNone).length
  match es[k]? with
  | some (some e) => { res := zeros, err := some e, log := indexFrom 0 ((inputs stages args).take (k + 1)) }
  | _ => { res := finalOut stages args, err := none, log := indexFrom 0 (inputs stages args) }

/-- Fmap (error form) is the two-stage chain `g ; f` where `f` cannot fail -/
def fmapESpec {V E} (zeros : List V) (g : Stage V E) (f : List V → List V) : Result V E :=
  composeSpec zeros [g, { run := fun a => (f a, none) }] []

/-- Join (error form): the already evaluated error is the first stage, `f` the second and last one.
The property text makes no exception for the last stage: whichever stage fails first, all non-error
results are zero values — also when that stage is `f` itself and `f` returned something beside its error -/
def joinESpec {V E} (zeros : List V) (f : Stage V E) (err : Option E) : Result V E :=
  match err with
  | some e => { res := zeros, err := some e, log := [] }
  | none => { res := if (f.run []).2.isSome then zeros else (f.run []).1, err := (f.run []).2, log := [(1, [])] }

/-- `deriveJoin(deriveFmap(f, g))`: `g`, then `f` on its result; zero values beside whichever error comes first -/
def bindESpec {V E} (zeros : List V) (g f : Stage V E) : Result V E :=
  match (g.run []).2 with
  | some e => { res := zeros, err := some e, log := [(0, [])] }
  | none => { res := if (f.run (g.run []).1).2.isSome then zeros else (f.run (g.run []).1).1,
              err := (f.run (g.run []).1).2, log := [(0, []), (1, (g.run []).1)] }

/-- Fmap (error form) returning a function: by the time it returns, `g` and then `f` have been called
once each (only `g` if it fails: nil function and that error); the returned function yields exactly
what that one call of `f` returned and calls nothing, however often it is invoked -/
def fmapEFnSpec {V E} (g f : Stage V E) : FnResult V E :=
  match (g.run []).2 with
  | some e => { fn := none, err := some e, log := [(0, [])] }
  | none => { fn := some { vals := (f.run (g.run []).1).1, err := (f.run (g.run []).1).2, perCall := [] },
              err := none, log := [(0, []), (1, (g.run []).1)] }

/-- Traverse: `k` = length of the longest prefix on which `f` succeeds; elements `0..k` are visited
once each in order; a failure at `k` gives the nil slice and that error, otherwise `list.map f` -/
def traverseSpec {V E} (f : V → V × Option E) (list : List V) : TResult V E :=
  let k := (list.takeWhile fun x => (f x).2.isNone).length
  match list[k]? with
  | some x => { out := none, err := (f x).2, log := indexFrom 0 ((list.take (k + 1)).map fun x => [x]) }
  | none => { out := some (list.map fun x => (f x).1), err := none,
              log := indexFrom 0 (list.map fun x => [x]) }

/-- ToError: `f` once; its other results unchanged; nil iff it reports true, else exactly `err` -/
def toErrorSpec {V E} (err : E) (f : List V → List V × Bool) (args : List V) : Result V E :=
  { res := (f args).1, err := if (f args).2 then none else some err, log := [(0, args)] }

end Goderive.Spec
