/-
Specification for C18, written without reference to the emitted tables: the memoised function
answers every call with what `f` answers ("call f"), and the calls of `f` are counted against the
classes of argument tuples under a given sameness relation (structural equality of the tuples).
-/
import GoderiveModel.U.Val

namespace Goderive.Spec.Mem
open Goderive

/-- the reference behaviour: every call is answered by `f` itself -/
def answers (f : List Val → List Val) (calls : List (List Val)) : List (List Val) :=
  calls.map f

/-- for every call the index of the first call of the sequence with the same arguments
(`same earlier later`); `reps` are the first members found so far -/
def classIdsAux (same : List Val → List Val → Bool) :
    List (Nat × List Val) → Nat → List (List Val) → List Nat
  | _, _, [] => []
  | reps, i, a :: rest =>
    match reps.find? (fun p => same p.2 a) with
    | some p => p.1 :: classIdsAux same reps (i + 1) rest
    | none => i :: classIdsAux same (reps ++ [(i, a)]) (i + 1) rest

def classIds (same : List Val → List Val → Bool) (calls : List (List Val)) : List Nat :=
  classIdsAux same [] 0 calls

/-- number of classes met by the sequence = the number of calls `f` may receive at most -/
def numClasses (same : List Val → List Val → Bool) (calls : List (List Val)) : Nat :=
  (classIds same calls).eraseDups.length

/-- "`f` is invoked at most once per class": no two logged argument tuples are the same -/
def AtMostOncePerClass (same : List Val → List Val → Bool) (log : List (List Val)) : Prop :=
  log.Pairwise (fun a0 a => same a0 a = false)

end Goderive.Spec.Mem
