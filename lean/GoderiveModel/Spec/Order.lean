/-
Specification for C03: the value-directed lexicographic order (nil first, shorter first, elements /
fields in order, maps as their key-sorted entry sequences). Written without any type dispatch.
-/
import GoderiveModel.U.Val
import GoderiveModel.S.Compare

namespace Goderive
open Val

namespace Spec

mutual
def cmpVal (x y : Val) : Int :=
  match x, y with
  | .bool a, .bool b => cmpBool a b
  | .int a, .int b => cmpInt a b
  | .flt w a, .flt _ b => cmpFlt w a b
  | .cplx w a b, .cplx _ c d => if fltEq w a c then cmpFlt w b d else if fltLt w a c then -1 else 1
  | .str a, .str b => cmpBytes a b
  | .nilv, .nilv => 0
  | .nilv, _ => -1
  | _, .nilv => 1
  | .ptr _ a, .ptr _ b => cmpVal a b
  | .slice _ _ xs, .slice _ _ ys =>
    if xs.slen != ys.slen then (if xs.slen < ys.slen then -1 else 1) else cmpSeq xs ys
  | .arr xs, .arr ys => cmpSeq xs ys
  | .struct xs, .struct ys => cmpSeq xs ys
  | .map _ xs, .map _ ys =>
    if xs.slen != ys.slen then (if xs.slen < ys.slen then -1 else 1)
    else cmpEntries (sortEntries xs) (sortEntries ys)
  | _, _ => 0
termination_by (sizeOf x, 0)
decreasing_by
  all_goals first
    | decreasing_tactic
    | (apply Prod.Lex.left; simp [sizeOf_sortEntries]; omega)

def cmpSeq (xs ys : Val) : Int :=
  match xs, ys with
  | .scons a r, .scons b s => let c := cmpVal a b; if c != 0 then c else cmpSeq r s
  | _, _ => 0
termination_by (sizeOf xs, 1)

def cmpEntries (xs ys : Val) : Int :=
  match xs, ys with
  | .scons (.pair k v) r, .scons (.pair k' w) s =>
    let c := if goEq k k' then cmpVal v w else cmpKey k k'
    if c != 0 then c else cmpEntries r s
  | _, _ => 0
termination_by (sizeOf xs, 1)
end

end Spec
end Goderive
