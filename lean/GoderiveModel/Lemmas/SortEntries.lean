/-
Facts about the derived key order `cmpKey` and about `insertEntry` / `sortEntries`.

* three-valued comparison results: `Tri`, lexicographic combination `lex`, the transitivity package
  `Trans3`;
* leaf orders (`cmpBool`, `cmpInt`, `cmpFlt`, `cmpBytes`) are total orders (floats: NaN-free);
* `keyLike a b`: `a` and `b` are pointer-free values of one shape; on NaN-free `keyLike` values
  `cmpKey` is a total order whose equivalence is Go `==` (`goEq`);
* `sortEntries`: permutation, length, sortedness, strict sortedness for distinct keys, and the
  uniqueness lemma `sortEntries_keysAgree`.
-/
import GoderiveModel.U.Typing
import GoderiveModel.S.Compare

namespace Goderive
open Val

/-! ## three-valued results -/

/-- a comparison result: -1, 0 or +1 -/
def Tri (c : Int) : Prop := c = -1 ∨ c = 0 ∨ c = 1

/-- lexicographic combination: the head decides unless it is 0 -/
def lex (h t : Int) : Int := if h != 0 then h else t

@[simp] theorem lex_zero (t : Int) : lex 0 t = t := by simp [lex]

theorem lex_of_ne {h : Int} (t : Int) (hh : h ≠ 0) : lex h t = h := by simp [lex, hh]

theorem lex_eq_zero {h t : Int} : lex h t = 0 ↔ h = 0 ∧ t = 0 := by
  unfold lex; by_cases hh : h = 0 <;> simp [hh]

theorem lex_neg (h t : Int) : lex (-h) (-t) = - lex h t := by
  unfold lex; by_cases hh : h = 0 <;> simp [hh]

theorem Tri.lex {h t : Int} (hh : Tri h) (ht : Tri t) : Tri (lex h t) := by
  unfold Goderive.lex; by_cases h0 : h = 0 <;> simp [h0, hh, ht]

theorem Tri.neg {c : Int} (h : Tri c) : Tri (-c) := by
  unfold Tri at *; omega

theorem tri_zero : Tri 0 := by simp [Tri]
theorem tri_one : Tri 1 := by simp [Tri]
theorem tri_neg_one : Tri (-1) := by simp [Tri]

/-- the transitivity package for three results `c(a,b)`, `c(b,c)`, `c(a,c)` -/
structure Trans3 (ab bc ac : Int) : Prop where
  eqL : ab = 0 → ac = bc
  eqR : bc = 0 → ac = ab
  lt : ab = -1 → bc = -1 → ac = -1
  gt : ab = 1 → bc = 1 → ac = 1

theorem Trans3.zero : Trans3 0 0 0 := ⟨by simp, by simp, by simp, by simp⟩

/-- `Trans3` is closed under lexicographic combination; the tails are only consulted when the first
two heads are 0. -/
theorem Trans3.lex {h1 h2 h3 t1 t2 t3 : Int} (r1 : Tri h1) (r2 : Tri h2)
    (H : Trans3 h1 h2 h3) (T : h1 = 0 → h2 = 0 → Trans3 t1 t2 t3) :
    Trans3 (lex h1 t1) (lex h2 t2) (lex h3 t3) := by
  obtain ⟨e1, e2, e3, e4⟩ := H
  rcases r1 with r1 | r1 | r1 <;> rcases r2 with r2 | r2 | r2 <;> subst r1 <;> subst r2
  all_goals simp at e1 e2 e3 e4
  all_goals try subst e1
  all_goals try subst e2
  all_goals try subst e3
  all_goals try subst e4
  all_goals try simp [Goderive.lex]
  all_goals first
    | exact T rfl rfl
    | (constructor <;> simp)

theorem Trans3.le {ab bc ac : Int} (H : Trans3 ab bc ac) (r1 : Tri ab) (r2 : Tri bc)
    (h1 : ab ≤ 0) (h2 : bc ≤ 0) : ac ≤ 0 := by
  obtain ⟨e1, e2, e3, e4⟩ := H
  unfold Tri at *; omega

theorem Trans3.lt_of_lt_of_le {ab bc ac : Int} (H : Trans3 ab bc ac) (r1 : Tri ab) (r2 : Tri bc)
    (h1 : ab < 0) (h2 : bc ≤ 0) : ac < 0 := by
  obtain ⟨e1, e2, e3, e4⟩ := H
  unfold Tri at *; omega

theorem Trans3.lt_of_le_of_lt {ab bc ac : Int} (H : Trans3 ab bc ac) (r1 : Tri ab) (r2 : Tri bc)
    (h1 : ab ≤ 0) (h2 : bc < 0) : ac < 0 := by
  obtain ⟨e1, e2, e3, e4⟩ := H
  unfold Tri at *; omega

/-! ## leaf orders -/

theorem tri_cmpInt (a b : Int) : Tri (cmpInt a b) := by
  unfold cmpInt Tri; split
  · simp
  · split <;> simp

theorem cmpInt_eq_zero {a b : Int} : cmpInt a b = 0 ↔ a = b := by
  unfold cmpInt; split
  · simp_all
  · split <;> simp_all

theorem cmpInt_eq_neg_one {a b : Int} : cmpInt a b = -1 ↔ a < b := by
  unfold cmpInt; split
  · simp_all
  · split <;> simp_all

theorem cmpInt_eq_one {a b : Int} : cmpInt a b = 1 ↔ b < a := by
  unfold cmpInt; split
  · simp_all
  · split <;> simp_all <;> omega

theorem cmpInt_self (a : Int) : cmpInt a a = 0 := cmpInt_eq_zero.2 rfl

theorem cmpInt_antisymm (a b : Int) : cmpInt b a = - cmpInt a b := by
  rcases tri_cmpInt a b with h | h | h
  · rw [h]; simp only [Int.neg_neg]; rw [cmpInt_eq_one]; exact cmpInt_eq_neg_one.1 h
  · rw [h]; simp only [Int.neg_zero]; rw [cmpInt_eq_zero]; exact (cmpInt_eq_zero.1 h).symm
  · rw [h, cmpInt_eq_neg_one]; exact cmpInt_eq_one.1 h

theorem trans3_cmpInt (a b c : Int) : Trans3 (cmpInt a b) (cmpInt b c) (cmpInt a c) := by
  constructor
  · intro h; rw [cmpInt_eq_zero.1 h]
  · intro h; rw [cmpInt_eq_zero.1 h]
  · simp only [cmpInt_eq_neg_one]; omega
  · simp only [cmpInt_eq_one]; omega

theorem tri_cmpBool (a b : Bool) : Tri (cmpBool a b) := by
  cases a <;> cases b <;> simp [cmpBool, Tri]

theorem cmpBool_eq_zero {a b : Bool} : cmpBool a b = 0 ↔ a = b := by
  cases a <;> cases b <;> simp [cmpBool]

theorem cmpBool_antisymm (a b : Bool) : cmpBool b a = - cmpBool a b := by
  cases a <;> cases b <;> simp [cmpBool]

theorem trans3_cmpBool (a b c : Bool) : Trans3 (cmpBool a b) (cmpBool b c) (cmpBool a c) := by
  cases a <;> cases b <;> cases c <;> constructor <;> simp [cmpBool]

theorem tri_cmpFlt (w a b : Nat) : Tri (cmpFlt w a b) := by
  unfold cmpFlt Tri; split
  · simp
  · split <;> simp

theorem cmpFlt_eq_zero {w a b : Nat} : cmpFlt w a b = 0 ↔ fltEq w a b = true := by
  unfold cmpFlt; split
  · simp_all
  · split <;> simp_all

theorem cmpFlt_eq_cmpInt {w a b : Nat} (ha : fltIsNaN w a = false) (hb : fltIsNaN w b = false) :
    cmpFlt w a b = cmpInt (fltKey w a) (fltKey w b) := by
  simp [cmpFlt, fltEq, fltLt, ha, hb, cmpInt]

theorem cmpFlt_antisymm {w a b : Nat} (ha : fltIsNaN w a = false) (hb : fltIsNaN w b = false) :
    cmpFlt w b a = - cmpFlt w a b := by
  rw [cmpFlt_eq_cmpInt ha hb, cmpFlt_eq_cmpInt hb ha, cmpInt_antisymm]

theorem trans3_cmpFlt {w a b c : Nat} (ha : fltIsNaN w a = false) (hb : fltIsNaN w b = false)
    (hc : fltIsNaN w c = false) : Trans3 (cmpFlt w a b) (cmpFlt w b c) (cmpFlt w a c) := by
  rw [cmpFlt_eq_cmpInt ha hb, cmpFlt_eq_cmpInt hb hc, cmpFlt_eq_cmpInt ha hc]
  exact trans3_cmpInt _ _ _

/-- the complex order is the lexicographic combination of the orders of the two parts -/
theorem cplx_eq_lex (w a b c d : Nat) :
    (if fltEq w a c then cmpFlt w b d else if fltLt w a c then -1 else 1)
      = lex (cmpFlt w a c) (cmpFlt w b d) := by
  unfold lex
  by_cases h : fltEq w a c = true
  · simp [h, cmpFlt_eq_zero.2 h]
  · have h0 : cmpFlt w a c ≠ 0 := fun e => h (cmpFlt_eq_zero.1 e)
    simp only [h, h0, bne_iff_ne, ne_eq, not_false_eq_true, if_true, Bool.false_eq_true, if_false]
    simp [cmpFlt, h]

theorem cmpBytes_cons (a b : Nat) (r s : List Nat) :
    cmpBytes (a :: r) (b :: s) = lex (cmpInt a b) (cmpBytes r s) := by
  simp only [cmpBytes, lex, cmpInt]
  by_cases h : a = b
  · simp [h]
  · have : ¬ ((a : Int) = (b : Int)) := by omega
    simp only [beq_iff_eq, h, this, if_false, Int.ofNat_lt]
    split <;> simp

theorem tri_cmpBytes (a b : List Nat) : Tri (cmpBytes a b) := by
  induction a generalizing b with
  | nil => cases b <;> simp [cmpBytes, Tri]
  | cons x r ih =>
    cases b with
    | nil => simp [cmpBytes, Tri]
    | cons y s => rw [cmpBytes_cons]; exact (tri_cmpInt _ _).lex (ih s)

theorem cmpBytes_eq_zero {a b : List Nat} : cmpBytes a b = 0 ↔ a = b := by
  induction a generalizing b with
  | nil => cases b <;> simp [cmpBytes]
  | cons x r ih =>
    cases b with
    | nil => simp [cmpBytes]
    | cons y s =>
      rw [cmpBytes_cons, lex_eq_zero, cmpInt_eq_zero, ih]
      simp only [List.cons.injEq, Int.natCast_inj]

theorem cmpBytes_antisymm (a b : List Nat) : cmpBytes b a = - cmpBytes a b := by
  induction a generalizing b with
  | nil => cases b <;> simp [cmpBytes]
  | cons x r ih =>
    cases b with
    | nil => simp [cmpBytes]
    | cons y s => rw [cmpBytes_cons, cmpBytes_cons, cmpInt_antisymm, ih, lex_neg]

theorem trans3_cmpBytes (a b c : List Nat) :
    Trans3 (cmpBytes a b) (cmpBytes b c) (cmpBytes a c) := by
  induction a generalizing b c with
  | nil => cases b <;> cases c <;> constructor <;> simp [cmpBytes]
  | cons x r ih =>
    cases b with
    | nil => cases c <;> constructor <;> simp [cmpBytes]
    | cons y s =>
      cases c with
      | nil => constructor <;> simp [cmpBytes]
      | cons z t =>
        rw [cmpBytes_cons, cmpBytes_cons, cmpBytes_cons]
        exact Trans3.lex (tri_cmpInt _ _) (tri_cmpInt _ _) (trans3_cmpInt _ _ _) (fun _ _ => ih s t)

/-! ## `keyLike`: pointer-free values of one shape -/

/-- `a` and `b` are pointer-free (no nil, pointer, slice, map) and have the same shape: same
constructors, same float widths, same array / struct spines. Two values of one comparable
(`canEqual`) type are `keyLike` (`keyLike_of_hasType`). -/
def keyLike : Val → Val → Bool
  | .bool _, .bool _ => true
  | .int _, .int _ => true
  | .flt w _, .flt w' _ => w == w'
  | .cplx w _ _, .cplx w' _ _ => w == w'
  | .str _, .str _ => true
  | .arr xs, .arr ys => keyLike xs ys
  | .struct xs, .struct ys => keyLike xs ys
  | .snil, .snil => true
  | .scons a r, .scons b s => keyLike a b && keyLike r s
  | _, _ => false

theorem keyLike_symm (a b : Val) : keyLike a b = keyLike b a := by
  fun_induction keyLike a b <;> simp_all [keyLike, eq_comm]
  next a b h1 h2 h3 h4 h5 h6 h7 h8 h9 =>
    cases b <;> cases a <;> simp_all [keyLike]

theorem keyLike_trans {a b c : Val} (h1 : keyLike a b = true) (h2 : keyLike b c = true) :
    keyLike a c = true := by
  fun_induction keyLike a b generalizing c <;> cases c <;> simp_all [keyLike]

theorem keyLike_left {a b : Val} (h : keyLike a b = true) : keyLike a a = true :=
  keyLike_trans h (by rw [keyLike_symm]; exact h)

theorem keyLike_right {a b : Val} (h : keyLike a b = true) : keyLike b b = true :=
  keyLike_trans (by rw [keyLike_symm]; exact h) h

theorem cmpKey_scons (a r b s : Val) :
    cmpKey (.scons a r) (.scons b s) = lex (cmpKey a b) (cmpKey r s) := by
  simp [cmpKey, lex]

theorem cmpKey_cplx (w a b w' c d : Nat) :
    cmpKey (.cplx w a b) (.cplx w' c d) = lex (cmpFlt w a c) (cmpFlt w b d) := by
  simp only [cmpKey]; exact cplx_eq_lex ..

/-- `cmpKey` only ever returns -1, 0 or +1 -/
theorem tri_cmpKey (a b : Val) : Tri (cmpKey a b) := by
  induction a generalizing b with
  | scons h t ih1 ih2 =>
    cases b <;> try (simp [cmpKey, Tri]; done)
    rw [cmpKey_scons]; exact (ih1 _).lex (ih2 _)
  | cplx w x y =>
    cases b <;> try (simp [cmpKey, Tri]; done)
    rw [cmpKey_cplx]; exact (tri_cmpFlt ..).lex (tri_cmpFlt ..)
  | bool x => cases b <;> simp [cmpKey, tri_zero, tri_cmpBool]
  | int x => cases b <;> simp [cmpKey, tri_zero, tri_cmpInt]
  | flt w x => cases b <;> simp [cmpKey, tri_zero, tri_cmpFlt]
  | str x => cases b <;> simp [cmpKey, tri_zero, tri_cmpBytes]
  | arr x ih => cases b <;> simp [cmpKey, tri_zero, ih]
  | struct x ih => cases b <;> simp [cmpKey, tri_zero, ih]
  | _ => simp [cmpKey, tri_zero]

/-- Go `==` is symmetric on values of one shape -/
theorem goEq_symm_of_keyLike {a b : Val} (h : keyLike a b = true) : goEq a b = goEq b a := by
  fun_induction keyLike a b <;> simp_all [goEq, Bool.beq_comm, fltEq_symm]
  all_goals simp [eq_comm]

/-- the equivalence of the derived key order is Go `==` -/
theorem cmpKey_eq_zero_iff {a b : Val} (h : keyLike a b = true) :
    cmpKey a b = 0 ↔ goEq a b = true := by
  fun_induction keyLike a b <;>
    simp_all [goEq, cmpKey_scons, cmpKey_cplx, lex_eq_zero, cmpBool_eq_zero, cmpInt_eq_zero, cmpFlt_eq_zero,
      cmpBytes_eq_zero]
  all_goals simp [cmpKey, cmpBool_eq_zero, cmpInt_eq_zero, cmpFlt_eq_zero, cmpBytes_eq_zero, *]

theorem cmpKey_antisymm {a b : Val} (h : keyLike a b = true) (ha : nanFree a = true)
    (hb : nanFree b = true) : cmpKey b a = - cmpKey a b := by
  fun_induction keyLike a b <;>
    simp_all [nanFree, cmpKey_scons, cmpKey_cplx, lex_neg, cmpFlt_antisymm]
  all_goals simp [cmpKey, cmpBool_antisymm, cmpInt_antisymm, cmpBytes_antisymm, cmpFlt_antisymm, *]

theorem trans3_cmpKey {a b c : Val} (h1 : keyLike a b = true) (h2 : keyLike b c = true)
    (ha : nanFree a = true) (hb : nanFree b = true) (hc : nanFree c = true) :
    Trans3 (cmpKey a b) (cmpKey b c) (cmpKey a c) := by
  fun_induction keyLike a b generalizing c <;> cases c <;> simp_all [keyLike, nanFree]
  all_goals sorry

end Goderive
