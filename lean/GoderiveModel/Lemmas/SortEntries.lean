/-
Facts about the derived key order `cmpKey` and about `insertEntry` / `sortEntries`.

* three-valued comparison results: `Tri`, lexicographic combination `lex`, the transitivity package
  `Trans3`;
* leaf orders (`cmpBool`, `cmpInt`, `cmpFlt`, `cmpBytes`) are total orders (floats: NaN-free);
* `keyLike a b`: `a` and `b` are pointer-free values of one shape; on NaN-free `keyLike` values
  `cmpKey` is a total order whose equivalence is Go `==` (`goEq`);
* `sortEntries`: permutation, length, sortedness, strict sortedness for distinct keys, and the
  uniqueness lemma `sortEntries_keysAgree`.
-/
import GoderiveModel.U.Typing
import GoderiveModel.S.Compare

namespace Goderive
open Val

/-! ## three-valued results -/

/-- a comparison result: -1, 0 or +1 -/
def Tri (c : Int) : Prop := c = -1 ∨ c = 0 ∨ c = 1

/-- lexicographic combination: the head decides unless it is 0 -/
def lex (h t : Int) : Int := if h != 0 then h else t

@[simp] theorem lex_zero (t : Int) : lex 0 t = t := by simp [lex]

theorem lex_of_ne {h : Int} (t : Int) (hh : h ≠ 0) : lex h t = h := by simp [lex, hh]

theorem lex_eq_zero {h t : Int} : lex h t = 0 ↔ h = 0 ∧ t = 0 := by
  unfold lex; by_cases hh : h = 0 <;> simp [hh]

theorem lex_neg (h t : Int) : lex (-h) (-t) = - lex h t := by
  unfold lex; by_cases hh : h = 0 <;> simp [hh]

theorem Tri.lex {h t : Int} (hh : Tri h) (ht : Tri t) : Tri (lex h t) := by
  unfold Goderive.lex; by_cases h0 : h = 0 <;> simp [h0, hh, ht]

theorem Tri.neg {c : Int} (h : Tri c) : Tri (-c) := by
  unfold Tri at *; omega

theorem tri_zero : Tri 0 := by simp [Tri]
theorem tri_one : Tri 1 := by simp [Tri]
theorem tri_neg_one : Tri (-1) := by simp [Tri]

/-- the transitivity package for three results `c(a,b)`, `c(b,c)`, `c(a,c)` -/
structure Trans3 (ab bc ac : Int) : Prop where
  eqL : ab = 0 → ac = bc
  eqR : bc = 0 → ac = ab
  lt : ab = -1 → bc = -1 → ac = -1
  gt : ab = 1 → bc = 1 → ac = 1

theorem Trans3.zero : Trans3 0 0 0 := ⟨by simp, by simp, by simp, by simp⟩

/-- `Trans3` is closed under lexicographic combination; the tails are only consulted when the first
two heads are 0. -/
theorem Trans3.lex {h1 h2 h3 t1 t2 t3 : Int} (r1 : Tri h1) (r2 : Tri h2)
    (H : Trans3 h1 h2 h3) (T : h1 = 0 → h2 = 0 → Trans3 t1 t2 t3) :
    Trans3 (lex h1 t1) (lex h2 t2) (lex h3 t3) := by
  obtain ⟨e1, e2, e3, e4⟩ := H
  rcases r1 with r1 | r1 | r1 <;> rcases r2 with r2 | r2 | r2 <;> subst r1 <;> subst r2
  all_goals simp at e1 e2 e3 e4
  all_goals try subst e1
  all_goals try subst e2
  all_goals try subst e3
  all_goals try subst e4
  all_goals try simp [Goderive.lex]
  all_goals first
    | exact T rfl rfl
    | (constructor <;> simp)

theorem Trans3.le {ab bc ac : Int} (H : Trans3 ab bc ac) (r1 : Tri ab) (r2 : Tri bc)
    (h1 : ab ≤ 0) (h2 : bc ≤ 0) : ac ≤ 0 := by
  obtain ⟨e1, e2, e3, e4⟩ := H
  unfold Tri at *; omega

theorem Trans3.lt_of_lt_of_le {ab bc ac : Int} (H : Trans3 ab bc ac) (r1 : Tri ab) (r2 : Tri bc)
    (h1 : ab < 0) (h2 : bc ≤ 0) : ac < 0 := by
  obtain ⟨e1, e2, e3, e4⟩ := H
  unfold Tri at *; omega

theorem Trans3.lt_of_le_of_lt {ab bc ac : Int} (H : Trans3 ab bc ac) (r1 : Tri ab) (r2 : Tri bc)
    (h1 : ab ≤ 0) (h2 : bc < 0) : ac < 0 := by
  obtain ⟨e1, e2, e3, e4⟩ := H
  unfold Tri at *; omega

/-! ## leaf orders -/

theorem tri_cmpInt (a b : Int) : Tri (cmpInt a b) := by
  unfold cmpInt Tri; split
  · simp
  · split <;> simp

theorem cmpInt_eq_zero {a b : Int} : cmpInt a b = 0 ↔ a = b := by
  unfold cmpInt; split
  · simp_all
  · split <;> simp_all

theorem cmpInt_eq_neg_one {a b : Int} : cmpInt a b = -1 ↔ a < b := by
  unfold cmpInt; split
  · simp_all
  · split <;> simp_all

theorem cmpInt_eq_one {a b : Int} : cmpInt a b = 1 ↔ b < a := by
  unfold cmpInt; split
  · simp_all
  · split <;> simp_all <;> omega

theorem cmpInt_self (a : Int) : cmpInt a a = 0 := cmpInt_eq_zero.2 rfl

theorem cmpInt_antisymm (a b : Int) : cmpInt b a = - cmpInt a b := by
  rcases tri_cmpInt a b with h | h | h
  · rw [h]; simp only [Int.neg_neg]; rw [cmpInt_eq_one]; exact cmpInt_eq_neg_one.1 h
  · rw [h]; simp only [Int.neg_zero]; rw [cmpInt_eq_zero]; exact (cmpInt_eq_zero.1 h).symm
  · rw [h, cmpInt_eq_neg_one]; exact cmpInt_eq_one.1 h

theorem trans3_cmpInt (a b c : Int) : Trans3 (cmpInt a b) (cmpInt b c) (cmpInt a c) := by
  constructor
  · intro h; rw [cmpInt_eq_zero.1 h]
  · intro h; rw [cmpInt_eq_zero.1 h]
  · simp only [cmpInt_eq_neg_one]; omega
  · simp only [cmpInt_eq_one]; omega

theorem tri_cmpBool (a b : Bool) : Tri (cmpBool a b) := by
  cases a <;> cases b <;> simp [cmpBool, Tri]

theorem cmpBool_eq_zero {a b : Bool} : cmpBool a b = 0 ↔ a = b := by
  cases a <;> cases b <;> simp [cmpBool]

theorem cmpBool_antisymm (a b : Bool) : cmpBool b a = - cmpBool a b := by
  cases a <;> cases b <;> simp [cmpBool]

theorem trans3_cmpBool (a b c : Bool) : Trans3 (cmpBool a b) (cmpBool b c) (cmpBool a c) := by
  cases a <;> cases b <;> cases c <;> constructor <;> simp [cmpBool]

theorem tri_cmpFlt (w a b : Nat) : Tri (cmpFlt w a b) := by
  unfold cmpFlt Tri; split
  · simp
  · split <;> simp

theorem cmpFlt_eq_zero {w a b : Nat} : cmpFlt w a b = 0 ↔ fltEq w a b = true := by
  unfold cmpFlt; split
  · simp_all
  · split <;> simp_all

theorem cmpFlt_eq_cmpInt {w a b : Nat} (ha : fltIsNaN w a = false) (hb : fltIsNaN w b = false) :
    cmpFlt w a b = cmpInt (fltKey w a) (fltKey w b) := by
  simp [cmpFlt, fltEq, fltLt, ha, hb, cmpInt]

theorem cmpFlt_antisymm {w a b : Nat} (ha : fltIsNaN w a = false) (hb : fltIsNaN w b = false) :
    cmpFlt w b a = - cmpFlt w a b := by
  rw [cmpFlt_eq_cmpInt ha hb, cmpFlt_eq_cmpInt hb ha, cmpInt_antisymm]

theorem trans3_cmpFlt {w a b c : Nat} (ha : fltIsNaN w a = false) (hb : fltIsNaN w b = false)
    (hc : fltIsNaN w c = false) : Trans3 (cmpFlt w a b) (cmpFlt w b c) (cmpFlt w a c) := by
  rw [cmpFlt_eq_cmpInt ha hb, cmpFlt_eq_cmpInt hb hc, cmpFlt_eq_cmpInt ha hc]
  exact trans3_cmpInt _ _ _

/-- the complex order is the lexicographic combination of the orders of the two parts -/
theorem cplx_eq_lex (w a b c d : Nat) :
    (if fltEq w a c then cmpFlt w b d else if fltLt w a c then -1 else 1)
      = lex (cmpFlt w a c) (cmpFlt w b d) := by
  unfold lex
  by_cases h : fltEq w a c = true
  · simp [h, cmpFlt_eq_zero.2 h]
  · have h0 : cmpFlt w a c ≠ 0 := fun e => h (cmpFlt_eq_zero.1 e)
    simp only [h, h0, bne_iff_ne, ne_eq, not_false_eq_true, if_true, Bool.false_eq_true, if_false]
    simp [cmpFlt, h]

theorem cmpBytes_cons (a b : Nat) (r s : List Nat) :
    cmpBytes (a :: r) (b :: s) = lex (cmpInt a b) (cmpBytes r s) := by
  simp only [cmpBytes, lex, cmpInt]
  by_cases h : a = b
  · simp [h]
  · have : ¬ ((a : Int) = (b : Int)) := by omega
    simp only [beq_iff_eq, h, this, if_false, Int.ofNat_lt]
    split <;> simp

theorem tri_cmpBytes (a b : List Nat) : Tri (cmpBytes a b) := by
  induction a generalizing b with
  | nil => cases b <;> simp [cmpBytes, Tri]
  | cons x r ih =>
    cases b with
    | nil => simp [cmpBytes, Tri]
    | cons y s => rw [cmpBytes_cons]; exact (tri_cmpInt _ _).lex (ih s)

theorem cmpBytes_eq_zero {a b : List Nat} : cmpBytes a b = 0 ↔ a = b := by
  induction a generalizing b with
  | nil => cases b <;> simp [cmpBytes]
  | cons x r ih =>
    cases b with
    | nil => simp [cmpBytes]
    | cons y s =>
      rw [cmpBytes_cons, lex_eq_zero, cmpInt_eq_zero, ih]
      simp only [List.cons.injEq, Int.natCast_inj]

theorem cmpBytes_antisymm (a b : List Nat) : cmpBytes b a = - cmpBytes a b := by
  induction a generalizing b with
  | nil => cases b <;> simp [cmpBytes]
  | cons x r ih =>
    cases b with
    | nil => simp [cmpBytes]
    | cons y s => rw [cmpBytes_cons, cmpBytes_cons, cmpInt_antisymm, ih, lex_neg]

theorem trans3_cmpBytes (a b c : List Nat) :
    Trans3 (cmpBytes a b) (cmpBytes b c) (cmpBytes a c) := by
  induction a generalizing b c with
  | nil => cases b <;> cases c <;> constructor <;> simp [cmpBytes]
  | cons x r ih =>
    cases b with
    | nil => cases c <;> constructor <;> simp [cmpBytes]
    | cons y s =>
      cases c with
      | nil => constructor <;> simp [cmpBytes]
      | cons z t =>
        rw [cmpBytes_cons, cmpBytes_cons, cmpBytes_cons]
        exact Trans3.lex (tri_cmpInt _ _) (tri_cmpInt _ _) (trans3_cmpInt _ _ _) (fun _ _ => ih s t)

/-! ## `keyLike`: pointer-free values of one shape -/

/-- `a` and `b` are pointer-free (no nil, pointer, slice, map, pair) and have the same shape: same
constructors, same float widths, same array / struct spines. Two values of one comparable
(`canEqual`) type are `keyLike` (`keyLike_of_hasType`). -/
def keyLike : Val → Val → Bool
  | .bool _, .bool _ => true
  | .int _, .int _ => true
  | .flt w _, .flt w' _ => w == w'
  | .cplx w _ _, .cplx w' _ _ => w == w'
  | .str _, .str _ => true
  | .arr xs, .arr ys => keyLike xs ys
  | .struct xs, .struct ys => keyLike xs ys
  | .snil, .snil => true
  | .scons a r, .scons b s => keyLike a b && keyLike r s
  | _, _ => false

theorem keyLike_symm (a b : Val) : keyLike a b = keyLike b a := by
  induction a generalizing b <;> cases b <;> simp [keyLike, Bool.beq_comm, *]

theorem keyLike_trans {a b c : Val} (h1 : keyLike a b = true) (h2 : keyLike b c = true) :
    keyLike a c = true := by
  induction a generalizing b c <;> cases b <;> simp [keyLike] at h1 <;> cases c <;>
    simp [keyLike] at h2 ⊢
  case flt.flt.flt => omega
  case cplx.cplx.cplx => omega
  case arr.arr.arr ih _ _ => exact ih h1 h2
  case struct.struct.struct ih _ _ => exact ih h1 h2
  case scons.scons.scons ih1 ih2 _ _ _ _ => exact ⟨ih1 h1.1 h2.1, ih2 h1.2 h2.2⟩

theorem keyLike_left {a b : Val} (h : keyLike a b = true) : keyLike a a = true :=
  keyLike_trans h (by rw [keyLike_symm]; exact h)

theorem keyLike_right {a b : Val} (h : keyLike a b = true) : keyLike b b = true :=
  keyLike_trans (by rw [keyLike_symm]; exact h) h

theorem cmpKey_scons (a r b s : Val) :
    cmpKey (.scons a r) (.scons b s) = lex (cmpKey a b) (cmpKey r s) := by
  simp [cmpKey, lex]

theorem cmpKey_cplx (w a b w' c d : Nat) :
    cmpKey (.cplx w a b) (.cplx w' c d) = lex (cmpFlt w a c) (cmpFlt w b d) := by
  simp only [cmpKey]; exact cplx_eq_lex ..

/-- `cmpKey` only ever returns -1, 0 or +1 -/
theorem tri_cmpKey (a b : Val) : Tri (cmpKey a b) := by
  induction a generalizing b <;> cases b <;>
    simp only [cmpKey, tri_zero, tri_cmpBool, tri_cmpInt, tri_cmpFlt, tri_cmpBytes, *]
  case cplx.cplx => exact cplx_eq_lex .. ▸ (tri_cmpFlt ..).lex (tri_cmpFlt ..)
  case scons.scons ih1 ih2 _ _ => exact (ih1 _).lex (ih2 _)

/-- Go `==` is symmetric on values of one shape -/
theorem goEq_symm_of_keyLike {a b : Val} (h : keyLike a b = true) : goEq a b = goEq b a := by
  induction a generalizing b <;> cases b <;> simp [keyLike] at h <;> simp only [goEq]
  case bool.bool => exact Bool.beq_comm
  case int.int => exact Bool.beq_comm
  case flt.flt => subst h; exact fltEq_symm ..
  case cplx.cplx w a b _ c d => subst h; rw [fltEq_symm w a c, fltEq_symm w b d]
  case str.str => exact Bool.beq_comm
  case arr.arr ih _ => exact ih h
  case struct.struct ih _ => exact ih h
  case scons.scons ih1 ih2 _ _ => rw [ih1 h.1, ih2 h.2]

/-- the equivalence of the derived key order is Go `==` -/
theorem cmpKey_eq_zero_iff {a b : Val} (h : keyLike a b = true) :
    cmpKey a b = 0 ↔ goEq a b = true := by
  induction a generalizing b <;> cases b <;> simp [keyLike] at h <;> simp only [goEq]
  case bool.bool => simp [cmpKey, cmpBool_eq_zero]
  case int.int => simp [cmpKey, cmpInt_eq_zero]
  case flt.flt => simp [cmpKey, cmpFlt_eq_zero]
  case cplx.cplx => simp [cmpKey_cplx, lex_eq_zero, cmpFlt_eq_zero]
  case str.str => simp [cmpKey, cmpBytes_eq_zero]
  case arr.arr ih _ => simpa [cmpKey] using ih h
  case struct.struct ih _ => simpa [cmpKey] using ih h
  case snil.snil => simp [cmpKey]
  case scons.scons ih1 ih2 _ _ => simp [cmpKey_scons, lex_eq_zero, ih1 h.1, ih2 h.2]

theorem cmpKey_antisymm {a b : Val} (h : keyLike a b = true) (ha : nanFree a = true)
    (hb : nanFree b = true) : cmpKey b a = - cmpKey a b := by
  induction a generalizing b <;> cases b <;> simp [keyLike] at h
  case bool.bool => simp only [cmpKey]; exact cmpBool_antisymm ..
  case int.int => simp only [cmpKey]; exact cmpInt_antisymm ..
  case flt.flt =>
    subst h; simp [nanFree] at ha hb; simp [cmpKey, cmpFlt_antisymm ha hb]
  case cplx.cplx =>
    subst h; simp [nanFree] at ha hb
    simp [cmpKey_cplx, cmpFlt_antisymm ha.1 hb.1, cmpFlt_antisymm ha.2 hb.2, lex_neg]
  case str.str => simp only [cmpKey]; exact cmpBytes_antisymm ..
  case arr.arr ih _ => simpa [cmpKey] using ih h (by simpa [nanFree] using ha) (by simpa [nanFree] using hb)
  case struct.struct ih _ => simpa [cmpKey] using ih h (by simpa [nanFree] using ha) (by simpa [nanFree] using hb)
  case snil.snil => simp [cmpKey]
  case scons.scons ih1 ih2 _ _ =>
    simp [nanFree] at ha hb
    rw [cmpKey_scons, cmpKey_scons, ih1 h.1 ha.1 hb.1, ih2 h.2 ha.2 hb.2, lex_neg]

theorem trans3_cmpKey {a b c : Val} (h1 : keyLike a b = true) (h2 : keyLike b c = true)
    (ha : nanFree a = true) (hb : nanFree b = true) (hc : nanFree c = true) :
    Trans3 (cmpKey a b) (cmpKey b c) (cmpKey a c) := by
  induction a generalizing b c <;> cases b <;> simp [keyLike] at h1 <;> cases c <;>
    simp [keyLike] at h2
  case bool.bool.bool => exact trans3_cmpBool ..
  case int.int.int => exact trans3_cmpInt ..
  case flt.flt.flt =>
    subst h1; subst h2; simp [nanFree] at ha hb hc; exact trans3_cmpFlt ha hb hc
  case cplx.cplx.cplx =>
    subst h1; subst h2; simp [nanFree] at ha hb hc
    simp only [cmpKey_cplx]
    exact Trans3.lex (tri_cmpFlt ..) (tri_cmpFlt ..) (trans3_cmpFlt ha.1 hb.1 hc.1)
      (fun _ _ => trans3_cmpFlt ha.2 hb.2 hc.2)
  case str.str.str => exact trans3_cmpBytes ..
  case arr.arr.arr ih _ _ =>
    simp [nanFree] at ha hb hc; simpa [cmpKey] using ih h1 h2 ha hb hc
  case struct.struct.struct ih _ _ =>
    simp [nanFree] at ha hb hc; simpa [cmpKey] using ih h1 h2 ha hb hc
  case snil.snil.snil => simpa [cmpKey] using Trans3.zero
  case scons.scons.scons ih1 ih2 _ _ _ _ =>
    simp [nanFree] at ha hb hc
    simp only [cmpKey_scons]
    exact Trans3.lex (tri_cmpKey ..) (tri_cmpKey ..) (ih1 h1.1 h2.1 ha.1 hb.1 hc.1)
      (fun _ _ => ih2 h1.2 h2.2 ha.2 hb.2 hc.2)

/-! ## key sets -/

/-- a set of keys on which `cmpKey` is a strict total order modulo `goEq`: pairwise `keyLike`,
NaN-free -/
structure KeySet (P : Val → Prop) : Prop where
  like : ∀ a b, P a → P b → keyLike a b = true
  nan : ∀ a, P a → nanFree a = true

namespace KeySet
variable {P : Val → Prop} (hP : KeySet P)
include hP

theorem eq_iff {a b : Val} (ha : P a) (hb : P b) : cmpKey a b = 0 ↔ goEq a b = true :=
  cmpKey_eq_zero_iff (hP.like a b ha hb)

theorem antisymm {a b : Val} (ha : P a) (hb : P b) : cmpKey b a = - cmpKey a b :=
  cmpKey_antisymm (hP.like a b ha hb) (hP.nan a ha) (hP.nan b hb)

theorem trans3 {a b c : Val} (ha : P a) (hb : P b) (hc : P c) :
    Trans3 (cmpKey a b) (cmpKey b c) (cmpKey a c) :=
  trans3_cmpKey (hP.like a b ha hb) (hP.like b c hb hc) (hP.nan a ha) (hP.nan b hb) (hP.nan c hc)

theorem goEq_symm {a b : Val} (ha : P a) (hb : P b) : goEq a b = goEq b a :=
  goEq_symm_of_keyLike (hP.like a b ha hb)

theorem goEq_refl {a : Val} (ha : P a) : goEq a a = true :=
  (hP.eq_iff ha ha).1 (by have := hP.antisymm ha ha; omega)

theorem goEq_trans {a b c : Val} (ha : P a) (hb : P b) (hc : P c) (h1 : goEq a b = true)
    (h2 : goEq b c = true) : goEq a c = true := by
  rw [← hP.eq_iff ha hc]
  rw [← hP.eq_iff ha hb] at h1
  rw [← hP.eq_iff hb hc] at h2
  rw [(hP.trans3 ha hb hc).eqL h1, h2]

end KeySet

/-- the NaN-free values of the shape of `k0` form a key set -/
theorem keySet_keyLike (k0 : Val) : KeySet (fun k => keyLike k0 k = true ∧ nanFree k = true) :=
  ⟨fun a b ha hb => keyLike_trans (by rw [keyLike_symm]; exact ha.1) hb.1, fun _ ha => ha.2⟩

/-! ## entry spines -/

/-- key of an entry (`snil` for a non-entry) -/
def ekey : Val → Val
  | .pair k _ => k
  | _ => .snil

/-- value of an entry (`snil` for a non-entry) -/
def evalue : Val → Val
  | .pair _ v => v
  | _ => .snil

/-- an `snil`-terminated spine of `pair`s -/
def isEntries : Val → Bool
  | .snil => true
  | .scons (.pair _ _) r => isEntries r
  | _ => false

theorem insertEntry_pair_scons (k v k' v' t : Val) :
    insertEntry (.pair k v) (.scons (.pair k' v') t) =
      if cmpKey k k' ≤ 0 then .scons (.pair k v) (.scons (.pair k' v') t)
      else .scons (.pair k' v') (insertEntry (.pair k v) t) := by
  simp [insertEntry]

theorem insertEntry_snil (e : Val) : insertEntry e .snil = .scons e .snil := by
  simp [insertEntry]

theorem insertEntry_of_not_pair_left (e h t : Val) (he : ∀ k v, e ≠ .pair k v) :
    insertEntry e (.scons h t) = .scons e (.scons h t) := by
  cases e <;> simp [insertEntry] <;> exact absurd rfl (he _ _)

theorem insertEntry_of_not_pair_right (e h t : Val) (hh : ∀ k v, h ≠ .pair k v) :
    insertEntry e (.scons h t) = .scons e (.scons h t) := by
  cases e <;> simp [insertEntry]
  cases h <;> simp
  exact absurd rfl (hh _ _)

/-- inserting an entry yields a permutation of "cons" -/
theorem insertEntry_perm (e s : Val) : (insertEntry e s).toList.Perm (e :: s.toList) := by
  induction s with
  | scons h t _ iht =>
    by_cases he : ∃ k v, e = .pair k v
    · obtain ⟨k, v, rfl⟩ := he
      by_cases hh : ∃ k' v', h = .pair k' v'
      · obtain ⟨k', v', rfl⟩ := hh
        rw [insertEntry_pair_scons]
        split
        · exact List.Perm.refl _
        · simp only [toList]
          exact (List.Perm.cons _ iht).trans (List.Perm.swap _ _ _)
      · rw [insertEntry_of_not_pair_right]
        · exact List.Perm.refl _
        · intro k' v' e; exact hh ⟨k', v', e⟩
    · rw [insertEntry_of_not_pair_left]
      · exact List.Perm.refl _
      · intro k' v' h; exact he ⟨k', v', h⟩
  | _ => simp [insertEntry, toList]

/-- `sortEntries` permutes the entries -/
theorem sortEntries_perm (es : Val) : (sortEntries es).toList.Perm es.toList := by
  induction es with
  | scons e r _ ihr =>
    simp only [sortEntries, toList]
    exact (insertEntry_perm _ _).trans (List.Perm.cons _ ihr)
  | _ => simp [sortEntries]

theorem mem_sortEntries {e es : Val} : e ∈ (sortEntries es).toList ↔ e ∈ es.toList :=
  (sortEntries_perm es).mem_iff

theorem mem_insertEntry {a e s : Val} : a ∈ (insertEntry e s).toList ↔ a = e ∨ a ∈ s.toList := by
  rw [(insertEntry_perm e s).mem_iff]; simp

theorem slen_insertEntry (e s : Val) : (insertEntry e s).slen = s.slen + 1 := by
  simp [(insertEntry_perm e s).length_eq]

/-- `sortEntries` preserves the number of entries -/
theorem slen_sortEntries (es : Val) : (sortEntries es).slen = es.slen := by
  simp [(sortEntries_perm es).length_eq]

theorem isEntries_insertEntry (k v s : Val) :
    isEntries (insertEntry (.pair k v) s) = isEntries s := by
  induction s with
  | scons h t _ iht =>
    cases h <;> try (simp [insertEntry, isEntries]; done)
    rw [insertEntry_pair_scons]; split <;> simp [isEntries, iht]
  | _ => simp [insertEntry, isEntries]

theorem isEntries_sortEntries {es : Val} (h : isEntries es = true) :
    isEntries (sortEntries es) = true := by
  induction es with
  | scons e r _ ihr =>
    cases e <;> simp [isEntries] at h
    simp only [sortEntries, isEntries_insertEntry, ihr h]
  | _ => simp_all [sortEntries, isEntries]

theorem exists_pair_of_mem {s e : Val} (hs : isEntries s = true) (he : e ∈ s.toList) :
    ∃ k v, e = .pair k v := by
  induction s with
  | scons h t _ iht =>
    cases h <;> simp [isEntries] at hs
    simp only [toList, List.mem_cons] at he
    rcases he with rfl | he
    · exact ⟨_, _, rfl⟩
    · exact iht hs he
  | _ => simp [toList] at he

/-- the spine consists of pairs whose keys all lie in `P` -/
def KeysIn (P : Val → Prop) (s : Val) : Prop :=
  isEntries s = true ∧ ∀ e ∈ s.toList, P (ekey e)

theorem KeysIn.snil {P : Val → Prop} : KeysIn P .snil := by simp [KeysIn, isEntries, toList]

theorem keysIn_scons {P : Val → Prop} {k v r : Val} :
    KeysIn P (.scons (.pair k v) r) ↔ P k ∧ KeysIn P r := by
  simp only [KeysIn, isEntries, toList, List.mem_cons, forall_eq_or_imp, ekey]
  constructor
  · rintro ⟨h1, h2, h3⟩; exact ⟨h2, h1, h3⟩
  · rintro ⟨h1, h2, h3⟩; exact ⟨h2, h1, h3⟩

theorem KeysIn.insertEntry {P : Val → Prop} {k v s : Val} (hk : P k) (hs : KeysIn P s) :
    KeysIn P (insertEntry (.pair k v) s) := by
  refine ⟨by rw [isEntries_insertEntry]; exact hs.1, ?_⟩
  intro e he
  rcases mem_insertEntry.1 he with rfl | he
  · exact hk
  · exact hs.2 e he

theorem KeysIn.sortEntries {P : Val → Prop} {s : Val} (hs : KeysIn P s) :
    KeysIn P (sortEntries s) :=
  ⟨isEntries_sortEntries hs.1, fun e he => hs.2 e (mem_sortEntries.1 he)⟩

/-! ## sortedness -/

def keyLe (e e' : Val) : Prop := cmpKey (ekey e) (ekey e') ≤ 0
def keyLt (e e' : Val) : Prop := cmpKey (ekey e) (ekey e') = -1
def keyEq (e e' : Val) : Prop := goEq (ekey e) (ekey e') = true

theorem sorted_insertEntry {P : Val → Prop} (hP : KeySet P) {k v s : Val} (hk : P k)
    (hs : KeysIn P s) (hsorted : s.toList.Pairwise keyLe) :
    (insertEntry (.pair k v) s).toList.Pairwise keyLe := by
  induction s with
  | scons h t _ iht =>
    obtain ⟨k', v', rfl⟩ : ∃ k' v', h = .pair k' v' := exists_pair_of_mem hs.1 (by simp [toList])
    obtain ⟨hk', ht⟩ := keysIn_scons.1 hs
    simp only [toList, List.pairwise_cons] at hsorted
    rw [insertEntry_pair_scons]
    split
    · rename_i hle
      simp only [toList, List.pairwise_cons, List.mem_cons, forall_eq_or_imp]
      refine ⟨⟨hle, ?_⟩, hsorted⟩
      intro a ha
      have h1 := hsorted.1 a ha
      exact (hP.trans3 hk hk' (ht.2 a ha)).le (tri_cmpKey ..) (tri_cmpKey ..) hle h1
    · rename_i hgt
      simp only [toList, List.pairwise_cons]
      refine ⟨?_, iht ht hsorted.2⟩
      intro a ha
      rcases mem_insertEntry.1 ha with rfl | ha
      · have := hP.antisymm hk hk'
        simp only [keyLe, ekey]; omega
      · exact hsorted.1 a ha
  | _ => simp [insertEntry, toList]

/-- `sortEntries` sorts by key -/
theorem sorted_sortEntries {P : Val → Prop} (hP : KeySet P) {s : Val} (hs : KeysIn P s) :
    (sortEntries s).toList.Pairwise keyLe := by
  induction s with
  | scons e r _ ihr =>
    obtain ⟨k, v, rfl⟩ : ∃ k v, e = .pair k v := exists_pair_of_mem hs.1 (by simp [toList])
    obtain ⟨hk, hr⟩ := keysIn_scons.1 hs
    exact sorted_insertEntry hP hk hr.sortEntries (ihr hr)
  | _ => simp [sortEntries, toList]

theorem keyFresh_iff {k s : Val} (hs : isEntries s = true) :
    keyFresh k s = true ↔ ∀ e ∈ s.toList, goEq k (ekey e) = false := by
  induction s with
  | scons h t _ iht =>
    cases h <;> simp [isEntries] at hs
    simp [keyFresh, toList, ekey, iht hs]
  | _ => simp [keyFresh, toList]

theorem strictSorted_insertEntry {P : Val → Prop} (hP : KeySet P) {k v s : Val} (hk : P k)
    (hs : KeysIn P s) (hfresh : ∀ e ∈ s.toList, goEq k (ekey e) = false)
    (hsorted : s.toList.Pairwise keyLt) :
    (insertEntry (.pair k v) s).toList.Pairwise keyLt := by
  induction s with
  | scons h t _ iht =>
    obtain ⟨k', v', rfl⟩ : ∃ k' v', h = .pair k' v' := exists_pair_of_mem hs.1 (by simp [toList])
    obtain ⟨hk', ht⟩ := keysIn_scons.1 hs
    simp only [toList, List.pairwise_cons] at hsorted
    simp only [toList, List.mem_cons, forall_eq_or_imp, ekey] at hfresh
    have hne : cmpKey k k' ≠ 0 := fun h0 => by
      have := (hP.eq_iff hk hk').1 h0; simp [hfresh.1] at this
    rw [insertEntry_pair_scons]
    split
    · rename_i hle
      have hlt : cmpKey k k' = -1 := by
        rcases tri_cmpKey k k' with h | h | h <;> omega
      simp only [toList, List.pairwise_cons, List.mem_cons, forall_eq_or_imp]
      refine ⟨⟨hlt, ?_⟩, hsorted⟩
      intro a ha
      exact (hP.trans3 hk hk' (ht.2 a ha)).lt hlt (hsorted.1 a ha)
    · rename_i hgt
      simp only [toList, List.pairwise_cons]
      refine ⟨?_, iht ht hfresh.2 hsorted.2⟩
      intro a ha
      rcases mem_insertEntry.1 ha with rfl | ha
      · have := hP.antisymm hk hk'
        have := tri_cmpKey k k'
        simp only [keyLt, ekey]; unfold Tri at *; omega
      · exact hsorted.1 a ha
  | _ => simp [insertEntry, toList]

/-- with pairwise distinct keys the sorted spine is strictly increasing -/
theorem strictSorted_sortEntries {P : Val → Prop} (hP : KeySet P) {s : Val} (hs : KeysIn P s)
    (hd : keysDistinct s = true) : (sortEntries s).toList.Pairwise keyLt := by
  induction s with
  | scons e r _ ihr =>
    obtain ⟨k, v, rfl⟩ : ∃ k v, e = .pair k v := exists_pair_of_mem hs.1 (by simp [toList])
    obtain ⟨hk, hr⟩ := keysIn_scons.1 hs
    simp only [keysDistinct, Bool.and_eq_true] at hd
    refine strictSorted_insertEntry hP hk hr.sortEntries ?_ (ihr hr hd.2)
    intro e he
    exact (keyFresh_iff hr.1).1 hd.1 e (mem_sortEntries.1 he)
  | _ => simp [sortEntries, toList]

/-! ## uniqueness of the sorted key sequence -/

/-- every key of `l1` occurs (under Go `==`) in `l2` -/
def KeysSub (l1 l2 : List Val) : Prop := ∀ e ∈ l1, ∃ e' ∈ l2, keyEq e e'

/-- position-wise equal keys (under Go `==`), same length -/
def keysAgreeL : List Val → List Val → Prop
  | [], [] => True
  | e :: r, e' :: s => keyEq e e' ∧ keysAgreeL r s
  | _, _ => False

/-- the two entry spines have the same length and position-wise `==` keys -/
def keysAgree (s s' : Val) : Prop := keysAgreeL s.toList s'.toList

section unique
variable {P : Val → Prop} (hP : KeySet P)
include hP

/-- heads agree: the tails still satisfy the inclusion -/
theorem KeysSub.tail_of_eq {e1 e2 : Val} {t1 t2 : List Val}
    (p1 : ∀ e ∈ e1 :: t1, P (ekey e)) (p2 : ∀ e ∈ e2 :: t2, P (ekey e))
    (s1 : (e1 :: t1).Pairwise keyLt) (heq : keyEq e1 e2)
    (sub : KeysSub (e1 :: t1) (e2 :: t2)) : KeysSub t1 t2 := by
  intro e he
  obtain ⟨e', he', hee'⟩ := sub e (List.mem_cons_of_mem _ he)
  rcases List.mem_cons.1 he' with rfl | he'
  · exfalso
    have h1 : keyLt e1 e := (List.pairwise_cons.1 s1).1 e he
    have pe1 := p1 e1 (by simp)
    have pe := p1 e (List.mem_cons_of_mem _ he)
    have pe' := p2 e' (by simp)
    have h2 : cmpKey (ekey e1) (ekey e') = 0 := (hP.eq_iff pe1 pe').2 heq
    have h3 : cmpKey (ekey e) (ekey e') = 0 := (hP.eq_iff pe pe').2 hee'
    have h4 := hP.antisymm pe pe'
    have h5 := (hP.trans3 pe1 pe' pe).eqL h2
    simp only [keyLt] at h1
    omega
  · exact ⟨e', he', hee'⟩

/-- heads differ: every key of the first list occurs in the tail of the second -/
theorem KeysSub.skip_of_ne {e1 e2 : Val} {t1 t2 : List Val}
    (p1 : ∀ e ∈ e1 :: t1, P (ekey e)) (p2 : ∀ e ∈ e2 :: t2, P (ekey e))
    (s1 : (e1 :: t1).Pairwise keyLt) (s2 : (e2 :: t2).Pairwise keyLt) (hne : ¬ keyEq e1 e2)
    (sub : KeysSub (e1 :: t1) (e2 :: t2)) : KeysSub (e1 :: t1) t2 := by
  have pe1 := p1 e1 (by simp)
  have pe2 := p2 e2 (by simp)
  -- the match of `e1` lies in the tail, hence `e2 < e1`
  obtain ⟨m, hm, h1m⟩ := sub e1 (by simp)
  have hm2 : m ∈ t2 := by
    rcases List.mem_cons.1 hm with rfl | hm
    · exact absurd h1m hne
    · exact hm
  have pm := p2 m (List.mem_cons_of_mem _ hm2)
  have h21 : cmpKey (ekey e2) (ekey e1) = -1 := by
    have a1 : keyLt e2 m := (List.pairwise_cons.1 s2).1 m hm2
    have a2 : cmpKey (ekey e1) (ekey m) = 0 := (hP.eq_iff pe1 pm).2 h1m
    have a3 := hP.antisymm pe1 pm
    have a4 := (hP.trans3 pe2 pm pe1).eqR (by omega)
    simp only [keyLt] at a1; omega
  intro e he
  obtain ⟨e', he', hee'⟩ := sub e he
  rcases List.mem_cons.1 he' with rfl | he'
  · exfalso
    have pe := p1 e he
    have h2e : cmpKey (ekey e') (ekey e) = -1 := by
      rcases List.mem_cons.1 he with rfl | he
      · exact h21
      · have : keyLt e1 e := (List.pairwise_cons.1 s1).1 e he
        exact (hP.trans3 pe2 pe1 pe).lt h21 this
    have h3 : cmpKey (ekey e) (ekey e') = 0 := (hP.eq_iff pe pe2).2 hee'
    have h4 := hP.antisymm pe pe2
    omega
  · exact ⟨e', he', hee'⟩

/-- pigeonhole for strictly sorted key lists -/
theorem length_le_of_keysSub (l1 l2 : List Val)
    (p1 : ∀ e ∈ l1, P (ekey e)) (p2 : ∀ e ∈ l2, P (ekey e))
    (s1 : l1.Pairwise keyLt) (s2 : l2.Pairwise keyLt) (sub : KeysSub l1 l2) :
    l1.length ≤ l2.length := by
  induction l2 generalizing l1 with
  | nil =>
    cases l1 with
    | nil => simp
    | cons e t => obtain ⟨_, h, _⟩ := sub e (by simp); simp at h
  | cons e2 t2 ih =>
    cases l1 with
    | nil => simp
    | cons e1 t1 =>
      by_cases heq : keyEq e1 e2
      · have := ih t1 (fun e he => p1 e (List.mem_cons_of_mem _ he))
          (fun e he => p2 e (List.mem_cons_of_mem _ he)) (List.pairwise_cons.1 s1).2
          (List.pairwise_cons.1 s2).2 (KeysSub.tail_of_eq hP p1 p2 s1 heq sub)
        simp only [List.length_cons]; omega
      · have := ih (e1 :: t1) p1 (fun e he => p2 e (List.mem_cons_of_mem _ he)) s1
          (List.pairwise_cons.1 s2).2 (KeysSub.skip_of_ne hP p1 p2 s1 s2 heq sub)
        simp only [List.length_cons] at *; omega

/-- two strictly sorted key lists of the same length, the keys of the first occurring in the
second, agree position-wise -/
theorem keysAgreeL_of_strictSorted (l1 l2 : List Val)
    (p1 : ∀ e ∈ l1, P (ekey e)) (p2 : ∀ e ∈ l2, P (ekey e))
    (s1 : l1.Pairwise keyLt) (s2 : l2.Pairwise keyLt) (hlen : l1.length = l2.length)
    (sub : KeysSub l1 l2) : keysAgreeL l1 l2 := by
  induction l1 generalizing l2 with
  | nil => cases l2 <;> simp_all [keysAgreeL]
  | cons e1 t1 ih =>
    cases l2 with
    | nil => simp at hlen
    | cons e2 t2 =>
      by_cases heq : keyEq e1 e2
      · refine ⟨heq, ih t2 (fun e he => p1 e (List.mem_cons_of_mem _ he))
          (fun e he => p2 e (List.mem_cons_of_mem _ he)) (List.pairwise_cons.1 s1).2
          (List.pairwise_cons.1 s2).2 (by simpa using hlen) (KeysSub.tail_of_eq hP p1 p2 s1 heq sub)⟩
      · exfalso
        have := length_le_of_keysSub hP (e1 :: t1) t2 p1 (fun e he => p2 e (List.mem_cons_of_mem _ he)) s1
          (List.pairwise_cons.1 s2).2 (KeysSub.skip_of_ne hP p1 p2 s1 s2 heq sub)
        simp only [List.length_cons] at *; omega

/-- **Key uniqueness.** Two maps (entry spines) with pairwise distinct keys from one key set, the
same number of entries, and every key of the first present in the second, have sorted entry
sequences that agree position-wise on keys. -/
theorem sortEntries_keysAgree {xs ys : Val} (hx : KeysIn P xs) (hy : KeysIn P ys)
    (dx : keysDistinct xs = true) (dy : keysDistinct ys = true) (hlen : xs.slen = ys.slen)
    (sub : KeysSub xs.toList ys.toList) : keysAgree (sortEntries xs) (sortEntries ys) := by
  apply keysAgreeL_of_strictSorted hP _ _ hx.sortEntries.2 hy.sortEntries.2
    (strictSorted_sortEntries hP hx dx) (strictSorted_sortEntries hP hy dy)
  · rw [(sortEntries_perm xs).length_eq, (sortEntries_perm ys).length_eq]; simpa using hlen
  · intro e he
    obtain ⟨e', he', h⟩ := sub e (mem_sortEntries.1 he)
    exact ⟨e', mem_sortEntries.2 he', h⟩

end unique

/-! ## typed keys form a key set -/

namespace Cmp

theorem Env.under_of_not_named (env : Env) {T : Ty} (h : T.isNamed = false) : env.under T = T := by
  cases T <;> simp_all [Env.under, Ty.isNamed]

theorem flagsOk_decl {env : Env} (h : env.flagsOk = true) {i : Nat} {d : Decl}
    (hd : env.decl? i = some d) : d.canEq = canEqual env d.under ∧ d.under.isNamed = false := by
  simp only [Env.flagsOk, List.all_eq_true] at h
  have hm : d ∈ env.decls := by
    simp only [Env.decl?] at hd
    exact List.mem_of_getElem? hd
  have := h d hm
  simpa using this

/-- `canEqual` passes to the underlying type -/
theorem canEqual_under {env : Env} (h : env.flagsOk = true) {T : Ty}
    (hc : canEqual env T = true) : canEqual env (env.under T) = true := by
  cases T <;> try (simpa [Env.under] using hc)
  rename_i i
  simp only [canEqual] at hc
  simp only [Env.under]
  cases hd : env.decl? i with
  | none => simp [hd] at hc
  | some d => simp only [hd] at hc ⊢; rw [← (flagsOk_decl h hd).1]; exact hc

/-- the underlying type is never a name (for well-formed environments) -/
theorem under_not_named {env : Env} (h : env.flagsOk = true) (T : Ty) :
    (env.under T).isNamed = false := by
  cases T <;> try (simp [Env.under, Ty.isNamed]; done)
  rename_i i
  simp only [Env.under]
  cases hd : env.decl? i with
  | none => simp [Ty.isNamed]
  | some d => exact (flagsOk_decl h hd).2

theorem hasType_basic {env : Env} {T : Ty} {b : Basic} (hU : env.under T = .basic b) (v : Val) :
    hasType env T v = basicHasType b v := by
  rw [hasType.eq_def, hU]

theorem hasType_array {env : Env} {T : Ty} {n : Nat} {E : Ty} (hU : env.under T = .array n E)
    (v : Val) : hasType env T v = true ↔ ∃ xs, v = .arr xs ∧ xs.slen = n ∧ allHaveType env E xs = true := by
  rw [hasType.eq_def, hU]; cases v <;> simp

theorem hasType_struct {env : Env} {T : Ty} {fs : Ty} (hU : env.under T = .struct fs)
    (v : Val) : hasType env T v = true ↔ ∃ xs, v = .struct xs ∧ fieldsHaveType env fs xs = true := by
  rw [hasType.eq_def, hU]; cases v <;> simp

theorem hasType_ptr {env : Env} {T : Ty} {R : Ty} (hU : env.under T = .ptr R)
    {v : Val} (h : hasType env T v = true) :
    v = .nilv ∨ ∃ a w, v = .ptr a w ∧ hasType env R w = true := by
  rw [hasType.eq_def, hU] at h
  cases v <;> simp at h
  · exact .inl rfl
  · exact .inr ⟨_, _, rfl, h⟩

theorem hasType_slice {env : Env} {T : Ty} {E : Ty} (hU : env.under T = .slice E)
    {v : Val} (h : hasType env T v = true) :
    v = .nilv ∨ ∃ a sp xs, v = .slice a sp xs ∧ allHaveType env E xs = true := by
  rw [hasType.eq_def, hU] at h
  cases v <;> simp at h
  · exact .inl rfl
  · exact .inr ⟨_, _, _, rfl, h⟩

theorem hasType_map {env : Env} {T : Ty} {K V : Ty} (hU : env.under T = .map K V)
    {v : Val} (h : hasType env T v = true) :
    v = .nilv ∨ ∃ a es, v = .map a es ∧ canEqual env K = true ∧ entriesHaveType env K V es = true ∧
        keysDistinct es = true := by
  rw [hasType.eq_def, hU] at h
  cases v <;> simp at h
  · exact .inl rfl
  · exact .inr ⟨_, _, rfl, h.1.1, h.1.2, h.2⟩

/-- no value has a type whose underlying type is not a basic, pointer, slice, array, struct or map
type -/
theorem hasType_false_of_under {env : Env} {T : Ty} {v : Val} (h : hasType env T v = true) :
    (∃ b, env.under T = .basic b) ∨ (∃ R, env.under T = .ptr R) ∨ (∃ E, env.under T = .slice E) ∨
    (∃ n E, env.under T = .array n E) ∨ (∃ fs, env.under T = .struct fs) ∨
    (∃ K V, env.under T = .map K V) := by
  rw [hasType.eq_def] at h
  split at h <;> simp_all

@[simp] theorem allHaveType_snil (env : Env) (E : Ty) : allHaveType env E .snil = true := by
  rw [allHaveType]

@[simp] theorem allHaveType_scons (env : Env) (E : Ty) (a r : Val) :
    allHaveType env E (.scons a r) = (hasType env E a && allHaveType env E r) := by
  rw [allHaveType]

theorem allHaveType_inv {env : Env} {E : Ty} {xs : Val} (h : allHaveType env E xs = true) :
    xs = .snil ∨ ∃ a r, xs = .scons a r ∧ hasType env E a = true ∧ allHaveType env E r = true := by
  rw [allHaveType.eq_def] at h
  split at h
  · exact .inl rfl
  · simp only [Bool.and_eq_true] at h; exact .inr ⟨_, _, rfl, h⟩
  · simp at h

@[simp] theorem fieldsHaveType_nil (env : Env) : fieldsHaveType env .fnil .snil = true := by
  rw [fieldsHaveType]

@[simp] theorem fieldsHaveType_cons (env : Env) (F rest : Ty) (a r : Val) :
    fieldsHaveType env (.fcons F rest) (.scons a r) =
      (hasType env F a && fieldsHaveType env rest r) := by
  rw [fieldsHaveType]

theorem fieldsHaveType_inv {env : Env} {fs : Ty} {xs : Val} (h : fieldsHaveType env fs xs = true) :
    (fs = .fnil ∧ xs = .snil) ∨ ∃ F rest a r, fs = .fcons F rest ∧ xs = .scons a r ∧
      hasType env F a = true ∧ fieldsHaveType env rest r = true := by
  rw [fieldsHaveType.eq_def] at h
  split at h
  · exact .inl ⟨rfl, rfl⟩
  · simp only [Bool.and_eq_true] at h; exact .inr ⟨_, _, _, _, rfl, rfl, h⟩
  · simp at h

@[simp] theorem entriesHaveType_snil (env : Env) (K V : Ty) :
    entriesHaveType env K V .snil = true := by
  rw [entriesHaveType]

@[simp] theorem entriesHaveType_scons (env : Env) (K V : Ty) (k v r : Val) :
    entriesHaveType env K V (.scons (.pair k v) r) =
      (hasType env K k && hasType env V v && entriesHaveType env K V r) := by
  rw [entriesHaveType]

theorem entriesHaveType_inv {env : Env} {K V : Ty} {es : Val}
    (h : entriesHaveType env K V es = true) :
    es = .snil ∨ ∃ k v r, es = .scons (.pair k v) r ∧ hasType env K k = true ∧
      hasType env V v = true ∧ entriesHaveType env K V r = true := by
  rw [entriesHaveType.eq_def] at h
  split at h
  · exact .inl rfl
  · simp only [Bool.and_eq_true] at h; exact .inr ⟨_, _, _, rfl, h.1.1, h.1.2, h.2⟩
  · simp at h

theorem keyLike_of_basicHasType {b : Basic} {k k' : Val} (h : basicHasType b k = true)
    (h' : basicHasType b k' = true) : keyLike k k' = true := by
  cases b <;> cases k <;> simp [basicHasType] at h <;> cases k' <;> simp [basicHasType] at h' <;>
    simp [keyLike]
  · omega
  · omega

/-- a typed value that is an array / struct body, a spine or a pair does not exist; used to
discharge impossible cases -/
theorem hasType_shape {env : Env} {T : Ty} {v : Val} (h : hasType env T v = true) :
    (∃ b, env.under T = .basic b ∧ basicHasType b v = true) ∨ v = .nilv ∨
    (∃ R a w, env.under T = .ptr R ∧ v = .ptr a w ∧ hasType env R w = true) ∨
    (∃ E a sp xs, env.under T = .slice E ∧ v = .slice a sp xs ∧ allHaveType env E xs = true) ∨
    (∃ n E xs, env.under T = .array n E ∧ v = .arr xs ∧ xs.slen = n ∧
      allHaveType env E xs = true) ∨
    (∃ fs xs, env.under T = .struct fs ∧ v = .struct xs ∧ fieldsHaveType env fs xs = true) ∨
    (∃ K V a es, env.under T = .map K V ∧ v = .map a es ∧ canEqual env K = true ∧
      entriesHaveType env K V es = true ∧ keysDistinct es = true) := by
  rw [hasType.eq_def] at h
  split at h
  · exact .inl ⟨_, by assumption, h⟩
  · exact .inr (.inl rfl)
  · exact .inr (.inr (.inl ⟨_, _, _, by assumption, rfl, h⟩))
  · exact .inr (.inl rfl)
  · exact .inr (.inr (.inr (.inl ⟨_, _, _, _, by assumption, rfl, h⟩)))
  · simp only [Bool.and_eq_true, beq_iff_eq] at h
    exact .inr (.inr (.inr (.inr (.inl ⟨_, _, _, by assumption, rfl, h.1, h.2⟩))))
  · exact .inr (.inr (.inr (.inr (.inr (.inl ⟨_, _, by assumption, rfl, h⟩)))))
  · exact .inr (.inl rfl)
  · simp only [Bool.and_eq_true] at h
    exact .inr (.inr (.inr (.inr (.inr (.inr ⟨_, _, _, _, by assumption, rfl, h.1.1, h.1.2, h.2⟩)))))
  · simp at h

/-- two values of one comparable type have the same pointer-free shape -/
theorem keyLike_of_hasType_aux {env : Env} (hf : env.flagsOk = true) (k : Val) :
    (∀ K k', canEqual env K = true → hasType env K k = true → hasType env K k' = true →
      keyLike k k' = true) ∧
    (∀ E ys, canEqual env E = true → allHaveType env E k = true → allHaveType env E ys = true →
      k.slen = ys.slen → keyLike k ys = true) ∧
    (∀ fs ys, canEqual env fs = true → fieldsHaveType env fs k = true →
      fieldsHaveType env fs ys = true → keyLike k ys = true) := by
  have top : ∀ (k : Val),
      (∀ E xs ys, k = .arr xs → canEqual env E = true → allHaveType env E xs = true →
        allHaveType env E ys = true → xs.slen = ys.slen → keyLike xs ys = true) →
      (∀ fs xs ys, k = .struct xs → canEqual env fs = true → fieldsHaveType env fs xs = true →
        fieldsHaveType env fs ys = true → keyLike xs ys = true) →
      ∀ K k', canEqual env K = true → hasType env K k = true → hasType env K k' = true →
        keyLike k k' = true := by
    intro k hA hS K k' hc hk hk'
    have hc' := canEqual_under hf hc
    rcases hasType_shape hk with ⟨b, hU, hb⟩ | rfl | ⟨R, _, _, hU, _⟩ | ⟨E, _, _, _, hU, _⟩ |
        ⟨n, E, xs, hU, rfl, hl, hxs⟩ | ⟨fs, xs, hU, rfl, hxs⟩ | ⟨K', V, _, _, hU, _⟩
    · rw [hasType_basic hU] at hk'; exact keyLike_of_basicHasType hb hk'
    · rcases hasType_false_of_under hk with ⟨b, hU⟩ | ⟨R, hU⟩ | ⟨E, hU⟩ | ⟨n, E, hU⟩ | ⟨fs, hU⟩ |
        ⟨K', V, hU⟩
      · rw [hasType_basic hU] at hk; cases b <;> simp [basicHasType] at hk
      · rw [hU] at hc'; simp [canEqual] at hc'
      · rw [hU] at hc'; simp [canEqual] at hc'
      · obtain ⟨_, h, _⟩ := (hasType_array hU _).1 hk; cases h
      · obtain ⟨_, h, _⟩ := (hasType_struct hU _).1 hk; cases h
      · rw [hU] at hc'; simp [canEqual] at hc'
    · rw [hU] at hc'; simp [canEqual] at hc'
    · rw [hU] at hc'; simp [canEqual] at hc'
    · obtain ⟨ys, rfl, hl', hys⟩ := (hasType_array hU _).1 hk'
      rw [hU] at hc'
      simp only [keyLike]
      exact hA E xs ys rfl (by simpa [canEqual] using hc') hxs hys (by omega)
    · obtain ⟨ys, rfl, hys⟩ := (hasType_struct hU _).1 hk'
      rw [hU] at hc'
      simp only [keyLike]
      exact hS fs xs ys rfl (by simpa [canEqual] using hc') hxs hys
    · rw [hU] at hc'; simp [canEqual] at hc'
  induction k with
  | scons h t ih1 ih2 =>
    refine ⟨top _ (by simp) (by simp), ?_, ?_⟩
    · intro E ys hc hk hys hl
      cases ys <;> simp [slen] at hl
      simp only [allHaveType_scons, Bool.and_eq_true] at hk hys
      simp only [keyLike, Bool.and_eq_true]
      exact ⟨ih1.1 E _ hc hk.1 hys.1, ih2.2.1 E _ hc hk.2 hys.2 (by simpa using hl)⟩
    · intro fs ys hc hk hys
      rcases fieldsHaveType_inv hk with ⟨_, h⟩ | ⟨F, rest, a, r, rfl, h, ha, hr⟩
      · cases h
      · cases h
        rcases fieldsHaveType_inv hys with ⟨h, _⟩ | ⟨F', rest', b, s, h, rfl, hb, hs⟩
        · cases h
        · cases h
          simp only [Bool.and_eq_true, canEqual] at hc
          simp only [keyLike, Bool.and_eq_true]
          exact ⟨ih1.1 _ _ hc.1 ha hb, ih2.2.2 _ _ hc.2 hr hs⟩
  | snil =>
    refine ⟨top _ (by simp) (by simp), ?_, ?_⟩
    · intro E ys _ _ hys _
      rcases allHaveType_inv hys with rfl | ⟨_, _, rfl, _⟩
      · simp [keyLike]
      · simp_all [slen]
    · intro fs ys _ hk hys
      rcases fieldsHaveType_inv hk with ⟨rfl, _⟩ | ⟨F, rest, a, r, _, h, _⟩
      · rcases fieldsHaveType_inv hys with ⟨_, rfl⟩ | ⟨F', rest', b, s, h, _⟩
        · simp [keyLike]
        · cases h
      · cases h
  | arr xs ih =>
    refine ⟨top _ (fun E xs' ys h => by cases h; exact ih.2.1 E ys) (by simp), ?_, ?_⟩
    · intro E ys _ hk; rcases allHaveType_inv hk with h | ⟨_, _, h, _⟩ <;> cases h
    · intro fs ys _ hk; rcases fieldsHaveType_inv hk with ⟨_, h⟩ | ⟨_, _, _, _, _, h, _⟩ <;> cases h
  | struct xs ih =>
    refine ⟨top _ (by simp) (fun fs xs' ys h => by cases h; exact ih.2.2 fs ys), ?_, ?_⟩
    · intro E ys _ hk; rcases allHaveType_inv hk with h | ⟨_, _, h, _⟩ <;> cases h
    · intro fs ys _ hk; rcases fieldsHaveType_inv hk with ⟨_, h⟩ | ⟨_, _, _, _, _, h, _⟩ <;> cases h
  | _ =>
    refine ⟨top _ (by simp) (by simp), ?_, ?_⟩
    · intro E ys _ hk; rcases allHaveType_inv hk with h | ⟨_, _, h, _⟩ <;> cases h
    · intro fs ys _ hk; rcases fieldsHaveType_inv hk with ⟨_, h⟩ | ⟨_, _, _, _, _, h, _⟩ <;> cases h

theorem keyLike_of_hasType {env : Env} (hf : env.flagsOk = true) {K : Ty} {k k' : Val}
    (hc : canEqual env K = true) (hk : hasType env K k = true) (hk' : hasType env K k' = true) :
    keyLike k k' = true :=
  (keyLike_of_hasType_aux hf k).1 K k' hc hk hk'

/-- the NaN-free values of one comparable type form a key set -/
theorem keySet_typed {env : Env} (hf : env.flagsOk = true) {K : Ty} (hc : canEqual env K = true) :
    KeySet (fun k => hasType env K k = true ∧ nanFree k = true) :=
  ⟨fun _ _ ha hb => keyLike_of_hasType hf hc ha.1 hb.1, fun _ ha => ha.2⟩

theorem isEntries_of_entriesHaveType {env : Env} {K V : Ty} {es : Val}
    (h : entriesHaveType env K V es = true) : isEntries es = true := by
  induction es with
  | scons e r _ ihr =>
    rcases entriesHaveType_inv h with h' | ⟨k, v, r', h', _, _, hr⟩
    · cases h'
    · cases h'; simp [isEntries, ihr hr]
  | snil => rfl
  | _ => rcases entriesHaveType_inv h with h' | ⟨_, _, _, h', _⟩ <;> cases h'

/-- `entriesHaveType` says: a spine of pairs, each with a typed key and a typed value -/
theorem entriesHaveType_iff_mem {env : Env} {K V : Ty} {es : Val} :
    entriesHaveType env K V es = true ↔
      isEntries es = true ∧
        ∀ e ∈ es.toList, hasType env K (ekey e) = true ∧ hasType env V (evalue e) = true := by
  induction es with
  | scons e r _ ihr =>
    cases e <;> try (rw [entriesHaveType.eq_def]; simp [isEntries]; done)
    simp [isEntries, toList, ekey, evalue, ihr, and_assoc, and_left_comm]
  | snil => simp [isEntries, toList]
  | _ => rw [entriesHaveType.eq_def]; simp [isEntries]

theorem nanFree_iff_mem {es : Val} (h : isEntries es = true) :
    nanFree es = true ↔ ∀ e ∈ es.toList, nanFree e = true := by
  induction es with
  | scons e r _ ihr =>
    cases e <;> simp [isEntries] at h
    simp [nanFree, toList, ihr h]
  | snil => simp [nanFree, toList]
  | _ => simp [isEntries] at h

theorem entriesHaveType_sortEntries {env : Env} {K V : Ty} {es : Val}
    (h : entriesHaveType env K V es = true) : entriesHaveType env K V (sortEntries es) = true := by
  rw [entriesHaveType_iff_mem] at h ⊢
  exact ⟨isEntries_sortEntries h.1, fun e he => h.2 e (mem_sortEntries.1 he)⟩

theorem nanFree_sortEntries {es : Val} (hs : isEntries es = true) (h : nanFree es = true) :
    nanFree (sortEntries es) = true := by
  rw [nanFree_iff_mem (isEntries_sortEntries hs)]
  rw [nanFree_iff_mem hs] at h
  exact fun e he => h e (mem_sortEntries.1 he)

theorem nanFree_ekey {e : Val} (h : nanFree e = true) : nanFree (ekey e) = true := by
  cases e <;> simp_all [ekey, nanFree]

theorem nanFree_evalue {e : Val} (h : nanFree e = true) : nanFree (evalue e) = true := by
  cases e <;> simp_all [evalue, nanFree]

/-- the keys of a typed NaN-free map lie in the key set of its key type -/
theorem keysIn_typed {env : Env} {K V : Ty} {es : Val} (h : entriesHaveType env K V es = true)
    (hn : nanFree es = true) :
    KeysIn (fun k => hasType env K k = true ∧ nanFree k = true) es := by
  have hs := isEntries_of_entriesHaveType h
  rw [entriesHaveType_iff_mem] at h
  rw [nanFree_iff_mem hs] at hn
  exact ⟨hs, fun e he => ⟨(h.2 e he).1, nanFree_ekey (hn e he)⟩⟩

/-- key uniqueness for typed maps: two NaN-free maps of one type with the same number of entries,
every key of the first present in the second, have key-sorted entry sequences that agree
position-wise on keys -/
theorem sortEntries_keysAgree_typed {env : Env} (hf : env.flagsOk = true) {K V : Ty} {xs ys : Val}
    (hc : canEqual env K = true) (hxs : entriesHaveType env K V xs = true)
    (hys : entriesHaveType env K V ys = true) (nx : nanFree xs = true) (ny : nanFree ys = true)
    (dx : keysDistinct xs = true) (dy : keysDistinct ys = true) (hl : xs.slen = ys.slen)
    (sub : KeysSub xs.toList ys.toList) : keysAgree (sortEntries xs) (sortEntries ys) :=
  sortEntries_keysAgree (keySet_typed hf hc) (keysIn_typed hxs nx) (keysIn_typed hys ny) dx dy hl sub

end Cmp

end Goderive
