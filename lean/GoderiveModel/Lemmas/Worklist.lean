/-
Helper lemmas for `G/Worklist` (C01): how each operation changes `keys` and `emitted`, preservation
of `Inv`, progress of a round, fuel.
-/
import GoderiveModel.G.Worklist

namespace Goderive.G.Worklist

section
variable {req : Key → List Key} {init : List Key}

/-! ### addKey -/

@[simp] theorem addKey_emitted (s : State) (k : Key) : (addKey s k).emitted = s.emitted := by
  unfold addKey; split <;> rfl

theorem mem_addKey_keys {s : State} {k x : Key} :
    x ∈ (addKey s k).keys ↔ x ∈ s.keys ∨ x = k := by
  unfold addKey
  split
  · constructor
    · exact Or.inl
    · rintro (h | rfl) <;> assumption
  · simp

theorem addKey_keys_prefix (s : State) (k : Key) : s.keys <+: (addKey s k).keys := by
  unfold addKey; split
  · exact List.prefix_rfl
  · exact List.prefix_append _ _

theorem addKey_keys_nodup {s : State} (k : Key) (h : s.keys.Nodup) : (addKey s k).keys.Nodup := by
  unfold addKey; split
  · exact h
  · rename_i hk
    simp only [List.nodup_append, List.nodup_cons, List.not_mem_nil, not_false_eq_true,
      List.nodup_nil, and_self, List.mem_singleton, true_and]
    exact ⟨h, fun a ha b hb => by subst hb; intro e; subst e; exact hk ha⟩

@[simp] theorem foldl_addKey_emitted (ks : List Key) (s : State) :
    (ks.foldl addKey s).emitted = s.emitted := by
  induction ks generalizing s with
  | nil => rfl
  | cons k ks ih => simp [List.foldl_cons, ih]

theorem mem_foldl_addKey_keys {ks : List Key} {s : State} {x : Key} :
    x ∈ (ks.foldl addKey s).keys ↔ x ∈ s.keys ∨ x ∈ ks := by
  induction ks generalizing s with
  | nil => simp
  | cons k ks ih =>
    simp only [List.foldl_cons, ih, mem_addKey_keys, List.mem_cons]
    constructor
    · rintro ((h | h) | h)
      · exact Or.inl h
      · exact Or.inr (Or.inl h)
      · exact Or.inr (Or.inr h)
    · rintro (h | h | h)
      · exact Or.inl (Or.inl h)
      · exact Or.inl (Or.inr h)
      · exact Or.inr h

theorem foldl_addKey_keys_prefix (ks : List Key) (s : State) :
    s.keys <+: (ks.foldl addKey s).keys := by
  induction ks generalizing s with
  | nil => exact List.prefix_rfl
  | cons k ks ih => exact (addKey_keys_prefix s k).trans (ih _)

theorem foldl_addKey_keys_nodup (ks : List Key) {s : State} (h : s.keys.Nodup) :
    (ks.foldl addKey s).keys.Nodup := by
  induction ks generalizing s with
  | nil => exact h
  | cons k ks ih => exact ih (addKey_keys_nodup k h)

/-! ### initState -/

@[simp] theorem initState_emitted (init : List Key) : (initState init).emitted = [] := by
  simp [initState]

theorem mem_initState_keys {init : List Key} {x : Key} : x ∈ (initState init).keys ↔ x ∈ init := by
  simp [initState, mem_foldl_addKey_keys]

theorem initState_keys_nodup (init : List Key) : (initState init).keys.Nodup :=
  foldl_addKey_keys_nodup init (s := {}) List.nodup_nil

/-! ### generate -/

@[simp] theorem generate_emitted (req : Key → List Key) (s : State) (k : Key) :
    (generate req s k).emitted = s.emitted ++ [k] := by
  simp [generate]

theorem mem_generate_keys {s : State} {k x : Key} :
    x ∈ (generate req s k).keys ↔ x ∈ s.keys ∨ x ∈ req k := by
  simp [generate, mem_foldl_addKey_keys]

theorem generate_keys_prefix (req : Key → List Key) (s : State) (k : Key) :
    s.keys <+: (generate req s k).keys :=
  foldl_addKey_keys_prefix (req k) { s with emitted := s.emitted ++ [k] }

theorem generate_keys_nodup {s : State} (k : Key) (h : s.keys.Nodup) :
    (generate req s k).keys.Nodup :=
  foldl_addKey_keys_nodup (req k) (s := { s with emitted := s.emitted ++ [k] }) h

/-! ### genAll, pluginTurn, turns, round: what they do to `emitted` and `keys` -/

@[simp] theorem genAll_emitted (req : Key → List Key) (s : State) (ks : List Key) :
    (genAll req s ks).emitted = s.emitted ++ ks := by
  induction ks generalizing s with
  | nil => simp [genAll]
  | cons k ks ih =>
    have := ih (generate req s k)
    simp only [genAll, List.foldl_cons] at this ⊢
    simp [this]

theorem genAll_keys_prefix (req : Key → List Key) (s : State) (ks : List Key) :
    s.keys <+: (genAll req s ks).keys := by
  induction ks generalizing s with
  | nil => exact List.prefix_rfl
  | cons k ks ih => exact (generate_keys_prefix req s k).trans (ih _)

theorem genAll_append (req : Key → List Key) (s : State) (ks ks' : List Key) :
    genAll req s (ks ++ ks') = genAll req (genAll req s ks) ks' := by
  simp [genAll, List.foldl_append]

theorem pluginTurn_emitted (req : Key → List Key) (s : State) (p : Nat) :
    (pluginTurn req s p).emitted = s.emitted ++ pending s p := by
  simp [pluginTurn]

theorem pluginTurn_keys_prefix (req : Key → List Key) (s : State) (p : Nat) :
    s.keys <+: (pluginTurn req s p).keys :=
  genAll_keys_prefix req s _

theorem turns_emitted_prefix (req : Key → List Key) (ps : List Nat) (s : State) :
    s.emitted <+: (turns req ps s).emitted := by
  induction ps generalizing s with
  | nil => exact List.prefix_rfl
  | cons p ps ih =>
    have h1 : s.emitted <+: (pluginTurn req s p).emitted := by
      rw [pluginTurn_emitted]; exact List.prefix_append _ _
    exact h1.trans (ih _)

theorem turns_keys_prefix (req : Key → List Key) (ps : List Nat) (s : State) :
    s.keys <+: (turns req ps s).keys := by
  induction ps generalizing s with
  | nil => exact List.prefix_rfl
  | cons p ps ih => exact (pluginTurn_keys_prefix req s p).trans (ih _)

theorem turns_append (req : Key → List Key) (ps qs : List Nat) (s : State) :
    turns req (ps ++ qs) s = turns req qs (turns req ps s) := by
  simp [turns, List.foldl_append]

/-! ### pending -/

theorem mem_pending {s : State} {p : Nat} {k : Key} :
    k ∈ pending s p ↔ k ∈ s.keys ∧ k.1 = p ∧ k ∉ s.emitted := by
  simp [pending, isGenerated]

theorem pending_nodup {s : State} (p : Nat) (h : s.keys.Nodup) : (pending s p).Nodup :=
  h.sublist List.filter_sublist

theorem isDone_iff {s : State} : isDone s = true ↔ ∀ k ∈ s.keys, k ∈ s.emitted := by
  simp [isDone, isGenerated]

theorem exists_pending_of_not_done {s : State} (h : isDone s = false) :
    ∃ k, k ∈ s.keys ∧ k ∉ s.emitted := by
  apply Classical.byContradiction
  intro hn
  have : isDone s = true := isDone_iff.2 fun k hk =>
    Classical.byContradiction fun hne => hn ⟨k, hk, hne⟩
  rw [h] at this; cases this

/-! ### Reach -/

theorem reach_of_closed {U : List Key} (hi : ∀ k ∈ init, k ∈ U)
    (hc : ∀ k ∈ U, ∀ r ∈ req k, r ∈ U) {k : Key} (h : Reach req init k) : k ∈ U := by
  induction h with
  | init h => exact hi _ h
  | step _ hr ih => exact hc _ ih _ hr

theorem reach_bound {P : Nat} (hi : ∀ k ∈ init, k.1 < P) (hr : ∀ k, ∀ r ∈ req k, r.1 < P)
    {k : Key} (h : Reach req init k) : k.1 < P := by
  cases h with
  | init h => exact hi _ h
  | step _ h => exact hr _ _ h

/-! ### the invariant -/

theorem inv_initState (req : Key → List Key) (init : List Key) : Inv req init (initState init) where
  emitted_sub := by simp
  keys_nodup := initState_keys_nodup init
  emitted_nodup := by simp
  keys_reach := fun k hk => .init (mem_initState_keys.1 hk)
  init_sub := fun k hk => mem_initState_keys.2 hk
  req_closed := by simp

theorem inv_generate {s : State} {k : Key} (h : Inv req init s) (hk : k ∈ s.keys)
    (hne : k ∉ s.emitted) : Inv req init (generate req s k) where
  emitted_sub := by
    intro x hx
    rw [generate_emitted, List.mem_append, List.mem_singleton] at hx
    apply mem_generate_keys.2
    rcases hx with hx | rfl
    · exact Or.inl (h.emitted_sub _ hx)
    · exact Or.inl hk
  keys_nodup := generate_keys_nodup k h.keys_nodup
  emitted_nodup := by
    rw [generate_emitted, List.nodup_append]
    refine ⟨h.emitted_nodup, by simp, ?_⟩
    intro a ha b hb
    rw [List.mem_singleton] at hb
    subst hb; intro e; subst e; exact hne ha
  keys_reach := by
    intro x hx
    rcases mem_generate_keys.1 hx with hx | hx
    · exact h.keys_reach _ hx
    · exact .step (h.keys_reach _ hk) hx
  init_sub := fun x hx => mem_generate_keys.2 (Or.inl (h.init_sub _ hx))
  req_closed := by
    intro x hx r hr
    rw [generate_emitted, List.mem_append, List.mem_singleton] at hx
    apply mem_generate_keys.2
    rcases hx with hx | rfl
    · exact Or.inl (h.req_closed _ hx _ hr)
    · exact Or.inr hr

theorem inv_of_reachable {s : State} (h : Reachable req init s) : Inv req init s := by
  induction h with
  | init => exact inv_initState req init
  | gen _ hk hne ih => exact inv_generate ih hk hne

/-! ### the loop only passes through `Reachable` states -/

theorem reachable_genAll {s : State} {ks : List Key} (h : Reachable req init s)
    (hk : ∀ k ∈ ks, k ∈ s.keys) (hn : ks.Nodup) (he : ∀ k ∈ ks, k ∉ s.emitted) :
    Reachable req init (genAll req s ks) := by
  induction ks generalizing s with
  | nil => exact h
  | cons k ks ih =>
    rw [List.nodup_cons] at hn
    have h1 : Reachable req init (generate req s k) :=
      .gen h (hk k (List.mem_cons_self ..)) (he k (List.mem_cons_self ..))
    refine ih h1 ?_ hn.2 ?_
    · intro x hx
      exact mem_generate_keys.2 (Or.inl (hk x (List.mem_cons_of_mem _ hx)))
    · intro x hx
      rw [generate_emitted, List.mem_append, List.mem_singleton]
      rintro (hxe | rfl)
      · exact he x (List.mem_cons_of_mem _ hx) hxe
      · exact hn.1 hx

/-- every state inside a plugin's turn: after any prefix of the snapshot has been generated -/
theorem reachable_genAll_prefix {s : State} {p : Nat} {ks : List Key}
    (h : Reachable req init s) (hp : ks <+: pending s p) :
    Reachable req init (genAll req s ks) := by
  have hn := pending_nodup p (inv_of_reachable h).keys_nodup
  refine reachable_genAll h ?_ (hn.sublist hp.sublist) ?_
  · intro k hk; exact (mem_pending.1 (hp.subset hk)).1
  · intro k hk; exact (mem_pending.1 (hp.subset hk)).2.2

theorem reachable_pluginTurn {s : State} (p : Nat) (h : Reachable req init s) :
    Reachable req init (pluginTurn req s p) :=
  reachable_genAll_prefix h List.prefix_rfl

theorem reachable_turns {s : State} (ps : List Nat) (h : Reachable req init s) :
    Reachable req init (turns req ps s) := by
  induction ps generalizing s with
  | nil => exact h
  | cons p ps ih => exact ih (reachable_pluginTurn p h)

theorem reachable_round {s : State} (P : Nat) (h : Reachable req init s) :
    Reachable req init (round req P s) :=
  reachable_turns _ h

theorem reachable_run {P : Nat} {s s' : State} (h : Reachable req init s) :
    ∀ {fuel : Nat}, run req P fuel s = some s' → Reachable req init s' ∧ isDone s' = true := by
  intro fuel
  induction fuel generalizing s with
  | zero => intro e; simp [run] at e
  | succ n ih =>
    intro e
    rw [run] at e
    split at e
    · rename_i hd
      cases e
      exact ⟨h, hd⟩
    · exact ih (reachable_round P h) e

/-! ### progress of a round -/

/-- after plugin `p`'s turn every key that was in its table when the turn began is generated -/
theorem pluginTurn_generates {s : State} {p : Nat} {k : Key} (hk : k ∈ s.keys) (hp : k.1 = p) :
    k ∈ (pluginTurn req s p).emitted := by
  rw [pluginTurn_emitted, List.mem_append]
  by_cases h : k ∈ s.emitted
  · exact Or.inl h
  · exact Or.inr (mem_pending.2 ⟨hk, hp, h⟩)

theorem turns_generates {ps : List Nat} {s : State} {k : Key} (hk : k ∈ s.keys) (hp : k.1 ∈ ps) :
    k ∈ (turns req ps s).emitted := by
  induction ps generalizing s with
  | nil => cases hp
  | cons p ps ih =>
    by_cases hkp : k.1 = p
    · exact (turns_emitted_prefix req ps _).subset (pluginTurn_generates hk hkp)
    · have : k.1 ∈ ps := by
        rcases List.mem_cons.1 hp with h | h
        · exact absurd h hkp
        · exact h
      exact ih ((pluginTurn_keys_prefix req s p).subset hk) this

/-- every key registered before a round, of a plugin that takes part in the round, is generated by it -/
theorem round_generates {P : Nat} {s : State} {k : Key} (hk : k ∈ s.keys) (hp : k.1 < P) :
    k ∈ (round req P s).emitted :=
  turns_generates hk (List.mem_range.2 hp)

/-- a round that starts in a state that is not done generates at least one function -/
theorem round_progress {P : Nat} {s : State} (hb : ∀ k ∈ s.keys, k.1 < P)
    (hd : isDone s = false) : s.emitted.length < (round req P s).emitted.length := by
  obtain ⟨k, hk, hne⟩ := exists_pending_of_not_done hd
  have hmem : k ∈ (round req P s).emitted := round_generates hk (hb k hk)
  obtain ⟨t, ht⟩ := turns_emitted_prefix req (List.range P) s
  unfold round at hmem ⊢
  rw [← ht] at hmem ⊢
  rcases List.mem_append.1 hmem with h | h
  · exact absurd h hne
  · have : 0 < t.length := List.length_pos_of_mem h
    simp only [List.length_append]; omega

/-! ### fuel -/

/-- in a state that is not done fewer functions have been emitted than there are reachable keys -/
theorem emitted_lt_of_not_done {U : List Key} {s : State} (h : Inv req init s)
    (hU : ∀ k, Reach req init k → k ∈ U) (hd : isDone s = false) :
    s.emitted.length < U.length := by
  obtain ⟨k, hk, hne⟩ := exists_pending_of_not_done hd
  have hnd : (k :: s.emitted).Nodup := List.nodup_cons.2 ⟨hne, h.emitted_nodup⟩
  have hsub : (k :: s.emitted) ⊆ U := by
    intro x hx
    rcases List.mem_cons.1 hx with rfl | hx
    · exact hU _ (h.keys_reach _ hk)
    · exact hU _ (h.keys_reach _ (h.emitted_sub _ hx))
  have := hnd.length_le_of_subset hsub
  simpa [Nat.lt_iff_add_one_le] using this

theorem run_ne_none_of_fuel {P : Nat} {U : List Key} (hb : ∀ k, Reach req init k → k.1 < P)
    (hU : ∀ k, Reach req init k → k ∈ U) :
    ∀ (n : Nat) (s : State), Reachable req init s → U.length ≤ s.emitted.length + n →
      run req P (n + 1) s ≠ none := by
  intro n
  induction n with
  | zero =>
    intro s hs hl
    rw [run]
    cases hd : isDone s with
    | true => simp
    | false =>
      have := emitted_lt_of_not_done (inv_of_reachable hs) hU hd
      omega
  | succ n ih =>
    intro s hs hl
    rw [run]
    cases hd : isDone s with
    | true => simp
    | false =>
      have hinv := inv_of_reachable hs
      have hp : s.emitted.length < (round req P s).emitted.length :=
        round_progress (fun k hk => hb k (hinv.keys_reach k hk)) hd
      simp only [Bool.false_eq_true, if_false]
      exact ih _ (reachable_round P hs) (by omega)

theorem run_mono {P : Nat} {s s' : State} :
    ∀ {n m : Nat}, n ≤ m → run req P n s = some s' → run req P m s = some s' := by
  intro n
  induction n generalizing s with
  | zero => intro m _ e; simp [run] at e
  | succ n ih =>
    intro m hm e
    obtain ⟨m, rfl⟩ : ∃ m', m = m' + 1 := ⟨m - 1, by omega⟩
    rw [run] at e ⊢
    split
    · rename_i hd; simpa [hd] using e
    · rename_i hd
      simp only [hd] at e
      exact ih (by omega) e

/-- the result of `run` starts with the emission list it was started with -/
theorem run_emitted_prefix {P : Nat} {s s' : State} :
    ∀ {fuel : Nat}, run req P fuel s = some s' → s.emitted <+: s'.emitted ∧ s.keys <+: s'.keys := by
  intro fuel
  induction fuel generalizing s with
  | zero => intro e; simp [run] at e
  | succ n ih =>
    intro e
    rw [run] at e
    split at e
    · cases e; exact ⟨List.prefix_rfl, List.prefix_rfl⟩
    · have := ih e
      exact ⟨(turns_emitted_prefix req _ s).trans this.1, (turns_keys_prefix req _ s).trans this.2⟩


end

/-! ### a concrete instance, used by the non-vacuity examples of `Props/C01`

Plugins: 0 = compare, 1 = equal, 2 = keys, 3 = sort. Type lists: 0 = `*T` with
`type T struct { Next *T }`, 1 = `map[K]int`, 2 = `[]K`, 5 = `K` with `type K struct { M *map[K]int }`
(the ids only matter up to equality). -/
namespace Ex

def req : Key → List Key
  | (1, 0) => [(1, 0)]                    -- equal(*T) calls itself on the field
  | (0, 1) => [(3, 2), (2, 1), (0, 5)]    -- compare(map[K]int): sort([]K), keys(map[K]int), compare(K)
  | (3, 2) => [(0, 5)]                    -- sort([]K) needs compare(K)
  | (0, 5) => [(0, 1)]                    -- compare(K) needs compare(map[K]int) back: a cycle through three plugins
  | _ => []

/-- the user's calls, the first one twice (two call sites) -/
def init : List Key := [(1, 0), (0, 1), (1, 0)]

def final : State :=
  { keys := [(1, 0), (0, 1), (3, 2), (2, 1), (0, 5)]
    emitted := [(0, 1), (1, 0), (2, 1), (3, 2), (0, 5)] }

theorem run_eq : run req 4 3 (initState init) = some final := by decide

/-- after the first round `compare(K)`, requested during compare's own turn, is registered but not
generated: it was not in the snapshot -/
theorem round1_eq : round req 4 (initState init) =
    { keys := [(1, 0), (0, 1), (3, 2), (2, 1), (0, 5)]
      emitted := [(0, 1), (1, 0), (2, 1), (3, 2)] } := by decide

theorem reach_final {k : Key} (h : Reach req init k) : k ∈ final.keys :=
  reach_of_closed (by decide) (by decide) h

theorem req_bound (k r : Key) (h : r ∈ req k) : r.1 < 4 := by
  have hsub : ∀ x ∈ req k, x ∈ final.keys := by
    unfold req; split <;> decide
  have hall : ∀ x ∈ final.keys, x.1 < 4 := by decide
  exact hall r (hsub r h)

end Ex

end Goderive.G.Worklist
