/-
  Lemmas about the generation-order model `G/Order` (property theorems: `Props/C08o.lean`).

  The walk of `importedFirst` is first brought into the shape of a plain depth-first search `dfs ch nm` over
  an abstract child function `ch` (`visit_eq_dfs`: the children of a package are, for every import in path
  order, the import followed by the named packages of its directory other than the package itself), and
  everything is proved about `dfs`:

  * `dfs_fuel`: the recursion budget does not matter once it exceeds the number of unvisited packages;
  * `dfs_ext`: what one call does to the state (`Ext`): it only adds to `visited`, appends to `ordered` exactly
    the named packages it newly visits, each once;
  * `dfs_rank`: if the children relation is acyclic (a rank function decreases along it), every package that has
    been visited and is not an ancestor in progress is `Fin`ished: its children are visited and, if it is named,
    it is placed after every named package it reaches.
-/
import GoderiveModel.G.Order

namespace Goderive.G.Order

/-! ### the abstract depth-first search -/

def placeA (nm : String → Bool) (p : String) (st : St) : St :=
  if nm p && !st.ordered.contains p then { st with ordered := st.ordered ++ [p] } else st

def dfs (ch : String → List String) (nm : String → Bool) : Nat → String → St → St
  | 0, _, st => st
  | f + 1, p, st =>
    if st.visited.contains p then st else
    placeA nm p ((ch p).foldl (fun st x => dfs ch nm f x st) (st.mark p))

/-- the packages walked from `p`, in the order of the walk -/
def children (c : Ctx) (p : String) : List String :=
  (sortedImports c p).flatMap (fun i => i :: twins c i p)

def isNamed (c : Ctx) (p : String) : Bool := c.named.contains p

theorem visit_eq_dfs (c : Ctx) : ∀ (f : Nat) (p : String) (st : St),
    visit c f p st = dfs (children c) (isNamed c) f p st := by
  intro f
  induction f with
  | zero => intro p st; rfl
  | succ f ih =>
    intro p st
    simp only [visit, dfs, children, List.foldl_flatMap, List.foldl_cons, ih]
    rfl

section Dfs
variable {ch : String → List String} {nm : String → Bool}

@[simp] theorem placeA_visited (p : String) (st : St) : (placeA nm p st).visited = st.visited := by
  unfold placeA; split <;> rfl

@[simp] theorem mark_visited (p : String) (st : St) : (st.mark p).visited = p :: st.visited := rfl
@[simp] theorem mark_ordered (p : String) (st : St) : (st.mark p).ordered = st.ordered := rfl

theorem foldl_inv {α σ : Type} (f : σ → α → σ) (I : σ → Prop) :
    ∀ (l : List α) (s : σ), I s → (∀ s a, a ∈ l → I s → I (f s a)) → I (l.foldl f s) := by
  intro l
  induction l with
  | nil => intro s h _; exact h
  | cons a l ih =>
    intro s h hs
    exact ih _ (hs s a (List.mem_cons_self ..) h) (fun s b hb => hs s b (List.mem_cons_of_mem _ hb))

/-- `visited` only grows -/
theorem dfs_visited_sub : ∀ (f : Nat) (p : String) (st : St) (x : String),
    x ∈ st.visited → x ∈ (dfs ch nm f p st).visited := by
  intro f
  induction f with
  | zero => intro p st x h; exact h
  | succ f ih =>
    intro p st x h
    simp only [dfs]
    split
    · exact h
    · rw [placeA_visited]
      refine foldl_inv _ (fun (s : St) => x ∈ s.visited) _ _ ?_ ?_
      · simp [h]
      · intro s a _ hs; exact ih a s x hs

theorem foldl_visited_sub (f : Nat) (cs : List String) (st : St) (x : String) (h : x ∈ st.visited) :
    x ∈ (cs.foldl (fun st x => dfs ch nm f x st) st).visited :=
  foldl_inv _ (fun (s : St) => x ∈ s.visited) _ _ h (fun s a _ hs => dfs_visited_sub f a s x hs)

/-! ### the measure: packages of the program not yet visited -/

theorem filter_len_mono {α : Type} (P Q : α → Bool) (h : ∀ x, Q x = true → P x = true) (l : List α) :
    (l.filter Q).length ≤ (l.filter P).length := by
  induction l with
  | nil => simp
  | cons u l ih =>
    rw [List.filter_cons, List.filter_cons]
    cases hQ : Q u with
    | false => cases hP : P u <;> simp <;> omega
    | true => rw [h u hQ]; simp; exact ih

theorem filter_len_lt {α : Type} (P Q : α → Bool) (h : ∀ x, Q x = true → P x = true) (l : List α) {a : α}
    (ha : a ∈ l) (hP : P a = true) (hQ : Q a = false) : (l.filter Q).length < (l.filter P).length := by
  induction l with
  | nil => cases ha
  | cons u l ih =>
    have hm := filter_len_mono P Q h l
    rw [List.filter_cons, List.filter_cons]
    rcases List.mem_cons.1 ha with rfl | hal
    · rw [hP, hQ]; simp; omega
    · have := ih hal
      cases hQu : Q u with
      | false => cases hPu : P u <;> simp <;> omega
      | true => rw [h u hQu]; simp; exact this

def unv (U V : List String) : Nat := (U.filter (fun u => !V.contains u)).length

theorem unv_mono (U : List String) {V V' : List String} (h : ∀ x ∈ V, x ∈ V') : unv U V' ≤ unv U V := by
  refine filter_len_mono _ _ ?_ U
  intro x hx
  simp only [Bool.not_eq_true', List.contains_eq_mem, decide_eq_false_iff_not] at hx ⊢
  exact fun hv => hx (h x hv)

theorem unv_lt (U : List String) {V V' : List String} (h : ∀ x ∈ V, x ∈ V') {p : String} (hp : p ∈ U)
    (hpV : p ∉ V) (hpV' : p ∈ V') : unv U V' < unv U V := by
  refine filter_len_lt _ _ ?_ U hp (by simpa using hpV) (by simpa using hpV')
  intro x hx
  simp only [Bool.not_eq_true', List.contains_eq_mem, decide_eq_false_iff_not] at hx ⊢
  exact fun hv => hx (h x hv)

/-! ### the recursion budget -/

theorem dfs_fuel {U : List String} (hU : ∀ p, p ∉ U → ch p = []) : ∀ (f1 f2 : Nat) (p : String) (st : St),
    unv U st.visited < f1 → unv U st.visited < f2 → dfs ch nm f1 p st = dfs ch nm f2 p st := by
  intro f1
  induction f1 with
  | zero => intro f2 p st h; omega
  | succ f1 ih =>
    intro f2 p st h1 h2
    cases f2 with
    | zero => omega
    | succ f2 =>
      simp only [dfs]
      split
      · rfl
      · rename_i hp
        have hpV : p ∉ st.visited := by simpa using hp
        congr 1
        by_cases hpU : p ∈ U
        · have hlt : unv U (st.mark p).visited < unv U st.visited :=
            unv_lt U (by intro x hx; simp [hx]) hpU hpV (by simp)
          have key : ∀ (cs : List String) (s : St), unv U s.visited < f1 → unv U s.visited < f2 →
              cs.foldl (fun st x => dfs ch nm f1 x st) s = cs.foldl (fun st x => dfs ch nm f2 x st) s := by
            intro cs
            induction cs with
            | nil => intro s _ _; rfl
            | cons a cs ihc =>
              intro s ha hb
              simp only [List.foldl_cons]
              rw [ih f2 a s ha hb]
              have hm := unv_mono U (dfs_visited_sub (ch := ch) (nm := nm) f2 a s)
              exact ihc _ (by omega) (by omega)
          exact key _ _ (by omega) (by omega)
        · rw [hU p hpU]; rfl

/-! ### what a call does to the state -/

/-- `ordered ⊆ visited` -/
def Pre (st : St) : Prop := ∀ x ∈ st.ordered, x ∈ st.visited

/-- `st'` extends `st`: more visited, and the named packages among the newly visited ones, each once, appended -/
structure Ext (nm : String → Bool) (st st' : St) : Prop where
  sub : ∀ x ∈ st.visited, x ∈ st'.visited
  ex : ∃ E, st'.ordered = st.ordered ++ E ∧ E.Nodup ∧
    (∀ x ∈ E, nm x = true ∧ x ∈ st'.visited ∧ x ∉ st.visited) ∧
    (∀ x ∈ st'.visited, x ∉ st.visited → nm x = true → x ∈ E)

theorem Ext.refl (st : St) : Ext nm st st :=
  ⟨fun _ h => h, [], by simp, List.nodup_nil, by simp, fun x h h' => absurd h h'⟩

theorem Ext.trans {a b c : St} (h1 : Ext nm a b) (h2 : Ext nm b c) : Ext nm a c := by
  obtain ⟨E1, e1, n1, m1, c1⟩ := h1.ex
  obtain ⟨E2, e2, n2, m2, c2⟩ := h2.ex
  refine ⟨fun x h => h2.sub x (h1.sub x h), E1 ++ E2, by rw [e2, e1, List.append_assoc], ?_, ?_, ?_⟩
  · rw [List.nodup_append]
    refine ⟨n1, n2, ?_⟩
    intro x hx y hy hxy
    subst hxy
    exact (m2 x hy).2.2 (m1 x hx).2.1
  · intro x hx
    rcases List.mem_append.1 hx with h | h
    · exact ⟨(m1 x h).1, h2.sub x (m1 x h).2.1, (m1 x h).2.2⟩
    · exact ⟨(m2 x h).1, (m2 x h).2.1, fun hx' => (m2 x h).2.2 (h1.sub x hx')⟩
  · intro x hx hxa hn
    by_cases hb : x ∈ b.visited
    · exact List.mem_append_left _ (c1 x hb hxa hn)
    · exact List.mem_append_right _ (c2 x hx hb hn)

theorem Ext.pre {a b : St} (h : Ext nm a b) (hp : Pre a) : Pre b := by
  obtain ⟨E, e, _, m, _⟩ := h.ex
  intro x hx
  rw [e] at hx
  rcases List.mem_append.1 hx with h' | h'
  · exact h.sub x (hp x h')
  · exact (m x h').2.1

/-- the prefix of `ordered` is kept -/
theorem Ext.prefix {a b : St} (h : Ext nm a b) : ∃ E, b.ordered = a.ordered ++ E := by
  obtain ⟨E, e, _⟩ := h.ex
  exact ⟨E, e⟩

theorem pre_mark {st : St} (h : Pre st) (p : String) : Pre (st.mark p) := by
  intro x hx
  simp only [mark_visited, List.mem_cons]
  exact Or.inr (h x hx)

/-- marking `p`, extending, then placing `p` -/
theorem ext_mark_place {st st2 : St} {p : String} (hp : Pre st) (hpV : p ∉ st.visited)
    (h : Ext nm (st.mark p) st2) :
    Ext nm st (placeA nm p st2) ∧
      (nm p = true → (placeA nm p st2).ordered = st2.ordered ++ [p] ∧ p ∉ st2.ordered) := by
  obtain ⟨E, e, n, m, c⟩ := h.ex
  have hpE : p ∉ E := fun hx => (m p hx).2.2 (by simp)
  have hpO : p ∉ st2.ordered := by
    rw [e]
    intro hx
    rcases List.mem_append.1 hx with h' | h'
    · exact hpV (hp p h')
    · exact hpE h'
  have hsub : ∀ x ∈ st.visited, x ∈ st2.visited := fun x hx => h.sub x (by simp [hx])
  have hp2 : p ∈ st2.visited := h.sub p (by simp)
  by_cases hn : nm p = true
  · have hpl : placeA nm p st2 = { st2 with ordered := st2.ordered ++ [p] } := by
      unfold placeA; simp [hn, hpO]
    refine ⟨⟨by simpa using hsub, E ++ [p], ?_, ?_, ?_, ?_⟩, fun _ => ⟨by rw [hpl], hpO⟩⟩
    · rw [hpl]; simp only [mark_ordered] at e; simp [e]
    · rw [List.nodup_append]
      refine ⟨n, by simp, ?_⟩
      intro x hx y hy hxy
      simp only [List.mem_singleton] at hy
      subst hxy; subst hy; exact hpE hx
    · intro x hx
      rcases List.mem_append.1 hx with h' | h'
      · exact ⟨(m x h').1, by simpa using (m x h').2.1, fun hxv => (m x h').2.2 (by simp [hxv])⟩
      · simp only [List.mem_singleton] at h'
        subst h'
        exact ⟨hn, by simpa using hp2, hpV⟩
    · intro x hx hxv hnx
      by_cases hxp : x = p
      · subst hxp; simp
      · exact List.mem_append_left _ (c x (by simpa using hx) (by simp [hxp, hxv]) hnx)
  · have hpl : placeA nm p st2 = st2 := by
      unfold placeA; simp [hn]
    refine ⟨⟨by simpa [hpl] using hsub, E, ?_, n, ?_, ?_⟩, fun h => absurd h hn⟩
    · rw [hpl]; simpa using e
    · intro x hx
      exact ⟨(m x hx).1, by simpa [hpl] using (m x hx).2.1, fun hxv => (m x hx).2.2 (by simp [hxv])⟩
    · intro x hx hxv hnx
      by_cases hxp : x = p
      · subst hxp; exact absurd hnx hn
      · exact c x (by simpa [hpl] using hx) (by simp [hxp, hxv]) hnx

/-- A call with enough budget extends the state and visits its argument. -/
theorem dfs_ext {U : List String} (hU : ∀ p, p ∉ U → ch p = []) : ∀ (f : Nat) (p : String) (st : St),
    unv U st.visited < f → Pre st → Ext nm st (dfs ch nm f p st) ∧ p ∈ (dfs ch nm f p st).visited := by
  intro f
  induction f with
  | zero => intro p st h; omega
  | succ f ih =>
    intro p st hf hpre
    simp only [dfs]
    split
    · rename_i hp
      exact ⟨Ext.refl st, by simpa using hp⟩
    · rename_i hp
      have hpV : p ∉ st.visited := by simpa using hp
      have hfold : Ext nm (st.mark p) ((ch p).foldl (fun st x => dfs ch nm f x st) (st.mark p)) := by
        by_cases hpU : p ∈ U
        · have hlt : unv U (st.mark p).visited < unv U st.visited :=
            unv_lt U (by intro x hx; simp [hx]) hpU hpV (by simp)
          refine (foldl_inv _ (fun s => Ext nm (st.mark p) s ∧ Pre s) _ _ ⟨Ext.refl _, pre_mark hpre p⟩ ?_).1
          intro s a _ ⟨hs, hps⟩
          have hm := unv_mono U hs.sub
          have := (ih a s (by omega) hps).1
          exact ⟨hs.trans this, this.pre hps⟩
        · rw [hU p hpU]; exact Ext.refl _
      have := (ext_mark_place hpre hpV hfold).1
      exact ⟨this, by rw [placeA_visited]; exact hfold.sub p (by simp)⟩

theorem foldl_ext {U : List String} (hU : ∀ p, p ∉ U → ch p = []) (f : Nat) (cs : List String) (st : St)
    (hf : unv U st.visited < f) (hpre : Pre st) :
    Ext nm st (cs.foldl (fun st x => dfs ch nm f x st) st) ∧
      ∀ c ∈ cs, c ∈ (cs.foldl (fun st x => dfs ch nm f x st) st).visited := by
  induction cs generalizing st with
  | nil => exact ⟨Ext.refl st, by simp⟩
  | cons a cs ih =>
    simp only [List.foldl_cons]
    have h1 := dfs_ext (nm := nm) hU f a st hf hpre
    have hm := unv_mono U h1.1.sub
    have h2 := ih (dfs ch nm f a st) (by omega) (h1.1.pre hpre)
    refine ⟨h1.1.trans h2.1, ?_⟩
    intro c hc
    rcases List.mem_cons.1 hc with h | h
    · subst h; exact h2.1.sub _ h1.2
    · exact h2.2 c h

/-! ### which packages a call newly visits -/

/-- transitive closure of the children relation -/
inductive Desc (ch : String → List String) : String → String → Prop
  | base {x y : String} : y ∈ ch x → Desc ch x y
  | step {x y z : String} : y ∈ ch x → Desc ch y z → Desc ch x z

theorem dfs_reach : ∀ (f : Nat) (p : String) (st : St) (x : String),
    x ∈ (dfs ch nm f p st).visited → x ∉ st.visited → x = p ∨ Desc ch p x := by
  intro f
  induction f with
  | zero => intro p st x h h'; exact absurd h h'
  | succ f ih =>
    intro p st x
    simp only [dfs]
    split
    · intro h h'; exact absurd h h'
    · rw [placeA_visited]
      refine foldl_inv _ (fun (s : St) => x ∈ s.visited → x ∉ st.visited → x = p ∨ Desc ch p x) _ _ ?_ ?_
      · intro h h'
        rcases List.mem_cons.1 (by simpa using h) with h | h
        · exact Or.inl h
        · exact absurd h h'
      · intro s a ha hs h h'
        by_cases hxs : x ∈ s.visited
        · exact hs hxs h'
        · rcases ih a s x h hxs with rfl | hd
          · exact Or.inr (.base ha)
          · exact Or.inr (.step ha hd)

/-! ### acyclic children relation: finished packages -/

/-- `x` is finished in `st`: its children are visited and, if it is named, it is placed after every named
package it reaches -/
def Fin (ch : String → List String) (nm : String → Bool) (x : String) (st : St) : Prop :=
  (∀ y ∈ ch x, y ∈ st.visited) ∧
  (nm x = true → ∃ A B, st.ordered = A ++ x :: B ∧ ∀ y, Desc ch x y → nm y = true → y ∈ A)

theorem Fin.mono {x : String} {st st' : St} (h : Fin ch nm x st) (hsub : ∀ x ∈ st.visited, x ∈ st'.visited)
    (hpre : ∃ E, st'.ordered = st.ordered ++ E) : Fin ch nm x st' := by
  refine ⟨fun y hy => hsub y (h.1 y hy), fun hn => ?_⟩
  obtain ⟨A, B, e, hA⟩ := h.2 hn
  obtain ⟨E, e'⟩ := hpre
  exact ⟨A, B ++ E, by rw [e', e]; simp, hA⟩

theorem placeA_prefix (p : String) (st : St) : ∃ E, (placeA nm p st).ordered = st.ordered ++ E := by
  unfold placeA
  split
  · exact ⟨[p], rfl⟩
  · exact ⟨[], by simp⟩

theorem dfs_rank {U : List String} (hU : ∀ p, p ∉ U → ch p = []) (rank : String → Nat)
    (hr : ∀ x, ∀ y ∈ ch x, rank y < rank x) : ∀ (f : Nat) (p : String) (st : St),
    unv U st.visited < f → Pre st → (∀ x ∈ st.visited, rank x ≤ rank p → Fin ch nm x st) →
    (∀ x ∈ (dfs ch nm f p st).visited, x ∉ st.visited → rank x ≤ rank p) ∧
    (∀ x ∈ (dfs ch nm f p st).visited, rank x ≤ rank p → Fin ch nm x (dfs ch nm f p st)) := by
  intro f
  induction f with
  | zero => intro p st h; omega
  | succ f ih =>
    intro p st hf hpre hC
    simp only [dfs]
    split
    · exact ⟨fun x h h' => absurd h h', hC⟩
    · rename_i hp
      have hpV : p ∉ st.visited := by simpa using hp
      -- the loop over the children
      have hloop := foldl_inv (fun st x => dfs ch nm f x st) (fun (s : St) => (Ext nm (st.mark p) s ∧ Pre s) ∧
            (∀ x ∈ s.visited, x ≠ p → rank x ≤ rank p → Fin ch nm x s) ∧
            (∀ x ∈ s.visited, x ∉ (st.mark p).visited → rank x < rank p)) (ch p) (st.mark p)
      have hloop := hloop (by
        refine ⟨⟨Ext.refl _, pre_mark hpre p⟩, ?_, fun x h h' => absurd h h'⟩
        intro x hx hxp hrx
        have hxV : x ∈ st.visited := by
          rcases List.mem_cons.1 (by simpa using hx) with h | h
          · exact absurd h hxp
          · exact h
        exact (hC x hxV hrx).mono (by intro y hy; simp [hy]) ⟨[], by simp⟩) (by
        intro s a ha ⟨⟨hs, hps⟩, hCx, hnew⟩
        have hpU : p ∈ U := by
          apply Classical.byContradiction
          intro h; rw [hU p h] at ha; cases ha
        have hlt : unv U (st.mark p).visited < unv U st.visited :=
          unv_lt U (by intro x hx; simp [hx]) hpU hpV (by simp)
        have hm := unv_mono U hs.sub
        have hra := hr p a ha
        have hext := (dfs_ext (nm := nm) hU f a s (by omega) hps).1
        have hih := ih a s (by omega) hps (by
          intro x hx hrx
          exact hCx x hx (by intro h; subst h; omega) (by omega))
        refine ⟨⟨hs.trans hext, hext.pre hps⟩, ?_, ?_⟩
        · intro x hx hxp hrx
          by_cases hxs : x ∈ s.visited
          · exact (hCx x hxs hxp hrx).mono hext.sub hext.prefix
          · exact hih.2 x hx (hih.1 x hx hxs)
        · intro x hx hx1
          by_cases hxs : x ∈ s.visited
          · exact hnew x hxs hx1
          · have := hih.1 x hx hxs; omega)
      obtain ⟨⟨hext2, hpre2⟩, hCx2, hnew2⟩ := hloop
      have hch : ∀ c ∈ ch p, c ∈ ((ch p).foldl (fun st x => dfs ch nm f x st) (st.mark p)).visited := by
        by_cases hpU : p ∈ U
        · have hlt : unv U (st.mark p).visited < unv U st.visited :=
            unv_lt U (by intro x hx; simp [hx]) hpU hpV (by simp)
          exact (foldl_ext (nm := nm) hU f (ch p) (st.mark p) (by omega) (pre_mark hpre p)).2
        · rw [hU p hpU]; intro c hc; cases hc
      generalize ((ch p).foldl (fun st x => dfs ch nm f x st) (st.mark p)) = st2 at *
      have hplace := ext_mark_place hpre hpV hext2
      have hp2 : p ∈ st2.visited := hext2.sub p (by simp)
      -- every package reached from p is visited, below p
      have hclos : ∀ x y, Desc ch x y → (x = p ∨ (x ∈ st2.visited ∧ rank x < rank p)) →
          y ∈ st2.visited ∧ rank y < rank p := by
        intro x y hd
        have one : ∀ {x y : String}, y ∈ ch x → (x = p ∨ (x ∈ st2.visited ∧ rank x < rank p)) →
            y ∈ st2.visited ∧ rank y < rank p := by
          intro x y hy hx
          rcases hx with rfl | ⟨hxv, hxr⟩
          · exact ⟨hch y hy, hr _ y hy⟩
          · have hfin := hCx2 x hxv (by intro h; subst h; omega) (by omega)
            have := hr x y hy
            exact ⟨hfin.1 y hy, by omega⟩
        induction hd with
        | base hy => exact one hy
        | step hy _ ih' => intro hx; exact ih' (Or.inr (one hy hx))
      refine ⟨?_, ?_⟩
      · intro x hx hxV
        rw [placeA_visited] at hx
        by_cases hxp : x = p
        · subst hxp; exact Nat.le_refl _
        · have := hnew2 x hx (by simp [hxp, hxV]); omega
      · intro x hx hrx
        rw [placeA_visited] at hx
        by_cases hxp : x = p
        · subst hxp
          refine ⟨fun y hy => by rw [placeA_visited]; exact hch y hy, fun hn => ?_⟩
          obtain ⟨e, _⟩ := hplace.2 hn
          refine ⟨st2.ordered, [], e, ?_⟩
          intro y hd hny
          obtain ⟨hyv, hyr⟩ := hclos _ y hd (Or.inl rfl)
          have hfin := hCx2 y hyv (by intro h; subst h; omega) (by omega)
          obtain ⟨A, B, e', _⟩ := hfin.2 hny
          rw [e']; simp
        · exact (hCx2 x hx hxp hrx).mono (by intro y hy; rw [placeA_visited]; exact hy) (placeA_prefix p st2)

/-- the loop of `importedFirst` over the named packages, acyclic case: everything visited is finished -/
theorem top_rank {U : List String} (hU : ∀ p, p ∉ U → ch p = []) (rank : String → Nat)
    (hr : ∀ x, ∀ y ∈ ch x, rank y < rank x) (F : Nat) (N : List String) (st : St)
    (hf : unv U st.visited < F) (hpre : Pre st) (hC : ∀ x ∈ st.visited, Fin ch nm x st) :
    ∀ x ∈ (N.foldl (fun st p => dfs ch nm F p st) st).visited,
      Fin ch nm x (N.foldl (fun st p => dfs ch nm F p st) st) := by
  induction N generalizing st with
  | nil => exact hC
  | cons a N ih =>
    simp only [List.foldl_cons]
    have hext := (dfs_ext (nm := nm) hU F a st hf hpre).1
    have hm := unv_mono U hext.sub
    have h := dfs_rank (nm := nm) hU rank hr F a st hf hpre (fun x hx _ => hC x hx)
    refine ih _ (by omega) (hext.pre hpre) ?_
    intro x hx
    by_cases hxs : x ∈ st.visited
    · exact (hC x hxs).mono hext.sub hext.prefix
    · exact h.2 x hx (h.1 x hx hxs)

/-- the loop over the named packages when no named package reaches a named one: path order is kept -/
theorem top_unrelated {U : List String} (hU : ∀ p, p ∉ U → ch p = [])
    (hun : ∀ p q, nm p = true → Desc ch p q → nm q = false) (F : Nat) (N : List String) (st : St)
    (hf : unv U st.visited < F) (hpre : Pre st) (hN : N.Nodup) (hnm : ∀ p ∈ N, nm p = true)
    (hnot : ∀ p ∈ N, p ∉ st.ordered) (hall : ∀ x ∈ st.visited, nm x = true → x ∈ st.ordered) :
    (N.foldl (fun st p => dfs ch nm F p st) st).ordered = st.ordered ++ N := by
  induction N generalizing st with
  | nil => simp
  | cons a N ih =>
    simp only [List.foldl_cons]
    have hd := dfs_ext (nm := nm) hU F a st hf hpre
    have hext := hd.1
    have hm := unv_mono U hext.sub
    have hna := hnm a (List.mem_cons_self ..)
    have haV : a ∉ st.visited := fun h => hnot a (List.mem_cons_self ..) (hall a h hna)
    obtain ⟨E, e, n, m, c⟩ := hext.ex
    have haE : a ∈ E := c a hd.2 haV hna
    have hEa : ∀ x ∈ E, x = a := by
      intro x hx
      obtain ⟨hnx, hxv, hxs⟩ := m x hx
      rcases dfs_reach F a st x hxv hxs with h | h
      · exact h
      · have := hun a x hna h; rw [hnx] at this; cases this
    have hE : E = [a] := by
      cases E with
      | nil => cases haE
      | cons b E =>
        have hb := hEa b (List.mem_cons_self ..)
        subst hb
        cases E with
        | nil => rfl
        | cons b' E =>
          have hb' := hEa b' (by simp)
          subst hb'
          simp at n
    subst hE
    have hnd := List.nodup_cons.1 hN
    rw [ih (dfs ch nm F a st) (by omega) (hext.pre hpre) hnd.2 (fun p hp => hnm p (List.mem_cons_of_mem _ hp)) ?_ ?_, e]
    · simp
    · intro p hp
      rw [e]
      intro h
      rcases List.mem_append.1 h with h | h
      · exact hnot p (List.mem_cons_of_mem _ hp) h
      · simp only [List.mem_singleton] at h
        subst h; exact hnd.1 hp
    · intro x hx hnx
      rw [e]
      by_cases hxs : x ∈ st.visited
      · exact List.mem_append_left _ (hall x hxs hnx)
      · exact List.mem_append_right _ (c x hx hxs hnx)

end Dfs

/-! ### sorting by path -/

theorem insertSorted_perm (a : String) (l : List String) : (insertSorted a l).Perm (a :: l) := by
  induction l with
  | nil => exact List.Perm.refl _
  | cons b l ih =>
    simp only [insertSorted]
    split
    · exact List.Perm.refl _
    · exact ((ih.cons b).trans (List.Perm.swap a b l))

theorem sortPaths_perm (l : List String) : (sortPaths l).Perm l := by
  induction l with
  | nil => exact List.Perm.refl _
  | cons a l ih => exact (insertSorted_perm a _).trans (ih.cons a)

theorem mem_sortPaths {l : List String} {x : String} : x ∈ sortPaths l ↔ x ∈ l :=
  (sortPaths_perm l).mem_iff

theorem insertSorted_sorted (a : String) (l : List String) (h : l.Pairwise (· ≤ ·)) :
    (insertSorted a l).Pairwise (· ≤ ·) := by
  induction l with
  | nil => simp [insertSorted]
  | cons b l ih =>
    simp only [insertSorted]
    have hb := List.pairwise_cons.1 h
    split
    · rename_i hab
      refine List.pairwise_cons.2 ⟨?_, h⟩
      intro x hx
      rcases List.mem_cons.1 hx with rfl | hx
      · exact hab
      · exact String.le_trans hab (hb.1 x hx)
    · rename_i hab
      have hba : b ≤ a := (String.le_total a b).resolve_left hab
      refine List.pairwise_cons.2 ⟨?_, ih hb.2⟩
      intro x hx
      rcases List.mem_cons.1 ((insertSorted_perm a l).mem_iff.1 hx) with rfl | hx
      · exact hba
      · exact hb.1 x hx

theorem sortPaths_sorted (l : List String) : (sortPaths l).Pairwise (· ≤ ·) := by
  induction l with
  | nil => exact List.Pairwise.nil
  | cons a l ih => exact insertSorted_sorted a _ ih

theorem sorted_perm_eq : ∀ {l₁ l₂ : List String}, l₁.Pairwise (· ≤ ·) → l₂.Pairwise (· ≤ ·) → l₁.Perm l₂ → l₁ = l₂ := by
  intro l₁
  induction l₁ with
  | nil => intro l₂ _ _ h; exact h.nil_eq
  | cons a t₁ ih =>
    intro l₂ h1 h2 hp
    cases l₂ with
    | nil => exact absurd hp.length_eq (by simp)
    | cons b t₂ =>
      have p1 := List.pairwise_cons.1 h1
      have p2 := List.pairwise_cons.1 h2
      have hab : a = b := by
        have ha : a ∈ b :: t₂ := hp.mem_iff.1 (List.mem_cons_self ..)
        have hb : b ∈ a :: t₁ := hp.mem_iff.2 (List.mem_cons_self ..)
        rcases List.mem_cons.1 ha with h | h
        · exact h
        · rcases List.mem_cons.1 hb with h' | h'
          · exact h'.symm
          · exact String.le_antisymm (p1.1 b h') (p2.1 a h)
      subst hab
      rw [ih p1.2 p2.2 hp.cons_inv]

/-- `sort.Slice` by path does not depend on the order of its input -/
theorem sortPaths_congr {l₁ l₂ : List String} (h : l₁.Perm l₂) : sortPaths l₁ = sortPaths l₂ :=
  sorted_perm_eq (sortPaths_sorted _) (sortPaths_sorted _)
    ((sortPaths_perm l₁).trans (h.trans (sortPaths_perm l₂).symm))

/-! ### the package table -/

theorem look_mem {G : List Pkg} {p : String} {a : Pkg} (h : look G p = some a) : a ∈ G ∧ a.path = p := by
  unfold look at h
  exact ⟨List.mem_of_find?_eq_some h, by simpa using List.find?_some h⟩

theorem look_of_mem {G : List Pkg} (hwf : WF G) {a : Pkg} (ha : a ∈ G) : look G a.path = some a := by
  unfold WF at hwf
  unfold look
  induction G with
  | nil => cases ha
  | cons b G ih =>
    simp only [List.map_cons, List.nodup_cons] at hwf
    rw [List.find?_cons]
    rcases List.mem_cons.1 ha with rfl | h
    · simp
    · have : b.path ≠ a.path := fun e => hwf.1 (e ▸ List.mem_map_of_mem h)
      have hb : (b.path == a.path) = false := beq_eq_false_iff_ne.2 this
      rw [hb]
      exact ih hwf.2 h

theorem look_none {G : List Pkg} {p : String} (h : p ∉ G.map (·.path)) : look G p = none := by
  unfold look
  rw [List.find?_eq_none]
  intro x hx hp
  exact h (List.mem_map.2 ⟨x, hx, by simpa using hp⟩)

theorem look_perm {xs ys : List Pkg} (hwf : WF xs) (h : xs.Perm ys) : look xs = look ys := by
  have hwf' : WF ys := (h.map _).nodup_iff.1 hwf
  funext p
  cases hx : look xs p with
  | some a =>
    obtain ⟨ha, rfl⟩ := look_mem hx
    exact (look_of_mem hwf' (h.mem_iff.1 ha)).symm
  | none =>
    cases hy : look ys p with
    | none => rfl
    | some b =>
      obtain ⟨hb, rfl⟩ := look_mem hy
      rw [look_of_mem hwf (h.mem_iff.2 hb)] at hx
      cases hx

theorem ctxOf_perm {xs ys : List Pkg} (hwf : WF xs) (h : xs.Perm ys) : ctxOf xs = ctxOf ys := by
  unfold ctxOf
  rw [look_perm hwf h, sortPaths_congr ((h.filter _).map _)]

/-! ### the model as a depth-first search over `Step` -/

theorem mem_named {G : List Pkg} {y : String} : y ∈ (ctxOf G).named ↔ ∃ t ∈ G, t.named = true ∧ t.path = y := by
  simp only [ctxOf, mem_sortPaths, List.mem_map, List.mem_filter]
  constructor
  · rintro ⟨t, ⟨ht, hn⟩, rfl⟩; exact ⟨t, ht, hn, rfl⟩
  · rintro ⟨t, ht, hn, rfl⟩; exact ⟨t, ⟨ht, hn⟩, rfl⟩

theorem named_nodup {G : List Pkg} (hwf : WF G) : (ctxOf G).named.Nodup := by
  refine (sortPaths_perm _).nodup_iff.2 ?_
  exact (List.Sublist.map _ List.filter_sublist).nodup hwf

theorem isNamed_iff {G : List Pkg} {y : String} :
    isNamed (ctxOf G) y = true ↔ ∃ t ∈ G, t.named = true ∧ t.path = y := by
  unfold isNamed
  rw [List.contains_iff_mem]
  exact mem_named

theorem mem_children {G : List Pkg} (hwf : WF G) {x y : String} :
    y ∈ children (ctxOf G) x ↔ Step G x y := by
  unfold children Step
  rw [List.mem_flatMap]
  constructor
  · rintro ⟨i, hi, hy⟩
    unfold sortedImports at hi
    cases hx : (ctxOf G).look x with
    | none => rw [hx] at hi; cases hi
    | some px =>
      rw [hx] at hi
      obtain ⟨hpx, hpath⟩ := look_mem (G := G) hx
      refine ⟨px, hpx, hpath, i, mem_sortPaths.1 hi, ?_⟩
      rcases List.mem_cons.1 hy with h | h
      · exact Or.inl h
      · right
        unfold twins at h
        cases hd : dirOf (ctxOf G) i with
        | none => rw [hd] at h; cases h
        | some d =>
          rw [hd] at h
          simp only [namedIn, List.mem_filter, bne_iff_ne, ne_eq, beq_iff_eq] at h
          obtain ⟨⟨hyn, hyd⟩, hyx⟩ := h
          unfold dirOf at hd hyd
          cases hli : (ctxOf G).look i with
          | none => rw [hli] at hd; cases hd
          | some pi =>
            rw [hli] at hd
            obtain ⟨hpi, hpip⟩ := look_mem (G := G) hli
            obtain ⟨t, ht, htn, htp⟩ := mem_named.1 hyn
            have hlt : (ctxOf G).look y = some t := by rw [← htp]; exact look_of_mem hwf ht
            rw [hlt] at hyd
            simp only [Option.map_some, Option.some.injEq] at hd hyd
            exact ⟨pi, hpi, hpip, t, ht, htn, by rw [hyd, hd], by rw [htp]; exact hyx, htp.symm⟩
  · rintro ⟨px, hpx, rfl, i, hi, hy⟩
    have hl : (ctxOf G).look px.path = some px := look_of_mem hwf hpx
    refine ⟨i, by unfold sortedImports; rw [hl]; exact mem_sortPaths.2 hi, ?_⟩
    rcases hy with rfl | ⟨pi, hpi, rfl, t, ht, htn, htd, htx, rfl⟩
    · exact List.mem_cons_self ..
    · refine List.mem_cons_of_mem _ ?_
      have hli : (ctxOf G).look pi.path = some pi := look_of_mem hwf hpi
      have hlt : (ctxOf G).look t.path = some t := look_of_mem hwf ht
      unfold twins dirOf
      rw [hli]
      simp only [Option.map_some, namedIn, List.mem_filter, bne_iff_ne, ne_eq, beq_iff_eq, dirOf]
      exact ⟨⟨mem_named.2 ⟨t, ht, htn, rfl⟩, by rw [hlt]; simp [htd]⟩, htx⟩

theorem children_unknown {G : List Pkg} {p : String} (h : p ∉ G.map (·.path)) : children (ctxOf G) p = [] := by
  unfold children sortedImports
  have : (ctxOf G).look p = none := look_none h
  rw [this]; rfl

theorem desc_iff_reaches {G : List Pkg} (hwf : WF G) {x y : String} :
    Desc (children (ctxOf G)) x y ↔ Reaches G x y := by
  constructor
  · intro h
    induction h with
    | base h => exact .base ((mem_children hwf).1 h)
    | step h _ ih => exact .step ((mem_children hwf).1 h) ih
  · intro h
    induction h with
    | base h => exact .base ((mem_children hwf).2 h)
    | step h _ ih => exact .step ((mem_children hwf).2 h) ih

theorem rankOK_sound {G : List Pkg} {rank : String → Nat} (h : rankOK G rank = true) :
    ∀ x y, Step G x y → rank y < rank x := by
  rintro x y ⟨px, hpx, rfl, i, hi, hy⟩
  unfold rankOK at h
  have h1 := List.all_eq_true.1 (List.all_eq_true.1 h px hpx) i hi
  simp only [Bool.and_eq_true, decide_eq_true_eq] at h1
  rcases hy with rfl | ⟨pi, hpi, rfl, t, ht, htn, htd, htx, rfl⟩
  · exact h1.1
  · have h2 := List.all_eq_true.1 h1.2 pi hpi
    simp only [bne_self_eq_false, Bool.false_or] at h2
    have h3 := List.all_eq_true.1 h2 t ht
    simpa [htn, htd, htx] using h3

/-- the state after the loop of `importedFirst` over the named packages -/
def finalState (G : List Pkg) (F : Nat) : St :=
  (ctxOf G).named.foldl (fun st p => dfs (children (ctxOf G)) (isNamed (ctxOf G)) F p st) ⟨[], []⟩

theorem runWith_eq (G : List Pkg) (F : Nat) : runWith G F = (finalState G F).ordered := by
  unfold runWith finalState
  simp only [visit_eq_dfs]

theorem unv_nil_lt (G : List Pkg) : unv (G.map (·.path)) [] < G.length + 1 := by
  unfold unv
  have := List.length_filter_le (fun u => !([] : List String).contains u) (G.map (·.path))
  simp only [List.length_map] at this
  omega

theorem foldl_fuel {ch : String → List String} {nm : String → Bool} {U : List String}
    (hU : ∀ p, p ∉ U → ch p = []) (f1 f2 : Nat) (N : List String) (st : St)
    (h1 : unv U st.visited < f1) (h2 : unv U st.visited < f2) :
    N.foldl (fun st p => dfs ch nm f1 p st) st = N.foldl (fun st p => dfs ch nm f2 p st) st := by
  induction N generalizing st with
  | nil => rfl
  | cons a N ih =>
    simp only [List.foldl_cons]
    rw [dfs_fuel hU f1 f2 a st h1 h2]
    have hm := unv_mono U (dfs_visited_sub (ch := ch) (nm := nm) f2 a st)
    exact ih _ (by omega) (by omega)

/-- the whole loop from the empty state -/
theorem final_ext (G : List Pkg) :
    Ext (isNamed (ctxOf G)) ⟨[], []⟩ (finalState G (G.length + 1)) ∧
      ∀ p ∈ (ctxOf G).named, p ∈ (finalState G (G.length + 1)).visited :=
  foldl_ext (fun p hp => children_unknown hp) (G.length + 1) (ctxOf G).named ⟨[], []⟩
    (by simpa using unv_nil_lt G) (by intro x hx; cases hx)

/-- transitive imports followed by the directory match are steps of the walk -/
theorem importsT_reaches {G : List Pkg} {x z : String} (h : ImportsT G x z) :
    ∀ q' ∈ G, q'.path = z → ∀ q ∈ G, q.named = true → q.dir = q'.dir → q.path ≠ x → Reaches G x q.path := by
  induction h with
  | base hpx hi =>
    intro q' hq' hz q hq hqn hd hne
    exact .base ⟨_, hpx, rfl, _, hi, Or.inr ⟨q', hq', hz, q, hq, hqn, hd, hne, rfl⟩⟩
  | @step px i z hpx hi _ ih =>
    intro q' hq' hz q hq hqn hd hne
    by_cases hqi : q.path = i
    · exact .base ⟨px, hpx, rfl, i, hi, Or.inl hqi⟩
    · exact .step ⟨px, hpx, rfl, i, hi, Or.inl rfl⟩ (ih q' hq' hz q hq hqn hd hqi)

end Goderive.G.Order
