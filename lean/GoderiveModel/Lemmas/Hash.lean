/-
Helper lemmas for property C04 (derived Hash is a function of the value that respects Equal).

* floats: `fltEq` (IEEE `==`) on in-range bit patterns implies equal `normBits` (`-0` ↦ `+0`);
* `Hash.topU`: the body of `Hash.top` once the underlying type is known (`Hash.top_eq_topU`);
* `hashOK`: structurally equal (`Spec.structEq`) well-typed NaN-free values hash alike;
* `hashTotal`: `Hash.top` never panics on a well-typed value;
* `hashErase`: `Hash.top` never reads an address or a spare capacity;
* `sortEntries_eq_of_perm`: the key-sorted entry sequence does not depend on the insertion order;
* `Hash.okTy` / `SupportedHash`: which types plugin/hash generates code for;
* the concrete world of the non-vacuity examples of Props/C04.lean (`namespace C04`).
-/
import GoderiveModel.S.Hash
import GoderiveModel.Lemmas.Equal
import GoderiveModel.Lemmas.SortEntries

namespace Goderive
open Val

/-! ## Floats: IEEE-equal bit patterns have the same normalised bits -/

/-- `a == b` (IEEE, non-NaN) for bit patterns of width `w` means: the same bits, or both are a zero.
Hence `math.Float64bits(a + 0) = math.Float64bits(b + 0)`. -/
theorem normBits_eq_of_fltEq {w a b : Nat} (ha : a < 2 ^ w) (hb : b < 2 ^ w)
    (h : fltEq w a b = true) : normBits w a = normBits w b := by
  simp only [fltEq, Bool.and_eq_true, beq_iff_eq] at h
  have hk := h.2
  cases w with
  | zero =>
    have : a = 0 := by simpa using ha
    have : b = 0 := by simpa using hb
    subst_vars; rfl
  | succ n =>
    simp only [fltKey, fltSign, fltMag, normBits, Nat.add_sub_cancel] at hk ⊢
    have hP : 0 < 2 ^ n := Nat.two_pow_pos n
    rw [Nat.pow_succ] at ha hb
    generalize 2 ^ n = P at *
    have h1 := Nat.div_add_mod a P
    have h2 := Nat.div_add_mod b P
    have h3 : a / P < 2 := Nat.div_lt_of_lt_mul (by omega)
    have h4 : b / P < 2 := Nat.div_lt_of_lt_mul (by omega)
    have h5 := Nat.mod_lt a hP
    have h6 := Nat.mod_lt b hP
    generalize a / P = qa at *
    generalize a % P = ra at *
    generalize b / P = qb at *
    generalize b % P = rb at *
    have ca : qa = 0 ∨ qa = 1 := by omega
    have cb : qb = 0 ∨ qb = 1 := by omega
    rcases ca with rfl | rfl <;> rcases cb with rfl | rfl <;> simp at hk h1 h2 ⊢ <;>
      split <;> split <;> omega

/-- equal leaves (IEEE `==` on floats) hash alike -/
theorem leaf_eq_of_leafEq {b : Basic} {x y : Val} (hx : basicHasType b x = true)
    (hy : basicHasType b y = true) (h : leafEq x y = true) : Hash.leaf x = Hash.leaf y := by
  cases b <;> cases x <;> (try (simp [basicHasType] at hx; done)) <;>
    cases y <;> (try (simp [basicHasType] at hy; done)) <;>
    simp only [leafEq, beq_iff_eq, Bool.and_eq_true] at h
  case bool.bool.bool => subst h; rfl
  case int.int.int => subst h; rfl
  case float.flt.flt =>
    simp only [basicHasType, Bool.and_eq_true, beq_iff_eq, decide_eq_true_eq] at hx hy
    obtain ⟨rfl, ha⟩ := hx
    obtain ⟨rfl, hb⟩ := hy
    simp only [Hash.leaf, normBits_eq_of_fltEq ha hb h]
  case complex.cplx.cplx W w1 a a' w2 c c' =>
    simp only [basicHasType, Bool.and_eq_true, beq_iff_eq, decide_eq_true_eq] at hx hy
    obtain ⟨⟨hw, ha⟩, ha'⟩ := hx
    obtain ⟨⟨hw', hb⟩, hb'⟩ := hy
    have hww : w1 = w2 := by omega
    subst hww
    simp only [Hash.leaf, normBits_eq_of_fltEq ha hb h.1, normBits_eq_of_fltEq ha' hb' h.2]
  case string.str.str => subst h; rfl

/-! ## The body of `Hash.top` once the underlying type is known -/

namespace Hash

/-- a pointer to `R` is hashed by hashing the fields of `*R` in place (no `(31*17)+…` wrapper):
`R` is a named struct type -/
def inlinePtr (env : Env) (R : Ty) : Bool :=
  match env.under R with
  | .struct _ => R.isNamed
  | _ => false

/-- `Hash.top env T x` as a function of the underlying type `U` of `T` and the skip mask of `T`
(not recursive: the recursive calls are calls of `Hash.top` etc.). -/
def topU (env : Env) (mask : List Bool) : Ty → Val → Res UInt64
  | .basic _, x => leaf x
  | .ptr _, .nilv => .ok 0
  | .ptr R, .ptr _ a =>
    if inlinePtr env R then top env R a else do let c ← top env R a; .ok ((31 * 17) + c)
  | .struct fs, .struct xs => if fs = .fnil then .ok 17 else fields env mask fs xs 17
  | .slice _, .nilv => .ok 0
  | .slice E, .slice _ _ xs => elems env E xs 17
  | .array _ E, .arr xs => elems env E xs 17
  | .map _ _, .nilv => .ok 0
  | .map K V, .map _ xs => entries env K V (sortEntries xs) 17
  | _, _ => .panic

theorem top_eq_topU (env : Env) (T : Ty) (x : Val) :
    top env T x = topU env (env.skipMask T) (env.under T) x := by
  rw [top.eq_def]
  cases hU : env.under T <;> cases x <;> simp only [topU]
  case ptr.ptr R a v =>
    simp only [inlinePtr, field.eq_1]
    split
    · rename_i fs hR
      simp only [hR]
      by_cases hN : R.isNamed = true
      · simp only [hN, if_true]
        rw [top.eq_def env R v, hR]
      · simp only [hN, Bool.false_eq_true, if_false]
    · rename_i hR
      simp only [Bool.false_eq_true, if_false]

@[simp] theorem field_eq_top (env : Env) (F : Ty) (x : Val) : field env F x = top env F x :=
  field.eq_1 env F x

end Hash

/-! ## Structurally equal values hash alike -/

theorem pairwise_mem_cases {α : Type} {R : α → α → Prop} {l : List α} (h : l.Pairwise R)
    {a b : α} (ha : a ∈ l) (hb : b ∈ l) : a = b ∨ R a b ∨ R b a := by
  induction l with
  | nil => cases ha
  | cons c t ih =>
    rw [List.pairwise_cons] at h
    rcases List.mem_cons.1 ha with rfl | ha' <;> rcases List.mem_cons.1 hb with rfl | hb'
    · exact .inl rfl
    · exact .inr (.inl (h.1 b hb'))
    · exact .inr (.inr (h.1 a ha'))
    · exact ih h.2 ha' hb'

/-- in a typed map (distinct keys) two entries with `==` keys are one and the same entry -/
theorem entry_unique {env : Env} (hf : env.flagsOk = true) {K V : Ty} {ys : Val}
    (hc : canEqual env K = true) (hys : entriesHaveType env K V ys = true)
    (dy : keysDistinct ys = true) {k1 w1 k2 w2 : Val} (h1 : .pair k1 w1 ∈ ys.toList)
    (h2 : .pair k2 w2 ∈ ys.toList) (he : goEq k1 k2 = true) :
    Val.pair k1 w1 = Val.pair k2 w2 := by
  have hp := keysDistinct_pairwise ys (entriesHaveType_isEntrySpine ys hys) dy
  rcases pairwise_mem_cases hp h1 h2 with h | h | h
  · exact h
  · have := h k1 w1 k2 w2 rfl rfl
    rw [he] at this; cases this
  · have := h k2 w2 k1 w1 rfl rfl
    rw [goEq_symm hf hc (entriesHaveType_mem ys hys h2).1 (entriesHaveType_mem ys hys h1).1,
      he] at this
    cases this

/-- two entry spines whose keys agree position-wise, and whose entries with `==` keys have keys
that hash alike and values that hash alike, hash alike -/
theorem Hash.entries_congr (env : Env) (K V : Ty) :
    ∀ (sx sy : Val) (h : UInt64), isEntries sx = true → isEntries sy = true → keysAgree sx sy →
      (∀ e ∈ sx.toList, ∀ e' ∈ sy.toList, keyEq e e' →
        Hash.top env K (ekey e) = Hash.top env K (ekey e') ∧
        Hash.top env V (evalue e) = Hash.top env V (evalue e')) →
      Hash.entries env K V sx h = Hash.entries env K V sy h := by
  intro sx
  induction sx with
  | snil =>
    intro sy h _ hy ha _
    cases sy with
    | snil => rfl
    | scons _ _ => simp [keysAgree, toList, keysAgreeL] at ha
    | _ => simp [isEntries] at hy
  | scons e r ihe ihr =>
    intro sy h hx hy ha hQ
    clear ihe
    cases e <;> simp only [isEntries, Bool.false_eq_true] at hx
    rename_i k v
    cases sy with
    | scons e' s =>
      cases e' <;> simp only [isEntries, Bool.false_eq_true] at hy
      rename_i k' w
      simp only [keysAgree, toList, keysAgreeL] at ha
      have hq := hQ (.pair k v) (by simp [toList]) (.pair k' w) (by simp [toList]) ha.1
      simp only [ekey, evalue] at hq
      rw [Hash.entries, Hash.entries]
      simp only [Hash.field_eq_top, hq.1, hq.2]
      cases Hash.top env K k' with
      | panic => rfl
      | ok ck =>
        cases Hash.top env V w with
        | panic => rfl
        | ok cv =>
          simp only [Res.bind_ok]
          exact ihr s _ hx hy ha.2 (fun e he e' he' =>
            hQ e (by simp [toList, he]) e' (by simp [toList, he']))
    | snil => simp [keysAgree, toList, keysAgreeL] at ha
    | _ => simp [isEntries] at hy
  | _ => intro sy h hx; simp [isEntries] at hx

/-- the induction invariant of `hash_respects_structEq` for a value `x` in its three roles: a value,
a field spine, an element spine -/
structure HashOK (env : Env) (x : Val) : Prop where
  top : ∀ T y, hasType env T x = true → hasType env T y = true → nanFree x = true →
    nanFree y = true → Spec.structEq env T x y = true → Hash.top env T x = Hash.top env T y
  fields : ∀ skip fs ys h, fieldsHaveType env fs x = true → fieldsHaveType env fs ys = true →
    nanFree x = true → nanFree ys = true → Spec.fieldsEq env fs x ys = true →
    Hash.fields env skip fs x h = Hash.fields env skip fs ys h
  elems : ∀ E ys h, allHaveType env E x = true → allHaveType env E ys = true →
    nanFree x = true → nanFree ys = true → Spec.seqEq env E x ys = true →
    Hash.elems env E x h = Hash.elems env E ys h

theorem hashOK {env : Env} (hf : env.flagsOk = true) (x : Val) : HashOK env x := by
  induction x using Val.strongInduction with
  | step x ih =>
  refine ⟨?_, ?_, ?_⟩
  · intro T y hx hy nx ny he
    rw [Hash.top_eq_topU, Hash.top_eq_topU env T y]
    have hnn := Env.under_not_named hf T
    cases hU : env.under T with
    | basic b =>
      rw [structEq_basic hU] at he
      rw [hasType_basic hU] at hx hy
      simp only [Hash.topU]
      exact leaf_eq_of_leafEq hx hy he
    | ptr R =>
      rw [structEq_ptr hU] at he
      rcases hasType_ptr_inv hU hx with rfl | ⟨a, v, rfl, hv⟩ <;>
        rcases hasType_ptr_inv hU hy with rfl | ⟨b, w, rfl, hw⟩ <;>
        simp only [Bool.false_eq_true] at he
      · rfl
      · simp only [nanFree] at nx ny
        simp only [Hash.topU]
        rw [(ih v (by simp <;> omega)).top R w hv hw nx ny he]
    | struct fs =>
      obtain ⟨xs, rfl, hxs⟩ := hasType_struct_inv hU hx
      obtain ⟨ys, rfl, hys⟩ := hasType_struct_inv hU hy
      rw [structEq_struct hU] at he
      simp only [nanFree] at nx ny
      simp only [Hash.topU]
      rw [(ih xs (by simp <;> omega)).fields _ fs ys 17 hxs hys nx ny he]
    | slice E =>
      rw [structEq_slice hU] at he
      rcases hasType_slice_inv hU hx with rfl | ⟨a, sp, xs, rfl, hxs⟩ <;>
        rcases hasType_slice_inv hU hy with rfl | ⟨b, sp', ys, rfl, hys⟩ <;>
        simp only [Bool.false_eq_true] at he
      · rfl
      · simp only [nanFree] at nx ny
        simp only [Hash.topU]
        exact (ih xs (by simp <;> omega)).elems E ys 17 hxs hys nx ny he
    | array n E =>
      obtain ⟨xs, rfl, -, hxs⟩ := hasType_array_inv hU hx
      obtain ⟨ys, rfl, -, hys⟩ := hasType_array_inv hU hy
      rw [structEq_array hU] at he
      simp only [nanFree] at nx ny
      simp only [Hash.topU]
      exact (ih xs (by simp <;> omega)).elems E ys 17 hxs hys nx ny he
    | map K V =>
      rw [structEq_map hU] at he
      rcases hasType_map_inv hU hx with rfl | ⟨a, xs, rfl, hc, hxs, dx⟩ <;>
        rcases hasType_map_inv hU hy with rfl | ⟨b, ys, rfl, -, hys, dy⟩ <;>
        simp only [Bool.false_eq_true] at he
      · rfl
      · simp only [Bool.and_eq_true, beq_iff_eq] at he
        obtain ⟨hl, hin⟩ := he
        simp only [nanFree] at nx ny
        simp only [Hash.topU]
        have sx := entriesHaveType_isEntrySpine xs hxs
        have sy := entriesHaveType_isEntrySpine ys hys
        -- every entry of `xs` has a partner in `ys`: equal key, equal value
        have partner : ∀ k v, .pair k v ∈ xs.toList → ∃ k' w, .pair k' w ∈ ys.toList ∧
            Spec.structEq env K k k' = true ∧ Spec.structEq env V v w = true :=
          fun k v hm => (valueAt_iff ys sy).1 ((entriesIn_iff xs sx).1 hin k v hm)
        have sub : KeysSub xs.toList ys.toList := by
          intro e he
          obtain ⟨k, v, rfl⟩ := isEntrySpine_mem xs sx he
          obtain ⟨k', w, hm, hk, -⟩ := partner k v he
          refine ⟨.pair k' w, hm, ?_⟩
          simp only [keyEq, ekey]
          rw [goEq_eq_structEq hf k' hc (entriesHaveType_mem xs hxs he).1]; exact hk
        -- hence the key-sorted spines agree on keys position by position
        have hag := Cmp.sortEntries_keysAgree_typed hf hc hxs hys nx ny dx dy hl sub
        apply Hash.entries_congr env K V _ _ 17
          (isEntries_sortEntries (Cmp.isEntries_of_entriesHaveType hxs))
          (isEntries_sortEntries (Cmp.isEntries_of_entriesHaveType hys)) hag
        intro e he e' he' hke
        rw [mem_sortEntries] at he he'
        obtain ⟨k, v, rfl⟩ := isEntrySpine_mem xs sx he
        obtain ⟨k', w, rfl⟩ := isEntrySpine_mem ys sy he'
        simp only [keyEq, ekey] at hke
        simp only [ekey, evalue]
        obtain ⟨hk, hv⟩ := entriesHaveType_mem xs hxs he
        obtain ⟨hk', hw⟩ := entriesHaveType_mem ys hys he'
        have ne := nanFree_mem xs nx he
        have ne' := nanFree_mem ys ny he'
        simp only [nanFree, Bool.and_eq_true] at ne ne'
        -- the partner of `(k, v)` is the entry `(k', w)` at the same sorted position
        obtain ⟨k2, w2, hm2, hk2, hv2⟩ := partner k v he
        have hk2' := (entriesHaveType_mem ys hys hm2).1
        have g2 : goEq k k2 = true := by rw [goEq_eq_structEq hf k2 hc hk]; exact hk2
        have g3 : goEq k2 k' = true :=
          goEq_trans hf hc hk2' hk (by rw [goEq_symm hf hc hk2' hk]; exact g2) hke
        have hu := entry_unique hf hc hys dy hm2 he' g3
        cases hu
        have sz : sizeOf (Val.pair k v) < sizeOf xs := sizeOf_lt_of_mem_toList xs he
        have sz' : sizeOf k < sizeOf (Val.pair k v) ∧ sizeOf v < sizeOf (Val.pair k v) := by
          constructor <;> simp <;> omega
        refine ⟨(ih k (by simp <;> omega)).top K k' hk hk' ne.1 ne'.1
            (by rw [← goEq_eq_structEq hf k' hc hk]; exact hke),
          (ih v (by simp <;> omega)).top V w hv hw ne.2 ne'.2 hv2⟩
    | named i => rw [hU] at hnn; simp [Ty.isNamed] at hnn
    | _ => rw [hasType_bad (by rw [hU])] at hx; cases hx
  · intro skip fs ys h hx hy nx ny he
    rcases fieldsHaveType_inv hx with ⟨rfl, rfl⟩ | ⟨F, rest, a, r, rfl, rfl, ha, hr⟩
    · rcases fieldsHaveType_inv hy with ⟨-, rfl⟩ | ⟨_, _, _, _, h', _⟩
      · rfl
      · cases h'
    · rcases fieldsHaveType_inv hy with ⟨h', -⟩ | ⟨F', rest', b, s, h', rfl, hb, hs⟩
      · cases h'
      · cases h'
        rw [Spec.fieldsEq] at he
        simp only [Bool.and_eq_true] at he
        simp only [nanFree, Bool.and_eq_true] at nx ny
        rw [Hash.fields, Hash.fields]
        simp only [Hash.field_eq_top]
        rw [(ih a (by simp <;> omega)).top F b ha hb nx.1 ny.1 he.1]
        have IH := fun sk h' => (ih r (by simp <;> omega)).fields sk rest s h' hr hs nx.2 ny.2 he.2
        split
        · exact IH _ _
        · cases Hash.top env F b with
          | panic => rfl
          | ok c => simp only [Res.bind_ok]; exact IH _ _
  · intro E ys h hx hy nx ny he
    rcases allHaveType_inv hx with rfl | ⟨a, r, rfl, ha, hr⟩
    · rcases allHaveType_inv hy with rfl | ⟨_, _, rfl, _⟩
      · rfl
      · rw [seqEq_def] at he; simp at he
    · rcases allHaveType_inv hy with rfl | ⟨b, s, rfl, hb, hs⟩
      · rw [seqEq_def] at he; simp at he
      · rw [Spec.seqEq] at he
        simp only [Bool.and_eq_true] at he
        simp only [nanFree, Bool.and_eq_true] at nx ny
        rw [Hash.elems, Hash.elems]
        simp only [Hash.field_eq_top]
        rw [(ih a (by simp <;> omega)).top E b ha hb nx.1 ny.1 he.1]
        cases Hash.top env E b with
        | panic => rfl
        | ok c =>
          simp only [Res.bind_ok]
          exact (ih r (by simp <;> omega)).elems E s _ hr hs nx.2 ny.2 he.2

/-! ## Hashing a well-typed value never panics -/

theorem leaf_total {b : Basic} {x : Val} (hx : basicHasType b x = true) :
    ∃ h, Hash.leaf x = .ok h := by
  cases b <;> cases x <;> (try (simp [basicHasType] at hx; done)) <;> exact ⟨_, rfl⟩

theorem Hash.entries_total (env : Env) (K V : Ty) :
    ∀ (sx : Val) (h : UInt64), isEntries sx = true →
      (∀ e ∈ sx.toList, (∃ c, Hash.top env K (ekey e) = .ok c) ∧
        (∃ c, Hash.top env V (evalue e) = .ok c)) →
      ∃ h', Hash.entries env K V sx h = .ok h' := by
  intro sx
  induction sx with
  | snil => intro h _ _; exact ⟨h, by rw [Hash.entries]⟩
  | scons e r ihe ihr =>
    intro h hx hQ
    clear ihe
    cases e <;> simp only [isEntries, Bool.false_eq_true] at hx
    rename_i k v
    obtain ⟨⟨ck, hk⟩, ⟨cv, hv⟩⟩ := hQ (.pair k v) (by simp [toList])
    simp only [ekey, evalue] at hk hv
    rw [Hash.entries]
    simp only [Hash.field_eq_top, hk, hv, Res.bind_ok]
    exact ihr _ hx (fun e he => hQ e (by simp [toList, he]))
  | _ => intro h hx; simp [isEntries] at hx

structure HashTotal (env : Env) (x : Val) : Prop where
  top : ∀ T, hasType env T x = true → ∃ h, Hash.top env T x = .ok h
  fields : ∀ skip fs h, fieldsHaveType env fs x = true →
    ∃ h', Hash.fields env skip fs x h = .ok h'
  elems : ∀ E h, allHaveType env E x = true → ∃ h', Hash.elems env E x h = .ok h'

theorem hashTotal (env : Env) (x : Val) : HashTotal env x := by
  induction x using Val.strongInduction with
  | step x ih =>
  refine ⟨?_, ?_, ?_⟩
  · intro T hx
    rw [Hash.top_eq_topU]
    cases hU : env.under T with
    | basic b =>
      rw [hasType_basic hU] at hx
      simp only [Hash.topU]
      exact leaf_total hx
    | ptr R =>
      rcases hasType_ptr_inv hU hx with rfl | ⟨a, v, rfl, hv⟩
      · exact ⟨0, rfl⟩
      · simp only [Hash.topU]
        obtain ⟨c, hc⟩ := (ih v (by simp <;> omega)).top R hv
        rw [hc]
        split
        · exact ⟨_, rfl⟩
        · exact ⟨_, rfl⟩
    | struct fs =>
      obtain ⟨xs, rfl, hxs⟩ := hasType_struct_inv hU hx
      simp only [Hash.topU]
      split
      · exact ⟨_, rfl⟩
      · exact (ih xs (by simp <;> omega)).fields _ fs 17 hxs
    | slice E =>
      rcases hasType_slice_inv hU hx with rfl | ⟨a, sp, xs, rfl, hxs⟩
      · exact ⟨0, rfl⟩
      · simp only [Hash.topU]
        exact (ih xs (by simp <;> omega)).elems E 17 hxs
    | array n E =>
      obtain ⟨xs, rfl, -, hxs⟩ := hasType_array_inv hU hx
      simp only [Hash.topU]
      exact (ih xs (by simp <;> omega)).elems E 17 hxs
    | map K V =>
      rcases hasType_map_inv hU hx with rfl | ⟨a, xs, rfl, -, hxs, -⟩
      · exact ⟨0, rfl⟩
      · simp only [Hash.topU]
        have sx := entriesHaveType_isEntrySpine xs hxs
        apply Hash.entries_total env K V _ 17
          (isEntries_sortEntries (Cmp.isEntries_of_entriesHaveType hxs))
        intro e he
        rw [mem_sortEntries] at he
        obtain ⟨k, v, rfl⟩ := isEntrySpine_mem xs sx he
        obtain ⟨hk, hv⟩ := entriesHaveType_mem xs hxs he
        have sz : sizeOf (Val.pair k v) < sizeOf xs := sizeOf_lt_of_mem_toList xs he
        have sz' : sizeOf k < sizeOf (Val.pair k v) ∧ sizeOf v < sizeOf (Val.pair k v) := by
          constructor <;> simp <;> omega
        exact ⟨(ih k (by simp <;> omega)).top K hk, (ih v (by simp <;> omega)).top V hv⟩
    | _ => rw [hasType_bad (by rw [hU])] at hx; cases hx
  · intro skip fs h hx
    rcases fieldsHaveType_inv hx with ⟨rfl, rfl⟩ | ⟨F, rest, a, r, rfl, rfl, ha, hr⟩
    · exact ⟨h, by rw [Hash.fields]⟩
    · rw [Hash.fields]
      simp only [Hash.field_eq_top]
      have IH := fun sk h' => (ih r (by simp <;> omega)).fields sk rest h' hr
      split
      · exact IH _ _
      · obtain ⟨c, hc⟩ := (ih a (by simp <;> omega)).top F ha
        simp only [hc, Res.bind_ok]
        exact IH _ _
  · intro E h hx
    rcases allHaveType_inv hx with rfl | ⟨a, r, rfl, ha, hr⟩
    · exact ⟨h, by rw [Hash.elems]⟩
    · rw [Hash.elems]
      simp only [Hash.field_eq_top]
      obtain ⟨c, hc⟩ := (ih a (by simp <;> omega)).top E ha
      simp only [hc, Res.bind_ok]
      exact (ih r (by simp <;> omega)).elems E _ hr

/-! ## Hashing never reads an address or a spare capacity -/

theorem cmpKey_eraseIds (a b : Val) : cmpKey (eraseIds a) (eraseIds b) = cmpKey a b := by
  induction a generalizing b with
  | arr xs ih => cases b <;> first | rfl | (simp only [eraseIds, cmpKey]; exact ih _)
  | struct xs ih => cases b <;> first | rfl | (simp only [eraseIds, cmpKey]; exact ih _)
  | scons a r iha ihr =>
    cases b <;> first | rfl | (simp only [eraseIds, cmpKey]; rw [iha, ihr])
  | _ => cases b <;> rfl

theorem insertEntry_eraseIds (e s : Val) :
    insertEntry (eraseIds e) (eraseIds s) = eraseIds (insertEntry e s) := by
  induction s with
  | scons h t _ iht =>
    cases e <;> cases h <;> simp [eraseIds, insertEntry]
    rename_i k v _ k' v'
    rw [cmpKey_eraseIds]
    split
    · simp [eraseIds]
    · simp only [eraseIds] at iht
      simp [eraseIds, iht]
  | _ => simp [eraseIds, insertEntry]

theorem sortEntries_eraseIds (s : Val) : sortEntries (eraseIds s) = eraseIds (sortEntries s) := by
  induction s with
  | scons e r _ ihr => simp only [eraseIds, sortEntries]; rw [ihr, insertEntry_eraseIds]
  | _ => simp [eraseIds, sortEntries]

theorem leaf_eraseIds (x : Val) : Hash.leaf (eraseIds x) = Hash.leaf x := by
  cases x <;> rfl

structure HashErase (env : Env) (x : Val) : Prop where
  top : ∀ T, Hash.top env T (eraseIds x) = Hash.top env T x
  fields : ∀ skip fs h, Hash.fields env skip fs (eraseIds x) h = Hash.fields env skip fs x h
  elems : ∀ E h, Hash.elems env E (eraseIds x) h = Hash.elems env E x h
  entries : ∀ K V h, Hash.entries env K V (eraseIds x) h = Hash.entries env K V x h

theorem hashErase (env : Env) (x : Val) : HashErase env x := by
  induction x using Val.strongInduction with
  | step x ih =>
  refine ⟨?_, ?_, ?_, ?_⟩
  · intro T
    rw [Hash.top_eq_topU, Hash.top_eq_topU env T x]
    generalize env.under T = U
    generalize env.skipMask T = mask
    cases U <;> cases x <;> simp only [eraseIds, Hash.topU] <;> (try (rfl; done))
    case ptr.ptr R a v => rw [(ih v (by simp <;> omega)).top R]
    case slice.slice E a sp xs => exact (ih xs (by simp <;> omega)).elems E 17
    case array.arr n E xs => exact (ih xs (by simp <;> omega)).elems E 17
    case struct.struct fs xs => rw [(ih xs (by simp <;> omega)).fields mask fs 17]
    case map.map K V a xs =>
      rw [sortEntries_eraseIds]
      exact (ih (sortEntries xs) (by rw [sizeOf_sortEntries]; simp <;> omega)).entries K V 17
  · intro skip fs h
    cases fs <;> cases x <;> simp only [eraseIds, Hash.fields]
    case fcons.scons F rest a r =>
      simp only [Hash.field_eq_top, (ih a (by simp <;> omega)).top F,
        fun sk h' => (ih r (by simp <;> omega)).fields sk rest h']
  · intro E h
    cases x <;> simp only [eraseIds, Hash.elems]
    case scons a r =>
      simp only [Hash.field_eq_top, (ih a (by simp <;> omega)).top E,
        fun h' => (ih r (by simp <;> omega)).elems E h']
  · intro K V h
    cases x <;> simp only [eraseIds, Hash.entries]
    case scons e r =>
      have hr := fun h' => (ih r (by simp <;> omega)).entries K V h'
      cases e <;> simp only [eraseIds, Hash.entries]
      case pair k v =>
        simp only [Hash.field_eq_top, (ih k (by simp <;> omega)).top K,
          (ih v (by simp <;> omega)).top V, hr]

/-! ## Structural equality already excludes NaN -/

theorem nanFree_of_leafEq {x y : Val} (h : leafEq x y = true) : nanFree x = true := by
  cases x <;> cases y <;> simp [leafEq, fltEq] at h <;> simp [nanFree, h]

theorem nanFree_of_valueAt {env : Env} {K V : Ty} {k v : Val}
    (hk : ∀ k', Spec.structEq env K k k' = true → nanFree k = true)
    (hv : ∀ w, Spec.structEq env V v w = true → nanFree v = true) :
    ∀ ys, Spec.valueAt env K V k v ys = true → nanFree k = true ∧ nanFree v = true := by
  intro ys
  induction ys with
  | scons e s _ ihs =>
    intro h
    cases e with
    | pair k' w =>
      rw [Spec.valueAt.eq_1, Bool.or_eq_true, Bool.and_eq_true] at h
      rcases h with h | h
      · exact ⟨hk k' h.1, hv w h.2⟩
      · exact ihs h
    | _ => rw [Spec.valueAt.eq_def] at h; simp at h
  | _ => intro h; rw [Spec.valueAt.eq_def] at h; simp at h

structure NanOK (env : Env) (x : Val) : Prop where
  val : ∀ T y, Spec.structEq env T x y = true → nanFree x = true
  seq : ∀ E ys, Spec.seqEq env E x ys = true → nanFree x = true
  flds : ∀ fs ys, Spec.fieldsEq env fs x ys = true → nanFree x = true
  ents : ∀ K V ys, Spec.entriesIn env K V x ys = true → nanFree x = true

theorem nanOK (env : Env) (x : Val) : NanOK env x := by
  induction x using Val.strongInduction with
  | step x ih =>
  refine ⟨?_, ?_, ?_, ?_⟩
  · intro T y he
    rw [Spec.structEq.eq_def] at he
    split at he
    · exact nanFree_of_leafEq he
    · rfl
    · simp only [nanFree]; exact (ih _ (by simp <;> omega)).val _ _ he
    · rfl
    · simp only [nanFree]; exact (ih _ (by simp <;> omega)).seq _ _ he
    · simp only [nanFree]; exact (ih _ (by simp <;> omega)).seq _ _ he
    · simp only [nanFree]; exact (ih _ (by simp <;> omega)).flds _ _ he
    · rfl
    · simp only [Bool.and_eq_true] at he
      simp only [nanFree]; exact (ih _ (by simp <;> omega)).ents _ _ _ he.2
    · cases he
  · intro E ys he
    rw [Spec.seqEq.eq_def] at he
    split at he
    · rfl
    · simp only [Bool.and_eq_true] at he
      simp only [nanFree, Bool.and_eq_true]
      exact ⟨(ih _ (by simp <;> omega)).val _ _ he.1, (ih _ (by simp <;> omega)).seq _ _ he.2⟩
    · cases he
  · intro fs ys he
    rw [Spec.fieldsEq.eq_def] at he
    split at he
    · rfl
    · simp only [Bool.and_eq_true] at he
      simp only [nanFree, Bool.and_eq_true]
      exact ⟨(ih _ (by simp <;> omega)).val _ _ he.1, (ih _ (by simp <;> omega)).flds _ _ he.2⟩
    · cases he
  · intro K V ys he
    rw [Spec.entriesIn.eq_def] at he
    split at he
    · rfl
    · rename_i k v r
      simp only [Bool.and_eq_true] at he
      simp only [nanFree, Bool.and_eq_true]
      exact ⟨nanFree_of_valueAt (fun k' => (ih k (by simp <;> omega)).val K k')
          (fun w => (ih v (by simp <;> omega)).val V w) ys he.1,
        (ih r (by simp <;> omega)).ents K V ys he.2⟩
    · cases he

/-- `Spec.structEq env T x y = true` forces `x` to be NaN-free (`NaN == NaN` is false) -/
theorem nanFree_left_of_structEq {env : Env} {T : Ty} {x y : Val}
    (h : Spec.structEq env T x y = true) : nanFree x = true := (nanOK env x).val T y h

/-! ## The key-sorted entry sequence does not depend on the insertion order -/

theorem eq_of_toList_eq {s s' : Val} (hs : isEntries s = true) (hs' : isEntries s' = true)
    (h : s.toList = s'.toList) : s = s' := by
  induction s generalizing s' with
  | snil =>
    cases s' with
    | snil => rfl
    | scons _ _ => simp [toList] at h
    | _ => simp [isEntries] at hs'
  | scons e r _ ihr =>
    cases s' with
    | scons e' r' =>
      simp only [toList, List.cons.injEq] at h
      cases e <;> simp only [isEntries, Bool.false_eq_true] at hs
      cases e' <;> simp only [isEntries, Bool.false_eq_true] at hs'
      rw [h.1, ihr hs hs' h.2]
    | snil => simp [toList] at h
    | _ => simp [isEntries] at hs'
  | _ => simp [isEntries] at hs

/-- two key-distinct entry spines over one key set that are permutations of each other have the
same key-sorted spine (a strictly sorted permutation is unique) -/
theorem sortEntries_eq_of_perm {P : Val → Prop} (hP : KeySet P) {xs ys : Val}
    (hx : KeysIn P xs) (hy : KeysIn P ys) (dx : keysDistinct xs = true)
    (dy : keysDistinct ys = true) (hp : xs.toList.Perm ys.toList) :
    sortEntries xs = sortEntries ys := by
  apply eq_of_toList_eq hx.sortEntries.1 hy.sortEntries.1
  apply List.Perm.eq_of_pairwise (le := keyLt) _ (strictSorted_sortEntries hP hx dx)
    (strictSorted_sortEntries hP hy dy)
    ((sortEntries_perm xs).trans (hp.trans (sortEntries_perm ys).symm))
  intro a b ha hb h1 h2
  have := hP.antisymm (hx.sortEntries.2 a ha) (hy.sortEntries.2 b hb)
  simp only [keyLt] at h1 h2
  omega

/-- typed form: only the KEYS have to be NaN-free -/
theorem sortEntries_eq_of_perm_typed {env : Env} (hf : env.flagsOk = true) {K V : Ty}
    {xs ys : Val} (hc : canEqual env K = true) (hxs : entriesHaveType env K V xs = true)
    (hys : entriesHaveType env K V ys = true)
    (nk : ∀ e ∈ xs.toList, nanFree (ekey e) = true)
    (dx : keysDistinct xs = true) (dy : keysDistinct ys = true)
    (hp : xs.toList.Perm ys.toList) : sortEntries xs = sortEntries ys := by
  have hx' := Cmp.entriesHaveType_iff_mem.1 hxs
  have hy' := Cmp.entriesHaveType_iff_mem.1 hys
  exact sortEntries_eq_of_perm (Cmp.keySet_typed hf hc)
    ⟨hx'.1, fun e he => ⟨(hx'.2 e he).1, nk e he⟩⟩
    ⟨hy'.1, fun e he => ⟨(hy'.2 e he).1, nk e (hp.mem_iff.2 he)⟩⟩ dx dy hp

/-! ## Which types plugin/hash generates code for -/

namespace Hash

/-- `K` can be sorted by the derived order (`deriveSort(deriveKeys(m))`): plugin/compare refuses
unnamed structs -/
def okKey (env : Env) : Ty → Bool
  | .basic _ => true
  | .named i => (env.decl? i).isSome
  | .array _ E => okKey env E
  | .fnil => true
  | .fcons F r => okKey env F && okKey env r
  | _ => false

/-- `T` is supported by plugin/hash: no chan / func / interface constituent, no dangling name
(closed world), map keys comparable and sortable. Unnamed structs and pointers to them are fine
(unlike plugin/equal and plugin/compare). -/
def okTy (env : Env) : Ty → Bool
  | .basic _ => true
  | .named i => (env.decl? i).isSome
  | .ptr R => okTy env R
  | .slice E => okTy env E
  | .array _ E => okTy env E
  | .map K V => canEqual env K && okKey env K && okTy env V
  | .struct fs => okTy env fs
  | .fnil => true
  | .fcons F r => okTy env F && okTy env r
  | .chan _ => false
  | .func => false
  | .iface => false

/-- a declared type that may be used as a map key (it is comparable) must be sortable -/
def okKeyDecl (env : Env) : Ty → Bool
  | .struct fs => okKey env fs
  | T => okKey env T

/-- every declared type of the environment is supported -/
def envOk (env : Env) : Bool :=
  env.decls.all fun d => okTy env d.under && (!d.canEq || okKeyDecl env d.under)

end Hash

/-- `deriveHash` can be generated for `T`: a decidable, syntactic, closed-world check over `T` and
the declarations of the environment. It is a SUFFICIENT condition for the generator to emit code.
None of the C04 theorems needs it as a hypothesis: a well-typed value (`hasType`) has no chan / func
/ interface component and no dangling name at any position the hash function visits, and the key
type of a non-nil map value is comparable by `hasType`; so the theorems hold on every well-typed
value. -/
def SupportedHash (env : Env) (T : Ty) : Bool := Hash.okTy env T && Hash.envOk env

/-! ## The main lemma in the form used by Props/C04.lean -/

/-- structurally equal well-typed values hash alike; NaN-freeness of both sides follows from
`structEq … = true` (and its symmetry) -/
theorem hash_eq_of_structEq {env : Env} (hf : env.flagsOk = true) {T : Ty} {x y : Val}
    (hx : hasType env T x = true) (hy : hasType env T y = true)
    (he : Spec.structEq env T x y = true) : Hash.top env T x = Hash.top env T y := by
  have nx := nanFree_left_of_structEq he
  have ny : nanFree y = true := by
    apply nanFree_left_of_structEq (env := env) (T := T) (y := x)
    rw [← (symmOK hf x).val T y hx hy]; exact he
  exact (hashOK hf x).top T y hx hy nx ny he

/-! ## Evaluation on concrete data (the functions are defined by well-founded recursion, so
`decide` cannot run them; `simp` with the unfolding lemmas can) -/

/-- evaluate `Hash.top` on concrete data -/
syntax "hash_eval" (" [" Lean.Parser.Tactic.simpLemma,* "]")? : tactic
macro_rules
  | `(tactic| hash_eval) => `(tactic| hash_eval [])
  | `(tactic| hash_eval [$ls,*]) => `(tactic|
      simp +decide [Hash.top_eq_topU, Hash.topU, Hash.inlinePtr, Hash.fields, Hash.elems,
        Hash.entries, Hash.field_eq_top, Hash.leaf, Env.under, Env.skipMask, Env.decl?,
        Ty.isNamed, sortEntries, insertEntry, cmpKey, cmpBytes, cmpInt, cmpBool, cmpFlt, fltEq,
        fltLt, toU64, normBits, fltMag, mix, hashString, decodeRunes, decodeRunesAux, decodeRune,
        isCont, runeError, $ls,*])

/-! ## A concrete world for the non-vacuity examples of Props/C04.lean -/

namespace C04
set_option linter.unusedSimpArgs false

/-!
```go
type Node struct { N int64; Next *Node; Tags []string; Pts map[string]Pt; F float64 }  // named 0
type Pt   struct { X, Y float64 }                                                      // named 1
type Ext  struct { Pub int64; priv int64 }      // named 2, declared in ANOTHER package
```
-/

def env : Env := { decls := [
  { under := .struct (.fcons (.basic (.int 64 true)) (.fcons (.ptr (.named 0))
      (.fcons (.slice (.basic .string)) (.fcons (.map (.basic .string) (.named 1))
      (.fcons (.basic (.float 64)) .fnil))))), canEq := false },
  { under := .struct (.fcons (.basic (.float 64)) (.fcons (.basic (.float 64)) .fnil)),
    canEq := true },
  { under := .struct (.fcons (.basic (.int 64 true)) (.fcons (.basic (.int 64 true)) .fnil)),
    canEq := true, external := true, priv := true, privMask := [false, true] } ] }

def tNode : Ty := .named 0
def tPt : Ty := .named 1
def tExt : Ty := .named 2
/-- `map[Pt]int64`: struct keys -/
def tMapPt : Ty := .map (.named 1) (.basic (.int 64 true))

-- IEEE-754 binary64 bit patterns
def f0 : Nat := 0                          -- +0.0
def fm0 : Nat := 9223372036854775808       -- -0.0
def f1 : Nat := 4607182418800017408        -- 1.0
def f2 : Nat := 4611686018427387904        -- 2.0
def fnan : Nat := 9221120237041090560      -- NaN

def pt (a b : Nat) : Val := .struct (.scons (.flt 64 a) (.scons (.flt 64 b) .snil))
def node (n : Int) (next tags m : Val) (f : Nat) : Val :=
  .struct (.scons (.int n) (.scons next (.scons tags (.scons m (.scons (.flt 64 f) .snil)))))
def leaf : Val := node 2 .nilv .nilv .nilv f0
def hi : Val := .str [104, 105]
def ka : Val := .str [97]
def kb : Val := .str [98]

/-- `&Node{1, &Node{2}, []string{"hi"} (cap 4), map{"a": {+0, 1}, "b": {2, -0}}, -0}` -/
def x1 : Val := node 1 (.ptr 10 leaf) (.slice 11 3 (.scons hi .snil))
  (.map 12 (.scons (.pair ka (pt f0 f1)) (.scons (.pair kb (pt f2 fm0)) .snil))) fm0
/-- the same contents at other addresses, no spare capacity, the map filled in the other order,
every zero with the other sign -/
def y1 : Val := node 1 (.ptr 20 leaf) (.slice 21 0 (.scons hi .snil))
  (.map 22 (.scons (.pair kb (pt f2 f0)) (.scons (.pair ka (pt fm0 f1)) .snil))) f0
/-- differs from `x1` in one leaf -/
def z1 : Val := node 1 (.ptr 10 leaf) (.slice 11 3 (.scons hi .snil))
  (.map 12 (.scons (.pair ka (pt f0 f1)) (.scons (.pair kb (pt f2 f2)) .snil))) fm0

/-- `map[Pt]int64{{+0, 1}: 1, {2, -0}: 2}` -/
def m1 : Val := .scons (.pair (pt f0 f1) (.int 1)) (.scons (.pair (pt f2 fm0) (.int 2)) .snil)
/-- the same map filled in the other order -/
def m2 : Val := .scons (.pair (pt f2 fm0) (.int 2)) (.scons (.pair (pt f0 f1) (.int 1)) .snil)
/-- … and with keys that are `==` but not bit-identical -/
def m3 : Val := .scons (.pair (pt f2 f0) (.int 2)) (.scons (.pair (pt fm0 f1) (.int 1)) .snil)

theorem env_flagsOk : env.flagsOk = true := by decide
theorem env_supported : Supported env tNode = true := by decide
theorem env_supportedHash : SupportedHash env tNode = true := by decide
theorem x1_typed : hasType env tNode x1 = true := by
  goderive_eval [env, tNode, x1, node, leaf, pt, hi, ka, kb, f0, fm0, f1, f2]
theorem y1_typed : hasType env tNode y1 = true := by
  goderive_eval [env, tNode, y1, node, leaf, pt, hi, ka, kb, f0, fm0, f1, f2]
theorem z1_typed : hasType env tNode z1 = true := by
  goderive_eval [env, tNode, z1, node, leaf, pt, hi, ka, kb, f0, fm0, f1, f2]
theorem x1_y1_structEq : Spec.structEq env tNode x1 y1 = true := by
  goderive_eval [env, tNode, x1, y1, node, leaf, pt, hi, ka, kb, f0, fm0, f1, f2]
theorem x1_z1_structEq : Spec.structEq env tNode x1 z1 = false := by
  goderive_eval [env, tNode, x1, z1, node, leaf, pt, hi, ka, kb, f0, fm0, f1, f2]
theorem x1_hash : Hash.top env tNode x1 = .ok 13407230646409729311 := by
  hash_eval [env, tNode, x1, node, leaf, pt, hi, ka, kb, f0, fm0, f1, f2]
theorem y1_hash : Hash.top env tNode y1 = .ok 13407230646409729311 := by
  hash_eval [env, tNode, y1, node, leaf, pt, hi, ka, kb, f0, fm0, f1, f2]

theorem m1_typed (a : Nat) : hasType env tMapPt (.map a m1) = true := by
  goderive_eval [env, tMapPt, m1, pt, f0, fm0, f1, f2]
theorem m2_typed (a : Nat) : hasType env tMapPt (.map a m2) = true := by
  goderive_eval [env, tMapPt, m2, pt, f0, fm0, f1, f2]
theorem m3_typed (a : Nat) : hasType env tMapPt (.map a m3) = true := by
  goderive_eval [env, tMapPt, m3, pt, f0, fm0, f1, f2]
theorem m1_perm_m2 : m1.toList.Perm m2.toList := by
  simp only [m1, m2, Val.toList]; exact List.Perm.swap ..
theorem m1_m3_structEq : Spec.structEq env tMapPt (.map 1 m1) (.map 2 m3) = true := by
  goderive_eval [env, tMapPt, m1, m3, pt, f0, fm0, f1, f2]

end C04

end Goderive
