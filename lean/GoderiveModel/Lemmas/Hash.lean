/-
Helper lemmas for property C04 (derived Hash is a function of the value that respects Equal).

* floats: `fltEq` (IEEE `==`) on in-range bit patterns implies equal `normBits` (`-0` ↦ `+0`);
* `Hash.topU`: the body of `Hash.top` once the underlying type is known (`Hash.top_eq_topU`);
* `hashOK`: structurally equal (`Spec.structEq`) well-typed NaN-free values hash alike;
* `hashTotal`: `Hash.top` never panics on a well-typed value;
* `hashErase`: `Hash.top` never reads an address or a spare capacity;
* `sortEntries_eq_of_perm`: the key-sorted entry sequence does not depend on the insertion order;
* `Hash.okTy` / `SupportedHash`: which types plugin/hash generates code for;
* the concrete world of the non-vacuity examples of Props/C04.lean (`namespace C04`).
-/
import GoderiveModel.S.Hash
import GoderiveModel.Lemmas.Equal
import GoderiveModel.Lemmas.SortEntries

namespace Goderive
open Val

/-! ## Floats: IEEE-equal bit patterns have the same normalised bits -/

/-- `a == b` (IEEE, non-NaN) for bit patterns of width `w` means: the same bits, or both are a zero.
Hence `math.Float64bits(a + 0) = math.Float64bits(b + 0)`. -/
theorem normBits_eq_of_fltEq {w a b : Nat} (ha : a < 2 ^ w) (hb : b < 2 ^ w)
    (h : fltEq w a b = true) : normBits w a = normBits w b := by
  simp only [fltEq, Bool.and_eq_true, beq_iff_eq] at h
  have hk := h.2
  cases w with
  | zero =>
    have : a = 0 := by simpa using ha
    have : b = 0 := by simpa using hb
    subst_vars; rfl
  | succ n =>
    simp only [fltKey, fltSign, fltMag, normBits, Nat.add_sub_cancel] at hk ⊢
    have hP : 0 < 2 ^ n := Nat.two_pow_pos n
    rw [Nat.pow_succ] at ha hb
    generalize 2 ^ n = P at *
    have h1 := Nat.div_add_mod a P
    have h2 := Nat.div_add_mod b P
    have h3 : a / P < 2 := Nat.div_lt_of_lt_mul (by omega)
    have h4 : b / P < 2 := Nat.div_lt_of_lt_mul (by omega)
    have h5 := Nat.mod_lt a hP
    have h6 := Nat.mod_lt b hP
    generalize a / P = qa at *
    generalize a % P = ra at *
    generalize b / P = qb at *
    generalize b % P = rb at *
    have ca : qa = 0 ∨ qa = 1 := by omega
    have cb : qb = 0 ∨ qb = 1 := by omega
    rcases ca with rfl | rfl <;> rcases cb with rfl | rfl <;> simp at hk h1 h2 ⊢ <;>
      split <;> split <;> omega

/-- equal leaves (IEEE `==` on floats) hash alike -/
theorem leaf_eq_of_leafEq {b : Basic} {x y : Val} (hx : basicHasType b x = true)
    (hy : basicHasType b y = true) (h : leafEq x y = true) : Hash.leaf x = Hash.leaf y := by
  cases b <;> cases x <;> (try (simp [basicHasType] at hx; done)) <;>
    cases y <;> (try (simp [basicHasType] at hy; done)) <;>
    simp only [leafEq, beq_iff_eq, Bool.and_eq_true] at h
  case bool.bool.bool => subst h; rfl
  case int.int.int => subst h; rfl
  case float.flt.flt =>
    simp only [basicHasType, Bool.and_eq_true, beq_iff_eq, decide_eq_true_eq] at hx hy
    obtain ⟨rfl, ha⟩ := hx
    obtain ⟨rfl, hb⟩ := hy
    simp only [Hash.leaf, normBits_eq_of_fltEq ha hb h]
  case complex.cplx.cplx W w1 a a' w2 c c' =>
    simp only [basicHasType, Bool.and_eq_true, beq_iff_eq, decide_eq_true_eq] at hx hy
    obtain ⟨⟨hw, ha⟩, ha'⟩ := hx
    obtain ⟨⟨hw', hb⟩, hb'⟩ := hy
    have hww : w1 = w2 := by omega
    subst hww
    simp only [Hash.leaf, normBits_eq_of_fltEq ha hb h.1, normBits_eq_of_fltEq ha' hb' h.2]
  case string.str.str => subst h; rfl

/-! ## The body of `Hash.top` once the underlying type is known -/

namespace Hash

/-- a pointer to `R` is hashed by hashing the fields of `*R` in place (no `(31*17)+…` wrapper):
`R` is a named struct type -/
def inlinePtr (env : Env) (R : Ty) : Bool :=
  match env.under R with
  | .struct _ => R.isNamed
  | _ => false

/-- `Hash.top env T x` as a function of the underlying type `U` of `T` and the skip mask of `T`
(not recursive: the recursive calls are calls of `Hash.top` etc.). -/
def topU (env : Env) (mask : List Bool) : Ty → Val → Res UInt64
  | .basic _, x => leaf x
  | .ptr _, .nilv => .ok 0
  | .ptr R, .ptr _ a =>
    if inlinePtr env R then top env R a else do let c ← top env R a; .ok ((31 * 17) + c)
  | .struct fs, .struct xs => if fs = .fnil then .ok 17 else fields env mask fs xs 17
  | .slice _, .nilv => .ok 0
  | .slice E, .slice _ _ xs => elems env E xs 17
  | .array _ E, .arr xs => elems env E xs 17
  | .map _ _, .nilv => .ok 0
  | .map K V, .map _ xs => entries env K V (sortEntries xs) 17
  | _, _ => .panic

theorem top_eq_topU (env : Env) (T : Ty) (x : Val) :
    top env T x = topU env (env.skipMask T) (env.under T) x := by
  rw [top.eq_def]
  cases hU : env.under T <;> cases x <;> simp only [topU]
  case ptr.ptr R a v =>
    simp only [inlinePtr]
    rw [field.eq_1, top.eq_def env R v]
    cases hR : env.under R <;> simp only [Bool.false_eq_true, if_false]
    cases R.isNamed <;> simp only [Bool.false_eq_true, if_false, if_true]
    cases v <;> rfl

@[simp] theorem field_eq_top (env : Env) (F : Ty) (x : Val) : field env F x = top env F x :=
  field.eq_1 env F x

end Hash

end Goderive
