/-
Inductive invariant of K/Do and the lemmas behind the C20 theorems.
-/
import GoderiveModel.K.Do
import GoderiveModel.Lemmas.ConcCount

namespace Goderive.K.Do

def isFin (w : WSt) : Bool := w == .fin

theorem earlierDone_iff (c : Cfg) (d : Nat → Bool) (p i : Nat) :
    earlierDone c d p i = true ↔
      ∀ q, q < p → ∀ pr, c.pairs[q]? = some pr → involves pr i = true → d q = true := by
  unfold earlierDone
  rw [List.all_eq_true]
  constructor
  · intro h q hq pr hpr hinv
    have := h q (List.mem_range.mpr hq)
    rw [hpr] at this
    simpa [hinv] using this
  · intro h q hq
    have hq' := List.mem_range.mp hq
    cases hpr : c.pairs[q]? with
    | none => rfl
    | some pr =>
      cases hinv : involves pr i with
      | false => simp [hinv]
      | true => simp [h q hq' pr hpr hinv]

theorem earlierDone_mono (c : Cfg) (d : Nat → Bool) (p q i : Nat) (h : earlierDone c d q i = true) :
    earlierDone c (upd d p true) q i = true := by
  rw [earlierDone_iff] at h ⊢
  intro q' hq' pr hpr hinv
  by_cases hqp : q' = p
  · simp [upd, hqp]
  · simp [upd, hqp, h q' hq' pr hpr hinv]

/-- The inductive invariant. -/
structure Inv (c : Cfg) (s : State) : Prop where
  out_absent : ∀ i, c.n ≤ i → s.st i = .absent
  spawn_inv : ∀ k, s.pc = .spawn k → k < c.n ∧ (∀ i, s.st i = .absent ↔ k ≤ i) ∧ (∀ i, s.st i ≠ .fin)
  started : (∀ k, s.pc ≠ .spawn k) → ∀ i, i < c.n → s.st i ≠ .absent
  recv_inv : ∀ j, s.pc = .recv j → j < c.n ∧ count (fun i => isFin (s.st i)) c.n = j
  ret_inv : (s.pc = .ret ∨ s.pc = .done) → ∀ i, i < c.n → s.st i = .fin
  written : ∀ i, (s.st i = .send ∨ s.st i = .fin) → s.v i = some (c.val i) ∧ allDone c s.rvDone i = true
  unwritten : ∀ i, (s.st i = .absent ∨ s.st i = .run) → s.v i = none
  err_none : s.errVar = none → ∀ i, i < c.n → s.st i = .fin → c.err i = none
  err_some : ∀ e, s.errVar = some e → ∃ i, i < c.n ∧ s.st i = .fin ∧ c.err i = some e
  res : ∀ r, s.result = some r →
    s.pc = .done ∧ r = ((List.range c.n).map (fun i => some (c.val i)), s.errVar)

theorem inv_init (c : Cfg) (hn : 0 < c.n) : Inv c (init c) := by
  refine ⟨?_, ?_, ?_, ?_, ?_, ?_, ?_, ?_, ?_, ?_⟩ <;> simp [init]
  · exact hn

theorem inv_step (c : Cfg) (s s' : State) (l : Label) (hi : Inv c s) (hs : step c s l = some s') :
    Inv c s' := by
  cases l with
  | spawn =>
    simp only [step] at hs
    cases hpc : s.pc with
    | spawn k =>
      simp only [hpc] at hs
      obtain ⟨hkn, habs, hnofin⟩ := hi.spawn_inv k hpc
      simp only [hkn, if_true, Option.some.injEq] at hs
      subst hs
      by_cases hlast : k + 1 < c.n
      · simp only [hlast, if_true]
        refine ⟨?_, ?_, ?_, ?_, ?_, ?_, ?_, ?_, ?_, ?_⟩
        · intro i hi'
          simp only [upd]
          rw [if_neg (by omega)]
          exact hi.out_absent i hi'
        · intro k' hk'
          simp only [MPc.spawn.injEq] at hk'
          subst hk'
          refine ⟨hlast, ?_, ?_⟩
          · intro i
            simp only [upd]
            by_cases hik : i = k
            · simp [hik]
            · simp only [hik, if_false]; rw [habs i]; omega
          · intro i
            simp only [upd]
            by_cases hik : i = k
            · simp [hik]
            · simp only [hik, if_false]; exact hnofin i
        · intro h; exact absurd rfl (h (k + 1))
        · intro j hj; cases hj
        · intro h; rcases h with h | h <;> cases h
        · intro i h
          simp only [upd] at h ⊢
          by_cases hik : i = k
          · simp [hik] at h
          · simp only [hik, if_false] at h; exact hi.written i h
        · intro i h
          simp only [upd] at h
          by_cases hik : i = k
          · subst hik; exact hi.unwritten i (Or.inl ((habs i).mpr (Nat.le_refl i)))
          · simp only [hik, if_false] at h; exact hi.unwritten i h
        · intro he i hin hfin
          simp only [upd] at hfin
          by_cases hik : i = k
          · simp [hik] at hfin
          · simp only [hik, if_false] at hfin; exact hi.err_none he i hin hfin
        · intro e he
          obtain ⟨i, hin, hfin, herr⟩ := hi.err_some e he
          exact absurd hfin (hnofin i)
        · intro r hr
          obtain ⟨hd, _⟩ := hi.res r hr
          rw [hpc] at hd; cases hd
      · simp only [hlast, if_false]
        refine ⟨?_, ?_, ?_, ?_, ?_, ?_, ?_, ?_, ?_, ?_⟩
        · intro i hi'
          simp only [upd]
          rw [if_neg (by omega)]
          exact hi.out_absent i hi'
        · intro k' hk'; cases hk'
        · intro _ i hin
          simp only [upd]
          by_cases hik : i = k
          · simp [hik]
          · simp only [hik, if_false]
            intro h
            have := (habs i).mp h
            omega
        · intro j hj
          simp only [MPc.recv.injEq] at hj
          subst hj
          refine ⟨by omega, ?_⟩
          apply count_all_false
          intro i _
          simp only [upd, isFin]
          by_cases hik : i = k
          · simp [hik]
          · simp only [hik, if_false]
            have := hnofin i
            cases h : s.st i <;> simp_all
        · intro h; rcases h with h | h <;> cases h
        · intro i h
          simp only [upd] at h ⊢
          by_cases hik : i = k
          · simp [hik] at h
          · simp only [hik, if_false] at h; exact hi.written i h
        · intro i h
          simp only [upd] at h
          by_cases hik : i = k
          · subst hik; exact hi.unwritten i (Or.inl ((habs i).mpr (Nat.le_refl i)))
          · simp only [hik, if_false] at h; exact hi.unwritten i h
        · intro he i hin hfin
          simp only [upd] at hfin
          by_cases hik : i = k
          · simp [hik] at hfin
          · simp only [hik, if_false] at hfin; exact hi.err_none he i hin hfin
        · intro e he
          obtain ⟨i, hin, hfin, herr⟩ := hi.err_some e he
          exact absurd hfin (hnofin i)
        · intro r hr
          obtain ⟨hd, _⟩ := hi.res r hr
          rw [hpc] at hd; cases hd
    | recv j => simp [hpc] at hs
    | ret => simp [hpc] at hs
    | done => simp [hpc] at hs
  | rv p =>
    simp only [step] at hs
    cases hpr : c.pairs[p]? with
    | none => simp [hpr] at hs
    | some pr =>
      obtain ⟨a, b⟩ := pr
      simp only [hpr] at hs
      split at hs
      · simp only [Option.some.injEq] at hs
        subst hs
        refine ⟨hi.out_absent, hi.spawn_inv, hi.started, hi.recv_inv, hi.ret_inv, ?_, hi.unwritten,
          hi.err_none, hi.err_some, hi.res⟩
        intro i h
        obtain ⟨hv, hd⟩ := hi.written i h
        exact ⟨hv, earlierDone_mono c s.rvDone p _ i hd⟩
      · cases hs
  | wr i =>
    simp only [step] at hs
    split at hs
    · next hcond =>
      obtain ⟨hin, hrun, hall⟩ := hcond
      simp only [Option.some.injEq] at hs
      subst hs
      refine ⟨?_, ?_, ?_, ?_, ?_, ?_, ?_, ?_, ?_, ?_⟩
      · intro j hj
        simp only [upd]
        rw [if_neg (by omega)]
        exact hi.out_absent j hj
      · intro k hk
        obtain ⟨hkn, habs, hnofin⟩ := hi.spawn_inv k hk
        refine ⟨hkn, ?_, ?_⟩
        · intro j
          simp only [upd]
          by_cases hji : j = i
          · subst hji
            simp only [if_true]
            constructor
            · intro h; cases h
            · intro h
              have := (habs j).mpr h
              rw [hrun] at this; cases this
          · simp only [hji, if_false]; exact habs j
        · intro j
          simp only [upd]
          by_cases hji : j = i
          · simp [hji]
          · simp only [hji, if_false]; exact hnofin j
      · intro h j hjn
        simp only [upd]
        by_cases hji : j = i
        · simp [hji]
        · simp only [hji, if_false]; exact hi.started h j hjn
      · intro j hj
        obtain ⟨hjn, hc⟩ := hi.recv_inv j hj
        refine ⟨hjn, ?_⟩
        have := count_upd_lt isFin s.st i WSt.send c.n hin
        simp only [hrun, isFin] at this
        simp only [isFin] at hc ⊢
        simp at this
        omega
      · intro h j hjn
        have := hi.ret_inv h i hin
        rw [hrun] at this; cases this
      · intro j h
        simp only [upd] at h ⊢
        by_cases hji : j = i
        · subst hji; simp only [if_true]; exact ⟨by simp, hall⟩
        · simp only [hji, if_false] at h ⊢; exact hi.written j h
      · intro j h
        simp only [upd] at h ⊢
        by_cases hji : j = i
        · simp [hji] at h
        · simp only [hji, if_false] at h ⊢; exact hi.unwritten j h
      · intro he j hjn hfin
        simp only [upd] at hfin
        by_cases hji : j = i
        · simp [hji] at hfin
        · simp only [hji, if_false] at hfin; exact hi.err_none he j hjn hfin
      · intro e he
        obtain ⟨j, hjn, hfin, herr⟩ := hi.err_some e he
        refine ⟨j, hjn, ?_, herr⟩
        simp only [upd]
        by_cases hji : j = i
        · subst hji; rw [hrun] at hfin; cases hfin
        · simp only [hji, if_false]; exact hfin
      · exact hi.res
    · cases hs
  | xfer i =>
    simp only [step] at hs
    cases hpc : s.pc with
    | recv j =>
      simp only [hpc] at hs
      split at hs
      · next hcond =>
        obtain ⟨hin, hsend⟩ := hcond
        simp only [Option.some.injEq] at hs
        obtain ⟨hjn, hcnt⟩ := hi.recv_inv j hpc
        have hnosp : ∀ k, s.pc ≠ .spawn k := by intro k h; rw [hpc] at h; cases h
        have hcnt' : count (fun x => isFin (upd s.st i WSt.fin x)) c.n = j + 1 := by
          have := count_upd_lt isFin s.st i WSt.fin c.n hin
          simp only [hsend, isFin] at this
          simp only [isFin] at hcnt ⊢
          simp at this
          omega
        have hwr := hi.written i (Or.inl hsend)
        subst hs
        refine ⟨?_, ?_, ?_, ?_, ?_, ?_, ?_, ?_, ?_, ?_⟩
        · intro k hk
          simp only [upd]
          rw [if_neg (by omega)]
          exact hi.out_absent k hk
        · intro k hk
          simp only at hk
          split at hk <;> cases hk
        · intro _ k hkn
          simp only [upd]
          by_cases hki : k = i
          · simp [hki]
          · simp only [hki, if_false]; exact hi.started hnosp k hkn
        · intro j' hj'
          simp only at hj'
          split at hj'
          · next hlt =>
            simp only [MPc.recv.injEq] at hj'
            subst hj'
            exact ⟨hlt, hcnt'⟩
          · cases hj'
        · intro h k hkn
          simp only at h
          split at h
          · rcases h with h | h <;> cases h
          · next hge =>
            have hall : count (fun x => isFin (upd s.st i WSt.fin x)) c.n = c.n := by omega
            have := count_full _ c.n hall k hkn
            simpa [isFin] using this
        · intro k h
          simp only [upd] at h ⊢
          by_cases hki : k = i
          · subst hki; exact hwr
          · simp only [hki, if_false] at h; exact hi.written k h
        · intro k h
          simp only [upd] at h
          by_cases hki : k = i
          · simp [hki] at h
          · simp only [hki, if_false] at h; exact hi.unwritten k h
        · intro he k hkn hfin
          simp only at he
          simp only [upd] at hfin
          cases hev : s.errVar with
          | some e => simp [hev] at he
          | none =>
            simp only [hev] at he
            by_cases hki : k = i
            · subst hki; exact he
            · simp only [hki, if_false] at hfin; exact hi.err_none hev k hkn hfin
        · intro e he
          simp only at he
          cases hev : s.errVar with
          | some e' =>
            simp only [hev, Option.some.injEq] at he
            subst he
            obtain ⟨k, hkn, hfin, herr⟩ := hi.err_some e' hev
            refine ⟨k, hkn, ?_, herr⟩
            simp only [upd]
            by_cases hki : k = i
            · simp [hki]
            · simp only [hki, if_false]; exact hfin
          | none =>
            simp only [hev] at he
            exact ⟨i, hin, by simp [upd], he⟩
        · intro r hr
          obtain ⟨hd, _⟩ := hi.res r hr
          rw [hpc] at hd; cases hd
      · cases hs
    | spawn k => simp [hpc] at hs
    | ret => simp [hpc] at hs
    | done => simp [hpc] at hs
  | ret =>
    simp only [step] at hs
    split at hs
    · next hpc =>
      simp only [Option.some.injEq] at hs
      have hall := hi.ret_inv (Or.inl hpc)
      subst hs
      refine ⟨hi.out_absent, ?_, ?_, ?_, ?_, hi.written, hi.unwritten, hi.err_none, hi.err_some, ?_⟩
      · intro k hk; cases hk
      · intro _ i hin; rw [hall i hin]; intro h; cases h
      · intro j hj; cases hj
      · intro _ i hin; exact hall i hin
      · intro r hr
        simp only [Option.some.injEq] at hr
        subst hr
        refine ⟨rfl, ?_⟩
        congr 1
        apply List.map_congr_left
        intro i hmem
        have hin := List.mem_range.mp hmem
        exact (hi.written i (Or.inr (hall i hin))).1
    · cases hs

theorem inv_reachable (c : Cfg) (hn : 0 < c.n) (s : State) (h : (lts c).Reachable s) : Inv c s :=
  Lts.invariant (lts c) (Inv c) (inv_init c hn) (fun s l s' hi hs => inv_step c s s' l hi hs) s h

end Goderive.K.Do

namespace Goderive.K.Do

/-- well-formed configuration: at least one function; every rendezvous is between two different
functions of the call -/
def WF (c : Cfg) : Prop :=
  0 < c.n ∧ ∀ (p a b : Nat), c.pairs[p]? = some (a, b) → a < c.n ∧ b < c.n ∧ a ≠ b

theorem progress (c : Cfg) (hwf : WF c) (s : State) (hi : Inv c s) (hnf : s.pc ≠ .done) :
    (lts c).Enabled s := by
  cases hpc : s.pc with
  | spawn k =>
    obtain ⟨hkn, _, _⟩ := hi.spawn_inv k hpc
    exact Lts.enabled_of_isSome _ _ .spawn (by simp [lts, step, hpc, hkn])
  | ret => exact Lts.enabled_of_isSome _ _ .ret (by simp [lts, step, hpc])
  | done => exact absurd hpc hnf
  | recv j =>
    have hnosp : ∀ k, s.pc ≠ .spawn k := by intro k h; rw [hpc] at h; cases h
    obtain ⟨hjn, hcnt⟩ := hi.recv_inv j hpc
    by_cases hs : ∃ i, i < c.n ∧ s.st i = .send
    · obtain ⟨i, hin, hsend⟩ := hs
      exact Lts.enabled_of_isSome _ _ (.xfer i) (by simp [lts, step, hpc, hin, hsend])
    · -- nobody is parked at the send: every started worker is running or finished
      have hst : ∀ i, i < c.n → s.st i = .run ∨ s.st i = .fin := by
        intro i hin
        have h1 := hi.started hnosp i hin
        have h2 : s.st i ≠ .send := fun h => hs ⟨i, hin, h⟩
        cases h : s.st i <;> simp_all
      by_cases hex : ∃ q, q < c.pairs.length ∧ s.rvDone q = false
      · -- the first rendezvous that has not happened is enabled
        obtain ⟨p, hp, hpd, hmin⟩ := exists_least s.rvDone c.pairs.length hex
        have hget : c.pairs[p]? = some c.pairs[p] := List.getElem?_eq_getElem hp
        generalize c.pairs[p] = pr at hget
        obtain ⟨a, b⟩ := pr
        obtain ⟨han, hbn, hne⟩ := hwf.2 p a b hget
        have hrunning : ∀ x, x < c.n → involves (a, b) x = true → s.st x = .run := by
          intro x hxn hinv
          rcases hst x hxn with h | h
          · exact h
          · have hall := (hi.written x (Or.inr h)).2
            unfold allDone at hall
            rw [earlierDone_iff] at hall
            have := hall p hp (a, b) hget hinv
            rw [hpd] at this; cases this
        have hearlier : ∀ x, earlierDone c s.rvDone p x = true := by
          intro x
          rw [earlierDone_iff]
          intro q hq _ _ _
          exact hmin q hq
        have ha := hrunning a han (by simp [involves])
        have hb := hrunning b hbn (by simp [involves])
        exact Lts.enabled_of_isSome _ _ (.rv p) (by simp [lts, step, hget, hpd, han, hbn, hne, ha, hb, hearlier])
      · -- every rendezvous has happened: a running worker can return
        have hlt : count (fun i => isFin (s.st i)) c.n < c.n := by omega
        obtain ⟨i, hin, hnf'⟩ := count_lt_exists _ c.n hlt
        have hrun : s.st i = .run := by
          rcases hst i hin with h | h
          · exact h
          · simp [isFin, h] at hnf'
        have hall : allDone c s.rvDone i = true := by
          unfold allDone
          rw [earlierDone_iff]
          intro q hq _ _ _
          cases h : s.rvDone q
          · exact absurd ⟨q, hq, h⟩ hex
          · rfl
        exact Lts.enabled_of_isSome _ _ (.wr i) (by simp [lts, step, hin, hrun, hall])

def pendingW (w : WSt) : Bool := w == .absent || w == .run
def sendW (w : WSt) : Bool := w == .send

def mainW (c : Cfg) : MPc → Nat
  | .spawn k => (c.n - k) + c.n + 1
  | .recv j => (c.n - j) + 1
  | .ret => 1
  | .done => 0

/-- every step from a state satisfying the invariant strictly decreases this measure -/
def measure (c : Cfg) (s : State) : Nat :=
  mainW c s.pc + count (fun p => !s.rvDone p) c.pairs.length +
  2 * count (fun i => pendingW (s.st i)) c.n + count (fun i => sendW (s.st i)) c.n

theorem measure_decreases (c : Cfg) (s s' : State) (l : Label) (hi : Inv c s) (hs : step c s l = some s') :
    measure c s' < measure c s := by
  cases l with
  | spawn =>
    simp only [step] at hs
    split at hs
    · next k hpc =>
      split at hs
      · next hk =>
        cases hs
        have habs : s.st k = .absent := ((hi.spawn_inv k hpc).2.1 k).mpr (Nat.le_refl k)
        have h1 := count_upd_lt pendingW s.st k WSt.run c.n hk
        have h2 := count_upd_lt sendW s.st k WSt.run c.n hk
        rw [habs] at h1 h2
        have e1 : pendingW WSt.run = true := rfl
        have e2 : sendW WSt.run = false := rfl
        have e3 : pendingW WSt.absent = true := rfl
        have e4 : sendW WSt.absent = false := rfl
        simp only [e1, e2, e3, e4, if_true, Bool.false_eq_true, if_false] at h1 h2
        simp only [measure, hpc]
        have : mainW c (if k + 1 < c.n then MPc.spawn (k + 1) else MPc.recv 0) < mainW c (MPc.spawn k) := by
          split <;> simp only [mainW] <;> omega
        omega
      · cases hs
    · cases hs
  | rv p =>
    simp only [step] at hs
    split at hs
    · next a b hpr =>
      split at hs
      · next hc =>
        cases hs
        have hp : p < c.pairs.length := by
          cases h : c.pairs[p]? with
          | none => rw [h] at hpr; cases hpr
          | some x => exact (List.getElem?_eq_some_iff.mp h).1
        have h1 := count_upd_lt (fun b => !b) s.rvDone p true c.pairs.length hp
        simp only [hc.1, Bool.not_false, Bool.not_true, if_true, Bool.false_eq_true, if_false] at h1
        simp only [measure]
        omega
      · cases hs
    · cases hs
  | wr i =>
    simp only [step] at hs
    split at hs
    · next hc =>
      cases hs
      have h1 := count_upd_lt pendingW s.st i WSt.send c.n hc.1
      have h2 := count_upd_lt sendW s.st i WSt.send c.n hc.1
      rw [hc.2.1] at h1 h2
      have e1 : pendingW WSt.run = true := rfl
      have e2 : sendW WSt.run = false := rfl
      have e3 : pendingW WSt.send = false := rfl
      have e4 : sendW WSt.send = true := rfl
      simp only [e1, e2, e3, e4, if_true, Bool.false_eq_true, if_false] at h1 h2
      simp only [measure]
      omega
    · cases hs
  | xfer i =>
    simp only [step] at hs
    split at hs
    · next j hpc =>
      split at hs
      · next hc =>
        cases hs
        have hjn := (hi.recv_inv j hpc).1
        have h1 := count_upd_lt pendingW s.st i WSt.fin c.n hc.1
        have h2 := count_upd_lt sendW s.st i WSt.fin c.n hc.1
        rw [hc.2] at h1 h2
        have e1 : pendingW WSt.send = false := rfl
        have e2 : sendW WSt.send = true := rfl
        have e3 : pendingW WSt.fin = false := rfl
        have e4 : sendW WSt.fin = false := rfl
        simp only [e1, e2, e3, e4, if_true, Bool.false_eq_true, if_false] at h1 h2
        simp only [measure, hpc]
        have : mainW c (if j + 1 < c.n then MPc.recv (j + 1) else MPc.ret) ≤ mainW c (MPc.recv j) := by
          split <;> simp only [mainW] <;> omega
        omega
      · cases hs
    · cases hs
  | ret =>
    simp only [step] at hs
    split at hs
    · next hpc =>
      cases hs
      simp only [measure, hpc, mainW]
      omega
    · cases hs

end Goderive.K.Do
