/-
Helper lemmas for property C05, part 6b: the same as `Correct.lean` WITHOUT the hypothesis that the
source is NaN-free, for the bit-level specification `Spec.shapeEq` (Spec/ShapeEq.lean): on supported
types and well-typed arguments the model does not panic, the result is well typed and has the shape
and the bits of the source (`shapeOK`, `clone_goodS`).

The map loop is characterised exactly: when no key of the source is present in the destination
(`absent`), `entries` appends to the destination, in source order, one entry per source entry with the
SAME key and a value of the same shape (`SameKeys`): `mapSet` appends because the keys of a well-typed
map are pairwise not `==` (a NaN key is `==` to nothing, not even to itself).
-/
import GoderiveModel.Lemmas.DeepCopy.Clone
import GoderiveModel.Spec.ShapeEq

namespace Goderive
namespace DeepCopy
open Val

/-! ## Shape of `shapeEq` once the underlying type is known -/

theorem shapeEq_congr {env : Env} {T T' : Ty} (h : env.under T = env.under T') (x y : Val) :
    Spec.shapeEq env T x y = Spec.shapeEq env T' x y := by
  rw [Spec.shapeEq.eq_def, Spec.shapeEq.eq_def, h]

open Spec in
theorem shapeEq_basic {env : Env} {T : Ty} {b : Basic} (hU : env.under T = .basic b) (x y : Val) :
    shapeEq env T x y = leafBits x y := shapeEq.eq_1 env T x y b hU

open Spec in
theorem shapeEq_ptr {env : Env} {T R : Ty} (hU : env.under T = .ptr R) (x y : Val) :
    shapeEq env T x y =
      match x, y with
      | .nilv, .nilv => true
      | .ptr _ a, .ptr _ b => shapeEq env R a b
      | _, _ => false := by
  rw [shapeEq.eq_def, hU]
  cases x <;> cases y <;> rfl

open Spec in
theorem shapeEq_slice {env : Env} {T E : Ty} (hU : env.under T = .slice E) (x y : Val) :
    shapeEq env T x y =
      match x, y with
      | .nilv, .nilv => true
      | .slice _ _ xs, .slice _ _ ys => seqShape env E xs ys
      | _, _ => false := by
  rw [shapeEq.eq_def, hU]
  cases x <;> cases y <;> rfl

open Spec in
theorem shapeEq_array {env : Env} {T E : Ty} {n : Nat} (hU : env.under T = .array n E) (x y : Val) :
    shapeEq env T x y =
      match x, y with
      | .arr xs, .arr ys => seqShape env E xs ys
      | _, _ => false := by
  rw [shapeEq.eq_def, hU]
  cases x <;> cases y <;> rfl

open Spec in
theorem shapeEq_struct {env : Env} {T fs : Ty} (hU : env.under T = .struct fs) (x y : Val) :
    shapeEq env T x y =
      match x, y with
      | .struct xs, .struct ys => fieldsShape env fs xs ys
      | _, _ => false := by
  rw [shapeEq.eq_def, hU]
  cases x <;> cases y <;> rfl

open Spec in
theorem shapeEq_map {env : Env} {T K V : Ty} (hU : env.under T = .map K V) (x y : Val) :
    shapeEq env T x y =
      match x, y with
      | .nilv, .nilv => true
      | .map _ xs, .map _ ys => entriesMatch env K V xs ys
      | _, _ => false := by
  rw [shapeEq.eq_def, hU]
  cases x <;> cases y <;> rfl

/-! ## Reflexivity on `canCopy` types: no hypothesis on NaN -/

theorem leafBits_refl {b : Basic} {x : Val} (hx : basicHasType b x = true) : leafBits x x = true := by
  cases x <;> (try (cases b <;> simp [basicHasType] at hx; done)) <;> simp [leafBits]

structure ReflS (env : Env) (x : Val) : Prop where
  val : ∀ T, canEqual env T = true → hasType env T x = true → Spec.shapeEq env T x x = true
  seq : ∀ E, canEqual env E = true → allHaveType env E x = true → Spec.seqShape env E x x = true
  flds : ∀ fs, canEqual env fs = true → fieldsHaveType env fs x = true →
    Spec.fieldsShape env fs x x = true

theorem reflS {env : Env} (hf : env.flagsOk = true) (x : Val) : ReflS env x := by
  induction x using valInduction with
  | step x ih =>
  refine ⟨?_, ?_, ?_⟩
  · intro T hc hx
    have hcU := canEqual_under hf hc
    have hnn := env_under_not_named hf T
    cases hU : env.under T with
    | basic b =>
      rw [shapeEq_basic hU]; exact leafBits_refl (by rwa [hasType_basic hU] at hx)
    | array n E =>
      rw [shapeEq_array hU]
      obtain ⟨xs, rfl, -, hxs⟩ := hasType_array_inv hU hx
      rw [hU] at hcU
      exact (ih xs (by simp <;> omega)).seq E hcU hxs
    | struct fs =>
      rw [shapeEq_struct hU]
      obtain ⟨xs, rfl, hxs⟩ := hasType_struct_inv hU hx
      rw [hU] at hcU
      exact (ih xs (by simp <;> omega)).flds fs hcU hxs
    | named i => rw [hU] at hnn; simp [Ty.isNamed] at hnn
    | fnil => rw [hasType_bad (by rw [hU])] at hx; cases hx
    | fcons _ _ => rw [hasType_bad (by rw [hU])] at hx; cases hx
    | _ => rw [hU] at hcU; simp [canEqual] at hcU
  · intro E hc hx
    rcases allHaveType_inv hx with rfl | ⟨a, r, rfl, ha, hr⟩
    · rw [Spec.seqShape]
    · rw [Spec.seqShape, (ih a (by simp <;> omega)).val E hc ha,
        (ih r (by simp <;> omega)).seq E hc hr]
      rfl
  · intro fs hc hx
    rcases fieldsHaveType_inv hx with ⟨rfl, rfl⟩ | ⟨F, rest, a, r, rfl, rfl, ha, hr⟩
    · rw [Spec.fieldsShape]
    · simp only [canEqual, Bool.and_eq_true] at hc
      rw [Spec.fieldsShape, (ih a (by simp <;> omega)).val F hc.1 ha,
        (ih r (by simp <;> omega)).flds rest hc.2 hr]
      rfl

theorem shapeEq_refl_canCopy {env : Env} (hf : env.flagsOk = true) {T : Ty} {x : Val}
    (hc : canCopy env T = true) (hx : hasType env T x = true) :
    Spec.shapeEq env T x x = true := (reflS hf x).val T hc hx

theorem seqShape_refl_canCopy {env : Env} (hf : env.flagsOk = true) {E : Ty} {xs : Val}
    (hc : canCopy env E = true) (hx : allHaveType env E xs = true) :
    Spec.seqShape env E xs xs = true := (reflS hf xs).seq E hc hx

theorem seqShape_slen {env : Env} {E : Ty} :
    ∀ xs ys : Val, Spec.seqShape env E xs ys = true → xs.slen = ys.slen := by
  intro xs
  induction xs using valInduction with
  | step xs ih =>
  intro ys h
  rw [Spec.seqShape.eq_def] at h
  cases xs with
  | snil => cases ys <;> first | rfl | simp at h
  | scons a r =>
    cases ys with
    | scons b s =>
      simp only [Bool.and_eq_true] at h
      simp only [slen, ih r (by simp <;> omega) s h.2]
    | _ => simp at h
  | _ => simp at h

/-! ## Spines of entries -/

theorem sappend_assoc : ∀ x y z : Val, sappend (sappend x y) z = sappend x (sappend y z) := by
  intro x
  induction x using valInduction with
  | step x ih =>
  intro y z
  cases x with
  | scons h t => simp only [sappend]; rw [ih t (by simp <;> omega)]
  | _ => simp only [sappend]

theorem sappend_snil_of_entries {env : Env} {K V : Ty} :
    ∀ ds : Val, entriesHaveType env K V ds = true → sappend ds .snil = ds := by
  intro ds
  induction ds using valInduction with
  | step ds ih =>
  intro hds
  rcases entriesHaveType_inv hds with rfl | ⟨k, w, r, rfl, -, -, hr⟩
  · rfl
  · simp only [sappend]; rw [ih r (by simp <;> omega) hr]

/-- `dst[k] = v` for a key that `==` does not find in `dst` appends the entry -/
theorem mapSet_absent {env : Env} {K V : Ty} {k v : Val} :
    ∀ ds : Val, entriesHaveType env K V ds = true → mapLookup k ds = none →
      mapSet k v ds = sappend ds (.scons (.pair k v) .snil) := by
  intro ds
  induction ds using valInduction with
  | step ds ih =>
  intro hds hl
  rcases entriesHaveType_inv hds with rfl | ⟨k', w, r, rfl, -, -, hr⟩
  · rfl
  · simp only [mapLookup] at hl
    split at hl
    · cases hl
    · rename_i hg
      simp only [mapSet, hg, Bool.false_eq_true, if_false, sappend]
      rw [ih r (by simp <;> omega) hr hl]

/-- `es` has, entry by entry, the key of `ss` and a well-typed value of the same shape -/
inductive SameKeys (env : Env) (V : Ty) : Val → Val → Prop
  | nil : SameKeys env V .snil .snil
  | cons {k v w r s : Val} : hasType env V w = true → Spec.shapeEq env V v w = true →
      SameKeys env V r s → SameKeys env V (.scons (.pair k v) r) (.scons (.pair k w) s)

theorem SameKeys.typed {env : Env} {K V : Ty} {ss es : Val} (h : SameKeys env V ss es) :
    entriesHaveType env K V ss = true → entriesHaveType env K V es = true := by
  induction h with
  | nil => intro h; exact h
  | cons tw _ _ ih =>
    intro hs
    rw [entriesHaveType] at hs
    simp only [Bool.and_eq_true] at hs
    rw [entriesHaveType, hs.1.1, tw, ih hs.2]; rfl

theorem SameKeys.keyFresh {env : Env} {V : Ty} {ss es : Val} (h : SameKeys env V ss es) (q : Val) :
    keyFresh q es = keyFresh q ss := by
  induction h with
  | nil => rfl
  | cons _ _ _ ih => simp only [Goderive.keyFresh, ih]

theorem SameKeys.distinct {env : Env} {V : Ty} {ss es : Val} (h : SameKeys env V ss es) :
    keysDistinct es = keysDistinct ss := by
  induction h with
  | nil => rfl
  | cons _ _ sk ih => simp only [keysDistinct, ih, sk.keyFresh]

theorem SameKeys.slen {env : Env} {V : Ty} {ss es : Val} (h : SameKeys env V ss es) :
    es.slen = ss.slen := by
  induction h with
  | nil => rfl
  | cons _ _ _ ih => simp only [Val.slen, ih]

/-- positional agreement is a matching: every entry takes the first one left -/
theorem SameKeys.matches {env : Env} (hf : env.flagsOk = true) {K V : Ty} {ss es : Val}
    (h : SameKeys env V ss es) (hK : canEqual env K = true) :
    entriesHaveType env K V ss = true → Spec.entriesMatch env K V ss es = true := by
  induction h with
  | nil => intro _; rw [Spec.entriesMatch]
  | @cons k v w r s tw e _ ih =>
    intro hs
    rw [entriesHaveType] at hs
    simp only [Bool.and_eq_true] at hs
    have hkk := shapeEq_refl_canCopy hf hK hs.1.1
    rw [Spec.entriesMatch, Spec.takeEntry]
    simp only [hkk, e, Bool.and_self, if_true]
    exact ih hs.2

/-! ## Postconditions -/

def GoodS (env : Env) (T : Ty) (src : Val) (r : Res (Val × St)) : Prop :=
  ∃ d' n', r = .ok (d', n') ∧ hasType env T d' = true ∧ Spec.shapeEq env T src d' = true

def GoodSeqS (env : Env) (E : Ty) (ss : Val) (r : Res (Val × St)) : Prop :=
  ∃ ds' n', r = .ok (ds', n') ∧ allHaveType env E ds' = true ∧ Spec.seqShape env E ss ds' = true

def GoodFieldsS (env : Env) (fs : Ty) (ss : Val) (r : Res (Val × St)) : Prop :=
  ∃ ds' n', r = .ok (ds', n') ∧ fieldsHaveType env fs ds' = true ∧
    Spec.fieldsShape env fs ss ds' = true

/-- the loop over the entries appended, in source order, the source's keys with copies of the values -/
def GoodEntriesS (env : Env) (V : Ty) (ss ds : Val) (r : Res (Val × St)) : Prop :=
  ∃ es n', r = .ok (sappend ds es, n') ∧ SameKeys env V ss es

theorem GoodS.congr {env : Env} {T T' : Ty} (h : env.under T = env.under T') {src : Val}
    {r : Res (Val × St)} (g : GoodS env T src r) : GoodS env T' src r := by
  obtain ⟨d', n', hr, ht, he⟩ := g
  exact ⟨d', n', hr, by rw [← hasType_congr h]; exact ht, by rw [← shapeEq_congr h]; exact he⟩

structure ShapeOK (env : Env) (x : Val) : Prop where
  field : ∀ F prior n, okComp env F = true → hasType env F x = true → hasType env F prior = true →
    GoodS env F x (field env F x prior n)
  top : ∀ T dst n, okTop env T = true → hasType env T x = true → hasType env T dst = true →
    topPre env T x dst = true → GoodS env T x (top env T x dst n)
  fields : ∀ fs ds n, okComp env fs = true → fieldsHaveType env fs x = true →
    fieldsHaveType env fs ds = true → GoodFieldsS env fs x (fields env fs x ds n)
  elems : ∀ E ds n, okComp env E = true → allHaveType env E x = true → allHaveType env E ds = true →
    x.slen = ds.slen → GoodSeqS env E x (elems env E x ds n)
  entries : ∀ K V ds n, canEqual env K = true → okComp env V = true → zok env V = true →
    entriesHaveType env K V x = true → keysDistinct x = true → entriesHaveType env K V ds = true →
    absent x ds = true → GoodEntriesS env V x ds (entries env V x ds n)

variable {env : Env}

theorem shapeOK_step_fields (x : Val) (ih : ∀ z, sizeOf z < sizeOf x → ShapeOK env z) :
    ∀ fs ds n, okComp env fs = true → fieldsHaveType env fs x = true →
      fieldsHaveType env fs ds = true → GoodFieldsS env fs x (fields env fs x ds n) := by
  intro fs ds n hok hx hd
  rcases fieldsHaveType_inv hx with ⟨rfl, rfl⟩ | ⟨F, rest, a, r, rfl, rfl, ha, hr⟩
  · rcases fieldsHaveType_inv hd with ⟨-, rfl⟩ | ⟨_, _, _, _, h, _⟩
    · exact ⟨.snil, n, by rw [fields], hx, by rw [Spec.fieldsShape]⟩
    · cases h
  · rcases fieldsHaveType_inv hd with ⟨h, -⟩ | ⟨F', rest', d, ds2, h, rfl, hd1, hd2⟩
    · cases h
    · cases h
      simp only [okComp, Bool.and_eq_true] at hok
      obtain ⟨d1, n1, h1, t1, e1⟩ := (ih a (by simp <;> omega)).field F d n hok.1 ha hd1
      obtain ⟨r2, n2, h2, t2, e2⟩ := (ih r (by simp <;> omega)).fields rest ds2 n1 hok.2 hr hd2
      refine ⟨.scons d1 r2, n2, ?_, ?_, ?_⟩
      · rw [fields, h1]; simp only [Res.bind_ok]; rw [h2]; rfl
      · rw [fieldsHaveType, t1, t2]; rfl
      · rw [Spec.fieldsShape, e1, e2]; rfl

theorem shapeOK_step_elems (x : Val) (ih : ∀ z, sizeOf z < sizeOf x → ShapeOK env z) :
    ∀ E ds n, okComp env E = true → allHaveType env E x = true → allHaveType env E ds = true →
      x.slen = ds.slen → GoodSeqS env E x (elems env E x ds n) := by
  intro E ds n hok hx hd hl
  rcases allHaveType_inv hx with rfl | ⟨a, r, rfl, ha, hr⟩
  · rcases allHaveType_inv hd with rfl | ⟨_, _, rfl, _, _⟩
    · exact ⟨.snil, n, by rw [elems], hx, by rw [Spec.seqShape]⟩
    · simp [slen] at hl
  · rcases allHaveType_inv hd with rfl | ⟨d, ds2, rfl, hd1, hd2⟩
    · simp [slen] at hl
    · simp only [slen] at hl
      obtain ⟨d1, n1, h1, t1, e1⟩ := (ih a (by simp <;> omega)).field E d n hok ha hd1
      obtain ⟨r2, n2, h2, t2, e2⟩ :=
        (ih r (by simp <;> omega)).elems E ds2 n1 hok hr hd2 (by omega)
      refine ⟨.scons d1 r2, n2, ?_, ?_, ?_⟩
      · rw [elems, h1]; simp only [Res.bind_ok]; rw [h2]; rfl
      · rw [allHaveType, t1, t2]; rfl
      · rw [Spec.seqShape, e1, e2]; rfl

theorem shapeOK_step_entries (hf : env.flagsOk = true) (x : Val)
    (ih : ∀ z, sizeOf z < sizeOf x → ShapeOK env z) :
    ∀ K V ds n, canEqual env K = true → okComp env V = true → zok env V = true →
      entriesHaveType env K V x = true → keysDistinct x = true → entriesHaveType env K V ds = true →
      absent x ds = true → GoodEntriesS env V x ds (entries env V x ds n) := by
  intro K V ds n hK hok hz hx hdx hds hab
  rcases entriesHaveType_inv hx with rfl | ⟨k, v, r, rfl, hk, hv, hr⟩
  · exact ⟨.snil, n, by rw [entries, sappend_snil_of_entries ds hds], .nil⟩
  · simp only [keysDistinct, Bool.and_eq_true] at hdx
    simp only [absent, Bool.and_eq_true, Option.isNone_iff_eq_none] at hab
    have hprior : hasType env V (zeroVal env (zfuel env) V) = true := hz
    obtain ⟨v1, n1, h1, t1, e1⟩ := (ih v (by simp <;> omega)).field V _ n hok hv hprior
    have hds1 := entriesHaveType_mapSet hk t1 ds hds
    have hab1 : absent r (mapSet k v1 ds) = true := absent_mapSet hf hK hk hds r hr hdx.1 hab.2
    obtain ⟨es2, n', h2, sk⟩ :=
      (ih r (by simp <;> omega)).entries K V (mapSet k v1 ds) n1 hK hok hz hr hdx.2 hds1 hab1
    refine ⟨.scons (.pair k v1) es2, n', ?_, .cons t1 e1 sk⟩
    rw [entries, h1]; simp only [Res.bind_ok]
    rw [h2, mapSet_absent ds hds hab.1, sappend_assoc]
    simp only [sappend]

theorem shapeOK_step_top (hf : env.flagsOk = true) (he : envOk env = true) (x : Val)
    (ih : ∀ z, sizeOf z < sizeOf x → ShapeOK env z) :
    ∀ T dst n, okTop env T = true → hasType env T x = true → hasType env T dst = true →
      topPre env T x dst = true → GoodS env T x (top env T x dst n) := by
  intro T dst n hok hx hd hpre
  simp only [okTop, Bool.and_eq_true] at hok
  obtain ⟨hokT, hform⟩ := hok
  cases hU : env.under T with
  | ptr R =>
    rw [hU] at hform
    have hns : isStructTy R = false := by simpa using hform
    have hokP := okComp_under he hokT hU rfl
    simp only [okComp, Bool.and_eq_true] at hokP
    obtain ⟨⟨-, hokR⟩, hzR⟩ := hokP
    unfold topPre at hpre
    rw [hU] at hpre
    rcases hasType_ptr_inv hU hx with rfl | ⟨a, v, rfl, hv⟩
    · rcases hasType_ptr_inv hU hd with rfl | ⟨da, d, rfl, hdv⟩ <;> simp at hpre
    rcases hasType_ptr_inv hU hd with rfl | ⟨da, d, rfl, hdv⟩
    · simp at hpre
    rw [top_ptr hU]
    simp only
    split
    · rename_i fs hR
      obtain ⟨hnamed, hokfs⟩ := okComp_named_struct he hR hns hokR
      obtain ⟨ss, rfl, hss⟩ := hasType_struct_inv hR hv
      obtain ⟨ds, rfl, hdss⟩ := hasType_struct_inv hR hdv
      simp only [hnamed, if_true]
      split
      · rename_i hfs
        subst hfs
        refine ⟨_, n, rfl, hd, ?_⟩
        rw [shapeEq_ptr hU]; simp only
        rw [shapeEq_struct hR]; simp only
        rcases fieldsHaveType_inv hss with ⟨-, rfl⟩ | ⟨_, _, _, _, h, _⟩
        · rcases fieldsHaveType_inv hdss with ⟨-, rfl⟩ | ⟨_, _, _, _, h, _⟩
          · rw [Spec.fieldsShape]
          · cases h
        · cases h
      · obtain ⟨ds1, n1, h1, t1, e1⟩ :=
          (ih ss (by simp <;> omega)).fields fs ds n hokfs hss hdss
        refine ⟨.ptr da (.struct ds1), n1, by rw [h1]; rfl, ?_, ?_⟩
        · exact hasType_ptr_intro hU da (hasType_struct_intro hR t1)
        · rw [shapeEq_ptr hU]; simp only
          rw [shapeEq_struct hR]; exact e1
    · obtain ⟨d1, n1, h1, t1, e1⟩ := (ih v (by simp <;> omega)).field R d n hokR hv hdv
      refine ⟨.ptr da d1, n1, by rw [h1]; rfl, hasType_ptr_intro hU da t1, ?_⟩
      rw [shapeEq_ptr hU]; exact e1
  | slice E =>
    have hokS := okComp_under he hokT hU rfl
    simp only [okComp, Bool.and_eq_true] at hokS
    unfold topPre at hpre
    rw [hU] at hpre
    rw [top_slice hU]
    rcases hasType_slice_inv hU hx with rfl | ⟨a, sp, xs, rfl, hxs⟩
    · rcases hasType_slice_inv hU hd with rfl | ⟨da, dsp, ds, rfl, hds⟩
      · exact ⟨.nilv, n, rfl, hd, by rw [shapeEq_slice hU]⟩
      · simp at hpre
    · rcases hasType_slice_inv hU hd with rfl | ⟨da, dsp, ds, rfl, hds⟩
      · simp at hpre
      · have hl : xs.slen = ds.slen := by simpa using hpre
        simp only
        split
        · rename_i hc
          rw [copy_same_len xs ds hxs hds hl]
          refine ⟨_, n, rfl, hasType_slice_intro hU da dsp hxs, ?_⟩
          rw [shapeEq_slice hU]; exact seqShape_refl_canCopy hf hc hxs
        · obtain ⟨ds1, n1, h1, t1, e1⟩ :=
            (ih xs (by simp <;> omega)).elems E ds n hokS.1 hxs hds hl
          refine ⟨.slice da dsp ds1, n1, by rw [h1]; rfl, hasType_slice_intro hU da dsp t1, ?_⟩
          rw [shapeEq_slice hU]; exact e1
  | map K V =>
    have hokM := okComp_under he hokT hU rfl
    simp only [okComp, Bool.and_eq_true] at hokM
    obtain ⟨⟨hK, hokV⟩, hzV⟩ := hokM
    unfold topPre at hpre
    rw [hU] at hpre
    rw [top_map hU]
    rcases hasType_map_inv hU hx with rfl | ⟨a, xs, rfl, -, hxs, hdx⟩
    · rcases hasType_map_inv hU hd with rfl | ⟨da, ds, rfl, -, hds, hdd⟩
      · exact ⟨.nilv, n, rfl, hd, by rw [shapeEq_map hU]⟩
      · simp at hpre
    · rcases hasType_map_inv hU hd with rfl | ⟨da, ds, rfl, -, hds, hdd⟩
      · simp at hpre
      · have hds0 : ds = .snil := by cases ds <;> first | rfl | simp at hpre
        subst hds0
        obtain ⟨es, n1, h1, sk⟩ :=
          (ih xs (by simp <;> omega)).entries K V .snil n hK hokV hzV hxs hdx hds (absent_snil xs)
        simp only [sappend] at h1
        refine ⟨.map da es, n1, by simp only; rw [h1]; rfl,
          hasType_map_intro hU da hK (sk.typed hxs) (by rw [sk.distinct]; exact hdx), ?_⟩
        rw [shapeEq_map hU]; exact sk.matches hf hK hxs
  | _ => rw [hU] at hform; simp at hform

theorem shapeOK_step_field (hf : env.flagsOk = true) (he : envOk env = true) (x : Val)
    (ih : ∀ z, sizeOf z < sizeOf x → ShapeOK env z)
    (htop : ∀ T dst n, okTop env T = true → hasType env T x = true → hasType env T dst = true →
      topPre env T x dst = true → GoodS env T x (top env T x dst n)) :
    ∀ F prior n, okComp env F = true → hasType env F x = true → hasType env F prior = true →
      GoodS env F x (field env F x prior n) := by
  intro F prior n hok hx hp
  cases hc : canCopy env F with
  | true =>
    exact ⟨x, n, field_canCopy hc x prior n, hx, shapeEq_refl_canCopy hf hc hx⟩
  | false =>
    cases hU : env.under F with
    | ptr R =>
      have hokP := okComp_under he hok hU rfl
      simp only [okComp, Bool.and_eq_true, Bool.or_eq_true, Bool.not_eq_true'] at hokP
      obtain ⟨⟨hs, hokR⟩, hzR⟩ := hokP
      rw [field_ptr hc hU]
      rcases hasType_ptr_inv hU hx with rfl | ⟨a, v, rfl, hv⟩
      · exact ⟨.nilv, n, rfl, hx, by rw [shapeEq_ptr hU]⟩
      · simp only
        split
        · rename_i hcR
          refine ⟨_, _, rfl, hasType_ptr_intro hU n hv, ?_⟩
          rw [shapeEq_ptr hU]; exact shapeEq_refl_canCopy hf hcR hv
        · rename_i hcR
          have hns : isStructTy R = false := by
            rcases hs with h | h
            · exact h
            · exact absurd h hcR
          have hUP : env.under (.ptr R) = env.under F := by rw [hU]; rfl
          refine GoodS.congr hUP (htop (.ptr R) _ (n + 1) ?_ ?_ ?_ ?_)
          · simp [okTop, okComp, Env.under, hokR, hzR, hns]
          · rw [hasType_congr hUP]; exact hx
          · exact hasType_ptr_intro (T := .ptr R) rfl n hzR
          · simp [topPre, Env.under]
    | array k E =>
      have hokE : okComp env E = true := by
        have := okComp_under he hok hU rfl
        simpa only [okComp] using this
      rw [field_array hc hU]
      obtain ⟨xs, rfl, hxl, hxs⟩ := hasType_array_inv hU hx
      obtain ⟨ds, rfl, hdl, hds⟩ := hasType_array_inv hU hp
      obtain ⟨ds1, n1, h1, t1, e1⟩ := (ih xs (by simp <;> omega)).elems E ds n hokE hxs hds
        (by omega)
      refine ⟨.arr ds1, n1, by simp only; rw [h1]; rfl, ?_, ?_⟩
      · exact hasType_array_intro hU (by rw [← seqShape_slen _ _ e1]; exact hxl) t1
      · rw [shapeEq_array hU]; exact e1
    | slice E =>
      have hokS := okComp_under he hok hU rfl
      simp only [okComp, Bool.and_eq_true] at hokS
      obtain ⟨hokE, hzE⟩ := hokS
      rcases hasType_slice_inv hU hx with rfl | ⟨a, sp, xs, rfl, hxs⟩
      · exact ⟨.nilv, n, field_slice_nil hc hU prior n, hx, by rw [shapeEq_slice hU]⟩
      · rw [field_slice hc hU]
        obtain ⟨ba, bsp, bs, hbase, hbs, hbl⟩ :=
          sliceBase_typed (env := env) hzE xs.slen (hasType_slice_inv hU hp) n
        rw [hbase]
        split
        · rename_i hcE
          refine ⟨_, _, rfl, hasType_slice_intro hU ba bsp hxs, ?_⟩
          rw [shapeEq_slice hU]; exact seqShape_refl_canCopy hf hcE hxs
        · have hUS : env.under (.slice E) = env.under F := by rw [hU]; rfl
          refine GoodS.congr hUS (htop (.slice E) _ _ ?_ ?_ ?_ ?_)
          · simp only [okTop, okComp, Env.under, hokE, hzE, Bool.and_self]
          · rw [hasType_congr hUS]; exact hx
          · exact hasType_slice_intro (T := .slice E) rfl ba bsp hbs
          · simp only [topPre, Env.under, hbl, beq_self_eq_true]
    | map K V =>
      have hokM := okComp_under he hok hU rfl
      simp only [okComp, Bool.and_eq_true] at hokM
      obtain ⟨⟨hK, hokV⟩, hzV⟩ := hokM
      rw [field_map hc hU]
      rcases hasType_map_inv hU hx with rfl | ⟨a, xs, rfl, -, hxs, hdx⟩
      · exact ⟨.nilv, n, rfl, hx, by rw [shapeEq_map hU]⟩
      · have hUM : env.under (.map K V) = env.under F := by rw [hU]; rfl
        simp only
        refine GoodS.congr hUM (htop (.map K V) _ (n + 1) ?_ ?_ ?_ ?_)
        · simp only [okTop, okComp, Env.under, hK, hokV, hzV, Bool.and_self]
        · rw [hasType_congr hUM]; exact hx
        · exact hasType_map_intro (T := .map K V) rfl n hK (by rw [entriesHaveType]) rfl
        · simp [topPre, Env.under]
    | struct fs =>
      obtain ⟨hnamed, hokfs, hzfs⟩ := okComp_struct he hok hU hc
      rw [field_struct hc hU]
      obtain ⟨ss, rfl, hss⟩ := hasType_struct_inv hU hx
      simp only [hnamed, if_true]
      obtain ⟨ds1, n1, h1, t1, e1⟩ := (ih ss (by simp <;> omega)).fields fs _ (n + 1) hokfs hss hzfs
      refine ⟨.struct ds1, n1, by rw [h1]; rfl, hasType_struct_intro hU t1, ?_⟩
      rw [shapeEq_struct hU]; exact e1
    | basic b =>
      have := canEqual_eq_under hf (T := F) (by rw [hU]; simp)
      rw [hU] at this
      rw [show canCopy env F = canEqual env F from rfl, this] at hc
      simp [canEqual] at hc
    | _ => rw [hasType_bad (by rw [hU])] at hx; cases hx

theorem shapeOK (hf : env.flagsOk = true) (he : envOk env = true) (x : Val) : ShapeOK env x := by
  induction x using valInduction with
  | step x ih =>
    have htop := shapeOK_step_top hf he x ih
    exact ⟨shapeOK_step_field hf he x ih htop, htop, shapeOK_step_fields x ih,
      shapeOK_step_elems x ih, shapeOK_step_entries hf x ih⟩

/-- `deriveClone` does not panic and returns a well-typed value of the shape and bits of the source -/
theorem clone_goodS (hf : env.flagsOk = true) (he : envOk env = true) {T : Ty} {src : Val} (n : St)
    (hok : okClone env T = true) (hx : hasType env T src = true) :
    GoodS env T src (clone env T src n) := by
  simp only [okClone, Bool.and_eq_true] at hok
  obtain ⟨⟨hokT, hzT⟩, hform⟩ := hok
  unfold clone
  cases hU : env.under T with
  | ptr R =>
    rw [hU] at hform
    have hns : isStructTy R = false := by simpa using hform
    have hokP := okComp_under he hokT hU rfl
    simp only [okComp, Bool.and_eq_true] at hokP
    simp only
    rcases hasType_ptr_inv hU hx with rfl | ⟨a, v, rfl, hv⟩
    · exact ⟨.nilv, n, rfl, hx, by rw [shapeEq_ptr hU]⟩
    · refine (shapeOK hf he _).top T _ (n + 1) ?_ hx (hasType_ptr_intro hU n hokP.2) ?_
      · simp only [okTop, hokT, hU, hns, Bool.not_false, Bool.and_self]
      · simp only [topPre, hU]
  | slice E =>
    have hokS := okComp_under he hokT hU rfl
    simp only [okComp, Bool.and_eq_true] at hokS
    simp only
    rcases hasType_slice_inv hU hx with rfl | ⟨a, sp, xs, rfl, hxs⟩
    · exact ⟨.nilv, n, rfl, hx, by rw [shapeEq_slice hU]⟩
    · refine (shapeOK hf he _).top T _ (n + 1) ?_ hx
        (hasType_slice_intro hU n 0 (allHaveType_sreplicate hokS.2 _)) ?_
      · simp only [okTop, hokT, hU, Bool.and_self]
      · simp only [topPre, hU, slen_sreplicate, beq_self_eq_true]
  | map K V =>
    have hokM := okComp_under he hokT hU rfl
    simp only [okComp, Bool.and_eq_true] at hokM
    simp only
    rcases hasType_map_inv hU hx with rfl | ⟨a, xs, rfl, -, hxs, -⟩
    · exact ⟨.nilv, n, rfl, hx, by rw [shapeEq_map hU]⟩
    · refine (shapeOK hf he _).top T _ (n + 1) ?_ hx
        (hasType_map_intro hU n hokM.1.1 (by rw [entriesHaveType]) rfl) ?_
      · simp only [okTop, hokT, hU, Bool.and_self]
      · simp only [topPre, hU]
  | _ =>
    simp only
    split
    · rename_i hc
      exact ⟨src, n + 1, rfl, hx, shapeEq_refl_canCopy hf hc hx⟩
    · exact (shapeOK hf he _).field T _ (n + 1) hokT hx hzT

/-! ## On NaN-free values the bit-level equality implies Go's (no typing needed) -/

theorem leafBits_leafEq {x y : Val} (hn : nanFree x = true) (h : leafBits x y = true) :
    leafEq x y = true := by
  cases x <;> cases y <;> (try (simp [leafBits] at h; done)) <;>
    simp only [leafBits, Bool.and_eq_true, beq_iff_eq] at h <;>
    simp only [nanFree, Bool.and_eq_true, Bool.not_eq_true'] at hn <;> simp only [leafEq]
  · subst h; exact beq_self_eq_true _
  · subst h; exact beq_self_eq_true _
  · obtain ⟨rfl, rfl⟩ := h; exact fltEq_refl _ _ hn
  · obtain ⟨⟨rfl, rfl⟩, rfl⟩ := h
    rw [fltEq_refl _ _ hn.1, fltEq_refl _ _ hn.2]; rfl
  · subst h; exact beq_self_eq_true _

/-- removing an entry keeps every other entry findable -/
theorem takeEntry_spec {env : Env} {K V : Ty} {k v : Val}
    (hk : ∀ k', Spec.shapeEq env K k k' = true → Spec.structEq env K k k' = true)
    (hv : ∀ w, Spec.shapeEq env V v w = true → Spec.structEq env V v w = true) :
    ∀ ys ys' : Val, Spec.takeEntry env K V k v ys = some ys' →
      ys.slen = ys'.slen + 1 ∧ Spec.valueAt env K V k v ys = true ∧
      (∀ k2 v2, Spec.valueAt env K V k2 v2 ys' = true → Spec.valueAt env K V k2 v2 ys = true) := by
  intro ys
  induction ys using valInduction with
  | step ys ih =>
  intro ys' h
  cases ys with
  | scons hd tl =>
    cases hd with
    | pair k' w =>
      rw [Spec.takeEntry] at h
      split at h
      · rename_i hm
        simp only [Bool.and_eq_true] at hm
        cases h
        refine ⟨rfl, ?_, ?_⟩
        · rw [Spec.valueAt.eq_1, hk k' hm.1, hv w hm.2]; rfl
        · intro k2 v2 h2
          rw [Spec.valueAt.eq_1, h2]; simp
      · cases ht : Spec.takeEntry env K V k v tl with
        | none => rw [ht] at h; cases h
        | some s' =>
          rw [ht] at h; cases h
          obtain ⟨l, a, m⟩ := ih tl (by simp <;> omega) s' ht
          refine ⟨by simp only [slen, l], ?_, ?_⟩
          · rw [Spec.valueAt.eq_1, a]; simp
          · intro k2 v2 h2
            rw [Spec.valueAt.eq_1] at h2 ⊢
            simp only [Bool.or_eq_true] at h2 ⊢
            rcases h2 with h2 | h2
            · exact Or.inl h2
            · exact Or.inr (m k2 v2 h2)
    | _ => simp [Spec.takeEntry] at h
  | _ => simp [Spec.takeEntry] at h

theorem entriesIn_mono {env : Env} {K V : Ty} {ys ys' : Val}
    (m : ∀ k2 v2, Spec.valueAt env K V k2 v2 ys' = true → Spec.valueAt env K V k2 v2 ys = true) :
    ∀ r : Val, Spec.entriesIn env K V r ys' = true → Spec.entriesIn env K V r ys = true := by
  intro r
  induction r using valInduction with
  | step r ih =>
  intro h
  cases r with
  | scons hd tl =>
    cases hd with
    | pair k v =>
      rw [Spec.entriesIn] at h ⊢
      simp only [Bool.and_eq_true] at h ⊢
      exact ⟨m k v h.1, ih tl (by simp <;> omega) h.2⟩
    | _ => simp [Spec.entriesIn] at h
  | snil => rw [Spec.entriesIn]
  | _ => simp [Spec.entriesIn] at h

structure ShapeStruct (env : Env) (x : Val) : Prop where
  val : ∀ T y, nanFree x = true → Spec.shapeEq env T x y = true → Spec.structEq env T x y = true
  seq : ∀ E ys, nanFree x = true → Spec.seqShape env E x ys = true → Spec.seqEq env E x ys = true
  flds : ∀ fs ys, nanFree x = true → Spec.fieldsShape env fs x ys = true →
    Spec.fieldsEq env fs x ys = true
  ents : ∀ K V ys, nanFree x = true → Spec.entriesMatch env K V x ys = true →
    x.slen = ys.slen ∧ Spec.entriesIn env K V x ys = true

theorem shapeStruct (env : Env) (x : Val) : ShapeStruct env x := by
  induction x using valInduction with
  | step x ih =>
  refine ⟨?_, ?_, ?_, ?_⟩
  · intro T y hn h
    cases hU : env.under T with
    | basic b => rw [shapeEq_basic hU] at h; rw [structEq_basic hU]; exact leafBits_leafEq hn h
    | ptr R =>
      rw [shapeEq_ptr hU] at h; rw [structEq_ptr hU]
      cases x <;> cases y <;> (try (simp at h; done))
      · rfl
      · rename_i a v b w
        exact (ih v (by simp <;> omega)).val R w (by simpa [nanFree] using hn) h
    | slice E =>
      rw [shapeEq_slice hU] at h; rw [structEq_slice hU]
      cases x <;> cases y <;> (try (simp at h; done))
      · rfl
      · rename_i a sp xs b sq ys
        exact (ih xs (by simp <;> omega)).seq E ys (by simpa [nanFree] using hn) h
    | array k E =>
      rw [shapeEq_array hU] at h; rw [structEq_array hU]
      cases x <;> cases y <;> (try (simp at h; done))
      rename_i xs ys
      exact (ih xs (by simp <;> omega)).seq E ys (by simpa [nanFree] using hn) h
    | struct fs =>
      rw [shapeEq_struct hU] at h; rw [structEq_struct hU]
      cases x <;> cases y <;> (try (simp at h; done))
      rename_i xs ys
      exact (ih xs (by simp <;> omega)).flds fs ys (by simpa [nanFree] using hn) h
    | map K V =>
      rw [shapeEq_map hU] at h; rw [structEq_map hU]
      cases x <;> cases y <;> (try (simp at h; done))
      · rfl
      · rename_i a xs b ys
        obtain ⟨l, e⟩ := (ih xs (by simp <;> omega)).ents K V ys (by simpa [nanFree] using hn) h
        simp only [l, e, beq_self_eq_true, Bool.and_self]
    | _ => rw [Spec.shapeEq.eq_def, hU] at h; simp at h
  · intro E ys hn h
    rw [Spec.seqShape.eq_def] at h
    rw [Spec.seqEq.eq_def]
    cases x <;> cases ys <;> (try (simp at h; done))
    · rfl
    · rename_i a r b s
      simp only [Bool.and_eq_true] at h ⊢
      simp only [nanFree, Bool.and_eq_true] at hn
      exact ⟨(ih a (by simp <;> omega)).val E b hn.1 h.1, (ih r (by simp <;> omega)).seq E s hn.2 h.2⟩
  · intro fs ys hn h
    rw [Spec.fieldsShape.eq_def] at h
    rw [Spec.fieldsEq.eq_def]
    cases fs <;> cases x <;> cases ys <;> (try (simp at h; done))
    · rfl
    · rename_i F rest a r b s
      simp only [Bool.and_eq_true] at h ⊢
      simp only [nanFree, Bool.and_eq_true] at hn
      exact ⟨(ih a (by simp <;> omega)).val F b hn.1 h.1,
        (ih r (by simp <;> omega)).flds rest s hn.2 h.2⟩
  · intro K V ys hn h
    cases x with
    | snil =>
      rw [Spec.entriesMatch.eq_def] at h
      cases ys <;> (try (simp at h; done))
      exact ⟨rfl, by rw [Spec.entriesIn]⟩
    | scons hd r =>
      cases hd with
      | pair k v =>
        rw [Spec.entriesMatch] at h
        simp only [nanFree, Bool.and_eq_true] at hn
        cases ht : Spec.takeEntry env K V k v ys with
        | none => rw [ht] at h; simp at h
        | some ys' =>
          rw [ht] at h
          simp only at h
          obtain ⟨l, a, m⟩ := takeEntry_spec
            (fun k' hh => (ih k (by simp <;> omega)).val K k' hn.1.1 hh)
            (fun w hh => (ih v (by simp <;> omega)).val V w hn.1.2 hh) ys ys' ht
          obtain ⟨l2, e2⟩ := (ih r (by simp <;> omega)).ents K V ys' hn.2 h
          refine ⟨by simp only [slen, l, l2], ?_⟩
          rw [Spec.entriesIn, a, entriesIn_mono m r e2]; rfl
      | _ => simp [Spec.entriesMatch] at h
    | _ => simp [Spec.entriesMatch] at h

/-- **bit-identical shape implies structural equality in Go's sense when the left value holds no NaN** -/
theorem shapeEq_structEq (env : Env) (T : Ty) (x y : Val) (hn : nanFree x = true)
    (h : Spec.shapeEq env T x y = true) : Spec.structEq env T x y = true :=
  (shapeStruct env x).val T y hn h

end DeepCopy
end Goderive
