/-
Helper lemmas for property C05 (DeepCopy / Clone), part 1: generic facts.

The typing-inversion, `structEq`-shape and `goEq` lemmas are local copies (namespace
`Goderive.DeepCopy`) of the ones used for C02, so that this development does not depend on files
owned by other properties.
-/
import GoderiveModel.U.Ty
import GoderiveModel.U.Val
import GoderiveModel.U.Float
import GoderiveModel.U.Typing
import GoderiveModel.S.Equal
import GoderiveModel.S.DeepCopy
import GoderiveModel.Spec.StructEq

namespace Goderive
namespace DeepCopy
open Val

/-! ## Strong induction on values -/

theorem valInduction {P : Val → Prop}
    (step : ∀ x, (∀ z, sizeOf z < sizeOf x → P z) → P x) (x : Val) : P x := by
  suffices h : ∀ n, ∀ x : Val, sizeOf x < n → P x from h _ x (Nat.lt_succ_self _)
  intro n
  induction n with
  | zero => intro x hx; omega
  | succ n ih =>
    intro x hx
    apply step
    intro z hz
    apply ih
    omega

/-! ## Environment facts -/

theorem env_under_of_not_named (env : Env) {T : Ty} (h : T.isNamed = false) : env.under T = T := by
  cases T <;> simp_all [Env.under, Ty.isNamed]

theorem env_under_named_some {env : Env} {i : Nat} {d : Decl} (h : env.decl? i = some d) :
    env.under (.named i) = d.under := by
  simp [Env.under, h]

theorem env_under_named_none {env : Env} {i : Nat} (h : env.decl? i = none) :
    env.under (.named i) = .fnil := by
  simp [Env.under, h]

theorem env_decl_mem {env : Env} {i : Nat} {d : Decl} (h : env.decl? i = some d) : d ∈ env.decls := by
  unfold Env.decl? at h
  exact List.mem_of_getElem? h

theorem env_flagsOk_decl {env : Env} (h : env.flagsOk = true) {i : Nat} {d : Decl}
    (hd : env.decl? i = some d) :
    d.canEq = canEqual env d.under ∧ d.under.isNamed = false := by
  have hm := env_decl_mem hd
  unfold Env.flagsOk at h
  rw [List.all_eq_true] at h
  have := h d hm
  simpa using this

/-- the underlying type is never a name -/
theorem env_under_not_named {env : Env} (h : env.flagsOk = true) (T : Ty) :
    (env.under T).isNamed = false := by
  cases T with
  | named i =>
    cases hd : env.decl? i with
    | none => rw [env_under_named_none hd]; rfl
    | some d => rw [env_under_named_some hd]; exact (env_flagsOk_decl h hd).2
  | _ => rfl

theorem env_under_idem {env : Env} (h : env.flagsOk = true) (T : Ty) :
    env.under (env.under T) = env.under T :=
  env_under_of_not_named env (env_under_not_named h T)

theorem canEqual_under {env : Env} (h : env.flagsOk = true) {T : Ty}
    (hc : canEqual env T = true) : canEqual env (env.under T) = true := by
  cases T with
  | named i =>
    cases hd : env.decl? i with
    | none => simp [canEqual, hd] at hc
    | some d =>
      rw [env_under_named_some hd, ← (env_flagsOk_decl h hd).1]
      simpa [canEqual, hd] using hc
  | _ => exact hc

/-! ## Everything depends on the type only through `env.under` -/

theorem hasType_congr {env : Env} {T T' : Ty} (h : env.under T = env.under T') (v : Val) :
    hasType env T v = hasType env T' v := by
  rw [hasType.eq_def, hasType.eq_def, h]

theorem structEq_congr {env : Env} {T T' : Ty} (h : env.under T = env.under T') (x y : Val) :
    Spec.structEq env T x y = Spec.structEq env T' x y := by
  rw [Spec.structEq.eq_def, Spec.structEq.eq_def, h]

/-! ## Inversion of typing -/

theorem hasType_basic {env : Env} {T : Ty} {b : Basic} (hU : env.under T = .basic b) (v : Val) :
    hasType env T v = basicHasType b v := hasType.eq_1 env T v b hU

theorem hasType_ptr_inv {env : Env} {T R : Ty} {x : Val} (hU : env.under T = .ptr R)
    (h : hasType env T x = true) : x = .nilv ∨ ∃ a v, x = .ptr a v ∧ hasType env R v = true := by
  rw [hasType.eq_def, hU] at h
  cases x with
  | nilv => exact Or.inl rfl
  | ptr a v => exact Or.inr ⟨a, v, rfl, by simpa using h⟩
  | _ => simp at h

theorem hasType_slice_inv {env : Env} {T E : Ty} {x : Val} (hU : env.under T = .slice E)
    (h : hasType env T x = true) :
    x = .nilv ∨ ∃ a s xs, x = .slice a s xs ∧ allHaveType env E xs = true := by
  rw [hasType.eq_def, hU] at h
  cases x with
  | nilv => exact Or.inl rfl
  | slice a s xs => exact Or.inr ⟨a, s, xs, rfl, by simpa using h⟩
  | _ => simp at h

theorem hasType_array_inv {env : Env} {T E : Ty} {n : Nat} {x : Val} (hU : env.under T = .array n E)
    (h : hasType env T x = true) :
    ∃ xs, x = .arr xs ∧ xs.slen = n ∧ allHaveType env E xs = true := by
  rw [hasType.eq_def, hU] at h
  cases x with
  | arr xs =>
    simp only [Bool.and_eq_true, beq_iff_eq] at h
    exact ⟨xs, rfl, h.1, h.2⟩
  | _ => simp at h

theorem hasType_struct_inv {env : Env} {T fs : Ty} {x : Val} (hU : env.under T = .struct fs)
    (h : hasType env T x = true) :
    ∃ xs, x = .struct xs ∧ fieldsHaveType env fs xs = true := by
  rw [hasType.eq_def, hU] at h
  cases x with
  | struct xs => exact ⟨xs, rfl, by simpa using h⟩
  | _ => simp at h

theorem hasType_map_inv {env : Env} {T K V : Ty} {x : Val} (hU : env.under T = .map K V)
    (h : hasType env T x = true) :
    x = .nilv ∨ ∃ a es, x = .map a es ∧ canEqual env K = true ∧
      entriesHaveType env K V es = true ∧ keysDistinct es = true := by
  rw [hasType.eq_def, hU] at h
  cases x with
  | nilv => exact Or.inl rfl
  | map a es =>
    simp only [Bool.and_eq_true] at h
    exact Or.inr ⟨a, es, rfl, h.1.1, h.1.2, h.2⟩
  | _ => simp at h

/-- no value has one of the non-value "types" -/
theorem hasType_bad {env : Env} {T : Ty} {x : Val}
    (hU : (match env.under T with
      | .named _ | .fnil | .fcons _ _ | .chan _ | .func | .iface => true
      | _ => false) = true) : hasType env T x = false := by
  rw [hasType.eq_def]
  cases hT : env.under T <;> simp_all

theorem allHaveType_inv {env : Env} {E : Ty} {xs : Val} (h : allHaveType env E xs = true) :
    xs = .snil ∨ ∃ a r, xs = .scons a r ∧ hasType env E a = true ∧ allHaveType env E r = true := by
  rw [allHaveType.eq_def] at h
  cases xs with
  | snil => exact Or.inl rfl
  | scons a r =>
    simp only [Bool.and_eq_true] at h
    exact Or.inr ⟨a, r, rfl, h.1, h.2⟩
  | _ => simp at h

theorem fieldsHaveType_inv {env : Env} {fs : Ty} {xs : Val} (h : fieldsHaveType env fs xs = true) :
    (fs = .fnil ∧ xs = .snil) ∨ ∃ F rest a r, fs = .fcons F rest ∧ xs = .scons a r ∧
      hasType env F a = true ∧ fieldsHaveType env rest r = true := by
  rw [fieldsHaveType.eq_def] at h
  cases fs with
  | fnil =>
    cases xs with
    | snil => exact Or.inl ⟨rfl, rfl⟩
    | _ => simp at h
  | fcons F rest =>
    cases xs with
    | scons a r =>
      simp only [Bool.and_eq_true] at h
      exact Or.inr ⟨F, rest, a, r, rfl, rfl, h.1, h.2⟩
    | _ => simp at h
  | _ => simp at h

theorem entriesHaveType_inv {env : Env} {K V : Ty} {es : Val} (h : entriesHaveType env K V es = true) :
    es = .snil ∨ ∃ k v r, es = .scons (.pair k v) r ∧ hasType env K k = true ∧
      hasType env V v = true ∧ entriesHaveType env K V r = true := by
  rw [entriesHaveType.eq_def] at h
  cases es with
  | snil => exact Or.inl rfl
  | scons hd tl =>
    cases hd with
    | pair k v =>
      simp only [Bool.and_eq_true] at h
      exact Or.inr ⟨k, v, tl, rfl, h.1.1, h.1.2, h.2⟩
    | _ => simp at h
  | _ => simp at h

/-! ## Shape of `structEq` once the underlying type is known -/

open Spec in
theorem structEq_basic {env : Env} {T : Ty} {b : Basic} (hU : env.under T = .basic b) (x y : Val) :
    structEq env T x y = leafEq x y := structEq.eq_1 env T x y b hU

open Spec in
theorem structEq_ptr {env : Env} {T R : Ty} (hU : env.under T = .ptr R) (x y : Val) :
    structEq env T x y =
      match x, y with
      | .nilv, .nilv => true
      | .ptr _ a, .ptr _ b => structEq env R a b
      | _, _ => false := by
  rw [structEq.eq_def, hU]
  cases x <;> cases y <;> rfl

open Spec in
theorem structEq_slice {env : Env} {T E : Ty} (hU : env.under T = .slice E) (x y : Val) :
    structEq env T x y =
      match x, y with
      | .nilv, .nilv => true
      | .slice _ _ xs, .slice _ _ ys => seqEq env E xs ys
      | _, _ => false := by
  rw [structEq.eq_def, hU]
  cases x <;> cases y <;> rfl

open Spec in
theorem structEq_array {env : Env} {T E : Ty} {n : Nat} (hU : env.under T = .array n E) (x y : Val) :
    structEq env T x y =
      match x, y with
      | .arr xs, .arr ys => seqEq env E xs ys
      | _, _ => false := by
  rw [structEq.eq_def, hU]
  cases x <;> cases y <;> rfl

open Spec in
theorem structEq_struct {env : Env} {T fs : Ty} (hU : env.under T = .struct fs) (x y : Val) :
    structEq env T x y =
      match x, y with
      | .struct xs, .struct ys => fieldsEq env fs xs ys
      | _, _ => false := by
  rw [structEq.eq_def, hU]
  cases x <;> cases y <;> rfl

open Spec in
theorem structEq_map {env : Env} {T K V : Ty} (hU : env.under T = .map K V) (x y : Val) :
    structEq env T x y =
      match x, y with
      | .nilv, .nilv => true
      | .map _ xs, .map _ ys => xs.slen == ys.slen && entriesIn env K V xs ys
      | _, _ => false := by
  rw [structEq.eq_def, hU]
  cases x <;> cases y <;> rfl

open Spec in
theorem seqEq_def (env : Env) (E : Ty) (xs ys : Val) :
    seqEq env E xs ys =
      match xs, ys with
      | .snil, .snil => true
      | .scons a r, .scons b s => structEq env E a b && seqEq env E r s
      | _, _ => false := seqEq.eq_def env E xs ys

/-! ## Go `==` is structural equality on comparable types -/

theorem goEq_eq_leafEq {b : Basic} {x : Val} (h : basicHasType b x = true) (y : Val) :
    goEq x y = leafEq x y := by
  cases x <;> first | (cases y <;> rfl) | (cases b <;> simp [basicHasType] at h)

/-- the three readings of "`x` is compared with `==`": as a value, as an element spine, as a field spine -/
structure GoEqOK (env : Env) (x : Val) : Prop where
  val : ∀ T y, canEqual env T = true → hasType env T x = true →
    goEq x y = Spec.structEq env T x y
  seq : ∀ E ys, canEqual env E = true → allHaveType env E x = true →
    goEq x ys = Spec.seqEq env E x ys
  flds : ∀ fs ys, canEqual env fs = true → fieldsHaveType env fs x = true →
    goEq x ys = Spec.fieldsEq env fs x ys

theorem goEqOK {env : Env} (hf : env.flagsOk = true) (x : Val) : GoEqOK env x := by
  induction x using valInduction with
  | step x ih =>
  refine ⟨?_, ?_, ?_⟩
  · intro T y hc hx
    have hcU := canEqual_under hf hc
    have hnn := env_under_not_named hf T
    cases hU : env.under T with
    | basic b =>
      rw [structEq_basic hU]
      exact goEq_eq_leafEq (by rwa [hasType_basic hU] at hx) y
    | array n E =>
      obtain ⟨xs, rfl, -, hxs⟩ := hasType_array_inv hU hx
      rw [structEq_array hU]
      rw [hU] at hcU
      cases y with
      | arr ys => exact (ih xs (by simp <;> omega)).seq E ys hcU hxs
      | _ => rfl
    | struct fs =>
      obtain ⟨xs, rfl, hxs⟩ := hasType_struct_inv hU hx
      rw [structEq_struct hU]
      rw [hU] at hcU
      cases y with
      | struct ys => exact (ih xs (by simp <;> omega)).flds fs ys hcU hxs
      | _ => rfl
    | named i => rw [hU] at hnn; simp [Ty.isNamed] at hnn
    | fnil => rw [hasType_bad (by rw [hU])] at hx; cases hx
    | fcons _ _ => rw [hasType_bad (by rw [hU])] at hx; cases hx
    | _ => rw [hU] at hcU; simp [canEqual] at hcU
  · intro E ys hc hx
    rw [Spec.seqEq.eq_def]
    rcases allHaveType_inv hx with rfl | ⟨a, r, rfl, ha, hr⟩
    · cases ys <;> rfl
    · cases ys with
      | scons b s =>
        simp only [goEq]
        rw [(ih a (by simp <;> omega)).val E b hc ha, (ih r (by simp <;> omega)).seq E s hc hr]
      | _ => rfl
  · intro fs ys hc hx
    rw [Spec.fieldsEq.eq_def]
    rcases fieldsHaveType_inv hx with ⟨rfl, rfl⟩ | ⟨F, rest, a, r, rfl, rfl, ha, hr⟩
    · cases ys <;> rfl
    · cases ys with
      | scons b s =>
        simp only [canEqual, Bool.and_eq_true] at hc
        simp only [goEq]
        rw [(ih a (by simp <;> omega)).val F b hc.1 ha, (ih r (by simp <;> omega)).flds rest s hc.2 hr]
      | _ => rfl

theorem goEq_eq_structEq {env : Env} (hf : env.flagsOk = true) {T : Ty} {x : Val} (y : Val)
    (hc : canEqual env T = true) (hx : hasType env T x = true) :
    goEq x y = Spec.structEq env T x y := (goEqOK hf x).val T y hc hx

theorem goEq_eq_seqEq {env : Env} (hf : env.flagsOk = true) {E : Ty} {xs : Val} (ys : Val)
    (hc : canEqual env E = true) (hx : allHaveType env E xs = true) :
    goEq xs ys = Spec.seqEq env E xs ys := (goEqOK hf xs).seq E ys hc hx

/-! ## Go `==` is symmetric and transitive on well-typed values of a comparable type -/

theorem goEq_basic_symm {b : Basic} {x y : Val} (hx : basicHasType b x = true)
    (hy : basicHasType b y = true) : goEq x y = goEq y x := by
  cases b <;> cases x <;> (try (simp [basicHasType] at hx; done)) <;>
    cases y <;> (try (simp [basicHasType] at hy; done)) <;> simp only [goEq]
  · exact Bool.beq_comm
  · exact Bool.beq_comm
  · simp only [basicHasType, Bool.and_eq_true, beq_iff_eq] at hx hy
    obtain ⟨rfl, _⟩ := hx; obtain ⟨rfl, _⟩ := hy; exact fltEq_symm _ _ _
  · rename_i bits w re im w' re' im'
    simp only [basicHasType, Bool.and_eq_true, beq_iff_eq] at hx hy
    have : w = w' := by omega
    subst this
    rw [fltEq_symm w re, fltEq_symm w im]
  · exact Bool.beq_comm

theorem goEq_basic_trans {b : Basic} {x y z : Val} (hx : basicHasType b x = true)
    (hy : basicHasType b y = true) (h1 : goEq x y = true) (h2 : goEq y z = true) :
    goEq x z = true := by
  cases b <;> cases x <;> (try (simp [basicHasType] at hx; done)) <;>
    cases y <;> (try (simp [basicHasType] at hy; done)) <;>
    cases z <;> (try (simp [goEq] at h2; done)) <;> simp only [goEq] at h1 h2 ⊢
  · simp_all
  · simp_all
  · simp only [basicHasType, Bool.and_eq_true, beq_iff_eq] at hx hy
    obtain ⟨rfl, _⟩ := hx; obtain ⟨rfl, _⟩ := hy; exact fltEq_trans _ _ _ _ h1 h2
  · rename_i bits w re im w' re' im' w'' re'' im''
    simp only [basicHasType, Bool.and_eq_true, beq_iff_eq] at hx hy
    have : w = w' := by omega
    subst this
    simp only [Bool.and_eq_true] at h1 h2 ⊢
    exact ⟨fltEq_trans _ _ _ _ h1.1 h2.1, fltEq_trans _ _ _ _ h1.2 h2.2⟩
  · simp_all

/-- symmetry and transitivity of `==`, in the three readings (value, element spine, field spine) -/
structure GoEqPER (env : Env) (x : Val) : Prop where
  symm : ∀ T y, canEqual env T = true → hasType env T x = true → hasType env T y = true →
    goEq x y = goEq y x
  symmS : ∀ E ys, canEqual env E = true → allHaveType env E x = true →
    allHaveType env E ys = true → goEq x ys = goEq ys x
  symmF : ∀ fs ys, canEqual env fs = true → fieldsHaveType env fs x = true →
    fieldsHaveType env fs ys = true → goEq x ys = goEq ys x
  trans : ∀ T y z, canEqual env T = true → hasType env T x = true → hasType env T y = true →
    goEq x y = true → goEq y z = true → goEq x z = true
  transS : ∀ E ys zs, canEqual env E = true → allHaveType env E x = true →
    allHaveType env E ys = true → goEq x ys = true → goEq ys zs = true → goEq x zs = true
  transF : ∀ fs ys zs, canEqual env fs = true → fieldsHaveType env fs x = true →
    fieldsHaveType env fs ys = true → goEq x ys = true → goEq ys zs = true → goEq x zs = true

theorem goEqPER {env : Env} (hf : env.flagsOk = true) (x : Val) : GoEqPER env x := by
  induction x using valInduction with
  | step x ih =>
  refine ⟨?_, ?_, ?_, ?_, ?_, ?_⟩
  · intro T y hc hx hy
    have hcU := canEqual_under hf hc
    have hnn := env_under_not_named hf T
    cases hU : env.under T with
    | basic b =>
      rw [hasType_basic hU] at hx hy
      exact goEq_basic_symm hx hy
    | array n E =>
      obtain ⟨xs, rfl, -, hxs⟩ := hasType_array_inv hU hx
      obtain ⟨ys, rfl, -, hys⟩ := hasType_array_inv hU hy
      rw [hU] at hcU
      exact (ih xs (by simp <;> omega)).symmS E ys hcU hxs hys
    | struct fs =>
      obtain ⟨xs, rfl, hxs⟩ := hasType_struct_inv hU hx
      obtain ⟨ys, rfl, hys⟩ := hasType_struct_inv hU hy
      rw [hU] at hcU
      exact (ih xs (by simp <;> omega)).symmF fs ys hcU hxs hys
    | named i => rw [hU] at hnn; simp [Ty.isNamed] at hnn
    | fnil => rw [hasType_bad (by rw [hU])] at hx; cases hx
    | fcons _ _ => rw [hasType_bad (by rw [hU])] at hx; cases hx
    | _ => rw [hU] at hcU; simp [canEqual] at hcU
  · intro E ys hc hx hy
    rcases allHaveType_inv hx with rfl | ⟨a, r, rfl, ha, hr⟩ <;>
      rcases allHaveType_inv hy with rfl | ⟨b, s, rfl, hb, hs⟩ <;> try rfl
    simp only [goEq]
    rw [(ih a (by simp <;> omega)).symm E b hc ha hb, (ih r (by simp <;> omega)).symmS E s hc hr hs]
  · intro fs ys hc hx hy
    rcases fieldsHaveType_inv hx with ⟨rfl, rfl⟩ | ⟨F, rest, a, r, rfl, rfl, ha, hr⟩
    · rcases fieldsHaveType_inv hy with ⟨-, rfl⟩ | ⟨_, _, _, _, h, _⟩
      · rfl
      · cases h
    · rcases fieldsHaveType_inv hy with ⟨h, -⟩ | ⟨F', rest', b, s, h, rfl, hb, hs⟩
      · cases h
      · cases h
        simp only [canEqual, Bool.and_eq_true] at hc
        simp only [goEq]
        rw [(ih a (by simp <;> omega)).symm F b hc.1 ha hb,
          (ih r (by simp <;> omega)).symmF rest s hc.2 hr hs]
  · intro T y z hc hx hy h1 h2
    have hcU := canEqual_under hf hc
    have hnn := env_under_not_named hf T
    cases hU : env.under T with
    | basic b =>
      rw [hasType_basic hU] at hx hy
      exact goEq_basic_trans hx hy h1 h2
    | array n E =>
      obtain ⟨xs, rfl, -, hxs⟩ := hasType_array_inv hU hx
      obtain ⟨ys, rfl, -, hys⟩ := hasType_array_inv hU hy
      rw [hU] at hcU
      cases z <;> simp only [goEq] at h2 <;> try cases h2
      exact (ih xs (by simp <;> omega)).transS E ys _ hcU hxs hys h1 h2
    | struct fs =>
      obtain ⟨xs, rfl, hxs⟩ := hasType_struct_inv hU hx
      obtain ⟨ys, rfl, hys⟩ := hasType_struct_inv hU hy
      rw [hU] at hcU
      cases z <;> simp only [goEq] at h2 <;> try cases h2
      exact (ih xs (by simp <;> omega)).transF fs ys _ hcU hxs hys h1 h2
    | named i => rw [hU] at hnn; simp [Ty.isNamed] at hnn
    | fnil => rw [hasType_bad (by rw [hU])] at hx; cases hx
    | fcons _ _ => rw [hasType_bad (by rw [hU])] at hx; cases hx
    | _ => rw [hU] at hcU; simp [canEqual] at hcU
  · intro E ys zs hc hx hy h1 h2
    rcases allHaveType_inv hx with rfl | ⟨a, r, rfl, ha, hr⟩ <;>
      rcases allHaveType_inv hy with rfl | ⟨b, s, rfl, hb, hs⟩ <;>
      (try (simp [goEq] at h1; done)) <;>
      cases zs <;> (try (simp [goEq] at h2; done))
    · rfl
    · simp only [goEq, Bool.and_eq_true] at h1 h2 ⊢
      exact ⟨(ih a (by simp <;> omega)).trans E b _ hc ha hb h1.1 h2.1,
        (ih r (by simp <;> omega)).transS E s _ hc hr hs h1.2 h2.2⟩
  · intro fs ys zs hc hx hy h1 h2
    rcases fieldsHaveType_inv hx with ⟨rfl, rfl⟩ | ⟨F, rest, a, r, rfl, rfl, ha, hr⟩
    · rcases fieldsHaveType_inv hy with ⟨-, rfl⟩ | ⟨_, _, _, _, h, _⟩
      · cases zs <;> first | rfl | (simp [goEq] at h2)
      · cases h
    · rcases fieldsHaveType_inv hy with ⟨h, -⟩ | ⟨F', rest', b, s, h, rfl, hb, hs⟩
      · cases h
      · cases h
        cases zs <;> (try (simp [goEq] at h2; done))
        simp only [canEqual, Bool.and_eq_true] at hc
        simp only [goEq, Bool.and_eq_true] at h1 h2 ⊢
        exact ⟨(ih a (by simp <;> omega)).trans F b _ hc.1 ha hb h1.1 h2.1,
          (ih r (by simp <;> omega)).transF rest s _ hc.2 hr hs h1.2 h2.2⟩

theorem goEq_symm {env : Env} (hf : env.flagsOk = true) {T : Ty} {x y : Val}
    (hc : canEqual env T = true) (hx : hasType env T x = true) (hy : hasType env T y = true) :
    goEq x y = goEq y x := (goEqPER hf x).symm T y hc hx hy

theorem goEq_trans {env : Env} (hf : env.flagsOk = true) {T : Ty} {x y z : Val}
    (hc : canEqual env T = true) (hx : hasType env T x = true) (hy : hasType env T y = true)
    (h1 : goEq x y = true) (h2 : goEq y z = true) : goEq x z = true :=
  (goEqPER hf x).trans T y z hc hx hy h1 h2

theorem mapLookup_hasType {env : Env} {K V : Ty} {k w : Val} :
    ∀ s, entriesHaveType env K V s = true → mapLookup k s = some w → hasType env V w = true := by
  intro s
  induction s using valInduction with
  | step s ih =>
  intro hs hl
  rcases entriesHaveType_inv hs with rfl | ⟨k', w', r, rfl, -, hw', hr⟩
  · simp [mapLookup] at hl
  · simp only [mapLookup] at hl
    split at hl
    · cases hl; exact hw'
    · exact ih r (by simp <;> omega) hr hl

theorem canEqual_eq_under {env : Env} (hf : env.flagsOk = true) {T : Ty}
    (hU : env.under T ≠ .fnil) : canEqual env T = canEqual env (env.under T) := by
  cases T with
  | named i =>
    cases hd : env.decl? i with
    | none => exact absurd (env_under_named_none hd) hU
    | some d =>
      rw [env_under_named_some hd, ← (env_flagsOk_decl hf hd).1]
      simp [canEqual, hd]
  | _ => rfl

theorem leafEq_refl {b : Basic} {x : Val} (hx : basicHasType b x = true) (hn : nanFree x = true) :
    leafEq x x = true := by
  cases x <;> (try (cases b <;> simp [basicHasType] at hx; done)) <;>
    simp only [leafEq, nanFree, Bool.and_eq_true, Bool.not_eq_true'] at hn ⊢
  · exact beq_self_eq_true _
  · exact beq_self_eq_true _
  · exact fltEq_refl _ _ hn
  · exact ⟨fltEq_refl _ _ hn.1, fltEq_refl _ _ hn.2⟩
  · exact beq_self_eq_true _

theorem leafEq_eq_goEq {b : Basic} {x : Val} (h : basicHasType b x = true) (y : Val) :
    leafEq x y = goEq x y := (goEq_eq_leafEq h y).symm


end DeepCopy
end Goderive
