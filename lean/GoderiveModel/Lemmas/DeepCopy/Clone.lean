/-
Helper lemmas for property C05, part 6: `deriveClone`, and a small store semantics for
"a write through an address".
-/
import GoderiveModel.Lemmas.DeepCopy.Fresh
import GoderiveModel.Lemmas.DeepCopy.Correct

namespace Goderive

/-- all heap identities (pointer targets, slice backing arrays, maps) reachable in a value -/
abbrev memAddrs : Val → List Nat := addrs

/-- the store after a write to the object at address `a`: the content of every object with that
address, seen through the view `v`, is replaced by `f` of the old content. (Values are views of one
heap; a write through any alias changes what every view that reaches the address observes.) -/
def writeAt (a : Nat) (f : Val → Val) : Val → Val
  | .ptr b v => if b = a then .ptr b (f v) else .ptr b (writeAt a f v)
  | .slice b sp es => if b = a then .slice b sp (f es) else .slice b sp (writeAt a f es)
  | .arr es => .arr (writeAt a f es)
  | .struct fs => .struct (writeAt a f fs)
  | .map b es => if b = a then .map b (f es) else .map b (writeAt a f es)
  | .pair k v => .pair (writeAt a f k) (writeAt a f v)
  | .scons h t => .scons (writeAt a f h) (writeAt a f t)
  | v => v

theorem writeAt_of_not_mem (a : Nat) (f : Val → Val) :
    ∀ v : Val, a ∉ addrs v → writeAt a f v = v := by
  intro v
  induction v with
  | ptr b v ih =>
    intro h
    simp only [addrs, List.mem_cons, not_or] at h
    simp only [writeAt, if_neg (Ne.symm h.1), ih h.2]
  | slice b sp es ih =>
    intro h
    simp only [addrs, List.mem_cons, not_or] at h
    simp only [writeAt, if_neg (Ne.symm h.1), ih h.2]
  | map b es ih =>
    intro h
    simp only [addrs, List.mem_cons, not_or] at h
    simp only [writeAt, if_neg (Ne.symm h.1), ih h.2]
  | arr es ih => intro h; simp only [addrs] at h; simp only [writeAt, ih h]
  | struct fs ih => intro h; simp only [addrs] at h; simp only [writeAt, ih h]
  | pair k v ih1 ih2 =>
    intro h
    simp only [addrs, List.mem_append, not_or] at h
    simp only [writeAt, ih1 h.1, ih2 h.2]
  | scons k v ih1 ih2 =>
    intro h
    simp only [addrs, List.mem_append, not_or] at h
    simp only [writeAt, ih1 h.1, ih2 h.2]
  | _ => intro _; rfl

namespace DeepCopy
open Val

variable {env : Env}

/-- freshness / tree shape of `deriveClone`: there is no prior destination -/
theorem clone_FTL (hf : env.flagsOk = true) {T : Ty} {src d' : Val} {n n' : St}
    (hx : hasType env T src = true) (h : clone env T src n = .ok (d', n')) :
    FTL [] (addrs d') n n' := by
  unfold clone at h
  cases hU : env.under T with
  | ptr R =>
    simp only [hU] at h
    rcases hasType_ptr_inv hU hx with rfl | ⟨a, v, rfl, hv⟩
    · cases h; exact FTL.refl _ _
    · have A := (freshOK hf _).top T _ (n + 1) hx d' n' h
      simp only [addrs, addrs_zeroVal] at A
      exact A.alloc
  | slice E =>
    simp only [hU] at h
    rcases hasType_slice_inv hU hx with rfl | ⟨a, sp, xs, rfl, hxs⟩
    · cases h; exact FTL.refl _ _
    · have A := (freshOK hf _).top T _ (n + 1) hx d' n' h
      simp only [addrs, addrs_sreplicate (addrs_zeroVal env (zfuel env) E)] at A
      exact A.alloc
  | map K V =>
    simp only [hU] at h
    rcases hasType_map_inv hU hx with rfl | ⟨a, xs, rfl, -, hxs, -⟩
    · cases h; exact FTL.refl _ _
    · have A := (freshOK hf _).top T _ (n + 1) hx d' n' h
      simp only [addrs] at A
      exact A.alloc
  | _ =>
    simp only [hU] at h
    split at h
    · rename_i hc
      cases h
      rw [addrs_of_canCopy hf hc hx]
      exact FTL.nil _ (Nat.le_succ _)
    · have A := (freshOK hf _).field T _ (n + 1) hx d' n' h
      rw [addrs_zeroVal] at A
      exact FTL.shift (Nat.le_succ _) (List.nil_sublist _) A

/-- `deriveClone` does not panic and returns a well-typed value structurally equal to the source -/
theorem clone_good (hf : env.flagsOk = true) (he : envOk env = true) {T : Ty} {src : Val} (n : St)
    (hok : okClone env T = true) (hx : hasType env T src = true) (hn : nanFree src = true) :
    Good env T src (clone env T src n) := by
  simp only [okClone, Bool.and_eq_true] at hok
  obtain ⟨⟨hokT, hzT⟩, hform⟩ := hok
  unfold clone
  cases hU : env.under T with
  | ptr R =>
    rw [hU] at hform
    have hns : isStructTy R = false := by simpa using hform
    have hokP := okComp_under he hokT hU rfl
    simp only [okComp, Bool.and_eq_true] at hokP
    simp only
    rcases hasType_ptr_inv hU hx with rfl | ⟨a, v, rfl, hv⟩
    · exact ⟨.nilv, n, rfl, hx, by rw [structEq_ptr hU]⟩
    · refine (corrOK hf he _).top T _ (n + 1) ?_ hx (hasType_ptr_intro hU n hokP.2) hn ?_
      · simp only [okTop, hokT, hU, hns, Bool.not_false, Bool.and_self]
      · simp only [topPre, hU]
  | slice E =>
    have hokS := okComp_under he hokT hU rfl
    simp only [okComp, Bool.and_eq_true] at hokS
    simp only
    rcases hasType_slice_inv hU hx with rfl | ⟨a, sp, xs, rfl, hxs⟩
    · exact ⟨.nilv, n, rfl, hx, by rw [structEq_slice hU]⟩
    · refine (corrOK hf he _).top T _ (n + 1) ?_ hx
        (hasType_slice_intro hU n 0 (allHaveType_sreplicate hokS.2 _)) hn ?_
      · simp only [okTop, hokT, hU, Bool.and_self]
      · simp only [topPre, hU, slen_sreplicate, beq_self_eq_true]
  | map K V =>
    have hokM := okComp_under he hokT hU rfl
    simp only [okComp, Bool.and_eq_true] at hokM
    simp only
    rcases hasType_map_inv hU hx with rfl | ⟨a, xs, rfl, -, hxs, -⟩
    · exact ⟨.nilv, n, rfl, hx, by rw [structEq_map hU]⟩
    · refine (corrOK hf he _).top T _ (n + 1) ?_ hx
        (hasType_map_intro hU n hokM.1.1 (by rw [entriesHaveType]) rfl) hn ?_
      · simp only [okTop, hokT, hU, Bool.and_self]
      · simp only [topPre, hU]
  | _ =>
    simp only
    split
    · rename_i hc
      exact ⟨src, n + 1, rfl, hx, structEq_refl_canCopy hf hc hx hn⟩
    · exact (corrOK hf he _).field T _ (n + 1) hokT hx hzT hn

end DeepCopy
end Goderive
