/-
Helper lemmas for property C05, part 4: which types plugin/deepcopy and plugin/clone support
(decidable, syntactic, closed world), the precondition on the top-level form, and facts about maps,
reflexivity of the specification on `canCopy` types and typing introduction.

The model returns `Res.panic` for
* a pointer to an UNNAMED struct at the top level or as a non-`canCopy` component (nothing emitted);
* an UNNAMED struct that is not `canCopy` in component position;
* `chan`, `func`, interface types, dangling names;
* a top-level type other than pointer, slice, map (`deriveDeepCopy` only);
and it consults zero values (`zeroVal env (zfuel env) T`), which have to be well typed: the fuel must
exceed the nesting of value types. `okComp` checks this at every place where the model takes a zero value.
-/
import GoderiveModel.Lemmas.DeepCopy.Model

namespace Goderive
namespace DeepCopy
open Val

/-- the zero value the model uses for `T` is a value of `T` (enough fuel) -/
def zok (env : Env) (T : Ty) : Bool := hasType env T (zeroVal env (zfuel env) T)

def isStructTy : Ty → Bool
  | .struct _ => true
  | _ => false

/-- `T` is supported in component position (field, element, map value, pointee) -/
def okComp (env : Env) : Ty → Bool
  | .basic _ => true
  | .named i => (env.decl? i).isSome
  | .ptr R => (!isStructTy R || canCopy env R) && okComp env R && zok env R
  | .slice E => okComp env E && zok env E
  | .array _ E => okComp env E
  | .map K V => canCopy env K && okComp env V && zok env V
  | .struct fs => canCopy env (.struct fs)
  | .fnil => true
  | .fcons F r => okComp env F && okComp env r
  | .chan _ => false
  | .func => false
  | .iface => false

/-- `T` is supported as the underlying type of a declaration: a named struct need not be `canCopy`,
its fields are copied one by one into a zero value -/
def okDecl (env : Env) : Ty → Bool
  | .struct fs => okComp env fs && fieldsHaveType env fs (zeroFields env (zfuel env) fs)
  | T => okComp env T

def envOk (env : Env) : Bool := env.decls.all fun d => okDecl env d.under

/-- `deriveDeepCopy(dst, src T)` is generated for pointers, slices and maps only, and not for a
pointer to an unnamed struct -/
def okTop (env : Env) (T : Ty) : Bool :=
  okComp env T &&
    match env.under T with
    | .ptr R => !isStructTy R
    | .slice _ => true
    | .map _ _ => true
    | _ => false

/-- `deriveClone(src T)` -/
def okClone (env : Env) (T : Ty) : Bool :=
  okComp env T && zok env T &&
    match env.under T with
    | .ptr R => !isStructTy R
    | _ => true

end DeepCopy

/-- `deriveDeepCopy` can be generated for `T` and never panics on well-typed arguments that satisfy
`topPre` -/
def SupportedCopy (env : Env) (T : Ty) : Bool := DeepCopy.okTop env T && DeepCopy.envOk env

/-- `deriveClone` can be generated for `T` -/
def SupportedClone (env : Env) (T : Ty) : Bool := DeepCopy.okClone env T && DeepCopy.envOk env

namespace DeepCopy
open Val

/-- the precondition of `deriveDeepCopy(dst, src)` on the top-level form: both pointers non-nil;
slices both nil or both non-nil of equal length; maps both nil or source non-nil and destination
non-nil and empty (the destination is passed by value, so its nil-ness cannot be changed) -/
def topPre (env : Env) (T : Ty) (src dst : Val) : Bool :=
  match env.under T, src, dst with
  | .ptr _, .ptr _ _, .ptr _ _ => true
  | .slice _, .nilv, .nilv => true
  | .slice _, .slice _ _ ss, .slice _ _ ds => ss.slen == ds.slen
  | .map _ _, .nilv, .nilv => true
  | .map _ _, .map _ _, .map _ .snil => true
  | _, _, _ => false

/-! ## Facts about support -/

theorem okDecl_decl {env : Env} (he : envOk env = true) {i : Nat} {d : Decl}
    (hd : env.decl? i = some d) : okDecl env d.under = true := by
  unfold envOk at he
  rw [List.all_eq_true] at he
  exact he d (env_decl_mem hd)

/-- a supported component whose underlying type is not a struct: the underlying type is supported -/
theorem okComp_under {env : Env} (he : envOk env = true) {F U : Ty} (h : okComp env F = true)
    (hU : env.under F = U) (hns : isStructTy U = false) : okComp env U = true := by
  cases F with
  | named i =>
    cases hd : env.decl? i with
    | none => simp [okComp, hd] at h
    | some d =>
      rw [env_under_named_some hd] at hU
      have := okDecl_decl he hd
      rw [hU] at this
      cases U <;> first | exact this | simp [isStructTy] at hns
  | _ => simp only [Env.under] at hU; rw [← hU]; exact h

/-- a supported component whose underlying type is a struct and which is not `canCopy` is a name -/
theorem okComp_struct {env : Env} (he : envOk env = true) {F fs : Ty} (h : okComp env F = true)
    (hU : env.under F = .struct fs) (hc : canCopy env F = false) :
    F.isNamed = true ∧ okComp env fs = true ∧
      fieldsHaveType env fs (zeroFields env (zfuel env) fs) = true := by
  cases F with
  | named i =>
    cases hd : env.decl? i with
    | none => simp [okComp, hd] at h
    | some d =>
      rw [env_under_named_some hd] at hU
      have := okDecl_decl he hd
      rw [hU] at this
      simp only [okDecl, Bool.and_eq_true] at this
      exact ⟨rfl, this.1, this.2⟩
  | struct fs' =>
    simp only [okComp] at h
    rw [h] at hc; cases hc
  | _ => simp [Env.under] at hU

/-- a named type whose underlying type is a struct -/
theorem okComp_named_struct {env : Env} (he : envOk env = true) {R fs : Ty}
    (hU : env.under R = .struct fs) (hn : isStructTy R = false) (hok : okComp env R = true) :
    R.isNamed = true ∧ okComp env fs = true := by
  cases R with
  | named i =>
    cases hd : env.decl? i with
    | none => simp [okComp, hd] at hok
    | some d =>
      rw [env_under_named_some hd] at hU
      have := okDecl_decl he hd
      rw [hU] at this
      simp only [okDecl, Bool.and_eq_true] at this
      exact ⟨rfl, this.1⟩
  | struct fs' => simp [isStructTy] at hn
  | _ => simp [Env.under] at hU

/-! ## Typing introduction -/

theorem hasType_nil_ptr {env : Env} {T R : Ty} (hU : env.under T = .ptr R) :
    hasType env T .nilv = true := by
  rw [hasType.eq_def, hU]

theorem hasType_nil_slice {env : Env} {T E : Ty} (hU : env.under T = .slice E) :
    hasType env T .nilv = true := by
  rw [hasType.eq_def, hU]

theorem hasType_nil_map {env : Env} {T K V : Ty} (hU : env.under T = .map K V) :
    hasType env T .nilv = true := by
  rw [hasType.eq_def, hU]

theorem hasType_ptr_intro {env : Env} {T R : Ty} (hU : env.under T = .ptr R) {v : Val} (a : Nat)
    (hv : hasType env R v = true) : hasType env T (.ptr a v) = true := by
  rw [hasType.eq_def, hU]; exact hv

theorem hasType_slice_intro {env : Env} {T E : Ty} (hU : env.under T = .slice E) {xs : Val}
    (a sp : Nat) (hv : allHaveType env E xs = true) : hasType env T (.slice a sp xs) = true := by
  rw [hasType.eq_def, hU]; exact hv

theorem hasType_array_intro {env : Env} {T E : Ty} {k : Nat} (hU : env.under T = .array k E)
    {xs : Val} (hl : xs.slen = k) (hv : allHaveType env E xs = true) :
    hasType env T (.arr xs) = true := by
  rw [hasType.eq_def, hU]; simp only [hl, hv, beq_self_eq_true, Bool.and_self]

theorem hasType_struct_intro {env : Env} {T fs : Ty} (hU : env.under T = .struct fs) {xs : Val}
    (hv : fieldsHaveType env fs xs = true) : hasType env T (.struct xs) = true := by
  rw [hasType.eq_def, hU]; exact hv

theorem hasType_map_intro {env : Env} {T K V : Ty} (hU : env.under T = .map K V) {es : Val}
    (a : Nat) (hK : canEqual env K = true) (hv : entriesHaveType env K V es = true)
    (hd : keysDistinct es = true) : hasType env T (.map a es) = true := by
  rw [hasType.eq_def, hU]; simp only [hK, hv, hd, Bool.and_self]

/-! ## Reflexivity of the specification on `canCopy` types -/

structure ReflC (env : Env) (x : Val) : Prop where
  val : ∀ T, canEqual env T = true → hasType env T x = true → nanFree x = true →
    Spec.structEq env T x x = true
  seq : ∀ E, canEqual env E = true → allHaveType env E x = true → nanFree x = true →
    Spec.seqEq env E x x = true
  flds : ∀ fs, canEqual env fs = true → fieldsHaveType env fs x = true → nanFree x = true →
    Spec.fieldsEq env fs x x = true

theorem reflC {env : Env} (hf : env.flagsOk = true) (x : Val) : ReflC env x := by
  induction x using valInduction with
  | step x ih =>
  refine ⟨?_, ?_, ?_⟩
  · intro T hc hx hn
    have hcU := canEqual_under hf hc
    have hnn := env_under_not_named hf T
    cases hU : env.under T with
    | basic b =>
      rw [structEq_basic hU]; exact leafEq_refl (by rwa [hasType_basic hU] at hx) hn
    | array n E =>
      rw [structEq_array hU]
      obtain ⟨xs, rfl, -, hxs⟩ := hasType_array_inv hU hx
      rw [hU] at hcU
      exact (ih xs (by simp <;> omega)).seq E hcU hxs (by simpa [nanFree] using hn)
    | struct fs =>
      rw [structEq_struct hU]
      obtain ⟨xs, rfl, hxs⟩ := hasType_struct_inv hU hx
      rw [hU] at hcU
      exact (ih xs (by simp <;> omega)).flds fs hcU hxs (by simpa [nanFree] using hn)
    | named i => rw [hU] at hnn; simp [Ty.isNamed] at hnn
    | fnil => rw [hasType_bad (by rw [hU])] at hx; cases hx
    | fcons _ _ => rw [hasType_bad (by rw [hU])] at hx; cases hx
    | _ => rw [hU] at hcU; simp [canEqual] at hcU
  · intro E hc hx hn
    rcases allHaveType_inv hx with rfl | ⟨a, r, rfl, ha, hr⟩
    · rw [Spec.seqEq]
    · simp only [nanFree, Bool.and_eq_true] at hn
      rw [Spec.seqEq, (ih a (by simp <;> omega)).val E hc ha hn.1,
        (ih r (by simp <;> omega)).seq E hc hr hn.2]
      rfl
  · intro fs hc hx hn
    rcases fieldsHaveType_inv hx with ⟨rfl, rfl⟩ | ⟨F, rest, a, r, rfl, rfl, ha, hr⟩
    · rw [Spec.fieldsEq]
    · simp only [nanFree, Bool.and_eq_true] at hn
      simp only [canEqual, Bool.and_eq_true] at hc
      rw [Spec.fieldsEq, (ih a (by simp <;> omega)).val F hc.1 ha hn.1,
        (ih r (by simp <;> omega)).flds rest hc.2 hr hn.2]
      rfl

theorem structEq_refl_canCopy {env : Env} (hf : env.flagsOk = true) {T : Ty} {x : Val}
    (hc : canCopy env T = true) (hx : hasType env T x = true) (hn : nanFree x = true) :
    Spec.structEq env T x x = true := (reflC hf x).val T hc hx hn

theorem seqEq_refl_canCopy {env : Env} (hf : env.flagsOk = true) {E : Ty} {xs : Val}
    (hc : canCopy env E = true) (hx : allHaveType env E xs = true) (hn : nanFree xs = true) :
    Spec.seqEq env E xs xs = true := (reflC hf xs).seq E hc hx hn

theorem goEq_refl {env : Env} (hf : env.flagsOk = true) {K : Ty} {k : Val}
    (hc : canEqual env K = true) (hk : hasType env K k = true) (hn : nanFree k = true) :
    goEq k k = true := by
  rw [goEq_eq_structEq hf k hc hk]; exact structEq_refl_canCopy hf hc hk hn

theorem seqEq_slen {env : Env} {E : Ty} :
    ∀ xs ys : Val, Spec.seqEq env E xs ys = true → xs.slen = ys.slen := by
  intro xs
  induction xs using valInduction with
  | step xs ih =>
  intro ys h
  rw [Spec.seqEq.eq_def] at h
  cases xs with
  | snil => cases ys <;> first | rfl | simp at h
  | scons a r =>
    cases ys with
    | scons b s =>
      simp only [Bool.and_eq_true] at h
      simp only [slen, ih r (by simp <;> omega) s h.2]
    | _ => simp at h
  | _ => simp at h

/-! ## Maps -/

/-- no key of the entry spine `ss` is present in `ds` -/
def absent : Val → Val → Bool
  | .scons (.pair k _) r, ds => (mapLookup k ds).isNone && absent r ds
  | _, _ => true

theorem absent_snil : ∀ ss : Val, absent ss .snil = true := by
  intro ss
  induction ss using valInduction with
  | step ss ih =>
  cases ss with
  | scons hd tl =>
    cases hd with
    | pair k v => simp only [absent, mapLookup, Option.isNone_none, Bool.true_and]; exact ih tl (by simp <;> omega)
    | _ => rfl
  | _ => rfl

theorem mapGet_hasType {env : Env} {K V : Ty} {k z : Val} (hz : hasType env V z = true) {ds : Val}
    (hds : entriesHaveType env K V ds = true) : hasType env V (mapGet k z ds) = true := by
  unfold mapGet
  cases h : mapLookup k ds with
  | none => exact hz
  | some w => exact mapLookup_hasType ds hds h

theorem entriesHaveType_mapSet {env : Env} {K V : Ty} {k v : Val} (hk : hasType env K k = true)
    (hv : hasType env V v = true) :
    ∀ ds : Val, entriesHaveType env K V ds = true → entriesHaveType env K V (mapSet k v ds) = true := by
  intro ds
  induction ds using valInduction with
  | step ds ih =>
  intro hds
  rcases entriesHaveType_inv hds with rfl | ⟨k', w, r, rfl, hk', hw, hr⟩
  · simp only [mapSet]; rw [entriesHaveType, hk, hv, entriesHaveType]; rfl
  · simp only [mapSet]
    split
    · rw [entriesHaveType, hk', hv, hr]; rfl
    · rw [entriesHaveType, hk', hw, ih r (by simp <;> omega) hr]; rfl

theorem mapLookup_mapSet_self {k v : Val} (hkk : goEq k k = true) :
    ∀ ds : Val, mapLookup k (mapSet k v ds) = some v := by
  intro ds
  induction ds using valInduction with
  | step ds ih =>
  cases ds with
  | scons hd tl =>
    cases hd with
    | pair k' w =>
      cases hg : goEq k k' with
      | true => simp only [mapSet, hg, if_true, mapLookup]
      | false =>
        simp only [mapSet, hg, Bool.false_eq_true, if_false, mapLookup]
        exact ih tl (by simp <;> omega)
    | _ => simp only [mapSet, mapLookup, hkk, if_true]
  | _ => simp only [mapSet, mapLookup, hkk, if_true]

theorem mapLookup_mapSet_ne {env : Env} (hf : env.flagsOk = true) {K V : Ty} {q k v : Val}
    (hc : canEqual env K = true) (hq : hasType env K q = true) (hk : hasType env K k = true)
    (hqk : goEq q k = false) :
    ∀ ds : Val, entriesHaveType env K V ds = true → mapLookup q (mapSet k v ds) = mapLookup q ds := by
  intro ds
  induction ds using valInduction with
  | step ds ih =>
  intro hds
  rcases entriesHaveType_inv hds with rfl | ⟨k', w, r, rfl, hk', hw, hr⟩
  · simp only [mapSet, mapLookup, hqk, Bool.false_eq_true, if_false]
  · simp only [mapSet]
    cases hg : goEq k k' with
    | true =>
      simp only [if_true, mapLookup]
      cases hg' : goEq q k' with
      | false => rfl
      | true =>
        have h1 : goEq k' k = true := by rw [goEq_symm hf hc hk' hk]; exact hg
        have := goEq_trans hf hc hq hk' hg' h1
        rw [hqk] at this; cases this
    | false =>
      simp only [Bool.false_eq_true, if_false, mapLookup]
      rw [ih r (by simp <;> omega) hr]

theorem keyFresh_mapSet {q k v : Val} (hqk : goEq q k = false) :
    ∀ ds : Val, keyFresh q ds = true → keyFresh q (mapSet k v ds) = true := by
  intro ds
  induction ds using valInduction with
  | step ds ih =>
  intro h
  cases ds with
  | scons hd tl =>
    cases hd with
    | pair k' w =>
      simp only [keyFresh, Bool.and_eq_true, Bool.not_eq_true'] at h
      simp only [mapSet]
      split
      · simp only [keyFresh, h.1, h.2, Bool.not_false, Bool.and_self]
      · simp only [keyFresh, h.1, Bool.not_false, Bool.true_and]
        exact ih tl (by simp <;> omega) h.2
    | _ => simp only [mapSet, keyFresh, hqk, Bool.not_false, Bool.and_self]
  | _ => simp only [mapSet, keyFresh, hqk, Bool.not_false, Bool.and_self]

theorem keysDistinct_mapSet {env : Env} (hf : env.flagsOk = true) {K V : Ty} {k v : Val}
    (hc : canEqual env K = true) (hk : hasType env K k = true) :
    ∀ ds : Val, entriesHaveType env K V ds = true → keysDistinct ds = true →
      keysDistinct (mapSet k v ds) = true := by
  intro ds
  induction ds using valInduction with
  | step ds ih =>
  intro hds hd
  rcases entriesHaveType_inv hds with rfl | ⟨k', w, r, rfl, hk', hw, hr⟩
  · simp only [mapSet, keysDistinct, keyFresh, Bool.and_self]
  · simp only [keysDistinct, Bool.and_eq_true] at hd
    simp only [mapSet]
    cases hg : goEq k k' with
    | true => simp only [if_true, keysDistinct, hd.1, hd.2, Bool.and_self]
    | false =>
      simp only [Bool.false_eq_true, if_false, keysDistinct, Bool.and_eq_true]
      have hg' : goEq k' k = false := by rw [goEq_symm hf hc hk' hk]; exact hg
      exact ⟨keyFresh_mapSet hg' r hd.1, ih r (by simp <;> omega) hr hd.2⟩

theorem slen_mapSet_absent {env : Env} {K V : Ty} {k v : Val} :
    ∀ ds : Val, entriesHaveType env K V ds = true → mapLookup k ds = none →
      (mapSet k v ds).slen = ds.slen + 1 := by
  intro ds
  induction ds using valInduction with
  | step ds ih =>
  intro hds hl
  rcases entriesHaveType_inv hds with rfl | ⟨k', w, r, rfl, hk', hw, hr⟩
  · rfl
  · simp only [mapLookup] at hl
    split at hl
    · cases hl
    · rename_i hg
      simp only [mapSet, hg, Bool.false_eq_true, if_false, slen, ih r (by simp <;> omega) hr hl]

theorem absent_mapSet {env : Env} (hf : env.flagsOk = true) {K V : Ty} {k v ds : Val}
    (hc : canEqual env K = true) (hk : hasType env K k = true)
    (hds : entriesHaveType env K V ds = true) :
    ∀ r : Val, entriesHaveType env K V r = true → keyFresh k r = true → absent r ds = true →
      absent r (mapSet k v ds) = true := by
  intro r
  induction r using valInduction with
  | step r ih =>
  intro hr hfr ha
  rcases entriesHaveType_inv hr with rfl | ⟨k2, w, r2, rfl, hk2, hw, hr2⟩
  · rfl
  · simp only [keyFresh, Bool.and_eq_true, Bool.not_eq_true'] at hfr
    simp only [absent, Bool.and_eq_true] at ha ⊢
    have hg : goEq k2 k = false := by rw [goEq_symm hf hc hk2 hk]; exact hfr.1
    rw [mapLookup_mapSet_ne hf hc hk2 hk hg ds hds]
    exact ⟨ha.1, ih r2 (by simp <;> omega) hr2 hfr.2 ha.2⟩

theorem valueAt_of_lookup {env : Env} (hf : env.flagsOk = true) {K V : Ty} {k v w : Val}
    (hc : canEqual env K = true) (hk : hasType env K k = true)
    (hvw : Spec.structEq env V v w = true) :
    ∀ ys : Val, mapLookup k ys = some w → Spec.valueAt env K V k v ys = true := by
  intro ys
  induction ys using valInduction with
  | step ys ih =>
  intro hl
  cases ys with
  | scons hd tl =>
    cases hd with
    | pair k' w' =>
      rw [Spec.valueAt.eq_1]
      simp only [mapLookup] at hl
      split at hl
      · rename_i hg
        cases hl
        rw [← goEq_eq_structEq hf k' hc hk, hg, hvw]; rfl
      · rw [ih tl (by simp <;> omega) hl]; simp
    | _ => simp [mapLookup] at hl
  | _ => simp [mapLookup] at hl

end DeepCopy
end Goderive
