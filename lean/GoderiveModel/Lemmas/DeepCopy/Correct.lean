/-
Helper lemmas for property C05, part 5: on supported types and well-typed arguments the model does
not panic, the result is well typed and structurally equal to the source.
-/
import GoderiveModel.Lemmas.DeepCopy.Supported

namespace Goderive
namespace DeepCopy
open Val

theorem sliceBase_typed {env : Env} {E : Ty} {z : Val} (hz : hasType env E z = true) (L : Nat)
    {prior : Val}
    (hp : prior = .nilv ∨ ∃ a s xs, prior = .slice a s xs ∧ allHaveType env E xs = true) (n : St) :
    ∃ ba bsp bs, (sliceBase z L prior n).1 = .slice ba bsp bs ∧ allHaveType env E bs = true ∧
      bs.slen = L := by
  have hfresh : ∃ ba bsp bs, (Val.slice n 0 (sreplicate L z), n + 1).1 = .slice ba bsp bs ∧
      allHaveType env E bs = true ∧ bs.slen = L :=
    ⟨n, 0, _, rfl, allHaveType_sreplicate hz L, slen_sreplicate L z⟩
  rcases hp with rfl | ⟨a, s, ds, rfl, hds⟩
  · exact hfresh
  · unfold sliceBase
    simp only
    split
    · split
      · refine ⟨_, _, _, rfl, allHaveType_sappend _ _ hds (allHaveType_sreplicate hz _), ?_⟩
        rw [slen_sappend_of_all _ _ hds, slen_sreplicate]; omega
      · exact hfresh
    · split
      · exact ⟨_, _, _, rfl, allHaveType_stake _ _ hds, slen_stake_of_all _ _ hds (by omega)⟩
      · exact ⟨_, _, _, rfl, hds, by omega⟩

/-! ## Postconditions -/

def Good (env : Env) (T : Ty) (src : Val) (r : Res (Val × St)) : Prop :=
  ∃ d' n', r = .ok (d', n') ∧ hasType env T d' = true ∧ Spec.structEq env T src d' = true

def GoodSeq (env : Env) (E : Ty) (ss : Val) (r : Res (Val × St)) : Prop :=
  ∃ ds' n', r = .ok (ds', n') ∧ allHaveType env E ds' = true ∧ Spec.seqEq env E ss ds' = true

def GoodFields (env : Env) (fs : Ty) (ss : Val) (r : Res (Val × St)) : Prop :=
  ∃ ds' n', r = .ok (ds', n') ∧ fieldsHaveType env fs ds' = true ∧ Spec.fieldsEq env fs ss ds' = true

def GoodEntries (env : Env) (K V : Ty) (ss ds : Val) (r : Res (Val × St)) : Prop :=
  ∃ ds' n', r = .ok (ds', n') ∧ entriesHaveType env K V ds' = true ∧ keysDistinct ds' = true ∧
    (∀ q w, hasType env K q = true → keyFresh q ss = true → mapLookup q ds = some w →
      mapLookup q ds' = some w) ∧
    Spec.entriesIn env K V ss ds' = true ∧
    (absent ss ds = true → ds'.slen = ds.slen + ss.slen)

theorem Good.congr {env : Env} {T T' : Ty} (h : env.under T = env.under T') {src : Val}
    {r : Res (Val × St)} (g : Good env T src r) : Good env T' src r := by
  obtain ⟨d', n', hr, ht, he⟩ := g
  exact ⟨d', n', hr, by rw [← hasType_congr h]; exact ht, by rw [← structEq_congr h]; exact he⟩

structure CorrOK (env : Env) (x : Val) : Prop where
  field : ∀ F prior n, okComp env F = true → hasType env F x = true → hasType env F prior = true →
    nanFree x = true → Good env F x (field env F x prior n)
  top : ∀ T dst n, okTop env T = true → hasType env T x = true → hasType env T dst = true →
    nanFree x = true → topPre env T x dst = true → Good env T x (top env T x dst n)
  fields : ∀ fs ds n, okComp env fs = true → fieldsHaveType env fs x = true →
    fieldsHaveType env fs ds = true → nanFree x = true → GoodFields env fs x (fields env fs x ds n)
  elems : ∀ E ds n, okComp env E = true → allHaveType env E x = true → allHaveType env E ds = true →
    x.slen = ds.slen → nanFree x = true → GoodSeq env E x (elems env E x ds n)
  entries : ∀ K V ds n, canEqual env K = true → okComp env V = true → zok env V = true →
    entriesHaveType env K V x = true → keysDistinct x = true → entriesHaveType env K V ds = true →
    keysDistinct ds = true → nanFree x = true → GoodEntries env K V x ds (entries env V x ds n)

variable {env : Env}

theorem corrOK_step_fields (x : Val) (ih : ∀ z, sizeOf z < sizeOf x → CorrOK env z) :
    ∀ fs ds n, okComp env fs = true → fieldsHaveType env fs x = true →
      fieldsHaveType env fs ds = true → nanFree x = true →
      GoodFields env fs x (fields env fs x ds n) := by
  intro fs ds n hok hx hd hn
  rcases fieldsHaveType_inv hx with ⟨rfl, rfl⟩ | ⟨F, rest, a, r, rfl, rfl, ha, hr⟩
  · rcases fieldsHaveType_inv hd with ⟨-, rfl⟩ | ⟨_, _, _, _, h, _⟩
    · exact ⟨.snil, n, by rw [fields], hx, by rw [Spec.fieldsEq]⟩
    · cases h
  · rcases fieldsHaveType_inv hd with ⟨h, -⟩ | ⟨F', rest', d, ds2, h, rfl, hd1, hd2⟩
    · cases h
    · cases h
      simp only [okComp, Bool.and_eq_true] at hok
      simp only [nanFree, Bool.and_eq_true] at hn
      obtain ⟨d1, n1, h1, t1, e1⟩ := (ih a (by simp <;> omega)).field F d n hok.1 ha hd1 hn.1
      obtain ⟨r2, n2, h2, t2, e2⟩ := (ih r (by simp <;> omega)).fields rest ds2 n1 hok.2 hr hd2 hn.2
      refine ⟨.scons d1 r2, n2, ?_, ?_, ?_⟩
      · rw [fields, h1]; simp only [Res.bind_ok]; rw [h2]; rfl
      · rw [fieldsHaveType, t1, t2]; rfl
      · rw [Spec.fieldsEq, e1, e2]; rfl

theorem corrOK_step_elems (x : Val) (ih : ∀ z, sizeOf z < sizeOf x → CorrOK env z) :
    ∀ E ds n, okComp env E = true → allHaveType env E x = true → allHaveType env E ds = true →
      x.slen = ds.slen → nanFree x = true → GoodSeq env E x (elems env E x ds n) := by
  intro E ds n hok hx hd hl hn
  rcases allHaveType_inv hx with rfl | ⟨a, r, rfl, ha, hr⟩
  · rcases allHaveType_inv hd with rfl | ⟨_, _, rfl, _, _⟩
    · exact ⟨.snil, n, by rw [elems], hx, by rw [Spec.seqEq]⟩
    · simp [slen] at hl
  · rcases allHaveType_inv hd with rfl | ⟨d, ds2, rfl, hd1, hd2⟩
    · simp [slen] at hl
    · simp only [nanFree, Bool.and_eq_true] at hn
      simp only [slen] at hl
      obtain ⟨d1, n1, h1, t1, e1⟩ := (ih a (by simp <;> omega)).field E d n hok ha hd1 hn.1
      obtain ⟨r2, n2, h2, t2, e2⟩ :=
        (ih r (by simp <;> omega)).elems E ds2 n1 hok hr hd2 (by omega) hn.2
      refine ⟨.scons d1 r2, n2, ?_, ?_, ?_⟩
      · rw [elems, h1]; simp only [Res.bind_ok]; rw [h2]; rfl
      · rw [allHaveType, t1, t2]; rfl
      · rw [Spec.seqEq, e1, e2]; rfl

theorem corrOK_step_entries (hf : env.flagsOk = true) (x : Val)
    (ih : ∀ z, sizeOf z < sizeOf x → CorrOK env z) :
    ∀ K V ds n, canEqual env K = true → okComp env V = true → zok env V = true →
      entriesHaveType env K V x = true → keysDistinct x = true → entriesHaveType env K V ds = true →
      keysDistinct ds = true → nanFree x = true →
      GoodEntries env K V x ds (entries env V x ds n) := by
  intro K V ds n hK hok hz hx hdx hds hdd hn
  rcases entriesHaveType_inv hx with rfl | ⟨k, v, r, rfl, hk, hv, hr⟩
  · refine ⟨ds, n, by rw [entries], hds, hdd, fun _ _ _ _ h => h, by rw [Spec.entriesIn], ?_⟩
    intro _; simp [slen]
  · simp only [nanFree, Bool.and_eq_true] at hn
    simp only [keysDistinct, Bool.and_eq_true] at hdx
    obtain ⟨⟨nk, nv⟩, nr⟩ := hn
    have hprior : hasType env V (zeroVal env (zfuel env) V) = true := hz
    obtain ⟨v1, n1, h1, t1, e1⟩ := (ih v (by simp <;> omega)).field V _ n hok hv hprior nv
    have hds1 := entriesHaveType_mapSet hk t1 ds hds
    have hdd1 := keysDistinct_mapSet (v := v1) hf hK hk ds hds hdd
    obtain ⟨ds', n', h2, t2, d2, pb, pa, pc⟩ :=
      (ih r (by simp <;> omega)).entries K V (mapSet k v1 ds) n1 hK hok hz hr hdx.2 hds1 hdd1 nr
    have hkk := goEq_refl hf hK hk nk
    have hlk : mapLookup k ds' = some v1 :=
      pb k v1 hk hdx.1 (mapLookup_mapSet_self hkk ds)
    refine ⟨ds', n', ?_, t2, d2, ?_, ?_, ?_⟩
    · rw [entries, h1]; simp only [Res.bind_ok]; exact h2
    · intro q w hq hfr hl
      simp only [keyFresh, Bool.and_eq_true, Bool.not_eq_true'] at hfr
      refine pb q w hq hfr.2 ?_
      rw [mapLookup_mapSet_ne hf hK hq hk hfr.1 ds hds]; exact hl
    · rw [Spec.entriesIn, valueAt_of_lookup hf hK hk e1 ds' hlk, pa]; rfl
    · intro ha
      simp only [absent, Bool.and_eq_true, Option.isNone_iff_eq_none] at ha
      have := pc (absent_mapSet hf hK hk hds r hr hdx.1 ha.2)
      rw [this, slen_mapSet_absent ds hds ha.1]
      simp only [slen]; omega

theorem corrOK_step_top (hf : env.flagsOk = true) (he : envOk env = true) (x : Val)
    (ih : ∀ z, sizeOf z < sizeOf x → CorrOK env z) :
    ∀ T dst n, okTop env T = true → hasType env T x = true → hasType env T dst = true →
      nanFree x = true → topPre env T x dst = true → Good env T x (top env T x dst n) := by
  intro T dst n hok hx hd hn hpre
  simp only [okTop, Bool.and_eq_true] at hok
  obtain ⟨hokT, hform⟩ := hok
  cases hU : env.under T with
  | ptr R =>
    rw [hU] at hform
    have hns : isStructTy R = false := by simpa using hform
    have hokP := okComp_under he hokT hU rfl
    simp only [okComp, Bool.and_eq_true] at hokP
    obtain ⟨⟨-, hokR⟩, hzR⟩ := hokP
    unfold topPre at hpre
    rw [hU] at hpre
    rcases hasType_ptr_inv hU hx with rfl | ⟨a, v, rfl, hv⟩
    · rcases hasType_ptr_inv hU hd with rfl | ⟨da, d, rfl, hdv⟩ <;> simp at hpre
    rcases hasType_ptr_inv hU hd with rfl | ⟨da, d, rfl, hdv⟩
    · simp at hpre
    have nv : nanFree v = true := by simpa [nanFree] using hn
    rw [top_ptr hU]
    simp only
    split
    · rename_i fs hR
      obtain ⟨hnamed, hokfs⟩ := okComp_named_struct he hR hns hokR
      obtain ⟨ss, rfl, hss⟩ := hasType_struct_inv hR hv
      obtain ⟨ds, rfl, hdss⟩ := hasType_struct_inv hR hdv
      simp only [hnamed, if_true]
      split
      · rename_i hfs
        subst hfs
        refine ⟨_, n, rfl, hd, ?_⟩
        rw [structEq_ptr hU]; simp only
        rw [structEq_struct hR]; simp only
        rcases fieldsHaveType_inv hss with ⟨-, rfl⟩ | ⟨_, _, _, _, h, _⟩
        · rcases fieldsHaveType_inv hdss with ⟨-, rfl⟩ | ⟨_, _, _, _, h, _⟩
          · rw [Spec.fieldsEq]
          · cases h
        · cases h
      · obtain ⟨ds1, n1, h1, t1, e1⟩ :=
          (ih ss (by simp <;> omega)).fields fs ds n hokfs hss hdss (by simpa [nanFree] using nv)
        refine ⟨.ptr da (.struct ds1), n1, by rw [h1]; rfl, ?_, ?_⟩
        · exact hasType_ptr_intro hU da (hasType_struct_intro hR t1)
        · rw [structEq_ptr hU]; simp only
          rw [structEq_struct hR]; exact e1
    · obtain ⟨d1, n1, h1, t1, e1⟩ := (ih v (by simp <;> omega)).field R d n hokR hv hdv nv
      refine ⟨.ptr da d1, n1, by rw [h1]; rfl, hasType_ptr_intro hU da t1, ?_⟩
      rw [structEq_ptr hU]; exact e1
  | slice E =>
    have hokS := okComp_under he hokT hU rfl
    simp only [okComp, Bool.and_eq_true] at hokS
    unfold topPre at hpre
    rw [hU] at hpre
    rw [top_slice hU]
    rcases hasType_slice_inv hU hx with rfl | ⟨a, sp, xs, rfl, hxs⟩
    · rcases hasType_slice_inv hU hd with rfl | ⟨da, dsp, ds, rfl, hds⟩
      · exact ⟨.nilv, n, rfl, hd, by rw [structEq_slice hU]⟩
      · simp at hpre
    · rcases hasType_slice_inv hU hd with rfl | ⟨da, dsp, ds, rfl, hds⟩
      · simp at hpre
      · have hl : xs.slen = ds.slen := by simpa using hpre
        have nxs : nanFree xs = true := by simpa [nanFree] using hn
        simp only
        split
        · rename_i hc
          rw [copy_same_len xs ds hxs hds hl]
          refine ⟨_, n, rfl, hasType_slice_intro hU da dsp hxs, ?_⟩
          rw [structEq_slice hU]; exact seqEq_refl_canCopy hf hc hxs nxs
        · obtain ⟨ds1, n1, h1, t1, e1⟩ :=
            (ih xs (by simp <;> omega)).elems E ds n hokS.1 hxs hds hl nxs
          refine ⟨.slice da dsp ds1, n1, by rw [h1]; rfl, hasType_slice_intro hU da dsp t1, ?_⟩
          rw [structEq_slice hU]; exact e1
  | map K V =>
    have hokM := okComp_under he hokT hU rfl
    simp only [okComp, Bool.and_eq_true] at hokM
    obtain ⟨⟨hK, hokV⟩, hzV⟩ := hokM
    unfold topPre at hpre
    rw [hU] at hpre
    rw [top_map hU]
    rcases hasType_map_inv hU hx with rfl | ⟨a, xs, rfl, -, hxs, hdx⟩
    · rcases hasType_map_inv hU hd with rfl | ⟨da, ds, rfl, -, hds, hdd⟩
      · exact ⟨.nilv, n, rfl, hd, by rw [structEq_map hU]⟩
      · simp at hpre
    · rcases hasType_map_inv hU hd with rfl | ⟨da, ds, rfl, -, hds, hdd⟩
      · simp at hpre
      · have hds0 : ds = .snil := by cases ds <;> first | rfl | simp at hpre
        subst hds0
        have nxs : nanFree xs = true := by simpa [nanFree] using hn
        obtain ⟨ds1, n1, h1, t1, d1, -, pa, pc⟩ :=
          (ih xs (by simp <;> omega)).entries K V .snil n hK hokV hzV hxs hdx hds hdd nxs
        refine ⟨.map da ds1, n1, by simp only; rw [h1]; rfl, hasType_map_intro hU da hK t1 d1, ?_⟩
        rw [structEq_map hU]; simp only
        rw [pa, pc (absent_snil xs)]
        simp [slen]
  | _ => rw [hU] at hform; simp at hform

theorem corrOK_step_field (hf : env.flagsOk = true) (he : envOk env = true) (x : Val)
    (ih : ∀ z, sizeOf z < sizeOf x → CorrOK env z)
    (htop : ∀ T dst n, okTop env T = true → hasType env T x = true → hasType env T dst = true →
      nanFree x = true → topPre env T x dst = true → Good env T x (top env T x dst n)) :
    ∀ F prior n, okComp env F = true → hasType env F x = true → hasType env F prior = true →
      nanFree x = true → Good env F x (field env F x prior n) := by
  intro F prior n hok hx hp hn
  cases hc : canCopy env F with
  | true =>
    exact ⟨x, n, field_canCopy hc x prior n, hx, structEq_refl_canCopy hf hc hx hn⟩
  | false =>
    cases hU : env.under F with
    | ptr R =>
      have hokP := okComp_under he hok hU rfl
      simp only [okComp, Bool.and_eq_true, Bool.or_eq_true, Bool.not_eq_true'] at hokP
      obtain ⟨⟨hs, hokR⟩, hzR⟩ := hokP
      rw [field_ptr hc hU]
      rcases hasType_ptr_inv hU hx with rfl | ⟨a, v, rfl, hv⟩
      · exact ⟨.nilv, n, rfl, hx, by rw [structEq_ptr hU]⟩
      · have nv : nanFree v = true := by simpa [nanFree] using hn
        simp only
        split
        · rename_i hcR
          refine ⟨_, _, rfl, hasType_ptr_intro hU n hv, ?_⟩
          rw [structEq_ptr hU]; exact structEq_refl_canCopy hf hcR hv nv
        · rename_i hcR
          have hns : isStructTy R = false := by
            rcases hs with h | h
            · exact h
            · exact absurd h hcR
          have hUP : env.under (.ptr R) = env.under F := by rw [hU]; rfl
          refine Good.congr hUP (htop (.ptr R) _ (n + 1) ?_ ?_ ?_ hn ?_)
          · simp [okTop, okComp, Env.under, hokR, hzR, hns]
          · rw [hasType_congr hUP]; exact hx
          · exact hasType_ptr_intro (T := .ptr R) rfl n hzR
          · simp [topPre, Env.under]
    | array k E =>
      have hokE : okComp env E = true := by
        have := okComp_under he hok hU rfl
        simpa only [okComp] using this
      rw [field_array hc hU]
      obtain ⟨xs, rfl, hxl, hxs⟩ := hasType_array_inv hU hx
      obtain ⟨ds, rfl, hdl, hds⟩ := hasType_array_inv hU hp
      obtain ⟨ds1, n1, h1, t1, e1⟩ := (ih xs (by simp <;> omega)).elems E ds n hokE hxs hds
        (by omega) (by simpa [nanFree] using hn)
      refine ⟨.arr ds1, n1, by simp only; rw [h1]; rfl, ?_, ?_⟩
      · exact hasType_array_intro hU (by rw [← seqEq_slen _ _ e1]; exact hxl) t1
      · rw [structEq_array hU]; exact e1
    | slice E =>
      have hokS := okComp_under he hok hU rfl
      simp only [okComp, Bool.and_eq_true] at hokS
      obtain ⟨hokE, hzE⟩ := hokS
      rcases hasType_slice_inv hU hx with rfl | ⟨a, sp, xs, rfl, hxs⟩
      · exact ⟨.nilv, n, field_slice_nil hc hU prior n, hx, by rw [structEq_slice hU]⟩
      · have nxs : nanFree xs = true := by simpa [nanFree] using hn
        rw [field_slice hc hU]
        obtain ⟨ba, bsp, bs, hbase, hbs, hbl⟩ :=
          sliceBase_typed (env := env) hzE xs.slen (hasType_slice_inv hU hp) n
        rw [hbase]
        split
        · rename_i hcE
          refine ⟨_, _, rfl, hasType_slice_intro hU ba bsp hxs, ?_⟩
          rw [structEq_slice hU]; exact seqEq_refl_canCopy hf hcE hxs nxs
        · have hUS : env.under (.slice E) = env.under F := by rw [hU]; rfl
          refine Good.congr hUS (htop (.slice E) _ _ ?_ ?_ ?_ hn ?_)
          · simp only [okTop, okComp, Env.under, hokE, hzE, Bool.and_self]
          · rw [hasType_congr hUS]; exact hx
          · exact hasType_slice_intro (T := .slice E) rfl ba bsp hbs
          · simp only [topPre, Env.under, hbl, beq_self_eq_true]
    | map K V =>
      have hokM := okComp_under he hok hU rfl
      simp only [okComp, Bool.and_eq_true] at hokM
      obtain ⟨⟨hK, hokV⟩, hzV⟩ := hokM
      rw [field_map hc hU]
      rcases hasType_map_inv hU hx with rfl | ⟨a, xs, rfl, -, hxs, hdx⟩
      · exact ⟨.nilv, n, rfl, hx, by rw [structEq_map hU]⟩
      · have hUM : env.under (.map K V) = env.under F := by rw [hU]; rfl
        simp only
        refine Good.congr hUM (htop (.map K V) _ (n + 1) ?_ ?_ ?_ hn ?_)
        · simp only [okTop, okComp, Env.under, hK, hokV, hzV, Bool.and_self]
        · rw [hasType_congr hUM]; exact hx
        · exact hasType_map_intro (T := .map K V) rfl n hK (by rw [entriesHaveType]) rfl
        · simp [topPre, Env.under]
    | struct fs =>
      obtain ⟨hnamed, hokfs, hzfs⟩ := okComp_struct he hok hU hc
      rw [field_struct hc hU]
      obtain ⟨ss, rfl, hss⟩ := hasType_struct_inv hU hx
      simp only [hnamed, if_true]
      obtain ⟨ds1, n1, h1, t1, e1⟩ := (ih ss (by simp <;> omega)).fields fs _ (n + 1) hokfs hss hzfs
        (by simpa [nanFree] using hn)
      refine ⟨.struct ds1, n1, by rw [h1]; rfl, hasType_struct_intro hU t1, ?_⟩
      rw [structEq_struct hU]; exact e1
    | basic b =>
      have := canEqual_eq_under hf (T := F) (by rw [hU]; simp)
      rw [hU] at this
      rw [show canCopy env F = canEqual env F from rfl, this] at hc
      simp [canEqual] at hc
    | _ => rw [hasType_bad (by rw [hU])] at hx; cases hx

theorem corrOK (hf : env.flagsOk = true) (he : envOk env = true) (x : Val) : CorrOK env x := by
  induction x using valInduction with
  | step x ih =>
    have htop := corrOK_step_top hf he x ih
    exact ⟨corrOK_step_field hf he x ih htop, htop, corrOK_step_fields x ih,
      corrOK_step_elems x ih, corrOK_step_entries hf x ih⟩

end DeepCopy
end Goderive
