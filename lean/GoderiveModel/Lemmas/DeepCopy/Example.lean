/-
Helper lemmas for property C05, part 7: evaluation of the (well-founded) model, typing and
specification on concrete data, and a concrete world for the non-vacuity examples of Props/C05.lean.
-/
import GoderiveModel.Lemmas.DeepCopy.Clone
import GoderiveModel.Lemmas.DeepCopy.Shape

namespace Goderive
namespace DeepCopy
open Val

section Eval
variable (env : Env)

theorem hasType_eval_named (i : Nat) (v : Val) (h : (env.under (.named i)).isNamed = false) :
    hasType env (.named i) v = hasType env (env.under (.named i)) v :=
  hasType_congr (env_under_of_not_named env h).symm v
theorem hasType_eval_basic (b : Basic) (v : Val) : hasType env (.basic b) v = basicHasType b v :=
  hasType.eq_1 env _ v b rfl
theorem hasType_eval_ptr_nil (R : Ty) : hasType env (.ptr R) .nilv = true :=
  hasType.eq_2 env _ R rfl
theorem hasType_eval_ptr (R : Ty) (a : Nat) (v : Val) :
    hasType env (.ptr R) (.ptr a v) = hasType env R v := hasType.eq_3 env _ R a v rfl
theorem hasType_eval_slice_nil (E : Ty) : hasType env (.slice E) .nilv = true :=
  hasType.eq_4 env _ E rfl
theorem hasType_eval_slice (E : Ty) (a s : Nat) (xs : Val) :
    hasType env (.slice E) (.slice a s xs) = allHaveType env E xs := hasType.eq_5 env _ E a s xs rfl
theorem hasType_eval_array (n : Nat) (E : Ty) (xs : Val) :
    hasType env (.array n E) (.arr xs) = (xs.slen == n && allHaveType env E xs) :=
  hasType.eq_6 env _ n E xs rfl
theorem hasType_eval_struct (fs : Ty) (xs : Val) :
    hasType env (.struct fs) (.struct xs) = fieldsHaveType env fs xs := hasType.eq_7 env _ fs xs rfl
theorem hasType_eval_map_nil (K V : Ty) : hasType env (.map K V) .nilv = true :=
  hasType.eq_8 env _ K V rfl
theorem hasType_eval_map (K V : Ty) (a : Nat) (es : Val) :
    hasType env (.map K V) (.map a es) =
      (canEqual env K && entriesHaveType env K V es && keysDistinct es) :=
  hasType.eq_9 env _ K V a es rfl

open Spec in
theorem structEq_eval_named (i : Nat) (x y : Val) (h : (env.under (.named i)).isNamed = false) :
    structEq env (.named i) x y = structEq env (env.under (.named i)) x y :=
  structEq_congr (env_under_of_not_named env h).symm x y
open Spec in
theorem structEq_eval_basic (b : Basic) (x y : Val) : structEq env (.basic b) x y = leafEq x y :=
  structEq_basic rfl x y
open Spec in
theorem structEq_eval_ptr (R : Ty) (x y : Val) :
    structEq env (.ptr R) x y =
      match x, y with
      | .nilv, .nilv => true
      | .ptr _ a, .ptr _ b => structEq env R a b
      | _, _ => false := structEq_ptr rfl x y
open Spec in
theorem structEq_eval_slice (E : Ty) (x y : Val) :
    structEq env (.slice E) x y =
      match x, y with
      | .nilv, .nilv => true
      | .slice _ _ xs, .slice _ _ ys => seqEq env E xs ys
      | _, _ => false := structEq_slice rfl x y
open Spec in
theorem structEq_eval_array (n : Nat) (E : Ty) (x y : Val) :
    structEq env (.array n E) x y =
      match x, y with
      | .arr xs, .arr ys => seqEq env E xs ys
      | _, _ => false := structEq_array rfl x y
open Spec in
theorem structEq_eval_struct (fs : Ty) (x y : Val) :
    structEq env (.struct fs) x y =
      match x, y with
      | .struct xs, .struct ys => fieldsEq env fs xs ys
      | _, _ => false := structEq_struct rfl x y
open Spec in
theorem structEq_eval_map (K V : Ty) (x y : Val) :
    structEq env (.map K V) x y =
      match x, y with
      | .nilv, .nilv => true
      | .map _ xs, .map _ ys => xs.slen == ys.slen && entriesIn env K V xs ys
      | _, _ => false := structEq_map rfl x y

open Spec in
theorem shapeEq_eval_named (i : Nat) (x y : Val) (h : (env.under (.named i)).isNamed = false) :
    shapeEq env (.named i) x y = shapeEq env (env.under (.named i)) x y :=
  shapeEq_congr (env_under_of_not_named env h).symm x y
open Spec in
theorem shapeEq_eval_basic (b : Basic) (x y : Val) : shapeEq env (.basic b) x y = leafBits x y :=
  shapeEq_basic rfl x y
open Spec in
theorem shapeEq_eval_ptr (R : Ty) (x y : Val) :
    shapeEq env (.ptr R) x y =
      match x, y with
      | .nilv, .nilv => true
      | .ptr _ a, .ptr _ b => shapeEq env R a b
      | _, _ => false := shapeEq_ptr rfl x y
open Spec in
theorem shapeEq_eval_slice (E : Ty) (x y : Val) :
    shapeEq env (.slice E) x y =
      match x, y with
      | .nilv, .nilv => true
      | .slice _ _ xs, .slice _ _ ys => seqShape env E xs ys
      | _, _ => false := shapeEq_slice rfl x y
open Spec in
theorem shapeEq_eval_array (n : Nat) (E : Ty) (x y : Val) :
    shapeEq env (.array n E) x y =
      match x, y with
      | .arr xs, .arr ys => seqShape env E xs ys
      | _, _ => false := shapeEq_array rfl x y
open Spec in
theorem shapeEq_eval_struct (fs : Ty) (x y : Val) :
    shapeEq env (.struct fs) x y =
      match x, y with
      | .struct xs, .struct ys => fieldsShape env fs xs ys
      | _, _ => false := shapeEq_struct rfl x y
open Spec in
theorem shapeEq_eval_map (K V : Ty) (x y : Val) :
    shapeEq env (.map K V) x y =
      match x, y with
      | .nilv, .nilv => true
      | .map _ xs, .map _ ys => entriesMatch env K V xs ys
      | _, _ => false := shapeEq_map rfl x y

end Eval

/-- evaluate the well-founded model / spec / typing functions on concrete data (`decide` cannot
unfold well-founded recursion; `simp` with the equation lemmas can) -/
syntax "dc_eval" (" [" Lean.Parser.Tactic.simpLemma,* "]")? : tactic
macro_rules
  | `(tactic| dc_eval) => `(tactic| dc_eval [])
  | `(tactic| dc_eval [$ls,*]) => `(tactic|
      simp +decide [hasType_eval_named, hasType_eval_basic, hasType_eval_ptr_nil, hasType_eval_ptr,
        hasType_eval_slice_nil, hasType_eval_slice, hasType_eval_array, hasType_eval_struct,
        hasType_eval_map_nil, hasType_eval_map, fieldsHaveType, allHaveType, entriesHaveType,
        structEq_eval_named, structEq_eval_basic, structEq_eval_ptr, structEq_eval_slice,
        structEq_eval_array, structEq_eval_struct, structEq_eval_map,
        Spec.fieldsEq, Spec.seqEq, Spec.entriesIn, Spec.valueAt, leafEq, fltEq,
        shapeEq_eval_named, shapeEq_eval_basic, shapeEq_eval_ptr, shapeEq_eval_slice,
        shapeEq_eval_array, shapeEq_eval_struct, shapeEq_eval_map,
        Spec.fieldsShape, Spec.seqShape, Spec.entriesMatch, Spec.takeEntry, leafBits,
        Env.under, Env.decl?, Ty.isNamed, Val.slen, basicHasType, intInRange, keysDistinct,
        keyFresh, goEq, canEqual,
        top, field, fields, elems, entries, clone, zfuel, zeroVal, zeroFields, mapGet, mapSet,
        mapLookup, stake, sdrop, sappend, sreplicate,
        SupportedCopy, SupportedClone, okTop, okClone, okComp, okDecl, envOk, zok, isStructTy,
        topPre, addrs, $ls,*])

/-! ## A concrete world -/

namespace Ex
set_option linter.unusedSimpArgs false

/-!
```go
type Node struct { N int64; P *int64; S []*int64; M map[string]*int64 }   // named 0
```
-/
def pI : Ty := .ptr (.basic (.int 64 true))

def env : Env := { decls := [
  { under := .struct (.fcons (.basic (.int 64 true)) (.fcons pI
      (.fcons (.slice pI) (.fcons (.map (.basic .string) pI) .fnil)))), canEq := false } ] }

/-- `*Node` -/
def tNode : Ty := .ptr (.named 0)

/-- `&Node{N: 7, P: &1, S: []*int64{&2, nil}, M: {"a": &3}}` at addresses 10–15 -/
def src : Val := .ptr 10 (.struct (.scons (.int 7) (.scons (.ptr 11 (.int 1))
  (.scons (.slice 12 0 (.scons (.ptr 13 (.int 2)) (.scons .nilv .snil)))
  (.scons (.map 14 (.scons (.pair (.str [97]) (.ptr 15 (.int 3))) .snil)) .snil)))))

/-- a populated, tree-shaped destination that shares nothing with `src`:
`&Node{N: 0, P: &9, S: []*int64{&8, &8, nil} (one spare slot), M: {"z": &5}}` at addresses 20–26 -/
def dst : Val := .ptr 20 (.struct (.scons (.int 0) (.scons (.ptr 21 (.int 9))
  (.scons (.slice 22 1 (.scons (.ptr 23 (.int 8)) (.scons (.ptr 24 (.int 8)) (.scons .nilv .snil))))
  (.scons (.map 25 (.scons (.pair (.str [122]) (.ptr 26 (.int 5))) .snil)) .snil)))))

/-- the destination after `deriveDeepCopy(dst, src)` with the allocation counter at 30: the pointer
target 20 and the backing array 22 of the prior destination are reused, everything else is fresh -/
def res : Val := .ptr 20 (.struct (.scons (.int 7) (.scons (.ptr 30 (.int 1))
  (.scons (.slice 22 2 (.scons (.ptr 31 (.int 2)) (.scons .nilv .snil)))
  (.scons (.map 32 (.scons (.pair (.str [97]) (.ptr 33 (.int 3))) .snil)) .snil)))))

/-- the result of `deriveClone(src)` with the allocation counter at 30 -/
def cres : Val := .ptr 30 (.struct (.scons (.int 7) (.scons (.ptr 31 (.int 1))
  (.scons (.slice 32 0 (.scons (.ptr 33 (.int 2)) (.scons .nilv .snil)))
  (.scons (.map 34 (.scons (.pair (.str [97]) (.ptr 35 (.int 3))) .snil)) .snil)))))

theorem env_flagsOk : env.flagsOk = true := by decide
theorem supportedCopy : SupportedCopy env tNode = true := by dc_eval [env, tNode, pI]
theorem supportedClone : SupportedClone env tNode = true := by dc_eval [env, tNode, pI]
theorem src_typed : hasType env tNode src = true := by dc_eval [env, tNode, pI, src]
theorem dst_typed : hasType env tNode dst = true := by dc_eval [env, tNode, pI, dst]
theorem src_nanFree : nanFree src = true := by decide
theorem pre : topPre env tNode src dst = true := by dc_eval [env, tNode, src, dst]
theorem run : top env tNode src dst 30 = .ok (res, 34) := by
  dc_eval [env, tNode, pI, src, dst, res]
theorem crun : clone env tNode src 30 = .ok (cres, 36) := by
  dc_eval [env, tNode, pI, src, cres]
theorem res_structEq : Spec.structEq env tNode src res = true := by
  dc_eval [env, tNode, pI, src, res]
theorem src_below : ∀ a ∈ memAddrs src, a < 30 := by decide
theorem dst_below : ∀ a ∈ memAddrs dst, a < 30 := by decide
theorem src_dst_disjoint : ∀ a ∈ memAddrs src, a ∉ memAddrs dst := by decide
theorem dst_tree : (memAddrs dst).Nodup := by decide

/-- `genField` on the slice field alone: source `[]*int64{&2, nil}`, prior `[]*int64{&8, &8, nil}` -/
def fsrc : Val := .slice 12 0 (.scons (.ptr 13 (.int 2)) (.scons .nilv .snil))
def fprior : Val :=
  .slice 22 1 (.scons (.ptr 23 (.int 8)) (.scons (.ptr 24 (.int 8)) (.scons .nilv .snil)))
def fres : Val := .slice 22 2 (.scons (.ptr 30 (.int 2)) (.scons .nilv .snil))
theorem fsrc_typed : hasType env (.slice pI) fsrc = true := by dc_eval [env, pI, fsrc]
theorem frun : field env (.slice pI) fsrc fprior 30 = .ok (fres, 31) := by
  dc_eval [env, pI, fsrc, fprior, fres]

end Ex
/-! ## A second world: recursive type, array of pointers, nested named struct, `[]byte` -/

namespace Ex2
set_option linter.unusedSimpArgs false

/-!
```go
type L     struct { V [2]*int64; Next *L; In Inner }   // named 0
type Inner struct { B []byte }                          // named 1
```
-/
def pI : Ty := .ptr (.basic (.int 64 true))

def env : Env := { decls := [
  { under := .struct (.fcons (.array 2 pI) (.fcons (.ptr (.named 0)) (.fcons (.named 1) .fnil))),
    canEq := false },
  { under := .struct (.fcons (.slice (.basic (.int 8 false))) .fnil), canEq := false } ] }

/-- `*L` -/
def tL : Ty := .ptr (.named 0)

def inner (b : Val) : Val := .struct (.scons b .snil)

/-- `&L{V: {&1, nil}, Next: &L{V: {nil, &4}}, In: Inner{B: []byte{5} (cap 4)}}` at addresses 1–5 -/
def src : Val := .ptr 1 (.struct (.scons (.arr (.scons (.ptr 2 (.int 1)) (.scons .nilv .snil)))
  (.scons (.ptr 3 (.struct (.scons (.arr (.scons .nilv (.scons (.ptr 4 (.int 4)) .snil)))
    (.scons .nilv (.scons (inner .nilv) .snil)))))
  (.scons (inner (.slice 5 3 (.scons (.int 5) .snil))) .snil))))

/-- `deriveClone(src)` with the allocation counter at 10 (14 and 15 are the `new(Inner)` temporaries of
the two struct-valued fields, which the result does not reference) -/
def cres : Val := .ptr 10 (.struct (.scons (.arr (.scons (.ptr 11 (.int 1)) (.scons .nilv .snil)))
  (.scons (.ptr 12 (.struct (.scons (.arr (.scons .nilv (.scons (.ptr 13 (.int 4)) .snil)))
    (.scons .nilv (.scons (inner .nilv) .snil)))))
  (.scons (inner (.slice 16 0 (.scons (.int 5) .snil))) .snil))))

theorem env_flagsOk : env.flagsOk = true := by decide
theorem supportedCopy : SupportedCopy env tL = true := by dc_eval [env, tL, pI]
theorem supportedClone : SupportedClone env tL = true := by dc_eval [env, tL, pI]
theorem src_typed : hasType env tL src = true := by dc_eval [env, tL, pI, src, inner]
theorem src_nanFree : nanFree src = true := by decide
theorem src_below : ∀ a ∈ memAddrs src, a < 10 := by decide
theorem crun : clone env tL src 10 = .ok (cres, 17) := by
  dc_eval [env, tL, pI, src, cres, inner]

end Ex2

/-! ## Outside the precondition on the top-level form the copy is not equal (the destination is
passed by value, so the emitted code cannot change its nil-ness or remove foreign map keys) -/

namespace Ex3
set_option linter.unusedSimpArgs false

def env : Env := { decls := [] }
def tS : Ty := .slice (.ptr (.basic (.int 64 true)))
def tM : Ty := .map (.basic .string) (.ptr (.basic (.int 64 true)))

/-- nil source slice, empty non-nil destination: the destination stays non-nil -/
theorem slice_nil_into_empty :
    top env tS .nilv (.slice 1 0 .snil) 10 = .ok (.slice 1 0 .snil, 10) ∧
    Spec.structEq env tS .nilv (.slice 1 0 .snil) = false := by
  constructor <;> dc_eval [env, tS]

/-- map source `{"a": &3}`, destination already holding `"z"`: the foreign key survives -/
theorem map_into_populated :
    top env tM (.map 1 (.scons (.pair (.str [97]) (.ptr 2 (.int 3))) .snil))
      (.map 3 (.scons (.pair (.str [122]) (.ptr 4 (.int 5))) .snil)) 10 =
      .ok (.map 3 (.scons (.pair (.str [122]) (.ptr 4 (.int 5)))
        (.scons (.pair (.str [97]) (.ptr 10 (.int 3))) .snil)), 11) ∧
    Spec.structEq env tM (.map 1 (.scons (.pair (.str [97]) (.ptr 2 (.int 3))) .snil))
      (.map 3 (.scons (.pair (.str [122]) (.ptr 4 (.int 5)))
        (.scons (.pair (.str [97]) (.ptr 10 (.int 3))) .snil))) = false := by
  constructor <;> dc_eval [env, tM]

end Ex3

/-! ## A fourth world: NaN leaves and NaN map keys (two entries under the SAME NaN bit pattern) -/

namespace Ex4
set_option linter.unusedSimpArgs false

/-!
```go
type W struct { F float32; M map[float32]*int64 }   // named 0
```
-/
def pI : Ty := .ptr (.basic (.int 64 true))
def f32 : Ty := .basic (.float 32)

def env : Env := { decls := [
  { under := .struct (.fcons f32 (.fcons (.map f32 pI) .fnil)), canEq := false } ] }

/-- `*W` -/
def tW : Ty := .ptr (.named 0)

/-- a quiet NaN of width 32 with payload 1 (`0x7FC00001`) -/
def nan : Nat := 2143289345

/-- `&W{F: NaN, M: {NaN: &1, NaN: &2, 1.5: nil}}` at addresses 1–4: both NaN keys have the same bits -/
def src : Val := .ptr 1 (.struct (.scons (.flt 32 nan)
  (.scons (.map 2 (.scons (.pair (.flt 32 nan) (.ptr 3 (.int 1)))
    (.scons (.pair (.flt 32 nan) (.ptr 4 (.int 2)))
    (.scons (.pair (.flt 32 1069547520) .nilv) .snil)))) .snil)))

/-- prior destination `&W{F: 0, M: {NaN: &9}}` at addresses 5–7 -/
def dst : Val := .ptr 5 (.struct (.scons (.flt 32 0)
  (.scons (.map 6 (.scons (.pair (.flt 32 nan) (.ptr 7 (.int 9))) .snil)) .snil)))

/-- after `deriveDeepCopy(dst, src)` with the counter at 10: the field `M` is a new map (10) -/
def res : Val := .ptr 5 (.struct (.scons (.flt 32 nan)
  (.scons (.map 10 (.scons (.pair (.flt 32 nan) (.ptr 11 (.int 1)))
    (.scons (.pair (.flt 32 nan) (.ptr 12 (.int 2)))
    (.scons (.pair (.flt 32 1069547520) .nilv) .snil)))) .snil)))

/-- `deriveClone(src)` with the counter at 10 -/
def cres : Val := .ptr 10 (.struct (.scons (.flt 32 nan)
  (.scons (.map 11 (.scons (.pair (.flt 32 nan) (.ptr 12 (.int 1)))
    (.scons (.pair (.flt 32 nan) (.ptr 13 (.int 2)))
    (.scons (.pair (.flt 32 1069547520) .nilv) .snil)))) .snil)))

theorem env_flagsOk : env.flagsOk = true := by decide
theorem supportedCopy : SupportedCopy env tW = true := by dc_eval [env, tW, pI, f32]
theorem supportedClone : SupportedClone env tW = true := by dc_eval [env, tW, pI, f32]
theorem nan_isNaN : fltIsNaN 32 nan = true := by decide
theorem src_typed : hasType env tW src = true := by dc_eval [env, tW, pI, f32, src, nan]
theorem dst_typed : hasType env tW dst = true := by dc_eval [env, tW, pI, f32, dst, nan]
theorem src_not_nanFree : nanFree src = false := by decide
theorem pre : topPre env tW src dst = true := by dc_eval [env, tW, src, dst]
theorem run : top env tW src dst 10 = .ok (res, 13) := by
  dc_eval [env, tW, pI, f32, src, dst, res, nan]
theorem crun : clone env tW src 10 = .ok (cres, 14) := by
  dc_eval [env, tW, pI, f32, src, cres, nan]
/-- Go's equality rejects the perfect copy (and the source itself) … -/
theorem res_not_structEq : Spec.structEq env tW src res = false := by
  dc_eval [env, tW, pI, f32, src, res, nan]
theorem src_not_structEq : Spec.structEq env tW src src = false := by
  dc_eval [env, tW, pI, f32, src, nan]
/-- … the bit-level one accepts it, and rejects a copy that lost the second NaN entry or holds another
NaN payload -/
theorem res_shapeEq : Spec.shapeEq env tW src res = true := by
  dc_eval [env, tW, pI, f32, src, res, nan]
def lost : Val := .ptr 5 (.struct (.scons (.flt 32 nan)
  (.scons (.map 10 (.scons (.pair (.flt 32 nan) (.ptr 11 (.int 1)))
    (.scons (.pair (.flt 32 1069547520) .nilv) .snil))) .snil)))
theorem lost_not_shapeEq : Spec.shapeEq env tW src lost = false := by
  dc_eval [env, tW, pI, f32, src, lost, nan]
def twice : Val := .ptr 5 (.struct (.scons (.flt 32 nan)
  (.scons (.map 10 (.scons (.pair (.flt 32 nan) (.ptr 11 (.int 1)))
    (.scons (.pair (.flt 32 nan) (.ptr 12 (.int 1)))
    (.scons (.pair (.flt 32 1069547520) .nilv) .snil)))) .snil)))
theorem twice_not_shapeEq : Spec.shapeEq env tW src twice = false := by
  dc_eval [env, tW, pI, f32, src, twice, nan]
theorem src_below : ∀ a ∈ memAddrs src, a < 10 := by decide
theorem dst_below : ∀ a ∈ memAddrs dst, a < 10 := by decide
theorem src_dst_disjoint : ∀ a ∈ memAddrs src, a ∉ memAddrs dst := by decide
theorem dst_tree : (memAddrs dst).Nodup := by decide

end Ex4

end DeepCopy
end Goderive
