/-
Helper lemmas for property C05, part 2: the shape of the DeepCopy model once the underlying type is
known, and facts about spines, zero values and addresses.
-/
import GoderiveModel.Lemmas.DeepCopy.Base

namespace Goderive
namespace DeepCopy
open Val

/-! ## Spine helpers -/

theorem slen_sreplicate (k : Nat) (z : Val) : (sreplicate k z).slen = k := by
  induction k with
  | zero => rfl
  | succ k ih => simp only [sreplicate, slen, ih]

theorem slen_sappend_of_all {env : Env} {E : Ty} :
    ∀ xs ys : Val, allHaveType env E xs = true → (sappend xs ys).slen = xs.slen + ys.slen := by
  intro xs
  induction xs using valInduction with
  | step xs ih =>
  intro ys hx
  rcases allHaveType_inv hx with rfl | ⟨a, r, rfl, -, hr⟩
  · simp [sappend, slen]
  · simp only [sappend, slen, ih r (by simp <;> omega) ys hr]; omega

theorem slen_stake_of_all {env : Env} {E : Ty} :
    ∀ (k : Nat) (xs : Val), allHaveType env E xs = true → k ≤ xs.slen → (stake k xs).slen = k := by
  intro k
  induction k with
  | zero => intro xs _ _; cases xs <;> rfl
  | succ k ih =>
    intro xs hx hk
    rcases allHaveType_inv hx with rfl | ⟨a, r, rfl, -, hr⟩
    · simp [slen] at hk
    · simp only [slen] at hk
      simp only [stake, slen, ih r hr (by omega)]

theorem allHaveType_sreplicate {env : Env} {E : Ty} {z : Val} (hz : hasType env E z = true) :
    ∀ k, allHaveType env E (sreplicate k z) = true := by
  intro k
  induction k with
  | zero => rw [sreplicate, allHaveType]
  | succ k ih => rw [sreplicate, allHaveType, hz, ih]; rfl

theorem allHaveType_sappend {env : Env} {E : Ty} :
    ∀ xs ys : Val, allHaveType env E xs = true → allHaveType env E ys = true →
      allHaveType env E (sappend xs ys) = true := by
  intro xs
  induction xs using valInduction with
  | step xs ih =>
  intro ys hx hy
  rcases allHaveType_inv hx with rfl | ⟨a, r, rfl, ha, hr⟩
  · simpa [sappend] using hy
  · rw [sappend, allHaveType, ha, ih r (by simp <;> omega) ys hr hy]; rfl

theorem allHaveType_stake {env : Env} {E : Ty} :
    ∀ (k : Nat) (xs : Val), allHaveType env E xs = true → allHaveType env E (stake k xs) = true := by
  intro k
  induction k with
  | zero => intro xs _; cases xs <;> rw [stake, allHaveType]
  | succ k ih =>
    intro xs hx
    rcases allHaveType_inv hx with rfl | ⟨a, r, rfl, ha, hr⟩
    · simp only [stake]; rw [allHaveType]
    · rw [stake, allHaveType, ha, ih r hr]; rfl

/-- `copy(dst, src)` with equal lengths yields the source elements -/
theorem copy_same_len {env : Env} {E : Ty} :
    ∀ ss ds : Val, allHaveType env E ss = true → allHaveType env E ds = true → ss.slen = ds.slen →
      sappend (stake ds.slen ss) (sdrop ss.slen ds) = ss := by
  intro ss
  induction ss using valInduction with
  | step ss ih =>
  intro ds hs hd hl
  rcases allHaveType_inv hs with rfl | ⟨a, r, rfl, -, hr⟩
  · rcases allHaveType_inv hd with rfl | ⟨b, s, rfl, -, -⟩
    · rfl
    · simp [slen] at hl
  · rcases allHaveType_inv hd with rfl | ⟨b, s, rfl, -, hs'⟩
    · simp [slen] at hl
    · simp only [slen] at hl ⊢
      simp only [stake, sdrop, sappend]
      rw [ih r (by simp <;> omega) s hr hs' (by omega)]

/-! ## Zero values carry no address -/

theorem addrs_sreplicate {z : Val} (hz : addrs z = []) : ∀ k, addrs (sreplicate k z) = [] := by
  intro k
  induction k with
  | zero => rfl
  | succ k ih => simp [sreplicate, addrs, hz, ih]

theorem addrs_zero (env : Env) : ∀ f : Nat,
    (∀ T, addrs (zeroVal env f T) = []) ∧ (∀ fs, addrs (zeroFields env f fs) = []) := by
  intro f
  induction f with
  | zero => exact ⟨fun T => by rw [zeroVal]; rfl, fun fs => by rw [zeroFields]; rfl⟩
  | succ f ih =>
    refine ⟨?_, ?_⟩
    · intro T
      rw [zeroVal]
      split <;> try rfl
      · simp only [addrs]; exact addrs_sreplicate (ih.1 _) _
      · simp only [addrs]; exact ih.2 _
    · intro fs
      cases fs with
      | fcons T rest => rw [zeroFields]; simp [addrs, ih.1, ih.2]
      | _ => simp only [zeroFields]; rfl

theorem addrs_zeroVal (env : Env) (f : Nat) (T : Ty) : addrs (zeroVal env f T) = [] :=
  (addrs_zero env f).1 T

theorem addrs_zeroFields (env : Env) (f : Nat) (fs : Ty) : addrs (zeroFields env f fs) = [] :=
  (addrs_zero env f).2 fs

/-! ## Values of a `canCopy` type carry no address -/

structure AddrsNil (env : Env) (x : Val) : Prop where
  val : ∀ T, canEqual env T = true → hasType env T x = true → addrs x = []
  seq : ∀ E, canEqual env E = true → allHaveType env E x = true → addrs x = []
  flds : ∀ fs, canEqual env fs = true → fieldsHaveType env fs x = true → addrs x = []

theorem addrsNil {env : Env} (hf : env.flagsOk = true) (x : Val) : AddrsNil env x := by
  induction x using valInduction with
  | step x ih =>
  refine ⟨?_, ?_, ?_⟩
  · intro T hc hx
    have hcU := canEqual_under hf hc
    have hnn := env_under_not_named hf T
    cases hU : env.under T with
    | basic b =>
      rw [hasType_basic hU] at hx
      cases x <;> first | rfl | (cases b <;> simp [basicHasType] at hx)
    | array n E =>
      obtain ⟨xs, rfl, -, hxs⟩ := hasType_array_inv hU hx
      rw [hU] at hcU
      exact (ih xs (by simp <;> omega)).seq E hcU hxs
    | struct fs =>
      obtain ⟨xs, rfl, hxs⟩ := hasType_struct_inv hU hx
      rw [hU] at hcU
      exact (ih xs (by simp <;> omega)).flds fs hcU hxs
    | named i => rw [hU] at hnn; simp [Ty.isNamed] at hnn
    | fnil => rw [hasType_bad (by rw [hU])] at hx; cases hx
    | fcons _ _ => rw [hasType_bad (by rw [hU])] at hx; cases hx
    | _ => rw [hU] at hcU; simp [canEqual] at hcU
  · intro E hc hx
    rcases allHaveType_inv hx with rfl | ⟨a, r, rfl, ha, hr⟩
    · rfl
    · simp only [addrs]
      rw [(ih a (by simp <;> omega)).val E hc ha, (ih r (by simp <;> omega)).seq E hc hr]; rfl
  · intro fs hc hx
    rcases fieldsHaveType_inv hx with ⟨rfl, rfl⟩ | ⟨F, rest, a, r, rfl, rfl, ha, hr⟩
    · rfl
    · simp only [canEqual, Bool.and_eq_true] at hc
      simp only [addrs]
      rw [(ih a (by simp <;> omega)).val F hc.1 ha, (ih r (by simp <;> omega)).flds rest hc.2 hr]; rfl

theorem addrs_of_canCopy {env : Env} (hf : env.flagsOk = true) {T : Ty} {x : Val}
    (hc : canCopy env T = true) (hx : hasType env T x = true) : addrs x = [] :=
  (addrsNil hf x).val T hc hx

theorem addrs_of_canCopy_seq {env : Env} (hf : env.flagsOk = true) {E : Ty} {xs : Val}
    (hc : canCopy env E = true) (hx : allHaveType env E xs = true) : addrs xs = [] :=
  (addrsNil hf xs).seq E hc hx

/-! ## Addresses of spine operations -/

theorem addrs_sappend_sublist : ∀ x y : Val, (addrs (sappend x y)).Sublist (addrs x ++ addrs y) := by
  intro x
  induction x using valInduction with
  | step x ih =>
  intro y
  cases x with
  | scons h t =>
    simp only [sappend, addrs, List.append_assoc]
    exact (ih t (by simp <;> omega) y).append_left _
  | _ => simp only [sappend]; exact List.sublist_append_right _ _

theorem addrs_stake_sublist : ∀ (k : Nat) (x : Val), (addrs (stake k x)).Sublist (addrs x) := by
  intro k
  induction k with
  | zero => intro x; cases x <;> exact List.nil_sublist _
  | succ k ih =>
    intro x
    cases x with
    | scons h t => simp only [stake, addrs]; exact (ih t).append_left _
    | _ => exact List.nil_sublist _

theorem addrs_sdrop_sublist : ∀ (k : Nat) (x : Val), (addrs (sdrop k x)).Sublist (addrs x) := by
  intro k
  induction k with
  | zero => intro x; cases x <;> exact List.Sublist.refl _
  | succ k ih =>
    intro x
    cases x with
    | scons h t =>
      simp only [sdrop, addrs]
      exact (ih t).trans (List.sublist_append_right _ _)
    | _ => exact List.nil_sublist _

/-! ## The slice reuse logic of `genField`, as a function -/

/-- the backing array the destination slice uses after the `len`/`cap` tests of `genField`:
the prior one (resliced) when its capacity suffices, otherwise a fresh one -/
def sliceBase (z : Val) (L : Nat) (prior : Val) (n : St) : Val × St :=
  match prior with
  | .slice da dsp ds =>
    if L > ds.slen then
      (if ds.slen + dsp ≥ L then (.slice da (ds.slen + dsp - L) (sappend ds (sreplicate (L - ds.slen) z)), n)
       else (.slice n 0 (sreplicate L z), n + 1))
    else if L < ds.slen then (.slice da (dsp + (ds.slen - L)) (stake L ds), n)
    else (prior, n)
  | _ => (.slice n 0 (sreplicate L z), n + 1)

theorem sliceBase_isSlice (z : Val) (L : Nat) (prior : Val) (n : St) :
    ∃ a sp bs, (sliceBase z L prior n).1 = .slice a sp bs := by
  unfold sliceBase
  split
  · split
    · split <;> exact ⟨_, _, _, rfl⟩
    · split <;> exact ⟨_, _, _, rfl⟩
  · exact ⟨_, _, _, rfl⟩

/-! ## Shape of the model once the underlying type is known -/

theorem top_ptr {env : Env} {T R : Ty} (hU : env.under T = .ptr R) (src dst : Val) (n : St) :
    top env T src dst n =
      match src, dst with
      | .ptr _ s, .ptr da d =>
        match env.under R with
        | .struct fs =>
          if R.isNamed then
            if fs = .fnil then .ok (dst, n) else
            match s, d with
            | .struct ss, .struct ds => do
                let (ds', n') ← fields env fs ss ds n
                .ok (.ptr da (.struct ds'), n')
            | _, _ => .panic
          else .panic
        | _ => do
            let (d', n') ← field env R s d n
            .ok (.ptr da d', n')
      | _, _ =>
        match env.under R with
        | .struct .fnil => if R.isNamed then .ok (dst, n) else .panic
        | _ => .panic := by
  rw [top.eq_def]; simp only [hU]; rfl

theorem top_slice {env : Env} {T E : Ty} (hU : env.under T = .slice E) (src dst : Val) (n : St) :
    top env T src dst n =
      match src, dst with
      | .nilv, d => .ok (d, n)
      | .slice _ _ ss, .nilv =>
        if ss.slen == 0 || canCopy env E then .ok (.nilv, n) else .panic
      | .slice _ _ ss, .slice da dsp ds =>
        if canCopy env E then
          .ok (.slice da dsp (sappend (stake ds.slen ss) (sdrop ss.slen ds)), n)
        else do
          let (ds', n') ← elems env E ss ds n
          .ok (.slice da dsp ds', n')
      | _, _ => .panic := by
  rw [top.eq_def]; simp only [hU]; rfl

theorem top_map {env : Env} {T K V : Ty} (hU : env.under T = .map K V) (src dst : Val) (n : St) :
    top env T src dst n =
      match src, dst with
      | .nilv, d => .ok (d, n)
      | .map _ ss, .nilv => if ss.slen == 0 then .ok (.nilv, n) else .panic
      | .map _ ss, .map da ds => do
          let (ds', n') ← entries env V ss ds n
          .ok (.map da ds', n')
      | _, _ => .panic := by
  rw [top.eq_def]; simp only [hU]; rfl

theorem top_other {env : Env} {T : Ty}
    (hU : (match env.under T with | .ptr _ | .slice _ | .map _ _ => false | _ => true) = true)
    (src dst : Val) (n : St) : top env T src dst n = .panic := by
  rw [top.eq_def]
  cases h : env.under T <;> simp_all

theorem field_canCopy {env : Env} {F : Ty} (hc : canCopy env F = true) (src prior : Val) (n : St) :
    field env F src prior n = .ok (src, n) := by
  rw [field.eq_def]; simp only [hc, if_true]

theorem field_ptr {env : Env} {F R : Ty} (hc : canCopy env F = false) (hU : env.under F = .ptr R)
    (src prior : Val) (n : St) :
    field env F src prior n =
      match src with
      | .nilv => .ok (.nilv, n)
      | .ptr a s =>
        if canCopy env R then .ok (.ptr n s, n + 1)
        else top env (.ptr R) (.ptr a s) (.ptr n (zeroVal env (zfuel env) R)) (n + 1)
      | _ => .panic := by
  rw [field.eq_def]; simp only [hc, hU, Bool.false_eq_true, if_false]; rfl

theorem field_array {env : Env} {F E : Ty} {k : Nat} (hc : canCopy env F = false)
    (hU : env.under F = .array k E) (src prior : Val) (n : St) :
    field env F src prior n =
      match src, prior with
      | .arr ss, .arr ds => do
          let (ds', n') ← elems env E ss ds n
          .ok (.arr ds', n')
      | _, _ => .panic := by
  rw [field.eq_def]; simp only [hc, hU, Bool.false_eq_true, if_false]; rfl

theorem field_slice_nil {env : Env} {F E : Ty} (hc : canCopy env F = false)
    (hU : env.under F = .slice E) (prior : Val) (n : St) :
    field env F .nilv prior n = .ok (.nilv, n) := by
  rw [field.eq_def]; simp only [hc, hU, Bool.false_eq_true, if_false]

theorem field_slice {env : Env} {F E : Ty} (hc : canCopy env F = false)
    (hU : env.under F = .slice E) (sa ssp : Nat) (ss prior : Val) (n : St) :
    field env F (.slice sa ssp ss) prior n =
      if canCopy env E then
        match (sliceBase (zeroVal env (zfuel env) E) ss.slen prior n).1 with
        | .slice a sp _ => .ok (.slice a sp ss, (sliceBase (zeroVal env (zfuel env) E) ss.slen prior n).2)
        | _ => .panic
      else top env (.slice E) (.slice sa ssp ss)
        (sliceBase (zeroVal env (zfuel env) E) ss.slen prior n).1
        (sliceBase (zeroVal env (zfuel env) E) ss.slen prior n).2 := by
  rw [field.eq_def]; simp only [hc, hU, Bool.false_eq_true, if_false]
  unfold sliceBase
  cases prior <;> rfl

theorem field_map {env : Env} {F K V : Ty} (hc : canCopy env F = false)
    (hU : env.under F = .map K V) (src prior : Val) (n : St) :
    field env F src prior n =
      match src with
      | .nilv => .ok (.nilv, n)
      | .map sa ss => top env (.map K V) (.map sa ss) (.map n .snil) (n + 1)
      | _ => .panic := by
  rw [field.eq_def]; simp only [hc, hU, Bool.false_eq_true, if_false]; rfl

theorem field_struct {env : Env} {F fs : Ty} (hc : canCopy env F = false)
    (hU : env.under F = .struct fs) (src prior : Val) (n : St) :
    field env F src prior n =
      if F.isNamed then
        match src with
        | .struct ss => do
            let (ds', n') ← fields env fs ss (zeroFields env (zfuel env) fs) (n + 1)
            .ok (.struct ds', n')
        | _ => .panic
      else .panic := by
  rw [field.eq_def]; simp only [hc, hU, Bool.false_eq_true, if_false]; rfl

theorem field_other {env : Env} {F : Ty} (hc : canCopy env F = false)
    (hU : (match env.under F with
      | .ptr _ | .slice _ | .map _ _ | .array _ _ | .struct _ => false | _ => true) = true)
    (src prior : Val) (n : St) : field env F src prior n = .panic := by
  rw [field.eq_def]; simp only [hc, Bool.false_eq_true, if_false]
  cases h : env.under F <;> simp_all

/-- inversion of a monadic step -/
theorem bind_ok_inv {α β : Type} {r : Res α} {f : α → Res β} {b : β}
    (h : (r >>= f) = .ok b) : ∃ a, r = .ok a ∧ f a = .ok b := by
  cases r with
  | ok a => exact ⟨a, rfl, h⟩
  | panic => cases h

end DeepCopy
end Goderive
