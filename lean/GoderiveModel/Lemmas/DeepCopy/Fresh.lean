/-
Helper lemmas for property C05, part 3: freshness and tree shape.

`FTL l l' n n'` relates the address list `l` of a prior destination, the address list `l'` of the
destination after a call, and the allocation counter before (`n`) and after (`n'`):
every address of the result is an address of the prior destination or was allocated by the call,
and if the prior destination is tree-shaped and below the counter, the result is tree-shaped.
-/
import GoderiveModel.Lemmas.DeepCopy.Model

namespace Goderive
namespace DeepCopy
open Val

structure FTL (l l' : List Nat) (n n' : Nat) : Prop where
  le : n ≤ n'
  sub : ∀ a ∈ l', a ∈ l ∨ (n ≤ a ∧ a < n')
  nodup : l.Nodup → (∀ a ∈ l, a < n) → l'.Nodup

namespace FTL

theorem refl (l : List Nat) (n : Nat) : FTL l l n n :=
  ⟨Nat.le_refl _, fun _ h => Or.inl h, fun h _ => h⟩

theorem of_sublist {l l' : List Nat} (n : Nat) (h : l'.Sublist l) : FTL l l' n n :=
  ⟨Nat.le_refl _, fun _ m => Or.inl (h.subset m), fun hn _ => hn.sublist h⟩

theorem nil (l : List Nat) {n n' : Nat} (h : n ≤ n') : FTL l [] n n' :=
  ⟨h, fun _ m => (by cases m), fun _ _ => List.nodup_nil⟩

theorem fresh1 (l : List Nat) (n : Nat) : FTL l [n] n (n + 1) :=
  ⟨Nat.le_succ _, fun a m => by
      have : a = n := by simpa using m
      exact Or.inr (by omega),
    fun _ _ => by simp⟩

theorem trans {l0 l1 l2 : List Nat} {n0 n1 n2 : Nat} (h1 : FTL l0 l1 n0 n1) (h2 : FTL l1 l2 n1 n2) :
    FTL l0 l2 n0 n2 := by
  have := h1.le
  have := h2.le
  refine ⟨by omega, ?_, ?_⟩
  · intro a m
    rcases h2.sub a m with h | h
    · rcases h1.sub a h with h' | h'
      · exact Or.inl h'
      · exact Or.inr (by omega)
    · exact Or.inr (by omega)
  · intro hn hb
    refine h2.nodup (h1.nodup hn hb) ?_
    intro a m
    rcases h1.sub a m with h | h
    · have := hb a h; omega
    · omega

theorem append {la la' lb lb' : List Nat} {n n1 n2 : Nat} (h1 : FTL la la' n n1)
    (h2 : FTL lb lb' n1 n2) : FTL (la ++ lb) (la' ++ lb') n n2 := by
  have := h1.le
  have := h2.le
  refine ⟨by omega, ?_, ?_⟩
  · intro a m
    rcases List.mem_append.1 m with m | m
    · rcases h1.sub a m with h | h
      · exact Or.inl (List.mem_append_left _ h)
      · exact Or.inr (by omega)
    · rcases h2.sub a m with h | h
      · exact Or.inl (List.mem_append_right _ h)
      · exact Or.inr (by omega)
  · intro hnd hb
    rw [List.nodup_append] at hnd ⊢
    obtain ⟨ha, hbn, hdis⟩ := hnd
    refine ⟨h1.nodup ha (fun a m => hb a (List.mem_append_left _ m)),
      h2.nodup hbn (fun a m => by have := hb a (List.mem_append_right _ m); omega), ?_⟩
    intro x hx y hy hxy
    subst hxy
    rcases h1.sub x hx with h | h <;> rcases h2.sub x hy with h' | h'
    · exact hdis x h x h' rfl
    · have := hb x (List.mem_append_left _ h); omega
    · have := hb x (List.mem_append_right _ h'); omega
    · omega

theorem cons (a : Nat) {l l' : List Nat} {n n' : Nat} (h : FTL l l' n n') :
    FTL (a :: l) (a :: l') n n' :=
  (refl [a] n).append h

/-- the call started later and from a part of the prior destination -/
theorem shift {l0 l l' : List Nat} {n n1 n' : Nat} (hle : n ≤ n1) (hs : l0.Sublist l)
    (h : FTL l0 l' n1 n') : FTL l l' n n' := by
  have := h.le
  refine ⟨by omega, ?_, ?_⟩
  · intro a m
    rcases h.sub a m with h' | h'
    · exact Or.inl (hs.subset h')
    · exact Or.inr (by omega)
  · intro hn hb
    exact h.nodup (hn.sublist hs) (fun a m => by have := hb a (hs.subset m); omega)

/-- the call allocated `n` for the destination object and then worked on it -/
theorem alloc {l l' : List Nat} {n n' : Nat} (h : FTL [n] l' (n + 1) n') : FTL l l' n n' := by
  have := h.le
  refine ⟨by omega, ?_, ?_⟩
  · intro a m
    rcases h.sub a m with h' | h'
    · have : a = n := by simpa using h'
      exact Or.inr (by omega)
    · exact Or.inr (by omega)
  · intro _ _
    exact h.nodup (by simp) (fun a m => by have : a = n := by simpa using m
                                           omega)

end FTL

/-! ## `mapSet` and the slice reuse logic -/

theorem mapSet_FTL {k v' : Val} {n n1 : Nat} (hk : addrs k = []) :
    ∀ ds : Val, FTL [] (addrs v') n n1 →
      FTL (addrs ds) (addrs (mapSet k v' ds)) n n1 := by
  intro ds
  induction ds using valInduction with
  | step ds ih =>
  intro h
  have hdefault : ∀ ds : Val, mapSet k v' ds = .scons (.pair k v') .snil →
      FTL (addrs ds) (addrs (mapSet k v' ds)) n n1 := by
    intro ds hs
    rw [hs]
    simp only [addrs, hk, List.nil_append, List.append_nil]
    exact FTL.shift (Nat.le_refl _) (List.nil_sublist _) h
  cases ds with
  | scons hd tl =>
    cases hd with
    | pair k' w =>
      cases hg : goEq k k' with
      | true =>
        simp only [mapSet, hg, if_true, addrs]
        exact ((FTL.refl _ n).append (FTL.shift (Nat.le_refl _) (List.nil_sublist _) h)).append
          (FTL.refl _ n1)
      | false =>
        have := ih tl (by simp <;> omega) h
        simp only [mapSet, hg, Bool.false_eq_true, if_false, addrs]
        exact (FTL.refl _ n).append this
    | _ => exact hdefault _ rfl
  | _ => exact hdefault _ rfl

theorem sliceBase_FTL {z : Val} (hz : addrs z = []) (L : Nat) (prior : Val) (n : Nat) :
    FTL (addrs prior) (addrs (sliceBase z L prior n).1) n (sliceBase z L prior n).2 := by
  have hfresh : FTL (addrs prior) (addrs (Val.slice n 0 (sreplicate L z))) n (n + 1) := by
    simp only [addrs, addrs_sreplicate hz]
    exact FTL.fresh1 _ _
  unfold sliceBase
  split
  · rename_i da dsp ds
    split
    · split
      · simp only [addrs]
        refine FTL.of_sublist n (List.Sublist.cons_cons _ ?_)
        have := addrs_sappend_sublist ds (sreplicate (L - ds.slen) z)
        rwa [addrs_sreplicate hz, List.append_nil] at this
      · exact hfresh
    · split
      · simp only [addrs]
        exact FTL.of_sublist n (List.Sublist.cons_cons _ (addrs_stake_sublist _ _))
      · exact FTL.refl _ _
  · exact hfresh

/-! ## The joint induction -/

/-- the result of a call that had `prior` as destination and started at counter `n` -/
def FT (prior : Val) (n : St) (r : Res (Val × St)) : Prop :=
  ∀ d' n', r = .ok (d', n') → FTL (addrs prior) (addrs d') n n'

structure FreshOK (env : Env) (x : Val) : Prop where
  field : ∀ F prior n, hasType env F x = true → FT prior n (field env F x prior n)
  top : ∀ T dst n, hasType env T x = true → FT dst n (top env T x dst n)
  fields : ∀ fs ds n, fieldsHaveType env fs x = true → FT ds n (fields env fs x ds n)
  elems : ∀ E ds n, allHaveType env E x = true → FT ds n (elems env E x ds n)
  entries : ∀ K V ds n, canEqual env K = true → entriesHaveType env K V x = true →
    FT ds n (entries env V x ds n)

variable {env : Env}

theorem freshOK_step_fields (x : Val) (ih : ∀ z, sizeOf z < sizeOf x → FreshOK env z) :
    ∀ fs ds n, fieldsHaveType env fs x = true → FT ds n (fields env fs x ds n) := by
  intro fs ds n hx d' n' h
  rcases fieldsHaveType_inv hx with ⟨rfl, rfl⟩ | ⟨F, rest, a, r, rfl, rfl, ha, hr⟩
  · cases ds <;> simp [fields] at h
    obtain ⟨rfl, rfl⟩ := h
    exact FTL.refl _ _
  · cases ds <;> try (simp [fields] at h; done)
    rename_i d ds2
    rw [fields] at h
    obtain ⟨⟨d1, n1⟩, h1, h⟩ := bind_ok_inv h
    obtain ⟨⟨r2, n2⟩, h2, h⟩ := bind_ok_inv h
    cases h
    have A := (ih a (by simp <;> omega)).field F d n ha d1 n1 h1
    have B := (ih r (by simp <;> omega)).fields rest ds2 n1 hr r2 _ h2
    simp only [addrs]
    exact A.append B

theorem freshOK_step_elems (x : Val) (ih : ∀ z, sizeOf z < sizeOf x → FreshOK env z) :
    ∀ E ds n, allHaveType env E x = true → FT ds n (elems env E x ds n) := by
  intro E ds n hx d' n' h
  rcases allHaveType_inv hx with rfl | ⟨a, r, rfl, ha, hr⟩
  · rw [elems] at h
    cases h
    exact FTL.refl _ _
  · cases ds <;> try (simp [elems] at h; done)
    rename_i d ds2
    rw [elems] at h
    obtain ⟨⟨d1, n1⟩, h1, h⟩ := bind_ok_inv h
    obtain ⟨⟨r2, n2⟩, h2, h⟩ := bind_ok_inv h
    cases h
    have A := (ih a (by simp <;> omega)).field E d n ha d1 n1 h1
    have B := (ih r (by simp <;> omega)).elems E ds2 n1 hr r2 _ h2
    simp only [addrs]
    exact A.append B

theorem freshOK_step_entries (hf : env.flagsOk = true) (x : Val)
    (ih : ∀ z, sizeOf z < sizeOf x → FreshOK env z) :
    ∀ K V ds n, canEqual env K = true → entriesHaveType env K V x = true →
      FT ds n (entries env V x ds n) := by
  intro K V ds n hK hx d' n' h
  rcases entriesHaveType_inv hx with rfl | ⟨k, v, r, rfl, hk, hv, hr⟩
  · rw [entries] at h
    cases h
    exact FTL.refl _ _
  · rw [entries] at h
    obtain ⟨⟨v1, n1⟩, h1, h⟩ := bind_ok_inv h
    have A := (ih v (by simp <;> omega)).field V _ n hv v1 n1 h1
    have B := (ih r (by simp <;> omega)).entries K V _ n1 hK hr d' n' h
    rw [addrs_zeroVal] at A
    exact (mapSet_FTL (addrs_of_canCopy hf hK hk) ds A).trans B

theorem top_ptr_fallback {env : Env} {R : Ty} {dst d' : Val} {n n' : St}
    (h : (match env.under R with
      | .struct .fnil => if R.isNamed then Res.ok (dst, n) else .panic
      | _ => .panic) = .ok (d', n')) : d' = dst ∧ n' = n := by
  split at h
  · split at h
    · cases h; exact ⟨rfl, rfl⟩
    · cases h
  · cases h

theorem freshOK_step_top (hf : env.flagsOk = true) (x : Val)
    (ih : ∀ z, sizeOf z < sizeOf x → FreshOK env z) :
    ∀ T dst n, hasType env T x = true → FT dst n (top env T x dst n) := by
  intro T dst n hx d' n' h
  cases hU : env.under T with
  | ptr R =>
    rw [top_ptr hU] at h
    rcases hasType_ptr_inv hU hx with rfl | ⟨a, v, rfl, hv⟩
    · obtain ⟨rfl, rfl⟩ := top_ptr_fallback h
      exact FTL.refl _ _
    · cases dst with
      | ptr da d =>
        simp only at h
        split at h
        · rename_i fs hR
          split at h
          · split at h
            · cases h; exact FTL.refl _ _
            · obtain ⟨ss, rfl, hss⟩ := hasType_struct_inv hR hv
              cases d <;> try (cases h; done)
              rename_i ds
              simp only at h
              obtain ⟨⟨ds1, n1⟩, h1, h⟩ := bind_ok_inv h
              cases h
              have A := (ih ss (by simp <;> omega)).fields fs ds n hss ds1 _ h1
              simp only [addrs]
              exact A.cons da
          · cases h
        · obtain ⟨⟨d1, n1⟩, h1, h⟩ := bind_ok_inv h
          cases h
          have A := (ih v (by simp <;> omega)).field R d n hv d1 _ h1
          simp only [addrs]
          exact A.cons da
      | _ =>
        obtain ⟨rfl, rfl⟩ := top_ptr_fallback h
        exact FTL.refl _ _
  | slice E =>
    rw [top_slice hU] at h
    rcases hasType_slice_inv hU hx with rfl | ⟨a, sp, xs, rfl, hxs⟩
    · cases h; exact FTL.refl _ _
    · cases dst with
      | nilv =>
        simp only at h
        split at h
        · cases h; exact FTL.refl _ _
        · cases h
      | slice da dsp ds =>
        simp only at h
        split at h
        · rename_i hc
          cases h
          simp only [addrs]
          refine FTL.of_sublist n (List.Sublist.cons_cons _ ?_)
          have h1 := addrs_sappend_sublist (stake ds.slen xs) (sdrop xs.slen ds)
          have h2 := addrs_stake_sublist ds.slen xs
          rw [addrs_of_canCopy_seq hf hc hxs] at h2
          rw [List.eq_nil_of_sublist_nil h2, List.nil_append] at h1
          exact h1.trans (addrs_sdrop_sublist _ _)
        · obtain ⟨⟨ds1, n1⟩, h1, h⟩ := bind_ok_inv h
          cases h
          have A := (ih xs (by simp <;> omega)).elems E ds n hxs ds1 _ h1
          simp only [addrs]
          exact A.cons da
      | _ => cases h
  | map K V =>
    rw [top_map hU] at h
    rcases hasType_map_inv hU hx with rfl | ⟨a, xs, rfl, hK, hxs, -⟩
    · cases h; exact FTL.refl _ _
    · cases dst with
      | nilv =>
        simp only at h
        split at h
        · cases h; exact FTL.refl _ _
        · cases h
      | map da ds =>
        simp only at h
        obtain ⟨⟨ds1, n1⟩, h1, h⟩ := bind_ok_inv h
        cases h
        have A := (ih xs (by simp <;> omega)).entries K V ds n hK hxs ds1 _ h1
        simp only [addrs]
        exact A.cons da
      | _ => cases h
  | _ => rw [top_other (by rw [hU])] at h; cases h

theorem freshOK_step_field (hf : env.flagsOk = true) (x : Val)
    (ih : ∀ z, sizeOf z < sizeOf x → FreshOK env z)
    (htop : ∀ T dst n, hasType env T x = true → FT dst n (top env T x dst n)) :
    ∀ F prior n, hasType env F x = true → FT prior n (field env F x prior n) := by
  intro F prior n hx d' n' h
  cases hc : canCopy env F with
  | true =>
    rw [field_canCopy hc] at h
    cases h
    rw [addrs_of_canCopy hf hc hx]
    exact FTL.nil _ (Nat.le_refl _)
  | false =>
    cases hU : env.under F with
    | ptr R =>
      rw [field_ptr hc hU] at h
      rcases hasType_ptr_inv hU hx with rfl | ⟨a, v, rfl, hv⟩
      · cases h; exact FTL.nil _ (Nat.le_refl _)
      · simp only at h
        split at h
        · rename_i hcR
          cases h
          simp only [addrs, addrs_of_canCopy hf hcR hv]
          exact FTL.fresh1 _ _
        · have hx' : hasType env (.ptr R) (.ptr a v) = true := by
            rw [hasType_congr (T' := F) (by rw [hU]; rfl)]; exact hx
          have A := htop (.ptr R) _ (n + 1) hx' d' n' h
          simp only [addrs, addrs_zeroVal] at A
          exact A.alloc
    | array k E =>
      rw [field_array hc hU] at h
      obtain ⟨xs, rfl, -, hxs⟩ := hasType_array_inv hU hx
      cases prior <;> try (cases h; done)
      rename_i ds
      simp only at h
      obtain ⟨⟨ds1, n1⟩, h1, h⟩ := bind_ok_inv h
      cases h
      have A := (ih xs (by simp <;> omega)).elems E ds n hxs ds1 _ h1
      simpa only [addrs] using A
    | slice E =>
      rcases hasType_slice_inv hU hx with rfl | ⟨a, sp, xs, rfl, hxs⟩
      · rw [field_slice_nil hc hU] at h
        cases h; exact FTL.nil _ (Nat.le_refl _)
      · rw [field_slice hc hU] at h
        have hb := sliceBase_FTL (addrs_zeroVal env (zfuel env) E) xs.slen prior n
        split at h
        · rename_i hcE
          obtain ⟨ba, bsp, bs, hbase⟩ := sliceBase_isSlice (zeroVal env (zfuel env) E) xs.slen prior n
          rw [hbase] at h hb
          simp only at h
          cases h
          refine hb.trans ?_
          simp only [addrs, addrs_of_canCopy_seq hf hcE hxs]
          exact FTL.of_sublist _ (List.Sublist.cons_cons _ (List.nil_sublist _))
        · have hx' : hasType env (.slice E) (.slice a sp xs) = true := by
            rw [hasType_congr (T' := F) (by rw [hU]; rfl)]; exact hx
          exact hb.trans (htop (.slice E) _ _ hx' d' n' h)
    | map K V =>
      rw [field_map hc hU] at h
      rcases hasType_map_inv hU hx with rfl | ⟨a, xs, rfl, hK, hxs, hd⟩
      · cases h; exact FTL.nil _ (Nat.le_refl _)
      · simp only at h
        have hx' : hasType env (.map K V) (.map a xs) = true := by
          rw [hasType_congr (T' := F) (by rw [hU]; rfl)]; exact hx
        have A := htop (.map K V) _ (n + 1) hx' d' n' h
        simp only [addrs] at A
        exact A.alloc
    | struct fs =>
      rw [field_struct hc hU] at h
      obtain ⟨ss, rfl, hss⟩ := hasType_struct_inv hU hx
      split at h
      · simp only at h
        obtain ⟨⟨ds1, n1⟩, h1, h⟩ := bind_ok_inv h
        cases h
        have A := (ih ss (by simp <;> omega)).fields fs _ (n + 1) hss ds1 _ h1
        rw [addrs_zeroFields] at A
        simp only [addrs]
        exact FTL.shift (Nat.le_succ _) (List.nil_sublist _) A
      · cases h
    | _ => rw [field_other hc (by rw [hU])] at h; cases h

theorem freshOK (hf : env.flagsOk = true) (x : Val) : FreshOK env x := by
  induction x using valInduction with
  | step x ih =>
    have htop := freshOK_step_top hf x ih
    exact ⟨freshOK_step_field hf x ih htop, htop, freshOK_step_fields x ih,
      freshOK_step_elems x ih, freshOK_step_entries hf x ih⟩

end DeepCopy
end Goderive
