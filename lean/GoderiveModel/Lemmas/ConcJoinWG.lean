/-
Inductive invariant of K/JoinWG (the WaitGroup join: chan-of-chan and slice-of-chan forms).

I1 `wgc`     wg = #{i < n | forwarder i live} + [pc = go]      (`wait.Add(1)` precedes `go`)
I2 `abs`     forwarder i absent ↔ k ≤ i
I3 `allFin`  pc ∈ {close, fin} → every forwarder finished      (Wait fires only at wg = 0)
I4 `outCl`   out closed ↔ pc = fin                              (so no send is enabled once closed)
I5 `deliv`   items i = received|ᵢ ++ held i ++ buffered i ++ pending i
-/
import GoderiveModel.K.JoinWG
import GoderiveModel.Lemmas.ConcCount

namespace Goderive.K.JoinWG

structure InvW (c : Cfg) (s : State) : Prop where
  np : s.panicked = false
  wgc : s.wg = count (fun i => live (s.st i)) c.n + (if s.pc = .go then 1 else 0)
  abs : ∀ i, s.st i = .absent ↔ s.k ≤ i
  kle : s.k ≤ c.n
  outer : s.k + (if s.pc = .add ∨ s.pc = .go then 1 else 0) + s.obuf + s.orem = c.n
  oclosedRem : s.oclosed = true → s.orem = 0
  slice : c.chanForm = false → s.oclosed = true
  waitK : (s.pc = .wait ∨ s.pc = .close ∨ s.pc = .fin) → s.k = c.n
  allFin : (s.pc = .close ∨ s.pc = .fin) → ∀ i, i < c.n → s.st i = .finished ∨ s.st i = .skipped
  outCl : s.outClosed = true ↔ s.pc = .fin
  deliv : ∀ i, i < c.n → c.items i = gotOf s.got i ++ held (s.st i) ++ (s.ch i).buf ++ s.pend i
  drained : ∀ i, (s.st i = .doneCall ∨ s.st i = .finished) → (s.ch i).closed = true ∧ (s.ch i).buf = []
  closedPend : ∀ i, (s.ch i).closed = true → s.pend i = []
  seenC : s.seen = true → s.outClosed = true
  caps : ∀ i, (s.ch i).cap = c.cap i
  inLen : ∀ i, (s.ch i).buf.length ≤ (s.ch i).cap

/-- one turn of the dispatcher's loop head preserves the invariant -/
theorem invW_take (c : Cfg) (s : State) (hi : InvW c s) (hpc : s.pc = .next)
    (hen : 0 < s.obuf ∨ s.oclosed = true) : InvW c (take c s) := by
  unfold take
  have ho := hi.outer
  simp only [hpc] at ho
  have hwg := hi.wgc
  simp only [hpc] at hwg
  have hoc := hi.outCl
  simp only [hpc] at hoc
  by_cases hb : 0 < s.obuf
  · simp only [hb, if_true]
    by_cases hs : c.seen s.k = true
    · -- `continue`: the position is skipped, the dispatcher stays at the loop head
      simp only [hs, if_true]
      simp at ho
      have hkn : s.k < c.n := by omega
      have habs : s.st s.k = .absent := (hi.abs s.k).mpr (Nat.le_refl _)
      refine ⟨hi.np, ?_, ?_, ?_, ?_, hi.oclosedRem, hi.slice, ?_, ?_, ?_, ?_, ?_, hi.closedPend, hi.seenC,
        hi.caps, hi.inLen⟩
      · have h2 := count_upd_lt live s.st s.k FSt.skipped c.n hkn
        rw [habs] at h2
        have e1 : live FSt.absent = false := rfl
        have e2 : live FSt.skipped = false := rfl
        simp only [e1, e2] at h2
        simp only [hpc]
        simp at hwg h2 ⊢
        omega
      · intro i
        simp only [upd]
        by_cases hik : i = s.k
        · subst hik; simp
        · simp only [hik, if_false]; rw [hi.abs i]; omega
      · show s.k + 1 ≤ c.n; omega
      · simp only [hpc]; simp; omega
      · intro h; simp only [hpc] at h; simp at h
      · intro h; simp only [hpc] at h; simp at h
      · simp only [hpc]; simpa using hoc
      · intro i hin
        have := hi.deliv i hin
        simp only [upd]
        by_cases hik : i = s.k
        · subst hik; simp only [if_true]; rw [habs] at this; simpa [held] using this
        · simp only [hik, if_false]; exact this
      · intro i h
        simp only [upd] at h
        by_cases hik : i = s.k
        · simp [hik] at h
        · simp only [hik, if_false] at h; exact hi.drained i h
    · simp only [hs]
      refine ⟨hi.np, ?_, hi.abs, hi.kle, ?_, hi.oclosedRem, hi.slice, ?_, ?_, ?_, hi.deliv, hi.drained,
        hi.closedPend, hi.seenC, hi.caps, hi.inLen⟩
      · simpa using hwg
      · simp at ho ⊢; omega
      · intro h; simp at h
      · intro h; simp at h
      · simpa using hoc
  · simp only [hb, if_false]
    have hcl : s.oclosed = true := by rcases hen with h | h; exact absurd h hb; exact h
    have hrem := hi.oclosedRem hcl
    refine ⟨hi.np, ?_, hi.abs, hi.kle, ?_, hi.oclosedRem, hi.slice, ?_, ?_, ?_, hi.deliv, hi.drained,
      hi.closedPend, hi.seenC, hi.caps, hi.inLen⟩
    · simpa using hwg
    · simp at ho ⊢; omega
    · intro _; show s.k = c.n; simp at ho; omega
    · intro h; simp at h
    · simpa using hoc

theorem take_pc (c : Cfg) (s : State) (hpc : s.pc = .next) :
    ((take c s).pc = .next ∧ 0 < s.obuf ∧ (take c s).obuf = s.obuf - 1 ∧ (take c s).oclosed = s.oclosed) ∨
    ((take c s).pc ≠ .next) := by
  unfold take
  by_cases hb : 0 < s.obuf
  · by_cases hs : c.seen s.k = true
    · simp [hb, hs, hpc]
    · simp [hb, hs]
  · simp [hb]

/-- the invariant: `InvW`, and in the slice form the dispatcher is never parked at the loop head -/
def Inv (c : Cfg) (s : State) : Prop := InvW c s ∧ (c.chanForm = false → s.pc ≠ .next)

/-- slice form: iterating `take` (fuel ≥ buffered positions) preserves the invariant and leaves the loop head -/
theorem inv_advance (c : Cfg) : ∀ (f : Nat) (s : State), InvW c s → s.pc = .next → s.oclosed = true →
    s.obuf ≤ f → Inv c (advance c f s)
  | 0, s, hi, hpc, hcl, hf => by
    simp only [advance]
    refine ⟨invW_take c s hi hpc (Or.inr hcl), fun _ => ?_⟩
    rcases take_pc c s hpc with h | h
    · omega
    · exact h
  | f + 1, s, hi, hpc, hcl, hf => by
    simp only [advance]
    have hw := invW_take c s hi hpc (Or.inr hcl)
    rcases take_pc c s hpc with h | h
    · simp only [h.1, if_true]
      exact inv_advance c f (take c s) hw h.1 (by rw [h.2.2.2]; exact hcl) (by omega)
    · simp only [h, if_false]
      exact ⟨hw, fun _ => h⟩

theorem invW_pre (c : Cfg) (orem obuf : Nat) (ocl : Bool) (h1 : obuf + orem = c.n)
    (h2 : ocl = true → orem = 0) (h3 : c.chanForm = false → ocl = true) :
    InvW c { orem := orem, obuf := obuf, oclosed := ocl, k := 0, pc := .next, wg := 0,
             pend := c.items, ch := fun i => Chan.mk0 (c.cap i), st := fun _ => .absent,
             outClosed := false, got := [], seen := false, panicked := false } := by
  refine ⟨rfl, ?_, ?_, ?_, ?_, h2, h3, ?_, ?_, ?_, ?_, ?_, ?_, ?_, ?_, ?_⟩ <;>
    simp [live, count_all_false, held, gotOf_nil, Chan.mk0]
  · exact h1

theorem inv_init (c : Cfg) : Inv c (init c) := by
  unfold init
  by_cases hf : c.chanForm = true
  · simp only [hf, if_true]
    exact ⟨invW_pre c c.n 0 false (by omega) (by simp) (by simp [hf]), by simp [hf]⟩
  · simp only [hf]
    exact inv_advance c c.n _ (invW_pre c 0 c.n true (by omega) (by simp) (by simp)) rfl rfl (Nat.le_refl _)

theorem count_pos_of (p : Nat → Bool) (n i : Nat) (hi : i < n) (hp : p i = true) : 0 < count p n := by
  cases h : count p n with
  | zero => have := count_zero p n h i hi; rw [hp] at this; cases this
  | succ m => omega

theorem inv_env_outer (c : Cfg) (s s' : State) (hi : Inv c s)
    (hs : step c s .oSend = some s' ∨ step c s .oClose = some s') : Inv c s' := by
  obtain ⟨hw, hsl⟩ := hi
  rcases hs with hs | hs
  · simp only [step, hw.np, Bool.false_eq_true, if_false] at hs
    split at hs
    · next hc =>
      obtain ⟨hcf, hrem, hcl⟩ := hc
      split at hs
      · cases hs
        have ho := hw.outer
        refine ⟨⟨rfl, hw.wgc, hw.abs, hw.kle, ?_, ?_, hw.slice, hw.waitK, hw.allFin, hw.outCl, hw.deliv,
          hw.drained, hw.closedPend, hw.seenC, hw.caps, hw.inLen⟩, hsl⟩
        · show s.k + (if s.pc = .add ∨ s.pc = .go then 1 else 0) + (s.obuf + 1) + (s.orem - 1) = c.n
          omega
        · intro h; rw [hcl] at h; cases h
      · split at hs
        · next hj =>
          obtain ⟨_, hpc⟩ := hj
          cases hs
          have ho := hw.outer
          -- the hand-over = the producer's push followed at once by the dispatcher's take
          have hw1 : InvW c { s with orem := s.orem - 1, obuf := s.obuf + 1, panicked := false } := by
            refine ⟨rfl, hw.wgc, hw.abs, hw.kle, ?_, ?_, hw.slice, hw.waitK, hw.allFin, hw.outCl, hw.deliv,
              hw.drained, hw.closedPend, hw.seenC, hw.caps, hw.inLen⟩
            · show s.k + (if s.pc = .add ∨ s.pc = .go then 1 else 0) + (s.obuf + 1) + (s.orem - 1) = c.n
              omega
            · intro h; rw [hcl] at h; cases h
          exact ⟨invW_take c _ hw1 hpc (Or.inl (by show 0 < s.obuf + 1; omega)), by simp [hcf]⟩
        · cases hs
    · cases hs
  · simp only [step, hw.np, Bool.false_eq_true, if_false] at hs
    split at hs
    · next hc =>
      cases hs
      exact ⟨⟨rfl, hw.wgc, hw.abs, hw.kle, hw.outer, fun _ => hc.2.1, fun _ => rfl, hw.waitK, hw.allFin,
        hw.outCl, hw.deliv, hw.drained, hw.closedPend, hw.seenC, hw.caps, hw.inLen⟩, hsl⟩
    · cases hs

theorem inv_spNext (c : Cfg) (s s' : State) (hi : Inv c s) (hs : step c s .spNext = some s') : Inv c s' := by
  obtain ⟨hw, hsl⟩ := hi
  simp only [step, hw.np, Bool.false_eq_true, if_false] at hs
  split at hs
  · next hc =>
    cases hs
    have := invW_take c s hw hc.2.1 hc.2.2
    exact ⟨by simpa [hw.np] using this, by simp [hc.1]⟩
  · cases hs

theorem inv_spAdd (c : Cfg) (s s' : State) (hi : Inv c s) (hs : step c s .spAdd = some s') : Inv c s' := by
  obtain ⟨hw, hsl⟩ := hi
  simp only [step, hw.np, Bool.false_eq_true, if_false] at hs
  split at hs
  · next hpc =>
    cases hs
    have ho := hw.outer
    simp only [hpc] at ho
    refine ⟨⟨rfl, ?_, hw.abs, hw.kle, ?_, hw.oclosedRem, hw.slice, ?_, ?_, ?_, hw.deliv,
      hw.drained, hw.closedPend, hw.seenC, hw.caps, hw.inLen⟩, by simp⟩
    · have := hw.wgc; simp only [hpc] at this; simp at this ⊢; omega
    · simp at ho ⊢; omega
    · intro h; simp at h
    · intro h; simp at h
    · have := hw.outCl; simp only [hpc] at this; simpa using this
  · cases hs

/-- the state right after `go` (dispatcher back at the loop head) satisfies the invariant -/
theorem invW_afterGo (c : Cfg) (s : State) (hw : InvW c s) (hpc : s.pc = .go) :
    InvW c { s with st := upd s.st s.k .recv, k := s.k + 1, pc := .next } := by
  have ho := hw.outer
  simp only [hpc] at ho
  simp at ho
  have hkn : s.k < c.n := by omega
  have habs : s.st s.k = .absent := (hw.abs s.k).mpr (Nat.le_refl _)
  refine ⟨hw.np, ?_, ?_, ?_, ?_, hw.oclosedRem, hw.slice, ?_, ?_, ?_, ?_, ?_, hw.closedPend, hw.seenC,
    hw.caps, hw.inLen⟩
  · have h1 := hw.wgc
    simp only [hpc] at h1
    have h2 := count_upd_lt live s.st s.k FSt.recv c.n hkn
    rw [habs] at h2
    have e1 : live FSt.absent = false := rfl
    have e2 : live FSt.recv = true := rfl
    simp only [e1, e2] at h2
    simp at h1 h2 ⊢
    omega
  · intro i
    simp only [upd]
    by_cases hik : i = s.k
    · subst hik; simp
    · simp only [hik, if_false]; rw [hw.abs i]; omega
  · show s.k + 1 ≤ c.n; omega
  · simp; omega
  · intro h; simp at h
  · intro h; simp at h
  · have := hw.outCl; simp only [hpc] at this; simpa using this
  · intro i hin
    have := hw.deliv i hin
    simp only [upd]
    by_cases hik : i = s.k
    · subst hik; simp only [if_true]; rw [habs] at this; simpa [held] using this
    · simp only [hik, if_false]; exact this
  · intro i h
    simp only [upd] at h
    by_cases hik : i = s.k
    · simp [hik] at h
    · simp only [hik, if_false] at h; exact hw.drained i h

theorem inv_spGo (c : Cfg) (s s' : State) (hi : Inv c s) (hs : step c s .spGo = some s') : Inv c s' := by
  obtain ⟨hw, hsl⟩ := hi
  simp only [step, hw.np, Bool.false_eq_true, if_false] at hs
  split at hs
  · next hpc =>
    have ho := hw.outer
    simp only [hpc] at ho
    simp at ho
    have hkn : s.k < c.n := by omega
    have habs : s.st s.k = .absent := (hw.abs s.k).mpr (Nat.le_refl _)
    have hw1 := invW_afterGo c s hw hpc
    by_cases hf : c.chanForm = true
    · simp only [hf, if_true, Option.some.injEq] at hs
      subst hs
      exact ⟨by simpa [hw.np] using hw1, by simp [hf]⟩
    · simp only [hf, Option.some.injEq] at hs
      subst hs
      have hcl : s.oclosed = true := hw.slice (by simpa using hf)
      have := inv_advance c s.obuf _ hw1 rfl hcl (Nat.le_refl _)
      simpa [hw.np] using this
  · cases hs

theorem inv_spWait (c : Cfg) (s s' : State) (hi : Inv c s) (hs : step c s .spWait = some s') : Inv c s' := by
  obtain ⟨hw, hsl⟩ := hi
  simp only [step, hw.np, Bool.false_eq_true, if_false] at hs
  split at hs
  · next hc =>
    obtain ⟨hpc, hwg⟩ := hc
    cases hs
    have ho := hw.outer
    simp only [hpc] at ho
    have hk := hw.waitK (Or.inl hpc)
    have hcnt : count (fun i => live (s.st i)) c.n = 0 := by
      have := hw.wgc; simp only [hpc] at this; simp at this; omega
    refine ⟨⟨rfl, ?_, hw.abs, hw.kle, ?_, hw.oclosedRem, hw.slice, ?_, ?_, ?_, hw.deliv,
      hw.drained, hw.closedPend, hw.seenC, hw.caps, hw.inLen⟩, by simp⟩
    · simp; omega
    · simp at ho ⊢; omega
    · intro _; exact hk
    · intro _ i hin
      have hl := count_zero _ c.n hcnt i hin
      have hna : s.st i ≠ .absent := by
        intro h; have := (hw.abs i).mp h; omega
      show s.st i = .finished ∨ s.st i = .skipped
      cases h : s.st i <;> simp_all [live]
    · have := hw.outCl; simp only [hpc] at this; simpa using this
  · cases hs

theorem inv_spClose (c : Cfg) (s s' : State) (hi : Inv c s) (hs : step c s .spClose = some s') : Inv c s' := by
  obtain ⟨hw, hsl⟩ := hi
  simp only [step, hw.np, Bool.false_eq_true, if_false] at hs
  split at hs
  · next hpc =>
    have hoc : s.outClosed = false := by
      cases h : s.outClosed
      · rfl
      · have := hw.outCl.mp h; rw [hpc] at this; cases this
    simp only [hoc, Bool.false_eq_true, if_false, Option.some.injEq] at hs
    subst hs
    have ho := hw.outer
    simp only [hpc] at ho
    refine ⟨⟨rfl, ?_, hw.abs, hw.kle, ?_, hw.oclosedRem, hw.slice, ?_, ?_, ?_, hw.deliv,
      hw.drained, hw.closedPend, ?_, hw.caps, hw.inLen⟩, by simp⟩
    · have := hw.wgc; simp only [hpc] at this; simpa using this
    · simp at ho ⊢; omega
    · intro _; exact hw.waitK (Or.inr (Or.inl hpc))
    · intro _; exact hw.allFin (Or.inl hpc)
    · simp
    · intro _; rfl
  · cases hs

theorem inv_pSend (c : Cfg) (s s' : State) (i : Nat) (hi : Inv c s) (hs : step c s (.pSend i) = some s') :
    Inv c s' := by
  obtain ⟨hw, hsl⟩ := hi
  simp only [step, hw.np, Bool.false_eq_true, if_false] at hs
  split at hs
  · cases hs
  · next hin =>
    have hin : i < c.n := by omega
    split at hs
    · cases hs
    · next v rest hp =>
      split at hs
      · cases hs
      · next hncl =>
        have hncl : (s.ch i).closed = false := by simpa using hncl
        split at hs
        · next hroom =>
          cases hs
          refine ⟨⟨rfl, hw.wgc, hw.abs, hw.kle, hw.outer, hw.oclosedRem, hw.slice, hw.waitK, hw.allFin,
            hw.outCl, ?_, ?_, ?_, hw.seenC, ?_, ?_⟩, hsl⟩
          · intro j hjn
            have := hw.deliv j hjn
            by_cases hj : j = i
            · subst hj; simp only [upd_same]; rw [this, hp]; simp
            · simp only [upd_other _ _ _ _ hj]; exact this
          · intro j h
            by_cases hj : j = i
            · subst hj
              have := (hw.drained j h).1
              rw [hncl] at this; cases this
            · simp only [upd_other _ _ _ _ hj]; exact hw.drained j h
          · intro j h
            by_cases hj : j = i
            · subst hj; simp only [upd_same] at h; rw [hncl] at h; cases h
            · simp only [upd_other _ _ _ _ hj] at h ⊢; exact hw.closedPend j h
          · intro j
            by_cases hj : j = i
            · subst hj; simp only [upd_same]; exact hw.caps j
            · simp only [upd_other _ _ _ _ hj]; exact hw.caps j
          · intro j
            by_cases hj : j = i
            · subst hj; simp only [upd_same]; simp; omega
            · simp only [upd_other _ _ _ _ hj]; exact hw.inLen j
        · split at hs
          · next hj =>
            obtain ⟨hcap, hst⟩ := hj
            cases hs
            have hbuf : (s.ch i).buf = [] :=
              List.eq_nil_of_length_eq_zero (by have := hw.inLen i; omega)
            have hnotfin : ¬ (s.pc = .close ∨ s.pc = .fin) := by
              intro h
              have := hw.allFin h i hin
              rw [hst] at this; rcases this with h' | h' <;> cases h'
            refine ⟨⟨rfl, ?_, ?_, hw.kle, hw.outer, hw.oclosedRem, hw.slice, hw.waitK, ?_,
              hw.outCl, ?_, ?_, ?_, hw.seenC, hw.caps, hw.inLen⟩, hsl⟩
            · have h1 := hw.wgc
              have h2 := count_upd_lt live s.st i (FSt.send v) c.n hin
              rw [hst] at h2
              have e1 : live FSt.recv = true := rfl
              have e2 : live (FSt.send v) = true := rfl
              simp only [e1, e2, if_true] at h2
              show s.wg = count (fun j => live (upd s.st i (FSt.send v) j)) c.n + (if s.pc = .go then 1 else 0)
              omega
            · intro j
              by_cases hj : j = i
              · subst hj; simp only [upd_same]
                have := hw.abs j
                rw [hst] at this
                constructor
                · intro h; cases h
                · intro h; have := this.mpr h; cases this
              · simp only [upd_other _ _ _ _ hj]; exact hw.abs j
            · intro h; exact absurd h hnotfin
            · intro j hjn
              have := hw.deliv j hjn
              by_cases hj : j = i
              · subst hj; simp only [upd_same]; rw [this, hp, hst, hbuf]; simp [held]
              · simp only [upd_other _ _ _ _ hj]; exact this
            · intro j h
              by_cases hj : j = i
              · subst hj; simp only [upd_same] at h; rcases h with h | h <;> cases h
              · simp only [upd_other _ _ _ _ hj] at h; exact hw.drained j h
            · intro j h
              by_cases hj : j = i
              · subst hj; rw [hncl] at h; cases h
              · simp only [upd_other _ _ _ _ hj]; exact hw.closedPend j h
          · cases hs

theorem inv_pClose (c : Cfg) (s s' : State) (i : Nat) (hi : Inv c s) (hs : step c s (.pClose i) = some s') :
    Inv c s' := by
  obtain ⟨hw, hsl⟩ := hi
  simp only [step, hw.np, Bool.false_eq_true, if_false] at hs
  split at hs
  · cases hs
  · split at hs
    · next hc =>
      obtain ⟨hp, hncl⟩ := hc
      cases hs
      refine ⟨⟨rfl, hw.wgc, hw.abs, hw.kle, hw.outer, hw.oclosedRem, hw.slice, hw.waitK, hw.allFin,
        hw.outCl, ?_, ?_, ?_, hw.seenC, ?_, ?_⟩, hsl⟩
      · intro j hjn
        have := hw.deliv j hjn
        by_cases hj : j = i
        · subst hj; simp only [upd_same]; exact this
        · simp only [upd_other _ _ _ _ hj]; exact this
      · intro j h
        by_cases hj : j = i
        · subst hj
          have := (hw.drained j h).1
          rw [hncl] at this; cases this
        · simp only [upd_other _ _ _ _ hj]; exact hw.drained j h
      · intro j h
        by_cases hj : j = i
        · subst hj; exact hp
        · simp only [upd_other _ _ _ _ hj] at h; exact hw.closedPend j h
      · intro j
        by_cases hj : j = i
        · subst hj; simp only [upd_same]; exact hw.caps j
        · simp only [upd_other _ _ _ _ hj]; exact hw.caps j
      · intro j
        by_cases hj : j = i
        · subst hj; simp only [upd_same]; exact hw.inLen j
        · simp only [upd_other _ _ _ _ hj]; exact hw.inLen j
    · cases hs

/-- a forwarder status change at `i` between two live, non-absent statuses -/
theorem wgc_live_upd (c : Cfg) (s : State) (i : Nat) (x : FSt) (hin : i < c.n) (hw : InvW c s)
    (h1 : live (s.st i) = true) (h2 : live x = true) :
    s.wg = count (fun j => live (upd s.st i x j)) c.n + (if s.pc = .go then 1 else 0) := by
  have := count_upd_lt live s.st i x c.n hin
  simp only [h1, h2, if_true] at this
  have := hw.wgc
  omega

theorem abs_upd (c : Cfg) (s : State) (i : Nat) (x : FSt) (hw : InvW c s)
    (h1 : s.st i ≠ .absent) (h2 : x ≠ .absent) : ∀ j, upd s.st i x j = .absent ↔ s.k ≤ j := by
  intro j
  by_cases hj : j = i
  · subst hj; simp only [upd_same]
    constructor
    · intro h; exact absurd h h2
    · intro h; exact absurd ((hw.abs j).mpr h) h1
  · simp only [upd_other _ _ _ _ hj]; exact hw.abs j

theorem inv_fRecv (c : Cfg) (s s' : State) (i : Nat) (hi : Inv c s) (hs : step c s (.fRecv i) = some s') :
    Inv c s' := by
  obtain ⟨hw, hsl⟩ := hi
  simp only [step, hw.np, Bool.false_eq_true, if_false] at hs
  split at hs
  · cases hs
  · next hin =>
    have hin : i < c.n := by omega
    split at hs
    · next hst =>
      have hnotfin : ¬ (s.pc = .close ∨ s.pc = .fin) := by
        intro h
        have := hw.allFin h i hin
        rw [hst] at this; rcases this with h' | h' <;> cases h'
      have hlive : live (s.st i) = true := by rw [hst]; rfl
      have hna : s.st i ≠ .absent := by rw [hst]; intro h; cases h
      split at hs
      · next v rest hb =>
        cases hs
        refine ⟨⟨rfl, wgc_live_upd c s i (.send v) hin hw hlive rfl, abs_upd c s i (.send v) hw hna (by intro h; cases h),
          hw.kle, hw.outer, hw.oclosedRem, hw.slice, hw.waitK, fun h => absurd h hnotfin,
          hw.outCl, ?_, ?_, ?_, hw.seenC, ?_, ?_⟩, hsl⟩
        · intro j hjn
          have := hw.deliv j hjn
          by_cases hj : j = i
          · subst hj; simp only [upd_same]; rw [this, hst, hb]; simp [held]
          · simp only [upd_other _ _ _ _ hj]; exact this
        · intro j h
          by_cases hj : j = i
          · subst hj; simp only [upd_same] at h; rcases h with h | h <;> cases h
          · simp only [upd_other _ _ _ _ hj] at h ⊢; exact hw.drained j h
        · intro j h
          by_cases hj : j = i
          · subst hj; simp only [upd_same] at h; exact hw.closedPend j h
          · simp only [upd_other _ _ _ _ hj] at h; exact hw.closedPend j h
        · intro j
          by_cases hj : j = i
          · subst hj; simp only [upd_same]; exact hw.caps j
          · simp only [upd_other _ _ _ _ hj]; exact hw.caps j
        · intro j
          by_cases hj : j = i
          · subst hj; simp only [upd_same]; have := hw.inLen j; rw [hb] at this; simp at this ⊢; omega
          · simp only [upd_other _ _ _ _ hj]; exact hw.inLen j
      · next hb =>
        split at hs
        · next hcl =>
          cases hs
          refine ⟨⟨rfl, wgc_live_upd c s i .doneCall hin hw hlive rfl, abs_upd c s i .doneCall hw hna (by intro h; cases h),
            hw.kle, hw.outer, hw.oclosedRem, hw.slice, hw.waitK, fun h => absurd h hnotfin,
            hw.outCl, ?_, ?_, hw.closedPend, hw.seenC, hw.caps, hw.inLen⟩, hsl⟩
          · intro j hjn
            have := hw.deliv j hjn
            by_cases hj : j = i
            · subst hj; simp only [upd_same]; rw [this, hst]; simp [held]
            · simp only [upd_other _ _ _ _ hj]; exact this
          · intro j h
            by_cases hj : j = i
            · subst hj; exact ⟨hcl, hb⟩
            · simp only [upd_other _ _ _ _ hj] at h; exact hw.drained j h
        · cases hs
    · cases hs

theorem inv_fSend (c : Cfg) (s s' : State) (i : Nat) (hi : Inv c s) (hs : step c s (.fSend i) = some s') :
    Inv c s' := by
  obtain ⟨hw, hsl⟩ := hi
  simp only [step, hw.np, Bool.false_eq_true, if_false] at hs
  split at hs
  · cases hs
  · next hin =>
    have hin : i < c.n := by omega
    split at hs
    · next v hst =>
      split at hs
      · next hoc =>
        have hfin := hw.allFin (Or.inr (hw.outCl.mp hoc)) i hin
        rw [hst] at hfin; rcases hfin with h' | h' <;> cases h'
      · cases hs
    · cases hs

theorem inv_fDone (c : Cfg) (s s' : State) (i : Nat) (hi : Inv c s) (hs : step c s (.fDone i) = some s') :
    Inv c s' := by
  obtain ⟨hw, hsl⟩ := hi
  simp only [step, hw.np, Bool.false_eq_true, if_false] at hs
  split at hs
  · cases hs
  · next hin =>
    have hin : i < c.n := by omega
    split at hs
    · next hst =>
      have hnotfin : ¬ (s.pc = .close ∨ s.pc = .fin) := by
        intro h
        have := hw.allFin h i hin
        rw [hst] at this; rcases this with h' | h' <;> cases h'
      have hpos : 0 < count (fun j => live (s.st j)) c.n :=
        count_pos_of _ c.n i hin (by simp only [hst]; rfl)
      have hwg := hw.wgc
      split at hs
      · next h0 => omega
      · next h0 =>
        cases hs
        refine ⟨⟨rfl, ?_, abs_upd c s i .finished hw (by rw [hst]; intro h; cases h) (by intro h; cases h),
          hw.kle, hw.outer, hw.oclosedRem, hw.slice, hw.waitK, fun h => absurd h hnotfin,
          hw.outCl, ?_, ?_, hw.closedPend, hw.seenC, hw.caps, hw.inLen⟩, hsl⟩
        · have h2 := count_upd_lt live s.st i FSt.finished c.n hin
          rw [hst] at h2
          have e1 : live FSt.doneCall = true := rfl
          have e2 : live FSt.finished = false := rfl
          simp only [e1, e2, if_true, Bool.false_eq_true, if_false] at h2
          show s.wg - 1 = count (fun j => live (upd s.st i FSt.finished j)) c.n + (if s.pc = .go then 1 else 0)
          omega
        · intro j hjn
          have := hw.deliv j hjn
          by_cases hj : j = i
          · subst hj; simp only [upd_same]; rw [this, hst]; simp [held]
          · simp only [upd_other _ _ _ _ hj]; exact this
        · intro j h
          by_cases hj : j = i
          · subst hj; exact hw.drained j (Or.inl hst)
          · simp only [upd_other _ _ _ _ hj] at h; exact hw.drained j h
    · cases hs

theorem inv_cTake (c : Cfg) (s s' : State) (i : Nat) (hi : Inv c s) (hs : step c s (.cTake i) = some s') :
    Inv c s' := by
  obtain ⟨hw, hsl⟩ := hi
  simp only [step, hw.np, Bool.false_eq_true, if_false] at hs
  split at hs
  · cases hs
  · next hin =>
    have hin : i < c.n := by omega
    split at hs
    · cases hs
    · split at hs
      · next v hst =>
        cases hs
        have hnotfin : ¬ (s.pc = .close ∨ s.pc = .fin) := by
          intro h
          have := hw.allFin h i hin
          rw [hst] at this; rcases this with h' | h' <;> cases h'
        refine ⟨⟨rfl, wgc_live_upd c s i .recv hin hw (by rw [hst]; rfl) rfl,
          abs_upd c s i .recv hw (by rw [hst]; intro h; cases h) (by intro h; cases h),
          hw.kle, hw.outer, hw.oclosedRem, hw.slice, hw.waitK, fun h => absurd h hnotfin,
          hw.outCl, ?_, ?_, hw.closedPend, hw.seenC, hw.caps, hw.inLen⟩, hsl⟩
        · intro j hjn
          have := hw.deliv j hjn
          by_cases hj : j = i
          · subst hj; simp only [upd_same, gotOf_append, if_true]; rw [this, hst]; simp [held]
          · simp only [upd_other _ _ _ _ hj, gotOf_append]
            rw [if_neg (fun h => hj h.symm)]; exact this
        · intro j h
          by_cases hj : j = i
          · subst hj; simp only [upd_same] at h; rcases h with h | h <;> cases h
          · simp only [upd_other _ _ _ _ hj] at h; exact hw.drained j h
      · cases hs

theorem inv_cSeeClose (c : Cfg) (s s' : State) (hi : Inv c s) (hs : step c s .cSeeClose = some s') :
    Inv c s' := by
  obtain ⟨hw, hsl⟩ := hi
  simp only [step, hw.np, Bool.false_eq_true, if_false] at hs
  split at hs
  · next hc =>
    cases hs
    exact ⟨⟨rfl, hw.wgc, hw.abs, hw.kle, hw.outer, hw.oclosedRem, hw.slice, hw.waitK, hw.allFin,
      hw.outCl, hw.deliv, hw.drained, hw.closedPend, fun _ => hc.2, hw.caps, hw.inLen⟩, hsl⟩
  · cases hs

theorem inv_step (c : Cfg) (s s' : State) (l : Label) (hi : Inv c s) (hs : step c s l = some s') :
    Inv c s' := by
  cases l with
  | oSend => exact inv_env_outer c s s' hi (Or.inl hs)
  | oClose => exact inv_env_outer c s s' hi (Or.inr hs)
  | spNext => exact inv_spNext c s s' hi hs
  | spAdd => exact inv_spAdd c s s' hi hs
  | spGo => exact inv_spGo c s s' hi hs
  | spWait => exact inv_spWait c s s' hi hs
  | spClose => exact inv_spClose c s s' hi hs
  | pSend i => exact inv_pSend c s s' i hi hs
  | pClose i => exact inv_pClose c s s' i hi hs
  | fRecv i => exact inv_fRecv c s s' i hi hs
  | fSend i => exact inv_fSend c s s' i hi hs
  | fDone i => exact inv_fDone c s s' i hi hs
  | cTake i => exact inv_cTake c s s' i hi hs
  | cSeeClose => exact inv_cSeeClose c s s' hi hs

theorem inv_reachable (c : Cfg) (s : State) (h : (lts c).Reachable s) : Inv c s :=
  Lts.invariant (lts c) (Inv c) (inv_init c) (fun s l s' hi hs => inv_step c s s' l hi hs) s h

/-- labels that concern input `i` only -/
def aboutInput (l : Label) (i : Nat) : Prop :=
  l = .fDone i ∨ l = .cTake i ∨ l = .fRecv i ∨ l = .pClose i ∨ l = .pSend i

/-- a live forwarder (or its producer, or the consumer taking from it) can always move -/
theorem live_can_move' (c : Cfg) (s : State) (hw : InvW c s) (hns : s.seen = false) (hoc : s.outClosed = false)
    (i : Nat) (hin : i < c.n) (hl : live (s.st i) = true) :
    ∃ l, aboutInput l i ∧ (step c s l).isSome = true := by
  have hnle : ¬ c.n ≤ i := by omega
  cases hst : s.st i with
  | absent => rw [hst] at hl; cases hl
  | finished => rw [hst] at hl; cases hl
  | skipped => rw [hst] at hl; cases hl
  | doneCall =>
    by_cases h0 : s.wg = 0
    · exact ⟨.fDone i, Or.inl rfl, by simp [step, hw.np, hnle, hst, h0]⟩
    · exact ⟨.fDone i, Or.inl rfl, by simp [step, hw.np, hnle, hst, h0]⟩
  | send v => exact ⟨.cTake i, Or.inr (Or.inl rfl), by simp [step, hw.np, hnle, hst, hns, hoc]⟩
  | recv =>
    cases hb : (s.ch i).buf with
    | cons v rest => exact ⟨.fRecv i, Or.inr (Or.inr (Or.inl rfl)), by simp [step, hw.np, hnle, hst, hb]⟩
    | nil =>
      by_cases hcl : (s.ch i).closed = true
      · exact ⟨.fRecv i, Or.inr (Or.inr (Or.inl rfl)), by simp [step, hw.np, hnle, hst, hb, hcl]⟩
      · cases hp : s.pend i with
        | nil => exact ⟨.pClose i, Or.inr (Or.inr (Or.inr (Or.inl rfl))), by simp [step, hw.np, hnle, hp, hcl]⟩
        | cons v rest =>
          by_cases hcap : (s.ch i).cap = 0
          · exact ⟨.pSend i, Or.inr (Or.inr (Or.inr (Or.inr rfl))), by simp [step, hw.np, hnle, hp, hcl, hb, hcap, hst]⟩
          · exact ⟨.pSend i, Or.inr (Or.inr (Or.inr (Or.inr rfl))), by
              have : 0 < (s.ch i).cap := by omega
              simp [step, hw.np, hnle, hp, hcl, hb, this]⟩

theorem live_can_move (c : Cfg) (s : State) (hw : InvW c s) (hns : s.seen = false) (hoc : s.outClosed = false)
    (i : Nat) (hin : i < c.n) (hl : live (s.st i) = true) : (lts c).Enabled s := by
  obtain ⟨l, _, h⟩ := live_can_move' c s hw hns hoc i hin hl
  exact Lts.enabled_of_isSome (lts c) s l h

theorem progress (c : Cfg) (s : State) (hi : Inv c s) (hns : s.seen = false) : (lts c).Enabled s := by
  obtain ⟨hw, hsl⟩ := hi
  have en : ∀ l, (step c s l).isSome = true → (lts c).Enabled s :=
    fun l h => Lts.enabled_of_isSome (lts c) s l h
  cases hpc : s.pc with
  | add => exact en .spAdd (by simp [step, hw.np, hpc])
  | go =>
    by_cases hf : c.chanForm = true
    · exact en .spGo (by simp [step, hw.np, hpc, hf])
    · exact en .spGo (by simp [step, hw.np, hpc, hf])
  | close =>
    by_cases hoc : s.outClosed = true
    · exact en .spClose (by simp [step, hw.np, hpc, hoc])
    · exact en .spClose (by simp [step, hw.np, hpc, hoc])
  | fin =>
    have hoc : s.outClosed = true := hw.outCl.mpr hpc
    exact en .cSeeClose (by simp [step, hw.np, hns, hoc])
  | next =>
    have hf : c.chanForm = true := by
      cases h : c.chanForm
      · exact absurd hpc (hsl h)
      · rfl
    by_cases hen : 0 < s.obuf ∨ s.oclosed = true
    · exact en .spNext (by simp [step, hw.np, hf, hpc, hen])
    · have hb : s.obuf = 0 := by
        cases h : s.obuf with
        | zero => rfl
        | succ m => exact absurd (Or.inl (by omega)) hen
      have hcl : s.oclosed = false := by
        cases h : s.oclosed
        · rfl
        · exact absurd (Or.inr h) hen
      by_cases hrem : 0 < s.orem
      · by_cases hcap : 0 < c.ocap
        · exact en .oSend (by simp [step, hw.np, hf, hrem, hcl, hb, hcap])
        · have : c.ocap = 0 := by omega
          exact en .oSend (by simp [step, hw.np, hf, hrem, hcl, hb, this, hpc])
      · have : s.orem = 0 := by omega
        exact en .oClose (by simp [step, hw.np, hf, this, hcl])
  | wait =>
    by_cases h0 : s.wg = 0
    · exact en .spWait (by simp [step, hw.np, hpc, h0])
    · have hwg := hw.wgc
      simp only [hpc] at hwg
      have hpos : 0 < count (fun i => live (s.st i)) c.n := by simp at hwg; omega
      obtain ⟨i, hin, hl⟩ := count_pos_exists _ c.n hpos
      have hoc : s.outClosed = false := by
        cases h : s.outClosed
        · rfl
        · have := hw.outCl.mp h; rw [hpc] at this; cases this
      exact live_can_move c s hw hns hoc i hin hl

/-- `take` touches only the dispatcher's own state and the outer buffer -/
theorem take_frame (c : Cfg) (s : State) :
    (take c s).orem = s.orem ∧ (take c s).oclosed = s.oclosed ∧ (take c s).got = s.got := by
  unfold take; split
  · split <;> simp
  · simp

theorem advance_frame (c : Cfg) : ∀ (f : Nat) (s : State),
    (advance c f s).orem = s.orem ∧ (advance c f s).oclosed = s.oclosed ∧ (advance c f s).got = s.got
  | 0, s => take_frame c s
  | f + 1, s => by
    simp only [advance]
    have ht := take_frame c s
    split
    · have := advance_frame c f (take c s)
      exact ⟨this.1.trans ht.1, this.2.1.trans ht.2.1, this.2.2.trans ht.2.2⟩
    · exact ht

/-- only the outer producer's steps change what is still to be sent on / the closed flag of the outer channel -/
theorem step_frame (c : Cfg) (s s' : State) (l : Label) (h1 : l ≠ .oSend) (h2 : l ≠ .oClose)
    (hs : step c s l = some s') : s'.orem = s.orem ∧ s'.oclosed = s.oclosed := by
  cases l <;> simp only [step] at hs <;> (repeat' split at hs) <;> (try cases hs) <;>
    (first | exact absurd rfl h1 | exact absurd rfl h2 | exact ⟨rfl, rfl⟩ |
      exact ⟨(take_frame c _).1, (take_frame c _).2.1⟩ | exact ⟨(advance_frame c _ _).1, (advance_frame c _ _).2.1⟩ | skip)

theorem step_oSend (c : Cfg) (s s' : State) (hs : step c s .oSend = some s') :
    0 < s.orem ∧ s'.orem = s.orem - 1 ∧ s'.oclosed = s.oclosed ∧ s.oclosed = false := by
  simp only [step] at hs
  (repeat' split at hs) <;> (try cases hs) <;>
    (first
      | (simp_all; done)
      | (have ht := take_frame c { s with orem := s.orem - 1, obuf := s.obuf + 1 }
         simp_all))

theorem step_oClose (c : Cfg) (s s' : State) (hs : step c s .oClose = some s') :
    s.orem = 0 ∧ s'.orem = 0 ∧ s'.oclosed = true ∧ s.oclosed = false := by
  simp only [step] at hs
  (repeat' split at hs) <;> (try cases hs) <;> simp_all

/-- the consumer only ever receives items tagged with a real input -/
theorem tags_step (c : Cfg) (s s' : State) (l : Label)
    (hi : ∀ p, p ∈ s.got → p.1 < c.n) (hs : step c s l = some s') : ∀ p, p ∈ s'.got → p.1 < c.n := by
  cases l <;> simp only [step] at hs <;> (repeat' split at hs) <;> (try cases hs) <;>
    (first
      | exact hi
      | (rw [(take_frame c _).2.2]; exact hi)
      | (rw [(advance_frame c _ _).2.2]; exact hi)
      | (intro p hp
         simp only [List.mem_append, List.mem_singleton] at hp
         rcases hp with hp | hp
         · exact hi p hp
         · subst hp; simp; omega))


theorem tags_reachable (c : Cfg) (s : State) (h : (lts c).Reachable s) : ∀ p, p ∈ s.got → p.1 < c.n :=
  Lts.invariant (lts c) (fun s => ∀ p, p ∈ s.got → p.1 < c.n)
    (by unfold lts init; simp only []; split
        · intro p hp; cases hp
        · rw [(advance_frame c _ _).2.2]; intro p hp; cases hp)
    (fun s l s' hi hs => tags_step c s s' l hi hs) s h

/-- once the spawner is past its loop the outer channel has been closed -/
def WaitClosed (s : State) : Prop := (s.pc = .wait ∨ s.pc = .close ∨ s.pc = .fin) → s.oclosed = true

theorem take_waitClosed (c : Cfg) (s : State) (hpc : s.pc = .next) (hen : 0 < s.obuf ∨ s.oclosed = true) :
    WaitClosed (take c s) := by
  unfold take WaitClosed
  split
  · split
    · intro h; simp [hpc] at h
    · intro h; simp at h
  · next hb =>
    intro _
    rcases hen with h | h
    · exact absurd h hb
    · exact h

theorem waitClosed_of_oclosed (s : State) (h : s.oclosed = true) : WaitClosed s := fun _ => h

theorem waitClosed_step (c : Cfg) (s s' : State) (l : Label) (hi : Inv c s) (hw : WaitClosed s)
    (hs : step c s l = some s') : WaitClosed s' := by
  cases l with
  | spNext =>
    simp only [step] at hs
    (repeat' split at hs) <;> (try cases hs)
    next hc => exact take_waitClosed c s hc.2.1 hc.2.2
  | spGo =>
    simp only [step] at hs
    (repeat' split at hs) <;> (try cases hs)
    · intro h; simp at h
    · next _ hf =>
      apply waitClosed_of_oclosed
      rw [(advance_frame c _ _).2.1]
      exact hi.1.slice (by simpa using hf)
  | oSend =>
    simp only [step] at hs
    (repeat' split at hs) <;> (try cases hs)
    · unfold WaitClosed at *; simp_all
    · next hj => exact take_waitClosed c _ hj.2 (Or.inl (by show 0 < s.obuf + 1; omega))
  | oClose =>
    simp only [step] at hs
    (repeat' split at hs) <;> (try cases hs) <;> (unfold WaitClosed at *; simp_all)
  | spAdd =>
    simp only [step] at hs
    (repeat' split at hs) <;> (try cases hs) <;> (unfold WaitClosed at *; simp_all)
  | spWait =>
    simp only [step] at hs
    (repeat' split at hs) <;> (try cases hs) <;> (unfold WaitClosed at *; simp_all)
  | spClose =>
    simp only [step] at hs
    (repeat' split at hs) <;> (try cases hs) <;> (unfold WaitClosed at *; simp_all)
  | pSend i =>
    simp only [step] at hs
    (repeat' split at hs) <;> (try cases hs) <;> exact hw
  | pClose i =>
    simp only [step] at hs
    (repeat' split at hs) <;> (try cases hs) <;> exact hw
  | fRecv i =>
    simp only [step] at hs
    (repeat' split at hs) <;> (try cases hs) <;> exact hw
  | fSend i =>
    simp only [step] at hs
    (repeat' split at hs) <;> (try cases hs) <;> exact hw
  | fDone i =>
    simp only [step] at hs
    (repeat' split at hs) <;> (try cases hs) <;> exact hw
  | cTake i =>
    simp only [step] at hs
    (repeat' split at hs) <;> (try cases hs) <;> exact hw
  | cSeeClose =>
    simp only [step] at hs
    (repeat' split at hs) <;> (try cases hs) <;> exact hw

theorem waitClosed_reachable (c : Cfg) (s : State) (h : (lts c).Reachable s) : WaitClosed s := by
  have := Lts.invariant (lts c) (fun s => Inv c s ∧ WaitClosed s)
    ⟨inv_init c, by
      show WaitClosed (init c)
      unfold init
      simp only []
      split
      · intro h; simp at h
      · apply waitClosed_of_oclosed; rw [(advance_frame c _ _).2.1]⟩
    (fun s l s' hi hs => ⟨inv_step c s s' l hi.1 hs, waitClosed_step c s s' l hi.1 hi.2 hs⟩) s h
  exact this.2

def spW : SPc → Nat
  | .next => 4 | .add => 3 | .go => 2 | .wait => 2 | .close => 1 | .fin => 0

def stW : FSt → Nat
  | .absent => 3 | .recv => 2 | .send _ => 4 | .doneCall => 1 | .finished => 0 | .skipped => 0

def chW (ch : Chan) : Nat := 5 * ch.buf.length + (if ch.closed then 0 else 1)

/-- every step from a state satisfying the invariant strictly decreases this measure -/
def measure (c : Cfg) (s : State) : Nat :=
  3 * (c.n - s.k) + spW s.pc + (2 * s.orem + s.obuf + (if s.oclosed then 0 else 1)) +
  sumTo (fun i => 6 * (s.pend i).length) c.n + sumTo (fun i => chW (s.ch i)) c.n +
  sumTo (fun i => stW (s.st i)) c.n +
  (if s.outClosed then 0 else 1) + (if s.seen then 0 else 1) + (if s.panicked then 0 else 1)

theorem measure_take (c : Cfg) (s : State) (hpc : s.pc = .next)
    (hk : 0 < s.obuf → s.k < c.n ∧ s.st s.k = .absent) : measure c (take c s) < measure c s := by
  unfold take
  have e1 : spW SPc.next = 4 := rfl
  have e2 : spW SPc.add = 3 := rfl
  have e3 : spW SPc.wait = 2 := rfl
  split
  · next hb =>
    obtain ⟨hkn, habs⟩ := hk hb
    split
    · have h3 := sumTo_upd_lt stW s.st s.k FSt.skipped c.n hkn
      rw [habs] at h3
      have e4 : stW FSt.absent = 3 := rfl
      have e5 : stW FSt.skipped = 0 := rfl
      simp only [e4, e5] at h3
      simp only [measure, hpc, e1]
      omega
    · simp only [measure, hpc, e1, e2]; omega
  · simp only [measure, hpc, e1, e3]; omega

theorem take_hk (c : Cfg) (s : State) (hw : InvW c s) (hpc : s.pc = .next) :
    0 < s.obuf → s.k < c.n ∧ s.st s.k = .absent := by
  intro hb
  have ho := hw.outer
  simp only [hpc] at ho
  simp at ho
  exact ⟨by omega, (hw.abs s.k).mpr (Nat.le_refl _)⟩

theorem measure_advance (c : Cfg) : ∀ (f : Nat) (s : State), InvW c s → s.pc = .next → s.oclosed = true →
    measure c (advance c f s) < measure c s
  | 0, s, hw, hpc, _ => by
    simp only [advance]; exact measure_take c s hpc (take_hk c s hw hpc)
  | f + 1, s, hw, hpc, hcl => by
    simp only [advance]
    have h1 := measure_take c s hpc (take_hk c s hw hpc)
    split
    · next hn =>
      have hw' := invW_take c s hw hpc (Or.inr hcl)
      have := measure_advance c f (take c s) hw' hn (by rw [(take_frame c s).2.1]; exact hcl)
      exact Nat.lt_trans this h1
    · exact h1

theorem measure_decreases (c : Cfg) (s s' : State) (l : Label) (hi : Inv c s)
    (hs : step c s l = some s') : measure c s' < measure c s := by
  obtain ⟨hw, hsl⟩ := hi
  have hnp := hw.np
  have eNext : spW SPc.next = 4 := rfl
  have eAdd : spW SPc.add = 3 := rfl
  have eGo : spW SPc.go = 2 := rfl
  have eWait : spW SPc.wait = 2 := rfl
  have eClose : spW SPc.close = 1 := rfl
  have eFin : spW SPc.fin = 0 := rfl
  cases l with
  | oSend =>
    simp only [step, hnp, Bool.false_eq_true, if_false] at hs
    split at hs
    · next hc =>
      obtain ⟨_, hrem, _⟩ := hc
      split at hs
      · cases hs; simp only [measure, hnp, Bool.false_eq_true, if_false]; omega
      · split at hs
        · next hj =>
          cases hs
          have hk := take_hk c s hw hj.2
          have ho := hw.outer
          simp only [hj.2] at ho
          simp at ho
          have h1 : measure c { s with orem := s.orem - 1, obuf := s.obuf + 1, panicked := false } < measure c s := by
            simp only [measure, hnp, Bool.false_eq_true, if_false]; omega
          refine Nat.lt_trans (measure_take c _ hj.2 ?_) h1
          intro _
          exact ⟨by show s.k < c.n; omega, (hw.abs s.k).mpr (Nat.le_refl _)⟩
        · cases hs
    · cases hs
  | oClose =>
    simp only [step, hnp, Bool.false_eq_true, if_false] at hs
    split at hs
    · next hc => cases hs; simp only [measure, hnp, Bool.false_eq_true, if_false, hc.2.2, Bool.false_eq_true, if_false, if_true]; omega
    · cases hs
  | spNext =>
    simp only [step, hnp, Bool.false_eq_true, if_false] at hs
    split at hs
    · next hc => cases hs; exact measure_take c s hc.2.1 (take_hk c s hw hc.2.1)
    · cases hs
  | spAdd =>
    simp only [step, hnp, Bool.false_eq_true, if_false] at hs
    split at hs
    · next hpc => cases hs; simp only [measure, hnp, Bool.false_eq_true, if_false, hpc, eAdd, eGo]; omega
    · cases hs
  | spGo =>
    simp only [step, hnp, Bool.false_eq_true, if_false] at hs
    split at hs
    · next hpc =>
      have ho := hw.outer
      simp only [hpc] at ho
      simp at ho
      have hkn : s.k < c.n := by omega
      have habs : s.st s.k = .absent := (hw.abs s.k).mpr (Nat.le_refl _)
      have h3 := sumTo_upd_lt stW s.st s.k FSt.recv c.n hkn
      rw [habs] at h3
      have e1 : stW FSt.absent = 3 := rfl
      have e2 : stW FSt.recv = 2 := rfl
      simp only [e1, e2] at h3
      have h1 : measure c { s with st := upd s.st s.k .recv, k := s.k + 1, pc := .next, panicked := false } < measure c s := by
        simp only [measure, hnp, Bool.false_eq_true, if_false, hpc, eNext, eGo]
        omega
      split at hs
      · cases hs; exact h1
      · next hf =>
        cases hs
        have hw1 := invW_afterGo c s hw hpc
        have hcl : s.oclosed = true := hw.slice (by simpa using hf)
        have := measure_advance c s.obuf _ hw1 rfl hcl
        simp only [hnp] at this
        exact Nat.lt_trans this h1
    · cases hs
  | spWait =>
    simp only [step, hnp, Bool.false_eq_true, if_false] at hs
    split at hs
    · next hc => cases hs; simp only [measure, hnp, Bool.false_eq_true, if_false, hc.1, eWait, eClose]; omega
    · cases hs
  | spClose =>
    simp only [step, hnp, Bool.false_eq_true, if_false] at hs
    split at hs
    · next hpc =>
      split at hs
      · cases hs; simp only [measure, hnp, Bool.false_eq_true, if_false, if_true]; omega
      · next hoc =>
        have hoc' : s.outClosed = false := by simpa using hoc
        cases hs
        simp only [measure, hnp, Bool.false_eq_true, if_false, hpc, hoc', eClose, eFin, Bool.false_eq_true, if_false, if_true]; omega
    · cases hs
  | pSend i =>
    simp only [step, hnp, Bool.false_eq_true, if_false] at hs
    split at hs
    · cases hs
    · next hnle =>
      have hin : i < c.n := by omega
      split at hs
      · cases hs
      · next v rest hpe =>
        have h1 := sumTo_upd_lt (fun l : List Nat => 6 * l.length) s.pend i rest c.n hin
        simp only [hpe, List.length_cons] at h1
        split at hs
        · cases hs
        · split at hs
          · cases hs
            have h2 := sumTo_upd_lt chW s.ch i { s.ch i with buf := (s.ch i).buf ++ [v] } c.n hin
            simp only [chW, List.length_append, List.length_cons, List.length_nil] at h2
            simp only [measure, hnp, Bool.false_eq_true, if_false, chW]
            omega
          · split at hs
            · next hj =>
              cases hs
              have h3 := sumTo_upd_lt stW s.st i (FSt.send v) c.n hin
              rw [hj.2] at h3
              have e1 : stW FSt.recv = 2 := rfl
              have e2 : stW (FSt.send v) = 4 := rfl
              simp only [e1, e2] at h3
              simp only [measure, hnp, Bool.false_eq_true, if_false]
              omega
            · cases hs
  | pClose i =>
    simp only [step, hnp, Bool.false_eq_true, if_false] at hs
    split at hs
    · cases hs
    · next hnle =>
      have hin : i < c.n := by omega
      split at hs
      · next hc =>
        cases hs
        have h2 := sumTo_upd_lt chW s.ch i { s.ch i with closed := true } c.n hin
        simp only [chW, hc.2, Bool.false_eq_true, if_false, if_true] at h2
        simp only [measure, hnp, Bool.false_eq_true, if_false, chW]
        omega
      · cases hs
  | fRecv i =>
    simp only [step, hnp, Bool.false_eq_true, if_false] at hs
    split at hs
    · cases hs
    · next hnle =>
      have hin : i < c.n := by omega
      split at hs
      · next hst =>
        have e1 : stW FSt.recv = 2 := rfl
        split at hs
        · next v rest hb =>
          cases hs
          have h2 := sumTo_upd_lt chW s.ch i { s.ch i with buf := rest } c.n hin
          simp only [chW, hb, List.length_cons] at h2
          have h3 := sumTo_upd_lt stW s.st i (FSt.send v) c.n hin
          rw [hst] at h3
          have e2 : stW (FSt.send v) = 4 := rfl
          simp only [e1, e2] at h3
          simp only [measure, hnp, Bool.false_eq_true, if_false, chW]
          omega
        · split at hs
          · cases hs
            have h3 := sumTo_upd_lt stW s.st i FSt.doneCall c.n hin
            rw [hst] at h3
            have e2 : stW FSt.doneCall = 1 := rfl
            simp only [e1, e2] at h3
            simp only [measure, hnp, Bool.false_eq_true, if_false]
            omega
          · cases hs
      · cases hs
  | fSend i =>
    simp only [step, hnp, Bool.false_eq_true, if_false] at hs
    split at hs
    · cases hs
    · split at hs
      · split at hs
        · cases hs; simp only [measure, hnp, Bool.false_eq_true, if_false, if_true]; omega
        · cases hs
      · cases hs
  | fDone i =>
    simp only [step, hnp, Bool.false_eq_true, if_false] at hs
    split at hs
    · cases hs
    · next hnle =>
      have hin : i < c.n := by omega
      split at hs
      · next hst =>
        split at hs
        · cases hs; simp only [measure, hnp, Bool.false_eq_true, if_false, if_true]; omega
        · cases hs
          have h3 := sumTo_upd_lt stW s.st i FSt.finished c.n hin
          rw [hst] at h3
          have e1 : stW FSt.doneCall = 1 := rfl
          have e2 : stW FSt.finished = 0 := rfl
          simp only [e1, e2] at h3
          simp only [measure, hnp, Bool.false_eq_true, if_false]
          omega
      · cases hs
  | cTake i =>
    simp only [step, hnp, Bool.false_eq_true, if_false] at hs
    split at hs
    · cases hs
    · next hnle =>
      have hin : i < c.n := by omega
      split at hs
      · cases hs
      · split at hs
        · next v hst =>
          cases hs
          have h3 := sumTo_upd_lt stW s.st i FSt.recv c.n hin
          rw [hst] at h3
          have e1 : stW FSt.recv = 2 := rfl
          have e2 : stW (FSt.send v) = 4 := rfl
          simp only [e1, e2] at h3
          simp only [measure, hnp, Bool.false_eq_true, if_false]
          omega
        · cases hs
  | cSeeClose =>
    simp only [step, hnp, Bool.false_eq_true, if_false] at hs
    split at hs
    · next hc => cases hs; simp only [measure, hnp, Bool.false_eq_true, if_false, hc.1, Bool.false_eq_true, if_false, if_true]; omega
    · cases hs

/-- only positions that repeat an earlier channel are ever skipped -/
def SkipSeen (c : Cfg) (s : State) : Prop := ∀ i, s.st i = .skipped → c.seen i = true

theorem skipSeen_take (c : Cfg) (s : State) (h : SkipSeen c s) : SkipSeen c (take c s) := by
  unfold take
  split
  · split
    · next hs =>
      intro i hi
      simp only [upd] at hi
      split at hi
      · next hik => rw [hik]; exact hs
      · exact h i hi
    · exact h
  · exact h

theorem skipSeen_advance (c : Cfg) : ∀ (f : Nat) (s : State), SkipSeen c s → SkipSeen c (advance c f s)
  | 0, s, h => skipSeen_take c s h
  | f + 1, s, h => by
    simp only [advance]
    split
    · exact skipSeen_advance c f _ (skipSeen_take c s h)
    · exact skipSeen_take c s h

theorem skipSeen_upd (c : Cfg) (s : State) (i : Nat) (x : FSt) (hx : x ≠ .skipped) (h : SkipSeen c s) :
    ∀ j, upd s.st i x j = .skipped → c.seen j = true := by
  intro j hj
  simp only [upd] at hj
  split at hj
  · exact absurd hj hx
  · exact h j hj

theorem skipSeen_step (c : Cfg) (s s' : State) (l : Label) (h : SkipSeen c s) (hs : step c s l = some s') :
    SkipSeen c s' := by
  cases l <;> simp only [step] at hs <;> (repeat' split at hs) <;> (try cases hs) <;>
    (first
      | exact h
      | exact skipSeen_take c _ h
      | exact skipSeen_upd c s _ _ (by intro hh; cases hh) h
      | exact skipSeen_advance c _ _ (skipSeen_upd c s _ _ (by intro hh; cases hh) h))

theorem skipSeen_reachable (c : Cfg) (s : State) (h : (lts c).Reachable s) : SkipSeen c s :=
  Lts.invariant (lts c) (SkipSeen c)
    (by
      show SkipSeen c (init c)
      unfold init
      simp only []
      split
      · intro i hi; cases hi
      · exact skipSeen_advance c _ _ (by intro i hi; cases hi))
    (fun s l s' hi hs => skipSeen_step c s s' l hi hs) s h

/-- with distinct inputs (`seen` false everywhere) the `listening` skip never fires: no position is skipped,
so every forwarder status is one of the five of the model without the bookkeeping -/
theorem distinct_never_skips (c : Cfg) (hd : ∀ i, c.seen i = false) (s : State) (h : (lts c).Reachable s) :
    ∀ i, s.st i ≠ .skipped := by
  intro i hi
  have := skipSeen_reachable c s h i hi
  rw [hd i] at this
  cases this

end Goderive.K.JoinWG
