/-
Inductive invariant of K/JoinSelect (the select form of join).
-/
import GoderiveModel.K.JoinSelect
import GoderiveModel.Lemmas.ConcCount

namespace Goderive.K.JoinSelect

theorem anyLive_true (live : Nat → Bool) : ∀ n, anyLive live n = true → ∃ i, i < n ∧ live i = true
  | 0, h => by simp [anyLive] at h
  | n + 1, h => by
    simp only [anyLive, Bool.or_eq_true] at h
    rcases h with h | h
    · obtain ⟨i, hi, hl⟩ := anyLive_true live n h
      exact ⟨i, by omega, hl⟩
    · exact ⟨n, by omega, h⟩

theorem anyLive_false (live : Nat → Bool) : ∀ n, anyLive live n = false → ∀ i, i < n → live i = false
  | 0, _, i, hi => by omega
  | n + 1, h, i, hi => by
    simp only [anyLive, Bool.or_eq_false_iff] at h
    by_cases hin : i = n
    · subst hin; exact h.2
    · exact anyLive_false live n h.1 i (by omega)

structure Inv (c : Cfg) (s : State) : Prop where
  np : s.panicked = false
  deliv : ∀ i, i < c.n → eitems c i = gotOf s.got i ++ held s.pc i ++ (s.ch i).buf ++ s.pend i
  dead : ∀ i, i < c.n → s.liveIn i = false → (s.ch i).closed = true ∧ (s.ch i).buf = []
  nilPc : ∀ i, s.pc = .nil i → i < c.n ∧ (s.ch i).closed = true ∧ (s.ch i).buf = []
  selLive : s.pc = .sel → anyLive s.liveIn c.n = true
  lateDead : (s.pc = .closing ∨ s.pc = .done) → ∀ i, i < c.n → s.liveIn i = false
  outCl : s.outClosed = true ↔ s.pc = .done
  closedPend : ∀ i, (s.ch i).closed = true → s.pend i = []
  seenC : s.seen = true → s.outClosed = true
  caps : ∀ i, (s.ch i).cap = c.cap i
  inLen : ∀ i, (s.ch i).buf.length ≤ (s.ch i).cap

theorem loopHead_cases (c : Cfg) (live : Nat → Bool) :
    (loopHead c live = .sel ∧ anyLive live c.n = true) ∨
    (loopHead c live = .closing ∧ anyLive live c.n = false) := by
  unfold loopHead
  cases h : anyLive live c.n <;> simp

theorem held_loopHead (c : Cfg) (live : Nat → Bool) (j : Nat) : held (loopHead c live) j = [] := by
  rcases loopHead_cases c live with h | h <;> rw [h.1] <;> rfl

theorem inv_init (c : Cfg) : Inv c (init c) := by
  unfold init
  refine ⟨rfl, ?_, ?_, ?_, ?_, ?_, ?_, ?_, ?_, ?_, ?_⟩
  · intro i _
    by_cases h : c.nilIn i = true <;> simp [held_loopHead, gotOf_nil, Chan.mk0, h]
  · intro i _ h
    have hn : c.nilIn i = true := by simpa using h
    simp [hn]
  · intro i h
    rcases loopHead_cases c (fun i => !c.nilIn i) with h' | h' <;> rw [h'.1] at h <;> cases h
  · intro h
    rcases loopHead_cases c (fun i => !c.nilIn i) with h' | h'
    · exact h'.2
    · rw [h'.1] at h; cases h
  · intro h i hin
    rcases loopHead_cases c (fun i => !c.nilIn i) with h' | h'
    · rw [h'.1] at h; rcases h with h | h <;> cases h
    · exact anyLive_false _ c.n h'.2 i hin
  · rcases loopHead_cases c (fun i => !c.nilIn i) with h' | h' <;> simp [h'.1]
  · intro i h
    by_cases hn : c.nilIn i = true
    · simp [eitems, hn]
    · simp [Chan.mk0, hn] at h
  · intro h; simp at h
  · intro i; by_cases hn : c.nilIn i = true <;> simp [Chan.mk0, hn]
  · intro i; by_cases hn : c.nilIn i = true <;> simp [Chan.mk0, hn]

theorem inv_pSend (c : Cfg) (s s' : State) (i : Nat) (hi : Inv c s) (hs : step c s (.pSend i) = some s') :
    Inv c s' := by
  simp only [step, hi.np, Bool.false_eq_true, if_false] at hs
  split at hs
  · cases hs
  · next hin =>
    have hin : i < c.n := by omega
    split at hs
    · cases hs
    · next v rest hp =>
      split at hs
      · cases hs
      · next hncl =>
        have hncl : (s.ch i).closed = false := by simpa using hncl
        split at hs
        · next hroom =>
          cases hs
          refine ⟨rfl, ?_, ?_, ?_, hi.selLive, hi.lateDead, hi.outCl, ?_, hi.seenC, ?_, ?_⟩
          · intro j hjn
            have := hi.deliv j hjn
            by_cases hj : j = i
            · subst hj; simp only [upd_same]; rw [this, hp]; simp
            · simp only [upd_other _ _ _ _ hj]; exact this
          · intro j hjn h
            by_cases hj : j = i
            · subst hj
              have := (hi.dead j hjn h).1
              rw [hncl] at this; cases this
            · simp only [upd_other _ _ _ _ hj]; exact hi.dead j hjn h
          · intro j h
            by_cases hj : j = i
            · subst hj
              have := (hi.nilPc j h).2.1
              rw [hncl] at this; cases this
            · simp only [upd_other _ _ _ _ hj]; exact hi.nilPc j h
          · intro j h
            by_cases hj : j = i
            · subst hj; simp only [upd_same] at h; rw [hncl] at h; cases h
            · simp only [upd_other _ _ _ _ hj] at h ⊢; exact hi.closedPend j h
          · intro j
            by_cases hj : j = i
            · subst hj; simp only [upd_same]; exact hi.caps j
            · simp only [upd_other _ _ _ _ hj]; exact hi.caps j
          · intro j
            by_cases hj : j = i
            · subst hj; simp only [upd_same]; simp; omega
            · simp only [upd_other _ _ _ _ hj]; exact hi.inLen j
        · split at hs
          · next hj =>
            obtain ⟨hcap, hpc, hlive⟩ := hj
            cases hs
            have hbuf : (s.ch i).buf = [] :=
              List.eq_nil_of_length_eq_zero (by have := hi.inLen i; omega)
            refine ⟨rfl, ?_, hi.dead, ?_, ?_, ?_, ?_, ?_, hi.seenC, hi.caps, hi.inLen⟩
            · intro j hjn
              have := hi.deliv j hjn
              rw [hpc] at this
              by_cases hj : j = i
              · subst hj; simp only [upd_same]; rw [this, hp, hbuf]; simp [held]
              · simp only [upd_other _ _ _ _ hj]
                have hne : ¬ i = j := fun h => hj h.symm
                rw [this]; simp [held, hne]
            · intro j h; cases h
            · intro h; cases h
            · intro h; rcases h with h | h <;> cases h
            · have := hi.outCl; rw [hpc] at this; simpa using this
            · intro j h
              by_cases hj : j = i
              · subst hj; rw [hncl] at h; cases h
              · simp only [upd_other _ _ _ _ hj]; exact hi.closedPend j h
          · cases hs

theorem inv_pClose (c : Cfg) (s s' : State) (i : Nat) (hi : Inv c s) (hs : step c s (.pClose i) = some s') :
    Inv c s' := by
  simp only [step, hi.np, Bool.false_eq_true, if_false] at hs
  split at hs
  · cases hs
  · split at hs
    · next hc =>
      obtain ⟨hp, hncl⟩ := hc
      cases hs
      refine ⟨rfl, ?_, ?_, ?_, hi.selLive, hi.lateDead, hi.outCl, ?_, hi.seenC, ?_, ?_⟩
      · intro j hjn
        have := hi.deliv j hjn
        by_cases hj : j = i
        · subst hj; simp only [upd_same]; exact this
        · simp only [upd_other _ _ _ _ hj]; exact this
      · intro j hjn h
        by_cases hj : j = i
        · subst hj
          have := (hi.dead j hjn h).1
          rw [hncl] at this; cases this
        · simp only [upd_other _ _ _ _ hj]; exact hi.dead j hjn h
      · intro j h
        by_cases hj : j = i
        · subst hj
          have := (hi.nilPc j h).2.1
          rw [hncl] at this; cases this
        · simp only [upd_other _ _ _ _ hj]; exact hi.nilPc j h
      · intro j h
        by_cases hj : j = i
        · subst hj; exact hp
        · simp only [upd_other _ _ _ _ hj] at h; exact hi.closedPend j h
      · intro j
        by_cases hj : j = i
        · subst hj; simp only [upd_same]; exact hi.caps j
        · simp only [upd_other _ _ _ _ hj]; exact hi.caps j
      · intro j
        by_cases hj : j = i
        · subst hj; simp only [upd_same]; exact hi.inLen j
        · simp only [upd_other _ _ _ _ hj]; exact hi.inLen j
    · cases hs

theorem inv_sRecv (c : Cfg) (s s' : State) (i : Nat) (hi : Inv c s) (hs : step c s (.sRecv i) = some s') :
    Inv c s' := by
  simp only [step, hi.np, Bool.false_eq_true, if_false] at hs
  split at hs
  · cases hs
  · next hin =>
    have hin : i < c.n := by omega
    split at hs
    · next hc =>
      obtain ⟨hpc, hlive⟩ := hc
      have hoc := hi.outCl
      rw [hpc] at hoc
      split at hs
      · next v rest hb =>
        cases hs
        refine ⟨rfl, ?_, ?_, ?_, ?_, ?_, ?_, ?_, hi.seenC, ?_, ?_⟩
        · intro j hjn
          have := hi.deliv j hjn
          rw [hpc] at this
          by_cases hj : j = i
          · subst hj; simp only [upd_same]; rw [this, hb]; simp [held]
          · simp only [upd_other _ _ _ _ hj]
            have hne : ¬ i = j := fun h => hj h.symm
            rw [this]; simp [held, hne]
        · intro j hjn h
          by_cases hj : j = i
          · subst hj; rw [hlive] at h; cases h
          · simp only [upd_other _ _ _ _ hj]; exact hi.dead j hjn h
        · intro j h; cases h
        · intro h; cases h
        · intro h; rcases h with h | h <;> cases h
        · simpa using hoc
        · intro j h
          by_cases hj : j = i
          · subst hj; simp only [upd_same] at h; exact hi.closedPend j h
          · simp only [upd_other _ _ _ _ hj] at h; exact hi.closedPend j h
        · intro j
          by_cases hj : j = i
          · subst hj; simp only [upd_same]; exact hi.caps j
          · simp only [upd_other _ _ _ _ hj]; exact hi.caps j
        · intro j
          by_cases hj : j = i
          · subst hj; simp only [upd_same]; have := hi.inLen j; rw [hb] at this; simp at this ⊢; omega
          · simp only [upd_other _ _ _ _ hj]; exact hi.inLen j
      · next hb =>
        split at hs
        · next hcl =>
          cases hs
          refine ⟨rfl, ?_, hi.dead, ?_, ?_, ?_, ?_, hi.closedPend, hi.seenC, hi.caps, hi.inLen⟩
          · intro j hjn
            have := hi.deliv j hjn
            rw [hpc] at this
            rw [this]; simp [held]
          · intro j h
            simp only [Pc.nil.injEq] at h
            subst h
            exact ⟨hin, hcl, hb⟩
          · intro h; cases h
          · intro h; rcases h with h | h <;> cases h
          · simpa using hoc
        · cases hs
    · cases hs

theorem inv_sNil (c : Cfg) (s s' : State) (hi : Inv c s) (hs : step c s .sNil = some s') : Inv c s' := by
  simp only [step, hi.np, Bool.false_eq_true, if_false] at hs
  split at hs
  · next i hpc =>
    cases hs
    obtain ⟨hin, hcl, hb⟩ := hi.nilPc i hpc
    have hoc := hi.outCl
    rw [hpc] at hoc
    refine ⟨rfl, ?_, ?_, ?_, ?_, ?_, ?_, hi.closedPend, hi.seenC, hi.caps, hi.inLen⟩
    · intro j hjn
      have := hi.deliv j hjn
      rw [hpc] at this
      rw [this, held_loopHead]; simp [held]
    · intro j hjn h
      by_cases hj : j = i
      · subst hj; exact ⟨hcl, hb⟩
      · simp only [upd_other _ _ _ _ hj] at h; exact hi.dead j hjn h
    · intro j h
      rcases loopHead_cases c (upd s.liveIn i false) with h' | h' <;> rw [h'.1] at h <;> cases h
    · intro h
      rcases loopHead_cases c (upd s.liveIn i false) with h' | h'
      · exact h'.2
      · rw [h'.1] at h; cases h
    · intro h j hjn
      rcases loopHead_cases c (upd s.liveIn i false) with h' | h'
      · rw [h'.1] at h; rcases h with h | h <;> cases h
      · exact anyLive_false _ c.n h'.2 j hjn
    · rcases loopHead_cases c (upd s.liveIn i false) with h' | h' <;> simp [h'.1] <;> simpa using hoc
  · cases hs

theorem inv_sSend (c : Cfg) (s s' : State) (hi : Inv c s) (hs : step c s .sSend = some s') : Inv c s' := by
  simp only [step, hi.np, Bool.false_eq_true, if_false] at hs
  split at hs
  · next i v hpc =>
    split at hs
    · next hoc =>
      have := hi.outCl.mp hoc
      rw [hpc] at this; cases this
    · cases hs
  · cases hs

theorem inv_sClose (c : Cfg) (s s' : State) (hi : Inv c s) (hs : step c s .sClose = some s') : Inv c s' := by
  simp only [step, hi.np, Bool.false_eq_true, if_false] at hs
  split at hs
  · next hpc =>
    have hoc : s.outClosed = false := by
      cases h : s.outClosed
      · rfl
      · have := hi.outCl.mp h; rw [hpc] at this; cases this
    simp only [hoc, Bool.false_eq_true, if_false, Option.some.injEq] at hs
    subst hs
    refine ⟨rfl, ?_, hi.dead, ?_, ?_, ?_, ?_, hi.closedPend, ?_, hi.caps, hi.inLen⟩
    · intro j hjn
      have := hi.deliv j hjn
      rw [hpc] at this
      rw [this]; simp [held]
    · intro j h; cases h
    · intro h; cases h
    · intro _; exact hi.lateDead (Or.inl hpc)
    · simp
    · intro _; rfl
  · cases hs

theorem inv_cTake (c : Cfg) (s s' : State) (hi : Inv c s) (hs : step c s .cTake = some s') : Inv c s' := by
  simp only [step, hi.np, Bool.false_eq_true, if_false] at hs
  split at hs
  · cases hs
  · split at hs
    · next i v hpc =>
      cases hs
      have hoc := hi.outCl
      rw [hpc] at hoc
      refine ⟨rfl, ?_, hi.dead, ?_, ?_, ?_, ?_, hi.closedPend, hi.seenC, hi.caps, hi.inLen⟩
      · intro j hjn
        have := hi.deliv j hjn
        rw [hpc] at this
        rw [held_loopHead, gotOf_append, this]
        by_cases hj : i = j
        · subst hj; simp [held]
        · simp [held, hj]
      · intro j h
        rcases loopHead_cases c s.liveIn with h' | h' <;> rw [h'.1] at h <;> cases h
      · intro h
        rcases loopHead_cases c s.liveIn with h' | h'
        · exact h'.2
        · rw [h'.1] at h; cases h
      · intro h j hjn
        rcases loopHead_cases c s.liveIn with h' | h'
        · rw [h'.1] at h; rcases h with h | h <;> cases h
        · exact anyLive_false _ c.n h'.2 j hjn
      · rcases loopHead_cases c s.liveIn with h' | h' <;> simp [h'.1] <;> simpa using hoc
    · cases hs

theorem inv_cSeeClose (c : Cfg) (s s' : State) (hi : Inv c s) (hs : step c s .cSeeClose = some s') :
    Inv c s' := by
  simp only [step, hi.np, Bool.false_eq_true, if_false] at hs
  split at hs
  · next hc =>
    cases hs
    exact ⟨rfl, hi.deliv, hi.dead, hi.nilPc, hi.selLive, hi.lateDead, hi.outCl, hi.closedPend,
      fun _ => hc.2, hi.caps, hi.inLen⟩
  · cases hs

theorem inv_step (c : Cfg) (s s' : State) (l : Label) (hi : Inv c s) (hs : step c s l = some s') :
    Inv c s' := by
  cases l with
  | pSend i => exact inv_pSend c s s' i hi hs
  | pClose i => exact inv_pClose c s s' i hi hs
  | sRecv i => exact inv_sRecv c s s' i hi hs
  | sNil => exact inv_sNil c s s' hi hs
  | sSend => exact inv_sSend c s s' hi hs
  | sClose => exact inv_sClose c s s' hi hs
  | cTake => exact inv_cTake c s s' hi hs
  | cSeeClose => exact inv_cSeeClose c s s' hi hs

theorem inv_reachable (c : Cfg) (s : State) (h : (lts c).Reachable s) : Inv c s :=
  Lts.invariant (lts c) (Inv c) (inv_init c) (fun s l s' hi hs => inv_step c s s' l hi hs) s h

theorem progress (c : Cfg) (s : State) (hi : Inv c s) (hns : s.seen = false) : (lts c).Enabled s := by
  have en : ∀ l, (step c s l).isSome = true → (lts c).Enabled s :=
    fun l h => Lts.enabled_of_isSome (lts c) s l h
  have hocl : s.pc ≠ .done → s.outClosed = false := by
    intro h
    cases h' : s.outClosed
    · rfl
    · exact absurd (hi.outCl.mp h') h
  cases hpc : s.pc with
  | nil i => exact en .sNil (by simp [step, hi.np, hpc])
  | closing =>
    have hoc := hocl (by rw [hpc]; intro h; cases h)
    exact en .sClose (by simp [step, hi.np, hpc, hoc])
  | done =>
    have hoc : s.outClosed = true := hi.outCl.mpr hpc
    exact en .cSeeClose (by simp [step, hi.np, hns, hoc])
  | send i v =>
    have hoc := hocl (by rw [hpc]; intro h; cases h)
    exact en .cTake (by simp [step, hi.np, hns, hoc, hpc])
  | sel =>
    obtain ⟨i, hin, hl⟩ := anyLive_true _ c.n (hi.selLive hpc)
    have hnle : ¬ c.n ≤ i := by omega
    cases hb : (s.ch i).buf with
    | cons v rest => exact en (.sRecv i) (by simp [step, hi.np, hnle, hpc, hl, hb])
    | nil =>
      by_cases hcl : (s.ch i).closed = true
      · exact en (.sRecv i) (by simp [step, hi.np, hnle, hpc, hl, hb, hcl])
      · cases hp : s.pend i with
        | nil => exact en (.pClose i) (by simp [step, hi.np, hnle, hp, hcl])
        | cons v rest =>
          by_cases hcap : (s.ch i).cap = 0
          · exact en (.pSend i) (by simp [step, hi.np, hnle, hp, hcl, hb, hcap, hpc, hl])
          · exact en (.pSend i) (by
              have : 0 < (s.ch i).cap := by omega
              simp [step, hi.np, hnle, hp, hcl, hb, this])

/-- the consumer only ever receives items tagged with a real input -/
theorem tags_step (c : Cfg) (s s' : State) (l : Label)
    (hi : (∀ p, p ∈ s.got → p.1 < c.n) ∧ (∀ i v, s.pc = .send i v → i < c.n)) (hs : step c s l = some s') :
    (∀ p, p ∈ s'.got → p.1 < c.n) ∧ (∀ i v, s'.pc = .send i v → i < c.n) := by
  obtain ⟨h1, h2⟩ := hi
  cases l <;> simp only [step] at hs <;> (repeat' split at hs) <;> (try cases hs) <;>
    (first
      | exact ⟨h1, h2⟩
      | (refine ⟨h1, ?_⟩; intro i v h; simp at h; omega)
      | (refine ⟨h1, ?_⟩; intro i v h; cases h)
      | (refine ⟨h1, ?_⟩; intro i v h
         rcases loopHead_cases c _ with h' | h' <;> rw [h'.1] at h <;> cases h)
      | (refine ⟨?_, ?_⟩
         · intro p hp
           simp only [List.mem_append, List.mem_singleton] at hp
           rcases hp with hp | hp
           · exact h1 p hp
           · subst hp; exact h2 _ _ (by assumption)
         · intro i v h
           rcases loopHead_cases c _ with h' | h' <;> rw [h'.1] at h <;> cases h))

theorem tags_init (c : Cfg) :
    (∀ p, p ∈ (init c).got → p.1 < c.n) ∧ (∀ i v, (init c).pc = .send i v → i < c.n) := by
  refine ⟨?_, ?_⟩
  · intro p hp; cases hp
  · intro i v h
    simp only [init] at h
    rcases loopHead_cases c (fun i => !c.nilIn i) with h' | h' <;> rw [h'.1] at h <;> cases h

theorem tags_reachable (c : Cfg) (s : State) (h : (lts c).Reachable s) : ∀ p, p ∈ s.got → p.1 < c.n :=
  (Lts.invariant (lts c) (fun s => (∀ p, p ∈ s.got → p.1 < c.n) ∧ (∀ i v, s.pc = .send i v → i < c.n))
    (tags_init c) (fun s l s' hi hs => tags_step c s s' l hi hs) s h).1

def pcW : Pc → Nat
  | .sel => 2 | .send _ _ => 4 | .nil _ => 1 | .closing => 1 | .done => 0

def chW (ch : Chan) : Nat := 5 * ch.buf.length + (if ch.closed then 0 else 1)

/-- every step (from a state where `pc = nil i` implies `ci` is still non-nil) strictly decreases this -/
def measure (c : Cfg) (s : State) : Nat :=
  sumTo (fun i => 6 * (s.pend i).length) c.n + sumTo (fun i => chW (s.ch i)) c.n +
  sumTo (fun i => if s.liveIn i then 2 else 0) c.n + pcW s.pc +
  (if s.outClosed then 0 else 1) + (if s.seen then 0 else 1) + (if s.panicked then 0 else 1)

/-- the goroutine is about to nil a channel variable that is still non-nil -/
def NilLive (c : Cfg) (s : State) : Prop := ∀ i, s.pc = .nil i → s.liveIn i = true ∧ i < c.n

theorem nilLive_step (c : Cfg) (s s' : State) (l : Label) (hi : NilLive c s) (hs : step c s l = some s') :
    NilLive c s' := by
  cases l <;> simp only [step] at hs <;> (repeat' split at hs) <;> (try cases hs) <;>
    (first
      | exact hi
      | (intro i h; cases h; done)
      | (intro i h; injection h with h; subst h; exact ⟨by simp_all, by omega⟩)
      | (intro i h
         rcases loopHead_cases c _ with h' | h' <;> rw [h'.1] at h <;> cases h))

theorem pcW_loopHead_le (c : Cfg) (live : Nat → Bool) : pcW (loopHead c live) ≤ 2 := by
  rcases loopHead_cases c live with h | h <;> rw [h.1] <;> simp [pcW]

theorem measure_decreases (c : Cfg) (s s' : State) (l : Label) (hn : NilLive c s)
    (hs : step c s l = some s') : measure c s' < measure c s := by
  have eSel : pcW Pc.sel = 2 := rfl
  have eClosing : pcW Pc.closing = 1 := rfl
  have eDone : pcW Pc.done = 0 := rfl
  cases l with
  | pSend i =>
    simp only [step] at hs
    split at hs
    · cases hs
    · split at hs
      · cases hs
      · next hnle =>
        have hin : i < c.n := by omega
        split at hs
        · cases hs
        · next v rest hpe =>
          have h1 := sumTo_upd_lt (fun l : List Nat => 6 * l.length) s.pend i rest c.n hin
          simp only [hpe, List.length_cons] at h1
          split at hs
          · cases hs
          · split at hs
            · cases hs
              have h2 := sumTo_upd_lt chW s.ch i { s.ch i with buf := (s.ch i).buf ++ [v] } c.n hin
              simp only [chW, List.length_append, List.length_cons, List.length_nil] at h2
              simp only [measure, chW]
              omega
            · split at hs
              · next hj =>
                cases hs
                have e : pcW (Pc.send i v) = 4 := rfl
                simp only [measure, hj.2.1, eSel, e]
                omega
              · cases hs
  | pClose i =>
    simp only [step] at hs
    split at hs
    · cases hs
    · split at hs
      · cases hs
      · next hnle =>
        have hin : i < c.n := by omega
        split at hs
        · next hc =>
          cases hs
          have h2 := sumTo_upd_lt chW s.ch i { s.ch i with closed := true } c.n hin
          simp only [chW, hc.2, Bool.false_eq_true, if_false, if_true] at h2
          simp only [measure, chW]
          omega
        · cases hs
  | sRecv i =>
    simp only [step] at hs
    split at hs
    · cases hs
    · split at hs
      · cases hs
      · next hnle =>
        have hin : i < c.n := by omega
        split at hs
        · next hc =>
          split at hs
          · next v rest hb =>
            cases hs
            have h2 := sumTo_upd_lt chW s.ch i { s.ch i with buf := rest } c.n hin
            simp only [chW, hb, List.length_cons] at h2
            have e : pcW (Pc.send i v) = 4 := rfl
            simp only [measure, chW, hc.1, eSel, e]
            omega
          · split at hs
            · cases hs
              have e : pcW (Pc.nil i) = 1 := rfl
              simp only [measure, hc.1, eSel, e]
              omega
            · cases hs
        · cases hs
  | sNil =>
    simp only [step] at hs
    split at hs
    · cases hs
    · split at hs
      · next i hpc =>
        cases hs
        obtain ⟨hl, hin⟩ := hn i hpc
        have h3 := sumTo_upd_lt (fun b : Bool => if b then 2 else 0) s.liveIn i false c.n hin
        simp only [hl, if_true, Bool.false_eq_true, if_false] at h3
        have := pcW_loopHead_le c (upd s.liveIn i false)
        have e : pcW (Pc.nil i) = 1 := rfl
        simp only [measure, hpc, e]
        omega
      · cases hs
  | sSend =>
    simp only [step] at hs
    split at hs
    · cases hs
    · next hp =>
      have hp' : s.panicked = false := by simpa using hp
      split at hs
      · split at hs
        · cases hs
          simp only [measure, hp', Bool.false_eq_true, if_false, if_true]
          omega
        · cases hs
      · cases hs
  | sClose =>
    simp only [step] at hs
    split at hs
    · cases hs
    · next hp =>
      have hp' : s.panicked = false := by simpa using hp
      split at hs
      · next hpc =>
        split at hs
        · cases hs
          simp only [measure, hp', Bool.false_eq_true, if_false, if_true]
          omega
        · next hoc =>
          have hoc' : s.outClosed = false := by simpa using hoc
          cases hs
          simp only [measure, hpc, hoc', eClosing, eDone, Bool.false_eq_true, if_false, if_true]
          omega
      · cases hs
  | cTake =>
    simp only [step] at hs
    split at hs
    · cases hs
    · split at hs
      · cases hs
      · split at hs
        · next i v hpc =>
          cases hs
          have := pcW_loopHead_le c s.liveIn
          have e : pcW (Pc.send i v) = 4 := rfl
          simp only [measure, hpc, e]
          omega
        · cases hs
  | cSeeClose =>
    simp only [step] at hs
    split at hs
    · cases hs
    · split at hs
      · next hc =>
        cases hs
        simp only [measure, hc.1, Bool.false_eq_true, if_false, if_true]
        omega
      · cases hs

end Goderive.K.JoinSelect
