/-
Helper lemmas for C03 (derived Compare):

* `Compare.okTy` / `SupportedCmp`: which types plugin/compare supports (decidable, syntactic,
  closed world);
* unfolding lemmas for the specification `Spec.cmpVal` / `cmpSeq` / `cmpEntries` in terms of the
  lexicographic combination `lex`;
* the model computes the specification (`top_correct`), never panicking on typed values;
* the specification is a three-valued total preorder on NaN-free values of one type
  (`tri_cmpVal`, `cmpVal_antisymm`, `trans3_cmpVal`) whose equivalence is structural equality
  (`cmpVal_eq_zero_iff`);
* context lemmas for `cmpSeq` / `cmpEntries`.

Everything that is not part of a theorem statement of `Props/C03.lean` lives in `Goderive.Cmp`.
-/
import GoderiveModel.Lemmas.SortEntries
import GoderiveModel.Spec.Order
import GoderiveModel.Spec.StructEq

namespace Goderive
open Val

namespace Compare

/-- `T` is supported by plugin/compare in any position: no unnamed struct (the generator answers
"unsupported compare type"), no chan / func / interface, comparable map keys, no dangling name. -/
def okTy (env : Env) : Ty → Bool
  | .basic _ => true
  | .named i => (env.decl? i).isSome
  | .ptr R => okTy env R
  | .slice E => okTy env E
  | .array _ E => okTy env E
  | .map K V => canEqual env K && okTy env K && okTy env V
  | .struct _ => false
  | .fnil => true
  | .fcons F r => okTy env F && okTy env r
  | .chan _ => false
  | .func => false
  | .iface => false

/-- supported as the underlying type of a declaration: a struct is allowed here -/
def okDecl (env : Env) : Ty → Bool
  | .struct fs => okTy env fs
  | T => okTy env T

def envOk (env : Env) : Bool := env.decls.all fun d => okDecl env d.under

end Compare

/-- `deriveCompare` can be generated for `T`: closed-world syntactic check over `T` and the
underlying types of all declarations. -/
def SupportedCmp (env : Env) (T : Ty) : Bool := Compare.okTy env T && Compare.envOk env

/-- append two `snil`/`scons` spines (the terminator of the first is dropped) -/
def Val.sapp : Val → Val → Val
  | .scons h t, s => .scons h (Val.sapp t s)
  | _, s => s

namespace Cmp
open Spec Compare

/-! ## unfolding the specification -/

theorem cmpVal_bool (a b : Bool) : cmpVal (.bool a) (.bool b) = cmpBool a b := by rw [cmpVal]
theorem cmpVal_int (a b : Int) : cmpVal (.int a) (.int b) = cmpInt a b := by rw [cmpVal]
theorem cmpVal_flt (w a w' b : Nat) : cmpVal (.flt w a) (.flt w' b) = cmpFlt w a b := by rw [cmpVal]
theorem cmpVal_cplx (w a b w' c d : Nat) :
    cmpVal (.cplx w a b) (.cplx w' c d) = lex (cmpFlt w a c) (cmpFlt w b d) := by
  rw [cmpVal]; exact cplx_eq_lex ..
theorem cmpVal_str (a b : List Nat) : cmpVal (.str a) (.str b) = cmpBytes a b := by rw [cmpVal]
theorem cmpVal_nil_nil : cmpVal .nilv .nilv = 0 := by rw [cmpVal]
theorem cmpVal_nil_left {y : Val} (h : y ≠ .nilv) : cmpVal .nilv y = -1 := by
  rw [cmpVal.eq_def]; cases y <;> simp_all
theorem cmpVal_nil_right {x : Val} (h : x ≠ .nilv) : cmpVal x .nilv = 1 := by
  rw [cmpVal.eq_def]; cases x <;> simp_all
theorem cmpVal_ptr (a : Nat) (v : Val) (b : Nat) (w : Val) :
    cmpVal (.ptr a v) (.ptr b w) = cmpVal v w := by rw [cmpVal]
theorem cmpVal_slice (a sp : Nat) (xs : Val) (b sp' : Nat) (ys : Val) :
    cmpVal (.slice a sp xs) (.slice b sp' ys) =
      if xs.slen != ys.slen then (if xs.slen < ys.slen then -1 else 1) else cmpSeq xs ys := by
  rw [cmpVal]
theorem cmpVal_arr (xs ys : Val) : cmpVal (.arr xs) (.arr ys) = cmpSeq xs ys := by rw [cmpVal]
theorem cmpVal_struct (xs ys : Val) : cmpVal (.struct xs) (.struct ys) = cmpSeq xs ys := by
  rw [cmpVal]
theorem cmpVal_map (a : Nat) (xs : Val) (b : Nat) (ys : Val) :
    cmpVal (.map a xs) (.map b ys) =
      if xs.slen != ys.slen then (if xs.slen < ys.slen then -1 else 1)
      else cmpEntries (sortEntries xs) (sortEntries ys) := by
  rw [cmpVal]
theorem cmpSeq_scons (a r b s : Val) :
    cmpSeq (.scons a r) (.scons b s) = lex (cmpVal a b) (cmpSeq r s) := by
  rw [cmpSeq]; rfl
theorem cmpSeq_snil : cmpSeq .snil .snil = 0 := by rw [cmpSeq.eq_def]
theorem cmpEntries_scons (k v r k' w s : Val) :
    cmpEntries (.scons (.pair k v) r) (.scons (.pair k' w) s) =
      lex (if goEq k k' then cmpVal v w else cmpKey k k') (cmpEntries r s) := by
  rw [cmpEntries]; rfl
theorem cmpEntries_snil : cmpEntries .snil .snil = 0 := by rw [cmpEntries.eq_def]

/-! ## the model computes the specification -/

theorem sizeOf_lt_of_mem {e s : Val} (h : e ∈ s.toList) : sizeOf e < sizeOf s := by
  induction s with
  | scons a r _ ihr =>
    simp only [toList, List.mem_cons] at h
    rcases h with rfl | h
    · simp; omega
    · have := ihr h; simp; omega
  | _ => simp [toList] at h

theorem sizeOf_evalue_le (e : Val) : sizeOf (evalue e) ≤ sizeOf e := by
  cases e <;> simp [evalue] <;> omega

/-- a supported type is a name or is its own underlying type; its underlying type is supported as
a declaration body -/
theorem okDecl_under {env : Env} (he : envOk env = true) {T : Ty} (h : okTy env T = true) :
    okDecl env (env.under T) = true := by
  cases T <;> try (simpa [Env.under, okDecl] using h)
  · rename_i i
    simp only [okTy] at h
    simp only [Env.under]
    cases hd : env.decl? i with
    | none => simp [hd] at h
    | some d =>
      simp only [envOk, List.all_eq_true] at he
      exact he d (List.mem_of_getElem? hd)
  · simp [okTy] at h

theorem isNamed_of_under_struct {env : Env} {T fs : Ty} (h : okTy env T = true)
    (hU : env.under T = .struct fs) : T.isNamed = true := by
  cases T <;> simp_all [Env.under, okTy, Ty.isNamed]

/-- `field()` just calls the helper for the component type, for every supported type -/
theorem field_eq_top {env : Env} {F : Ty} (h : okTy env F = true) (x y : Val) :
    Compare.field env F x y = Compare.top env F x y := by
  rw [Compare.field.eq_def]
  split
  · rename_i fs hU
    simp [isNamed_of_under_struct h hU]
  · rfl

theorem cmpLeaf_eq {b : Basic} {x y : Val} (hx : basicHasType b x = true)
    (hy : basicHasType b y = true) : cmpLeaf x y = .ok (cmpVal x y) := by
  cases b <;> cases x <;> simp [basicHasType] at hx <;> cases y <;> simp [basicHasType] at hy <;>
    simp [cmpLeaf, cmpVal_bool, cmpVal_int, cmpVal_flt, cmpVal_cplx, cmpVal_str, cplx_eq_lex]

/-- the model's `top` computes the specification at `x` (for every supported type and partner) -/
def TopOK (env : Env) (x : Val) : Prop :=
  ∀ T y, hasType env T x = true → hasType env T y = true → okTy env T = true →
    Compare.top env T x y = .ok (cmpVal x y)

theorem fields_correct {env : Env} (xs : Val) (ih : ∀ a ∈ xs.toList, TopOK env a) :
    ∀ fs ys, fieldsHaveType env fs xs = true → fieldsHaveType env fs ys = true →
      okTy env fs = true → Compare.fields env fs xs ys = .ok (cmpSeq xs ys) := by
  induction xs with
  | scons a r _ ihr =>
    intro fs ys hx hy hok
    rcases fieldsHaveType_inv hx with ⟨_, h⟩ | ⟨F, rest, a', r', rfl, h, ha, hr⟩
    · cases h
    · cases h
      rcases fieldsHaveType_inv hy with ⟨h, _⟩ | ⟨F', rest', b, s, h, rfl, hb, hs⟩
      · cases h
      · cases h
        simp only [okTy, Bool.and_eq_true] at hok
        rw [Compare.fields, field_eq_top hok.1, ih a (by simp [toList]) F b ha hb hok.1]
        simp only [Res.bind_ok, cmpSeq_scons, lex]
        split
        · rfl
        · exact ihr (fun a' ha' => ih a' (by simp [toList, ha'])) rest s hr hs hok.2
  | snil =>
    intro fs ys hx hy _
    rcases fieldsHaveType_inv hx with ⟨rfl, _⟩ | ⟨_, _, _, _, _, h, _⟩
    · rcases fieldsHaveType_inv hy with ⟨_, rfl⟩ | ⟨_, _, _, _, h, _⟩
      · rw [Compare.fields, cmpSeq_snil]
      · cases h
    · cases h
  | _ =>
    intro fs ys hx
    rcases fieldsHaveType_inv hx with ⟨_, h⟩ | ⟨_, _, _, _, _, h, _⟩ <;> cases h

theorem elems_correct {env : Env} (xs : Val) (ih : ∀ a ∈ xs.toList, TopOK env a) :
    ∀ E ys, allHaveType env E xs = true → allHaveType env E ys = true → xs.slen = ys.slen →
      okTy env E = true → Compare.elems env E xs ys = .ok (cmpSeq xs ys) := by
  induction xs with
  | scons a r _ ihr =>
    intro E ys hx hy hl hok
    rcases allHaveType_inv hy with rfl | ⟨b, s, rfl, hb, hs⟩
    · simp [slen] at hl
    · simp only [allHaveType_scons, Bool.and_eq_true] at hx
      rw [Compare.elems, field_eq_top hok, ih a (by simp [toList]) E b hx.1 hb hok]
      simp only [Res.bind_ok, cmpSeq_scons, lex]
      split
      · rfl
      · exact ihr (fun a' ha' => ih a' (by simp [toList, ha'])) E s hx.2 hs
          (by simpa [slen] using hl) hok
  | snil =>
    intro E ys _ hy hl _
    rcases allHaveType_inv hy with rfl | ⟨b, s, rfl, hb, hs⟩
    · rw [Compare.elems, cmpSeq_snil]
    · simp [slen] at hl
  | _ =>
    intro E ys hx
    rcases allHaveType_inv hx with h | ⟨_, _, h, _⟩ <;> cases h

theorem entries_correct {env : Env} (xs : Val) (ih : ∀ e ∈ xs.toList, TopOK env (evalue e)) :
    ∀ K V ys, entriesHaveType env K V xs = true → entriesHaveType env K V ys = true →
      xs.slen = ys.slen → okTy env V = true →
      Compare.entries env V xs ys = .ok (cmpEntries xs ys) := by
  induction xs with
  | scons e r _ ihr =>
    intro K V ys hx hy hl hok
    rcases entriesHaveType_inv hx with h | ⟨k, v, r', h, hk, hv, hr⟩
    · cases h
    · cases h
      rcases entriesHaveType_inv hy with rfl | ⟨k', w, s, rfl, hk', hw, hs⟩
      · simp [slen] at hl
      · have ihv := ih (.pair k v) (by simp [toList]) V w hv hw hok
        simp only [evalue] at ihv
        have iht := ihr (fun a' ha' => ih a' (by simp [toList, ha'])) K V s hr hs
          (by simpa [slen] using hl) hok
        rw [Compare.entries, cmpEntries_scons]
        by_cases hg : goEq k k' = true
        · simp only [hg, if_true, field_eq_top hok, ihv, Res.bind_ok, lex]
          split
          · rfl
          · exact iht
        · simp only [hg, Bool.false_eq_true, if_false, lex]
          split
          · rfl
          · exact iht
  | snil =>
    intro K V ys _ hy hl _
    rcases entriesHaveType_inv hy with rfl | ⟨_, _, _, rfl, _⟩
    · rw [Compare.entries, cmpEntries_snil]
    · simp [slen] at hl
  | _ =>
    intro K V ys hx
    rcases entriesHaveType_inv hx with h | ⟨_, _, _, h, _⟩ <;> cases h

theorem okDecl_struct {env : Env} {fs : Ty} (h : okDecl env (.struct fs) = true) :
    okTy env fs = true := h

/-- **the model computes the specification** on typed values of a supported type -/
theorem top_correct {env : Env} (he : envOk env = true) (x : Val) :
    TopOK env x := by
  induction hn : sizeOf x using Nat.strongRecOn generalizing x with
  | _ n IH =>
  subst hn
  have ih : ∀ a, sizeOf a < sizeOf x → TopOK env a := fun a ha => IH _ ha a rfl
  intro T y hx hy hok
  have hd := okDecl_under he hok
  rcases hasType_false_of_under hx with ⟨b, hU⟩ | ⟨R, hU⟩ | ⟨E, hU⟩ | ⟨n, E, hU⟩ | ⟨fs, hU⟩ |
      ⟨K, V, hU⟩
  · -- basic
    rw [hasType_basic hU] at hx hy
    rw [Compare.top.eq_def, hU]
    exact cmpLeaf_eq hx hy
  · -- pointer
    rw [hU] at hd
    have hokR : okTy env R = true := by simpa [okDecl, okTy] using hd
    rw [Compare.top.eq_def, hU]
    rcases hasType_ptr hU hx with rfl | ⟨a, v, rfl, hv⟩ <;>
      rcases hasType_ptr hU hy with rfl | ⟨b, w, rfl, hw⟩
    · simp [cmpVal_nil_nil]
    · simp [cmpVal_nil_left]
    · simp [cmpVal_nil_right]
    · simp only [cmpVal_ptr]
      split
      · rename_i fs hUR
        rw [if_pos (isNamed_of_under_struct hokR hUR)]
        obtain ⟨xs, rfl, hxs⟩ := (hasType_struct hUR _).1 hv
        obtain ⟨ys, rfl, hys⟩ := (hasType_struct hUR _).1 hw
        have hdR := okDecl_under he hokR
        rw [hUR] at hdR
        simp only [cmpVal_struct]
        refine fields_correct xs (fun a ha => ih a ?_) fs ys hxs hys hdR
        have := sizeOf_lt_of_mem ha; simp; omega
      · exact ih v (by simp; omega) R w hv hw hokR
  · -- slice
    rw [hU] at hd
    have hokE : okTy env E = true := by simpa [okDecl, okTy] using hd
    rw [Compare.top.eq_def, hU]
    rcases hasType_slice hU hx with rfl | ⟨a, sp, xs, rfl, hxs⟩ <;>
      rcases hasType_slice hU hy with rfl | ⟨b, sp', ys, rfl, hys⟩
    · simp [cmpVal_nil_nil]
    · simp [cmpVal_nil_left]
    · simp [cmpVal_nil_right]
    · simp only [cmpVal_slice]
      split
      · rfl
      · rename_i hl
        refine elems_correct xs (fun a ha => ih a ?_) E ys hxs hys (by simpa using hl) hokE
        have := sizeOf_lt_of_mem ha; simp; omega
  · -- array
    rw [hU] at hd
    have hokE : okTy env E = true := by simpa [okDecl, okTy] using hd
    rw [Compare.top.eq_def, hU]
    obtain ⟨xs, rfl, hlx, hxs⟩ := (hasType_array hU _).1 hx
    obtain ⟨ys, rfl, hly, hys⟩ := (hasType_array hU _).1 hy
    simp only [cmpVal_arr]
    refine elems_correct xs (fun a ha => ih a ?_) E ys hxs hys (by omega) hokE
    have := sizeOf_lt_of_mem ha; simp; omega
  · -- struct
    rw [hU] at hd
    rw [Compare.top.eq_def, hU]
    obtain ⟨xs, rfl, hxs⟩ := (hasType_struct hU _).1 hx
    obtain ⟨ys, rfl, hys⟩ := (hasType_struct hU _).1 hy
    simp only [cmpVal_struct, isNamed_of_under_struct hok hU, if_true]
    refine fields_correct xs (fun a ha => ih a ?_) fs ys hxs hys hd
    have := sizeOf_lt_of_mem ha; simp; omega
  · -- map
    rw [hU] at hd
    have hokV : okTy env V = true := by
      simp only [okDecl, okTy, Bool.and_eq_true] at hd; exact hd.2
    rw [Compare.top.eq_def, hU]
    rcases hasType_map hU hx with rfl | ⟨a, xs, rfl, _, hxs, _⟩ <;>
      rcases hasType_map hU hy with rfl | ⟨b, ys, rfl, _, hys, _⟩
    · simp [cmpVal_nil_nil]
    · simp [cmpVal_nil_left]
    · simp [cmpVal_nil_right]
    · simp only [cmpVal_map]
      split
      · rfl
      · rename_i hl
        refine entries_correct (sortEntries xs) (fun e he => ih _ ?_) K V (sortEntries ys)
          (entriesHaveType_sortEntries hxs) (entriesHaveType_sortEntries hys)
          (by rw [slen_sortEntries, slen_sortEntries]; simpa using hl) hokV
        have := sizeOf_lt_of_mem (mem_sortEntries.1 he)
        have := sizeOf_evalue_le e
        simp; omega

/-! ## range -/

theorem cmpSeq_of_not_scons_left {xs : Val} (ys : Val) (h : ∀ a r, xs ≠ .scons a r) :
    cmpSeq xs ys = 0 := by
  rw [cmpSeq.eq_def]; split
  · exact absurd rfl (h _ _)
  · rfl

theorem cmpSeq_of_not_scons_right (xs : Val) {ys : Val} (h : ∀ a r, ys ≠ .scons a r) :
    cmpSeq xs ys = 0 := by
  rw [cmpSeq.eq_def]; split
  · exact absurd rfl (h _ _)
  · rfl

theorem tri_cmpSeq (xs : Val) (ih : ∀ a ∈ xs.toList, ∀ b, Tri (cmpVal a b)) (ys : Val) :
    Tri (cmpSeq xs ys) := by
  induction xs generalizing ys with
  | scons a r _ ihr =>
    cases ys with
    | scons b s =>
      rw [cmpSeq_scons]
      exact (ih a (by simp [toList]) b).lex (ihr (fun a' ha' => ih a' (by simp [toList, ha'])) s)
    | _ => rw [cmpSeq_of_not_scons_right _ (by simp)]; exact tri_zero
  | _ => rw [cmpSeq_of_not_scons_left _ (by simp)]; exact tri_zero

theorem entry_cases (xs : Val) :
    (∃ k v r, xs = .scons (.pair k v) r) ∨ (∀ k v r, xs ≠ .scons (.pair k v) r) := by
  cases xs with
  | scons h t =>
    cases h with
    | pair k v => exact .inl ⟨k, v, t, rfl⟩
    | _ => right; intro k v r h; cases h
  | _ => right; intro k v r h; cases h

theorem cmpEntries_of_not_entry_left {xs : Val} (ys : Val)
    (h : ∀ k v r, xs ≠ .scons (.pair k v) r) : cmpEntries xs ys = 0 := by
  rw [cmpEntries.eq_def]; split
  · exact absurd rfl (h _ _ _)
  · rfl

theorem cmpEntries_of_not_entry_right (xs : Val) {ys : Val}
    (h : ∀ k v r, ys ≠ .scons (.pair k v) r) : cmpEntries xs ys = 0 := by
  rw [cmpEntries.eq_def]; split
  · exact absurd rfl (h _ _ _)
  · rfl

theorem tri_cmpEntries (xs : Val) (ih : ∀ e ∈ xs.toList, ∀ b, Tri (cmpVal (evalue e) b))
    (ys : Val) : Tri (cmpEntries xs ys) := by
  induction xs generalizing ys with
  | scons e r _ ihr =>
    rcases entry_cases (.scons e r) with ⟨k, v, r', h⟩ | h
    · cases h
      rcases entry_cases ys with ⟨k', w, s, rfl⟩ | h'
      · have hv := ih (.pair k v) (by simp [toList]) w
        simp only [evalue] at hv
        have ht := ihr (fun a' ha' => ih a' (by simp [toList, ha'])) s
        have hh : Tri (if goEq k k' = true then cmpVal v w else cmpKey k k') := by
          split
          · exact hv
          · exact tri_cmpKey ..
        rw [cmpEntries_scons]
        exact hh.lex ht
      · rw [cmpEntries_of_not_entry_right _ h']; exact tri_zero
    · rw [cmpEntries_of_not_entry_left _ h]; exact tri_zero
  | _ => rw [cmpEntries_of_not_entry_left _ (by simp)]; exact tri_zero

theorem tri_len (m n : Nat) (t : Int) (ht : Tri t) :
    Tri (if (m != n) = true then (if m < n then -1 else 1) else t) := by
  split
  · split
    · exact tri_neg_one
    · exact tri_one
  · exact ht

/-- the specification only returns -1, 0 or +1 (no hypotheses) -/
theorem tri_cmpVal (x y : Val) : Tri (cmpVal x y) := by
  induction hn : sizeOf x using Nat.strongRecOn generalizing x y with
  | _ n IH =>
  subst hn
  have ih : ∀ a, sizeOf a < sizeOf x → ∀ b, Tri (cmpVal a b) := fun a ha b => IH _ ha a b rfl
  rw [cmpVal.eq_def]
  split
  · exact tri_cmpBool ..
  · exact tri_cmpInt ..
  · exact tri_cmpFlt ..
  · rw [cplx_eq_lex]; exact (tri_cmpFlt ..).lex (tri_cmpFlt ..)
  · exact tri_cmpBytes ..
  · exact tri_zero
  · exact tri_neg_one
  · exact tri_one
  · exact ih _ (by simp; omega) _
  · refine tri_len _ _ _ (tri_cmpSeq _ (fun a ha => ih a ?_) _)
    have := sizeOf_lt_of_mem ha; simp; omega
  · refine tri_cmpSeq _ (fun a ha => ih a ?_) _
    have := sizeOf_lt_of_mem ha; simp; omega
  · refine tri_cmpSeq _ (fun a ha => ih a ?_) _
    have := sizeOf_lt_of_mem ha; simp; omega
  · refine tri_len _ _ _ (tri_cmpEntries _ (fun e he => ih _ ?_) _)
    have := sizeOf_lt_of_mem (mem_sortEntries.1 he)
    have := sizeOf_evalue_le e
    simp; omega
  · exact tri_zero

/-! ## leaves: the specification is the key order -/

theorem cmpVal_eq_cmpKey_of_basic {b : Basic} {x y : Val} (hx : basicHasType b x = true)
    (hy : basicHasType b y = true) : cmpVal x y = cmpKey x y := by
  cases b <;> cases x <;> simp [basicHasType] at hx <;> cases y <;> simp [basicHasType] at hy <;>
    simp [cmpVal_bool, cmpVal_int, cmpVal_flt, cmpVal_cplx, cmpVal_str, cmpKey, cplx_eq_lex]

theorem len_lex (m n : Nat) (t : Int) :
    (if (m != n) = true then (if m < n then -1 else 1) else t) = lex (cmpInt m n) t := by
  by_cases h : m = n
  · subst h; simp [cmpInt_self]
  · have h' : ¬ ((m : Int) = (n : Int)) := by omega
    simp only [bne_iff_ne, ne_eq, h, not_false_eq_true, if_true, lex, cmpInt, beq_iff_eq, h',
      if_false, Int.ofNat_lt]
    split <;> simp

/-! ## antisymmetry -/

/-- antisymmetry at `x`, against every NaN-free partner of the same type -/
def AntiOK (env : Env) (x : Val) : Prop :=
  ∀ T y, hasType env T x = true → hasType env T y = true → nanFree x = true → nanFree y = true →
    cmpVal y x = - cmpVal x y

theorem cmpSeq_antisymm_elems {env : Env} (xs : Val) (ih : ∀ a ∈ xs.toList, AntiOK env a) :
    ∀ E ys, allHaveType env E xs = true → allHaveType env E ys = true →
      nanFree xs = true → nanFree ys = true → cmpSeq ys xs = - cmpSeq xs ys := by
  induction xs with
  | scons a r _ ihr =>
    intro E ys hx hy nx ny
    rcases allHaveType_inv hy with rfl | ⟨b, s, rfl, hb, hs⟩
    · rw [cmpSeq_of_not_scons_left _ (by simp), cmpSeq_of_not_scons_right _ (by simp)]; rfl
    · simp only [allHaveType_scons, Bool.and_eq_true] at hx
      simp only [nanFree, Bool.and_eq_true] at nx ny
      rw [cmpSeq_scons, cmpSeq_scons, ih a (by simp [toList]) E b hx.1 hb nx.1 ny.1,
        ihr (fun a' ha' => ih a' (by simp [toList, ha'])) E s hx.2 hs nx.2 ny.2, lex_neg]
  | _ =>
    intro E ys _ _ _ _
    rw [cmpSeq_of_not_scons_right _ (by simp), cmpSeq_of_not_scons_left _ (by simp)]; rfl

theorem cmpSeq_antisymm_fields {env : Env} (xs : Val) (ih : ∀ a ∈ xs.toList, AntiOK env a) :
    ∀ fs ys, fieldsHaveType env fs xs = true → fieldsHaveType env fs ys = true →
      nanFree xs = true → nanFree ys = true → cmpSeq ys xs = - cmpSeq xs ys := by
  induction xs with
  | scons a r _ ihr =>
    intro fs ys hx hy nx ny
    rcases fieldsHaveType_inv hx with ⟨_, h⟩ | ⟨F, rest, a', r', rfl, h, ha, hr⟩
    · cases h
    · cases h
      rcases fieldsHaveType_inv hy with ⟨h, _⟩ | ⟨F', rest', b, s, h, rfl, hb, hs⟩
      · cases h
      · cases h
        simp only [nanFree, Bool.and_eq_true] at nx ny
        rw [cmpSeq_scons, cmpSeq_scons, ih a (by simp [toList]) F b ha hb nx.1 ny.1,
          ihr (fun a' ha' => ih a' (by simp [toList, ha'])) rest s hr hs nx.2 ny.2, lex_neg]
  | _ =>
    intro E ys _ _ _ _
    rw [cmpSeq_of_not_scons_right _ (by simp), cmpSeq_of_not_scons_left _ (by simp)]; rfl

theorem cmpEntries_antisymm {env : Env} (hf : env.flagsOk = true) {K V : Ty}
    (hc : canEqual env K = true) (xs : Val) (ih : ∀ e ∈ xs.toList, AntiOK env (evalue e)) :
    ∀ ys, entriesHaveType env K V xs = true → entriesHaveType env K V ys = true →
      nanFree xs = true → nanFree ys = true → cmpEntries ys xs = - cmpEntries xs ys := by
  have hP := keySet_typed hf hc
  induction xs with
  | scons e r _ ihr =>
    intro ys hx hy nx ny
    rcases entriesHaveType_inv hx with h | ⟨k, v, r', h, hk, hv, hr⟩
    · cases h
    · cases h
      rcases entriesHaveType_inv hy with rfl | ⟨k', w, s, rfl, hk', hw, hs⟩
      · rw [cmpEntries_of_not_entry_left _ (by simp), cmpEntries_of_not_entry_right _ (by simp)]
        rfl
      · simp only [nanFree, Bool.and_eq_true] at nx ny
        have ihv := ih (.pair k v) (by simp [toList]) V w hv hw nx.1.2 ny.1.2
        simp only [evalue] at ihv
        have iht := ihr (fun a' ha' => ih a' (by simp [toList, ha'])) s hr hs nx.2 ny.2
        rw [cmpEntries_scons, cmpEntries_scons, iht, ihv, hP.goEq_symm ⟨hk', ny.1.1⟩ ⟨hk, nx.1.1⟩,
          hP.antisymm ⟨hk, nx.1.1⟩ ⟨hk', ny.1.1⟩, ← lex_neg]
        congr 1
        split <;> rfl
  | _ =>
    intro ys _ _ _ _
    rw [cmpEntries_of_not_entry_right _ (by simp), cmpEntries_of_not_entry_left _ (by simp)]; rfl

theorem neg_len (m n : Nat) (t t' : Int) (h : t' = - t) :
    (if (n != m) = true then (if n < m then -1 else 1) else t')
      = - (if (m != n) = true then (if m < n then -1 else 1) else t) := by
  rw [len_lex, len_lex, cmpInt_antisymm, h, lex_neg]

/-- **antisymmetry** of the specification on NaN-free values of one type -/
theorem antiOK {env : Env} (hf : env.flagsOk = true) (x : Val) : AntiOK env x := by
  induction hn : sizeOf x using Nat.strongRecOn generalizing x with
  | _ n IH =>
  subst hn
  have ih : ∀ a, sizeOf a < sizeOf x → AntiOK env a := fun a ha => IH _ ha a rfl
  intro T y hx hy nx ny
  rcases hasType_false_of_under hx with ⟨b, hU⟩ | ⟨R, hU⟩ | ⟨E, hU⟩ | ⟨n, E, hU⟩ | ⟨fs, hU⟩ |
      ⟨K, V, hU⟩
  · -- basic
    rw [hasType_basic hU] at hx hy
    rw [cmpVal_eq_cmpKey_of_basic hx hy, cmpVal_eq_cmpKey_of_basic hy hx]
    exact cmpKey_antisymm (keyLike_of_basicHasType hx hy) nx ny
  · -- pointer
    rcases hasType_ptr hU hx with rfl | ⟨a, v, rfl, hv⟩ <;>
      rcases hasType_ptr hU hy with rfl | ⟨b, w, rfl, hw⟩
    · simp [cmpVal_nil_nil]
    · simp [cmpVal_nil_left, cmpVal_nil_right]
    · simp [cmpVal_nil_left, cmpVal_nil_right]
    · simp only [cmpVal_ptr]
      exact ih v (by simp; omega) R w hv hw (by simpa [nanFree] using nx)
        (by simpa [nanFree] using ny)
  · -- slice
    rcases hasType_slice hU hx with rfl | ⟨a, sp, xs, rfl, hxs⟩ <;>
      rcases hasType_slice hU hy with rfl | ⟨b, sp', ys, rfl, hys⟩
    · simp [cmpVal_nil_nil]
    · simp [cmpVal_nil_left, cmpVal_nil_right]
    · simp [cmpVal_nil_left, cmpVal_nil_right]
    · simp only [cmpVal_slice]
      refine neg_len _ _ _ _ (cmpSeq_antisymm_elems xs (fun a ha => ih a ?_) E ys hxs hys
        (by simpa [nanFree] using nx) (by simpa [nanFree] using ny))
      have := sizeOf_lt_of_mem ha; simp; omega
  · -- array
    obtain ⟨xs, rfl, hlx, hxs⟩ := (hasType_array hU _).1 hx
    obtain ⟨ys, rfl, hly, hys⟩ := (hasType_array hU _).1 hy
    simp only [cmpVal_arr]
    refine cmpSeq_antisymm_elems xs (fun a ha => ih a ?_) E ys hxs hys
      (by simpa [nanFree] using nx) (by simpa [nanFree] using ny)
    have := sizeOf_lt_of_mem ha; simp; omega
  · -- struct
    obtain ⟨xs, rfl, hxs⟩ := (hasType_struct hU _).1 hx
    obtain ⟨ys, rfl, hys⟩ := (hasType_struct hU _).1 hy
    simp only [cmpVal_struct]
    refine cmpSeq_antisymm_fields xs (fun a ha => ih a ?_) fs ys hxs hys
      (by simpa [nanFree] using nx) (by simpa [nanFree] using ny)
    have := sizeOf_lt_of_mem ha; simp; omega
  · -- map
    rcases hasType_map hU hx with rfl | ⟨a, xs, rfl, hc, hxs, _⟩ <;>
      rcases hasType_map hU hy with rfl | ⟨b, ys, rfl, _, hys, _⟩
    · simp [cmpVal_nil_nil]
    · simp [cmpVal_nil_left, cmpVal_nil_right]
    · simp [cmpVal_nil_left, cmpVal_nil_right]
    · simp only [cmpVal_map]
      simp only [nanFree] at nx ny
      refine neg_len _ _ _ _ (cmpEntries_antisymm hf hc (sortEntries xs) (fun e he => ih _ ?_)
        (sortEntries ys) (entriesHaveType_sortEntries hxs) (entriesHaveType_sortEntries hys)
        (nanFree_sortEntries (isEntries_of_entriesHaveType hxs) nx)
        (nanFree_sortEntries (isEntries_of_entriesHaveType hys) ny))
      have := sizeOf_lt_of_mem (mem_sortEntries.1 he)
      have := sizeOf_evalue_le e
      simp; omega

/-! ## transitivity -/

/-- the transitivity package at `x`, against all NaN-free partners of the same type -/
def TransOK (env : Env) (x : Val) : Prop :=
  ∀ T y z, hasType env T x = true → hasType env T y = true → hasType env T z = true →
    nanFree x = true → nanFree y = true → nanFree z = true →
    Trans3 (cmpVal x y) (cmpVal y z) (cmpVal x z)

theorem cmpSeq_trans3_elems {env : Env} (xs : Val) (ih : ∀ a ∈ xs.toList, TransOK env a) :
    ∀ E ys zs, allHaveType env E xs = true → allHaveType env E ys = true →
      allHaveType env E zs = true → xs.slen = ys.slen → ys.slen = zs.slen →
      nanFree xs = true → nanFree ys = true → nanFree zs = true →
      Trans3 (cmpSeq xs ys) (cmpSeq ys zs) (cmpSeq xs zs) := by
  induction xs with
  | scons a r _ ihr =>
    intro E ys zs hx hy hz l1 l2 nx ny nz
    rcases allHaveType_inv hy with rfl | ⟨b, s, rfl, hb, hs⟩
    · simp [slen] at l1
    rcases allHaveType_inv hz with rfl | ⟨c, t, rfl, hc, ht⟩
    · simp [slen] at l2
    simp only [allHaveType_scons, Bool.and_eq_true] at hx
    simp only [nanFree, Bool.and_eq_true] at nx ny nz
    simp only [cmpSeq_scons]
    exact Trans3.lex (tri_cmpVal ..) (tri_cmpVal ..)
      (ih a (by simp [toList]) E b c hx.1 hb hc nx.1 ny.1 nz.1)
      (fun _ _ => ihr (fun a' ha' => ih a' (by simp [toList, ha'])) E s t hx.2 hs ht
        (by simpa [slen] using l1) (by simpa [slen] using l2) nx.2 ny.2 nz.2)
  | snil =>
    intro E ys zs _ hy hz l1 l2 _ _ _
    rcases allHaveType_inv hy with rfl | ⟨b, s, rfl, hb, hs⟩
    · rcases allHaveType_inv hz with rfl | ⟨c, t, rfl, hc, ht⟩
      · simp only [cmpSeq_snil]; exact Trans3.zero
      · simp [slen] at l2
    · simp [slen] at l1
  | _ =>
    intro E ys zs hx
    rcases allHaveType_inv hx with h | ⟨_, _, h, _⟩ <;> cases h

theorem cmpSeq_trans3_fields {env : Env} (xs : Val) (ih : ∀ a ∈ xs.toList, TransOK env a) :
    ∀ fs ys zs, fieldsHaveType env fs xs = true → fieldsHaveType env fs ys = true →
      fieldsHaveType env fs zs = true →
      nanFree xs = true → nanFree ys = true → nanFree zs = true →
      Trans3 (cmpSeq xs ys) (cmpSeq ys zs) (cmpSeq xs zs) := by
  induction xs with
  | scons a r _ ihr =>
    intro fs ys zs hx hy hz nx ny nz
    rcases fieldsHaveType_inv hx with ⟨_, h⟩ | ⟨F, rest, a', r', rfl, h, ha, hr⟩
    · cases h
    cases h
    rcases fieldsHaveType_inv hy with ⟨h, _⟩ | ⟨F', rest', b, s, h, rfl, hb, hs⟩
    · cases h
    cases h
    rcases fieldsHaveType_inv hz with ⟨h, _⟩ | ⟨F', rest', c, t, h, rfl, hc, ht⟩
    · cases h
    cases h
    simp only [nanFree, Bool.and_eq_true] at nx ny nz
    simp only [cmpSeq_scons]
    exact Trans3.lex (tri_cmpVal ..) (tri_cmpVal ..)
      (ih a (by simp [toList]) F b c ha hb hc nx.1 ny.1 nz.1)
      (fun _ _ => ihr (fun a' ha' => ih a' (by simp [toList, ha'])) rest s t hr hs ht
        nx.2 ny.2 nz.2)
  | snil =>
    intro fs ys zs hx hy hz _ _ _
    rcases fieldsHaveType_inv hx with ⟨rfl, _⟩ | ⟨_, _, _, _, _, h, _⟩
    · rcases fieldsHaveType_inv hy with ⟨_, rfl⟩ | ⟨_, _, _, _, h, _⟩
      · rcases fieldsHaveType_inv hz with ⟨_, rfl⟩ | ⟨_, _, _, _, h, _⟩
        · simp only [cmpSeq_snil]; exact Trans3.zero
        · cases h
      · cases h
    · cases h
  | _ =>
    intro fs ys zs hx
    rcases fieldsHaveType_inv hx with ⟨_, h⟩ | ⟨_, _, _, _, _, h, _⟩ <;> cases h

/-- on keys of one key set the head comparison of `cmpEntries` is "key, then value" -/
theorem entryHead_eq_lex {P : Val → Prop} (hP : KeySet P) {k k' : Val} (hk : P k) (hk' : P k')
    (c : Int) : (if goEq k k' = true then c else cmpKey k k') = lex (cmpKey k k') c := by
  by_cases h : goEq k k' = true
  · simp [h, (hP.eq_iff hk hk').2 h]
  · have : cmpKey k k' ≠ 0 := fun h0 => h ((hP.eq_iff hk hk').1 h0)
    simp [h, lex, this]

theorem cmpEntries_trans3 {env : Env} (hf : env.flagsOk = true) {K V : Ty}
    (hc : canEqual env K = true) (xs : Val) (ih : ∀ e ∈ xs.toList, TransOK env (evalue e)) :
    ∀ ys zs, entriesHaveType env K V xs = true → entriesHaveType env K V ys = true →
      entriesHaveType env K V zs = true → xs.slen = ys.slen → ys.slen = zs.slen →
      nanFree xs = true → nanFree ys = true → nanFree zs = true →
      Trans3 (cmpEntries xs ys) (cmpEntries ys zs) (cmpEntries xs zs) := by
  have hP := keySet_typed hf hc
  induction xs with
  | scons e r _ ihr =>
    intro ys zs hx hy hz l1 l2 nx ny nz
    rcases entriesHaveType_inv hx with h | ⟨k1, v1, r', h, hk1, hv1, hr⟩
    · cases h
    cases h
    rcases entriesHaveType_inv hy with rfl | ⟨k2, v2, s, rfl, hk2, hv2, hs⟩
    · simp [slen] at l1
    rcases entriesHaveType_inv hz with rfl | ⟨k3, v3, t, rfl, hk3, hv3, ht⟩
    · simp [slen] at l2
    simp only [nanFree, Bool.and_eq_true] at nx ny nz
    have p1 : hasType env K k1 = true ∧ nanFree k1 = true := ⟨hk1, nx.1.1⟩
    have p2 : hasType env K k2 = true ∧ nanFree k2 = true := ⟨hk2, ny.1.1⟩
    have p3 : hasType env K k3 = true ∧ nanFree k3 = true := ⟨hk3, nz.1.1⟩
    have ihv := ih (.pair k1 v1) (by simp [toList]) V v2 v3 hv1 hv2 hv3 nx.1.2 ny.1.2 nz.1.2
    simp only [evalue] at ihv
    simp only [cmpEntries_scons, entryHead_eq_lex hP p1 p2, entryHead_eq_lex hP p2 p3,
      entryHead_eq_lex hP p1 p3]
    refine Trans3.lex ((tri_cmpKey ..).lex (tri_cmpVal ..)) ((tri_cmpKey ..).lex (tri_cmpVal ..))
      (Trans3.lex (tri_cmpKey ..) (tri_cmpKey ..) (hP.trans3 p1 p2 p3) (fun _ _ => ihv))
      (fun _ _ => ihr (fun a' ha' => ih a' (by simp [toList, ha'])) s t hr hs ht
        (by simpa [slen] using l1) (by simpa [slen] using l2) nx.2 ny.2 nz.2)
  | snil =>
    intro ys zs _ hy hz l1 l2 _ _ _
    rcases entriesHaveType_inv hy with rfl | ⟨_, _, _, rfl, _⟩
    · rcases entriesHaveType_inv hz with rfl | ⟨_, _, _, rfl, _⟩
      · simp only [cmpEntries_snil]; exact Trans3.zero
      · simp [slen] at l2
    · simp [slen] at l1
  | _ =>
    intro ys zs hx
    rcases entriesHaveType_inv hx with h | ⟨_, _, _, h, _⟩ <;> cases h

theorem trans3_len (l1 l2 l3 : Nat) (t1 t2 t3 : Int)
    (T : l1 = l2 → l2 = l3 → Trans3 t1 t2 t3) :
    Trans3 (if (l1 != l2) = true then (if l1 < l2 then -1 else 1) else t1)
      (if (l2 != l3) = true then (if l2 < l3 then -1 else 1) else t2)
      (if (l1 != l3) = true then (if l1 < l3 then -1 else 1) else t3) := by
  rw [len_lex, len_lex, len_lex]
  refine Trans3.lex (tri_cmpInt ..) (tri_cmpInt ..) (trans3_cmpInt ..) (fun h1 h2 => T ?_ ?_)
  · have := cmpInt_eq_zero.1 h1; omega
  · have := cmpInt_eq_zero.1 h2; omega

theorem trans3_nil_nil_nil : Trans3 0 0 0 := Trans3.zero
theorem trans3_nil_nil_x : Trans3 0 (-1) (-1) := by constructor <;> simp
theorem trans3_nil_x_nil : Trans3 (-1) 1 0 := by constructor <;> simp
theorem trans3_nil_x_x (c : Int) : Trans3 (-1) c (-1) := by constructor <;> simp
theorem trans3_x_nil_nil : Trans3 1 0 1 := by constructor <;> simp
theorem trans3_x_nil_x (c : Int) : Trans3 1 (-1) c := by constructor <;> simp
theorem trans3_x_x_nil (c : Int) : Trans3 c 1 1 := by constructor <;> simp

/-- **transitivity** of the specification on NaN-free values of one type -/
theorem transOK {env : Env} (hf : env.flagsOk = true) (x : Val) : TransOK env x := by
  induction hn : sizeOf x using Nat.strongRecOn generalizing x with
  | _ n IH =>
  subst hn
  have ih : ∀ a, sizeOf a < sizeOf x → TransOK env a := fun a ha => IH _ ha a rfl
  intro T y z hx hy hz nx ny nz
  rcases hasType_false_of_under hx with ⟨b, hU⟩ | ⟨R, hU⟩ | ⟨E, hU⟩ | ⟨n, E, hU⟩ | ⟨fs, hU⟩ |
      ⟨K, V, hU⟩
  · -- basic
    rw [hasType_basic hU] at hx hy hz
    rw [cmpVal_eq_cmpKey_of_basic hx hy, cmpVal_eq_cmpKey_of_basic hy hz,
      cmpVal_eq_cmpKey_of_basic hx hz]
    exact trans3_cmpKey (keyLike_of_basicHasType hx hy) (keyLike_of_basicHasType hy hz) nx ny nz
  · -- pointer
    rcases hasType_ptr hU hx with rfl | ⟨a, v, rfl, hv⟩ <;>
      rcases hasType_ptr hU hy with rfl | ⟨b, w, rfl, hw⟩ <;>
      rcases hasType_ptr hU hz with rfl | ⟨c, u, rfl, hu⟩
    · simp only [cmpVal_nil_nil]; exact trans3_nil_nil_nil
    · simp only [cmpVal_nil_nil, cmpVal_nil_left, ne_eq, reduceCtorEq, not_false_eq_true]
      exact trans3_nil_nil_x
    · simp only [cmpVal_nil_nil, cmpVal_nil_left, cmpVal_nil_right, ne_eq, reduceCtorEq,
        not_false_eq_true]
      exact trans3_nil_x_nil
    · simp only [cmpVal_nil_left, ne_eq, reduceCtorEq, not_false_eq_true]
      exact trans3_nil_x_x _
    · simp only [cmpVal_nil_nil, cmpVal_nil_right, ne_eq, reduceCtorEq, not_false_eq_true]
      exact trans3_x_nil_nil
    · simp only [cmpVal_nil_left, cmpVal_nil_right, ne_eq, reduceCtorEq, not_false_eq_true]
      exact trans3_x_nil_x _
    · simp only [cmpVal_nil_right, ne_eq, reduceCtorEq, not_false_eq_true]
      exact trans3_x_x_nil _
    · simp only [cmpVal_ptr]
      exact ih v (by simp; omega) R w u hv hw hu (by simpa [nanFree] using nx)
        (by simpa [nanFree] using ny) (by simpa [nanFree] using nz)
  · -- slice
    rcases hasType_slice hU hx with rfl | ⟨a, sp, xs, rfl, hxs⟩ <;>
      rcases hasType_slice hU hy with rfl | ⟨b, sp', ys, rfl, hys⟩ <;>
      rcases hasType_slice hU hz with rfl | ⟨c, sp'', zs, rfl, hzs⟩
    · simp only [cmpVal_nil_nil]; exact trans3_nil_nil_nil
    · simp only [cmpVal_nil_nil, cmpVal_nil_left, ne_eq, reduceCtorEq, not_false_eq_true]
      exact trans3_nil_nil_x
    · simp only [cmpVal_nil_nil, cmpVal_nil_left, cmpVal_nil_right, ne_eq, reduceCtorEq,
        not_false_eq_true]
      exact trans3_nil_x_nil
    · simp only [cmpVal_nil_left, ne_eq, reduceCtorEq, not_false_eq_true]
      exact trans3_nil_x_x _
    · simp only [cmpVal_nil_nil, cmpVal_nil_right, ne_eq, reduceCtorEq, not_false_eq_true]
      exact trans3_x_nil_nil
    · simp only [cmpVal_nil_left, cmpVal_nil_right, ne_eq, reduceCtorEq, not_false_eq_true]
      exact trans3_x_nil_x _
    · simp only [cmpVal_nil_right, ne_eq, reduceCtorEq, not_false_eq_true]
      exact trans3_x_x_nil _
    · simp only [cmpVal_slice]
      refine trans3_len _ _ _ _ _ _ (fun l1 l2 =>
        cmpSeq_trans3_elems xs (fun a ha => ih a ?_) E ys zs hxs hys hzs l1 l2
          (by simpa [nanFree] using nx) (by simpa [nanFree] using ny)
          (by simpa [nanFree] using nz))
      have := sizeOf_lt_of_mem ha; simp; omega
  · -- array
    obtain ⟨xs, rfl, hlx, hxs⟩ := (hasType_array hU _).1 hx
    obtain ⟨ys, rfl, hly, hys⟩ := (hasType_array hU _).1 hy
    obtain ⟨zs, rfl, hlz, hzs⟩ := (hasType_array hU _).1 hz
    simp only [cmpVal_arr]
    refine cmpSeq_trans3_elems xs (fun a ha => ih a ?_) E ys zs hxs hys hzs (by omega) (by omega)
      (by simpa [nanFree] using nx) (by simpa [nanFree] using ny) (by simpa [nanFree] using nz)
    have := sizeOf_lt_of_mem ha; simp; omega
  · -- struct
    obtain ⟨xs, rfl, hxs⟩ := (hasType_struct hU _).1 hx
    obtain ⟨ys, rfl, hys⟩ := (hasType_struct hU _).1 hy
    obtain ⟨zs, rfl, hzs⟩ := (hasType_struct hU _).1 hz
    simp only [cmpVal_struct]
    refine cmpSeq_trans3_fields xs (fun a ha => ih a ?_) fs ys zs hxs hys hzs
      (by simpa [nanFree] using nx) (by simpa [nanFree] using ny) (by simpa [nanFree] using nz)
    have := sizeOf_lt_of_mem ha; simp; omega
  · -- map
    rcases hasType_map hU hx with rfl | ⟨a, xs, rfl, hc, hxs, _⟩ <;>
      rcases hasType_map hU hy with rfl | ⟨b, ys, rfl, _, hys, _⟩ <;>
      rcases hasType_map hU hz with rfl | ⟨c, zs, rfl, _, hzs, _⟩
    · simp only [cmpVal_nil_nil]; exact trans3_nil_nil_nil
    · simp only [cmpVal_nil_nil, cmpVal_nil_left, ne_eq, reduceCtorEq, not_false_eq_true]
      exact trans3_nil_nil_x
    · simp only [cmpVal_nil_nil, cmpVal_nil_left, cmpVal_nil_right, ne_eq, reduceCtorEq,
        not_false_eq_true]
      exact trans3_nil_x_nil
    · simp only [cmpVal_nil_left, ne_eq, reduceCtorEq, not_false_eq_true]
      exact trans3_nil_x_x _
    · simp only [cmpVal_nil_nil, cmpVal_nil_right, ne_eq, reduceCtorEq, not_false_eq_true]
      exact trans3_x_nil_nil
    · simp only [cmpVal_nil_left, cmpVal_nil_right, ne_eq, reduceCtorEq, not_false_eq_true]
      exact trans3_x_nil_x _
    · simp only [cmpVal_nil_right, ne_eq, reduceCtorEq, not_false_eq_true]
      exact trans3_x_x_nil _
    · simp only [cmpVal_map]
      simp only [nanFree] at nx ny nz
      refine trans3_len _ _ _ _ _ _ (fun l1 l2 =>
        cmpEntries_trans3 hf hc (sortEntries xs) (fun e he => ih _ ?_) (sortEntries ys)
          (sortEntries zs) (entriesHaveType_sortEntries hxs) (entriesHaveType_sortEntries hys)
          (entriesHaveType_sortEntries hzs) (by simp only [slen_sortEntries]; exact l1)
          (by simp only [slen_sortEntries]; exact l2)
          (nanFree_sortEntries (isEntries_of_entriesHaveType hxs) nx)
          (nanFree_sortEntries (isEntries_of_entriesHaveType hys) ny)
          (nanFree_sortEntries (isEntries_of_entriesHaveType hzs) nz))
      have := sizeOf_lt_of_mem (mem_sortEntries.1 he)
      have := sizeOf_evalue_le e
      simp; omega

/-! ## on comparable types the specification is the derived key order -/

theorem cmpVal_eq_cmpKey_aux {env : Env} (hf : env.flagsOk = true) (k : Val) :
    (∀ K k', canEqual env K = true → hasType env K k = true → hasType env K k' = true →
      cmpVal k k' = cmpKey k k') ∧
    (∀ E ys, canEqual env E = true → allHaveType env E k = true → allHaveType env E ys = true →
      k.slen = ys.slen → cmpSeq k ys = cmpKey k ys) ∧
    (∀ fs ys, canEqual env fs = true → fieldsHaveType env fs k = true →
      fieldsHaveType env fs ys = true → cmpSeq k ys = cmpKey k ys) := by
  have top : ∀ (k : Val),
      (∀ E xs ys, k = .arr xs → canEqual env E = true → allHaveType env E xs = true →
        allHaveType env E ys = true → xs.slen = ys.slen → cmpSeq xs ys = cmpKey xs ys) →
      (∀ fs xs ys, k = .struct xs → canEqual env fs = true → fieldsHaveType env fs xs = true →
        fieldsHaveType env fs ys = true → cmpSeq xs ys = cmpKey xs ys) →
      ∀ K k', canEqual env K = true → hasType env K k = true → hasType env K k' = true →
        cmpVal k k' = cmpKey k k' := by
    intro k hA hS K k' hc hk hk'
    have hc' := canEqual_under hf hc
    rcases hasType_false_of_under hk with ⟨b, hU⟩ | ⟨R, hU⟩ | ⟨E, hU⟩ | ⟨n, E, hU⟩ | ⟨fs, hU⟩ |
        ⟨K', V, hU⟩
    · rw [hasType_basic hU] at hk hk'; exact cmpVal_eq_cmpKey_of_basic hk hk'
    · rw [hU] at hc'; simp [canEqual] at hc'
    · rw [hU] at hc'; simp [canEqual] at hc'
    · obtain ⟨xs, rfl, hl, hxs⟩ := (hasType_array hU _).1 hk
      obtain ⟨ys, rfl, hl', hys⟩ := (hasType_array hU _).1 hk'
      rw [hU] at hc'
      simp only [cmpVal_arr, cmpKey]
      exact hA E xs ys rfl (by simpa [canEqual] using hc') hxs hys (by omega)
    · obtain ⟨xs, rfl, hxs⟩ := (hasType_struct hU _).1 hk
      obtain ⟨ys, rfl, hys⟩ := (hasType_struct hU _).1 hk'
      rw [hU] at hc'
      simp only [cmpVal_struct, cmpKey]
      exact hS fs xs ys rfl (by simpa [canEqual] using hc') hxs hys
    · rw [hU] at hc'; simp [canEqual] at hc'
  induction k with
  | scons h t ih1 ih2 =>
    refine ⟨top _ (by simp) (by simp), ?_, ?_⟩
    · intro E ys hc hk hys hl
      cases ys <;> simp [slen] at hl
      simp only [allHaveType_scons, Bool.and_eq_true] at hk hys
      rw [cmpSeq_scons, cmpKey_scons, ih1.1 E _ hc hk.1 hys.1,
        ih2.2.1 E _ hc hk.2 hys.2 (by simpa using hl)]
    · intro fs ys hc hk hys
      rcases fieldsHaveType_inv hk with ⟨_, h⟩ | ⟨F, rest, a, r, rfl, h, ha, hr⟩
      · cases h
      · cases h
        rcases fieldsHaveType_inv hys with ⟨h, _⟩ | ⟨F', rest', b, s, h, rfl, hb, hs⟩
        · cases h
        · cases h
          simp only [Bool.and_eq_true, canEqual] at hc
          rw [cmpSeq_scons, cmpKey_scons, ih1.1 _ _ hc.1 ha hb, ih2.2.2 _ _ hc.2 hr hs]
  | snil =>
    refine ⟨top _ (by simp) (by simp), ?_, ?_⟩
    · intro E ys _ _ hys _
      rcases allHaveType_inv hys with rfl | ⟨_, _, rfl, _⟩
      · simp [cmpSeq_snil, cmpKey]
      · simp_all [slen]
    · intro fs ys _ hk hys
      rcases fieldsHaveType_inv hk with ⟨rfl, _⟩ | ⟨F, rest, a, r, _, h, _⟩
      · rcases fieldsHaveType_inv hys with ⟨_, rfl⟩ | ⟨F', rest', b, s, h, _⟩
        · simp [cmpSeq_snil, cmpKey]
        · cases h
      · cases h
  | arr xs ih =>
    refine ⟨top _ (fun E xs' ys h => by cases h; exact ih.2.1 E ys) (by simp), ?_, ?_⟩
    · intro E ys _ hk; rcases allHaveType_inv hk with h | ⟨_, _, h, _⟩ <;> cases h
    · intro fs ys _ hk; rcases fieldsHaveType_inv hk with ⟨_, h⟩ | ⟨_, _, _, _, _, h, _⟩ <;> cases h
  | struct xs ih =>
    refine ⟨top _ (by simp) (fun fs xs' ys h => by cases h; exact ih.2.2 fs ys), ?_, ?_⟩
    · intro E ys _ hk; rcases allHaveType_inv hk with h | ⟨_, _, h, _⟩ <;> cases h
    · intro fs ys _ hk; rcases fieldsHaveType_inv hk with ⟨_, h⟩ | ⟨_, _, _, _, _, h, _⟩ <;> cases h
  | _ =>
    refine ⟨top _ (by simp) (by simp), ?_, ?_⟩
    · intro E ys _ hk; rcases allHaveType_inv hk with h | ⟨_, _, h, _⟩ <;> cases h
    · intro fs ys _ hk; rcases fieldsHaveType_inv hk with ⟨_, h⟩ | ⟨_, _, _, _, _, h, _⟩ <;> cases h

/-- **the derived order of a comparable (map key) type is `cmpKey`**: on values of a `canEqual`
type the value-directed specification coincides with the order the model sorts map keys by -/
theorem cmpVal_eq_cmpKey {env : Env} (hf : env.flagsOk = true) {K : Ty} {k k' : Val}
    (hc : canEqual env K = true) (hk : hasType env K k = true) (hk' : hasType env K k' = true) :
    cmpVal k k' = cmpKey k k' :=
  (cmpVal_eq_cmpKey_aux hf k).1 K k' hc hk hk'

/-! ## unfolding structural equality -/

theorem structEq_basic {env : Env} {T : Ty} {b : Basic} (hU : env.under T = .basic b) (x y : Val) :
    structEq env T x y = leafEq x y := by
  rw [structEq.eq_def, hU]

theorem structEq_ptr {env : Env} {T R : Ty} (hU : env.under T = .ptr R) (a : Nat) (v : Val)
    (b : Nat) (w : Val) : structEq env T (.ptr a v) (.ptr b w) = structEq env R v w := by
  rw [structEq.eq_def, hU]

theorem structEq_slice {env : Env} {T E : Ty} (hU : env.under T = .slice E) (a sp : Nat) (xs : Val)
    (b sp' : Nat) (ys : Val) :
    structEq env T (.slice a sp xs) (.slice b sp' ys) = seqEq env E xs ys := by
  rw [structEq.eq_def, hU]

theorem structEq_array {env : Env} {T E : Ty} {n : Nat} (hU : env.under T = .array n E)
    (xs ys : Val) : structEq env T (.arr xs) (.arr ys) = seqEq env E xs ys := by
  rw [structEq.eq_def, hU]

theorem structEq_struct {env : Env} {T fs : Ty} (hU : env.under T = .struct fs)
    (xs ys : Val) : structEq env T (.struct xs) (.struct ys) = fieldsEq env fs xs ys := by
  rw [structEq.eq_def, hU]

theorem structEq_map {env : Env} {T K V : Ty} (hU : env.under T = .map K V) (a : Nat) (xs : Val)
    (b : Nat) (ys : Val) :
    structEq env T (.map a xs) (.map b ys) = (xs.slen == ys.slen && entriesIn env K V xs ys) := by
  rw [structEq.eq_def, hU]

theorem structEq_nil_nil {env : Env} {T : Ty}
    (hU : (∃ R, env.under T = .ptr R) ∨ (∃ E, env.under T = .slice E) ∨
      (∃ K V, env.under T = .map K V)) : structEq env T .nilv .nilv = true := by
  rcases hU with ⟨R, hU⟩ | ⟨E, hU⟩ | ⟨K, V, hU⟩ <;> rw [structEq.eq_def, hU]

theorem structEq_nil_left {env : Env} {T : Ty} {y : Val} (hy : y ≠ .nilv) :
    structEq env T .nilv y = false := by
  rw [structEq.eq_def]; split <;> simp_all [leafEq]

theorem structEq_nil_right {env : Env} {T : Ty} {x : Val} (hx : x ≠ .nilv) :
    structEq env T x .nilv = false := by
  rw [structEq.eq_def]; split <;> simp_all [leafEq]

theorem seqEq_snil (env : Env) (E : Ty) : seqEq env E .snil .snil = true := by rw [seqEq]

theorem seqEq_scons (env : Env) (E : Ty) (a r b s : Val) :
    seqEq env E (.scons a r) (.scons b s) = (structEq env E a b && seqEq env E r s) := by
  rw [seqEq]

theorem fieldsEq_nil (env : Env) : fieldsEq env .fnil .snil .snil = true := by rw [fieldsEq]

theorem fieldsEq_cons (env : Env) (F rest : Ty) (a r b s : Val) :
    fieldsEq env (.fcons F rest) (.scons a r) (.scons b s) =
      (structEq env F a b && fieldsEq env rest r s) := by
  rw [fieldsEq]

theorem entriesIn_snil (env : Env) (K V : Ty) (ys : Val) : entriesIn env K V .snil ys = true := by
  rw [entriesIn]

theorem entriesIn_scons (env : Env) (K V : Ty) (k v r ys : Val) :
    entriesIn env K V (.scons (.pair k v) r) ys =
      (valueAt env K V k v ys && entriesIn env K V r ys) := by
  rw [entriesIn]

theorem valueAt_scons (env : Env) (K V : Ty) (k v k' w s : Val) :
    valueAt env K V k v (.scons (.pair k' w) s) =
      ((structEq env K k k' && structEq env V v w) || valueAt env K V k v s) := by
  rw [valueAt]

theorem valueAt_snil (env : Env) (K V : Ty) (k v : Val) : valueAt env K V k v .snil = false := by
  rw [valueAt.eq_def]

/-- `entriesIn`, by membership -/
theorem entriesIn_iff_mem {env : Env} {K V : Ty} {xs : Val} (hx : isEntries xs = true) (ys : Val) :
    entriesIn env K V xs ys = true ↔
      ∀ e ∈ xs.toList, valueAt env K V (ekey e) (evalue e) ys = true := by
  induction xs with
  | scons e r _ ihr =>
    cases e <;> simp [isEntries] at hx
    simp [entriesIn_scons, toList, ekey, evalue, ihr hx]
  | snil => simp [entriesIn_snil, toList]
  | _ => simp [isEntries] at hx

/-- `valueAt`, by membership -/
theorem valueAt_iff_mem {env : Env} {K V : Ty} {k v ys : Val} (hy : isEntries ys = true) :
    valueAt env K V k v ys = true ↔
      ∃ e' ∈ ys.toList, structEq env K k (ekey e') = true ∧ structEq env V v (evalue e') = true := by
  induction ys with
  | scons e r _ ihr =>
    cases e <;> simp [isEntries] at hy
    simp [valueAt_scons, toList, ekey, evalue, ihr hy]
  | snil => simp [valueAt_snil, toList]
  | _ => simp [isEntries] at hy

theorem leafEq_eq_goEq_of_basic {b : Basic} {x y : Val} (hx : basicHasType b x = true)
    (hy : basicHasType b y = true) : leafEq x y = goEq x y := by
  cases b <;> cases x <;> simp [basicHasType] at hx <;> cases y <;> simp [basicHasType] at hy <;>
    simp [leafEq, goEq]

/-! ## `cmpVal x y = 0` is structural equality -/

/-- at `x`: comparing 0 is structural equality, against every NaN-free partner of the same type -/
def ZeroOK (env : Env) (x : Val) : Prop :=
  ∀ T y, hasType env T x = true → hasType env T y = true → nanFree x = true → nanFree y = true →
    (cmpVal x y = 0 ↔ structEq env T x y = true)

theorem seqEq_inv {env : Env} {E : Ty} {xs ys : Val} (h : seqEq env E xs ys = true) :
    (xs = .snil ∧ ys = .snil) ∨ ∃ a r b s, xs = .scons a r ∧ ys = .scons b s ∧
      structEq env E a b = true ∧ seqEq env E r s = true := by
  rw [seqEq.eq_def] at h
  split at h
  · exact .inl ⟨rfl, rfl⟩
  · simp only [Bool.and_eq_true] at h; exact .inr ⟨_, _, _, _, rfl, rfl, h⟩
  · simp at h

theorem seqEq_slen {env : Env} {E : Ty} (xs : Val) :
    ∀ ys, seqEq env E xs ys = true → xs.slen = ys.slen := by
  induction xs with
  | scons a r _ ihr =>
    intro ys h
    rcases seqEq_inv h with ⟨h1, _⟩ | ⟨a', r', b, s, h1, rfl, _, hs⟩
    · cases h1
    · cases h1
      have := ihr s hs
      simp only [slen]; omega
  | snil =>
    intro ys h
    rcases seqEq_inv h with ⟨_, rfl⟩ | ⟨a', r', b, s, h1, _⟩
    · rfl
    · cases h1
  | _ =>
    intro ys h
    rcases seqEq_inv h with ⟨h1, _⟩ | ⟨a', r', b, s, h1, _⟩ <;> cases h1

theorem cmpSeq_zero_iff_elems {env : Env} (xs : Val) (ih : ∀ a ∈ xs.toList, ZeroOK env a) :
    ∀ E ys, allHaveType env E xs = true → allHaveType env E ys = true → xs.slen = ys.slen →
      nanFree xs = true → nanFree ys = true →
      (cmpSeq xs ys = 0 ↔ seqEq env E xs ys = true) := by
  induction xs with
  | scons a r _ ihr =>
    intro E ys hx hy hl nx ny
    rcases allHaveType_inv hy with rfl | ⟨b, s, rfl, hb, hs⟩
    · simp [slen] at hl
    · simp only [allHaveType_scons, Bool.and_eq_true] at hx
      simp only [nanFree, Bool.and_eq_true] at nx ny
      rw [cmpSeq_scons, lex_eq_zero, seqEq_scons, Bool.and_eq_true,
        ih a (by simp [toList]) E b hx.1 hb nx.1 ny.1,
        ihr (fun a' ha' => ih a' (by simp [toList, ha'])) E s hx.2 hs (by simpa [slen] using hl)
          nx.2 ny.2]
  | snil =>
    intro E ys _ hy hl _ _
    rcases allHaveType_inv hy with rfl | ⟨b, s, rfl, hb, hs⟩
    · simp [cmpSeq_snil, seqEq_snil]
    · simp [slen] at hl
  | _ =>
    intro E ys hx
    rcases allHaveType_inv hx with h | ⟨_, _, h, _⟩ <;> cases h

theorem cmpSeq_zero_iff_fields {env : Env} (xs : Val) (ih : ∀ a ∈ xs.toList, ZeroOK env a) :
    ∀ fs ys, fieldsHaveType env fs xs = true → fieldsHaveType env fs ys = true →
      nanFree xs = true → nanFree ys = true →
      (cmpSeq xs ys = 0 ↔ fieldsEq env fs xs ys = true) := by
  induction xs with
  | scons a r _ ihr =>
    intro fs ys hx hy nx ny
    rcases fieldsHaveType_inv hx with ⟨_, h⟩ | ⟨F, rest, a', r', rfl, h, ha, hr⟩
    · cases h
    cases h
    rcases fieldsHaveType_inv hy with ⟨h, _⟩ | ⟨F', rest', b, s, h, rfl, hb, hs⟩
    · cases h
    cases h
    simp only [nanFree, Bool.and_eq_true] at nx ny
    rw [cmpSeq_scons, lex_eq_zero, fieldsEq_cons, Bool.and_eq_true,
      ih a (by simp [toList]) F b ha hb nx.1 ny.1,
      ihr (fun a' ha' => ih a' (by simp [toList, ha'])) rest s hr hs nx.2 ny.2]
  | snil =>
    intro fs ys hx hy _ _
    rcases fieldsHaveType_inv hx with ⟨rfl, _⟩ | ⟨_, _, _, _, _, h, _⟩
    · rcases fieldsHaveType_inv hy with ⟨_, rfl⟩ | ⟨_, _, _, _, h, _⟩
      · simp [cmpSeq_snil, fieldsEq_nil]
      · cases h
    · cases h
  | _ =>
    intro fs ys hx
    rcases fieldsHaveType_inv hx with ⟨_, h⟩ | ⟨_, _, _, _, _, h, _⟩ <;> cases h

/-- `cmpEntries` is 0 iff the two spines agree position-wise: `==` keys and values comparing 0 -/
theorem cmpEntries_zero_iff_zip {P : Val → Prop} (hP : KeySet P) (xs : Val) :
    ∀ ys, KeysIn P xs → KeysIn P ys → xs.slen = ys.slen →
      (cmpEntries xs ys = 0 ↔
        ∀ p ∈ List.zip xs.toList ys.toList,
          keyEq p.1 p.2 ∧ cmpVal (evalue p.1) (evalue p.2) = 0) := by
  induction xs with
  | scons e r _ ihr =>
    intro ys hx hy hl
    obtain ⟨k, v, rfl⟩ : ∃ k v, e = .pair k v := exists_pair_of_mem hx.1 (by simp [toList])
    cases ys with
    | scons e' s =>
      obtain ⟨k', w, rfl⟩ : ∃ k' w, e' = .pair k' w := exists_pair_of_mem hy.1 (by simp [toList])
      obtain ⟨pk, hr⟩ := keysIn_scons.1 hx
      obtain ⟨pk', hs⟩ := keysIn_scons.1 hy
      rw [cmpEntries_scons, entryHead_eq_lex hP pk pk', lex_eq_zero, lex_eq_zero,
        hP.eq_iff pk pk', ihr s hr hs (by simpa [slen] using hl)]
      simp [toList, keyEq, ekey, evalue]
    | _ => simp [slen] at hl
  | _ =>
    intro ys _ _ _
    rw [cmpEntries_of_not_entry_left _ (by simp)]
    simp [toList]

theorem forall_zip_of_keysAgreeL (l1 l2 : List Val) (h : keysAgreeL l1 l2) :
    ∀ p ∈ List.zip l1 l2, keyEq p.1 p.2 := by
  induction l1 generalizing l2 with
  | nil => simp
  | cons a r ih =>
    cases l2 with
    | nil => simp
    | cons b s =>
      simp only [keysAgreeL] at h
      simp only [List.zip_cons_cons, List.mem_cons, forall_eq_or_imp]
      exact ⟨h.1, ih s h.2⟩

theorem exists_zip_of_mem_left {l1 l2 : List Val} (hl : l1.length = l2.length) {a : Val}
    (ha : a ∈ l1) : ∃ b, (a, b) ∈ List.zip l1 l2 := by
  induction l1 generalizing l2 with
  | nil => simp at ha
  | cons x r ih =>
    cases l2 with
    | nil => simp at hl
    | cons y s =>
      rcases List.mem_cons.1 ha with rfl | ha
      · exact ⟨y, by simp⟩
      · obtain ⟨b, hb⟩ := ih (by simpa using hl) ha
        exact ⟨b, by simp [hb]⟩

/-- in a map with pairwise distinct keys an entry is determined by its key -/
theorem entry_unique {P : Val → Prop} (hP : KeySet P) {ys : Val} (hy : KeysIn P ys)
    (hd : keysDistinct ys = true) {e1 e2 : Val} (h1 : e1 ∈ ys.toList) (h2 : e2 ∈ ys.toList)
    (heq : keyEq e1 e2) : e1 = e2 := by
  induction ys with
  | scons e r _ ihr =>
    obtain ⟨k, v, rfl⟩ : ∃ k v, e = .pair k v := exists_pair_of_mem hy.1 (by simp [toList])
    obtain ⟨pk, hr⟩ := keysIn_scons.1 hy
    simp only [keysDistinct, Bool.and_eq_true] at hd
    have hfresh := (keyFresh_iff hr.1).1 hd.1
    simp only [toList, List.mem_cons] at h1 h2
    rcases h1 with rfl | h1 <;> rcases h2 with rfl | h2
    · rfl
    · have := hfresh e2 h2
      have heq' : goEq k (ekey e2) = true := heq
      simp [heq'] at this
    · have := hfresh e1 h1
      have heq' : goEq (ekey e1) k = true := heq
      rw [hP.goEq_symm (hr.2 e1 h1) pk] at heq'
      simp [heq'] at this
    · exact ihr hr hd.2 h1 h2
  | _ => simp [toList] at h1

theorem sizeOf_ekey_le (e : Val) : sizeOf (ekey e) ≤ sizeOf e := by
  cases e <;> simp [ekey] <;> omega

theorem len_ne_zero {m n : Nat} (t : Int) (h : m ≠ n) :
    (if (m != n) = true then (if m < n then -1 else 1) else t) ≠ 0 := by
  simp only [bne_iff_ne, ne_eq, h, not_false_eq_true, if_true]
  split <;> simp

theorem len_eq {m n : Nat} (t : Int) (h : m = n) :
    (if (m != n) = true then (if m < n then (-1 : Int) else 1) else t) = t := by
  simp [h]

/-- the map case of `zeroOK` -/
theorem zero_iff_map {env : Env} (hf : env.flagsOk = true) {K V : Ty} {xs ys : Val}
    (hc : canEqual env K = true) (hxs : entriesHaveType env K V xs = true)
    (hys : entriesHaveType env K V ys = true) (dx : keysDistinct xs = true)
    (dy : keysDistinct ys = true) (nx : nanFree xs = true) (ny : nanFree ys = true)
    (hl : xs.slen = ys.slen)
    (ihk : ∀ e ∈ xs.toList, ZeroOK env (ekey e)) (ihv : ∀ e ∈ xs.toList, ZeroOK env (evalue e)) :
    cmpEntries (sortEntries xs) (sortEntries ys) = 0 ↔ entriesIn env K V xs ys = true := by
  have hP := keySet_typed hf hc
  have kx := keysIn_typed hxs nx
  have ky := keysIn_typed hys ny
  have hsx := isEntries_of_entriesHaveType hxs
  have hsy := isEntries_of_entriesHaveType hys
  have tx := (entriesHaveType_iff_mem.1 hxs).2
  have ty := (entriesHaveType_iff_mem.1 hys).2
  have nx' := (nanFree_iff_mem hsx).1 nx
  have ny' := (nanFree_iff_mem hsy).1 ny
  have hlen : (sortEntries xs).toList.length = (sortEntries ys).toList.length := by
    rw [(sortEntries_perm xs).length_eq, (sortEntries_perm ys).length_eq]; simpa using hl
  have KE : ∀ e ∈ xs.toList, ∀ e' ∈ ys.toList,
      (structEq env K (ekey e) (ekey e') = true ↔ keyEq e e') := by
    intro e he e' he'
    rw [← ihk e he K (ekey e') (tx e he).1 (ty e' he').1 (kx.2 e he).2 (ky.2 e' he').2,
      cmpVal_eq_cmpKey hf hc (tx e he).1 (ty e' he').1, hP.eq_iff (kx.2 e he) (ky.2 e' he')]
    exact Iff.rfl
  have VE : ∀ e ∈ xs.toList, ∀ e' ∈ ys.toList,
      (cmpVal (evalue e) (evalue e') = 0 ↔ structEq env V (evalue e) (evalue e') = true) :=
    fun e he e' he' => ihv e he V (evalue e') (tx e he).2 (ty e' he').2
      (nanFree_evalue (nx' e he)) (nanFree_evalue (ny' e' he'))
  rw [cmpEntries_zero_iff_zip hP _ _ kx.sortEntries ky.sortEntries (by simpa using hlen),
    entriesIn_iff_mem hsx]
  constructor
  · intro hz e he
    obtain ⟨e', hp⟩ := exists_zip_of_mem_left hlen (mem_sortEntries.2 he)
    have he' := mem_sortEntries.1 (List.of_mem_zip hp).2
    obtain ⟨h1, h2⟩ := hz _ hp
    rw [valueAt_iff_mem hsy]
    exact ⟨e', he', (KE e he e' he').2 h1, (VE e he e' he').1 h2⟩
  · rintro hin ⟨e, e'⟩ hp
    have he := mem_sortEntries.1 (List.of_mem_zip hp).1
    have he' := mem_sortEntries.1 (List.of_mem_zip hp).2
    have hsub : KeysSub xs.toList ys.toList := fun a ha => by
      obtain ⟨a', ha', h1, _⟩ := (valueAt_iff_mem hsy).1 (hin a ha)
      exact ⟨a', ha', (KE a ha a' ha').1 h1⟩
    have hag := sortEntries_keysAgree hP kx ky dx dy hl hsub
    have hk : keyEq e e' := forall_zip_of_keysAgreeL _ _ hag _ hp
    refine ⟨hk, ?_⟩
    obtain ⟨e'', he'', h1, h2⟩ := (valueAt_iff_mem hsy).1 (hin e he)
    have hk'' : keyEq e e'' := (KE e he e'' he'').1 h1
    have h3 : keyEq e' e'' := by
      have := hP.goEq_symm (kx.2 e he) (ky.2 e' he')
      exact hP.goEq_trans (ky.2 e' he') (kx.2 e he) (ky.2 e'' he'') (by rw [← this]; exact hk) hk''
    have := entry_unique hP ky dy he' he'' h3
    subst this
    exact (VE e he e' he').2 h2

/-- **`cmpVal x y = 0` exactly when `x` and `y` are structurally equal** -/
theorem zeroOK {env : Env} (hf : env.flagsOk = true) (x : Val) : ZeroOK env x := by
  induction hn : sizeOf x using Nat.strongRecOn generalizing x with
  | _ n IH =>
  subst hn
  have ih : ∀ a, sizeOf a < sizeOf x → ZeroOK env a := fun a ha => IH _ ha a rfl
  intro T y hx hy nx ny
  rcases hasType_false_of_under hx with ⟨b, hU⟩ | ⟨R, hU⟩ | ⟨E, hU⟩ | ⟨n, E, hU⟩ | ⟨fs, hU⟩ |
      ⟨K, V, hU⟩
  · -- basic
    rw [hasType_basic hU] at hx hy
    rw [cmpVal_eq_cmpKey_of_basic hx hy, structEq_basic hU, leafEq_eq_goEq_of_basic hx hy]
    exact cmpKey_eq_zero_iff (keyLike_of_basicHasType hx hy)
  · -- pointer
    rcases hasType_ptr hU hx with rfl | ⟨a, v, rfl, hv⟩ <;>
      rcases hasType_ptr hU hy with rfl | ⟨b, w, rfl, hw⟩
    · simp [cmpVal_nil_nil, structEq_nil_nil (.inl ⟨R, hU⟩)]
    · simp [cmpVal_nil_left, structEq_nil_left]
    · simp [cmpVal_nil_right, structEq_nil_right]
    · rw [cmpVal_ptr, structEq_ptr hU]
      exact ih v (by simp; omega) R w hv hw (by simpa [nanFree] using nx)
        (by simpa [nanFree] using ny)
  · -- slice
    rcases hasType_slice hU hx with rfl | ⟨a, sp, xs, rfl, hxs⟩ <;>
      rcases hasType_slice hU hy with rfl | ⟨b, sp', ys, rfl, hys⟩
    · simp [cmpVal_nil_nil, structEq_nil_nil (.inr (.inl ⟨E, hU⟩))]
    · simp [cmpVal_nil_left, structEq_nil_left]
    · simp [cmpVal_nil_right, structEq_nil_right]
    · rw [cmpVal_slice, structEq_slice hU]
      by_cases hl : xs.slen = ys.slen
      · rw [len_eq _ hl]
        refine cmpSeq_zero_iff_elems xs (fun a ha => ih a ?_) E ys hxs hys hl
          (by simpa [nanFree] using nx) (by simpa [nanFree] using ny)
        have := sizeOf_lt_of_mem ha; simp; omega
      · constructor
        · intro h; exact absurd h (len_ne_zero _ hl)
        · intro h; exact absurd (seqEq_slen _ _ h) hl
  · -- array
    obtain ⟨xs, rfl, hlx, hxs⟩ := (hasType_array hU _).1 hx
    obtain ⟨ys, rfl, hly, hys⟩ := (hasType_array hU _).1 hy
    rw [cmpVal_arr, structEq_array hU]
    refine cmpSeq_zero_iff_elems xs (fun a ha => ih a ?_) E ys hxs hys (by omega)
      (by simpa [nanFree] using nx) (by simpa [nanFree] using ny)
    have := sizeOf_lt_of_mem ha; simp; omega
  · -- struct
    obtain ⟨xs, rfl, hxs⟩ := (hasType_struct hU _).1 hx
    obtain ⟨ys, rfl, hys⟩ := (hasType_struct hU _).1 hy
    rw [cmpVal_struct, structEq_struct hU]
    refine cmpSeq_zero_iff_fields xs (fun a ha => ih a ?_) fs ys hxs hys
      (by simpa [nanFree] using nx) (by simpa [nanFree] using ny)
    have := sizeOf_lt_of_mem ha; simp; omega
  · -- map
    rcases hasType_map hU hx with rfl | ⟨a, xs, rfl, hc, hxs, dx⟩ <;>
      rcases hasType_map hU hy with rfl | ⟨b, ys, rfl, _, hys, dy⟩
    · simp [cmpVal_nil_nil, structEq_nil_nil (.inr (.inr ⟨K, V, hU⟩))]
    · simp [cmpVal_nil_left, structEq_nil_left]
    · simp [cmpVal_nil_right, structEq_nil_right]
    · rw [cmpVal_map, structEq_map hU]
      simp only [nanFree] at nx ny
      by_cases hl : xs.slen = ys.slen
      · rw [len_eq _ hl]
        have he : (xs.slen == ys.slen) = true := by rw [hl]; exact beq_self_eq_true _
        rw [he, Bool.true_and]
        refine zero_iff_map hf hc hxs hys dx dy nx ny hl (fun e he => ih _ ?_) (fun e he => ih _ ?_)
        · have := sizeOf_lt_of_mem he
          have := sizeOf_ekey_le e
          simp; omega
        · have := sizeOf_lt_of_mem he
          have := sizeOf_evalue_le e
          simp; omega
      · constructor
        · intro h; exact absurd h (len_ne_zero _ hl)
        · intro h
          simp only [Bool.and_eq_true, beq_iff_eq] at h
          exact absurd h.1 hl

/-! ## context lemmas: the first difference decides -/

theorem slen_sapp (p s : Val) : (p.sapp s).slen = p.slen + s.slen := by
  induction p with
  | scons h t _ iht => simp only [Val.sapp, slen, iht]; omega
  | _ => simp [Val.sapp, slen]

theorem toList_sapp (p s : Val) : (p.sapp s).toList = p.toList ++ s.toList := by
  induction p with
  | scons h t _ iht => simp [Val.sapp, toList, iht]
  | _ => simp [Val.sapp, toList]

/-- sequences: equal-length prefixes that compare 0 are skipped, the first non-zero comparison is
the result -/
theorem cmpSeq_sapp (pre : Val) :
    ∀ (pre' a b r s : Val), pre.slen = pre'.slen → cmpSeq pre pre' = 0 → cmpVal a b ≠ 0 →
      cmpSeq (pre.sapp (.scons a r)) (pre'.sapp (.scons b s)) = cmpVal a b := by
  induction pre with
  | scons h t _ iht =>
    intro pre' a b r s hl h0 hne
    cases pre' <;> simp [slen] at hl
    rename_i h' t'
    rw [cmpSeq_scons, lex_eq_zero] at h0
    simp only [Val.sapp, cmpSeq_scons, h0.1, lex_zero]
    exact iht t' a b r s (by simpa using hl) h0.2 hne
  | _ =>
    intro pre' a b r s hl _ hne
    cases pre' <;> simp [slen] at hl <;> simp only [Val.sapp, cmpSeq_scons, lex_of_ne _ hne]

/-- sorted map entries: equal-length prefixes that compare 0 are skipped; at the first entry whose
(equal) keys carry values comparing non-zero, that comparison is the result -/
theorem cmpEntries_sapp (pre : Val) :
    ∀ (pre' k v k' w r s : Val), isEntries pre = true → isEntries pre' = true →
      pre.slen = pre'.slen → cmpEntries pre pre' = 0 → goEq k k' = true → cmpVal v w ≠ 0 →
      cmpEntries (pre.sapp (.scons (.pair k v) r)) (pre'.sapp (.scons (.pair k' w) s)) =
        cmpVal v w := by
  induction pre with
  | scons e t _ iht =>
    intro pre' k v k' w r s hp hp' hl h0 hg hne
    cases pre' <;> simp [slen] at hl
    rename_i e' t'
    cases e <;> simp [isEntries] at hp
    cases e' <;> simp [isEntries] at hp'
    rw [cmpEntries_scons, lex_eq_zero] at h0
    simp only [Val.sapp, cmpEntries_scons, h0.1, lex_zero]
    exact iht t' k v k' w r s hp hp' (by simpa using hl) h0.2 hg hne
  | snil =>
    intro pre' k v k' w r s _ hp' hl _ hg hne
    cases pre' <;> simp [slen] at hl <;> simp [isEntries] at hp'
    simp only [Val.sapp, cmpEntries_scons, hg, if_true, lex_of_ne _ hne]
  | _ => intro pre' k v k' w r s hp; simp [isEntries] at hp

/-- keys differ first: the key order decides -/
theorem cmpEntries_sapp_key (pre : Val) :
    ∀ (pre' k v k' w r s : Val), isEntries pre = true → isEntries pre' = true →
      pre.slen = pre'.slen → cmpEntries pre pre' = 0 → goEq k k' = false → cmpKey k k' ≠ 0 →
      cmpEntries (pre.sapp (.scons (.pair k v) r)) (pre'.sapp (.scons (.pair k' w) s)) =
        cmpKey k k' := by
  induction pre with
  | scons e t _ iht =>
    intro pre' k v k' w r s hp hp' hl h0 hg hne
    cases pre' <;> simp [slen] at hl
    rename_i e' t'
    cases e <;> simp [isEntries] at hp
    cases e' <;> simp [isEntries] at hp'
    rw [cmpEntries_scons, lex_eq_zero] at h0
    simp only [Val.sapp, cmpEntries_scons, h0.1, lex_zero]
    exact iht t' k v k' w r s hp hp' (by simpa using hl) h0.2 hg hne
  | snil =>
    intro pre' k v k' w r s _ hp' hl _ hg hne
    cases pre' <;> simp [slen] at hl <;> simp [isEntries] at hp'
    simp only [Val.sapp, cmpEntries_scons, hg, Bool.false_eq_true, if_false, lex_of_ne _ hne]
  | _ => intro pre' k v k' w r s hp; simp [isEntries] at hp

/-! ## reflexivity (untyped) -/

theorem cmpKey_refl (k : Val) (hk : nanFree k = true) : cmpKey k k = 0 := by
  induction k with
  | bool b => simp [cmpKey, cmpBool]
  | int n => simp [cmpKey, cmpInt]
  | flt w a => simp only [nanFree, Bool.not_eq_true'] at hk; simp [cmpKey, cmpFlt, fltEq_refl w a hk]
  | cplx w a b =>
    simp only [nanFree, Bool.and_eq_true, Bool.not_eq_true'] at hk
    simp [cmpKey, cmpFlt, fltEq_refl w a hk.1, fltEq_refl w b hk.2]
  | str s => simp only [cmpKey]; exact cmpBytes_eq_zero.2 rfl
  | arr xs ih => simp only [cmpKey]; exact ih (by simpa [nanFree] using hk)
  | struct xs ih => simp only [cmpKey]; exact ih (by simpa [nanFree] using hk)
  | scons h t ih1 ih2 =>
    simp only [nanFree, Bool.and_eq_true] at hk
    rw [cmpKey_scons, ih1 hk.1, ih2 hk.2]; rfl
  | _ => simp [cmpKey]

theorem nanFree_of_mem {s e : Val} (hs : nanFree s = true) (he : e ∈ s.toList) :
    nanFree e = true := by
  induction s with
  | scons h t _ iht =>
    simp only [nanFree, Bool.and_eq_true] at hs
    simp only [toList, List.mem_cons] at he
    rcases he with rfl | he
    · exact hs.1
    · exact iht hs.2 he
  | _ => simp [toList] at he

theorem cmpSeq_refl (xs : Val) (ih : ∀ a ∈ xs.toList, cmpVal a a = 0) : cmpSeq xs xs = 0 := by
  induction xs with
  | scons h t _ iht =>
    rw [cmpSeq_scons, ih h (by simp [toList]), iht (fun a ha => ih a (by simp [toList, ha]))]; rfl
  | _ => exact cmpSeq_of_not_scons_left _ (by simp)

theorem cmpEntries_refl (xs : Val) (hn : ∀ e ∈ xs.toList, nanFree e = true)
    (ih : ∀ e ∈ xs.toList, cmpVal (evalue e) (evalue e) = 0) : cmpEntries xs xs = 0 := by
  induction xs with
  | scons e t _ iht =>
    rcases entry_cases (.scons e t) with ⟨k, v, r, h⟩ | h
    · cases h
      have h1 := ih (.pair k v) (by simp [toList])
      have h2 := hn (.pair k v) (by simp [toList])
      simp only [evalue] at h1
      simp only [nanFree, Bool.and_eq_true] at h2
      rw [cmpEntries_scons, h1, cmpKey_refl k h2.1,
        iht (fun a ha => hn a (by simp [toList, ha])) (fun a ha => ih a (by simp [toList, ha]))]
      simp
    · exact cmpEntries_of_not_entry_left _ h
  | _ => exact cmpEntries_of_not_entry_left _ (by simp)

/-- every NaN-free value compares 0 with itself (no typing needed) -/
theorem cmpVal_refl (x : Val) (nx : nanFree x = true) : cmpVal x x = 0 := by
  induction hn : sizeOf x using Nat.strongRecOn generalizing x with
  | _ n IH =>
  subst hn
  have ih : ∀ a, sizeOf a < sizeOf x → nanFree a = true → cmpVal a a = 0 :=
    fun a ha na => IH _ ha a na rfl
  cases x with
  | bool b => simp [cmpVal_bool, cmpBool]
  | int n => simp [cmpVal_int, cmpInt]
  | flt w a =>
    simp only [nanFree, Bool.not_eq_true'] at nx; simp [cmpVal_flt, cmpFlt, fltEq_refl w a nx]
  | cplx w a b =>
    simp only [nanFree, Bool.and_eq_true, Bool.not_eq_true'] at nx
    simp [cmpVal_cplx, cmpFlt, fltEq_refl w a nx.1, fltEq_refl w b nx.2]
  | str s => rw [cmpVal_str]; exact cmpBytes_eq_zero.2 rfl
  | nilv => exact cmpVal_nil_nil
  | ptr a v => rw [cmpVal_ptr]; exact ih v (by simp; omega) (by simpa [nanFree] using nx)
  | slice a sp xs =>
    simp only [nanFree] at nx
    rw [cmpVal_slice, len_eq _ rfl]
    refine cmpSeq_refl xs (fun e he => ih e ?_ (nanFree_of_mem nx he))
    have := sizeOf_lt_of_mem he; simp; omega
  | arr xs =>
    simp only [nanFree] at nx
    rw [cmpVal_arr]
    refine cmpSeq_refl xs (fun e he => ih e ?_ (nanFree_of_mem nx he))
    have := sizeOf_lt_of_mem he; simp; omega
  | struct xs =>
    simp only [nanFree] at nx
    rw [cmpVal_struct]
    refine cmpSeq_refl xs (fun e he => ih e ?_ (nanFree_of_mem nx he))
    have := sizeOf_lt_of_mem he; simp; omega
  | map a xs =>
    simp only [nanFree] at nx
    rw [cmpVal_map, len_eq _ rfl]
    refine cmpEntries_refl _ (fun e he => nanFree_of_mem nx (mem_sortEntries.1 he))
      (fun e he => ih _ ?_ (nanFree_evalue (nanFree_of_mem nx (mem_sortEntries.1 he))))
    have := sizeOf_lt_of_mem (mem_sortEntries.1 he)
    have := sizeOf_evalue_le e
    simp; omega
  | pair k v => rw [cmpVal.eq_def]
  | snil => rw [cmpVal.eq_def]
  | scons h t => rw [cmpVal.eq_def]

/-! ## replacing a single component -/

/-- replacing one element of a sequence: the earlier (identical, NaN-free) elements compare 0 -/
theorem cmpSeq_replace (pre a b r s : Val) (np : nanFree pre = true) (hne : cmpVal a b ≠ 0) :
    cmpSeq (pre.sapp (.scons a r)) (pre.sapp (.scons b s)) = cmpVal a b :=
  cmpSeq_sapp pre pre a b r s rfl
    (cmpSeq_refl pre (fun e he => cmpVal_refl e (nanFree_of_mem np he))) hne

/-- the two entry spines differ exactly in the value stored at one position (key `k`) -/
inductive OneDiff (k v w : Val) : Val → Val → Prop
  | here (r : Val) : OneDiff k v w (.scons (.pair k v) r) (.scons (.pair k w) r)
  | there (e r r' : Val) : OneDiff k v w r r' → OneDiff k v w (.scons e r) (.scons e r')

theorem OneDiff.sapp {k v w : Val} (p q : Val) :
    OneDiff k v w (p.sapp (.scons (.pair k v) q)) (p.sapp (.scons (.pair k w) q)) := by
  induction p with
  | scons h t _ iht => exact .there _ _ _ iht
  | _ => exact .here _

theorem OneDiff.slen {k v w s s' : Val} (h : OneDiff k v w s s') : s.slen = s'.slen := by
  induction h with
  | here r => rfl
  | there e r r' _ ih => simp only [Val.slen, ih]

theorem OneDiff.isEntries {k v w s s' : Val} (h : OneDiff k v w s s') :
    isEntries s' = isEntries s := by
  induction h with
  | here r => rfl
  | there e r r' _ ih => cases e <;> simp [Goderive.isEntries, ih]

/-- inserting the same entry on both sides -/
theorem OneDiff.insert_same {k v w s s' : Val} (e : Val) (h : OneDiff k v w s s') :
    OneDiff k v w (insertEntry e s) (insertEntry e s') := by
  induction h with
  | here r =>
    by_cases he : ∃ k' v', e = .pair k' v'
    · obtain ⟨k', v', rfl⟩ := he
      rw [insertEntry_pair_scons, insertEntry_pair_scons]
      split
      · exact .there _ _ _ (.here r)
      · exact .here _
    · rw [insertEntry_of_not_pair_left _ _ _ (fun a b h => he ⟨a, b, h⟩),
        insertEntry_of_not_pair_left _ _ _ (fun a b h => he ⟨a, b, h⟩)]
      exact .there _ _ _ (.here r)
  | there e' r r' h' ih =>
    by_cases he : ∃ k' v', e = .pair k' v'
    · obtain ⟨k', v', rfl⟩ := he
      by_cases he' : ∃ k'' v'', e' = .pair k'' v''
      · obtain ⟨k'', v'', rfl⟩ := he'
        rw [insertEntry_pair_scons, insertEntry_pair_scons]
        split
        · exact .there _ _ _ (.there _ _ _ h')
        · exact .there _ _ _ ih
      · rw [insertEntry_of_not_pair_right _ _ _ (fun a b h => he' ⟨a, b, h⟩),
          insertEntry_of_not_pair_right _ _ _ (fun a b h => he' ⟨a, b, h⟩)]
        exact .there _ _ _ (.there _ _ _ h')
    · rw [insertEntry_of_not_pair_left _ _ _ (fun a b h => he ⟨a, b, h⟩),
        insertEntry_of_not_pair_left _ _ _ (fun a b h => he ⟨a, b, h⟩)]
      exact .there _ _ _ (.there _ _ _ h')

/-- inserting the two versions of the entry into the same spine -/
theorem OneDiff.insert_diff (k v w s : Val) :
    OneDiff k v w (insertEntry (.pair k v) s) (insertEntry (.pair k w) s) := by
  induction s with
  | scons h t _ iht =>
    by_cases hh : ∃ k' v', h = .pair k' v'
    · obtain ⟨k', v', rfl⟩ := hh
      rw [insertEntry_pair_scons, insertEntry_pair_scons]
      split
      · exact .here _
      · exact .there _ _ _ iht
    · rw [insertEntry_of_not_pair_right _ _ _ (fun a b h => hh ⟨a, b, h⟩),
        insertEntry_of_not_pair_right _ _ _ (fun a b h => hh ⟨a, b, h⟩)]
      exact .here _
  | _ => simp only [insertEntry]; exact .here _

/-- sorting only looks at keys: the sorted spines still differ in exactly that one value -/
theorem OneDiff.sortEntries {k v w s s' : Val} (h : OneDiff k v w s s') :
    OneDiff k v w (sortEntries s) (sortEntries s') := by
  induction h with
  | here r => simp only [Goderive.sortEntries]; exact OneDiff.insert_diff k v w _
  | there e r r' _ ih => simp only [Goderive.sortEntries]; exact ih.insert_same e

theorem cmpEntries_oneDiff {k v w s s' : Val} (h : OneDiff k v w s s')
    (hs : isEntries s = true) (ns : nanFree s = true) (hk : goEq k k = true)
    (hne : cmpVal v w ≠ 0) : cmpEntries s s' = cmpVal v w := by
  induction h with
  | here r => rw [cmpEntries_scons, hk, if_pos rfl, lex_of_ne _ hne]
  | there e r r' _ ih =>
    cases e <;> simp [Goderive.isEntries] at hs
    rename_i k' v'
    simp only [nanFree, Bool.and_eq_true] at ns
    rw [cmpEntries_scons, cmpVal_refl v' ns.1.2, cmpKey_refl k' ns.1.1, ih hs ns.2]
    simp

/-- **replacing the value stored under one key of a map**: the maps compare like the two values -/
theorem cmpVal_map_replace (a b : Nat) (p q k v w : Val)
    (hs : isEntries (p.sapp (.scons (.pair k v) q)) = true)
    (ns : nanFree (p.sapp (.scons (.pair k v) q)) = true) (hk : goEq k k = true)
    (hne : cmpVal v w ≠ 0) :
    cmpVal (.map a (p.sapp (.scons (.pair k v) q))) (.map b (p.sapp (.scons (.pair k w) q)))
      = cmpVal v w := by
  have h := OneDiff.sapp (k := k) (v := v) (w := w) p q
  rw [cmpVal_map, len_eq _ h.slen]
  exact cmpEntries_oneDiff h.sortEntries (isEntries_sortEntries hs)
    (nanFree_sortEntries hs ns) hk hne

/-! ## byte-wise string order -/

theorem cmpBytes_append_diff (p : List Nat) (x y : Nat) (r s : List Nat) (h : x ≠ y) :
    cmpBytes (p ++ x :: r) (p ++ y :: s) = if x < y then -1 else 1 := by
  induction p with
  | nil => simp [cmpBytes, h]
  | cons c p ih => simpa [cmpBytes] using ih

theorem cmpBytes_prefix (p : List Nat) (y : Nat) (s : List Nat) :
    cmpBytes p (p ++ y :: s) = -1 := by
  induction p with
  | nil => simp [cmpBytes]
  | cons c p ih => simpa [cmpBytes] using ih

theorem cmpFlt_of_lt {w a b : Nat} (h : fltLt w a b = true) : cmpFlt w a b = -1 := by
  simp only [fltLt, Bool.and_eq_true, Bool.not_eq_true', decide_eq_true_eq] at h
  have : fltEq w a b = false := by
    simp only [fltEq, h.1.1, h.1.2, Bool.not_false, Bool.true_and, beq_eq_false_iff_ne, ne_eq]
    omega
  simp [cmpFlt, this, fltLt, h]

theorem cmpFlt_of_gt {w a b : Nat} (h : fltLt w b a = true) : cmpFlt w a b = 1 := by
  simp only [fltLt, Bool.and_eq_true, Bool.not_eq_true', decide_eq_true_eq] at h
  have h1 : fltEq w a b = false := by
    simp only [fltEq, h.1.1, h.1.2, Bool.not_false, Bool.true_and, beq_eq_false_iff_ne, ne_eq]
    omega
  have h2 : fltLt w a b = false := by
    simp only [fltLt, h.1.1, h.1.2, Bool.not_false, Bool.true_and, decide_eq_false_iff_not]
    omega
  simp [cmpFlt, h1, h2]

/-! ## evaluation lemmas (for closed examples) -/

theorem under_under {env : Env} {T : Ty} (h : (env.under T).isNamed = false) :
    env.under (env.under T) = env.under T := by
  generalize env.under T = U at h
  cases U <;> simp_all [Env.under, Ty.isNamed]

theorem hasType_eval_named (env : Env) (i : Nat) (v : Val)
    (h : (env.under (.named i)).isNamed = false) :
    hasType env (.named i) v = hasType env (env.under (.named i)) v := by
  rw [hasType.eq_def, hasType.eq_def (T := env.under (.named i)), under_under h]

theorem hasType_eval_basic (env : Env) (b : Basic) (v : Val) :
    hasType env (.basic b) v = basicHasType b v := hasType_basic rfl v

theorem hasType_eval_ptr_nil (env : Env) (R : Ty) : hasType env (.ptr R) .nilv = true := by
  rw [hasType.eq_def]; rfl

theorem hasType_eval_ptr (env : Env) (R : Ty) (a : Nat) (v : Val) :
    hasType env (.ptr R) (.ptr a v) = hasType env R v := by
  rw [hasType.eq_def]; rfl

theorem hasType_eval_slice_nil (env : Env) (E : Ty) : hasType env (.slice E) .nilv = true := by
  rw [hasType.eq_def]; rfl

theorem hasType_eval_slice (env : Env) (E : Ty) (a sp : Nat) (xs : Val) :
    hasType env (.slice E) (.slice a sp xs) = allHaveType env E xs := by
  rw [hasType.eq_def]; rfl

theorem hasType_eval_array (env : Env) (n : Nat) (E : Ty) (xs : Val) :
    hasType env (.array n E) (.arr xs) = (xs.slen == n && allHaveType env E xs) := by
  rw [hasType.eq_def]; rfl

theorem hasType_eval_struct (env : Env) (fs : Ty) (xs : Val) :
    hasType env (.struct fs) (.struct xs) = fieldsHaveType env fs xs := by
  rw [hasType.eq_def]; rfl

theorem hasType_eval_map_nil (env : Env) (K V : Ty) : hasType env (.map K V) .nilv = true := by
  rw [hasType.eq_def]; rfl

theorem hasType_eval_map (env : Env) (K V : Ty) (a : Nat) (es : Val) :
    hasType env (.map K V) (.map a es) =
      (canEqual env K && entriesHaveType env K V es && keysDistinct es) := by
  rw [hasType.eq_def]; rfl

theorem structEq_eval_named (env : Env) (i : Nat) (x y : Val)
    (h : (env.under (.named i)).isNamed = false) :
    structEq env (.named i) x y = structEq env (env.under (.named i)) x y := by
  rw [structEq.eq_def, structEq.eq_def (T := env.under (.named i)), under_under h]

theorem structEq_eval_basic (env : Env) (b : Basic) (x y : Val) :
    structEq env (.basic b) x y = leafEq x y := structEq_basic rfl x y

theorem structEq_eval_ptr (env : Env) (R : Ty) (a : Nat) (v : Val) (b : Nat) (w : Val) :
    structEq env (.ptr R) (.ptr a v) (.ptr b w) = structEq env R v w := structEq_ptr rfl ..

theorem structEq_eval_ptr_nil (env : Env) (R : Ty) : structEq env (.ptr R) .nilv .nilv = true :=
  structEq_nil_nil (.inl ⟨R, rfl⟩)

theorem structEq_eval_slice (env : Env) (E : Ty) (a sp : Nat) (xs : Val) (b sp' : Nat) (ys : Val) :
    structEq env (.slice E) (.slice a sp xs) (.slice b sp' ys) = seqEq env E xs ys :=
  structEq_slice rfl ..

theorem structEq_eval_slice_nil (env : Env) (E : Ty) :
    structEq env (.slice E) .nilv .nilv = true :=
  structEq_nil_nil (.inr (.inl ⟨E, rfl⟩))

theorem structEq_eval_array (env : Env) (n : Nat) (E : Ty) (xs ys : Val) :
    structEq env (.array n E) (.arr xs) (.arr ys) = seqEq env E xs ys := structEq_array rfl ..

theorem structEq_eval_struct (env : Env) (fs : Ty) (xs ys : Val) :
    structEq env (.struct fs) (.struct xs) (.struct ys) = fieldsEq env fs xs ys :=
  structEq_struct rfl ..

theorem structEq_eval_map (env : Env) (K V : Ty) (a : Nat) (xs : Val) (b : Nat) (ys : Val) :
    structEq env (.map K V) (.map a xs) (.map b ys) =
      (xs.slen == ys.slen && entriesIn env K V xs ys) := structEq_map rfl ..

theorem structEq_eval_map_nil (env : Env) (K V : Ty) :
    structEq env (.map K V) .nilv .nilv = true :=
  structEq_nil_nil (.inr (.inr ⟨K, V, rfl⟩))

/-- evaluate `hasType` on closed terms (give the definitions of the data to unfold) -/
syntax "ty_eval" (" [" Lean.Parser.Tactic.simpLemma,* "]")? : tactic
macro_rules
  | `(tactic| ty_eval) => `(tactic| ty_eval [Val.slen])
  | `(tactic| ty_eval [$ls,*]) => `(tactic|
      set_option linter.unusedSimpArgs false in
      simp [$ls,*, hasType_eval_named, hasType_eval_basic, hasType_eval_ptr_nil, hasType_eval_ptr,
        hasType_eval_slice_nil, hasType_eval_slice, hasType_eval_array, hasType_eval_struct,
        hasType_eval_map_nil, hasType_eval_map, Env.under, Env.decl?, Ty.isNamed, basicHasType,
        intInRange, canEqual, keysDistinct, keyFresh, goEq, Val.slen])

/-- evaluate `cmpVal` / `structEq` on closed terms (give the definitions of the data to unfold) -/
syntax "cmp_eval" (" [" Lean.Parser.Tactic.simpLemma,* "]")? : tactic
macro_rules
  | `(tactic| cmp_eval) => `(tactic| cmp_eval [Val.slen])
  | `(tactic| cmp_eval [$ls,*]) => `(tactic|
      set_option linter.unusedSimpArgs false in
      simp [$ls,*, cmpVal_struct, cmpSeq_scons, cmpSeq_snil, cmpVal_int, cmpVal_ptr, cmpVal_slice,
        cmpVal_str, cmpVal_map, cmpVal_cplx, cmpVal_bool, cmpVal_arr, cmpVal_flt, cmpVal_nil_nil,
        cmpVal_nil_left, cmpVal_nil_right, cmpEntries_scons, cmpEntries_snil, lex, cmpInt, cmpBytes,
        cmpBool, cmpFlt, fltEq, fltLt, fltIsNaN, fltKey, fltExp, fltMant, fltMag, fltSign, mantBits,
        expBits, sortEntries, insertEntry, cmpKey, goEq, Val.slen, Val.sapp, isEntries, nanFree,
        structEq_eval_named, structEq_eval_basic, structEq_eval_ptr, structEq_eval_ptr_nil,
        structEq_eval_slice, structEq_eval_slice_nil, structEq_eval_array, structEq_eval_struct,
        structEq_eval_map, structEq_eval_map_nil, structEq_nil_left, structEq_nil_right,
        seqEq_scons, seqEq_snil, fieldsEq_cons, fieldsEq_nil, entriesIn_scons, entriesIn_snil,
        valueAt_scons, valueAt_snil, leafEq, Env.under, Env.decl?, Ty.isNamed])

end Cmp
end Goderive
