/-
Helper lemmas for C03 (derived Compare):

* `Compare.okTy` / `SupportedCmp`: which types plugin/compare supports (decidable, syntactic,
  closed world);
* unfolding lemmas for the specification `Spec.cmpVal` / `cmpSeq` / `cmpEntries` in terms of the
  lexicographic combination `lex`;
* the model computes the specification (`top_correct`), never panicking on typed values;
* the specification is a three-valued total preorder on NaN-free values of one type
  (`tri_cmpVal`, `cmpVal_antisymm`, `trans3_cmpVal`) whose equivalence is structural equality
  (`cmpVal_eq_zero_iff`);
* context lemmas for `cmpSeq` / `cmpEntries`.

Everything that is not part of a theorem statement of `Props/C03.lean` lives in `Goderive.Cmp`.
-/
import GoderiveModel.Lemmas.SortEntries
import GoderiveModel.Spec.Order
import GoderiveModel.Spec.StructEq

namespace Goderive
open Val

namespace Compare

/-- `T` is supported by plugin/compare in any position: no unnamed struct (the generator answers
"unsupported compare type"), no chan / func / interface, comparable map keys, no dangling name. -/
def okTy (env : Env) : Ty → Bool
  | .basic _ => true
  | .named i => (env.decl? i).isSome
  | .ptr R => okTy env R
  | .slice E => okTy env E
  | .array _ E => okTy env E
  | .map K V => canEqual env K && okTy env K && okTy env V
  | .struct _ => false
  | .fnil => true
  | .fcons F r => okTy env F && okTy env r
  | .chan _ => false
  | .func => false
  | .iface => false

/-- supported as the underlying type of a declaration: a struct is allowed here -/
def okDecl (env : Env) : Ty → Bool
  | .struct fs => okTy env fs
  | T => okTy env T

def envOk (env : Env) : Bool := env.decls.all fun d => okDecl env d.under

end Compare

/-- `deriveCompare` can be generated for `T`: closed-world syntactic check over `T` and the
underlying types of all declarations. -/
def SupportedCmp (env : Env) (T : Ty) : Bool := Compare.okTy env T && Compare.envOk env

namespace Cmp
open Spec Compare

/-! ## unfolding the specification -/

theorem cmpVal_bool (a b : Bool) : cmpVal (.bool a) (.bool b) = cmpBool a b := by rw [cmpVal]
theorem cmpVal_int (a b : Int) : cmpVal (.int a) (.int b) = cmpInt a b := by rw [cmpVal]
theorem cmpVal_flt (w a w' b : Nat) : cmpVal (.flt w a) (.flt w' b) = cmpFlt w a b := by rw [cmpVal]
theorem cmpVal_cplx (w a b w' c d : Nat) :
    cmpVal (.cplx w a b) (.cplx w' c d) = lex (cmpFlt w a c) (cmpFlt w b d) := by
  rw [cmpVal]; exact cplx_eq_lex ..
theorem cmpVal_str (a b : List Nat) : cmpVal (.str a) (.str b) = cmpBytes a b := by rw [cmpVal]
theorem cmpVal_nil_nil : cmpVal .nilv .nilv = 0 := by rw [cmpVal]
theorem cmpVal_nil_left {y : Val} (h : y ≠ .nilv) : cmpVal .nilv y = -1 := by
  rw [cmpVal.eq_def]; cases y <;> simp_all
theorem cmpVal_nil_right {x : Val} (h : x ≠ .nilv) : cmpVal x .nilv = 1 := by
  rw [cmpVal.eq_def]; cases x <;> simp_all
theorem cmpVal_ptr (a : Nat) (v : Val) (b : Nat) (w : Val) :
    cmpVal (.ptr a v) (.ptr b w) = cmpVal v w := by rw [cmpVal]
theorem cmpVal_slice (a sp : Nat) (xs : Val) (b sp' : Nat) (ys : Val) :
    cmpVal (.slice a sp xs) (.slice b sp' ys) =
      if xs.slen != ys.slen then (if xs.slen < ys.slen then -1 else 1) else cmpSeq xs ys := by
  rw [cmpVal]
theorem cmpVal_arr (xs ys : Val) : cmpVal (.arr xs) (.arr ys) = cmpSeq xs ys := by rw [cmpVal]
theorem cmpVal_struct (xs ys : Val) : cmpVal (.struct xs) (.struct ys) = cmpSeq xs ys := by
  rw [cmpVal]
theorem cmpVal_map (a : Nat) (xs : Val) (b : Nat) (ys : Val) :
    cmpVal (.map a xs) (.map b ys) =
      if xs.slen != ys.slen then (if xs.slen < ys.slen then -1 else 1)
      else cmpEntries (sortEntries xs) (sortEntries ys) := by
  rw [cmpVal]
theorem cmpSeq_scons (a r b s : Val) :
    cmpSeq (.scons a r) (.scons b s) = lex (cmpVal a b) (cmpSeq r s) := by
  rw [cmpSeq]; rfl
theorem cmpSeq_snil : cmpSeq .snil .snil = 0 := by rw [cmpSeq.eq_def]
theorem cmpEntries_scons (k v r k' w s : Val) :
    cmpEntries (.scons (.pair k v) r) (.scons (.pair k' w) s) =
      lex (if goEq k k' then cmpVal v w else cmpKey k k') (cmpEntries r s) := by
  rw [cmpEntries]; rfl
theorem cmpEntries_snil : cmpEntries .snil .snil = 0 := by rw [cmpEntries.eq_def]

/-! ## the model computes the specification -/

theorem sizeOf_lt_of_mem {e s : Val} (h : e ∈ s.toList) : sizeOf e < sizeOf s := by
  induction s with
  | scons a r _ ihr =>
    simp only [toList, List.mem_cons] at h
    rcases h with rfl | h
    · simp; omega
    · have := ihr h; simp; omega
  | _ => simp [toList] at h

theorem sizeOf_evalue_le (e : Val) : sizeOf (evalue e) ≤ sizeOf e := by
  cases e <;> simp [evalue] <;> omega

/-- a supported type is a name or is its own underlying type; its underlying type is supported as
a declaration body -/
theorem okDecl_under {env : Env} (he : envOk env = true) {T : Ty} (h : okTy env T = true) :
    okDecl env (env.under T) = true := by
  cases T <;> try (simpa [Env.under, okDecl] using h)
  · rename_i i
    simp only [okTy] at h
    simp only [Env.under]
    cases hd : env.decl? i with
    | none => simp [hd] at h
    | some d =>
      simp only [envOk, List.all_eq_true] at he
      exact he d (List.mem_of_getElem? hd)
  · simp [okTy] at h

theorem isNamed_of_under_struct {env : Env} {T fs : Ty} (h : okTy env T = true)
    (hU : env.under T = .struct fs) : T.isNamed = true := by
  cases T <;> simp_all [Env.under, okTy, Ty.isNamed]

/-- `field()` just calls the helper for the component type, for every supported type -/
theorem field_eq_top {env : Env} {F : Ty} (h : okTy env F = true) (x y : Val) :
    Compare.field env F x y = Compare.top env F x y := by
  rw [Compare.field.eq_def]
  split
  · rename_i fs hU
    simp [isNamed_of_under_struct h hU]
  · rfl

theorem cmpLeaf_eq {b : Basic} {x y : Val} (hx : basicHasType b x = true)
    (hy : basicHasType b y = true) : cmpLeaf x y = .ok (cmpVal x y) := by
  cases b <;> cases x <;> simp [basicHasType] at hx <;> cases y <;> simp [basicHasType] at hy <;>
    simp [cmpLeaf, cmpVal_bool, cmpVal_int, cmpVal_flt, cmpVal_cplx, cmpVal_str, cplx_eq_lex]

/-- the model's `top` computes the specification at `x` (for every supported type and partner) -/
def TopOK (env : Env) (x : Val) : Prop :=
  ∀ T y, hasType env T x = true → hasType env T y = true → okTy env T = true →
    Compare.top env T x y = .ok (cmpVal x y)

theorem fields_correct {env : Env} (xs : Val) (ih : ∀ a ∈ xs.toList, TopOK env a) :
    ∀ fs ys, fieldsHaveType env fs xs = true → fieldsHaveType env fs ys = true →
      okTy env fs = true → Compare.fields env fs xs ys = .ok (cmpSeq xs ys) := by
  induction xs with
  | scons a r _ ihr =>
    intro fs ys hx hy hok
    rcases fieldsHaveType_inv hx with ⟨_, h⟩ | ⟨F, rest, a', r', rfl, h, ha, hr⟩
    · cases h
    · cases h
      rcases fieldsHaveType_inv hy with ⟨h, _⟩ | ⟨F', rest', b, s, h, rfl, hb, hs⟩
      · cases h
      · cases h
        simp only [okTy, Bool.and_eq_true] at hok
        rw [Compare.fields, field_eq_top hok.1, ih a (by simp [toList]) F b ha hb hok.1]
        simp only [Res.bind_ok, cmpSeq_scons, lex]
        split
        · rfl
        · exact ihr (fun a' ha' => ih a' (by simp [toList, ha'])) rest s hr hs hok.2
  | snil =>
    intro fs ys hx hy _
    rcases fieldsHaveType_inv hx with ⟨rfl, _⟩ | ⟨_, _, _, _, _, h, _⟩
    · rcases fieldsHaveType_inv hy with ⟨_, rfl⟩ | ⟨_, _, _, _, h, _⟩
      · rw [Compare.fields, cmpSeq_snil]
      · cases h
    · cases h
  | _ =>
    intro fs ys hx
    rcases fieldsHaveType_inv hx with ⟨_, h⟩ | ⟨_, _, _, _, _, h, _⟩ <;> cases h

theorem elems_correct {env : Env} (xs : Val) (ih : ∀ a ∈ xs.toList, TopOK env a) :
    ∀ E ys, allHaveType env E xs = true → allHaveType env E ys = true → xs.slen = ys.slen →
      okTy env E = true → Compare.elems env E xs ys = .ok (cmpSeq xs ys) := by
  induction xs with
  | scons a r _ ihr =>
    intro E ys hx hy hl hok
    rcases allHaveType_inv hy with rfl | ⟨b, s, rfl, hb, hs⟩
    · simp [slen] at hl
    · simp only [allHaveType_scons, Bool.and_eq_true] at hx
      rw [Compare.elems, field_eq_top hok, ih a (by simp [toList]) E b hx.1 hb hok]
      simp only [Res.bind_ok, cmpSeq_scons, lex]
      split
      · rfl
      · exact ihr (fun a' ha' => ih a' (by simp [toList, ha'])) E s hx.2 hs
          (by simpa [slen] using hl) hok
  | snil =>
    intro E ys _ hy hl _
    rcases allHaveType_inv hy with rfl | ⟨b, s, rfl, hb, hs⟩
    · rw [Compare.elems, cmpSeq_snil]
    · simp [slen] at hl
  | _ =>
    intro E ys hx
    rcases allHaveType_inv hx with h | ⟨_, _, h, _⟩ <;> cases h

theorem entries_correct {env : Env} (xs : Val) (ih : ∀ e ∈ xs.toList, TopOK env (evalue e)) :
    ∀ K V ys, entriesHaveType env K V xs = true → entriesHaveType env K V ys = true →
      xs.slen = ys.slen → okTy env V = true →
      Compare.entries env V xs ys = .ok (cmpEntries xs ys) := by
  induction xs with
  | scons e r _ ihr =>
    intro K V ys hx hy hl hok
    rcases entriesHaveType_inv hx with h | ⟨k, v, r', h, hk, hv, hr⟩
    · cases h
    · cases h
      rcases entriesHaveType_inv hy with rfl | ⟨k', w, s, rfl, hk', hw, hs⟩
      · simp [slen] at hl
      · have ihv := ih (.pair k v) (by simp [toList]) V w hv hw hok
        simp only [evalue] at ihv
        have iht := ihr (fun a' ha' => ih a' (by simp [toList, ha'])) K V s hr hs
          (by simpa [slen] using hl) hok
        rw [Compare.entries, cmpEntries_scons]
        by_cases hg : goEq k k' = true
        · simp only [hg, if_true, field_eq_top hok, ihv, Res.bind_ok, lex]
          split
          · rfl
          · exact iht
        · simp only [hg, Bool.false_eq_true, if_false, lex]
          split
          · rfl
          · exact iht
  | snil =>
    intro K V ys _ hy hl _
    rcases entriesHaveType_inv hy with rfl | ⟨_, _, _, rfl, _⟩
    · rw [Compare.entries, cmpEntries_snil]
    · simp [slen] at hl
  | _ =>
    intro K V ys hx
    rcases entriesHaveType_inv hx with h | ⟨_, _, _, h, _⟩ <;> cases h

theorem okDecl_struct {env : Env} {fs : Ty} (h : okDecl env (.struct fs) = true) :
    okTy env fs = true := h

/-- **the model computes the specification** on typed values of a supported type -/
theorem top_correct {env : Env} (he : envOk env = true) (x : Val) :
    TopOK env x := by
  induction hn : sizeOf x using Nat.strongRecOn generalizing x with
  | _ n IH =>
  subst hn
  have ih : ∀ a, sizeOf a < sizeOf x → TopOK env a := fun a ha => IH _ ha a rfl
  intro T y hx hy hok
  have hd := okDecl_under he hok
  rcases hasType_false_of_under hx with ⟨b, hU⟩ | ⟨R, hU⟩ | ⟨E, hU⟩ | ⟨n, E, hU⟩ | ⟨fs, hU⟩ |
      ⟨K, V, hU⟩
  · -- basic
    rw [hasType_basic hU] at hx hy
    rw [Compare.top.eq_def, hU]
    exact cmpLeaf_eq hx hy
  · -- pointer
    rw [hU] at hd
    have hokR : okTy env R = true := by simpa [okDecl, okTy] using hd
    rw [Compare.top.eq_def, hU]
    rcases hasType_ptr hU hx with rfl | ⟨a, v, rfl, hv⟩ <;>
      rcases hasType_ptr hU hy with rfl | ⟨b, w, rfl, hw⟩
    · simp [cmpVal_nil_nil]
    · simp [cmpVal_nil_left]
    · simp [cmpVal_nil_right]
    · simp only [cmpVal_ptr]
      split
      · rename_i fs hUR
        rw [if_pos (isNamed_of_under_struct hokR hUR)]
        obtain ⟨xs, rfl, hxs⟩ := (hasType_struct hUR _).1 hv
        obtain ⟨ys, rfl, hys⟩ := (hasType_struct hUR _).1 hw
        have hdR := okDecl_under he hokR
        rw [hUR] at hdR
        simp only [cmpVal_struct]
        refine fields_correct xs (fun a ha => ih a ?_) fs ys hxs hys hdR
        have := sizeOf_lt_of_mem ha; simp; omega
      · exact ih v (by simp; omega) R w hv hw hokR
  · -- slice
    rw [hU] at hd
    have hokE : okTy env E = true := by simpa [okDecl, okTy] using hd
    rw [Compare.top.eq_def, hU]
    rcases hasType_slice hU hx with rfl | ⟨a, sp, xs, rfl, hxs⟩ <;>
      rcases hasType_slice hU hy with rfl | ⟨b, sp', ys, rfl, hys⟩
    · simp [cmpVal_nil_nil]
    · simp [cmpVal_nil_left]
    · simp [cmpVal_nil_right]
    · simp only [cmpVal_slice]
      split
      · rfl
      · rename_i hl
        refine elems_correct xs (fun a ha => ih a ?_) E ys hxs hys (by simpa using hl) hokE
        have := sizeOf_lt_of_mem ha; simp; omega
  · -- array
    rw [hU] at hd
    have hokE : okTy env E = true := by simpa [okDecl, okTy] using hd
    rw [Compare.top.eq_def, hU]
    obtain ⟨xs, rfl, hlx, hxs⟩ := (hasType_array hU _).1 hx
    obtain ⟨ys, rfl, hly, hys⟩ := (hasType_array hU _).1 hy
    simp only [cmpVal_arr]
    refine elems_correct xs (fun a ha => ih a ?_) E ys hxs hys (by omega) hokE
    have := sizeOf_lt_of_mem ha; simp; omega
  · -- struct
    rw [hU] at hd
    rw [Compare.top.eq_def, hU]
    obtain ⟨xs, rfl, hxs⟩ := (hasType_struct hU _).1 hx
    obtain ⟨ys, rfl, hys⟩ := (hasType_struct hU _).1 hy
    simp only [cmpVal_struct, isNamed_of_under_struct hok hU, if_true]
    refine fields_correct xs (fun a ha => ih a ?_) fs ys hxs hys hd
    have := sizeOf_lt_of_mem ha; simp; omega
  · -- map
    rw [hU] at hd
    have hokV : okTy env V = true := by
      simp only [okDecl, okTy, Bool.and_eq_true] at hd; exact hd.2
    rw [Compare.top.eq_def, hU]
    rcases hasType_map hU hx with rfl | ⟨a, xs, rfl, _, hxs, _⟩ <;>
      rcases hasType_map hU hy with rfl | ⟨b, ys, rfl, _, hys, _⟩
    · simp [cmpVal_nil_nil]
    · simp [cmpVal_nil_left]
    · simp [cmpVal_nil_right]
    · simp only [cmpVal_map]
      split
      · rfl
      · rename_i hl
        refine entries_correct (sortEntries xs) (fun e he => ih _ ?_) K V (sortEntries ys)
          (entriesHaveType_sortEntries hxs) (entriesHaveType_sortEntries hys)
          (by rw [slen_sortEntries, slen_sortEntries]; simpa using hl) hokV
        have := sizeOf_lt_of_mem (mem_sortEntries.1 he)
        have := sizeOf_evalue_le e
        simp; omega

/-! ## range -/

theorem cmpSeq_of_not_scons_left {xs : Val} (ys : Val) (h : ∀ a r, xs ≠ .scons a r) :
    cmpSeq xs ys = 0 := by
  rw [cmpSeq.eq_def]; split
  · exact absurd rfl (h _ _)
  · rfl

theorem cmpSeq_of_not_scons_right (xs : Val) {ys : Val} (h : ∀ a r, ys ≠ .scons a r) :
    cmpSeq xs ys = 0 := by
  rw [cmpSeq.eq_def]; split
  · exact absurd rfl (h _ _)
  · rfl

theorem tri_cmpSeq (xs : Val) (ih : ∀ a ∈ xs.toList, ∀ b, Tri (cmpVal a b)) (ys : Val) :
    Tri (cmpSeq xs ys) := by
  induction xs generalizing ys with
  | scons a r _ ihr =>
    cases ys with
    | scons b s =>
      rw [cmpSeq_scons]
      exact (ih a (by simp [toList]) b).lex (ihr (fun a' ha' => ih a' (by simp [toList, ha'])) s)
    | _ => rw [cmpSeq_of_not_scons_right _ (by simp)]; exact tri_zero
  | _ => rw [cmpSeq_of_not_scons_left _ (by simp)]; exact tri_zero

theorem entry_cases (xs : Val) :
    (∃ k v r, xs = .scons (.pair k v) r) ∨ (∀ k v r, xs ≠ .scons (.pair k v) r) := by
  cases xs with
  | scons h t =>
    cases h with
    | pair k v => exact .inl ⟨k, v, t, rfl⟩
    | _ => right; intro k v r h; cases h
  | _ => right; intro k v r h; cases h

theorem cmpEntries_of_not_entry_left {xs : Val} (ys : Val)
    (h : ∀ k v r, xs ≠ .scons (.pair k v) r) : cmpEntries xs ys = 0 := by
  rw [cmpEntries.eq_def]; split
  · exact absurd rfl (h _ _ _)
  · rfl

theorem cmpEntries_of_not_entry_right (xs : Val) {ys : Val}
    (h : ∀ k v r, ys ≠ .scons (.pair k v) r) : cmpEntries xs ys = 0 := by
  rw [cmpEntries.eq_def]; split
  · exact absurd rfl (h _ _ _)
  · rfl

theorem tri_cmpEntries (xs : Val) (ih : ∀ e ∈ xs.toList, ∀ b, Tri (cmpVal (evalue e) b))
    (ys : Val) : Tri (cmpEntries xs ys) := by
  induction xs generalizing ys with
  | scons e r _ ihr =>
    rcases entry_cases (.scons e r) with ⟨k, v, r', h⟩ | h
    · cases h
      rcases entry_cases ys with ⟨k', w, s, rfl⟩ | h'
      · have hv := ih (.pair k v) (by simp [toList]) w
        simp only [evalue] at hv
        have ht := ihr (fun a' ha' => ih a' (by simp [toList, ha'])) s
        have hh : Tri (if goEq k k' = true then cmpVal v w else cmpKey k k') := by
          split
          · exact hv
          · exact tri_cmpKey ..
        rw [cmpEntries_scons]
        exact hh.lex ht
      · rw [cmpEntries_of_not_entry_right _ h']; exact tri_zero
    · rw [cmpEntries_of_not_entry_left _ h]; exact tri_zero
  | _ => rw [cmpEntries_of_not_entry_left _ (by simp)]; exact tri_zero

theorem tri_len (m n : Nat) (t : Int) (ht : Tri t) :
    Tri (if (m != n) = true then (if m < n then -1 else 1) else t) := by
  split
  · split
    · exact tri_neg_one
    · exact tri_one
  · exact ht

/-- the specification only returns -1, 0 or +1 (no hypotheses) -/
theorem tri_cmpVal (x y : Val) : Tri (cmpVal x y) := by
  induction hn : sizeOf x using Nat.strongRecOn generalizing x y with
  | _ n IH =>
  subst hn
  have ih : ∀ a, sizeOf a < sizeOf x → ∀ b, Tri (cmpVal a b) := fun a ha b => IH _ ha a b rfl
  rw [cmpVal.eq_def]
  split
  · exact tri_cmpBool ..
  · exact tri_cmpInt ..
  · exact tri_cmpFlt ..
  · rw [cplx_eq_lex]; exact (tri_cmpFlt ..).lex (tri_cmpFlt ..)
  · exact tri_cmpBytes ..
  · exact tri_zero
  · exact tri_neg_one
  · exact tri_one
  · exact ih _ (by simp; omega) _
  · refine tri_len _ _ _ (tri_cmpSeq _ (fun a ha => ih a ?_) _)
    have := sizeOf_lt_of_mem ha; simp; omega
  · refine tri_cmpSeq _ (fun a ha => ih a ?_) _
    have := sizeOf_lt_of_mem ha; simp; omega
  · refine tri_cmpSeq _ (fun a ha => ih a ?_) _
    have := sizeOf_lt_of_mem ha; simp; omega
  · refine tri_len _ _ _ (tri_cmpEntries _ (fun e he => ih _ ?_) _)
    have := sizeOf_lt_of_mem (mem_sortEntries.1 he)
    have := sizeOf_evalue_le e
    simp; omega
  · exact tri_zero

/-! ## leaves: the specification is the key order -/

theorem cmpVal_eq_cmpKey_of_basic {b : Basic} {x y : Val} (hx : basicHasType b x = true)
    (hy : basicHasType b y = true) : cmpVal x y = cmpKey x y := by
  cases b <;> cases x <;> simp [basicHasType] at hx <;> cases y <;> simp [basicHasType] at hy <;>
    simp [cmpVal_bool, cmpVal_int, cmpVal_flt, cmpVal_cplx, cmpVal_str, cmpKey, cplx_eq_lex]

theorem len_lex (m n : Nat) (t : Int) :
    (if (m != n) = true then (if m < n then -1 else 1) else t) = lex (cmpInt m n) t := by
  by_cases h : m = n
  · subst h; simp [cmpInt_self]
  · have h' : ¬ ((m : Int) = (n : Int)) := by omega
    simp only [bne_iff_ne, ne_eq, h, not_false_eq_true, if_true, lex, cmpInt, beq_iff_eq, h',
      if_false, Int.ofNat_lt]
    split <;> simp

/-! ## antisymmetry -/

/-- antisymmetry at `x`, against every NaN-free partner of the same type -/
def AntiOK (env : Env) (x : Val) : Prop :=
  ∀ T y, hasType env T x = true → hasType env T y = true → nanFree x = true → nanFree y = true →
    cmpVal y x = - cmpVal x y

theorem cmpSeq_antisymm_elems {env : Env} (xs : Val) (ih : ∀ a ∈ xs.toList, AntiOK env a) :
    ∀ E ys, allHaveType env E xs = true → allHaveType env E ys = true →
      nanFree xs = true → nanFree ys = true → cmpSeq ys xs = - cmpSeq xs ys := by
  induction xs with
  | scons a r _ ihr =>
    intro E ys hx hy nx ny
    rcases allHaveType_inv hy with rfl | ⟨b, s, rfl, hb, hs⟩
    · rw [cmpSeq_of_not_scons_left _ (by simp), cmpSeq_of_not_scons_right _ (by simp)]; rfl
    · simp only [allHaveType_scons, Bool.and_eq_true] at hx
      simp only [nanFree, Bool.and_eq_true] at nx ny
      rw [cmpSeq_scons, cmpSeq_scons, ih a (by simp [toList]) E b hx.1 hb nx.1 ny.1,
        ihr (fun a' ha' => ih a' (by simp [toList, ha'])) E s hx.2 hs nx.2 ny.2, lex_neg]
  | _ =>
    intro E ys _ _ _ _
    rw [cmpSeq_of_not_scons_right _ (by simp), cmpSeq_of_not_scons_left _ (by simp)]; rfl

theorem cmpSeq_antisymm_fields {env : Env} (xs : Val) (ih : ∀ a ∈ xs.toList, AntiOK env a) :
    ∀ fs ys, fieldsHaveType env fs xs = true → fieldsHaveType env fs ys = true →
      nanFree xs = true → nanFree ys = true → cmpSeq ys xs = - cmpSeq xs ys := by
  induction xs with
  | scons a r _ ihr =>
    intro fs ys hx hy nx ny
    rcases fieldsHaveType_inv hx with ⟨_, h⟩ | ⟨F, rest, a', r', rfl, h, ha, hr⟩
    · cases h
    · cases h
      rcases fieldsHaveType_inv hy with ⟨h, _⟩ | ⟨F', rest', b, s, h, rfl, hb, hs⟩
      · cases h
      · cases h
        simp only [nanFree, Bool.and_eq_true] at nx ny
        rw [cmpSeq_scons, cmpSeq_scons, ih a (by simp [toList]) F b ha hb nx.1 ny.1,
          ihr (fun a' ha' => ih a' (by simp [toList, ha'])) rest s hr hs nx.2 ny.2, lex_neg]
  | _ =>
    intro E ys _ _ _ _
    rw [cmpSeq_of_not_scons_right _ (by simp), cmpSeq_of_not_scons_left _ (by simp)]; rfl

theorem cmpEntries_antisymm {env : Env} (hf : env.flagsOk = true) {K V : Ty}
    (hc : canEqual env K = true) (xs : Val) (ih : ∀ e ∈ xs.toList, AntiOK env (evalue e)) :
    ∀ ys, entriesHaveType env K V xs = true → entriesHaveType env K V ys = true →
      nanFree xs = true → nanFree ys = true → cmpEntries ys xs = - cmpEntries xs ys := by
  have hP := keySet_typed hf hc
  induction xs with
  | scons e r _ ihr =>
    intro ys hx hy nx ny
    rcases entriesHaveType_inv hx with h | ⟨k, v, r', h, hk, hv, hr⟩
    · cases h
    · cases h
      rcases entriesHaveType_inv hy with rfl | ⟨k', w, s, rfl, hk', hw, hs⟩
      · rw [cmpEntries_of_not_entry_left _ (by simp), cmpEntries_of_not_entry_right _ (by simp)]
        rfl
      · simp only [nanFree, Bool.and_eq_true] at nx ny
        have ihv := ih (.pair k v) (by simp [toList]) V w hv hw nx.1.2 ny.1.2
        simp only [evalue] at ihv
        have iht := ihr (fun a' ha' => ih a' (by simp [toList, ha'])) s hr hs nx.2 ny.2
        rw [cmpEntries_scons, cmpEntries_scons, iht, ihv, hP.goEq_symm ⟨hk', ny.1.1⟩ ⟨hk, nx.1.1⟩,
          hP.antisymm ⟨hk, nx.1.1⟩ ⟨hk', ny.1.1⟩, ← lex_neg]
        congr 1
        split <;> rfl
  | _ =>
    intro ys _ _ _ _
    rw [cmpEntries_of_not_entry_right _ (by simp), cmpEntries_of_not_entry_left _ (by simp)]; rfl

theorem neg_len (m n : Nat) (t t' : Int) (h : t' = - t) :
    (if (n != m) = true then (if n < m then -1 else 1) else t')
      = - (if (m != n) = true then (if m < n then -1 else 1) else t) := by
  rw [len_lex, len_lex, cmpInt_antisymm, h, lex_neg]

/-- **antisymmetry** of the specification on NaN-free values of one type -/
theorem antiOK {env : Env} (hf : env.flagsOk = true) (x : Val) : AntiOK env x := by
  induction hn : sizeOf x using Nat.strongRecOn generalizing x with
  | _ n IH =>
  subst hn
  have ih : ∀ a, sizeOf a < sizeOf x → AntiOK env a := fun a ha => IH _ ha a rfl
  intro T y hx hy nx ny
  rcases hasType_false_of_under hx with ⟨b, hU⟩ | ⟨R, hU⟩ | ⟨E, hU⟩ | ⟨n, E, hU⟩ | ⟨fs, hU⟩ |
      ⟨K, V, hU⟩
  · -- basic
    rw [hasType_basic hU] at hx hy
    rw [cmpVal_eq_cmpKey_of_basic hx hy, cmpVal_eq_cmpKey_of_basic hy hx]
    exact cmpKey_antisymm (keyLike_of_basicHasType hx hy) nx ny
  · -- pointer
    rcases hasType_ptr hU hx with rfl | ⟨a, v, rfl, hv⟩ <;>
      rcases hasType_ptr hU hy with rfl | ⟨b, w, rfl, hw⟩
    · simp [cmpVal_nil_nil]
    · simp [cmpVal_nil_left, cmpVal_nil_right]
    · simp [cmpVal_nil_left, cmpVal_nil_right]
    · simp only [cmpVal_ptr]
      exact ih v (by simp; omega) R w hv hw (by simpa [nanFree] using nx)
        (by simpa [nanFree] using ny)
  · -- slice
    rcases hasType_slice hU hx with rfl | ⟨a, sp, xs, rfl, hxs⟩ <;>
      rcases hasType_slice hU hy with rfl | ⟨b, sp', ys, rfl, hys⟩
    · simp [cmpVal_nil_nil]
    · simp [cmpVal_nil_left, cmpVal_nil_right]
    · simp [cmpVal_nil_left, cmpVal_nil_right]
    · simp only [cmpVal_slice]
      refine neg_len _ _ _ _ (cmpSeq_antisymm_elems xs (fun a ha => ih a ?_) E ys hxs hys
        (by simpa [nanFree] using nx) (by simpa [nanFree] using ny))
      have := sizeOf_lt_of_mem ha; simp; omega
  · -- array
    obtain ⟨xs, rfl, hlx, hxs⟩ := (hasType_array hU _).1 hx
    obtain ⟨ys, rfl, hly, hys⟩ := (hasType_array hU _).1 hy
    simp only [cmpVal_arr]
    refine cmpSeq_antisymm_elems xs (fun a ha => ih a ?_) E ys hxs hys
      (by simpa [nanFree] using nx) (by simpa [nanFree] using ny)
    have := sizeOf_lt_of_mem ha; simp; omega
  · -- struct
    obtain ⟨xs, rfl, hxs⟩ := (hasType_struct hU _).1 hx
    obtain ⟨ys, rfl, hys⟩ := (hasType_struct hU _).1 hy
    simp only [cmpVal_struct]
    refine cmpSeq_antisymm_fields xs (fun a ha => ih a ?_) fs ys hxs hys
      (by simpa [nanFree] using nx) (by simpa [nanFree] using ny)
    have := sizeOf_lt_of_mem ha; simp; omega
  · -- map
    rcases hasType_map hU hx with rfl | ⟨a, xs, rfl, hc, hxs, _⟩ <;>
      rcases hasType_map hU hy with rfl | ⟨b, ys, rfl, _, hys, _⟩
    · simp [cmpVal_nil_nil]
    · simp [cmpVal_nil_left, cmpVal_nil_right]
    · simp [cmpVal_nil_left, cmpVal_nil_right]
    · simp only [cmpVal_map]
      simp only [nanFree] at nx ny
      refine neg_len _ _ _ _ (cmpEntries_antisymm hf hc (sortEntries xs) (fun e he => ih _ ?_)
        (sortEntries ys) (entriesHaveType_sortEntries hxs) (entriesHaveType_sortEntries hys)
        (nanFree_sortEntries (isEntries_of_entriesHaveType hxs) nx)
        (nanFree_sortEntries (isEntries_of_entriesHaveType hys) ny))
      have := sizeOf_lt_of_mem (mem_sortEntries.1 he)
      have := sizeOf_evalue_le e
      simp; omega

/-! ## transitivity -/

/-- the transitivity package at `x`, against all NaN-free partners of the same type -/
def TransOK (env : Env) (x : Val) : Prop :=
  ∀ T y z, hasType env T x = true → hasType env T y = true → hasType env T z = true →
    nanFree x = true → nanFree y = true → nanFree z = true →
    Trans3 (cmpVal x y) (cmpVal y z) (cmpVal x z)

theorem cmpSeq_trans3_elems {env : Env} (xs : Val) (ih : ∀ a ∈ xs.toList, TransOK env a) :
    ∀ E ys zs, allHaveType env E xs = true → allHaveType env E ys = true →
      allHaveType env E zs = true → xs.slen = ys.slen → ys.slen = zs.slen →
      nanFree xs = true → nanFree ys = true → nanFree zs = true →
      Trans3 (cmpSeq xs ys) (cmpSeq ys zs) (cmpSeq xs zs) := by
  induction xs with
  | scons a r _ ihr =>
    intro E ys zs hx hy hz l1 l2 nx ny nz
    rcases allHaveType_inv hy with rfl | ⟨b, s, rfl, hb, hs⟩
    · simp [slen] at l1
    rcases allHaveType_inv hz with rfl | ⟨c, t, rfl, hc, ht⟩
    · simp [slen] at l2
    simp only [allHaveType_scons, Bool.and_eq_true] at hx
    simp only [nanFree, Bool.and_eq_true] at nx ny nz
    simp only [cmpSeq_scons]
    exact Trans3.lex (tri_cmpVal ..) (tri_cmpVal ..)
      (ih a (by simp [toList]) E b c hx.1 hb hc nx.1 ny.1 nz.1)
      (fun _ _ => ihr (fun a' ha' => ih a' (by simp [toList, ha'])) E s t hx.2 hs ht
        (by simpa [slen] using l1) (by simpa [slen] using l2) nx.2 ny.2 nz.2)
  | snil =>
    intro E ys zs _ hy hz l1 l2 _ _ _
    rcases allHaveType_inv hy with rfl | ⟨b, s, rfl, hb, hs⟩
    · rcases allHaveType_inv hz with rfl | ⟨c, t, rfl, hc, ht⟩
      · simp only [cmpSeq_snil]; exact Trans3.zero
      · simp [slen] at l2
    · simp [slen] at l1
  | _ =>
    intro E ys zs hx
    rcases allHaveType_inv hx with h | ⟨_, _, h, _⟩ <;> cases h

theorem cmpSeq_trans3_fields {env : Env} (xs : Val) (ih : ∀ a ∈ xs.toList, TransOK env a) :
    ∀ fs ys zs, fieldsHaveType env fs xs = true → fieldsHaveType env fs ys = true →
      fieldsHaveType env fs zs = true →
      nanFree xs = true → nanFree ys = true → nanFree zs = true →
      Trans3 (cmpSeq xs ys) (cmpSeq ys zs) (cmpSeq xs zs) := by
  induction xs with
  | scons a r _ ihr =>
    intro fs ys zs hx hy hz nx ny nz
    rcases fieldsHaveType_inv hx with ⟨_, h⟩ | ⟨F, rest, a', r', rfl, h, ha, hr⟩
    · cases h
    cases h
    rcases fieldsHaveType_inv hy with ⟨h, _⟩ | ⟨F', rest', b, s, h, rfl, hb, hs⟩
    · cases h
    cases h
    rcases fieldsHaveType_inv hz with ⟨h, _⟩ | ⟨F', rest', c, t, h, rfl, hc, ht⟩
    · cases h
    cases h
    simp only [nanFree, Bool.and_eq_true] at nx ny nz
    simp only [cmpSeq_scons]
    exact Trans3.lex (tri_cmpVal ..) (tri_cmpVal ..)
      (ih a (by simp [toList]) F b c ha hb hc nx.1 ny.1 nz.1)
      (fun _ _ => ihr (fun a' ha' => ih a' (by simp [toList, ha'])) rest s t hr hs ht
        nx.2 ny.2 nz.2)
  | snil =>
    intro fs ys zs hx hy hz _ _ _
    rcases fieldsHaveType_inv hx with ⟨rfl, _⟩ | ⟨_, _, _, _, _, h, _⟩
    · rcases fieldsHaveType_inv hy with ⟨_, rfl⟩ | ⟨_, _, _, _, h, _⟩
      · rcases fieldsHaveType_inv hz with ⟨_, rfl⟩ | ⟨_, _, _, _, h, _⟩
        · simp only [cmpSeq_snil]; exact Trans3.zero
        · cases h
      · cases h
    · cases h
  | _ =>
    intro fs ys zs hx
    rcases fieldsHaveType_inv hx with ⟨_, h⟩ | ⟨_, _, _, _, _, h, _⟩ <;> cases h

/-- on keys of one key set the head comparison of `cmpEntries` is "key, then value" -/
theorem entryHead_eq_lex {P : Val → Prop} (hP : KeySet P) {k k' : Val} (hk : P k) (hk' : P k')
    (c : Int) : (if goEq k k' = true then c else cmpKey k k') = lex (cmpKey k k') c := by
  by_cases h : goEq k k' = true
  · simp [h, (hP.eq_iff hk hk').2 h]
  · have : cmpKey k k' ≠ 0 := fun h0 => h ((hP.eq_iff hk hk').1 h0)
    simp [h, lex, this]

theorem cmpEntries_trans3 {env : Env} (hf : env.flagsOk = true) {K V : Ty}
    (hc : canEqual env K = true) (xs : Val) (ih : ∀ e ∈ xs.toList, TransOK env (evalue e)) :
    ∀ ys zs, entriesHaveType env K V xs = true → entriesHaveType env K V ys = true →
      entriesHaveType env K V zs = true → xs.slen = ys.slen → ys.slen = zs.slen →
      nanFree xs = true → nanFree ys = true → nanFree zs = true →
      Trans3 (cmpEntries xs ys) (cmpEntries ys zs) (cmpEntries xs zs) := by
  have hP := keySet_typed hf hc
  induction xs with
  | scons e r _ ihr =>
    intro ys zs hx hy hz l1 l2 nx ny nz
    rcases entriesHaveType_inv hx with h | ⟨k1, v1, r', h, hk1, hv1, hr⟩
    · cases h
    cases h
    rcases entriesHaveType_inv hy with rfl | ⟨k2, v2, s, rfl, hk2, hv2, hs⟩
    · simp [slen] at l1
    rcases entriesHaveType_inv hz with rfl | ⟨k3, v3, t, rfl, hk3, hv3, ht⟩
    · simp [slen] at l2
    simp only [nanFree, Bool.and_eq_true] at nx ny nz
    have p1 : hasType env K k1 = true ∧ nanFree k1 = true := ⟨hk1, nx.1.1⟩
    have p2 : hasType env K k2 = true ∧ nanFree k2 = true := ⟨hk2, ny.1.1⟩
    have p3 : hasType env K k3 = true ∧ nanFree k3 = true := ⟨hk3, nz.1.1⟩
    have ihv := ih (.pair k1 v1) (by simp [toList]) V v2 v3 hv1 hv2 hv3 nx.1.2 ny.1.2 nz.1.2
    simp only [evalue] at ihv
    simp only [cmpEntries_scons, entryHead_eq_lex hP p1 p2, entryHead_eq_lex hP p2 p3,
      entryHead_eq_lex hP p1 p3]
    refine Trans3.lex ((tri_cmpKey ..).lex (tri_cmpVal ..)) ((tri_cmpKey ..).lex (tri_cmpVal ..))
      (Trans3.lex (tri_cmpKey ..) (tri_cmpKey ..) (hP.trans3 p1 p2 p3) (fun _ _ => ihv))
      (fun _ _ => ihr (fun a' ha' => ih a' (by simp [toList, ha'])) s t hr hs ht
        (by simpa [slen] using l1) (by simpa [slen] using l2) nx.2 ny.2 nz.2)
  | snil =>
    intro ys zs _ hy hz l1 l2 _ _ _
    rcases entriesHaveType_inv hy with rfl | ⟨_, _, _, rfl, _⟩
    · rcases entriesHaveType_inv hz with rfl | ⟨_, _, _, rfl, _⟩
      · simp only [cmpEntries_snil]; exact Trans3.zero
      · simp [slen] at l2
    · simp [slen] at l1
  | _ =>
    intro ys zs hx
    rcases entriesHaveType_inv hx with h | ⟨_, _, _, h, _⟩ <;> cases h

theorem trans3_len (l1 l2 l3 : Nat) (t1 t2 t3 : Int)
    (T : l1 = l2 → l2 = l3 → Trans3 t1 t2 t3) :
    Trans3 (if (l1 != l2) = true then (if l1 < l2 then -1 else 1) else t1)
      (if (l2 != l3) = true then (if l2 < l3 then -1 else 1) else t2)
      (if (l1 != l3) = true then (if l1 < l3 then -1 else 1) else t3) := by
  rw [len_lex, len_lex, len_lex]
  refine Trans3.lex (tri_cmpInt ..) (tri_cmpInt ..) (trans3_cmpInt ..) (fun h1 h2 => T ?_ ?_)
  · have := cmpInt_eq_zero.1 h1; omega
  · have := cmpInt_eq_zero.1 h2; omega

theorem trans3_nil_nil_nil : Trans3 0 0 0 := Trans3.zero
theorem trans3_nil_nil_x : Trans3 0 (-1) (-1) := by constructor <;> simp
theorem trans3_nil_x_nil : Trans3 (-1) 1 0 := by constructor <;> simp
theorem trans3_nil_x_x (c : Int) : Trans3 (-1) c (-1) := by constructor <;> simp
theorem trans3_x_nil_nil : Trans3 1 0 1 := by constructor <;> simp
theorem trans3_x_nil_x (c : Int) : Trans3 1 (-1) c := by constructor <;> simp
theorem trans3_x_x_nil (c : Int) : Trans3 c 1 1 := by constructor <;> simp

/-- **transitivity** of the specification on NaN-free values of one type -/
theorem transOK {env : Env} (hf : env.flagsOk = true) (x : Val) : TransOK env x := by
  induction hn : sizeOf x using Nat.strongRecOn generalizing x with
  | _ n IH =>
  subst hn
  have ih : ∀ a, sizeOf a < sizeOf x → TransOK env a := fun a ha => IH _ ha a rfl
  intro T y z hx hy hz nx ny nz
  rcases hasType_false_of_under hx with ⟨b, hU⟩ | ⟨R, hU⟩ | ⟨E, hU⟩ | ⟨n, E, hU⟩ | ⟨fs, hU⟩ |
      ⟨K, V, hU⟩
  · -- basic
    rw [hasType_basic hU] at hx hy hz
    rw [cmpVal_eq_cmpKey_of_basic hx hy, cmpVal_eq_cmpKey_of_basic hy hz,
      cmpVal_eq_cmpKey_of_basic hx hz]
    exact trans3_cmpKey (keyLike_of_basicHasType hx hy) (keyLike_of_basicHasType hy hz) nx ny nz
  · -- pointer
    rcases hasType_ptr hU hx with rfl | ⟨a, v, rfl, hv⟩ <;>
      rcases hasType_ptr hU hy with rfl | ⟨b, w, rfl, hw⟩ <;>
      rcases hasType_ptr hU hz with rfl | ⟨c, u, rfl, hu⟩
    · simp only [cmpVal_nil_nil]; exact trans3_nil_nil_nil
    · simp only [cmpVal_nil_nil, cmpVal_nil_left, ne_eq, reduceCtorEq, not_false_eq_true]
      exact trans3_nil_nil_x
    · simp only [cmpVal_nil_nil, cmpVal_nil_left, cmpVal_nil_right, ne_eq, reduceCtorEq,
        not_false_eq_true]
      exact trans3_nil_x_nil
    · simp only [cmpVal_nil_left, ne_eq, reduceCtorEq, not_false_eq_true]
      exact trans3_nil_x_x _
    · simp only [cmpVal_nil_nil, cmpVal_nil_right, ne_eq, reduceCtorEq, not_false_eq_true]
      exact trans3_x_nil_nil
    · simp only [cmpVal_nil_left, cmpVal_nil_right, ne_eq, reduceCtorEq, not_false_eq_true]
      exact trans3_x_nil_x _
    · simp only [cmpVal_nil_right, ne_eq, reduceCtorEq, not_false_eq_true]
      exact trans3_x_x_nil _
    · simp only [cmpVal_ptr]
      exact ih v (by simp; omega) R w u hv hw hu (by simpa [nanFree] using nx)
        (by simpa [nanFree] using ny) (by simpa [nanFree] using nz)
  · -- slice
    rcases hasType_slice hU hx with rfl | ⟨a, sp, xs, rfl, hxs⟩ <;>
      rcases hasType_slice hU hy with rfl | ⟨b, sp', ys, rfl, hys⟩ <;>
      rcases hasType_slice hU hz with rfl | ⟨c, sp'', zs, rfl, hzs⟩
    · simp only [cmpVal_nil_nil]; exact trans3_nil_nil_nil
    · simp only [cmpVal_nil_nil, cmpVal_nil_left, ne_eq, reduceCtorEq, not_false_eq_true]
      exact trans3_nil_nil_x
    · simp only [cmpVal_nil_nil, cmpVal_nil_left, cmpVal_nil_right, ne_eq, reduceCtorEq,
        not_false_eq_true]
      exact trans3_nil_x_nil
    · simp only [cmpVal_nil_left, ne_eq, reduceCtorEq, not_false_eq_true]
      exact trans3_nil_x_x _
    · simp only [cmpVal_nil_nil, cmpVal_nil_right, ne_eq, reduceCtorEq, not_false_eq_true]
      exact trans3_x_nil_nil
    · simp only [cmpVal_nil_left, cmpVal_nil_right, ne_eq, reduceCtorEq, not_false_eq_true]
      exact trans3_x_nil_x _
    · simp only [cmpVal_nil_right, ne_eq, reduceCtorEq, not_false_eq_true]
      exact trans3_x_x_nil _
    · simp only [cmpVal_slice]
      refine trans3_len _ _ _ _ _ _ (fun l1 l2 =>
        cmpSeq_trans3_elems xs (fun a ha => ih a ?_) E ys zs hxs hys hzs l1 l2
          (by simpa [nanFree] using nx) (by simpa [nanFree] using ny)
          (by simpa [nanFree] using nz))
      have := sizeOf_lt_of_mem ha; simp; omega
  · -- array
    obtain ⟨xs, rfl, hlx, hxs⟩ := (hasType_array hU _).1 hx
    obtain ⟨ys, rfl, hly, hys⟩ := (hasType_array hU _).1 hy
    obtain ⟨zs, rfl, hlz, hzs⟩ := (hasType_array hU _).1 hz
    simp only [cmpVal_arr]
    refine cmpSeq_trans3_elems xs (fun a ha => ih a ?_) E ys zs hxs hys hzs (by omega) (by omega)
      (by simpa [nanFree] using nx) (by simpa [nanFree] using ny) (by simpa [nanFree] using nz)
    have := sizeOf_lt_of_mem ha; simp; omega
  · -- struct
    obtain ⟨xs, rfl, hxs⟩ := (hasType_struct hU _).1 hx
    obtain ⟨ys, rfl, hys⟩ := (hasType_struct hU _).1 hy
    obtain ⟨zs, rfl, hzs⟩ := (hasType_struct hU _).1 hz
    simp only [cmpVal_struct]
    refine cmpSeq_trans3_fields xs (fun a ha => ih a ?_) fs ys zs hxs hys hzs
      (by simpa [nanFree] using nx) (by simpa [nanFree] using ny) (by simpa [nanFree] using nz)
    have := sizeOf_lt_of_mem ha; simp; omega
  · -- map
    rcases hasType_map hU hx with rfl | ⟨a, xs, rfl, hc, hxs, _⟩ <;>
      rcases hasType_map hU hy with rfl | ⟨b, ys, rfl, _, hys, _⟩ <;>
      rcases hasType_map hU hz with rfl | ⟨c, zs, rfl, _, hzs, _⟩
    · simp only [cmpVal_nil_nil]; exact trans3_nil_nil_nil
    · simp only [cmpVal_nil_nil, cmpVal_nil_left, ne_eq, reduceCtorEq, not_false_eq_true]
      exact trans3_nil_nil_x
    · simp only [cmpVal_nil_nil, cmpVal_nil_left, cmpVal_nil_right, ne_eq, reduceCtorEq,
        not_false_eq_true]
      exact trans3_nil_x_nil
    · simp only [cmpVal_nil_left, ne_eq, reduceCtorEq, not_false_eq_true]
      exact trans3_nil_x_x _
    · simp only [cmpVal_nil_nil, cmpVal_nil_right, ne_eq, reduceCtorEq, not_false_eq_true]
      exact trans3_x_nil_nil
    · simp only [cmpVal_nil_left, cmpVal_nil_right, ne_eq, reduceCtorEq, not_false_eq_true]
      exact trans3_x_nil_x _
    · simp only [cmpVal_nil_right, ne_eq, reduceCtorEq, not_false_eq_true]
      exact trans3_x_x_nil _
    · simp only [cmpVal_map]
      simp only [nanFree] at nx ny nz
      refine trans3_len _ _ _ _ _ _ (fun l1 l2 =>
        cmpEntries_trans3 hf hc (sortEntries xs) (fun e he => ih _ ?_) (sortEntries ys)
          (sortEntries zs) (entriesHaveType_sortEntries hxs) (entriesHaveType_sortEntries hys)
          (entriesHaveType_sortEntries hzs) (by simp only [slen_sortEntries]; exact l1)
          (by simp only [slen_sortEntries]; exact l2)
          (nanFree_sortEntries (isEntries_of_entriesHaveType hxs) nx)
          (nanFree_sortEntries (isEntries_of_entriesHaveType hys) ny)
          (nanFree_sortEntries (isEntries_of_entriesHaveType hzs) nz))
      have := sizeOf_lt_of_mem (mem_sortEntries.1 he)
      have := sizeOf_evalue_le e
      simp; omega

end Cmp
end Goderive
