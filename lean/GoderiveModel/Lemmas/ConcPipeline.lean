/-
K/Pipeline = stage-1 forwarder ∥ K/JoinWG (chan-of-chan form): projection onto the JoinWG component
(all JoinWG invariants transfer), the linking invariant of the middle channel, progress.
-/
import GoderiveModel.K.Pipeline
import GoderiveModel.Lemmas.ConcJoinWG

namespace Goderive.K.Pipeline

/-- every step of the product leaves the JoinWG component unchanged or is a JoinWG step -/
theorem step_proj (c : Cfg) (s s' : State) (l : Label) (hs : step c s l = some s') :
    s'.j = s.j ∨ ∃ l', JoinWG.step (jcfg c) s.j l' = some s'.j := by
  cases l <;> simp only [step] at hs <;> (repeat' split at hs) <;> (try cases hs) <;>
    (first
      | exact Or.inl rfl
      | (next h => exact Or.inr ⟨_, h⟩))

/-- the JoinWG component of a reachable state of the product is a reachable state of JoinWG -/
theorem proj_reachable (c : Cfg) (s : State) (h : (lts c).Reachable s) :
    (JoinWG.lts (jcfg c)).Reachable s.j := by
  induction h with
  | init => exact Lts.Reachable.init
  | @step s1 s2 l _ hst ih =>
    rcases step_proj c s1 s2 l hst with h | ⟨l', h⟩
    · rw [h]; exact ih
    · exact Lts.Reachable.step ih h

/-- how the stage-1 forwarder and the join stage are linked through the middle channel -/
structure Link (c : Cfg) (s : State) : Prop where
  l1 : s.created + s.bbuf + s.brem = c.n
  l2 : s.created + s.j.orem = c.n + (if s.mpc = .send then 1 else 0)
  l3 : s.bclosed = true → s.brem = 0
  l4 : (s.mpc = .closing ∨ s.mpc = .done) → s.bclosed = true ∧ s.bbuf = 0
  l5 : s.j.oclosed = true ↔ s.mpc = .done

def PInv (c : Cfg) (s : State) : Prop := Link c s ∧ JoinWG.Inv (jcfg c) s.j

theorem pinv_init (c : Cfg) : PInv c (init c) := by
  refine ⟨⟨?_, ?_, ?_, ?_, ?_⟩, JoinWG.inv_init (jcfg c)⟩ <;> simp [init, JoinWG.init, jcfg]

theorem allowed_ne (s : State) (l : JoinWG.Label) (h : allowed s l = true) : l ≠ .oSend ∧ l ≠ .oClose := by
  cases l <;> simp [allowed] at h ⊢

theorem pinv_step (c : Cfg) (s s' : State) (l : Label) (hi : PInv c s) (hs : step c s l = some s') :
    PInv c s' := by
  obtain ⟨hl, hj⟩ := hi
  have hnp := hj.1.np
  cases l with
  | bSend =>
    simp only [step, hnp, Bool.false_eq_true, if_false] at hs
    split at hs
    · next hc =>
      split at hs
      · cases hs
        refine ⟨⟨?_, hl.l2, ?_, ?_, hl.l5⟩, hj⟩
        · have := hl.l1; show s.created + (s.bbuf + 1) + (s.brem - 1) = c.n; omega
        · intro h; rw [hc.2] at h; cases h
        · intro h; have := (hl.l4 h).1; rw [hc.2] at this; cases this
      · split at hs
        · next hjn =>
          cases hs
          have h2 := hl.l2
          simp only [hjn.2] at h2
          refine ⟨⟨?_, ?_, ?_, ?_, ?_⟩, hj⟩
          · have := hl.l1; show s.created + 1 + s.bbuf + (s.brem - 1) = c.n; omega
          · show s.created + 1 + s.j.orem = c.n + (if MPc.send = MPc.send then 1 else 0)
            simp at h2 ⊢; omega
          · intro h; rw [hc.2] at h; cases h
          · intro h; rcases h with h | h <;> cases h
          · have := hl.l5; rw [hjn.2] at this; simpa using this
        · cases hs
    · cases hs
  | bClose =>
    simp only [step, hnp, Bool.false_eq_true, if_false] at hs
    split at hs
    · next hc =>
      cases hs
      exact ⟨⟨hl.l1, hl.l2, fun _ => hc.1, fun h => ⟨rfl, (hl.l4 h).2⟩, hl.l5⟩, hj⟩
    · cases hs
  | mRecv =>
    simp only [step, hnp, Bool.false_eq_true, if_false] at hs
    split at hs
    · next hpc =>
      have h2 := hl.l2
      simp only [hpc] at h2
      have h5 := hl.l5
      rw [hpc] at h5
      split at hs
      · next hb =>
        cases hs
        refine ⟨⟨?_, ?_, hl.l3, ?_, ?_⟩, hj⟩
        · have := hl.l1; show s.created + 1 + (s.bbuf - 1) + s.brem = c.n; omega
        · show s.created + 1 + s.j.orem = c.n + (if MPc.send = MPc.send then 1 else 0)
          simp at h2 ⊢; omega
        · intro h; rcases h with h | h <;> cases h
        · simpa using h5
      · next hb =>
        split at hs
        · next hcl =>
          cases hs
          refine ⟨⟨hl.l1, ?_, hl.l3, ?_, ?_⟩, hj⟩
          · show s.created + s.j.orem = c.n + (if MPc.closing = MPc.send then 1 else 0)
            simp at h2 ⊢; omega
          · intro _; exact ⟨hcl, by show s.bbuf = 0; omega⟩
          · simpa using h5
        · cases hs
    · cases hs
  | mSend =>
    simp only [step, hnp, Bool.false_eq_true, if_false] at hs
    split at hs
    · next hpc =>
      split at hs
      · next j' hst =>
        cases hs
        obtain ⟨hpos, hrem, hcl, _⟩ := JoinWG.step_oSend (jcfg c) s.j j' hst
        have h2 := hl.l2
        simp only [hpc] at h2
        have h5 := hl.l5
        rw [hpc] at h5
        refine ⟨⟨hl.l1, ?_, hl.l3, ?_, ?_⟩, JoinWG.inv_step (jcfg c) s.j j' _ hj hst⟩
        · show s.created + j'.orem = c.n + (if MPc.recv = MPc.send then 1 else 0)
          simp at h2 ⊢; omega
        · intro h; rcases h with h | h <;> cases h
        · show j'.oclosed = true ↔ MPc.recv = MPc.done
          rw [hcl]; simpa using h5
      · cases hs
    · cases hs
  | mClose =>
    simp only [step, hnp, Bool.false_eq_true, if_false] at hs
    split at hs
    · next hpc =>
      split at hs
      · next j' hst =>
        cases hs
        obtain ⟨hrem0, hrem, hcl, _⟩ := JoinWG.step_oClose (jcfg c) s.j j' hst
        have h2 := hl.l2
        simp only [hpc] at h2
        refine ⟨⟨hl.l1, ?_, hl.l3, ?_, ?_⟩, JoinWG.inv_step (jcfg c) s.j j' _ hj hst⟩
        · show s.created + j'.orem = c.n + (if MPc.done = MPc.send then 1 else 0)
          simp at h2 ⊢; omega
        · intro _; exact hl.l4 (Or.inl hpc)
        · show j'.oclosed = true ↔ MPc.done = MPc.done
          simp [hcl]
      · cases hs
    · cases hs
  | j l =>
    simp only [step, hnp, Bool.false_eq_true, if_false] at hs
    split at hs
    · next hal =>
      split at hs
      · next j' hst =>
        cases hs
        obtain ⟨hn1, hn2⟩ := allowed_ne s l hal
        obtain ⟨hrem, hcl⟩ := JoinWG.step_frame (jcfg c) s.j j' l hn1 hn2 hst
        refine ⟨⟨hl.l1, ?_, hl.l3, hl.l4, ?_⟩, JoinWG.inv_step (jcfg c) s.j j' l hj hst⟩
        · show s.created + j'.orem = _; rw [hrem]; exact hl.l2
        · show j'.oclosed = true ↔ _; rw [hcl]; exact hl.l5
      · cases hs
    · cases hs

theorem pinv_reachable (c : Cfg) (s : State) (h : (lts c).Reachable s) : PInv c s :=
  Lts.invariant (lts c) (PInv c) (pinv_init c) (fun s l s' hi hs => pinv_step c s s' l hi hs) s h

theorem lift_enabled (c : Cfg) (s : State) (l : JoinWG.Label) (hnp : s.j.panicked = false)
    (hal : allowed s l = true) (h : (JoinWG.step (jcfg c) s.j l).isSome = true) :
    (step c s (.j l)).isSome = true := by
  cases hst : JoinWG.step (jcfg c) s.j l with
  | none => rw [hst] at h; cases h
  | some j' => simp [step, hnp, hal, hst]

theorem allowed_about (s : State) (l : JoinWG.Label) (i : Nat) (h : JoinWG.aboutInput l i) (hi : i < s.created) :
    allowed s l = true := by
  rcases h with h | h | h | h | h <;> subst h <;> simp [allowed, hi]

theorem progress (c : Cfg) (s : State) (hi : PInv c s) (hns : s.j.seen = false) : (lts c).Enabled s := by
  obtain ⟨hl, hw, hsl⟩ := hi
  have hnp := hw.np
  have en : ∀ l, (step c s l).isSome = true → (lts c).Enabled s :=
    fun l h => Lts.enabled_of_isSome (lts c) s l h
  have enj : ∀ l, allowed s l = true → (JoinWG.step (jcfg c) s.j l).isSome = true → (lts c).Enabled s :=
    fun l hal h => en (.j l) (lift_enabled c s l hnp hal h)
  cases hpc : s.j.pc with
  | add => exact enj .spAdd rfl (by simp [JoinWG.step, hnp, hpc])
  | go => exact enj .spGo rfl (by simp [JoinWG.step, hnp, hpc, jcfg])
  | close =>
    by_cases hoc : s.j.outClosed = true
    · exact enj .spClose rfl (by simp [JoinWG.step, hnp, hpc, hoc])
    · exact enj .spClose rfl (by simp [JoinWG.step, hnp, hpc, hoc])
  | fin =>
    have hoc : s.j.outClosed = true := hw.outCl.mpr hpc
    exact enj .cSeeClose rfl (by simp [JoinWG.step, hnp, hns, hoc])
  | wait =>
    by_cases h0 : s.j.wg = 0
    · exact enj .spWait rfl (by simp [JoinWG.step, hnp, hpc, h0])
    · have hwg := hw.wgc
      simp only [hpc] at hwg
      have hpos : 0 < count (fun i => JoinWG.live (s.j.st i)) (jcfg c).n := by simp at hwg; omega
      obtain ⟨i, hin, hlv⟩ := count_pos_exists _ _ hpos
      have hoc : s.j.outClosed = false := by
        cases h : s.j.outClosed
        · rfl
        · have := hw.outCl.mp h; rw [hpc] at this; cases this
      obtain ⟨l, hab, hen⟩ := JoinWG.live_can_move' (jcfg c) s.j hw hns hoc i hin hlv
      have hik : i < s.j.k := by
        have hna : s.j.st i ≠ .absent := by intro h; rw [h] at hlv; cases hlv
        have := hw.abs i
        by_cases hki : s.j.k ≤ i
        · exact absurd (this.mpr hki) hna
        · omega
      have hkc : s.j.k ≤ s.created := by
        have h1 := hw.outer
        simp only [hpc] at h1
        have h2 := hl.l2
        simp at h1
        have : (jcfg c).n = c.n := rfl
        split at h2 <;> omega
      exact enj l (allowed_about s l i hab (by omega)) hen
  | next =>
    by_cases hen : 0 < s.j.obuf ∨ s.j.oclosed = true
    · exact enj .spNext rfl (by simp [JoinWG.step, hnp, hpc, hen, jcfg])
    · have hb : s.j.obuf = 0 := by
        cases h : s.j.obuf with
        | zero => rfl
        | succ m => exact absurd (Or.inl (by omega)) hen
      have hcl : s.j.oclosed = false := by
        cases h : s.j.oclosed
        · rfl
        · exact absurd (Or.inr h) hen
      have h2 := hl.l2
      have h1 := hl.l1
      cases hm : s.mpc with
      | done => have := hl.l5.mpr hm; rw [hcl] at this; cases this
      | send =>
        simp only [hm] at h2
        have hrem : 0 < s.j.orem := by simp at h2; omega
        by_cases hcap : 0 < c.bcap
        · exact en .mSend (by simp [step, hnp, hm, JoinWG.step, jcfg, hrem, hcl, hb, hcap])
        · have : c.bcap = 0 := by omega
          exact en .mSend (by simp [step, hnp, hm, JoinWG.step, jcfg, hrem, hcl, hb, this, hpc])
      | closing =>
        simp only [hm] at h2
        obtain ⟨hbc, hbb⟩ := hl.l4 (Or.inl hm)
        have hbr := hl.l3 hbc
        have hrem : s.j.orem = 0 := by simp at h2; omega
        exact en .mClose (by simp [step, hnp, hm, JoinWG.step, jcfg, hrem, hcl])
      | recv =>
        by_cases hbb : 0 < s.bbuf
        · exact en .mRecv (by simp [step, hnp, hm, hbb])
        · by_cases hbc : s.bclosed = true
          · exact en .mRecv (by simp [step, hnp, hm, hbb, hbc])
          · by_cases hbr : 0 < s.brem
            · by_cases hcap : 0 < c.bcap
              · exact en .bSend (by
                  have : s.bbuf < c.bcap := by omega
                  simp [step, hnp, hbr, hbc, this])
              · have h0 : c.bcap = 0 := by omega
                exact en .bSend (by simp [step, hnp, hbr, hbc, h0, hm])
            · have : s.brem = 0 := by omega
              exact en .bClose (by simp [step, hnp, this, hbc])

def mW : MPc → Nat
  | .recv => 2 | .send => 3 | .closing => 1 | .done => 0

/-- every step from a state satisfying the invariant strictly decreases this measure -/
def measure (c : Cfg) (s : State) : Nat :=
  JoinWG.measure (jcfg c) s.j + 3 * s.brem + 2 * s.bbuf + mW s.mpc + (if s.bclosed then 0 else 1)

theorem measure_decreases (c : Cfg) (s s' : State) (l : Label) (hi : PInv c s)
    (hs : step c s l = some s') : measure c s' < measure c s := by
  obtain ⟨hl, hj⟩ := hi
  have hnp := hj.1.np
  have eR : mW MPc.recv = 2 := rfl
  have eS : mW MPc.send = 3 := rfl
  have eC : mW MPc.closing = 1 := rfl
  have eD : mW MPc.done = 0 := rfl
  cases l with
  | bSend =>
    simp only [step, hnp, Bool.false_eq_true, if_false] at hs
    split at hs
    · next hc =>
      obtain ⟨hrem, _⟩ := hc
      split at hs
      · cases hs; simp only [measure]; omega
      · split at hs
        · next hjn => cases hs; simp only [measure, hjn.2, eR, eS]; omega
        · cases hs
    · cases hs
  | bClose =>
    simp only [step, hnp, Bool.false_eq_true, if_false] at hs
    split at hs
    · next hc => cases hs; simp only [measure, hc.2, Bool.false_eq_true, if_false, if_true]; omega
    · cases hs
  | mRecv =>
    simp only [step, hnp, Bool.false_eq_true, if_false] at hs
    split at hs
    · next hpc =>
      split at hs
      · cases hs; simp only [measure, hpc, eR, eS]; omega
      · split at hs
        · cases hs; simp only [measure, hpc, eR, eC]; omega
        · cases hs
    · cases hs
  | mSend =>
    simp only [step, hnp, Bool.false_eq_true, if_false] at hs
    split at hs
    · next hpc =>
      split at hs
      · next j' hst =>
        cases hs
        have := JoinWG.measure_decreases (jcfg c) s.j j' _ hj hst
        simp only [measure, hpc, eR, eS]; omega
      · cases hs
    · cases hs
  | mClose =>
    simp only [step, hnp, Bool.false_eq_true, if_false] at hs
    split at hs
    · next hpc =>
      split at hs
      · next j' hst =>
        cases hs
        have := JoinWG.measure_decreases (jcfg c) s.j j' _ hj hst
        simp only [measure, hpc, eC, eD]; omega
      · cases hs
    · cases hs
  | j l =>
    simp only [step, hnp, Bool.false_eq_true, if_false] at hs
    split at hs
    · split at hs
      · next j' hst =>
        cases hs
        have := JoinWG.measure_decreases (jcfg c) s.j j' _ hj hst
        simp only [measure]; omega
      · cases hs
    · cases hs

end Goderive.K.Pipeline
