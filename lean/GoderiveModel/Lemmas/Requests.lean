/-
Lemmas for `G/Requests` (C01): the coding of keys as work-list keys, the correspondence between the
work-list reachability and `ReachK`, and the closure of the key universe under `requests`.
-/
import GoderiveModel.G.Requests
import GoderiveModel.Lemmas.Worklist

namespace Goderive.G.Requests
open Goderive Goderive.G.Worklist

/-! ### positions -/

theorem getElem?_pos {α : Type} [DecidableEq α] {a : α} {l : List α} (h : a ∈ l) :
    l[pos a l]? = some a := by
  induction l with
  | nil => cases h
  | cons b l ih =>
    unfold pos
    by_cases hab : a = b
    · simp [hab]
    · have : a ∈ l := by
        cases h with
        | head => exact absurd rfl hab
        | tail _ h => exact h
      simp [hab, ih this]

theorem dec_enc {U : List Key} {k : Key} (h : k ∈ U) : dec U (enc U k) = some k := by
  simp [dec, enc, getElem?_pos h]

theorem filterMap_nodup_of_injOn {α β : Type} {f : α → Option β} {l : List α}
    (hinj : ∀ a ∈ l, ∀ a' ∈ l, ∀ b, f a = some b → f a' = some b → a = a') (h : l.Nodup) :
    (l.filterMap f).Nodup := by
  induction l with
  | nil => simp
  | cons a l ih =>
    have hnd := List.nodup_cons.1 h
    have ih' := ih (fun x hx y hy => hinj x (List.mem_cons_of_mem _ hx) y (List.mem_cons_of_mem _ hy)) hnd.2
    cases hfa : f a with
    | none => simpa [List.filterMap_cons, hfa] using ih'
    | some b =>
      rw [List.filterMap_cons, hfa]
      refine List.nodup_cons.2 ⟨fun hb => ?_, ih'⟩
      obtain ⟨a', ha', hfa'⟩ := List.mem_filterMap.1 hb
      have := hinj a List.mem_cons_self a' (List.mem_cons_of_mem _ ha') b hfa hfa'
      exact hnd.1 (this ▸ ha')

/-! ### work-list reachability = `ReachK` -/

/-- the universe is closed under the requests -/
def ClosedU (env : Env) (U : List Key) : Prop := ∀ k ∈ U, ∀ r ∈ reqK env k, r ∈ U

variable {env : Env} {U init : List Key}

theorem reqC_enc {k : Key} (h : k ∈ U) : reqC env U (enc U k) = (reqK env k).map (enc U) := by
  simp [reqC, dec_enc h]

theorem reachK_mem (hc : ClosedU env U) (hi : ∀ k ∈ init, k ∈ U) {k : Key} (h : ReachK env init k) : k ∈ U := by
  induction h with
  | init hk => exact hi _ hk
  | step _ hr ih => exact hc _ ih _ hr

theorem reach_enc (hc : ClosedU env U) (hi : ∀ k ∈ init, k ∈ U) {k : Key} (h : ReachK env init k) :
    Reach (reqC env U) (init.map (enc U)) (enc U k) := by
  induction h with
  | init hk => exact .init (List.mem_map.2 ⟨_, hk, rfl⟩)
  | @step k r hk hr ih =>
    refine .step ih ?_
    rw [reqC_enc (reachK_mem hc hi hk)]
    exact List.mem_map.2 ⟨_, hr, rfl⟩

theorem reach_dec (hc : ClosedU env U) (hi : ∀ k ∈ init, k ∈ U) {c : Worklist.Key}
    (h : Reach (reqC env U) (init.map (enc U)) c) : ∃ k, ReachK env init k ∧ c = enc U k := by
  induction h with
  | init hc' =>
    obtain ⟨k, hk, hek⟩ := List.mem_map.1 hc'
    exact ⟨k, .init hk, hek.symm⟩
  | @step c r _ hr ih =>
    obtain ⟨k, hk, rfl⟩ := ih
    rw [reqC_enc (reachK_mem hc hi hk)] at hr
    obtain ⟨r', hr', rfl⟩ := List.mem_map.1 hr
    exact ⟨r', .step hk hr', rfl⟩

theorem reqC_bound (c r : Worklist.Key) (h : r ∈ reqC env U c) : r.1 < numPlugins := by
  unfold reqC at h
  split at h
  · obtain ⟨k, _, rfl⟩ := List.mem_map.1 h
    exact Plugin.idx_lt _
  · cases h

/-! ### the requested types stay inside a subterm-closed set -/

/-- `S` contains the parts of its members and the underlying type of every declaration -/
structure ClosedS (env : Env) (S : List Ty) : Prop where
  fnil : Ty.fnil ∈ S
  ptr : ∀ {a}, Ty.ptr a ∈ S → a ∈ S
  slice : ∀ {a}, Ty.slice a ∈ S → a ∈ S
  array : ∀ {n a}, Ty.array n a ∈ S → a ∈ S
  mapK : ∀ {k v}, Ty.map k v ∈ S → k ∈ S
  mapV : ∀ {k v}, Ty.map k v ∈ S → v ∈ S
  struct : ∀ {fs}, Ty.struct fs ∈ S → fs ∈ S
  fconsH : ∀ {a r}, Ty.fcons a r ∈ S → a ∈ S
  fconsT : ∀ {a r}, Ty.fcons a r ∈ S → r ∈ S
  decl : ∀ {i d}, env.decl? i = some d → d.under ∈ S

theorem ClosedS.under {env : Env} {S : List Ty} (h : ClosedS env S) {X : Ty} (hX : X ∈ S) : env.under X ∈ S := by
  cases X <;> try exact hX
  rename_i i
  simp only [Env.under]
  cases hd : env.decl? i with
  | none => exact h.fnil
  | some d => exact h.decl hd

theorem under_of_not_named {env : Env} {X : Ty} (h : X.isNamed = false) : env.under X = X := by
  cases X <;> first | rfl | simp [Ty.isNamed] at h

/-- pointer, slice or map: the kinds clone and deepcopy handle without taking an address -/
def isRef : Ty → Bool
  | .ptr _ => true
  | .slice _ => true
  | .map _ _ => true
  | _ => false

/-- a requested type is a member of `S`, a pointer to a member that is not itself a reference type, or the
slice of the key type of a map in `S` -/
def Good (env : Env) (S : List Ty) (Z : Ty) : Prop :=
  Z ∈ S ∨ (∃ y ∈ S, Z = .ptr y ∧ isRef (env.under y) = false) ∨ (∃ K V, Ty.map K V ∈ S ∧ Z = .slice K)

def AllGood (env : Env) (S : List Ty) (l : List Key) : Prop := ∀ r ∈ l, Good env S r.2

section good
variable {env : Env} {S : List Ty}

theorem allGood_nil : AllGood env S [] := fun _ h => by cases h

theorem allGood_append {a b : List Key} (ha : AllGood env S a) (hb : AllGood env S b) : AllGood env S (a ++ b) :=
  fun r hr => (List.mem_append.1 hr).elim (ha r) (hb r)

theorem allGood_self {p : Plugin} {F : Ty} (h : F ∈ S) : AllGood env S [(p, F)] := by
  intro r hr; simp at hr; subst hr; exact Or.inl h

theorem allGood_ptr {p : Plugin} {F : Ty} (h : F ∈ S) (hr : isRef (env.under F) = false) :
    AllGood env S [(p, .ptr F)] := by
  intro r hr'; simp at hr'; subst hr'; exact Or.inr (Or.inl ⟨F, h, rfl, hr⟩)

theorem allGood_ite {c : Prop} [Decidable c] {a b : List Key} (ha : AllGood env S a) (hb : AllGood env S b) :
    AllGood env S (if c then a else b) := by
  split <;> assumption

end good


section plugins
variable {env : Env} {S : List Ty}

theorem Equal.fieldShape_good (hS : ClosedS env S) : ∀ (U F : Ty), F ∈ S → U ∈ S → U = env.under F →
    AllGood env S (Equal.fieldShape env F U) := by
  intro U
  induction U with
  | ptr R ih =>
    intro F hF hU hUF
    unfold Equal.fieldShape
    have hR := hS.ptr hU
    split
    · split
      · exact allGood_nil
      · exact allGood_self hF
    · rename_i hn
      split
      · exact allGood_nil
      · exact ih R hR hR (under_of_not_named (by simpa using hn)).symm
  | struct fs =>
    intro F hF hU hUF
    unfold Equal.fieldShape
    split
    · exact allGood_ptr hF (by rw [← hUF]; rfl)
    · exact allGood_nil
  | slice E =>
    intro F hF hU hUF
    unfold Equal.fieldShape
    exact allGood_ite allGood_nil (allGood_self hF)
  | array n E => intro F hF _ _; unfold Equal.fieldShape; exact allGood_self hF
  | map K V => intro F hF _ _; unfold Equal.fieldShape; exact allGood_self hF
  | _ => intro F _ _ _; unfold Equal.fieldShape; exact allGood_nil

theorem Equal.field_good (hS : ClosedS env S) {F : Ty} (hF : F ∈ S) : AllGood env S (Equal.field env F) := by
  unfold Equal.field
  exact allGood_ite allGood_nil (allGood_ite allGood_nil (Equal.fieldShape_good hS _ F hF (hS.under hF) rfl))

theorem Equal.fieldsReq_good (hS : ClosedS env S) : ∀ fs : Ty, fs ∈ S → AllGood env S (Equal.fieldsReq env fs) := by
  intro fs
  induction fs with
  | fcons t r _ ihr =>
    intro h
    unfold Equal.fieldsReq
    exact allGood_append (Equal.field_good hS (hS.fconsH h)) (ihr (hS.fconsT h))
  | _ => intro _; unfold Equal.fieldsReq; exact allGood_nil

theorem Equal.stmtFlat_good (hS : ClosedS env S) {T U : Ty} (hT : T ∈ S) (hU : U ∈ S) (hUT : U = env.under T) :
    AllGood env S (Equal.stmtFlat env T U) := by
  unfold Equal.stmtFlat
  split
  · exact allGood_ite (allGood_ite allGood_nil (allGood_ptr hT (by rw [← hUT]; rfl)))
      (allGood_ite allGood_nil (Equal.fieldsReq_good hS _ (hS.struct hU)))
  · exact Equal.field_good hS (hS.slice hU)
  · exact Equal.field_good hS (hS.array hU)
  · exact Equal.field_good hS (hS.mapV hU)
  · exact allGood_nil

theorem Equal.stmtShape_good (hS : ClosedS env S) : ∀ (U T : Ty), T ∈ S → U ∈ S → U = env.under T →
    AllGood env S (Equal.stmtShape env T U) := by
  intro U
  induction U with
  | ptr R ih =>
    intro T hT hU hUT
    unfold Equal.stmtShape
    have hR := hS.ptr hU
    have hUR := hS.under hR
    split
    · rename_i fs h; rw [h] at hUR
      exact allGood_ite (Equal.fieldsReq_good hS _ (hS.struct hUR)) allGood_nil
    · split
      · exact Equal.field_good hS hR
      · rename_i hn
        exact ih R hR hR (under_of_not_named (by simpa using hn)).symm
    · exact Equal.stmtFlat_good hS hR hUR rfl
  | _ =>
    intro T hT hU hUT
    unfold Equal.stmtShape
    exact Equal.stmtFlat_good hS hT hU hUT

theorem Equal.stmt_good (hS : ClosedS env S) {T : Ty} (hT : T ∈ S) : AllGood env S (Equal.stmt env T) :=
  Equal.stmtShape_good hS _ T hT (hS.under hT) rfl

theorem allGood_sortKeys {T K V : Ty} (hT : T ∈ S) (hM : Ty.map K V ∈ S) :
    AllGood env S [(Plugin.sort, Ty.slice K), (Plugin.keys, T)] := by
  intro r hr
  simp at hr
  rcases hr with rfl | rfl
  · exact Or.inr (Or.inr ⟨K, V, hM, rfl⟩)
  · exact Or.inl hT

theorem Compare.field_good {F : Ty} (hF : F ∈ S) : AllGood env S (Compare.field env F) := by
  unfold Compare.field
  split
  · exact allGood_nil
  · split
    · exact allGood_nil
    · exact allGood_self hF
    · exact allGood_ite allGood_nil (allGood_self hF)
    · exact allGood_self hF
    · exact allGood_self hF
    · exact allGood_self hF
    · rename_i h; exact allGood_ptr hF (by rw [h]; rfl)
    · exact allGood_nil

theorem Compare.fieldsReq_good (hS : ClosedS env S) : ∀ fs : Ty, fs ∈ S → AllGood env S (Compare.fieldsReq env fs) := by
  intro fs
  induction fs with
  | fcons t r _ ihr =>
    intro h
    unfold Compare.fieldsReq
    exact allGood_append (Compare.field_good (hS.fconsH h)) (ihr (hS.fconsT h))
  | _ => intro _; unfold Compare.fieldsReq; exact allGood_nil

theorem Compare.stmt_good (hS : ClosedS env S) {T : Ty} (hT : T ∈ S) : AllGood env S (Compare.stmt env T) := by
  unfold Compare.stmt
  have hU := hS.under hT
  split
  · rename_i R h
    rw [h] at hU
    have hR := hS.ptr hU
    have hUR := hS.under hR
    split
    · rename_i fs h2
      rw [h2] at hUR
      exact allGood_ite (Compare.fieldsReq_good hS _ (hS.struct hUR)) (allGood_self hR)
    · exact allGood_self hR
  · rename_i h
    exact allGood_ite (allGood_ite allGood_nil (allGood_ptr hT (by rw [h]; rfl))) allGood_nil
  · rename_i E h; rw [h] at hU; exact Compare.field_good (hS.slice hU)
  · rename_i n E h; rw [h] at hU; exact Compare.field_good (hS.array hU)
  · rename_i K V h; rw [h] at hU
    exact allGood_append (allGood_append (allGood_sortKeys hT hU) (Compare.field_good (hS.mapV hU)))
      (Compare.field_good (hS.mapK hU))
  · exact allGood_nil

/-! hash -/

theorem Hash.field_good {F : Ty} (hF : F ∈ S) : AllGood env S (Hash.field env F) := by
  unfold Hash.field
  split <;> first | exact allGood_nil | exact allGood_self hF | exact allGood_ite allGood_nil (allGood_self hF)

theorem Hash.fieldsReq_good (hS : ClosedS env S) : ∀ fs : Ty, fs ∈ S → AllGood env S (Hash.fieldsReq env fs) := by
  intro fs
  induction fs with
  | fcons t r _ ihr =>
    intro h
    unfold Hash.fieldsReq
    exact allGood_append (Hash.field_good (hS.fconsH h)) (ihr (hS.fconsT h))
  | _ => intro _; unfold Hash.fieldsReq; exact allGood_nil

theorem Hash.fieldsReqMask_good (hS : ClosedS env S) : ∀ (fs : Ty) (m : List Bool), fs ∈ S →
    AllGood env S (Hash.fieldsReqMask env fs m) := by
  intro fs
  induction fs with
  | fcons t r _ ihr =>
    intro m h
    unfold Hash.fieldsReqMask
    exact allGood_append (allGood_ite allGood_nil (Hash.field_good (hS.fconsH h))) (ihr _ (hS.fconsT h))
  | _ => intro _ _; unfold Hash.fieldsReqMask; exact allGood_nil

theorem Hash.stmt_good (hS : ClosedS env S) {T : Ty} (hT : T ∈ S) : AllGood env S (Hash.stmt env T) := by
  unfold Hash.stmt
  have hU := hS.under hT
  split
  · rename_i R h
    rw [h] at hU
    have hR := hS.ptr hU
    have hUR := hS.under hR
    split
    · rename_i fs h2
      rw [h2] at hUR
      exact allGood_ite (Hash.fieldsReqMask_good hS _ _ (hS.struct hUR)) (Hash.field_good hR)
    · exact Hash.field_good hR
  · rename_i fs h
    rw [h] at hU
    exact allGood_ite (allGood_ite allGood_nil (allGood_ptr hT (by rw [h]; rfl))) (Hash.fieldsReq_good hS _ (hS.struct hU))
  · rename_i E h; rw [h] at hU; exact Hash.field_good (hS.slice hU)
  · rename_i n E h; rw [h] at hU; exact Hash.field_good (hS.array hU)
  · rename_i K V h; rw [h] at hU
    exact allGood_append (allGood_append (allGood_sortKeys hT hU) (Hash.field_good (hS.mapK hU)))
      (Hash.field_good (hS.mapV hU))
  · exact allGood_nil


/-! deepcopy, clone, sort -/

theorem DeepCopy.fieldShape_good (hS : ClosedS env S) {hop : Ty → List Key}
    (hhop : ∀ E ∈ S, AllGood env S (hop E)) : ∀ (U F : Ty), F ∈ S → U ∈ S → U = env.under F →
    AllGood env S (DeepCopy.fieldShape env hop F U) := by
  intro U
  induction U with
  | ptr R _ =>
    intro F hF _ _
    unfold DeepCopy.fieldShape
    exact allGood_ite allGood_nil (allGood_ite allGood_nil (allGood_self hF))
  | array n E ih =>
    intro F hF hU _
    unfold DeepCopy.fieldShape
    have hE := hS.array hU
    split
    · exact allGood_nil
    · split
      · exact hhop E hE
      · rename_i hn
        exact ih E hE hE (under_of_not_named (by simpa using hn)).symm
  | slice E _ =>
    intro F hF _ _
    unfold DeepCopy.fieldShape
    exact allGood_ite allGood_nil (allGood_ite allGood_nil (allGood_self hF))
  | map K V _ _ =>
    intro F hF _ _
    unfold DeepCopy.fieldShape
    exact allGood_ite allGood_nil (allGood_self hF)
  | struct fs _ =>
    intro F hF _ hUF
    unfold DeepCopy.fieldShape
    exact allGood_ite allGood_nil (allGood_ptr hF (by rw [← hUF]; rfl))
  | _ => intro F _ _ _; unfold DeepCopy.fieldShape; exact allGood_nil

theorem DeepCopy.hopN_good (hS : ClosedS env S) : ∀ (n : Nat) (E : Ty), E ∈ S → AllGood env S (DeepCopy.hopN env n E) := by
  intro n
  induction n with
  | zero => intro E _; unfold DeepCopy.hopN; exact allGood_nil
  | succ n ih =>
    intro E hE
    unfold DeepCopy.hopN
    exact DeepCopy.fieldShape_good hS ih _ E hE (hS.under hE) rfl

theorem DeepCopy.genField_good (hS : ClosedS env S) {F : Ty} (hF : F ∈ S) : AllGood env S (DeepCopy.genField env F) := by
  unfold DeepCopy.genField
  exact allGood_ite allGood_nil (DeepCopy.fieldShape_good hS (DeepCopy.hopN_good hS _) _ F hF (hS.under hF) rfl)

theorem DeepCopy.fieldsReq_good (hS : ClosedS env S) : ∀ fs : Ty, fs ∈ S → AllGood env S (DeepCopy.fieldsReq env fs) := by
  intro fs
  induction fs with
  | fcons t r _ ihr =>
    intro h
    unfold DeepCopy.fieldsReq
    exact allGood_append (DeepCopy.genField_good hS (hS.fconsH h)) (ihr (hS.fconsT h))
  | _ => intro _; unfold DeepCopy.fieldsReq; exact allGood_nil

theorem DeepCopy.stmt_good (hS : ClosedS env S) {T : Ty} (hT : T ∈ S) : AllGood env S (DeepCopy.stmt env T) := by
  unfold DeepCopy.stmt
  have hU := hS.under hT
  split
  · exact allGood_nil
  · split
    · rename_i R h
      rw [h] at hU
      have hR := hS.ptr hU
      have hUR := hS.under hR
      split
      · rename_i fs h2
        rw [h2] at hUR
        exact allGood_ite (DeepCopy.fieldsReq_good hS _ (hS.struct hUR)) allGood_nil
      · exact DeepCopy.genField_good hS hR
    · rename_i E h; rw [h] at hU
      exact allGood_ite allGood_nil (DeepCopy.genField_good hS (hS.slice hU))
    · rename_i n E h; rw [h] at hU; exact DeepCopy.genField_good hS (hS.array hU)
    · rename_i K V h; rw [h] at hU
      exact allGood_append (allGood_ite allGood_nil (DeepCopy.genField_good hS (hS.mapK hU)))
        (DeepCopy.genField_good hS (hS.mapV hU))
    · exact allGood_nil

theorem Clone.stmt_good {T : Ty} (hT : T ∈ S) : AllGood env S (Clone.stmt env T) := by
  unfold Clone.stmt
  split
  · exact allGood_self hT
  · exact allGood_self hT
  · exact allGood_self hT
  · rename_i h1 h2 h3
    refine allGood_ptr hT ?_
    cases h : env.under T <;> simp_all [isRef]

theorem Sort.stmt_good (hS : ClosedS env S) {T : Ty} (hT : T ∈ S) : AllGood env S (Sort.stmt env T) := by
  unfold Sort.stmt
  split
  · have hE := hS.slice hT
    split <;> first | exact allGood_nil | exact allGood_self hE
  · exact allGood_nil


theorem requests_good (hS : ClosedS env S) (pl : Plugin) {T : Ty} (hT : T ∈ S) :
    AllGood env S (requests pl env T) := by
  cases pl <;> simp only [requests]
  · exact Equal.stmt_good hS hT
  · exact Equal.stmt_good hS hT
  · exact Compare.stmt_good hS hT
  · exact Compare.stmt_good hS hT
  · exact allGood_nil
  · exact Sort.stmt_good hS hT
  · exact DeepCopy.stmt_good hS hT
  · exact Clone.stmt_good hT
  · exact Hash.stmt_good hS hT

end plugins

/-! ### the key universe is closed -/

theorem self_mem_subs (t : Ty) : t ∈ subs t := by
  cases t <;> simp [subs]

theorem subs_trans : ∀ (t : Ty) {x y : Ty}, x ∈ subs t → y ∈ subs x → y ∈ subs t := by
  intro t
  induction t with
  | ptr a ih =>
    intro x y hx hy
    simp only [subs, List.mem_cons] at hx
    rcases hx with rfl | hx
    · exact hy
    · simp only [subs, List.mem_cons]; exact Or.inr (ih hx hy)
  | slice a ih =>
    intro x y hx hy
    simp only [subs, List.mem_cons] at hx
    rcases hx with rfl | hx
    · exact hy
    · simp only [subs, List.mem_cons]; exact Or.inr (ih hx hy)
  | array n a ih =>
    intro x y hx hy
    simp only [subs, List.mem_cons] at hx
    rcases hx with rfl | hx
    · exact hy
    · simp only [subs, List.mem_cons]; exact Or.inr (ih hx hy)
  | chan a ih =>
    intro x y hx hy
    simp only [subs, List.mem_cons] at hx
    rcases hx with rfl | hx
    · exact hy
    · simp only [subs, List.mem_cons]; exact Or.inr (ih hx hy)
  | struct a ih =>
    intro x y hx hy
    simp only [subs, List.mem_cons] at hx
    rcases hx with rfl | hx
    · exact hy
    · simp only [subs, List.mem_cons]; exact Or.inr (ih hx hy)
  | map k v ihk ihv =>
    intro x y hx hy
    simp only [subs, List.mem_cons, List.mem_append] at hx
    rcases hx with rfl | hx | hx
    · exact hy
    · simp only [subs, List.mem_cons, List.mem_append]; exact Or.inr (Or.inl (ihk hx hy))
    · simp only [subs, List.mem_cons, List.mem_append]; exact Or.inr (Or.inr (ihv hx hy))
  | fcons k v ihk ihv =>
    intro x y hx hy
    simp only [subs, List.mem_cons, List.mem_append] at hx
    rcases hx with rfl | hx | hx
    · exact hy
    · simp only [subs, List.mem_cons, List.mem_append]; exact Or.inr (Or.inl (ihk hx hy))
    · simp only [subs, List.mem_cons, List.mem_append]; exact Or.inr (Or.inr (ihv hx hy))
  | _ =>
    intro x y hx hy
    simp only [subs, List.mem_singleton] at hx
    subst hx
    exact hy

/-- a list that is a union of `subs` images, contains `fnil` and the declarations -/
theorem closedS_of_subs {env : Env} {S : List Ty} (hfnil : Ty.fnil ∈ S)
    (hsub : ∀ x ∈ S, ∀ y ∈ subs x, y ∈ S) (hdecl : ∀ i d, env.decl? i = some d → d.under ∈ S) : ClosedS env S where
  fnil := hfnil
  ptr := fun h => hsub _ h _ (by simp [subs, self_mem_subs])
  slice := fun h => hsub _ h _ (by simp [subs, self_mem_subs])
  array := fun h => hsub _ h _ (by simp [subs, self_mem_subs])
  mapK := fun h => hsub _ h _ (by simp [subs, self_mem_subs])
  mapV := fun h => hsub _ h _ (by simp [subs, self_mem_subs])
  struct := fun h => hsub _ h _ (by simp [subs, self_mem_subs])
  fconsH := fun h => hsub _ h _ (by simp [subs, self_mem_subs])
  fconsT := fun h => hsub _ h _ (by simp [subs, self_mem_subs])
  decl := fun h => hdecl _ _ h

theorem closedS_base (env : Env) (init : List Key) : ClosedS env (baseTys env init) := by
  apply closedS_of_subs
  · simp [baseTys]
  · intro x hx y hy
    simp only [baseTys, List.mem_cons, List.mem_append, List.mem_flatMap] at hx ⊢
    rcases hx with rfl | ⟨k, hk, hx⟩ | ⟨d, hd, hx⟩
    · simp [subs] at hy; exact Or.inl hy
    · exact Or.inr (Or.inl ⟨k, hk, subs_trans _ hx hy⟩)
    · exact Or.inr (Or.inr ⟨d, hd, subs_trans _ hx hy⟩)
  · intro i d h
    simp only [baseTys, List.mem_cons, List.mem_append, List.mem_flatMap]
    refine Or.inr (Or.inr ⟨d, ?_, self_mem_subs _⟩)
    simp only [Env.decl?] at h
    exact List.mem_of_getElem? h

theorem closedS_cons_ptr {env : Env} {S : List Ty} (h : ClosedS env S) {y : Ty} (hy : y ∈ S) :
    ClosedS env (Ty.ptr y :: S) where
  fnil := List.mem_cons_of_mem _ h.fnil
  ptr := fun hm => by
    rcases List.mem_cons.1 hm with he | hm
    · cases he; exact List.mem_cons_of_mem _ hy
    · exact List.mem_cons_of_mem _ (h.ptr hm)
  slice := fun hm => by
    rcases List.mem_cons.1 hm with he | hm
    · cases he
    · exact List.mem_cons_of_mem _ (h.slice hm)
  array := fun hm => by
    rcases List.mem_cons.1 hm with he | hm
    · cases he
    · exact List.mem_cons_of_mem _ (h.array hm)
  mapK := fun hm => by
    rcases List.mem_cons.1 hm with he | hm
    · cases he
    · exact List.mem_cons_of_mem _ (h.mapK hm)
  mapV := fun hm => by
    rcases List.mem_cons.1 hm with he | hm
    · cases he
    · exact List.mem_cons_of_mem _ (h.mapV hm)
  struct := fun hm => by
    rcases List.mem_cons.1 hm with he | hm
    · cases he
    · exact List.mem_cons_of_mem _ (h.struct hm)
  fconsH := fun hm => by
    rcases List.mem_cons.1 hm with he | hm
    · cases he
    · exact List.mem_cons_of_mem _ (h.fconsH hm)
  fconsT := fun hm => by
    rcases List.mem_cons.1 hm with he | hm
    · cases he
    · exact List.mem_cons_of_mem _ (h.fconsT hm)
  decl := fun hd => List.mem_cons_of_mem _ (h.decl hd)

theorem closedS_cons_slice {env : Env} {S : List Ty} (h : ClosedS env S) {y : Ty} (hy : y ∈ S) :
    ClosedS env (Ty.slice y :: S) where
  fnil := List.mem_cons_of_mem _ h.fnil
  ptr := fun hm => by
    rcases List.mem_cons.1 hm with he | hm
    · cases he
    · exact List.mem_cons_of_mem _ (h.ptr hm)
  slice := fun hm => by
    rcases List.mem_cons.1 hm with he | hm
    · cases he; exact List.mem_cons_of_mem _ hy
    · exact List.mem_cons_of_mem _ (h.slice hm)
  array := fun hm => by
    rcases List.mem_cons.1 hm with he | hm
    · cases he
    · exact List.mem_cons_of_mem _ (h.array hm)
  mapK := fun hm => by
    rcases List.mem_cons.1 hm with he | hm
    · cases he
    · exact List.mem_cons_of_mem _ (h.mapK hm)
  mapV := fun hm => by
    rcases List.mem_cons.1 hm with he | hm
    · cases he
    · exact List.mem_cons_of_mem _ (h.mapV hm)
  struct := fun hm => by
    rcases List.mem_cons.1 hm with he | hm
    · cases he
    · exact List.mem_cons_of_mem _ (h.struct hm)
  fconsH := fun hm => by
    rcases List.mem_cons.1 hm with he | hm
    · cases he
    · exact List.mem_cons_of_mem _ (h.fconsH hm)
  fconsT := fun hm => by
    rcases List.mem_cons.1 hm with he | hm
    · cases he
    · exact List.mem_cons_of_mem _ (h.fconsT hm)
  decl := fun hd => List.mem_cons_of_mem _ (h.decl hd)

theorem mem_tyUniverse {env : Env} {init : List Key} {t : Ty} :
    t ∈ tyUniverse env init ↔ t ∈ baseTys env init ∨ (∃ y ∈ baseTys env init, t = .ptr y) ∨
      (∃ y ∈ baseTys env init, t = .slice y) := by
  simp only [tyUniverse, List.mem_append, List.mem_map]
  constructor
  · rintro ((h | ⟨y, hy, rfl⟩) | ⟨y, hy, rfl⟩)
    · exact Or.inl h
    · exact Or.inr (Or.inl ⟨y, hy, rfl⟩)
    · exact Or.inr (Or.inr ⟨y, hy, rfl⟩)
  · rintro (h | ⟨y, hy, rfl⟩ | ⟨y, hy, rfl⟩)
    · exact Or.inl (Or.inl h)
    · exact Or.inl (Or.inr ⟨y, hy, rfl⟩)
    · exact Or.inr ⟨y, hy, rfl⟩

theorem mem_keyUniverse {env : Env} {init : List Key} {k : Key} :
    k ∈ keyUniverse env init ↔ k.2 ∈ tyUniverse env init := by
  obtain ⟨p, t⟩ := k
  simp only [keyUniverse, List.mem_flatMap, List.mem_map]
  constructor
  · rintro ⟨_, _, t', ht', h⟩
    cases h; exact ht'
  · intro h
    exact ⟨p, by cases p <;> simp [allPlugins], t, h, rfl⟩


theorem good_base_mem {env : Env} {init : List Key} {Z : Ty} (h : Good env (baseTys env init) Z) :
    Z ∈ tyUniverse env init := by
  have hB := closedS_base env init
  rcases h with h | ⟨y, hy, rfl, _⟩ | ⟨K, V, hM, rfl⟩
  · exact mem_tyUniverse.2 (Or.inl h)
  · exact mem_tyUniverse.2 (Or.inr (Or.inl ⟨y, hy, rfl⟩))
  · exact mem_tyUniverse.2 (Or.inr (Or.inr ⟨K, hB.mapK hM, rfl⟩))

theorem good_cons_mem {env : Env} {init : List Key} {T Z : Ty} (hT : T ∈ tyUniverse env init)
    (href : isRef (env.under T) = true) (hnm : ∀ K V, T ≠ Ty.map K V)
    (h : Good env (T :: baseTys env init) Z) : Z ∈ tyUniverse env init := by
  have hB := closedS_base env init
  rcases h with h | ⟨y, hy, rfl, hr⟩ | ⟨K, V, hM, rfl⟩
  · rcases List.mem_cons.1 h with rfl | h
    · exact hT
    · exact mem_tyUniverse.2 (Or.inl h)
  · rcases List.mem_cons.1 hy with rfl | hy
    · rw [href] at hr; cases hr
    · exact mem_tyUniverse.2 (Or.inr (Or.inl ⟨y, hy, rfl⟩))
  · rcases List.mem_cons.1 hM with he | hM
    · exact absurd he.symm (hnm K V)
    · exact mem_tyUniverse.2 (Or.inr (Or.inr ⟨K, hB.mapK hM, rfl⟩))

theorem closedU_keyUniverse (env : Env) (init : List Key) : ClosedU env (keyUniverse env init) := by
  intro k hk r hr
  obtain ⟨p, T⟩ := k
  have hT : T ∈ tyUniverse env init := mem_keyUniverse.1 hk
  have hB := closedS_base env init
  refine mem_keyUniverse.2 ?_
  rcases mem_tyUniverse.1 hT with h | ⟨y, hy, rfl⟩ | ⟨y, hy, rfl⟩
  · exact good_base_mem (requests_good hB p h r hr)
  · exact good_cons_mem hT rfl (fun _ _ h => by cases h)
      (requests_good (closedS_cons_ptr hB hy) p List.mem_cons_self r hr)
  · exact good_cons_mem hT rfl (fun _ _ h => by cases h)
      (requests_good (closedS_cons_slice hB hy) p List.mem_cons_self r hr)

theorem init_sub_keyUniverse (env : Env) (init : List Key) : ∀ k ∈ init, k ∈ keyUniverse env init := by
  intro k hk
  refine mem_keyUniverse.2 (mem_tyUniverse.2 (Or.inl ?_))
  simp only [baseTys, List.mem_cons, List.mem_append, List.mem_flatMap]
  exact Or.inr (Or.inl ⟨k, hk, self_mem_subs _⟩)

end Goderive.G.Requests
