import GoderiveModel.U.Typing
import GoderiveModel.Spec.StructEq
open Goderive
#check @hasType.eq_2
#check @hasType.eq_3
#check @hasType.eq_9
#check @hasType.eq_10
#check @hasType.eq_def
#check @Spec.structEq.eq_10
#check @Spec.structEq.eq_def
example (env : Env) (T R : Ty) (v : Val) (a : Nat) (h : env.under T = .ptr R) : hasType env T (.ptr a v) = hasType env R v := by
  rw [hasType, h]
example (env : Env) (T R : Ty) (v : Val) (h : env.under T = .ptr R) : hasType env T v = match v with | .nilv => true | .ptr _ a => hasType env R a | _ => false := by
  rw [hasType.eq_def, h]
  cases v <;> rfl
