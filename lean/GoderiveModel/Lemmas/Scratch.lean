import GoderiveModel.Lemmas.Equal
open Goderive Val

def env1 : Env := { decls := [
  { under := .struct (.fcons (.basic (.int 64 true)) (.fcons (.ptr (.named 0)) (.fcons (.slice (.basic .string))
      (.fcons (.map (.basic .string) (.named 1)) .fnil)))), canEq := false },
  { under := .struct (.fcons (.basic (.float 64)) (.fcons (.basic (.float 64)) .fnil)), canEq := true } ] }

def pt (a b : Nat) : Val := .struct (.scons (.flt 64 a) (.scons (.flt 64 b) .snil))
def leaf : Val := .struct (.scons (.int 2) (.scons .nilv (.scons .nilv (.scons .nilv .snil))))
def node (n : Int) (a1 a2 a3 : Nat) (order : Bool) : Val :=
  .struct (.scons (.int n) (.scons (.ptr a1 leaf) (.scons (.slice a2 3 (.scons (.str [104, 105]) .snil))
    (.scons (.map a3 (if order then
        .scons (.pair (.str [97]) (pt 0 1)) (.scons (.pair (.str [98]) (pt 5 6)) .snil)
      else .scons (.pair (.str [98]) (pt 5 6)) (.scons (.pair (.str [97]) (pt 0 1)) .snil))) .snil))))

example : env1.flagsOk = true := by decide
example : Supported env1 (.named 0) = true := by decide
example : hasType env1 (.named 0) (node 1 10 11 12 true) = true := by
  simp [hasType_eval_named, hasType_eval_basic, hasType_eval_ptr_nil, hasType_eval_ptr, hasType_eval_slice_nil, hasType_eval_slice,
    hasType_eval_array, hasType_eval_struct, hasType_eval_map_nil, hasType_eval_map,
    fieldsHaveType, allHaveType, entriesHaveType, env1, node, leaf, pt, Env.under, Env.decl?, basicHasType, intInRange, keysDistinct, keyFresh, goEq, canEqual, Ty.isNamed]
example : Spec.structEq env1 (.named 0) (node 1 10 11 12 true) (node 1 20 21 22 false) = true := by
  simp [structEq_eval_named, structEq_eval_basic, structEq_eval_ptr, structEq_eval_slice,
    structEq_eval_array, structEq_eval_struct, structEq_eval_map,
    Spec.fieldsEq, Spec.seqEq, Spec.entriesIn, Spec.valueAt, env1, node, leaf, pt, Env.under, Env.decl?, leafEq, Ty.isNamed, Val.slen, fltEq]
