/-
Helper lemmas for property C02 (derived Equal = structural equality).
-/
import GoderiveModel.U.Ty
import GoderiveModel.U.Val
import GoderiveModel.U.Float
import GoderiveModel.U.Typing
import GoderiveModel.S.Equal
import GoderiveModel.S.EqualSupported
import GoderiveModel.Spec.StructEq

namespace Goderive
open Val

/-! ## Strong induction on values -/

theorem Val.strongInduction {P : Val → Prop}
    (step : ∀ x, (∀ z, sizeOf z < sizeOf x → P z) → P x) (x : Val) : P x := by
  suffices h : ∀ n, ∀ x : Val, sizeOf x < n → P x from h _ x (Nat.lt_succ_self _)
  intro n
  induction n with
  | zero => intro x hx; omega
  | succ n ih =>
    intro x hx
    apply step
    intro z hz
    apply ih
    omega

/-! ## Environment facts -/

theorem Env.under_of_not_named (env : Env) {T : Ty} (h : T.isNamed = false) : env.under T = T := by
  cases T <;> simp_all [Env.under, Ty.isNamed]

theorem Env.under_named_some {env : Env} {i : Nat} {d : Decl} (h : env.decl? i = some d) :
    env.under (.named i) = d.under := by
  simp [Env.under, h]

theorem Env.under_named_none {env : Env} {i : Nat} (h : env.decl? i = none) :
    env.under (.named i) = .fnil := by
  simp [Env.under, h]

theorem Env.decl_mem {env : Env} {i : Nat} {d : Decl} (h : env.decl? i = some d) : d ∈ env.decls := by
  unfold Env.decl? at h
  exact List.mem_of_getElem? h

theorem Env.flagsOk_decl {env : Env} (h : env.flagsOk = true) {i : Nat} {d : Decl}
    (hd : env.decl? i = some d) :
    d.canEq = canEqual env d.under ∧ d.under.isNamed = false := by
  have hm := Env.decl_mem hd
  unfold Env.flagsOk at h
  rw [List.all_eq_true] at h
  have := h d hm
  simpa using this

/-- the underlying type is never a name -/
theorem Env.under_not_named {env : Env} (h : env.flagsOk = true) (T : Ty) :
    (env.under T).isNamed = false := by
  cases T with
  | named i =>
    cases hd : env.decl? i with
    | none => rw [Env.under_named_none hd]; rfl
    | some d => rw [Env.under_named_some hd]; exact (Env.flagsOk_decl h hd).2
  | _ => rfl

theorem Env.under_idem {env : Env} (h : env.flagsOk = true) (T : Ty) :
    env.under (env.under T) = env.under T :=
  env.under_of_not_named (Env.under_not_named h T)

theorem canEqual_under {env : Env} (h : env.flagsOk = true) {T : Ty}
    (hc : canEqual env T = true) : canEqual env (env.under T) = true := by
  cases T with
  | named i =>
    cases hd : env.decl? i with
    | none => simp [canEqual, hd] at hc
    | some d =>
      rw [Env.under_named_some hd, ← (Env.flagsOk_decl h hd).1]
      simpa [canEqual, hd] using hc
  | _ => exact hc

/-! ## Everything depends on the type only through `env.under` -/

theorem hasType_congr {env : Env} {T T' : Ty} (h : env.under T = env.under T') (v : Val) :
    hasType env T v = hasType env T' v := by
  rw [hasType.eq_def, hasType.eq_def, h]

theorem structEq_congr {env : Env} {T T' : Ty} (h : env.under T = env.under T') (x y : Val) :
    Spec.structEq env T x y = Spec.structEq env T' x y := by
  rw [Spec.structEq.eq_def, Spec.structEq.eq_def, h]

/-! ## Inversion of typing -/

theorem hasType_basic {env : Env} {T : Ty} {b : Basic} (hU : env.under T = .basic b) (v : Val) :
    hasType env T v = basicHasType b v := hasType.eq_1 env T v b hU

theorem hasType_ptr_inv {env : Env} {T R : Ty} {x : Val} (hU : env.under T = .ptr R)
    (h : hasType env T x = true) : x = .nilv ∨ ∃ a v, x = .ptr a v ∧ hasType env R v = true := by
  rw [hasType.eq_def, hU] at h
  cases x with
  | nilv => exact Or.inl rfl
  | ptr a v => exact Or.inr ⟨a, v, rfl, by simpa using h⟩
  | _ => simp at h

theorem hasType_slice_inv {env : Env} {T E : Ty} {x : Val} (hU : env.under T = .slice E)
    (h : hasType env T x = true) :
    x = .nilv ∨ ∃ a s xs, x = .slice a s xs ∧ allHaveType env E xs = true := by
  rw [hasType.eq_def, hU] at h
  cases x with
  | nilv => exact Or.inl rfl
  | slice a s xs => exact Or.inr ⟨a, s, xs, rfl, by simpa using h⟩
  | _ => simp at h

theorem hasType_array_inv {env : Env} {T E : Ty} {n : Nat} {x : Val} (hU : env.under T = .array n E)
    (h : hasType env T x = true) :
    ∃ xs, x = .arr xs ∧ xs.slen = n ∧ allHaveType env E xs = true := by
  rw [hasType.eq_def, hU] at h
  cases x with
  | arr xs =>
    simp only [Bool.and_eq_true, beq_iff_eq] at h
    exact ⟨xs, rfl, h.1, h.2⟩
  | _ => simp at h

theorem hasType_struct_inv {env : Env} {T fs : Ty} {x : Val} (hU : env.under T = .struct fs)
    (h : hasType env T x = true) :
    ∃ xs, x = .struct xs ∧ fieldsHaveType env fs xs = true := by
  rw [hasType.eq_def, hU] at h
  cases x with
  | struct xs => exact ⟨xs, rfl, by simpa using h⟩
  | _ => simp at h

theorem hasType_map_inv {env : Env} {T K V : Ty} {x : Val} (hU : env.under T = .map K V)
    (h : hasType env T x = true) :
    x = .nilv ∨ ∃ a es, x = .map a es ∧ canEqual env K = true ∧
      entriesHaveType env K V es = true ∧ keysDistinct es = true := by
  rw [hasType.eq_def, hU] at h
  cases x with
  | nilv => exact Or.inl rfl
  | map a es =>
    simp only [Bool.and_eq_true] at h
    exact Or.inr ⟨a, es, rfl, h.1.1, h.1.2, h.2⟩
  | _ => simp at h

/-- no value has one of the non-value "types" -/
theorem hasType_bad {env : Env} {T : Ty} {x : Val}
    (hU : (match env.under T with
      | .named _ | .fnil | .fcons _ _ | .chan _ | .func | .iface => true
      | _ => false) = true) : hasType env T x = false := by
  rw [hasType.eq_def]
  cases hT : env.under T <;> simp_all

theorem allHaveType_inv {env : Env} {E : Ty} {xs : Val} (h : allHaveType env E xs = true) :
    xs = .snil ∨ ∃ a r, xs = .scons a r ∧ hasType env E a = true ∧ allHaveType env E r = true := by
  rw [allHaveType.eq_def] at h
  cases xs with
  | snil => exact Or.inl rfl
  | scons a r =>
    simp only [Bool.and_eq_true] at h
    exact Or.inr ⟨a, r, rfl, h.1, h.2⟩
  | _ => simp at h

theorem fieldsHaveType_inv {env : Env} {fs : Ty} {xs : Val} (h : fieldsHaveType env fs xs = true) :
    (fs = .fnil ∧ xs = .snil) ∨ ∃ F rest a r, fs = .fcons F rest ∧ xs = .scons a r ∧
      hasType env F a = true ∧ fieldsHaveType env rest r = true := by
  rw [fieldsHaveType.eq_def] at h
  cases fs with
  | fnil =>
    cases xs with
    | snil => exact Or.inl ⟨rfl, rfl⟩
    | _ => simp at h
  | fcons F rest =>
    cases xs with
    | scons a r =>
      simp only [Bool.and_eq_true] at h
      exact Or.inr ⟨F, rest, a, r, rfl, rfl, h.1, h.2⟩
    | _ => simp at h
  | _ => simp at h

theorem entriesHaveType_inv {env : Env} {K V : Ty} {es : Val} (h : entriesHaveType env K V es = true) :
    es = .snil ∨ ∃ k v r, es = .scons (.pair k v) r ∧ hasType env K k = true ∧
      hasType env V v = true ∧ entriesHaveType env K V r = true := by
  rw [entriesHaveType.eq_def] at h
  cases es with
  | snil => exact Or.inl rfl
  | scons hd tl =>
    cases hd with
    | pair k v =>
      simp only [Bool.and_eq_true] at h
      exact Or.inr ⟨k, v, tl, rfl, h.1.1, h.1.2, h.2⟩
    | _ => simp at h
  | _ => simp at h

/-! ## Shape of `structEq` once the underlying type is known -/

open Spec in
theorem structEq_basic {env : Env} {T : Ty} {b : Basic} (hU : env.under T = .basic b) (x y : Val) :
    structEq env T x y = leafEq x y := structEq.eq_1 env T x y b hU

open Spec in
theorem structEq_ptr {env : Env} {T R : Ty} (hU : env.under T = .ptr R) (x y : Val) :
    structEq env T x y =
      match x, y with
      | .nilv, .nilv => true
      | .ptr _ a, .ptr _ b => structEq env R a b
      | _, _ => false := by
  rw [structEq.eq_def, hU]
  cases x <;> cases y <;> rfl

open Spec in
theorem structEq_slice {env : Env} {T E : Ty} (hU : env.under T = .slice E) (x y : Val) :
    structEq env T x y =
      match x, y with
      | .nilv, .nilv => true
      | .slice _ _ xs, .slice _ _ ys => seqEq env E xs ys
      | _, _ => false := by
  rw [structEq.eq_def, hU]
  cases x <;> cases y <;> rfl

open Spec in
theorem structEq_array {env : Env} {T E : Ty} {n : Nat} (hU : env.under T = .array n E) (x y : Val) :
    structEq env T x y =
      match x, y with
      | .arr xs, .arr ys => seqEq env E xs ys
      | _, _ => false := by
  rw [structEq.eq_def, hU]
  cases x <;> cases y <;> rfl

open Spec in
theorem structEq_struct {env : Env} {T fs : Ty} (hU : env.under T = .struct fs) (x y : Val) :
    structEq env T x y =
      match x, y with
      | .struct xs, .struct ys => fieldsEq env fs xs ys
      | _, _ => false := by
  rw [structEq.eq_def, hU]
  cases x <;> cases y <;> rfl

open Spec in
theorem structEq_map {env : Env} {T K V : Ty} (hU : env.under T = .map K V) (x y : Val) :
    structEq env T x y =
      match x, y with
      | .nilv, .nilv => true
      | .map _ xs, .map _ ys => xs.slen == ys.slen && entriesIn env K V xs ys
      | _, _ => false := by
  rw [structEq.eq_def, hU]
  cases x <;> cases y <;> rfl

open Spec in
theorem seqEq_def (env : Env) (E : Ty) (xs ys : Val) :
    seqEq env E xs ys =
      match xs, ys with
      | .snil, .snil => true
      | .scons a r, .scons b s => structEq env E a b && seqEq env E r s
      | _, _ => false := seqEq.eq_def env E xs ys

/-! ## Go `==` is structural equality on comparable types -/

theorem goEq_eq_leafEq {b : Basic} {x : Val} (h : basicHasType b x = true) (y : Val) :
    goEq x y = leafEq x y := by
  cases x <;> first | (cases y <;> rfl) | (cases b <;> simp [basicHasType] at h)

/-- the three readings of "`x` is compared with `==`": as a value, as an element spine, as a field spine -/
structure GoEqOK (env : Env) (x : Val) : Prop where
  val : ∀ T y, canEqual env T = true → hasType env T x = true →
    goEq x y = Spec.structEq env T x y
  seq : ∀ E ys, canEqual env E = true → allHaveType env E x = true →
    goEq x ys = Spec.seqEq env E x ys
  flds : ∀ fs ys, canEqual env fs = true → fieldsHaveType env fs x = true →
    goEq x ys = Spec.fieldsEq env fs x ys

theorem goEqOK {env : Env} (hf : env.flagsOk = true) (x : Val) : GoEqOK env x := by
  induction x using Val.strongInduction with
  | step x ih =>
  refine ⟨?_, ?_, ?_⟩
  · intro T y hc hx
    have hcU := canEqual_under hf hc
    have hnn := Env.under_not_named hf T
    cases hU : env.under T with
    | basic b =>
      rw [structEq_basic hU]
      exact goEq_eq_leafEq (by rwa [hasType_basic hU] at hx) y
    | array n E =>
      obtain ⟨xs, rfl, -, hxs⟩ := hasType_array_inv hU hx
      rw [structEq_array hU]
      rw [hU] at hcU
      cases y with
      | arr ys => exact (ih xs (by simp <;> omega)).seq E ys hcU hxs
      | _ => rfl
    | struct fs =>
      obtain ⟨xs, rfl, hxs⟩ := hasType_struct_inv hU hx
      rw [structEq_struct hU]
      rw [hU] at hcU
      cases y with
      | struct ys => exact (ih xs (by simp <;> omega)).flds fs ys hcU hxs
      | _ => rfl
    | named i => rw [hU] at hnn; simp [Ty.isNamed] at hnn
    | fnil => rw [hasType_bad (by rw [hU])] at hx; cases hx
    | fcons _ _ => rw [hasType_bad (by rw [hU])] at hx; cases hx
    | _ => rw [hU] at hcU; simp [canEqual] at hcU
  · intro E ys hc hx
    rw [Spec.seqEq.eq_def]
    rcases allHaveType_inv hx with rfl | ⟨a, r, rfl, ha, hr⟩
    · cases ys <;> rfl
    · cases ys with
      | scons b s =>
        simp only [goEq]
        rw [(ih a (by simp <;> omega)).val E b hc ha, (ih r (by simp <;> omega)).seq E s hc hr]
      | _ => rfl
  · intro fs ys hc hx
    rw [Spec.fieldsEq.eq_def]
    rcases fieldsHaveType_inv hx with ⟨rfl, rfl⟩ | ⟨F, rest, a, r, rfl, rfl, ha, hr⟩
    · cases ys <;> rfl
    · cases ys with
      | scons b s =>
        simp only [canEqual, Bool.and_eq_true] at hc
        simp only [goEq]
        rw [(ih a (by simp <;> omega)).val F b hc.1 ha, (ih r (by simp <;> omega)).flds rest s hc.2 hr]
      | _ => rfl

theorem goEq_eq_structEq {env : Env} (hf : env.flagsOk = true) {T : Ty} {x : Val} (y : Val)
    (hc : canEqual env T = true) (hx : hasType env T x = true) :
    goEq x y = Spec.structEq env T x y := (goEqOK hf x).val T y hc hx

theorem goEq_eq_seqEq {env : Env} (hf : env.flagsOk = true) {E : Ty} {xs : Val} (ys : Val)
    (hc : canEqual env E = true) (hx : allHaveType env E xs = true) :
    goEq xs ys = Spec.seqEq env E xs ys := (goEqOK hf xs).seq E ys hc hx

/-! ## Go `==` is symmetric and transitive on well-typed values of a comparable type -/

theorem goEq_basic_symm {b : Basic} {x y : Val} (hx : basicHasType b x = true)
    (hy : basicHasType b y = true) : goEq x y = goEq y x := by
  cases b <;> cases x <;> (try (simp [basicHasType] at hx; done)) <;>
    cases y <;> (try (simp [basicHasType] at hy; done)) <;> simp only [goEq]
  · exact Bool.beq_comm
  · exact Bool.beq_comm
  · simp only [basicHasType, Bool.and_eq_true, beq_iff_eq] at hx hy
    obtain ⟨rfl, _⟩ := hx; obtain ⟨rfl, _⟩ := hy; exact fltEq_symm _ _ _
  · rename_i bits w re im w' re' im'
    simp only [basicHasType, Bool.and_eq_true, beq_iff_eq] at hx hy
    have : w = w' := by omega
    subst this
    rw [fltEq_symm w re, fltEq_symm w im]
  · exact Bool.beq_comm

theorem goEq_basic_trans {b : Basic} {x y z : Val} (hx : basicHasType b x = true)
    (hy : basicHasType b y = true) (h1 : goEq x y = true) (h2 : goEq y z = true) :
    goEq x z = true := by
  cases b <;> cases x <;> (try (simp [basicHasType] at hx; done)) <;>
    cases y <;> (try (simp [basicHasType] at hy; done)) <;>
    cases z <;> (try (simp [goEq] at h2; done)) <;> simp only [goEq] at h1 h2 ⊢
  · simp_all
  · simp_all
  · simp only [basicHasType, Bool.and_eq_true, beq_iff_eq] at hx hy
    obtain ⟨rfl, _⟩ := hx; obtain ⟨rfl, _⟩ := hy; exact fltEq_trans _ _ _ _ h1 h2
  · rename_i bits w re im w' re' im' w'' re'' im''
    simp only [basicHasType, Bool.and_eq_true, beq_iff_eq] at hx hy
    have : w = w' := by omega
    subst this
    simp only [Bool.and_eq_true] at h1 h2 ⊢
    exact ⟨fltEq_trans _ _ _ _ h1.1 h2.1, fltEq_trans _ _ _ _ h1.2 h2.2⟩
  · simp_all

/-- symmetry and transitivity of `==`, in the three readings (value, element spine, field spine) -/
structure GoEqPER (env : Env) (x : Val) : Prop where
  symm : ∀ T y, canEqual env T = true → hasType env T x = true → hasType env T y = true →
    goEq x y = goEq y x
  symmS : ∀ E ys, canEqual env E = true → allHaveType env E x = true →
    allHaveType env E ys = true → goEq x ys = goEq ys x
  symmF : ∀ fs ys, canEqual env fs = true → fieldsHaveType env fs x = true →
    fieldsHaveType env fs ys = true → goEq x ys = goEq ys x
  trans : ∀ T y z, canEqual env T = true → hasType env T x = true → hasType env T y = true →
    goEq x y = true → goEq y z = true → goEq x z = true
  transS : ∀ E ys zs, canEqual env E = true → allHaveType env E x = true →
    allHaveType env E ys = true → goEq x ys = true → goEq ys zs = true → goEq x zs = true
  transF : ∀ fs ys zs, canEqual env fs = true → fieldsHaveType env fs x = true →
    fieldsHaveType env fs ys = true → goEq x ys = true → goEq ys zs = true → goEq x zs = true

theorem goEqPER {env : Env} (hf : env.flagsOk = true) (x : Val) : GoEqPER env x := by
  induction x using Val.strongInduction with
  | step x ih =>
  refine ⟨?_, ?_, ?_, ?_, ?_, ?_⟩
  · intro T y hc hx hy
    have hcU := canEqual_under hf hc
    have hnn := Env.under_not_named hf T
    cases hU : env.under T with
    | basic b =>
      rw [hasType_basic hU] at hx hy
      exact goEq_basic_symm hx hy
    | array n E =>
      obtain ⟨xs, rfl, -, hxs⟩ := hasType_array_inv hU hx
      obtain ⟨ys, rfl, -, hys⟩ := hasType_array_inv hU hy
      rw [hU] at hcU
      exact (ih xs (by simp <;> omega)).symmS E ys hcU hxs hys
    | struct fs =>
      obtain ⟨xs, rfl, hxs⟩ := hasType_struct_inv hU hx
      obtain ⟨ys, rfl, hys⟩ := hasType_struct_inv hU hy
      rw [hU] at hcU
      exact (ih xs (by simp <;> omega)).symmF fs ys hcU hxs hys
    | named i => rw [hU] at hnn; simp [Ty.isNamed] at hnn
    | fnil => rw [hasType_bad (by rw [hU])] at hx; cases hx
    | fcons _ _ => rw [hasType_bad (by rw [hU])] at hx; cases hx
    | _ => rw [hU] at hcU; simp [canEqual] at hcU
  · intro E ys hc hx hy
    rcases allHaveType_inv hx with rfl | ⟨a, r, rfl, ha, hr⟩ <;>
      rcases allHaveType_inv hy with rfl | ⟨b, s, rfl, hb, hs⟩ <;> try rfl
    simp only [goEq]
    rw [(ih a (by simp <;> omega)).symm E b hc ha hb, (ih r (by simp <;> omega)).symmS E s hc hr hs]
  · intro fs ys hc hx hy
    rcases fieldsHaveType_inv hx with ⟨rfl, rfl⟩ | ⟨F, rest, a, r, rfl, rfl, ha, hr⟩
    · rcases fieldsHaveType_inv hy with ⟨-, rfl⟩ | ⟨_, _, _, _, h, _⟩
      · rfl
      · cases h
    · rcases fieldsHaveType_inv hy with ⟨h, -⟩ | ⟨F', rest', b, s, h, rfl, hb, hs⟩
      · cases h
      · cases h
        simp only [canEqual, Bool.and_eq_true] at hc
        simp only [goEq]
        rw [(ih a (by simp <;> omega)).symm F b hc.1 ha hb,
          (ih r (by simp <;> omega)).symmF rest s hc.2 hr hs]
  · intro T y z hc hx hy h1 h2
    have hcU := canEqual_under hf hc
    have hnn := Env.under_not_named hf T
    cases hU : env.under T with
    | basic b =>
      rw [hasType_basic hU] at hx hy
      exact goEq_basic_trans hx hy h1 h2
    | array n E =>
      obtain ⟨xs, rfl, -, hxs⟩ := hasType_array_inv hU hx
      obtain ⟨ys, rfl, -, hys⟩ := hasType_array_inv hU hy
      rw [hU] at hcU
      cases z <;> simp only [goEq] at h2 <;> try cases h2
      exact (ih xs (by simp <;> omega)).transS E ys _ hcU hxs hys h1 h2
    | struct fs =>
      obtain ⟨xs, rfl, hxs⟩ := hasType_struct_inv hU hx
      obtain ⟨ys, rfl, hys⟩ := hasType_struct_inv hU hy
      rw [hU] at hcU
      cases z <;> simp only [goEq] at h2 <;> try cases h2
      exact (ih xs (by simp <;> omega)).transF fs ys _ hcU hxs hys h1 h2
    | named i => rw [hU] at hnn; simp [Ty.isNamed] at hnn
    | fnil => rw [hasType_bad (by rw [hU])] at hx; cases hx
    | fcons _ _ => rw [hasType_bad (by rw [hU])] at hx; cases hx
    | _ => rw [hU] at hcU; simp [canEqual] at hcU
  · intro E ys zs hc hx hy h1 h2
    rcases allHaveType_inv hx with rfl | ⟨a, r, rfl, ha, hr⟩ <;>
      rcases allHaveType_inv hy with rfl | ⟨b, s, rfl, hb, hs⟩ <;>
      (try (simp [goEq] at h1; done)) <;>
      cases zs <;> (try (simp [goEq] at h2; done))
    · rfl
    · simp only [goEq, Bool.and_eq_true] at h1 h2 ⊢
      exact ⟨(ih a (by simp <;> omega)).trans E b _ hc ha hb h1.1 h2.1,
        (ih r (by simp <;> omega)).transS E s _ hc hr hs h1.2 h2.2⟩
  · intro fs ys zs hc hx hy h1 h2
    rcases fieldsHaveType_inv hx with ⟨rfl, rfl⟩ | ⟨F, rest, a, r, rfl, rfl, ha, hr⟩
    · rcases fieldsHaveType_inv hy with ⟨-, rfl⟩ | ⟨_, _, _, _, h, _⟩
      · cases zs <;> first | rfl | (simp [goEq] at h2)
      · cases h
    · rcases fieldsHaveType_inv hy with ⟨h, -⟩ | ⟨F', rest', b, s, h, rfl, hb, hs⟩
      · cases h
      · cases h
        cases zs <;> (try (simp [goEq] at h2; done))
        simp only [canEqual, Bool.and_eq_true] at hc
        simp only [goEq, Bool.and_eq_true] at h1 h2 ⊢
        exact ⟨(ih a (by simp <;> omega)).trans F b _ hc.1 ha hb h1.1 h2.1,
          (ih r (by simp <;> omega)).transF rest s _ hc.2 hr hs h1.2 h2.2⟩

theorem goEq_symm {env : Env} (hf : env.flagsOk = true) {T : Ty} {x y : Val}
    (hc : canEqual env T = true) (hx : hasType env T x = true) (hy : hasType env T y = true) :
    goEq x y = goEq y x := (goEqPER hf x).symm T y hc hx hy

theorem goEq_trans {env : Env} (hf : env.flagsOk = true) {T : Ty} {x y z : Val}
    (hc : canEqual env T = true) (hx : hasType env T x = true) (hy : hasType env T y = true)
    (h1 : goEq x y = true) (h2 : goEq y z = true) : goEq x z = true :=
  (goEqPER hf x).trans T y z hc hx hy h1 h2

/-! ## Shape of the model once the underlying type is known -/

namespace Equal

theorem top_basic {env : Env} {T : Ty} {b : Basic} (hU : env.under T = .basic b) (x y : Val) :
    top env T x y = .ok (goEq x y) := by
  rw [top.eq_def]; simp only [hU]

theorem top_ptr_struct {env : Env} {T R fs : Ty} (hU : env.under T = .ptr R)
    (hR : env.under R = .struct fs) (hn : R.isNamed = true) (x y : Val) :
    top env T x y =
      match x, y with
      | .nilv, .nilv => .ok true
      | .nilv, .ptr _ _ => .ok false
      | .ptr _ _, .nilv => .ok false
      | .ptr _ (.struct xs), .ptr _ (.struct ys) => fields env fs xs ys
      | _, _ => .panic := by
  rw [top.eq_def]; simp only [hU, hR, hn, if_true]
  rfl

theorem top_ptr_other {env : Env} {T R : Ty} (hU : env.under T = .ptr R)
    (hR : ∀ fs, env.under R ≠ .struct fs) (x y : Val) :
    top env T x y =
      match x, y with
      | .nilv, .nilv => .ok true
      | .nilv, .ptr _ _ => .ok false
      | .ptr _ _, .nilv => .ok false
      | .ptr _ a, .ptr _ b => top env R a b
      | _, _ => .panic := by
  rw [top.eq_def]; simp only [hU]
  cases hG : env.under R with
  | struct fs => exact absurd hG (hR fs)
  | _ => rfl

theorem top_struct_named {env : Env} {T fs : Ty} (hU : env.under T = .struct fs)
    (hn : T.isNamed = true) (x y : Val) :
    top env T x y =
      match x, y with
      | .struct xs, .struct ys => fields env fs xs ys
      | _, _ => .panic := by
  rw [top.eq_def]; simp only [hU, hn, if_true]
  rfl

theorem top_struct_eq {env : Env} {T fs : Ty} (hU : env.under T = .struct fs)
    (hn : T.isNamed = false) (hc : canEqual env (.struct fs) = true) (x y : Val) :
    top env T x y = .ok (goEq x y) := by
  rw [top.eq_def]; simp only [hU, hn, hc, if_true, Bool.false_eq_true, if_false]

theorem top_struct_fields {env : Env} {T fs : Ty} (hU : env.under T = .struct fs)
    (hn : T.isNamed = false) (hc : canEqual env (.struct fs) = false) (x y : Val) :
    top env T x y =
      match x, y with
      | .struct xs, .struct ys => fields env fs xs ys
      | _, _ => .panic := by
  rw [top.eq_def]; simp only [hU, hn, hc, Bool.false_eq_true, if_false]
  rfl

theorem top_slice {env : Env} {T E : Ty} (hU : env.under T = .slice E) (x y : Val) :
    top env T x y =
      match x, y with
      | .nilv, .nilv => .ok true
      | .nilv, .slice _ _ _ => .ok false
      | .slice _ _ _, .nilv => .ok false
      | .slice _ _ xs, .slice _ _ ys =>
        if xs.slen != ys.slen then .ok false else elems env E xs ys
      | _, _ => .panic := by
  rw [top.eq_def]; simp only [hU]
  rfl

theorem top_array {env : Env} {T E : Ty} {n : Nat} (hU : env.under T = .array n E) (x y : Val) :
    top env T x y =
      match x, y with
      | .arr xs, .arr ys => elems env E xs ys
      | _, _ => .panic := by
  rw [top.eq_def]; simp only [hU]
  rfl

theorem top_map {env : Env} {T K V : Ty} (hU : env.under T = .map K V) (x y : Val) :
    top env T x y =
      match x, y with
      | .nilv, .nilv => .ok true
      | .nilv, .map _ _ => .ok false
      | .map _ _, .nilv => .ok false
      | .map _ xs, .map _ ys =>
        if xs.slen != ys.slen then .ok false else entries env V xs ys
      | _, _ => .panic := by
  rw [top.eq_def]; simp only [hU]
  rfl

theorem field_canEqual {env : Env} {F : Ty} (hc : canEqual env F = true) (x y : Val) :
    field env F x y = .ok (goEq x y) := by
  rw [field.eq_def]; simp only [hc, if_true]

theorem field_ptr_named {env : Env} {F R : Ty} (hc : canEqual env F = false)
    (hU : env.under F = .ptr R) (hn : R.isNamed = true) (x y : Val) :
    field env F x y = top env (.ptr R) x y := by
  rw [field.eq_def]; simp only [hc, hU, hn, if_true, Bool.false_eq_true, if_false]

theorem field_ptr_unnamed {env : Env} {F R : Ty} (hc : canEqual env F = false)
    (hU : env.under F = .ptr R) (hn : R.isNamed = false) (x y : Val) :
    field env F x y =
      match x, y with
      | .nilv, .nilv => .ok true
      | .nilv, .ptr _ _ => .ok false
      | .ptr _ _, .nilv => .ok false
      | .ptr _ a, .ptr _ b => field env R a b
      | _, _ => .panic := by
  rw [field.eq_def]; simp only [hc, hU, hn, Bool.false_eq_true, if_false]
  rfl

theorem field_array {env : Env} {F E : Ty} {n : Nat} (hc : canEqual env F = false)
    (hU : env.under F = .array n E) (x y : Val) :
    field env F x y = top env (.array n E) x y := by
  rw [field.eq_def]; simp only [hc, hU, Bool.false_eq_true, if_false]

theorem field_slice_byte {env : Env} {F E : Ty} (hc : canEqual env F = false)
    (hU : env.under F = .slice E) (hb : isByte E = true) (x y : Val) :
    field env F x y = bytesEqual x y := by
  rw [field.eq_def]; simp only [hc, hU, hb, if_true, Bool.false_eq_true, if_false]

theorem field_slice {env : Env} {F E : Ty} (hc : canEqual env F = false)
    (hU : env.under F = .slice E) (hb : isByte E = false) (x y : Val) :
    field env F x y = top env (.slice E) x y := by
  rw [field.eq_def]; simp only [hc, hU, hb, Bool.false_eq_true, if_false]

theorem field_map {env : Env} {F K V : Ty} (hc : canEqual env F = false)
    (hU : env.under F = .map K V) (x y : Val) :
    field env F x y = top env (.map K V) x y := by
  rw [field.eq_def]; simp only [hc, hU, Bool.false_eq_true, if_false]

theorem field_struct_named {env : Env} {F fs : Ty} (hc : canEqual env F = false)
    (hU : env.under F = .struct fs) (hn : F.isNamed = true) (x y : Val) :
    field env F x y = top env F x y := by
  rw [field.eq_def]; simp only [hc, hU, hn, if_true, Bool.false_eq_true, if_false]

end Equal

/-! ## Map lookup against the specification's `valueAt` -/

theorem keyFresh_of_goEq {env : Env} (hf : env.flagsOk = true) {K V : Ty} {k k' : Val}
    (hc : canEqual env K = true) (hk : hasType env K k = true) (hk' : hasType env K k' = true)
    (h : goEq k k' = true) :
    ∀ s, entriesHaveType env K V s = true → keyFresh k' s = true → keyFresh k s = true := by
  intro s
  induction s using Val.strongInduction with
  | step s ih =>
  intro hs hfr
  rcases entriesHaveType_inv hs with rfl | ⟨k2, w, r, rfl, hk2, -, hr⟩
  · rfl
  · simp only [keyFresh, Bool.and_eq_true, Bool.not_eq_true'] at hfr ⊢
    refine ⟨?_, ih r (by simp <;> omega) hr hfr.2⟩
    cases h2 : goEq k k2 with
    | false => rfl
    | true =>
      have h' : goEq k' k = true := by rw [goEq_symm hf hc hk' hk]; exact h
      have := goEq_trans hf hc hk' hk h' h2
      rw [hfr.1] at this; cases this

theorem mapLookup_none_of_fresh {k : Val} : ∀ s, keyFresh k s = true → mapLookup k s = none := by
  intro s
  induction s using Val.strongInduction with
  | step s ih =>
  intro hfr
  cases s with
  | scons hd tl =>
    cases hd with
    | pair k' w =>
      simp only [keyFresh, Bool.and_eq_true, Bool.not_eq_true'] at hfr
      simp only [mapLookup, hfr.1, Bool.false_eq_true, if_false]
      exact ih tl (by simp <;> omega) hfr.2
    | _ => rfl
  | _ => rfl

theorem valueAt_false_of_fresh {env : Env} (hf : env.flagsOk = true) {K V : Ty} {k v : Val}
    (hc : canEqual env K = true) (hk : hasType env K k = true) :
    ∀ s, keyFresh k s = true → Spec.valueAt env K V k v s = false := by
  intro s
  induction s using Val.strongInduction with
  | step s ih =>
  intro hfr
  rw [Spec.valueAt.eq_def]
  cases s with
  | scons hd tl =>
    cases hd with
    | pair k' w =>
      simp only [keyFresh, Bool.and_eq_true, Bool.not_eq_true'] at hfr
      simp only
      rw [← goEq_eq_structEq hf k' hc hk, hfr.1, ih tl (by simp <;> omega) hfr.2]
      rfl
    | _ => rfl
  | _ => rfl

/-- with distinct keys, "some entry has an equal key and an equal value" is "the looked-up value is
equal" -/
theorem valueAt_eq_lookup {env : Env} (hf : env.flagsOk = true) {K V : Ty} {k v : Val}
    (hc : canEqual env K = true) (hk : hasType env K k = true) :
    ∀ s, entriesHaveType env K V s = true → keysDistinct s = true →
      Spec.valueAt env K V k v s =
        match mapLookup k s with
        | none => false
        | some w => Spec.structEq env V v w := by
  intro s
  induction s using Val.strongInduction with
  | step s ih =>
  intro hs hd
  rcases entriesHaveType_inv hs with rfl | ⟨k', w, r, rfl, hk', -, hr⟩
  · rw [Spec.valueAt.eq_def]; rfl
  · simp only [keysDistinct, Bool.and_eq_true] at hd
    rw [Spec.valueAt.eq_1, ← goEq_eq_structEq hf k' hc hk]
    simp only [mapLookup]
    cases h : goEq k k' with
    | true =>
      have hfr := keyFresh_of_goEq (V := V) hf hc hk hk' h r hr hd.1
      rw [valueAt_false_of_fresh hf hc hk r hfr]
      simp
    | false =>
      rw [ih r (by simp <;> omega) hr hd.2]
      simp

theorem mapLookup_hasType {env : Env} {K V : Ty} {k w : Val} :
    ∀ s, entriesHaveType env K V s = true → mapLookup k s = some w → hasType env V w = true := by
  intro s
  induction s using Val.strongInduction with
  | step s ih =>
  intro hs hl
  rcases entriesHaveType_inv hs with rfl | ⟨k', w', r, rfl, -, hw', hr⟩
  · simp [mapLookup] at hl
  · simp only [mapLookup] at hl
    split at hl
    · cases hl; exact hw'
    · exact ih r (by simp <;> omega) hr hl

/-! ## Facts about `Supported` -/

namespace Equal

theorem okComp_of_canEqual {env : Env} : ∀ T : Ty, canEqual env T = true → okComp env T = true := by
  intro T
  induction T with
  | named i =>
    intro h
    simp only [canEqual] at h
    simp only [okComp]
    cases hd : env.decl? i with
    | none => simp [hd] at h
    | some d => rfl
  | array n E ih => intro h; exact ih (by simpa [canEqual] using h)
  | fcons F r ih1 ih2 =>
    intro h
    simp only [canEqual, Bool.and_eq_true] at h
    simp only [okComp, Bool.and_eq_true]
    exact ⟨ih1 h.1, ih2 h.2⟩
  | struct fs _ => intro h; simpa [okComp] using h
  | basic _ => intro _; rfl
  | fnil => intro _; rfl
  | _ => intro h; simp [canEqual] at h

theorem okTop_of_okComp {env : Env} {T : Ty} (h : okComp env T = true) : okTop env T = true := by
  cases T with
  | struct fs =>
    simp only [okComp, canEqual] at h
    exact okComp_of_canEqual fs h
  | _ => exact h

theorem okTop_decl {env : Env} (he : envOk env = true) {i : Nat} {d : Decl}
    (hd : env.decl? i = some d) : okTop env d.under = true := by
  unfold envOk at he
  rw [List.all_eq_true] at he
  exact he d (Env.decl_mem hd)

theorem okTop_under {env : Env} (he : envOk env = true) {T : Ty} (h : okTop env T = true) :
    okTop env (env.under T) = true := by
  cases T with
  | named i =>
    cases hd : env.decl? i with
    | none => rw [Env.under_named_none hd]; rfl
    | some d => rw [Env.under_named_some hd]; exact okTop_decl he hd
  | _ => exact h

/-- a supported component type is either a name (whose underlying type is supported at top level)
or its own underlying type -/
theorem okComp_under {env : Env} (he : envOk env = true) {F : Ty} (h : okComp env F = true) :
    (F.isNamed = true ∧ okTop env (env.under F) = true) ∨
    (F.isNamed = false ∧ env.under F = F) := by
  by_cases hn : F.isNamed = true
  · exact Or.inl ⟨hn, okTop_under he (okTop_of_okComp h)⟩
  · have hn' : F.isNamed = false := by simpa using hn
    exact Or.inr ⟨hn', env.under_of_not_named hn'⟩

end Equal

/-! ## The model computes the specification -/

theorem canEqual_eq_under {env : Env} (hf : env.flagsOk = true) {T : Ty}
    (hU : env.under T ≠ .fnil) : canEqual env T = canEqual env (env.under T) := by
  cases T with
  | named i =>
    cases hd : env.decl? i with
    | none => exact absurd (Env.under_named_none hd) hU
    | some d =>
      rw [Env.under_named_some hd, ← (Env.flagsOk_decl hf hd).1]
      simp [canEqual, hd]
  | _ => rfl

theorem seqEq_false_of_slen_ne {env : Env} {E : Ty} :
    ∀ xs ys : Val, xs.slen ≠ ys.slen → Spec.seqEq env E xs ys = false := by
  intro xs
  induction xs using Val.strongInduction with
  | step xs ih =>
  intro ys hne
  rw [Spec.seqEq.eq_def]
  cases xs with
  | snil => cases ys <;> first | rfl | (simp [Val.slen] at hne)
  | scons a r =>
    cases ys with
    | scons b s =>
      simp only
      rw [ih r (by simp <;> omega) s (by simpa [Val.slen] using hne), Bool.and_false]
    | _ => rfl
  | _ => rfl

theorem isByte_canEqual {env : Env} {E : Ty} (h : isByte E = true) : canEqual env E = true := by
  cases E <;> first | rfl | (simp [isByte] at h)

open Spec Equal in
/-- the five functions of the mutual block agree with the five functions of the specification -/
structure EqualOK (env : Env) (x : Val) : Prop where
  top : ∀ T y, okTop env T = true → hasType env T x = true → hasType env T y = true →
    Equal.top env T x y = .ok (structEq env T x y)
  field : ∀ F y, okComp env F = true → hasType env F x = true → hasType env F y = true →
    Equal.field env F x y = .ok (structEq env F x y)
  fields : ∀ fs ys, okComp env fs = true → fieldsHaveType env fs x = true →
    fieldsHaveType env fs ys = true → Equal.fields env fs x ys = .ok (fieldsEq env fs x ys)
  elems : ∀ E ys, okComp env E = true → allHaveType env E x = true →
    allHaveType env E ys = true → x.slen = ys.slen →
    Equal.elems env E x ys = .ok (seqEq env E x ys)
  entries : ∀ K V ys, okComp env V = true → canEqual env K = true →
    entriesHaveType env K V x = true → entriesHaveType env K V ys = true →
    keysDistinct ys = true → Equal.entries env V x ys = .ok (entriesIn env K V x ys)

section Steps
open Spec Equal
variable {env : Env} (hf : env.flagsOk = true) (he : envOk env = true)

theorem EqualOK.step_fields (x : Val) (ih : ∀ z, sizeOf z < sizeOf x → EqualOK env z) :
    ∀ fs ys, okComp env fs = true → fieldsHaveType env fs x = true →
    fieldsHaveType env fs ys = true → Equal.fields env fs x ys = .ok (fieldsEq env fs x ys) := by
  intro fs ys ho hx hy
  rcases fieldsHaveType_inv hx with ⟨rfl, rfl⟩ | ⟨F, rest, a, r, rfl, rfl, ha, hr⟩
  · rcases fieldsHaveType_inv hy with ⟨-, rfl⟩ | ⟨_, _, _, _, h, _⟩
    · rw [Equal.fields, Spec.fieldsEq]
    · cases h
  · rcases fieldsHaveType_inv hy with ⟨h, -⟩ | ⟨F', rest', b, s, h, rfl, hb, hs⟩
    · cases h
    · cases h
      simp only [okComp, Bool.and_eq_true] at ho
      rw [Equal.fields, Spec.fieldsEq, (ih a (by simp <;> omega)).field F b ho.1 ha hb, Res.bind_ok,
        (ih r (by simp <;> omega)).fields rest s ho.2 hr hs]
      cases structEq env F a b <;> rfl

theorem EqualOK.step_elems (x : Val) (ih : ∀ z, sizeOf z < sizeOf x → EqualOK env z) :
    ∀ E ys, okComp env E = true → allHaveType env E x = true →
    allHaveType env E ys = true → x.slen = ys.slen →
    Equal.elems env E x ys = .ok (seqEq env E x ys) := by
  intro E ys ho hx hy hl
  rcases allHaveType_inv hx with rfl | ⟨a, r, rfl, ha, hr⟩ <;>
    rcases allHaveType_inv hy with rfl | ⟨b, s, rfl, hb, hs⟩
  · rw [Equal.elems, Spec.seqEq]
  · simp [Val.slen] at hl
  · simp [Val.slen] at hl
  · have hl' : r.slen = s.slen := by simpa [Val.slen] using hl
    rw [Equal.elems, Spec.seqEq, (ih a (by simp <;> omega)).field E b ho ha hb, Res.bind_ok,
      (ih r (by simp <;> omega)).elems E s ho hr hs hl']
    cases structEq env E a b <;> rfl

include hf in
theorem EqualOK.step_entries (x : Val) (ih : ∀ z, sizeOf z < sizeOf x → EqualOK env z) :
    ∀ K V ys, okComp env V = true → canEqual env K = true →
    entriesHaveType env K V x = true → entriesHaveType env K V ys = true →
    keysDistinct ys = true → Equal.entries env V x ys = .ok (entriesIn env K V x ys) := by
  intro K V ys hV hK hx hy hd
  rcases entriesHaveType_inv hx with rfl | ⟨k, v, r, rfl, hk, hv, hr⟩
  · rw [Equal.entries, Spec.entriesIn]
  · rw [Equal.entries, Spec.entriesIn, valueAt_eq_lookup hf hK hk ys hy hd]
    cases hl : mapLookup k ys with
    | none => rfl
    | some w =>
      have hw := mapLookup_hasType ys hy hl
      simp only
      rw [(ih v (by simp <;> omega)).field V w hV hv hw, Res.bind_ok,
        (ih r (by simp <;> omega)).entries K V ys hV hK hr hy hd]
      cases structEq env V v w <;> rfl

include hf he in
theorem EqualOK.step_top (x : Val) (ih : ∀ z, sizeOf z < sizeOf x → EqualOK env z) :
    ∀ T y, okTop env T = true → hasType env T x = true → hasType env T y = true →
    Equal.top env T x y = .ok (structEq env T x y) := by
  intro T y hT hx hy
  have hUok := okTop_under he hT
  have hnn := Env.under_not_named hf T
  cases hU : env.under T with
  | basic b =>
    rw [top_basic hU, structEq_basic hU, goEq_eq_leafEq (by rwa [hasType_basic hU] at hx)]
  | ptr R =>
    rw [hU] at hUok
    simp only [okTop, okComp, Bool.and_eq_true] at hUok
    obtain ⟨hRns, hR⟩ := hUok
    rw [structEq_ptr hU]
    by_cases hS : ∃ fs, env.under R = .struct fs
    · obtain ⟨fs, hS⟩ := hS
      have hn : R.isNamed = true := by
        cases R <;> simp_all [Env.under, Ty.isNamed]
      have hfs : okComp env fs = true := by
        have := okTop_under he (okTop_of_okComp hR)
        rw [hS] at this; exact this
      rw [top_ptr_struct hU hS hn]
      rcases hasType_ptr_inv hU hx with rfl | ⟨a, v, rfl, hv⟩ <;>
        rcases hasType_ptr_inv hU hy with rfl | ⟨b, w, rfl, hw⟩ <;> try rfl
      obtain ⟨xs, rfl, hxs⟩ := hasType_struct_inv hS hv
      obtain ⟨ys, rfl, hys⟩ := hasType_struct_inv hS hw
      simp only
      rw [structEq_struct hS]
      exact (ih xs (by simp <;> omega)).fields fs ys hfs hxs hys
    · rw [top_ptr_other hU (fun fs h => hS ⟨fs, h⟩)]
      rcases hasType_ptr_inv hU hx with rfl | ⟨a, v, rfl, hv⟩ <;>
        rcases hasType_ptr_inv hU hy with rfl | ⟨b, w, rfl, hw⟩ <;> try rfl
      exact (ih v (by simp <;> omega)).top R w (okTop_of_okComp hR) hv hw
  | struct fs =>
    rw [hU] at hUok
    have hfs : okComp env fs = true := hUok
    obtain ⟨xs, rfl, hxs⟩ := hasType_struct_inv hU hx
    obtain ⟨ys, rfl, hys⟩ := hasType_struct_inv hU hy
    by_cases hn : T.isNamed = true
    · rw [top_struct_named hU hn, structEq_struct hU]
      exact (ih xs (by simp <;> omega)).fields fs ys hfs hxs hys
    · have hn' : T.isNamed = false := by simpa using hn
      cases hc : canEqual env (.struct fs) with
      | false =>
        rw [top_struct_fields hU hn' hc, structEq_struct hU]
        exact (ih xs (by simp <;> omega)).fields fs ys hfs hxs hys
      | true =>
        rw [top_struct_eq hU hn' hc]
        have hTU : env.under T = T := env.under_of_not_named hn'
        rw [hTU] at hU
        subst hU
        rw [goEq_eq_structEq hf _ hc hx]
  | slice E =>
    rw [hU] at hUok
    have hE : okComp env E = true := hUok
    rw [top_slice hU, structEq_slice hU]
    rcases hasType_slice_inv hU hx with rfl | ⟨a, sp, xs, rfl, hxs⟩ <;>
      rcases hasType_slice_inv hU hy with rfl | ⟨b, sp', ys, rfl, hys⟩ <;> try rfl
    simp only
    by_cases hl : xs.slen = ys.slen
    · rw [if_neg (by simpa using hl)]
      exact (ih xs (by simp <;> omega)).elems E ys hE hxs hys hl
    · rw [if_pos (by simpa using hl), seqEq_false_of_slen_ne xs ys hl]
  | array n E =>
    rw [hU] at hUok
    have hE : okComp env E = true := hUok
    rw [top_array hU, structEq_array hU]
    obtain ⟨xs, rfl, hlx, hxs⟩ := hasType_array_inv hU hx
    obtain ⟨ys, rfl, hly, hys⟩ := hasType_array_inv hU hy
    exact (ih xs (by simp <;> omega)).elems E ys hE hxs hys (by rw [hlx, hly])
  | map K V =>
    rw [hU] at hUok
    simp only [okTop, okComp, Bool.and_eq_true] at hUok
    rw [top_map hU, structEq_map hU]
    rcases hasType_map_inv hU hx with rfl | ⟨a, xs, rfl, hK, hxs, -⟩ <;>
      rcases hasType_map_inv hU hy with rfl | ⟨b, ys, rfl, -, hys, hd⟩ <;> try rfl
    simp only
    by_cases hl : xs.slen = ys.slen
    · have hb : (xs.slen == ys.slen) = true := by rw [hl]; exact beq_self_eq_true _
      rw [if_neg (by simpa using hl), (ih xs (by simp <;> omega)).entries K V ys hUok.2 hK hxs hys hd,
        hb, Bool.true_and]
    · have hb : (xs.slen == ys.slen) = false := beq_eq_false_iff_ne.mpr hl
      rw [if_pos (by simpa using hl), hb, Bool.false_and]
  | named i => rw [hU] at hnn; simp [Ty.isNamed] at hnn
  | _ => rw [hasType_bad (by rw [hU])] at hx; cases hx

include hf he in
theorem EqualOK.step_field (x : Val)
    (htop : ∀ T y, okTop env T = true → hasType env T x = true → hasType env T y = true →
      Equal.top env T x y = .ok (structEq env T x y))
    (ih : ∀ z, sizeOf z < sizeOf x → EqualOK env z) :
    ∀ F y, okComp env F = true → hasType env F x = true → hasType env F y = true →
    Equal.field env F x y = .ok (structEq env F x y) := by
  intro F y hF hx hy
  cases hc : canEqual env F with
  | true => rw [field_canEqual hc, goEq_eq_structEq hf y hc hx]
  | false =>
    have hUok := okTop_under he (okTop_of_okComp hF)
    have hnn := Env.under_not_named hf F
    cases hU : env.under F with
    | ptr R =>
      rw [hU] at hUok
      by_cases hRn : R.isNamed = true
      · have hcg : env.under F = env.under (.ptr R) := by rw [hU]; rfl
        rw [field_ptr_named hc hU hRn, structEq_congr hcg]
        exact htop (.ptr R) y hUok (by rwa [← hasType_congr hcg]) (by rwa [← hasType_congr hcg])
      · have hRn' : R.isNamed = false := by simpa using hRn
        simp only [okTop, okComp, Bool.and_eq_true] at hUok
        rw [field_ptr_unnamed hc hU hRn', structEq_ptr hU]
        rcases hasType_ptr_inv hU hx with rfl | ⟨a, v, rfl, hv⟩ <;>
          rcases hasType_ptr_inv hU hy with rfl | ⟨b, w, rfl, hw⟩ <;> try rfl
        exact (ih v (by simp <;> omega)).field R w hUok.2 hv hw
    | array n E =>
      rw [hU] at hUok
      have hcg : env.under F = env.under (.array n E) := by rw [hU]; rfl
      rw [field_array hc hU, structEq_congr hcg]
      exact htop _ y hUok (by rwa [← hasType_congr hcg]) (by rwa [← hasType_congr hcg])
    | slice E =>
      rw [hU] at hUok
      cases hb : isByte E with
      | true =>
        rw [field_slice_byte hc hU hb, structEq_slice hU]
        rcases hasType_slice_inv hU hx with rfl | ⟨a, sp, xs, rfl, hxs⟩ <;>
          rcases hasType_slice_inv hU hy with rfl | ⟨b, sp', ys, rfl, hys⟩ <;> try rfl
        simp only [bytesEqual]
        rw [goEq_eq_seqEq hf ys (isByte_canEqual hb) hxs]
      | false =>
        have hcg : env.under F = env.under (.slice E) := by rw [hU]; rfl
        rw [field_slice hc hU hb, structEq_congr hcg]
        exact htop _ y hUok (by rwa [← hasType_congr hcg]) (by rwa [← hasType_congr hcg])
    | map K V =>
      rw [hU] at hUok
      have hcg : env.under F = env.under (.map K V) := by rw [hU]; rfl
      rw [field_map hc hU, structEq_congr hcg]
      exact htop _ y hUok (by rwa [← hasType_congr hcg]) (by rwa [← hasType_congr hcg])
    | struct fs =>
      by_cases hn : F.isNamed = true
      · rw [field_struct_named hc hU hn]
        exact htop F y (okTop_of_okComp hF) hx hy
      · have hn' : F.isNamed = false := by simpa using hn
        rw [env.under_of_not_named hn'] at hU
        subst hU
        simp only [okComp] at hF
        rw [hF] at hc; cases hc
    | basic b =>
      rw [canEqual_eq_under hf (by rw [hU]; intro h; cases h), hU] at hc
      simp [canEqual] at hc
    | named i => rw [hU] at hnn; simp [Ty.isNamed] at hnn
    | _ => rw [hasType_bad (by rw [hU])] at hx; cases hx

end Steps

open Equal in
theorem equalOK {env : Env} (hf : env.flagsOk = true) (he : envOk env = true) (x : Val) :
    EqualOK env x := by
  induction x using Val.strongInduction with
  | step x ih =>
  have htop := EqualOK.step_top hf he x ih
  exact ⟨htop, EqualOK.step_field hf he x htop ih, EqualOK.step_fields x ih,
    EqualOK.step_elems x ih, EqualOK.step_entries hf x ih⟩

/-! ## Entry spines as lists -/

/-- a proper map-entry spine: `snil` or `scons (pair _ _) …` all the way down -/
def Val.isEntrySpine : Val → Bool
  | .snil => true
  | .scons (.pair _ _) r => isEntrySpine r
  | _ => false

theorem entriesHaveType_isEntrySpine {env : Env} {K V : Ty} :
    ∀ s, entriesHaveType env K V s = true → s.isEntrySpine = true := by
  intro s
  induction s using Val.strongInduction with
  | step s ih =>
  intro hs
  rcases entriesHaveType_inv hs with rfl | ⟨k, v, r, rfl, -, -, hr⟩
  · rfl
  · simp only [Val.isEntrySpine]; exact ih r (by simp <;> omega) hr

theorem sizeOf_lt_of_mem_toList {e : Val} : ∀ s : Val, e ∈ s.toList → sizeOf e < sizeOf s := by
  intro s
  induction s with
  | scons hd tl _ ih =>
    intro h
    simp only [Val.toList, List.mem_cons] at h
    rcases h with rfl | h
    · simp <;> omega
    · have := ih h; simp <;> omega
  | _ => intro h; simp [Val.toList] at h

theorem isEntrySpine_mem {e : Val} : ∀ s : Val, s.isEntrySpine = true → e ∈ s.toList →
    ∃ k v, e = .pair k v := by
  intro s
  induction s with
  | scons hd tl _ ih =>
    intro hs h
    cases hd with
    | pair k v =>
      simp only [Val.toList, List.mem_cons] at h
      rcases h with rfl | h
      · exact ⟨k, v, rfl⟩
      · exact ih (by simpa [Val.isEntrySpine] using hs) h
    | _ => simp [Val.isEntrySpine] at hs
  | _ => intro _ h; simp [Val.toList] at h

theorem entriesHaveType_mem {env : Env} {K V : Ty} {k v : Val} :
    ∀ s, entriesHaveType env K V s = true → .pair k v ∈ s.toList →
      hasType env K k = true ∧ hasType env V v = true := by
  intro s
  induction s using Val.strongInduction with
  | step s ih =>
  intro hs h
  rcases entriesHaveType_inv hs with rfl | ⟨k', v', r, rfl, hk, hv, hr⟩
  · simp [Val.toList] at h
  · simp only [Val.toList, List.mem_cons] at h
    rcases h with h | h
    · cases h; exact ⟨hk, hv⟩
    · exact ih r (by simp <;> omega) hr h

theorem nanFree_mem {e : Val} : ∀ s : Val, nanFree s = true → e ∈ s.toList → nanFree e = true := by
  intro s
  induction s with
  | scons hd tl _ ih =>
    intro hs h
    simp only [nanFree, Bool.and_eq_true] at hs
    simp only [Val.toList, List.mem_cons] at h
    rcases h with rfl | h
    · exact hs.1
    · exact ih hs.2 h
  | _ => intro _ h; simp [Val.toList] at h

theorem entriesIn_iff {env : Env} {K V : Ty} {ys : Val} :
    ∀ xs : Val, xs.isEntrySpine = true →
      (Spec.entriesIn env K V xs ys = true ↔
        ∀ k v, .pair k v ∈ xs.toList → Spec.valueAt env K V k v ys = true) := by
  intro xs
  induction xs with
  | snil => intro _; simp [Spec.entriesIn, Val.toList]
  | scons hd tl _ ih =>
    intro hs
    cases hd with
    | pair k v =>
      have hs' : tl.isEntrySpine = true := by simpa [Val.isEntrySpine] using hs
      rw [Spec.entriesIn, Bool.and_eq_true, ih hs']
      simp only [Val.toList, List.mem_cons]
      constructor
      · rintro ⟨h1, h2⟩ k' v' (h | h)
        · cases h; exact h1
        · exact h2 k' v' h
      · intro h
        exact ⟨h k v (Or.inl rfl), fun k' v' h' => h k' v' (Or.inr h')⟩
    | _ => simp [Val.isEntrySpine] at hs
  | _ => intro hs; simp [Val.isEntrySpine] at hs

theorem valueAt_iff {env : Env} {K V : Ty} {k v : Val} :
    ∀ ys : Val, ys.isEntrySpine = true →
      (Spec.valueAt env K V k v ys = true ↔
        ∃ k' w, .pair k' w ∈ ys.toList ∧ Spec.structEq env K k k' = true ∧
          Spec.structEq env V v w = true) := by
  intro ys
  induction ys with
  | snil => intro _; rw [Spec.valueAt.eq_def]; simp [Val.toList]
  | scons hd tl _ ih =>
    intro hs
    cases hd with
    | pair k' w =>
      have hs' : tl.isEntrySpine = true := by simpa [Val.isEntrySpine] using hs
      rw [Spec.valueAt.eq_1, Bool.or_eq_true, Bool.and_eq_true, ih hs']
      simp only [Val.toList, List.mem_cons]
      constructor
      · rintro (⟨h1, h2⟩ | ⟨k2, w2, hm, h1, h2⟩)
        · exact ⟨k', w, Or.inl rfl, h1, h2⟩
        · exact ⟨k2, w2, Or.inr hm, h1, h2⟩
      · rintro ⟨k2, w2, hm | hm, h1, h2⟩
        · cases hm; exact Or.inl ⟨h1, h2⟩
        · exact Or.inr ⟨k2, w2, hm, h1, h2⟩
    | _ => simp [Val.isEntrySpine] at hs
  | _ => intro hs; simp [Val.isEntrySpine] at hs

/-- a key that is fresh for a spine differs (under `==`) from every key of the spine -/
theorem keyFresh_mem {k k' w : Val} : ∀ s : Val, s.isEntrySpine = true → keyFresh k s = true →
    .pair k' w ∈ s.toList → goEq k k' = false := by
  intro s
  induction s with
  | scons hd tl _ ih =>
    intro hs hfr h
    cases hd with
    | pair k2 w2 =>
      simp only [keyFresh, Bool.and_eq_true, Bool.not_eq_true'] at hfr
      simp only [Val.toList, List.mem_cons] at h
      rcases h with h | h
      · cases h; exact hfr.1
      · exact ih (by simpa [Val.isEntrySpine] using hs) hfr.2 h
    | _ => simp [Val.isEntrySpine] at hs
  | _ => intro _ _ h; simp [Val.toList] at h

/-- the keys of a `keysDistinct` spine are pairwise different under `==` (earlier vs later) -/
theorem keysDistinct_pairwise : ∀ s : Val, s.isEntrySpine = true → keysDistinct s = true →
    s.toList.Pairwise (fun e1 e2 => ∀ k1 v1 k2 v2, e1 = .pair k1 v1 → e2 = .pair k2 v2 →
      goEq k1 k2 = false) := by
  intro s
  induction s with
  | scons hd tl _ ih =>
    intro hs hd'
    cases hd with
    | pair k v =>
      have hs' : tl.isEntrySpine = true := by simpa [Val.isEntrySpine] using hs
      simp only [keysDistinct, Bool.and_eq_true] at hd'
      simp only [Val.toList, List.pairwise_cons]
      refine ⟨?_, ih hs' hd'.2⟩
      intro e2 he2 k1 v1 k2 v2 h1 h2
      cases h1; subst h2
      exact keyFresh_mem tl hs' hd'.1 he2
    | _ => simp [Val.isEntrySpine] at hs
  | _ => intro _ _; simp [Val.toList]

/-- pigeonhole: a relation that is total from `xs` into `ys`, injective on `xs`, with `ys` no
longer than `xs`, is onto `ys` -/
theorem pigeon {α β : Type} (R : α → β → Prop) :
    ∀ (xs : List α) (ys : List β), ys.length ≤ xs.length →
      xs.Pairwise (fun a a' => ∀ b, R a b → R a' b → False) →
      (∀ a ∈ xs, ∃ b ∈ ys, R a b) → ∀ b ∈ ys, ∃ a ∈ xs, R a b := by
  intro xs
  induction xs with
  | nil =>
    intro ys hl _ _ b hb
    cases ys with
    | nil => cases hb
    | cons _ _ => simp at hl
  | cons a r ih =>
    intro ys hl hp hall b hb
    rw [List.pairwise_cons] at hp
    obtain ⟨b0, hb0, hR0⟩ := hall a (List.mem_cons_self ..)
    obtain ⟨s, t, rfl⟩ := List.append_of_mem hb0
    have hl' : (s ++ t).length ≤ r.length := by
      simp only [List.length_append, List.length_cons] at hl ⊢; omega
    have hall' : ∀ a' ∈ r, ∃ b ∈ s ++ t, R a' b := by
      intro a' ha'
      obtain ⟨b', hb', hR'⟩ := hall a' (List.mem_cons_of_mem _ ha')
      have hne : b' ≠ b0 := fun e => hp.1 a' ha' b0 hR0 (e ▸ hR')
      refine ⟨b', ?_, hR'⟩
      simp only [List.mem_append, List.mem_cons] at hb' ⊢
      rcases hb' with h | h | h
      · exact Or.inl h
      · exact absurd h hne
      · exact Or.inr h
    have IH := ih (s ++ t) hl' hp.2 hall'
    simp only [List.mem_append, List.mem_cons] at hb
    rcases hb with h | h | h
    · obtain ⟨a', ha', hR'⟩ := IH b (List.mem_append_left _ h)
      exact ⟨a', List.mem_cons_of_mem _ ha', hR'⟩
    · exact ⟨a, List.mem_cons_self .., h ▸ hR0⟩
    · obtain ⟨a', ha', hR'⟩ := IH b (List.mem_append_right _ h)
      exact ⟨a', List.mem_cons_of_mem _ ha', hR'⟩

/-! ## The specification is an equivalence on well-typed NaN-free values -/

section SpecEquiv
open Spec

theorem leafEq_refl {b : Basic} {x : Val} (hx : basicHasType b x = true) (hn : nanFree x = true) :
    leafEq x x = true := by
  cases x <;> (try (cases b <;> simp [basicHasType] at hx; done)) <;>
    simp only [leafEq, nanFree, Bool.and_eq_true, Bool.not_eq_true'] at hn ⊢
  · exact beq_self_eq_true _
  · exact beq_self_eq_true _
  · exact fltEq_refl _ _ hn
  · exact ⟨fltEq_refl _ _ hn.1, fltEq_refl _ _ hn.2⟩
  · exact beq_self_eq_true _

theorem leafEq_eq_goEq {b : Basic} {x : Val} (h : basicHasType b x = true) (y : Val) :
    leafEq x y = goEq x y := (goEq_eq_leafEq h y).symm

/-- reflexivity, in the three readings -/
structure ReflOK (env : Env) (x : Val) : Prop where
  val : ∀ T, hasType env T x = true → nanFree x = true → structEq env T x x = true
  seq : ∀ E, allHaveType env E x = true → nanFree x = true → seqEq env E x x = true
  flds : ∀ fs, fieldsHaveType env fs x = true → nanFree x = true → fieldsEq env fs x x = true

theorem reflOK {env : Env} (x : Val) : ReflOK env x := by
  induction x using Val.strongInduction with
  | step x ih =>
  refine ⟨?_, ?_, ?_⟩
  · intro T hx hn
    cases hU : env.under T with
    | basic b =>
      rw [structEq_basic hU]; exact leafEq_refl (by rwa [hasType_basic hU] at hx) hn
    | ptr R =>
      rw [structEq_ptr hU]
      rcases hasType_ptr_inv hU hx with rfl | ⟨a, v, rfl, hv⟩
      · rfl
      · exact (ih v (by simp <;> omega)).val R hv (by simpa [nanFree] using hn)
    | slice E =>
      rw [structEq_slice hU]
      rcases hasType_slice_inv hU hx with rfl | ⟨a, sp, xs, rfl, hxs⟩
      · rfl
      · exact (ih xs (by simp <;> omega)).seq E hxs (by simpa [nanFree] using hn)
    | array n E =>
      rw [structEq_array hU]
      obtain ⟨xs, rfl, -, hxs⟩ := hasType_array_inv hU hx
      exact (ih xs (by simp <;> omega)).seq E hxs (by simpa [nanFree] using hn)
    | struct fs =>
      rw [structEq_struct hU]
      obtain ⟨xs, rfl, hxs⟩ := hasType_struct_inv hU hx
      exact (ih xs (by simp <;> omega)).flds fs hxs (by simpa [nanFree] using hn)
    | map K V =>
      rw [structEq_map hU]
      rcases hasType_map_inv hU hx with rfl | ⟨a, xs, rfl, -, hxs, -⟩
      · rfl
      · have hsp := entriesHaveType_isEntrySpine xs hxs
        have hn' : nanFree xs = true := by simpa [nanFree] using hn
        simp only [beq_self_eq_true, Bool.true_and]
        rw [entriesIn_iff xs hsp]
        intro k v hm
        rw [valueAt_iff xs hsp]
        have hsz := sizeOf_lt_of_mem_toList xs hm
        have ht := entriesHaveType_mem xs hxs hm
        have hnkv := nanFree_mem xs hn' hm
        simp only [nanFree, Bool.and_eq_true] at hnkv
        have hk : sizeOf k < sizeOf (Val.map a xs) := by simp at hsz ⊢; omega
        have hv : sizeOf v < sizeOf (Val.map a xs) := by simp at hsz ⊢; omega
        exact ⟨k, v, hm, (ih k hk).val K ht.1 hnkv.1, (ih v hv).val V ht.2 hnkv.2⟩
    | _ => rw [hasType_bad (by rw [hU])] at hx; cases hx
  · intro E hx hn
    rcases allHaveType_inv hx with rfl | ⟨a, r, rfl, ha, hr⟩
    · rw [seqEq]
    · simp only [nanFree, Bool.and_eq_true] at hn
      rw [seqEq, (ih a (by simp <;> omega)).val E ha hn.1, (ih r (by simp <;> omega)).seq E hr hn.2]
      rfl
  · intro fs hx hn
    rcases fieldsHaveType_inv hx with ⟨rfl, rfl⟩ | ⟨F, rest, a, r, rfl, rfl, ha, hr⟩
    · rw [fieldsEq]
    · simp only [nanFree, Bool.and_eq_true] at hn
      rw [fieldsEq, (ih a (by simp <;> omega)).val F ha hn.1,
        (ih r (by simp <;> omega)).flds rest hr hn.2]
      rfl

/-- one direction of symmetry for maps: if every entry of `xs` has a partner in `ys`, the keys of
`xs` are distinct and `ys` is not longer, then every entry of `ys` has a partner in `xs` -/
theorem entriesIn_flip {env : Env} (hf : env.flagsOk = true) {K V : Ty} {xs ys : Val}
    (hK : canEqual env K = true)
    (hxs : entriesHaveType env K V xs = true) (hys : entriesHaveType env K V ys = true)
    (hd : keysDistinct xs = true) (hlen : ys.slen ≤ xs.slen)
    (hsym : ∀ k v k' w, .pair k v ∈ xs.toList → .pair k' w ∈ ys.toList →
      structEq env K k k' = true → structEq env V v w = true →
      structEq env K k' k = true ∧ structEq env V w v = true)
    (h : entriesIn env K V xs ys = true) : entriesIn env K V ys xs = true := by
  have hsx := entriesHaveType_isEntrySpine xs hxs
  have hsy := entriesHaveType_isEntrySpine ys hys
  let R : Val → Val → Prop := fun e1 e2 => ∃ k v k' w, e1 = .pair k v ∧ e2 = .pair k' w ∧
    hasType env K k' = true ∧ structEq env K k k' = true ∧ structEq env V v w = true
  have hpw := keysDistinct_pairwise xs hsx hd
  have hinj : xs.toList.Pairwise (fun a a' => ∀ b, R a b → R a' b → False) := by
    refine List.Pairwise.imp_of_mem ?_ hpw
    intro e1 e2 he1 he2 hne b ⟨k1, v1, k', w, h1, hb, hk't, hk1, _⟩
      ⟨k2, v2, k'', w', h2, hb', _, hk2, _⟩
    subst h1 h2 hb
    cases hb'
    obtain ⟨hk1t, _⟩ := entriesHaveType_mem xs hxs he1
    obtain ⟨hk2t, _⟩ := entriesHaveType_mem xs hxs he2
    rw [← goEq_eq_structEq hf _ hK hk1t] at hk1
    rw [← goEq_eq_structEq hf _ hK hk2t] at hk2
    have hne' := hne k1 v1 k2 v2 rfl rfl
    have : goEq k1 k2 = true :=
      goEq_trans hf hK hk1t hk't hk1 (by rw [goEq_symm hf hK hk't hk2t]; exact hk2)
    rw [hne'] at this; cases this
  have hall : ∀ a ∈ xs.toList, ∃ b ∈ ys.toList, R a b := by
    intro a ha
    obtain ⟨k, v, rfl⟩ := isEntrySpine_mem xs hsx ha
    obtain ⟨k', w, hm, h1, h2⟩ := (valueAt_iff ys hsy).mp ((entriesIn_iff xs hsx).mp h k v ha)
    exact ⟨_, hm, k, v, k', w, rfl, rfl, (entriesHaveType_mem ys hys hm).1, h1, h2⟩
  have hlen' : ys.toList.length ≤ xs.toList.length := by simpa using hlen
  have honto := pigeon R xs.toList ys.toList hlen' hinj hall
  rw [entriesIn_iff ys hsy]
  intro k' w hm
  rw [valueAt_iff xs hsx]
  obtain ⟨a, ha, k, v, k2, w2, rfl, hb, -, h1, h2⟩ := honto _ hm
  cases hb
  obtain ⟨h1', h2'⟩ := hsym k v k' w ha hm h1 h2
  exact ⟨k, v, ha, h1', h2'⟩

/-- symmetry, in the three readings -/
structure SymmOK (env : Env) (x : Val) : Prop where
  val : ∀ T y, hasType env T x = true → hasType env T y = true →
    structEq env T x y = structEq env T y x
  seq : ∀ E ys, allHaveType env E x = true → allHaveType env E ys = true →
    seqEq env E x ys = seqEq env E ys x
  flds : ∀ fs ys, fieldsHaveType env fs x = true → fieldsHaveType env fs ys = true →
    fieldsEq env fs x ys = fieldsEq env fs ys x

theorem symmOK {env : Env} (hf : env.flagsOk = true) (x : Val) : SymmOK env x := by
  induction x using Val.strongInduction with
  | step x ih =>
  refine ⟨?_, ?_, ?_⟩
  · intro T y hx hy
    cases hU : env.under T with
    | basic b =>
      rw [hasType_basic hU] at hx hy
      rw [structEq_basic hU, structEq_basic hU, leafEq_eq_goEq hx, leafEq_eq_goEq hy]
      exact goEq_basic_symm hx hy
    | ptr R =>
      rw [structEq_ptr hU, structEq_ptr hU]
      rcases hasType_ptr_inv hU hx with rfl | ⟨a, v, rfl, hv⟩ <;>
        rcases hasType_ptr_inv hU hy with rfl | ⟨b, w, rfl, hw⟩ <;> try rfl
      exact (ih v (by simp <;> omega)).val R w hv hw
    | slice E =>
      rw [structEq_slice hU, structEq_slice hU]
      rcases hasType_slice_inv hU hx with rfl | ⟨a, sp, xs, rfl, hxs⟩ <;>
        rcases hasType_slice_inv hU hy with rfl | ⟨b, sp', ys, rfl, hys⟩ <;> try rfl
      exact (ih xs (by simp <;> omega)).seq E ys hxs hys
    | array n E =>
      rw [structEq_array hU, structEq_array hU]
      obtain ⟨xs, rfl, -, hxs⟩ := hasType_array_inv hU hx
      obtain ⟨ys, rfl, -, hys⟩ := hasType_array_inv hU hy
      exact (ih xs (by simp <;> omega)).seq E ys hxs hys
    | struct fs =>
      rw [structEq_struct hU, structEq_struct hU]
      obtain ⟨xs, rfl, hxs⟩ := hasType_struct_inv hU hx
      obtain ⟨ys, rfl, hys⟩ := hasType_struct_inv hU hy
      exact (ih xs (by simp <;> omega)).flds fs ys hxs hys
    | map K V =>
      rw [structEq_map hU, structEq_map hU]
      rcases hasType_map_inv hU hx with rfl | ⟨a, xs, rfl, hK, hxs, hdx⟩ <;>
        rcases hasType_map_inv hU hy with rfl | ⟨b, ys, rfl, -, hys, hdy⟩ <;> try rfl
      simp only
      by_cases hl : xs.slen = ys.slen
      · have hb1 : (xs.slen == ys.slen) = true := by rw [hl]; exact beq_self_eq_true _
        have hb2 : (ys.slen == xs.slen) = true := by rw [hl]; exact beq_self_eq_true _
        rw [hb1, hb2, Bool.true_and, Bool.true_and]
        have hsymm : ∀ k v k' w, .pair k v ∈ xs.toList → .pair k' w ∈ ys.toList →
            structEq env K k k' = structEq env K k' k ∧ structEq env V v w = structEq env V w v := by
          intro k v k' w hm hm'
          have hsz := sizeOf_lt_of_mem_toList xs hm
          have ht := entriesHaveType_mem xs hxs hm
          have ht' := entriesHaveType_mem ys hys hm'
          have hk : sizeOf k < sizeOf (Val.map a xs) := by simp at hsz ⊢; omega
          have hv : sizeOf v < sizeOf (Val.map a xs) := by simp at hsz ⊢; omega
          exact ⟨(ih k hk).val K k' ht.1 ht'.1, (ih v hv).val V w ht.2 ht'.2⟩
        rw [Bool.eq_iff_iff]
        constructor
        · refine entriesIn_flip hf hK hxs hys hdx (by omega) ?_
          intro k v k' w hm hm' h1 h2
          obtain ⟨e1, e2⟩ := hsymm k v k' w hm hm'
          exact ⟨e1 ▸ h1, e2 ▸ h2⟩
        · refine entriesIn_flip hf hK hys hxs hdy (by omega) ?_
          intro k' w k v hm' hm h1 h2
          obtain ⟨e1, e2⟩ := hsymm k v k' w hm hm'
          exact ⟨e1.symm ▸ h1, e2.symm ▸ h2⟩
      · have hb1 : (xs.slen == ys.slen) = false := beq_eq_false_iff_ne.mpr hl
        have hb2 : (ys.slen == xs.slen) = false := beq_eq_false_iff_ne.mpr (Ne.symm hl)
        rw [hb1, hb2, Bool.false_and, Bool.false_and]
    | _ => rw [hasType_bad (by rw [hU])] at hx; cases hx
  · intro E ys hx hy
    rcases allHaveType_inv hx with rfl | ⟨a, r, rfl, ha, hr⟩ <;>
      rcases allHaveType_inv hy with rfl | ⟨b, s, rfl, hb, hs⟩ <;> try (simp only [seqEq])
    rw [(ih a (by simp <;> omega)).val E b ha hb, (ih r (by simp <;> omega)).seq E s hr hs]
  · intro fs ys hx hy
    rcases fieldsHaveType_inv hx with ⟨rfl, rfl⟩ | ⟨F, rest, a, r, rfl, rfl, ha, hr⟩
    · rcases fieldsHaveType_inv hy with ⟨-, rfl⟩ | ⟨_, _, _, _, h, _⟩
      · rfl
      · cases h
    · rcases fieldsHaveType_inv hy with ⟨h, -⟩ | ⟨F', rest', b, s, h, rfl, hb, hs⟩
      · cases h
      · cases h
        simp only [fieldsEq]
        rw [(ih a (by simp <;> omega)).val F b ha hb, (ih r (by simp <;> omega)).flds rest s hr hs]

/-- transitivity, in the three readings -/
structure TransOK (env : Env) (x : Val) : Prop where
  val : ∀ T y z, hasType env T x = true → hasType env T y = true → hasType env T z = true →
    structEq env T x y = true → structEq env T y z = true → structEq env T x z = true
  seq : ∀ E ys zs, allHaveType env E x = true → allHaveType env E ys = true →
    allHaveType env E zs = true →
    seqEq env E x ys = true → seqEq env E ys zs = true → seqEq env E x zs = true
  flds : ∀ fs ys zs, fieldsHaveType env fs x = true → fieldsHaveType env fs ys = true →
    fieldsHaveType env fs zs = true →
    fieldsEq env fs x ys = true → fieldsEq env fs ys zs = true → fieldsEq env fs x zs = true

theorem transOK {env : Env} (x : Val) : TransOK env x := by
  induction x using Val.strongInduction with
  | step x ih =>
  refine ⟨?_, ?_, ?_⟩
  · intro T y z hx hy hz h1 h2
    cases hU : env.under T with
    | basic b =>
      rw [hasType_basic hU] at hx hy hz
      rw [structEq_basic hU] at h1 h2 ⊢
      rw [leafEq_eq_goEq hx] at h1 ⊢
      rw [leafEq_eq_goEq hy] at h2
      exact goEq_basic_trans hx hy h1 h2
    | ptr R =>
      rw [structEq_ptr hU] at h1 h2 ⊢
      rcases hasType_ptr_inv hU hx with rfl | ⟨a, v, rfl, hv⟩ <;>
        rcases hasType_ptr_inv hU hy with rfl | ⟨b, w, rfl, hw⟩ <;>
        rcases hasType_ptr_inv hU hz with rfl | ⟨c, u, rfl, hu⟩ <;>
        first | rfl | (simp at h1; done) | (simp at h2; done) | skip
      exact (ih v (by simp <;> omega)).val R w u hv hw hu h1 h2
    | slice E =>
      rw [structEq_slice hU] at h1 h2 ⊢
      rcases hasType_slice_inv hU hx with rfl | ⟨a, sp, xs, rfl, hxs⟩ <;>
        rcases hasType_slice_inv hU hy with rfl | ⟨b, sp', ys, rfl, hys⟩ <;>
        rcases hasType_slice_inv hU hz with rfl | ⟨c, sp'', zs, rfl, hzs⟩ <;>
        first | rfl | (simp at h1; done) | (simp at h2; done) | skip
      exact (ih xs (by simp <;> omega)).seq E ys zs hxs hys hzs h1 h2
    | array n E =>
      rw [structEq_array hU] at h1 h2 ⊢
      obtain ⟨xs, rfl, -, hxs⟩ := hasType_array_inv hU hx
      obtain ⟨ys, rfl, -, hys⟩ := hasType_array_inv hU hy
      obtain ⟨zs, rfl, -, hzs⟩ := hasType_array_inv hU hz
      exact (ih xs (by simp <;> omega)).seq E ys zs hxs hys hzs h1 h2
    | struct fs =>
      rw [structEq_struct hU] at h1 h2 ⊢
      obtain ⟨xs, rfl, hxs⟩ := hasType_struct_inv hU hx
      obtain ⟨ys, rfl, hys⟩ := hasType_struct_inv hU hy
      obtain ⟨zs, rfl, hzs⟩ := hasType_struct_inv hU hz
      exact (ih xs (by simp <;> omega)).flds fs ys zs hxs hys hzs h1 h2
    | map K V =>
      rw [structEq_map hU] at h1 h2 ⊢
      rcases hasType_map_inv hU hx with rfl | ⟨a, xs, rfl, -, hxs, -⟩ <;>
        rcases hasType_map_inv hU hy with rfl | ⟨b, ys, rfl, -, hys, -⟩ <;>
        rcases hasType_map_inv hU hz with rfl | ⟨c, zs, rfl, -, hzs, -⟩ <;>
        first | rfl | (simp at h1; done) | (simp at h2; done) | skip
      simp only [Bool.and_eq_true, beq_iff_eq] at h1 h2 ⊢
      refine ⟨h1.1.trans h2.1, ?_⟩
      have hsx := entriesHaveType_isEntrySpine xs hxs
      have hsy := entriesHaveType_isEntrySpine ys hys
      have hsz := entriesHaveType_isEntrySpine zs hzs
      rw [entriesIn_iff xs hsx]
      intro k v hm
      obtain ⟨k', w, hm', e1, e2⟩ := (valueAt_iff ys hsy).mp ((entriesIn_iff xs hsx).mp h1.2 k v hm)
      obtain ⟨k'', u, hm'', e1', e2'⟩ :=
        (valueAt_iff zs hsz).mp ((entriesIn_iff ys hsy).mp h2.2 k' w hm')
      rw [valueAt_iff zs hsz]
      have hsize := sizeOf_lt_of_mem_toList xs hm
      have ht := entriesHaveType_mem xs hxs hm
      have ht' := entriesHaveType_mem ys hys hm'
      have ht'' := entriesHaveType_mem zs hzs hm''
      have hk : sizeOf k < sizeOf (Val.map a xs) := by simp at hsize ⊢; omega
      have hv : sizeOf v < sizeOf (Val.map a xs) := by simp at hsize ⊢; omega
      exact ⟨k'', u, hm'', (ih k hk).val K k' k'' ht.1 ht'.1 ht''.1 e1 e1',
        (ih v hv).val V w u ht.2 ht'.2 ht''.2 e2 e2'⟩
    | _ => rw [hasType_bad (by rw [hU])] at hx; cases hx
  · intro E ys zs hx hy hz h1 h2
    rcases allHaveType_inv hx with rfl | ⟨a, r, rfl, ha, hr⟩ <;>
      rcases allHaveType_inv hy with rfl | ⟨b, s, rfl, hb, hs⟩ <;>
      rcases allHaveType_inv hz with rfl | ⟨c, t, rfl, hc, ht⟩ <;>
      first | (rw [seqEq]; done) | (simp [seqEq] at h1; done) | (simp [seqEq] at h2; done) | skip
    simp only [seqEq, Bool.and_eq_true] at h1 h2 ⊢
    exact ⟨(ih a (by simp <;> omega)).val E b c ha hb hc h1.1 h2.1,
      (ih r (by simp <;> omega)).seq E s t hr hs ht h1.2 h2.2⟩
  · intro fs ys zs hx hy hz h1 h2
    rcases fieldsHaveType_inv hx with ⟨rfl, rfl⟩ | ⟨F, rest, a, r, rfl, rfl, ha, hr⟩
    · rcases fieldsHaveType_inv hz with ⟨-, rfl⟩ | ⟨_, _, _, _, h, _⟩
      · rw [fieldsEq]
      · cases h
    · rcases fieldsHaveType_inv hy with ⟨h, -⟩ | ⟨F', rest', b, s, h, rfl, hb, hs⟩
      · cases h
      · cases h
        rcases fieldsHaveType_inv hz with ⟨h, -⟩ | ⟨F', rest', c, t, h, rfl, hc, ht⟩
        · cases h
        · cases h
          simp only [fieldsEq, Bool.and_eq_true] at h1 h2 ⊢
          exact ⟨(ih a (by simp <;> omega)).val F b c ha hb hc h1.1 h2.1,
            (ih r (by simp <;> omega)).flds rest s t hr hs ht h1.2 h2.2⟩

end SpecEquiv

/-! ## Identity-insensitivity: addresses and spare capacity do not matter -/

/-- forget every heap identity: all addresses and all spare capacities become `0` -/
def eraseIds : Val → Val
  | .ptr _ v => .ptr 0 (eraseIds v)
  | .slice _ _ es => .slice 0 0 (eraseIds es)
  | .arr es => .arr (eraseIds es)
  | .struct fs => .struct (eraseIds fs)
  | .map _ es => .map 0 (eraseIds es)
  | .pair k v => .pair (eraseIds k) (eraseIds v)
  | .scons h t => .scons (eraseIds h) (eraseIds t)
  | v => v

section Erase
open Spec

theorem leafEq_eraseIds (x y : Val) : leafEq (eraseIds x) (eraseIds y) = leafEq x y := by
  cases x <;> cases y <;> rfl

theorem valueAt_eraseIds {env : Env} {K V : Ty} {k v : Val}
    (hk : ∀ T y, structEq env T (eraseIds k) (eraseIds y) = structEq env T k y)
    (hv : ∀ T y, structEq env T (eraseIds v) (eraseIds y) = structEq env T v y) :
    ∀ ys, valueAt env K V (eraseIds k) (eraseIds v) (eraseIds ys) = valueAt env K V k v ys := by
  intro ys
  induction ys with
  | scons hd tl _ ih =>
    cases hd with
    | pair k' w =>
      simp only [eraseIds]
      rw [valueAt.eq_1, valueAt.eq_1, hk, hv, ih]
    | _ => rw [valueAt.eq_def, valueAt.eq_def]; simp only [eraseIds]
  | _ => rw [valueAt.eq_def, valueAt.eq_def]; simp only [eraseIds]

structure EraseOK (env : Env) (x : Val) : Prop where
  val : ∀ T y, structEq env T (eraseIds x) (eraseIds y) = structEq env T x y
  seq : ∀ E ys, seqEq env E (eraseIds x) (eraseIds ys) = seqEq env E x ys
  flds : ∀ fs ys, fieldsEq env fs (eraseIds x) (eraseIds ys) = fieldsEq env fs x ys
  ents : ∀ K V ys, entriesIn env K V (eraseIds x) (eraseIds ys) = entriesIn env K V x ys

theorem slen_eraseIds (x : Val) : (eraseIds x).slen = x.slen := by
  induction x with
  | scons hd tl _ ih => simp only [eraseIds, Val.slen, ih]
  | _ => rfl

theorem eraseOK {env : Env} (x : Val) : EraseOK env x := by
  induction x using Val.strongInduction with
  | step x ih =>
  refine ⟨?_, ?_, ?_, ?_⟩
  · intro T y
    cases hU : env.under T with
    | basic b => rw [structEq_basic hU, structEq_basic hU, leafEq_eraseIds]
    | ptr R =>
      rw [structEq_ptr hU, structEq_ptr hU]
      cases x with
      | ptr a v =>
        cases y with
        | ptr b w => exact (ih v (by simp <;> omega)).val R w
        | _ => rfl
      | _ => cases y <;> rfl
    | slice E =>
      rw [structEq_slice hU, structEq_slice hU]
      cases x with
      | slice a sp xs =>
        cases y with
        | slice b sp' ys => exact (ih xs (by simp <;> omega)).seq E ys
        | _ => rfl
      | _ => cases y <;> rfl
    | array n E =>
      rw [structEq_array hU, structEq_array hU]
      cases x with
      | arr xs =>
        cases y with
        | arr ys => exact (ih xs (by simp <;> omega)).seq E ys
        | _ => rfl
      | _ => cases y <;> rfl
    | struct fs =>
      rw [structEq_struct hU, structEq_struct hU]
      cases x with
      | struct xs =>
        cases y with
        | struct ys => exact (ih xs (by simp <;> omega)).flds fs ys
        | _ => rfl
      | _ => cases y <;> rfl
    | map K V =>
      rw [structEq_map hU, structEq_map hU]
      cases x with
      | map a xs =>
        cases y with
        | map b ys =>
          simp only [eraseIds]
          rw [slen_eraseIds, slen_eraseIds, (ih xs (by simp <;> omega)).ents K V ys]
        | _ => rfl
      | _ => cases y <;> rfl
    | _ => rw [structEq.eq_def, structEq.eq_def, hU]
  · intro E ys
    rw [seqEq.eq_def, seqEq.eq_def]
    cases x with
    | scons a r =>
      cases ys with
      | scons b s =>
        simp only [eraseIds]
        rw [(ih a (by simp <;> omega)).val E b, (ih r (by simp <;> omega)).seq E s]
      | _ => rfl
    | _ => cases ys <;> rfl
  · intro fs ys
    rw [fieldsEq.eq_def, fieldsEq.eq_def]
    cases x with
    | scons a r =>
      cases ys with
      | scons b s =>
        cases fs with
        | fcons F rest =>
          simp only [eraseIds]
          rw [(ih a (by simp <;> omega)).val F b, (ih r (by simp <;> omega)).flds rest s]
        | _ => rfl
      | _ => cases fs <;> rfl
    | _ => cases fs <;> cases ys <;> rfl
  · intro K V ys
    rw [entriesIn.eq_def, entriesIn.eq_def]
    cases x with
    | scons hd r =>
      cases hd with
      | pair k v =>
        simp only [eraseIds]
        rw [valueAt_eraseIds (ih k (by simp <;> omega)).val (ih v (by simp <;> omega)).val ys,
          (ih r (by simp <;> omega)).ents K V ys]
      | _ => rfl
    | _ => rfl

theorem structEq_eraseIds' (env : Env) (T : Ty) (x y : Val) :
    structEq env T (eraseIds x) (eraseIds y) = structEq env T x y := (eraseOK x).val T y

theorem goEq_eraseIds (x y : Val) : goEq (eraseIds x) (eraseIds y) = goEq x y := by
  induction x generalizing y with
  | arr xs ih => cases y <;> first | rfl | (simp only [eraseIds, goEq]; exact ih _)
  | struct xs ih => cases y <;> first | rfl | (simp only [eraseIds, goEq]; exact ih _)
  | scons a r iha ihr => cases y <;> first | rfl | (simp only [eraseIds, goEq]; rw [iha, ihr])
  | _ => cases y <;> rfl

theorem keyFresh_eraseIds (k : Val) : ∀ s, keyFresh (eraseIds k) (eraseIds s) = keyFresh k s := by
  intro s
  induction s with
  | scons hd tl _ ih =>
    cases hd with
    | pair k' w => simp only [eraseIds, keyFresh, goEq_eraseIds, ih]
    | _ => rfl
  | _ => rfl

theorem keysDistinct_eraseIds : ∀ s, keysDistinct (eraseIds s) = keysDistinct s := by
  intro s
  induction s with
  | scons hd tl _ ih =>
    cases hd with
    | pair k' w => simp only [eraseIds, keysDistinct, keyFresh_eraseIds, ih]
    | _ => rfl
  | _ => rfl

theorem basicHasType_eraseIds (b : Basic) (x : Val) :
    basicHasType b (eraseIds x) = basicHasType b x := by
  cases x <;> cases b <;> rfl

structure EraseTyOK (env : Env) (x : Val) : Prop where
  val : ∀ T, hasType env T (eraseIds x) = hasType env T x
  seq : ∀ E, allHaveType env E (eraseIds x) = allHaveType env E x
  flds : ∀ fs, fieldsHaveType env fs (eraseIds x) = fieldsHaveType env fs x
  ents : ∀ K V, entriesHaveType env K V (eraseIds x) = entriesHaveType env K V x

theorem eraseTyOK {env : Env} (x : Val) : EraseTyOK env x := by
  induction x using Val.strongInduction with
  | step x ih =>
  refine ⟨?_, ?_, ?_, ?_⟩
  · intro T
    rw [hasType.eq_def, hasType.eq_def]
    cases hU : env.under T with
    | basic b => exact basicHasType_eraseIds b x
    | ptr R =>
      cases x with
      | ptr a v => exact (ih v (by simp <;> omega)).val R
      | _ => rfl
    | slice E =>
      cases x with
      | slice a sp xs => exact (ih xs (by simp <;> omega)).seq E
      | _ => rfl
    | array n E =>
      cases x with
      | arr xs =>
        simp only [eraseIds]
        rw [slen_eraseIds, (ih xs (by simp <;> omega)).seq E]
      | _ => rfl
    | struct fs =>
      cases x with
      | struct xs => exact (ih xs (by simp <;> omega)).flds fs
      | _ => rfl
    | map K V =>
      cases x with
      | map a xs =>
        simp only [eraseIds]
        rw [keysDistinct_eraseIds, (ih xs (by simp <;> omega)).ents K V]
      | _ => rfl
    | _ => rfl
  · intro E
    rw [allHaveType.eq_def, allHaveType.eq_def]
    cases x with
    | scons a r =>
      simp only [eraseIds]
      rw [(ih a (by simp <;> omega)).val E, (ih r (by simp <;> omega)).seq E]
    | _ => rfl
  · intro fs
    rw [fieldsHaveType.eq_def, fieldsHaveType.eq_def]
    cases x with
    | scons a r =>
      cases fs with
      | fcons F rest =>
        simp only [eraseIds]
        rw [(ih a (by simp <;> omega)).val F, (ih r (by simp <;> omega)).flds rest]
      | _ => rfl
    | _ => cases fs <;> rfl
  · intro K V
    rw [entriesHaveType.eq_def, entriesHaveType.eq_def]
    cases x with
    | scons hd r =>
      cases hd with
      | pair k v =>
        simp only [eraseIds]
        rw [(ih k (by simp <;> omega)).val K, (ih v (by simp <;> omega)).val V,
          (ih r (by simp <;> omega)).ents K V]
      | _ => rfl
    | _ => rfl

theorem hasType_eraseIds (env : Env) (T : Ty) (x : Val) :
    hasType env T (eraseIds x) = hasType env T x := (eraseTyOK x).val T

theorem nanFree_eraseIds (x : Val) : nanFree (eraseIds x) = nanFree x := by
  induction x <;> simp_all [eraseIds, nanFree]

end Erase

/-! ## Insertion-order insensitivity -/

section Perm
open Spec

theorem valueAt_perm {env : Env} {K V : Ty} {k v es es' : Val}
    (hs : es.isEntrySpine = true) (hs' : es'.isEntrySpine = true)
    (hp : es.toList.Perm es'.toList) :
    valueAt env K V k v es = valueAt env K V k v es' := by
  rw [Bool.eq_iff_iff, valueAt_iff es hs, valueAt_iff es' hs']
  constructor
  · rintro ⟨k', w, hm, h⟩; exact ⟨k', w, hp.mem_iff.mp hm, h⟩
  · rintro ⟨k', w, hm, h⟩; exact ⟨k', w, hp.mem_iff.mpr hm, h⟩

theorem entriesIn_perm_left {env : Env} {K V : Ty} {es es' ys : Val}
    (hs : es.isEntrySpine = true) (hs' : es'.isEntrySpine = true)
    (hp : es.toList.Perm es'.toList) :
    entriesIn env K V es ys = entriesIn env K V es' ys := by
  rw [Bool.eq_iff_iff, entriesIn_iff es hs, entriesIn_iff es' hs']
  constructor
  · intro h k v hm; exact h k v (hp.mem_iff.mpr hm)
  · intro h k v hm; exact h k v (hp.mem_iff.mp hm)

theorem entriesIn_perm_right {env : Env} {K V : Ty} {es es' : Val}
    (hs : es.isEntrySpine = true) (hs' : es'.isEntrySpine = true)
    (hp : es.toList.Perm es'.toList) :
    ∀ ys, entriesIn env K V ys es = entriesIn env K V ys es' := by
  intro ys
  induction ys with
  | scons hd tl _ ih =>
    cases hd with
    | pair k v => rw [entriesIn, entriesIn, valueAt_perm hs hs' hp, ih]
    | _ => rw [entriesIn.eq_def, entriesIn.eq_def]
  | _ => rw [entriesIn.eq_def, entriesIn.eq_def]

theorem hasType_map_under {env : Env} {T : Ty} {a : Nat} {es : Val}
    (h : hasType env T (.map a es) = true) :
    ∃ K V, env.under T = .map K V ∧ entriesHaveType env K V es = true := by
  rw [hasType.eq_def] at h
  cases hU : env.under T with
  | map K V =>
    rw [hU] at h
    simp only [Bool.and_eq_true] at h
    exact ⟨K, V, rfl, h.1.2⟩
  | basic b => rw [hU] at h; cases b <;> simp [basicHasType] at h
  | _ => rw [hU] at h; simp at h

theorem structEq_map_perm_left' {env : Env} {T : Ty} {a a' : Nat} {es es' : Val} (y : Val)
    (h1 : hasType env T (.map a es) = true) (h2 : hasType env T (.map a' es') = true)
    (hp : es.toList.Perm es'.toList) :
    structEq env T (.map a es) y = structEq env T (.map a' es') y := by
  obtain ⟨K, V, hU, he⟩ := hasType_map_under h1
  obtain ⟨K', V', hU', he'⟩ := hasType_map_under h2
  rw [hU] at hU'; cases hU'
  have hs := entriesHaveType_isEntrySpine es he
  have hs' := entriesHaveType_isEntrySpine es' he'
  rw [structEq_map hU, structEq_map hU]
  cases y with
  | map b ys =>
    simp only
    rw [entriesIn_perm_left hs hs' hp, Val.slen_eq_length es, Val.slen_eq_length es', hp.length_eq]
  | _ => rfl

theorem structEq_map_perm_right' {env : Env} {T : Ty} {a a' : Nat} {es es' : Val} (y : Val)
    (h1 : hasType env T (.map a es) = true) (h2 : hasType env T (.map a' es') = true)
    (hp : es.toList.Perm es'.toList) :
    structEq env T y (.map a es) = structEq env T y (.map a' es') := by
  obtain ⟨K, V, hU, he⟩ := hasType_map_under h1
  obtain ⟨K', V', hU', he'⟩ := hasType_map_under h2
  rw [hU] at hU'; cases hU'
  have hs := entriesHaveType_isEntrySpine es he
  have hs' := entriesHaveType_isEntrySpine es' he'
  rw [structEq_map hU, structEq_map hU]
  cases y with
  | map b ys =>
    simp only
    rw [entriesIn_perm_right hs hs' hp, Val.slen_eq_length es, Val.slen_eq_length es', hp.length_eq]
  | _ => rfl

end Perm

/-! ## Evaluation lemmas (for concrete examples: the functions are defined by well-founded
recursion, so `decide` cannot run them; `simp [hasType_eval…]` can) -/

section Eval
variable (env : Env)

theorem hasType_eval_named (i : Nat) (v : Val) (h : (env.under (.named i)).isNamed = false) :
    hasType env (.named i) v = hasType env (env.under (.named i)) v :=
  hasType_congr (env.under_of_not_named h).symm v
theorem hasType_eval_basic (b : Basic) (v : Val) : hasType env (.basic b) v = basicHasType b v :=
  hasType.eq_1 env _ v b rfl
theorem hasType_eval_ptr_nil (R : Ty) : hasType env (.ptr R) .nilv = true :=
  hasType.eq_2 env _ R rfl
theorem hasType_eval_ptr (R : Ty) (a : Nat) (v : Val) :
    hasType env (.ptr R) (.ptr a v) = hasType env R v := hasType.eq_3 env _ R a v rfl
theorem hasType_eval_slice_nil (E : Ty) : hasType env (.slice E) .nilv = true :=
  hasType.eq_4 env _ E rfl
theorem hasType_eval_slice (E : Ty) (a s : Nat) (xs : Val) :
    hasType env (.slice E) (.slice a s xs) = allHaveType env E xs := hasType.eq_5 env _ E a s xs rfl
theorem hasType_eval_array (n : Nat) (E : Ty) (xs : Val) :
    hasType env (.array n E) (.arr xs) = (xs.slen == n && allHaveType env E xs) :=
  hasType.eq_6 env _ n E xs rfl
theorem hasType_eval_struct (fs : Ty) (xs : Val) :
    hasType env (.struct fs) (.struct xs) = fieldsHaveType env fs xs := hasType.eq_7 env _ fs xs rfl
theorem hasType_eval_map_nil (K V : Ty) : hasType env (.map K V) .nilv = true :=
  hasType.eq_8 env _ K V rfl
theorem hasType_eval_map (K V : Ty) (a : Nat) (es : Val) :
    hasType env (.map K V) (.map a es) =
      (canEqual env K && entriesHaveType env K V es && keysDistinct es) :=
  hasType.eq_9 env _ K V a es rfl

open Spec in
theorem structEq_eval_named (i : Nat) (x y : Val) (h : (env.under (.named i)).isNamed = false) :
    structEq env (.named i) x y = structEq env (env.under (.named i)) x y :=
  structEq_congr (env.under_of_not_named h).symm x y
open Spec in
theorem structEq_eval_basic (b : Basic) (x y : Val) : structEq env (.basic b) x y = leafEq x y :=
  structEq_basic rfl x y
open Spec in
theorem structEq_eval_ptr (R : Ty) (x y : Val) :
    structEq env (.ptr R) x y =
      match x, y with
      | .nilv, .nilv => true
      | .ptr _ a, .ptr _ b => structEq env R a b
      | _, _ => false := structEq_ptr rfl x y
open Spec in
theorem structEq_eval_slice (E : Ty) (x y : Val) :
    structEq env (.slice E) x y =
      match x, y with
      | .nilv, .nilv => true
      | .slice _ _ xs, .slice _ _ ys => seqEq env E xs ys
      | _, _ => false := structEq_slice rfl x y
open Spec in
theorem structEq_eval_array (n : Nat) (E : Ty) (x y : Val) :
    structEq env (.array n E) x y =
      match x, y with
      | .arr xs, .arr ys => seqEq env E xs ys
      | _, _ => false := structEq_array rfl x y
open Spec in
theorem structEq_eval_struct (fs : Ty) (x y : Val) :
    structEq env (.struct fs) x y =
      match x, y with
      | .struct xs, .struct ys => fieldsEq env fs xs ys
      | _, _ => false := structEq_struct rfl x y
open Spec in
theorem structEq_eval_map (K V : Ty) (x y : Val) :
    structEq env (.map K V) x y =
      match x, y with
      | .nilv, .nilv => true
      | .map _ xs, .map _ ys => xs.slen == ys.slen && entriesIn env K V xs ys
      | _, _ => false := structEq_map rfl x y

end Eval

/-- evaluate the well-founded model/spec/typing functions on concrete data -/
syntax "goderive_eval" (" [" Lean.Parser.Tactic.simpLemma,* "]")? : tactic
macro_rules
  | `(tactic| goderive_eval) => `(tactic| goderive_eval [])
  | `(tactic| goderive_eval [$ls,*]) => `(tactic|
      simp +decide [hasType_eval_named, hasType_eval_basic, hasType_eval_ptr_nil, hasType_eval_ptr,
        hasType_eval_slice_nil, hasType_eval_slice, hasType_eval_array, hasType_eval_struct,
        hasType_eval_map_nil, hasType_eval_map, fieldsHaveType, allHaveType, entriesHaveType,
        structEq_eval_named, structEq_eval_basic, structEq_eval_ptr, structEq_eval_slice,
        structEq_eval_array, structEq_eval_struct, structEq_eval_map,
        Spec.fieldsEq, Spec.seqEq, Spec.entriesIn, Spec.valueAt, leafEq, fltEq,
        Env.under, Env.decl?, Ty.isNamed, Val.slen, basicHasType, intInRange, keysDistinct,
        keyFresh, goEq, canEqual, $ls,*])

/-! ## A concrete world for the non-vacuity examples of Props/C02.lean -/

namespace C02
set_option linter.unusedSimpArgs false

/-!
```go
type Node struct { N int64; Next *Node; Tags []string; Pts map[string]Pt; Raw []byte }   // named 0
type Pt   struct { X, Y float64 }                                                       // named 1
```
-/

def env : Env := { decls := [
  { under := .struct (.fcons (.basic (.int 64 true)) (.fcons (.ptr (.named 0))
      (.fcons (.slice (.basic .string)) (.fcons (.map (.basic .string) (.named 1))
      (.fcons (.slice (.basic (.int 8 false))) .fnil))))), canEq := false },
  { under := .struct (.fcons (.basic (.float 64)) (.fcons (.basic (.float 64)) .fnil)),
    canEq := true } ] }

def tNode : Ty := .named 0

def pt (a b : Nat) : Val := .struct (.scons (.flt 64 a) (.scons (.flt 64 b) .snil))

/-- `Node{N: 2}`: every pointer, slice and map nil -/
def leaf : Val :=
  .struct (.scons (.int 2) (.scons .nilv (.scons .nilv (.scons .nilv (.scons .nilv .snil)))))

/-- `Node{N: n, Next: &leaf, Tags: {"hi"}, Pts: {"a": {+0|-0, 1}, "b": {5, 6}}, Raw: {1, 2}}` with the
given heap addresses, spare capacity and map insertion order; `z` is the bit pattern of `Pts["a"].X` -/
def node (n : Int) (a1 a2 a3 a4 spare : Nat) (z : Nat) (order : Bool) : Val :=
  .struct (.scons (.int n) (.scons (.ptr a1 leaf)
    (.scons (.slice a2 spare (.scons (.str [104, 105]) .snil))
    (.scons (.map a3 (if order then
        .scons (.pair (.str [97]) (pt z 1)) (.scons (.pair (.str [98]) (pt 5 6)) .snil)
      else .scons (.pair (.str [98]) (pt 5 6)) (.scons (.pair (.str [97]) (pt z 1)) .snil)))
    (.scons (.slice a4 0 (.scons (.int 1) (.scons (.int 2) .snil))) .snil)))))

/-- two structurally identical values: different addresses, spare capacity, map order, `+0` vs `-0` -/
def x1 : Val := node 1 10 11 12 13 3 0 true
def y1 : Val := node 1 20 21 22 23 0 (2 ^ 63) false
/-- a structurally different one (`N`) -/
def z1 : Val := node 7 10 11 12 13 3 0 true

theorem env_flagsOk : env.flagsOk = true := by decide
theorem env_supported : Supported env tNode = true := by decide
theorem env_supportedComp : SupportedComp env tNode = true := by decide
theorem x1_typed : hasType env tNode x1 = true := by goderive_eval [env, tNode, x1, node, leaf, pt]
theorem y1_typed : hasType env tNode y1 = true := by goderive_eval [env, tNode, y1, node, leaf, pt]
theorem z1_typed : hasType env tNode z1 = true := by goderive_eval [env, tNode, z1, node, leaf, pt]
theorem x1_nanFree : nanFree x1 = true := by decide
theorem y1_nanFree : nanFree y1 = true := by decide
theorem z1_nanFree : nanFree z1 = true := by decide
theorem x1_y1_structEq : Spec.structEq env tNode x1 y1 = true := by
  goderive_eval [env, tNode, x1, y1, node, leaf, pt]
theorem x1_z1_structEq : Spec.structEq env tNode x1 z1 = false := by
  goderive_eval [env, tNode, x1, z1, node, leaf, pt]

/-- a map type over the example world: `map[string]Pt`, and two insertion orders of one map -/
def tMap : Ty := .map (.basic .string) (.named 1)
def m1 : Val := .scons (.pair (.str [97]) (pt 0 1)) (.scons (.pair (.str [98]) (pt 5 6)) .snil)
def m2 : Val := .scons (.pair (.str [98]) (pt 5 6)) (.scons (.pair (.str [97]) (pt 0 1)) .snil)

theorem m1_typed (a : Nat) : hasType env tMap (.map a m1) = true := by
  goderive_eval [env, tMap, m1, pt]
theorem m2_typed (a : Nat) : hasType env tMap (.map a m2) = true := by
  goderive_eval [env, tMap, m2, pt]
theorem m1_perm_m2 : m1.toList.Perm m2.toList := by
  simp only [m1, m2, Val.toList]; exact List.Perm.swap ..

end C02

end Goderive
