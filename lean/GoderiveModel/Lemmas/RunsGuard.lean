/-
  Lemmas/RunsGuard — evaluation of the `Guard` formulas of Generated/Facts.lean (conditions on len(typs) known
  to hold where `typs[k]` is evaluated) and the lemma that lets a bounded check by `decide` speak about every
  argument count.
-/
import GoderiveModel.Generated.Facts

namespace Goderive.Generated

/-- truth of a guard for an argument count L -/
def Guard.eval : Guard → Nat → Bool
  | .tt, _ => true
  | .ff, _ => false
  | .eq n, L => L == n
  | .ne n, L => L != n
  | .lt n, L => decide (L < n)
  | .le n, L => decide (L ≤ n)
  | .gt n, L => decide (L > n)
  | .ge n, L => decide (L ≥ n)
  | .and a b, L => a.eval L && b.eval L
  | .or a b, L => a.eval L || b.eval L
  | .not a, L => !a.eval L

/-- the largest constant a guard mentions -/
def Guard.maxConst : Guard → Nat
  | .tt | .ff => 0
  | .eq n | .ne n | .lt n | .le n | .gt n | .ge n => n
  | .and a b | .or a b => max a.maxConst b.maxConst
  | .not a => a.maxConst

/-- beyond its largest constant a guard no longer changes -/
theorem Guard.eval_stable : ∀ (g : Guard) {L₁ L₂ : Nat}, g.maxConst < L₁ → g.maxConst < L₂ → g.eval L₁ = g.eval L₂
  | .tt, _, _, _, _ => rfl
  | .ff, _, _, _, _ => rfl
  | .eq n, L₁, L₂, h1, h2 => by
    simp only [Guard.maxConst] at h1 h2
    simp only [Guard.eval]
    rw [beq_eq_false_iff_ne.2 (by omega), beq_eq_false_iff_ne.2 (by omega)]
  | .ne n, L₁, L₂, h1, h2 => by
    simp only [Guard.maxConst] at h1 h2
    simp only [Guard.eval, bne]
    rw [beq_eq_false_iff_ne.2 (by omega), beq_eq_false_iff_ne.2 (by omega)]
  | .lt n, L₁, L₂, h1, h2 => by
    simp only [Guard.maxConst] at h1 h2
    simp only [Guard.eval]
    rw [decide_eq_false (by omega), decide_eq_false (by omega)]
  | .le n, L₁, L₂, h1, h2 => by
    simp only [Guard.maxConst] at h1 h2
    simp only [Guard.eval]
    rw [decide_eq_false (by omega), decide_eq_false (by omega)]
  | .gt n, L₁, L₂, h1, h2 => by
    simp only [Guard.maxConst] at h1 h2
    simp only [Guard.eval]
    rw [decide_eq_true (by omega), decide_eq_true (by omega)]
  | .ge n, L₁, L₂, h1, h2 => by
    simp only [Guard.maxConst] at h1 h2
    simp only [Guard.eval]
    rw [decide_eq_true (by omega), decide_eq_true (by omega)]
  | .and a b, L₁, L₂, h1, h2 => by
    simp only [Guard.maxConst] at h1 h2
    simp only [Guard.eval]
    rw [a.eval_stable (L₁ := L₁) (L₂ := L₂) (by omega) (by omega),
        b.eval_stable (L₁ := L₁) (L₂ := L₂) (by omega) (by omega)]
  | .or a b, L₁, L₂, h1, h2 => by
    simp only [Guard.maxConst] at h1 h2
    simp only [Guard.eval]
    rw [a.eval_stable (L₁ := L₁) (L₂ := L₂) (by omega) (by omega),
        b.eval_stable (L₁ := L₁) (L₂ := L₂) (by omega) (by omega)]
  | .not a, L₁, L₂, h1, h2 => by
    simp only [Guard.maxConst] at h1 h2
    simp only [Guard.eval]
    rw [a.eval_stable (L₁ := L₁) (L₂ := L₂) h1 h2]

/-- checked by evaluation: for every argument count up to `bound`, the guard implies index < count; and the
bound lies beyond every constant involved -/
def IndexUse.safeUpTo (u : IndexUse) (bound : Nat) : Bool :=
  decide (u.guard.maxConst < bound) && decide (u.index < bound) &&
    (List.range (bound + 1)).all (fun L => !u.guard.eval L || decide (u.index < L))

theorem IndexUse.safe_of_safeUpTo {u : IndexUse} {bound : Nat} (h : u.safeUpTo bound = true) :
    ∀ L, u.guard.eval L = true → u.index < L := by
  simp only [IndexUse.safeUpTo, Bool.and_eq_true, decide_eq_true_eq, List.all_eq_true, List.mem_range,
    Bool.or_eq_true, Bool.not_eq_true'] at h
  obtain ⟨⟨hc, hi⟩, hall⟩ := h
  intro L hL
  by_cases hb : L ≤ bound
  · rcases hall L (by omega) with h | h
    · rw [hL] at h; cases h
    · exact h
  · have : u.guard.eval bound = true := by
      rw [← hL]; exact u.guard.eval_stable hc (by omega)
    rcases hall bound (by omega) with h | h
    · rw [this] at h; cases h
    · omega

end Goderive.Generated
