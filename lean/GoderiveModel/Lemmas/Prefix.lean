/-
Helper lemmas about prefixes: the byte order `ltBytes`, the comparison `pluginLess` of `sortPlugins`,
first-match dispatch (`handler`, `dispatch`), insertion sort, uniqueness of sorted permutations, and the
renamings `rho` / `rename`.
-/
import GoderiveModel.G.Prefix

namespace Goderive.G

/-! ### `ltBytes` is a strict total order -/

theorem ltBytes_irrefl : ∀ (a : Name), ltBytes a a = false
  | [] => rfl
  | x :: xs => by simp [ltBytes, ltBytes_irrefl xs]

theorem ltBytes_asymm : ∀ {a b : Name}, ltBytes a b = true → ltBytes b a = false
  | [], [], h => by simp [ltBytes] at h
  | [], _ :: _, _ => by simp [ltBytes]
  | _ :: _, [], h => by simp [ltBytes] at h
  | x :: xs, y :: ys, h => by
    simp only [ltBytes] at h ⊢
    by_cases h1 : x < y
    · have : ¬ y < x := by omega
      simp [this, h1]
    · by_cases h2 : y < x
      · simp [h1, h2] at h
      · simp only [h1, h2, if_false] at h ⊢
        exact ltBytes_asymm h

theorem ltBytes_total : ∀ {a b : Name}, a ≠ b → ltBytes a b = true ∨ ltBytes b a = true
  | [], [], h => absurd rfl h
  | [], _ :: _, _ => Or.inl (by simp [ltBytes])
  | _ :: _, [], _ => Or.inr (by simp [ltBytes])
  | x :: xs, y :: ys, h => by
    simp only [ltBytes]
    by_cases h1 : x < y
    · exact Or.inl (by simp [h1])
    · by_cases h2 : y < x
      · exact Or.inr (by simp [h2])
      · have hxy : x = y := by omega
        subst hxy
        have : xs ≠ ys := fun e => h (by rw [e])
        simp only [h1, if_false]
        exact ltBytes_total this

theorem ltBytes_append_left (p : Name) : ∀ (a b : Name), ltBytes (p ++ a) (p ++ b) = ltBytes a b := by
  induction p with
  | nil => intro a b; rfl
  | cons x xs ih => intro a b; simp [ltBytes, ih]

theorem pluginLess_irrefl (a : Name) : pluginLess a a = false := by
  simp [pluginLess, ltBytes_irrefl]

theorem pluginLess_asymm {a b : Name} (h : pluginLess a b = true) : pluginLess b a = false := by
  unfold pluginLess at h ⊢
  by_cases hl : a.length = b.length
  · simp only [hl, if_true] at h ⊢
    exact ltBytes_asymm h
  · have hl' : ¬ b.length = a.length := fun e => hl e.symm
    simp only [hl, hl', if_false] at h ⊢
    simp only [decide_eq_true_eq] at h
    simp only [decide_eq_false_iff_not]
    omega

theorem pluginLess_total {a b : Name} (h : a ≠ b) : pluginLess a b = true ∨ pluginLess b a = true := by
  unfold pluginLess
  by_cases hl : a.length = b.length
  · simp only [hl, if_true]
    exact (ltBytes_total h).symm
  · have hl' : ¬ b.length = a.length := fun e => hl e.symm
    simp only [hl, hl', if_false, decide_eq_true_eq]
    omega

/-! ### sorted permutations are unique -/

/-- two lists sorted by an asymmetric relation that are permutations of each other are equal -/
theorem eq_of_perm_of_pairwise {α : Type} {r : α → α → Prop} (hasym : ∀ a b, r a b → ¬ r b a) :
    ∀ {l₁ l₂ : List α}, l₁.Perm l₂ → l₁.Pairwise r → l₂.Pairwise r → l₁ = l₂
  | [], l₂, hp, _, _ => by
    have := hp.length_eq
    cases l₂ with
    | nil => rfl
    | cons _ _ => simp at this
  | a :: l₁, [], hp, _, _ => by
    have := hp.length_eq
    simp at this
  | a :: l₁, b :: l₂, hp, h1, h2 => by
    rw [List.pairwise_cons] at h1 h2
    have hab : a = b := by
      apply Classical.byContradiction
      intro hne
      have ha : a ∈ b :: l₂ := hp.mem_iff.mp (by simp)
      have hb : b ∈ a :: l₁ := hp.mem_iff.mpr (by simp)
      simp only [List.mem_cons] at ha hb
      have ha' : a ∈ l₂ := ha.resolve_left hne
      have hb' : b ∈ l₁ := hb.resolve_left (fun e => hne e.symm)
      exact hasym a b (h1.1 b hb') (h2.1 a ha')
    subst hab
    have hp' : l₁.Perm l₂ := (List.perm_cons a).mp hp
    rw [eq_of_perm_of_pairwise hasym hp' h1.2 h2.2]

/-! ### insertion sort meets the contract -/

theorem insertBy_perm (less : Name → Name → Bool) (x : Name) : ∀ (l : List Name), (insertBy less x l).Perm (x :: l)
  | [] => List.Perm.refl _
  | y :: ys => by
    unfold insertBy
    split
    · exact ((insertBy_perm less x ys).cons y).trans (List.Perm.swap x y ys)
    · exact List.Perm.refl _

theorem sortBy_perm (less : Name → Name → Bool) : ∀ (l : List Name), (sortBy less l).Perm l
  | [] => List.Perm.refl _
  | x :: xs => (insertBy_perm less x _).trans ((sortBy_perm less xs).cons x)

theorem ltBytes_trans : ∀ {a b c : Name}, ltBytes a b = true → ltBytes b c = true → ltBytes a c = true
  | [], [], _, h, _ => by simp [ltBytes] at h
  | [], _ :: _, [], _, h => by simp [ltBytes] at h
  | [], _ :: _, _ :: _, _, _ => by simp [ltBytes]
  | _ :: _, [], _, h, _ => by simp [ltBytes] at h
  | _ :: _, _ :: _, [], _, h => by simp [ltBytes] at h
  | x :: xs, y :: ys, z :: zs, h1, h2 => by
    simp only [ltBytes] at h1 h2 ⊢
    by_cases a1 : x < y
    · by_cases a2 : y < z
      · have : x < z := by omega
        simp [this]
      · by_cases a3 : z < y
        · simp [a2, a3] at h2
        · have : y = z := by omega
          subst this; simp [a1]
    · by_cases a1' : y < x
      · simp [a1, a1'] at h1
      · have : x = y := by omega
        subst this
        simp only [a1, if_false] at h1
        by_cases a2 : x < z
        · simp [a2]
        · by_cases a3 : z < x
          · simp [a2, a3] at h2
          · simp only [a2, a3, if_false] at h2 ⊢
            exact ltBytes_trans h1 h2

theorem pluginLess_false_iff {a b : Name} :
    pluginLess a b = false ↔ a.length < b.length ∨ (a.length = b.length ∧ ltBytes b a = false) := by
  unfold pluginLess
  by_cases hl : a.length = b.length
  · simp [hl]
  · simp only [hl, if_false, decide_eq_false_iff_not, false_and, or_false]
    omega

theorem pluginLess_true_iff {a b : Name} :
    pluginLess a b = true ↔ a.length > b.length ∨ (a.length = b.length ∧ ltBytes b a = true) := by
  unfold pluginLess
  by_cases hl : a.length = b.length
  · simp [hl]
  · simp only [hl, if_false, decide_eq_true_eq, false_and, or_false]

/-- negative transitivity: `pluginLess` is a strict weak order -/
theorem pluginLess_neg_trans {b y x : Name} (h1 : pluginLess b y = false) (h2 : pluginLess y x = false) :
    pluginLess b x = false := by
  rw [pluginLess_false_iff] at h1 h2 ⊢
  rcases h1 with h1 | ⟨l1, o1⟩ <;> rcases h2 with h2 | ⟨l2, o2⟩
  · exact Or.inl (by omega)
  · exact Or.inl (by omega)
  · exact Or.inl (by omega)
  · refine Or.inr ⟨by omega, ?_⟩
    -- ¬ y < b, ¬ x < y ⊢ ¬ x < b
    cases hxb : ltBytes x b with
    | false => rfl
    | true =>
      exfalso
      by_cases exy : x = y
      · subst exy; rw [hxb] at o1; exact Bool.noConfusion o1
      · rcases ltBytes_total exy with h' | h'
        · rw [h'] at o2; exact Bool.noConfusion o2
        · have := ltBytes_trans h' hxb
          rw [this] at o1; exact Bool.noConfusion o1

theorem insertBy_sorted_pluginLess (x : Name) : ∀ (l : List Name),
    l.Pairwise (fun a b => pluginLess b a = false) →
    (insertBy pluginLess x l).Pairwise (fun a b => pluginLess b a = false)
  | [], _ => by simp [insertBy]
  | y :: ys, h => by
    rw [List.pairwise_cons] at h
    unfold insertBy
    split
    · rename_i hyx
      rw [List.pairwise_cons]
      refine ⟨?_, insertBy_sorted_pluginLess x ys h.2⟩
      intro b hb
      have hb' := (insertBy_perm pluginLess x ys).mem_iff.mp hb
      simp only [List.mem_cons] at hb'
      rcases hb' with rfl | hb'
      · exact pluginLess_asymm hyx
      · exact h.1 b hb'
    · rename_i hyx
      have hyx' : pluginLess y x = false := by simpa using hyx
      rw [List.pairwise_cons]
      refine ⟨?_, List.pairwise_cons.mpr h⟩
      intro b hb
      simp only [List.mem_cons] at hb
      rcases hb with rfl | hb
      · exact hyx'
      · exact pluginLess_neg_trans (h.1 b hb) hyx'

theorem sortBy_sorted_pluginLess : ∀ (l : List Name),
    (sortBy pluginLess l).Pairwise (fun a b => pluginLess b a = false)
  | [] => by simp [sortBy]
  | x :: xs => insertBy_sorted_pluginLess x _ (sortBy_sorted_pluginLess xs)

/-! ### first-match dispatch -/

theorem handlerFrom_some {name : Name} : ∀ {l : List Name} {i j : Nat},
    handlerFrom name l i = some j → i ≤ j ∧ ∃ p, l[j - i]? = some p ∧ hasPrefix name p = true ∧
      ∀ k, k < j - i → ∀ q, l[k]? = some q → hasPrefix name q = false
  | [], _, _, h => by simp [handlerFrom] at h
  | p :: ps, i, j, h => by
    unfold handlerFrom at h
    split at h
    · rename_i hp
      simp only [Option.some.injEq] at h
      subst h
      exact ⟨Nat.le_refl _, p, by simp, hp, by intro k hk; omega⟩
    · rename_i hp
      obtain ⟨hle, q, hq, hpq, hall⟩ := handlerFrom_some h
      refine ⟨by omega, q, ?_, hpq, ?_⟩
      · have : j - i = (j - (i + 1)) + 1 := by omega
        rw [this]; simpa using hq
      · intro k hk r hr
        cases k with
        | zero => simp at hr; subst hr; simpa using hp
        | succ k' =>
          simp at hr
          exact hall k' (by omega) r hr

theorem handler_some {prefixes : List Name} {name : Name} {j : Nat} (h : handler prefixes name = some j) :
    ∃ p, prefixes[j]? = some p ∧ hasPrefix name p = true := by
  obtain ⟨_, p, hp, hpp, _⟩ := handlerFrom_some h
  exact ⟨p, by simpa using hp, hpp⟩

theorem dispatch_eq_handler (name : Name) : ∀ (l : List Name) (i : Nat),
    dispatch l name = (handlerFrom name l i).bind (fun j => l[j - i]?)
  | [], i => by simp [dispatch, handlerFrom]
  | p :: ps, i => by
    unfold dispatch handlerFrom
    split
    · simp
    · rw [dispatch_eq_handler name ps (i + 1)]
      cases h : handlerFrom name ps (i + 1) with
      | none => simp
      | some j =>
        have := (handlerFrom_some h).1
        have e : j - i = (j - (i + 1)) + 1 := by omega
        simp [e]

/-! ### renaming prefixes: `rho`, order and dispatch are preserved -/

theorem isPrefixOf_append_left (p : Name) : ∀ (a b : Name), (p ++ a).isPrefixOf (p ++ b) = a.isPrefixOf b := by
  induction p with
  | nil => intro a b; rfl
  | cons x xs ih => intro a b; simp [List.isPrefixOf, ih]

theorem isPrefixOf_self_append (p x : Name) : p.isPrefixOf (p ++ x) = true := by
  induction p with
  | nil => simp [List.isPrefixOf]
  | cons y ys ih => simp [List.isPrefixOf, ih]

theorem hasPrefix_append_left (p n q : Name) : hasPrefix (p ++ n) (p ++ q) = hasPrefix n q := by
  simp [hasPrefix, isPrefixOf_append_left]

theorem pluginLess_append_left (p x y : Name) : pluginLess (p ++ x) (p ++ y) = pluginLess x y := by
  unfold pluginLess
  simp only [List.length_append, ltBytes_append_left]
  by_cases h : x.length = y.length
  · simp [h]
  · have : ¬ p.length + x.length = p.length + y.length := by omega
    simp only [h, this, if_false]
    congr 1
    exact propext ⟨by omega, by omega⟩

theorem replaceFirst_prefix (old new x : Name) (h : old ≠ []) : replaceFirst old new (old ++ x) = new ++ x := by
  cases old with
  | nil => exact absurd rfl h
  | cons o os =>
    simp only [List.cons_append, replaceFirst]
    have : (o :: os).isPrefixOf (o :: (os ++ x)) = true := by
      have := isPrefixOf_self_append (o :: os) x
      simpa using this
    simp only [this, if_true, List.length_cons]
    have : (o :: (os ++ x)).drop (os.length + 1) = x := by simp
    rw [this]

/-- `-prefix=p` on a prefix that starts with `derive` -/
theorem rho_derive (p x : Name) : rho p (derive ++ x) = p ++ x :=
  replaceFirst_prefix derive p x (by decide)

theorem rename_prefix (old new x : Name) : rename old new (old ++ x) = new ++ x := by
  simp [rename, isPrefixOf_self_append]

theorem insertBy_map (less : Name → Name → Bool) (g : Name → Name)
    (hg : ∀ a b, less (g a) (g b) = less a b) (x : Name) :
    ∀ (l : List Name), insertBy less (g x) (l.map g) = (insertBy less x l).map g
  | [] => rfl
  | y :: ys => by
    simp only [List.map_cons, insertBy, hg]
    split
    · simp [insertBy_map less g hg x ys]
    · simp

theorem sortBy_map (less : Name → Name → Bool) (g : Name → Name)
    (hg : ∀ a b, less (g a) (g b) = less a b) :
    ∀ (l : List Name), sortBy less (l.map g) = (sortBy less l).map g
  | [] => rfl
  | x :: xs => by
    simp only [List.map_cons, sortBy]
    rw [sortBy_map less g hg xs, insertBy_map less g hg]

theorem dispatch_map_append (p : Name) (name : Name) : ∀ (l : List Name),
    dispatch (l.map (p ++ ·)) (p ++ name) = (dispatch l name).map (p ++ ·)
  | [] => rfl
  | q :: qs => by
    simp only [List.map_cons, dispatch, hasPrefix_append_left]
    split
    · rfl
    · exact dispatch_map_append p name qs

theorem handlerFrom_map_append (p : Name) (name : Name) : ∀ (l : List Name) (i : Nat),
    handlerFrom (p ++ name) (l.map (p ++ ·)) i = handlerFrom name l i
  | [], _ => rfl
  | q :: qs, i => by
    simp only [List.map_cons, handlerFrom, hasPrefix_append_left]
    split
    · rfl
    · exact handlerFrom_map_append p name qs (i + 1)

/-! ### prefix-free sets -/

theorem prefixFree_spec : ∀ {l : List Name}, prefixFree l = true →
    ∀ {i j : Nat} {a b : Name}, l[i]? = some a → l[j]? = some b → a.isPrefixOf b = true → i = j
  | [], _, i, j, a, b, hi, _, _ => by simp at hi
  | p :: ps, h, i, j, a, b, hi, hj, hab => by
    simp only [prefixFree, Bool.and_eq_true, List.all_eq_true] at h
    cases i with
    | zero =>
      cases j with
      | zero => rfl
      | succ j' =>
        simp at hi hj
        subst hi
        have := h.1 b (List.mem_of_getElem? hj)
        simp [hab] at this
    | succ i' =>
      cases j with
      | zero =>
        simp at hi hj
        subst hj
        have := h.1 a (List.mem_of_getElem? hi)
        simp [hab] at this
      | succ j' =>
        simp at hi hj
        rw [prefixFree_spec h.2 hi hj hab]

end Goderive.G
