/-
Helper lemmas for properties C15 (S/Plumb) and C16 (S/ErrChain).
-/
import GoderiveModel.S.Plumb
import GoderiveModel.S.ErrChain
import GoderiveModel.Spec.Funcs

set_option linter.unusedSimpArgs false

namespace Goderive.Plumb

/-! ### environments with distinct keys -/

theorem lookupV_of_mem {α} : ∀ (env : List (Name × RV α)) (n : Name) (v : RV α),
    (env.map Prod.fst).Nodup → (n, v) ∈ env → lookupV env n = some v
  | [], _, _, _, h => by cases h
  | (m, w) :: rest, n, v, hnd, hmem => by
    simp only [List.map_cons, List.nodup_cons] at hnd
    simp only [lookupV]
    rcases List.mem_cons.1 hmem with h | h
    · cases h; simp
    · have hne : m ≠ n := by
        intro e; subst e; exact hnd.1 (List.mem_map.2 ⟨(m, v), h, rfl⟩)
      simp [hne, lookupV_of_mem rest n v hnd.2 h]

/-- a list of (name, value) pairs all of which are bound in `env` -/
def Bound {α} (env : List (Name × RV α)) (kv : List (Name × α)) : Prop :=
  ∀ n a, (n, a) ∈ kv → usable n = true ∧ (n, RV.val a) ∈ env

theorem lookupVals_of_bound {α} (env : List (Name × RV α)) (hnd : (env.map Prod.fst).Nodup) :
    ∀ (kv : List (Name × α)), Bound env kv → lookupVals env (kv.map Prod.fst) = some (kv.map Prod.snd)
  | [], _ => rfl
  | (n, a) :: rest, hb => by
    have h1 := hb n a (List.mem_cons_self ..)
    have hrest : Bound env rest := fun m b hm => hb m b (List.mem_cons_of_mem _ hm)
    simp [lookupVals, lookupVal, h1.1, lookupV_of_mem env n _ hnd h1.2, lookupVals_of_bound env hnd rest hrest]

theorem lookupGroups_of_bound {α} (env : List (Name × RV α)) (hnd : (env.map Prod.fst).Nodup) :
    ∀ (kvs : List (List (Name × α))), (∀ kv ∈ kvs, Bound env kv) →
      lookupGroups env (kvs.map (·.map Prod.fst)) = some (kvs.map (·.map Prod.snd))
  | [], _ => rfl
  | kv :: rest, hb => by
    simp [lookupGroups, lookupVals_of_bound env hnd kv (hb kv (List.mem_cons_self ..)),
      lookupGroups_of_bound env hnd rest (fun k hk => hb k (List.mem_cons_of_mem _ hk))]

/-- the body `f(names…)(names…)` in an environment with distinct keys where `f` is the function under
test and every name is bound to its own argument: one call of `g` with the arguments in the order
in which the names are written -/
theorem eval_call {α} (env : List (Name × RV α)) (g : List (List α) → Out α) (r : Bool)
    (kvs : List (List (Name × α)))
    (hnd : (env.map Prod.fst).Nodup) (hf : (fName, RV.fn g) ∈ env) (hb : ∀ kv ∈ kvs, Bound env kv) :
    eval env (.call fName (kvs.map (·.map Prod.fst)) r) [] = g (kvs.map (·.map Prod.snd)) := by
  simp [eval, lookupV_of_mem env fName _ hnd hf, lookupGroups_of_bound env hnd kvs hb]

/-! ### binding parameter lists -/

/-- the naming condition under which the emitted text means what the generator intends: every name
of the (effective) parameter list can be written as an operand, no two are the same, none is one of
the generator's own binders `avoid` -/
def NamesOk (avoid : List Name) (ps : List Param) : Prop :=
  (∀ n ∈ names ps, usable n = true) ∧ (names ps).Nodup ∧ (∀ n ∈ names ps, n ∉ avoid)

def liftKV {α} (kv : List (Name × α)) : List (Name × RV α) := kv.map fun p => (p.1, RV.val p.2)

theorem bindG_binders {α} (ps : List Param) (as : List α) :
    bindG (binders ps) (vals as) = (liftKV ((names ps).zip as)).reverse := by
  simp [bindG, binders, vals, liftKV, names, Param.toBinder, List.zip_map_right, List.map_map, Function.comp_def]

theorem keys_liftKV {α} (kv : List (Name × α)) : (liftKV kv).map Prod.fst = kv.map Prod.fst := by
  simp [liftKV, List.map_map, Function.comp_def]

theorem mem_liftKV {α} {kv : List (Name × α)} {n : Name} {a : α} (h : (n, a) ∈ kv) :
    (n, RV.val a) ∈ liftKV kv := List.mem_map.2 ⟨(n, a), h, rfl⟩

theorem length_binders (ps : List Param) : (binders ps).length = ps.length := by simp [binders]
theorem length_vals {α} (as : List α) : (vals as).length = as.length := by simp [vals]
theorem length_names (ps : List Param) : (names ps).length = ps.length := by simp [names]
theorem names_append (a b : List Param) : names (a ++ b) = names a ++ names b := by simp [names]
theorem names_cons (p : Param) (ps : List Param) : names (p :: ps) = p.name :: names ps := rfl
theorem names_nil : names [] = [] := rfl

theorem eval_lam {α} (env : List (Name × RV α)) (bs : List Binder) (body : Tm) (vs : List (RV α))
    (rest : List (List (RV α))) (h : bs.length = vs.length) :
    eval env (.lam bs body) (vs :: rest) = eval (bindG bs vs ++ env) body rest := by
  simp [eval, h]

/-- the environment after binding the groups `gs` (outermost first) on top of `base` -/
def envOf {α} (base : List (Name × RV α)) : List (List (Name × α)) → List (Name × RV α)
  | [] => base
  | kv :: rest => envOf ((liftKV kv).reverse ++ base) rest

theorem envOf_ok {α} : ∀ (gs : List (List (Name × α))) (base : List (Name × RV α)),
    (base.map Prod.fst ++ gs.flatten.map Prod.fst).Nodup →
    ((envOf base gs).map Prod.fst).Nodup ∧ (∀ x ∈ base, x ∈ envOf base gs) ∧
      (∀ n a, (n, a) ∈ gs.flatten → (n, RV.val a) ∈ envOf base gs)
  | [], base, h => by simpa [envOf] using h
  | kv :: rest, base, h => by
    have hperm : ((((liftKV kv).reverse ++ base).map Prod.fst) ++ rest.flatten.map Prod.fst).Perm
        (base.map Prod.fst ++ (kv :: rest).flatten.map Prod.fst) := by
      simp only [List.map_append, List.map_reverse, keys_liftKV, List.flatten_cons]
      rw [← List.append_assoc (base.map Prod.fst)]
      exact ((List.reverse_perm _).append_right _ |>.trans List.perm_append_comm).append_right _
    obtain ⟨h1, h2, h3⟩ := envOf_ok rest ((liftKV kv).reverse ++ base) (hperm.nodup_iff.2 h)
    refine ⟨h1, fun x hx => h2 x (List.mem_append_right _ hx), fun n a hm => ?_⟩
    rcases List.mem_append.1 (List.flatten_cons ▸ hm) with hk | hr
    · exact h2 _ (List.mem_append_left _ (List.mem_reverse.2 (mem_liftKV hk)))
    · exact h3 n a hr

/-- the emitted body `f(ns…)` below the binder groups `gs`: if all bound names are distinct and
different from `f`, and every written name is usable and bound to the value listed beside it, the
body is one call of the function under test with exactly those values -/
theorem call_groups1 {α} (g : List (List α) → Out α) (r : Bool) (gs : List (List (Name × α)))
    (ns : List Name) (as : List α) (hlen : ns.length = as.length)
    (hnd : (fName :: gs.flatten.map Prod.fst).Nodup) (hus : ∀ n ∈ ns, usable n = true)
    (hsub : ∀ x ∈ ns.zip as, x ∈ gs.flatten) :
    eval (envOf [(fName, RV.fn g)] gs) (.call fName [ns] r) [] = g [as] := by
  obtain ⟨h1, h2, h3⟩ := envOf_ok gs [(fName, RV.fn g)] (by simpa using hnd)
  have hb : Bound (envOf [(fName, RV.fn g)] gs) (ns.zip as) := fun n a hm =>
    ⟨hus n (List.of_mem_zip hm).1, h3 n a (hsub _ hm)⟩
  have := eval_call _ g r [ns.zip as] h1 (h2 _ (by simp)) (by simpa using hb)
  simpa [List.map_fst_zip, List.map_snd_zip, hlen] using this

theorem call_groups2 {α} (g : List (List α) → Out α) (r : Bool) (gs : List (List (Name × α)))
    (ns1 ns2 : List Name) (as1 as2 : List α) (hlen1 : ns1.length = as1.length) (hlen2 : ns2.length = as2.length)
    (hnd : (fName :: gs.flatten.map Prod.fst).Nodup) (hus : ∀ n ∈ ns1 ++ ns2, usable n = true)
    (hsub : ∀ x ∈ ns1.zip as1 ++ ns2.zip as2, x ∈ gs.flatten) :
    eval (envOf [(fName, RV.fn g)] gs) (.call fName [ns1, ns2] r) [] = g [as1, as2] := by
  obtain ⟨h1, h2, h3⟩ := envOf_ok gs [(fName, RV.fn g)] (by simpa using hnd)
  have hb1 : Bound (envOf [(fName, RV.fn g)] gs) (ns1.zip as1) := fun n a hm =>
    ⟨hus n (List.mem_append_left _ (List.of_mem_zip hm).1), h3 n a (hsub _ (List.mem_append_left _ hm))⟩
  have hb2 : Bound (envOf [(fName, RV.fn g)] gs) (ns2.zip as2) := fun n a hm =>
    ⟨hus n (List.mem_append_right _ (List.of_mem_zip hm).1), h3 n a (hsub _ (List.mem_append_right _ hm))⟩
  have := eval_call _ g r [ns1.zip as1, ns2.zip as2] h1 (h2 _ (by simp)) (by
    intro kv hkv
    rcases List.mem_cons.1 hkv with e | hkv
    · exact e ▸ hb1
    · rcases List.mem_cons.1 hkv with e | hkv
      · exact e ▸ hb2
      · cases hkv)
  simpa [List.map_fst_zip, List.map_snd_zip, hlen1, hlen2] using this

theorem NamesOk.nodup_f {ps : List Param} (h : NamesOk [fName] ps) : (fName :: names ps).Nodup :=
  List.nodup_cons.2 ⟨fun hm => h.2.2 _ hm (List.mem_cons_self ..), h.2.1⟩

/-! ### the four wrappers on an effective parameter list with good names -/

theorem curry_core {α} (p : Param) (ps : List Param) (nres : Nat) (r : Bool) (g : List (List α) → Out α)
    (a : α) (rest : List α) (hlen : ps.length = rest.length) (hok : NamesOk [fName] (p :: ps)) :
    eval [] (.lam [fBinder [p :: ps] nres]
        (.lam (binders [p]) (.lam (binders ps) (.call fName [names (p :: ps)] r))))
      [[.fn g], [.val a], vals rest] = g [a :: rest] := by
  have hE : ([RV.val a] : List (RV α)) = vals [a] := rfl
  rw [eval_lam _ _ _ _ _ (by simp), hE, eval_lam _ _ _ _ _ (by simp [binders, vals]),
    eval_lam _ _ _ _ _ (by simp [binders, vals, hlen]), bindG_binders, bindG_binders]
  have henv : ((liftKV ((names ps).zip rest)).reverse ++
      ((liftKV ((names [p]).zip [a])).reverse ++ (bindG [fBinder [p :: ps] nres] [RV.fn g] ++ [])))
      = envOf [(fName, RV.fn g)] [[(p.name, a)], (names ps).zip rest] := by
    simp [envOf, bindG, fBinder, names, liftKV]
  rw [henv, call_groups1 g r _ (names (p :: ps)) (a :: rest) (by simp [names, hlen])]
  · have := hok.nodup_f
    simpa [List.map_fst_zip, hlen, names] using this
  · exact hok.1
  · intro x hx
    simpa [names] using hx

theorem flip_core {α} (p q : Param) (ps : List Param) (nres : Nat) (r : Bool) (g : List (List α) → Out α)
    (a b : α) (rest : List α) (hlen : ps.length = rest.length) (hok : NamesOk [fName] (p :: q :: ps)) :
    eval [] (.lam [fBinder [p :: q :: ps] nres]
        (.lam (binders (flipSig (p :: q :: ps))) (.call fName [names (p :: q :: ps)] r)))
      [[.fn g], vals (b :: a :: rest)] = g [a :: b :: rest] := by
  rw [eval_lam _ _ _ _ _ (by simp), eval_lam _ _ _ _ _ (by simp [binders, vals, flipSig, hlen]), bindG_binders]
  have henv : ((liftKV ((names (flipSig (p :: q :: ps))).zip (b :: a :: rest))).reverse ++
      (bindG [fBinder [p :: q :: ps] nres] [RV.fn g] ++ []))
      = envOf [(fName, RV.fn g)] [(names (flipSig (p :: q :: ps))).zip (b :: a :: rest)] := by
    simp [envOf, bindG, fBinder]
  rw [henv, call_groups1 g r _ (names (p :: q :: ps)) (a :: b :: rest) (by simp [names, hlen])]
  · have := hok.nodup_f
    have hl : (List.map (fun x => x.name) ps).length ≤ rest.length := by simp [hlen]
    simp only [flipSig, names, List.map_cons, List.zip_cons_cons, List.flatten_cons, List.flatten_nil,
      List.append_nil, List.map_fst_zip hl] at this ⊢
    exact ((List.Perm.swap _ _ _).cons _).nodup_iff.1 this
  · exact hok.1
  · intro x hx
    simp only [flipSig, names, List.map_cons, List.zip_cons_cons, List.flatten_cons, List.flatten_nil,
      List.append_nil, List.mem_cons] at hx ⊢
    rcases hx with h | h | h
    · exact Or.inr (Or.inl h)
    · exact Or.inl h
    · exact Or.inr (Or.inr h)

theorem applySig_append (others : List Param) (l : Param) : applySig (others ++ [l]) = ([l], others) := by
  simp [applySig]

theorem apply_core {α} (others : List Param) (l : Param) (nres : Nat) (r : Bool) (g : List (List α) → Out α)
    (lastv : α) (ovs : List α) (hlen : others.length = ovs.length) (hok : NamesOk [fName] (others ++ [l])) :
    eval [] (.lam (fBinder [others ++ [l]] nres :: binders [l])
        (.lam (binders others) (.call fName [names (others ++ [l])] r)))
      [[.fn g, .val lastv], vals ovs] = g [ovs ++ [lastv]] := by
  rw [eval_lam _ _ _ _ _ (by simp [binders]), eval_lam _ _ _ _ _ (by simp [binders, vals, hlen]), bindG_binders]
  have henv : ((liftKV ((names others).zip ovs)).reverse ++
      (bindG (fBinder [others ++ [l]] nres :: binders [l]) [RV.fn g, RV.val lastv] ++ []))
      = envOf [(fName, RV.fn g)] [[(l.name, lastv)], (names others).zip ovs] := by
    simp [envOf, bindG, fBinder, liftKV, binders, Param.toBinder]
  have hl : (names others).length ≤ ovs.length := by simp [names, hlen]
  rw [henv, call_groups1 g r _ (names (others ++ [l])) (ovs ++ [lastv]) (by simp [names, hlen])]
  · have := hok.nodup_f
    simp only [List.flatten_cons, List.flatten_nil, List.append_nil, List.map_append, List.map_cons,
      List.map_nil, List.map_fst_zip hl, names_append, names_cons, names_nil] at this ⊢
    exact (List.Perm.cons _ List.perm_append_comm).nodup_iff.1 this
  · exact hok.1
  · intro x hx
    have hz : (names (others ++ [l])).zip (ovs ++ [lastv]) = (names others).zip ovs ++ [(l.name, lastv)] := by
      simp [names, List.zip_append, hlen]
    rw [hz] at hx
    simp only [List.flatten_cons, List.flatten_nil, List.append_nil, List.mem_append, List.mem_cons,
      List.not_mem_nil, or_false] at hx ⊢
    exact hx.symm

theorem uncurry_core {α} (outer inner : List Param) (nres : Nat) (r : Bool) (g : List (List α) → Out α)
    (as1 as2 : List α) (hlen1 : outer.length = as1.length) (hlen2 : inner.length = as2.length)
    (hok : NamesOk [fName] (outer ++ inner)) :
    eval [] (.lam [fBinder [outer, inner] nres]
        (.lam (binders (uncurrySig outer inner)) (.call fName [names outer, names inner] r)))
      [[.fn g], vals (as1 ++ as2)] = g [as1, as2] := by
  rw [eval_lam _ _ _ _ _ (by simp), eval_lam _ _ _ _ _ (by simp [binders, vals, uncurrySig, hlen1, hlen2]),
    bindG_binders]
  have henv : ((liftKV ((names (uncurrySig outer inner)).zip (as1 ++ as2))).reverse ++
      (bindG [fBinder [outer, inner] nres] [RV.fn g] ++ []))
      = envOf [(fName, RV.fn g)] [(names (uncurrySig outer inner)).zip (as1 ++ as2)] := by
    simp [envOf, bindG, fBinder]
  have hl : (names (uncurrySig outer inner)).length ≤ (as1 ++ as2).length := by
    simp [names, uncurrySig, hlen1, hlen2]
  rw [henv, call_groups2 g r _ (names outer) (names inner) as1 as2 (by simp [names, hlen1]) (by simp [names, hlen2])]
  · have := hok.nodup_f
    simp only [List.flatten_cons, List.flatten_nil, List.append_nil]
    rw [List.map_fst_zip hl]
    exact this
  · intro n hn
    exact hok.1 n (by simpa [names] using hn)
  · intro x hx
    have hz : (names (uncurrySig outer inner)).zip (as1 ++ as2) = (names outer).zip as1 ++ (names inner).zip as2 := by
      simp [names, uncurrySig, List.zip_append, hlen1]
    simpa [hz] using hx

/-! ### the names the generator produces -/

theorem toDigits_inj {i j : Nat} (h : Nat.toDigits 10 i = Nat.toDigits 10 j) : i = j := by
  have := congrArg (fun l => Nat.ofDigitChars 10 l 0) h
  simpa [Nat.ofDigitChars_ten_toDigits] using this

theorem genName_inj {pre : Name} {i j : Nat} (h : genName pre i = genName pre j) : i = j :=
  toDigits_inj (List.append_cancel_left h)

theorem genName_prefix (pre : Name) (i : Nat) : pre.isPrefixOf (genName pre i) = true := by
  simp [genName, List.isPrefixOf_iff_prefix]

theorem genName_length (pre : Name) (i : Nat) : pre.length < (genName pre i).length := by
  have := @Nat.length_toDigits_pos 10 i
  simp [genName]; omega

theorem usable_of_length {n : Name} (h : 2 ≤ n.length) : usable n = true := by
  match n, h with
  | a :: b :: r, _ => simp [usable, blank]

theorem usable_genName {pre : Name} (hpre : 1 ≤ pre.length) (i : Nat) : usable (genName pre i) = true :=
  usable_of_length (by have := genName_length pre i; omega)



theorem unusable_blank (cfg : Cfg) : unusable cfg blank = true := by simp [unusable]

/-- where the names of a renamed list come from -/
theorem mem_names_renameFrom (cfg : Cfg) (pre : Name) : ∀ (ps : List Param) (i : Nat) (n : Name),
    n ∈ names (renameFrom cfg pre i ps) →
      (∃ j, i ≤ j ∧ n = genName pre j) ∨ (n ∈ names ps ∧ unusable cfg n = false ∧ pre.isPrefixOf n = false)
  | [], _, _, h => by simp [renameFrom, names] at h
  | p :: r, i, n, h => by
    simp only [renameFrom, names_cons, List.mem_cons] at h
    rcases h with h | h
    · by_cases c : (unusable cfg p.name || pre.isPrefixOf p.name) = true
      · rw [if_pos c] at h; exact Or.inl ⟨i, Nat.le_refl _, h⟩
      · rw [if_neg c] at h
        simp only [Bool.or_eq_true, not_or, Bool.not_eq_true] at c
        subst h
        exact Or.inr ⟨List.mem_cons_self .., c.1, c.2⟩
    · rcases mem_names_renameFrom cfg pre r (i + 1) n h with ⟨j, hj, e⟩ | ⟨hm, h1, h2⟩
      · exact Or.inl ⟨j, by omega, e⟩
      · exact Or.inr ⟨List.mem_cons_of_mem _ hm, h1, h2⟩

/-- a name that `rename` leaves alone and that can be referred to -/
def keepable (cfg : Cfg) (pre : Name) (n : Name) : Bool := usable n && !unusable cfg n && !pre.isPrefixOf n

/-- `rename` yields pairwise distinct names, given that the names it leaves alone are distinct (Go
guarantees that for every parameter list) and that no name is missing in the result -/
theorem nodup_renameFrom (cfg : Cfg) (pre : Name) : ∀ (ps : List Param) (i : Nat),
    ((names ps).filter (keepable cfg pre)).Nodup → (∀ n ∈ names (renameFrom cfg pre i ps), n ≠ []) →
      (names (renameFrom cfg pre i ps)).Nodup
  | [], _, _, _ => by simp [renameFrom, names]
  | p :: r, i, hv, hne => by
    have hvr : ((names r).filter (keepable cfg pre)).Nodup :=
      hv.sublist ((List.sublist_cons_self _ _).filter _)
    have hner : ∀ n ∈ names (renameFrom cfg pre (i + 1) r), n ≠ [] := fun n hn =>
      hne n (by simp only [renameFrom, names_cons]; exact List.mem_cons_of_mem _ hn)
    have ih := nodup_renameFrom cfg pre r (i + 1) hvr hner
    simp only [renameFrom, names_cons]
    refine List.nodup_cons.2 ⟨fun hm => ?_, ih⟩
    by_cases c : (unusable cfg p.name || pre.isPrefixOf p.name) = true
    · rw [if_pos c] at hm
      rcases mem_names_renameFrom cfg pre r (i + 1) _ hm with ⟨j, hj, e⟩ | ⟨_, _, h2⟩
      · have := genName_inj e; omega
      · simp [genName_prefix] at h2
    · have hp0 : p.name ≠ [] := hne p.name (by
        simp only [renameFrom, names_cons, if_neg c]; exact List.mem_cons_self ..)
      rw [if_neg c] at hm
      simp only [Bool.or_eq_true, not_or, Bool.not_eq_true] at c
      have hpb : p.name ≠ blank := fun e => by rw [e, unusable_blank] at c; exact absurd c.1 (by simp)
      rcases mem_names_renameFrom cfg pre r (i + 1) _ hm with ⟨j, _, e⟩ | ⟨hmr, _, _⟩
      · have := genName_prefix pre j
        rw [← e, c.2] at this; cases this
      · have hus : keepable cfg pre p.name = true := by simp [keepable, usable, hp0, hpb, c.1, c.2]
        simp only [names_cons, List.filter_cons, hus, if_true] at hv
        exact (List.nodup_cons.1 hv).1 (List.mem_filter.2 ⟨hmr, hus⟩)

theorem mem_names_positionalFrom (pre : Name) : ∀ (ps : List Param) (i : Nat) (n : Name),
    n ∈ names (positionalFrom pre i ps) → ∃ j, i ≤ j ∧ n = genName pre j
  | [], _, _, h => by simp [positionalFrom, names] at h
  | p :: r, i, n, h => by
    simp only [positionalFrom, names_cons, List.mem_cons] at h
    rcases h with h | h
    · exact ⟨i, Nat.le_refl _, h⟩
    · obtain ⟨j, hj, e⟩ := mem_names_positionalFrom pre r (i + 1) n h
      exact ⟨j, by omega, e⟩

theorem nodup_positionalFrom (pre : Name) : ∀ (ps : List Param) (i : Nat),
    (names (positionalFrom pre i ps)).Nodup
  | [], _ => by simp [positionalFrom, names]
  | p :: r, i => by
    simp only [positionalFrom, names_cons]
    refine List.nodup_cons.2 ⟨fun hm => ?_, nodup_positionalFrom pre r (i + 1)⟩
    obtain ⟨j, hj, e⟩ := mem_names_positionalFrom pre r (i + 1) _ hm
    have := genName_inj e; omega

theorem length_renameFrom (cfg : Cfg) (pre : Name) : ∀ (ps : List Param) (i : Nat), (renameFrom cfg pre i ps).length = ps.length
  | [], _ => rfl
  | _ :: r, i => by simp [renameFrom, length_renameFrom cfg pre r (i + 1)]

theorem length_positionalFrom (pre : Name) : ∀ (ps : List Param) (i : Nat), (positionalFrom pre i ps).length = ps.length
  | [], _ => rfl
  | _ :: r, i => by simp [positionalFrom, length_positionalFrom pre r (i + 1)]

theorem length_effParams (cfg : Cfg) (avoid : List Name) (pre : Name) (ps : List Param) :
    (effParams cfg avoid pre ps).length = ps.length := by
  unfold effParams renameBlankWith
  split <;> simp [length_renameFrom]

/-- generated names are never one of the (short) binder names the generator uses itself -/
theorem genName_not_avoid {pre : Name} {avoid : List Name} (h : ∀ n ∈ avoid, n.length ≤ pre.length) (i : Nat) :
    genName pre i ∉ avoid := fun hm => by
  have := h _ hm; have := genName_length pre i; omega

theorem namesOk_positional {pre : Name} {avoid : List Name} (hpre : 1 ≤ pre.length)
    (hav : ∀ n ∈ avoid, n.length ≤ pre.length) (ps : List Param) (i : Nat) :
    NamesOk avoid (positionalFrom pre i ps) := by
  refine ⟨fun n hn => ?_, nodup_positionalFrom pre ps i, fun n hn => ?_⟩
  · obtain ⟨j, _, e⟩ := mem_names_positionalFrom pre ps i n hn
    exact e ▸ usable_genName hpre j
  · obtain ⟨j, _, e⟩ := mem_names_positionalFrom pre ps i n hn
    exact e ▸ genName_not_avoid hav j

/-- Go's guarantee about any function type: the parameter names that can be referred to are pairwise
distinct -/
def ValidSig (ps : List Param) : Prop := ((names ps).filter usable).Nodup

instance (ps : List Param) : Decidable (ValidSig ps) :=
  inferInstanceAs (Decidable ((names ps).filter usable).Nodup)

theorem keepable_nodup_of_validSig (cfg : Cfg) (pre : Name) {ps : List Param} (hv : ValidSig ps) :
    ((names ps).filter (keepable cfg pre)).Nodup := by
  have : (names ps).filter (keepable cfg pre) = ((names ps).filter usable).filter (keepable cfg pre) := by
    rw [List.filter_filter]
    congr 1
    funext n
    simp only [keepable]
    cases usable n <;> simp
  rw [this]
  exact hv.sublist List.filter_sublist

/-- the renamed list is fine as soon as it has no missing name and no captured binder -/
theorem namesOk_renameBlankWith' (cfg : Cfg) {pre : Name} {avoid : List Name} (hpre : 1 ≤ pre.length)
    (ps : List Param) (hk : ((names ps).filter (keepable cfg pre)).Nodup)
    (hv' : hasBlank cfg ps = false → ValidSig ps)
    (hne : ∀ n ∈ names (renameBlankWith cfg pre ps), n ≠ [])
    (hna : ∀ n ∈ names (renameBlankWith cfg pre ps), n ∉ avoid) :
    NamesOk avoid (renameBlankWith cfg pre ps) := by
  unfold renameBlankWith at hne hna ⊢
  by_cases hb : hasBlank cfg ps = true
  · rw [if_pos hb] at hne hna ⊢
    refine ⟨fun n hn => ?_, nodup_renameFrom cfg pre ps 0 hk hne, hna⟩
    rcases mem_names_renameFrom cfg pre ps 0 n hn with ⟨j, _, e⟩ | ⟨_, h1, _⟩
    · exact e ▸ usable_genName hpre j
    · have hnb : n ≠ blank := fun e => by rw [e, unusable_blank] at h1; cases h1
      simp [usable, hne n hn, hnb]
  · rw [if_neg hb] at hne hna ⊢
    have hv := hv' (by simpa using hb)
    have hnb : ∀ n ∈ names ps, n ≠ blank := by
      intro n hn e
      apply hb
      simp only [hasBlank, List.any_eq_true]
      obtain ⟨p, hp, rfl⟩ := List.mem_map.1 hn
      exact ⟨p, hp, e ▸ unusable_blank cfg⟩
    have hus : ∀ n ∈ names ps, usable n = true := fun n hn => by simp [usable, hne n hn, hnb n hn]
    refine ⟨hus, ?_, hna⟩
    have : (names ps).filter usable = names ps := List.filter_eq_self.2 hus
    exact this ▸ hv

theorem namesOk_renameBlankWith (cfg : Cfg) {pre : Name} {avoid : List Name} (hpre : 1 ≤ pre.length)
    (ps : List Param) (hv : ValidSig ps)
    (hne : ∀ n ∈ names (renameBlankWith cfg pre ps), n ≠ [])
    (hna : ∀ n ∈ names (renameBlankWith cfg pre ps), n ∉ avoid) :
    NamesOk avoid (renameBlankWith cfg pre ps) :=
  namesOk_renameBlankWith' cfg hpre ps (keepable_nodup_of_validSig cfg pre hv) (fun _ => hv) hne hna

/-- a name of the renamed list is a generated one or a name the user wrote that is not unusable -/
theorem mem_names_renameBlankWith {cfg : Cfg} {pre : Name} {ps : List Param} {n : Name}
    (h : n ∈ names (renameBlankWith cfg pre ps)) :
    (∃ j, n = genName pre j) ∨ (n ∈ names ps ∧ unusable cfg n = false) := by
  unfold renameBlankWith at h
  split at h
  · rcases mem_names_renameFrom cfg pre ps 0 n h with ⟨j, _, e⟩ | ⟨hm, h1, _⟩
    · exact Or.inl ⟨j, e⟩
    · exact Or.inr ⟨hm, h1⟩
  · rename_i hb
    refine Or.inr ⟨h, ?_⟩
    simp only [hasBlank, Bool.not_eq_true, List.any_eq_false] at hb
    obtain ⟨p, hp, rfl⟩ := List.mem_map.1 h
    simpa using hb p hp

/-- the side condition under which the generator's wrappers are right; each clause disappears when
the corresponding defect is repaired -/
structure Side (cfg : Cfg) (avoid : List Name) (ps : List Param) : Prop where
  named : cfg.unnamedFixed = true ∨ ∀ n ∈ names ps, n ≠ []
  nocapture : cfg.shadowFixed = true ∨ ∀ n ∈ names ps, n ∉ avoid

/-- for the generator as it was at the pinned commit, both clauses are needed -/
theorem side_current {avoid : List Name} {ps : List Param}
    (h1 : ∀ n ∈ names ps, n ≠ []) (h2 : ∀ n ∈ names ps, n ∉ avoid) : Side Cfg.current avoid ps :=
  ⟨Or.inr h1, Or.inr h2⟩

/-- with the defects repaired the side condition is empty -/
theorem side_fixed (avoid : List Name) (ps : List Param) : Side Cfg.fixed avoid ps :=
  ⟨Or.inl rfl, Or.inl rfl⟩

/-- … for every model variant in which the two naming defects are repaired (whatever the other flags) -/
theorem side_of_flags {cfg : Cfg} (hu : cfg.unnamedFixed = true) (hs : cfg.shadowFixed = true)
    (avoid : List Name) (ps : List Param) : Side cfg avoid ps :=
  ⟨Or.inl hu, Or.inl hs⟩

/-- the binders the emitted bodies refer to besides the parameters are `f` and `err` -/
def AvoidOk (avoid : List Name) : Prop := ∀ n ∈ avoid, n = fName ∨ n = errName

theorem avoidOk_f : AvoidOk [fName] := fun n hn => by simp at hn; exact Or.inl hn
theorem avoidOk_f_err : AvoidOk [fName, errName] := fun n hn => by
  simp only [List.mem_cons, List.not_mem_nil, or_false] at hn; exact hn

theorem effParams_namesOk (cfg : Cfg) {pre : Name} {avoid : List Name} (hpre : 1 ≤ pre.length)
    (hav : ∀ n ∈ avoid, n.length ≤ pre.length) (hfe : AvoidOk avoid) (ps : List Param) (hv : ValidSig ps)
    (hs : Side cfg avoid ps) : NamesOk avoid (effParams cfg avoid pre ps) := by
  unfold effParams
  refine namesOk_renameBlankWith cfg hpre ps hv (fun n hn e => ?_) (fun n hn hm => ?_)
  · rcases mem_names_renameBlankWith hn with ⟨j, ej⟩ | ⟨hm, hu⟩
    · have := genName_length pre j; rw [← ej, e] at this; simp at this
    · rcases hs.named with hf | hnamed
      · subst e; simp [unusable, hf] at hu
      · exact hnamed n hm e
  · rcases mem_names_renameBlankWith hn with ⟨j, ej⟩ | ⟨hm', hu⟩
    · exact genName_not_avoid hav j (ej ▸ hm)
    · rcases hs.nocapture with hsf | hnc
      · rcases hfe n hm with e | e <;> (subst e; simp [unusable, hsf] at hu)
      · exact hnc n hm' hm

/-! ### the wrappers as emitted, against the specification -/
open Goderive

theorem runCurry_eq {α} (cfg : Cfg) (ps : List Param) (f : List α → List α) (a : α) (rest : List α)
    (hlen : ps.length = rest.length + 1)
    (hok : NamesOk [fName] (effParams cfg [fName] paramPrefix ps)) :
    runCurry cfg ps f a rest = Spec.currySpec f a rest := by
  unfold runCurry curryTm
  have hl := length_effParams cfg [fName] paramPrefix ps
  generalize effParams cfg [fName] paramPrefix ps = e at hok hl ⊢
  match e, hl with
  | p :: ps', hl =>
    have : ps'.length = rest.length := by simp at hl; omega
    simp only [currySig, List.take_succ_cons, List.take_zero, List.drop_succ_cons, List.drop_zero]
    rw [curry_core p ps' 1 _ (logging f) a rest this hok]
    simp [logging, Spec.currySpec, Spec.callOnce]
  | [], hl => simp at hl; omega

theorem runFlip_eq {α} (cfg : Cfg) (ps : List Param) (f : List α → List α) (a b : α) (rest : List α)
    (hlen : ps.length = rest.length + 2)
    (hok : NamesOk [fName] (effParams cfg [fName] paramPrefix ps)) :
    runFlip cfg ps f (b :: a :: rest) = Spec.flipSpec f (b :: a :: rest) := by
  unfold runFlip flipTm
  have hl := length_effParams cfg [fName] paramPrefix ps
  generalize effParams cfg [fName] paramPrefix ps = e at hok hl ⊢
  match e, hl with
  | p :: q :: ps', hl =>
    have : ps'.length = rest.length := by simp at hl; omega
    rw [flip_core p q ps' 1 _ (logging f) a b rest this hok]
    simp [logging, Spec.flipSpec, Spec.callOnce]
  | [_], hl => simp at hl; omega
  | [], hl => simp at hl; omega

theorem runApply_eq {α} (cfg : Cfg) (ps : List Param) (f : List α → List α) (last : α) (others : List α)
    (hlen : ps.length = others.length + 1)
    (hok : NamesOk [fName] (effParams cfg [fName] paramPrefix ps)) :
    runApply cfg ps f last others = Spec.applySpec f last others := by
  unfold runApply applyTm
  have hl := length_effParams cfg [fName] paramPrefix ps
  generalize effParams cfg [fName] paramPrefix ps = e at hok hl ⊢
  have hne : e ≠ [] := by intro h; subst h; simp at hl; omega
  obtain ⟨o, l, rfl⟩ : ∃ o l, e = o ++ [l] := ⟨e.dropLast, e.getLast hne, (List.dropLast_concat_getLast hne).symm⟩
  have : o.length = others.length := by simp at hl; omega
  simp only [applySig_append]
  rw [apply_core o l 1 _ (logging f) last others this hok]
  simp [logging, Spec.applySpec, Spec.callOnce]



theorem length_uncurryParams (cfg : Cfg) (outer inner : List Param) :
    (uncurryParams cfg outer inner).1.length = outer.length ∧
    (uncurryParams cfg outer inner).2.length = inner.length := by
  have hr : ∀ (x pre : Name) (ps : List Param) (i : Nat), (renameParam x pre i ps).length = ps.length := by
    intro x pre ps
    induction ps with
    | nil => intro _; rfl
    | cons p r ih => intro i; simp [renameParam, ih]
  unfold uncurryParams
  dsimp only
  split <;> simp [length_effParams, hr]

theorem runUncurry_eq {α} (cfg : Cfg) (outer inner : List Param) (f : List α → List α) (a : α) (rest : List α)
    (hlen1 : outer.length = 1) (hlen2 : inner.length = rest.length)
    (hok : NamesOk [fName] ((uncurryParams cfg outer inner).1 ++ (uncurryParams cfg outer inner).2)) :
    runUncurry cfg outer inner f (a :: rest) = Spec.uncurrySpec f (a :: rest) := by
  unfold runUncurry uncurryTm
  have hl := length_uncurryParams cfg outer inner
  generalize uncurryParams cfg outer inner = pr at hok hl ⊢
  obtain ⟨o, i⟩ := pr
  dsimp only at hok hl ⊢
  rw [show vals (a :: rest) = vals ([a] ++ rest) from rfl,
    uncurry_core o i 1 _ (loggingCurried f) [a] rest (by simp [hl.1, hlen1]) (by simp [hl.2, hlen2]) hok]
  simp [loggingCurried, Spec.uncurrySpec]

theorem NamesOk.left {avoid : List Name} {a b : List Param} (h : NamesOk avoid (a ++ b)) : NamesOk avoid a := by
  obtain ⟨h1, h2, h3⟩ := h
  rw [names_append] at h1 h2 h3
  exact ⟨fun n hn => h1 n (List.mem_append_left _ hn), (List.nodup_append.1 h2).1,
    fun n hn => h3 n (List.mem_append_left _ hn)⟩

theorem NamesOk.right {avoid : List Name} {a b : List Param} (h : NamesOk avoid (a ++ b)) : NamesOk avoid b := by
  obtain ⟨h1, h2, h3⟩ := h
  rw [names_append] at h1 h2 h3
  exact ⟨fun n hn => h1 n (List.mem_append_right _ hn), (List.nodup_append.1 h2).2.1,
    fun n hn => h3 n (List.mem_append_right _ hn)⟩

/-- `deriveUncurry(deriveCurry(f))`: uncurry sees the signature of the curry wrapper (already renamed)
and renames it once more; `hok2` is the naming condition for that second round -/
theorem runUncurryCurry_eq {α} (cfg : Cfg) (ps : List Param) (f : List α → List α) (a : α) (rest : List α)
    (hlen : ps.length = rest.length + 1)
    (hok : NamesOk [fName] (effParams cfg [fName] paramPrefix ps))
    (hok2 : NamesOk [fName]
      ((uncurryParams cfg (currySig (effParams cfg [fName] paramPrefix ps)).1 (currySig (effParams cfg [fName] paramPrefix ps)).2).1 ++
       (uncurryParams cfg (currySig (effParams cfg [fName] paramPrefix ps)).1 (currySig (effParams cfg [fName] paramPrefix ps)).2).2)) :
    runUncurryCurry cfg ps f (a :: rest) = Spec.callOnce f (a :: rest) := by
  unfold runUncurryCurry
  have hl := length_effParams cfg [fName] paramPrefix ps
  have hc := runCurry_eq cfg ps f a rest hlen hok
  generalize he : effParams cfg [fName] paramPrefix ps = e at hok hok2 hl ⊢
  match e, hl with
  | p :: ps', hl =>
    have hlen' : ps'.length = rest.length := by simp at hl; omega
    simp only [currySig, List.take_succ_cons, List.take_zero, List.drop_succ_cons, List.drop_zero] at hok2 ⊢
    unfold uncurryTm
    have hlu := length_uncurryParams cfg [p] ps'
    generalize uncurryParams cfg [p] ps' = pr at hok2 hlu ⊢
    obtain ⟨o, i⟩ := pr
    dsimp only at hok2 hlu ⊢
    rw [show vals (a :: rest) = vals ([a] ++ rest) from rfl,
      uncurry_core o i 1 _ (curried cfg ps f) [a] rest (by simp [hlu.1]) (by simp [hlu.2, hlen']) hok2]
    simpa [curried, Spec.currySpec] using hc
  | [], hl => simp at hl; omega

theorem length_tupleParams (ts : List Nat) : (tupleParams ts).length = ts.length := by
  simp [tupleParams, length_positionalFrom]

theorem runTuple_eq {α} (ts : List Nat) (args : List α) (hlen : ts.length = args.length) :
    runTuple ts args = Spec.tupleSpec args := by
  unfold runTuple tupleTm
  have hl : (tupleParams ts).length = args.length := by rw [length_tupleParams, hlen]
  have hok : NamesOk [] (tupleParams ts) := namesOk_positional (by simp [vPrefix]) (by simp) _ 0
  rw [eval_lam _ _ _ _ _ (by simp [binders, vals, hl]), eval_lam _ _ _ _ _ rfl, bindG_binders]
  have hln : (names (tupleParams ts)).length ≤ args.length := by simp [names, hl]
  have henv : (bindG ([] : List Binder) ([] : List (RV α))) ++
      ((liftKV ((names (tupleParams ts)).zip args)).reverse ++ [])
      = (liftKV ((names (tupleParams ts)).zip args)).reverse := by simp [bindG]
  rw [henv]
  have hnd : (((liftKV ((names (tupleParams ts)).zip args)).reverse).map Prod.fst).Nodup := by
    rw [List.map_reverse, keys_liftKV, List.map_fst_zip hln]
    exact (List.reverse_perm _).nodup_iff.2 hok.2.1
  have hb : Bound ((liftKV ((names (tupleParams ts)).zip args)).reverse) ((names (tupleParams ts)).zip args) :=
    fun n a hm => ⟨hok.1 n (List.of_mem_zip hm).1, List.mem_reverse.2 (mem_liftKV hm)⟩
  have := lookupVals_of_bound _ hnd _ hb
  rw [List.map_fst_zip hln, List.map_snd_zip (by simp [names, hl])] at this
  simp [eval, this, Spec.tupleSpec]



theorem genName_param_ne_inner (i j : Nat) : genName paramPrefix i ≠ genName innerPrefix j := by
  intro h
  simp only [genName, paramPrefix, innerPrefix, List.cons_append, List.cons.injEq] at h
  exact absurd h.1 (by decide)

theorem namesOk_append {avoid : List Name} {a b : List Param} (ha : NamesOk avoid a) (hb : NamesOk avoid b)
    (hd : ∀ n ∈ names a, n ∉ names b) : NamesOk avoid (a ++ b) := by
  refine ⟨fun n hn => ?_, ?_, fun n hn => ?_⟩
  · rw [names_append] at hn
    rcases List.mem_append.1 hn with h | h
    · exact ha.1 n h
    · exact hb.1 n h
  · rw [names_append]
    exact List.nodup_append.2 ⟨ha.2.1, hb.2.1, fun x hx y hy e => hd x hx (e ▸ hy)⟩
  · rw [names_append] at hn
    rcases List.mem_append.1 hn with h | h
    · exact ha.2.2 n h
    · exact hb.2.2 n h

/-- the side condition of uncurry: both lists fine on their own, and no clash between the (renamed)
outer and inner names unless that is repaired -/
theorem uncurryParams_namesOk (cfg : Cfg) (outer inner : List Param) (hc : cfg.crossFixed = false)
    (hvo : ValidSig outer) (hvi : ValidSig inner)
    (hso : Side cfg [fName] outer) (hsi : Side cfg [fName] inner)
    (hx : ∀ n ∈ names (effParams cfg [fName] paramPrefix outer), n ∉ names (effParams cfg [fName] innerPrefix inner)) :
    NamesOk [fName] ((uncurryParams cfg outer inner).1 ++ (uncurryParams cfg outer inner).2) := by
  have hf1 : ∀ n ∈ [fName], n.length ≤ paramPrefix.length := by simp [fName, paramPrefix]
  have hf2 : ∀ n ∈ [fName], n.length ≤ innerPrefix.length := by simp [fName, innerPrefix]
  have ho := effParams_namesOk cfg (pre := paramPrefix) (by simp [paramPrefix]) hf1 avoidOk_f outer hvo hso
  have hi := effParams_namesOk cfg (pre := innerPrefix) (by simp [innerPrefix]) hf2 avoidOk_f inner hvi hsi
  unfold uncurryParams
  simp only [hc, Bool.false_eq_true, if_false]
  exact namesOk_append ho hi hx

end Goderive.Plumb

namespace Goderive.ErrChain
open Goderive Goderive.Spec

/-- `composeSpec` for a chain that starts at stage number `i` -/
def composeSpecFrom {V E} (zeros : List V) (i : Nat) (stages : List (Stage V E)) (args : List V) : Result V E :=
  let es := errors stages args
  let k := (es.takeWhile Option.isNone).length
  match es[k]? with
  | some (some e) => { res := zeros, err := some e, log := indexFrom i ((inputs stages args).take (k + 1)) }
  | _ => { res := finalOut stages args, err := none, log := indexFrom i (inputs stages args) }

theorem composeFrom_eq {V E} (zeros : List V) : ∀ (stages : List (Stage V E)) (i : Nat) (args : List V) (log : Log V),
    composeFrom zeros i stages args log =
      { res := (composeSpecFrom zeros i stages args).res, err := (composeSpecFrom zeros i stages args).err,
        log := log ++ (composeSpecFrom zeros i stages args).log }
  | [], i, args, log => by
    simp [composeFrom, composeSpecFrom, errors, inputs, finalOut, indexFrom]
  | s :: rest, i, args, log => by
    have ih := composeFrom_eq zeros rest (i + 1)
    cases h : s.run args with
    | mk next err =>
      cases err with
      | some e =>
        simp [composeFrom, h, composeSpecFrom, errors, inputs, indexFrom]
      | none =>
        simp only [composeFrom, h, ih]
        simp only [composeSpecFrom, errors, inputs, finalOut, h, List.takeWhile_cons, Option.isNone_none,
          if_true, List.length_cons, List.getElem?_cons_succ, List.take_succ_cons, indexFrom]
        split <;> simp [List.append_assoc]

theorem compose_eq_spec {V E} (zeros : List V) (stages : List (Stage V E)) (args : List V) :
    compose zeros stages args = composeSpec zeros stages args := by
  simp only [compose, composeFrom_eq, List.nil_append]
  rfl

end Goderive.ErrChain

namespace Goderive.ErrChain
open Goderive Goderive.Spec

/-- `traverseSpec` for a loop that is at index `i` with the results so far in `out` -/
def traverseSpecFrom {V E} (f : V → V × Option E) (i : Nat) (list out : List V) : TResult V E :=
  let k := (list.takeWhile fun x => (f x).2.isNone).length
  match list[k]? with
  | some x => { out := none, err := (f x).2, log := indexFrom i ((list.take (k + 1)).map fun x => [x]) }
  | none => { out := some (out ++ list.map fun x => (f x).1), err := none,
              log := indexFrom i (list.map fun x => [x]) }

theorem traverseFrom_eq {V E} (f : V → V × Option E) : ∀ (list : List V) (i : Nat) (out : List V) (log : Log V),
    traverseFrom f i list out log =
      { out := (traverseSpecFrom f i list out).out, err := (traverseSpecFrom f i list out).err,
        log := log ++ (traverseSpecFrom f i list out).log }
  | [], i, out, log => by simp [traverseFrom, traverseSpecFrom, indexFrom]
  | x :: rest, i, out, log => by
    have ih := traverseFrom_eq f rest (i + 1)
    cases h : f x with
    | mk y err =>
      cases err with
      | some e => simp [traverseFrom, h, traverseSpecFrom, indexFrom]
      | none =>
        simp only [traverseFrom, h, ih]
        simp only [traverseSpecFrom, h, List.takeWhile_cons, Option.isNone_none, if_true, List.length_cons,
          List.getElem?_cons_succ, List.take_succ_cons, List.map_cons, indexFrom]
        split <;> simp [List.append_assoc]

theorem traverse_eq_spec {V E} (f : V → V × Option E) (list : List V) :
    traverse f list = traverseSpec f list := by
  simp only [traverse, traverseFrom_eq, List.nil_append]
  rfl

theorem fmapE_eq_spec {V E} (zeros : List V) (g : Stage V E) (f : List V → List V) :
    fmapE zeros g f = fmapESpec zeros g f := by
  unfold fmapE fmapESpec composeSpec
  cases h : g.run [] with
  | mk v err => cases err <;> simp [errors, inputs, finalOut, indexFrom, h]

/-- join against the property text: right unless `f` itself fails AND returns something else than zero
values beside its error (or join is repaired) -/
theorem joinEC_eq_spec {V E} (pass : Bool) (zeros : List V) (f : Stage V E) (err : Option E)
    (h : pass = true ∨ (f.run []).2 = none ∨ (f.run []).1 = zeros) :
    joinEC pass zeros f err = joinESpec zeros f err := by
  cases err with
  | some e => cases pass <;> simp [joinEC, zeroOnError, joinE, joinESpec]
  | none =>
    cases hf : f.run [] with
    | mk r e =>
      rw [hf] at h
      cases e with
      | none => cases pass <;> simp [joinEC, zeroOnError, joinE, joinESpec, hf]
      | some e' =>
        cases pass with
        | true => simp [joinEC, zeroOnError, joinE, joinESpec, hf]
        | false =>
          rcases h with h | h | h
          · cases h
          · cases h
          · simp only at h
            simp [joinEC, zeroOnError, joinE, joinESpec, hf, h]

theorem bindEC_eq_spec {V E} (pass : Bool) (zeros : List V) (g f : Stage V E)
    (h : pass = true ∨ (f.run (g.run []).1).2 = none ∨ (f.run (g.run []).1).1 = zeros) :
    bindEC pass zeros g f = bindESpec zeros g f := by
  unfold bindEC bindE bindESpec zeroOnError
  cases hg : g.run [] with
  | mk v err =>
    rw [hg] at h
    cases err with
    | some e => cases pass <;> simp
    | none =>
      simp only at h
      cases hf : f.run v with
      | mk r e =>
        rw [hf] at h
        cases e with
        | none => cases pass <;> simp [hf]
        | some e' =>
          cases pass with
          | true => simp [hf]
          | false =>
            rcases h with h | h | h
            · cases h
            · cases h
            · simp only at h
              simp [hf, h]

theorem fmapEFn_eq_spec {V E} (g f : Stage V E) : fmapEFn g f = fmapEFnSpec g f := by
  unfold fmapEFn fmapEFnSpec
  cases h : g.run [] with
  | mk v err => cases err <;> simp

/-- the function returned by the emitted fmap never evaluates anything: the log stays what it was
when fmap returned, after any number of invocations -/
theorem fmapEFn_logAfter {V E} (g f : Stage V E) (t : Thunk V E) (h : (fmapEFn g f).fn = some t) :
    ∀ n, t.logAfter (fmapEFn g f).log n = (fmapEFn g f).log := by
  have hp : t.perCall = [] := by
    unfold fmapEFn at h
    cases hg : g.run [] with
    | mk v err =>
      cases err with
      | some e => simp [hg] at h
      | none =>
        simp only [hg, Option.some.injEq] at h
        rw [← h]
  intro n
  induction n with
  | zero => rfl
  | succ n ih => simp [Thunk.logAfter, ih, hp]

/-- join of the function returned by fmap = the nested form `deriveJoin(deriveFmap(f, g))`, with all
calls already made before join runs -/
theorem joinFn_fmapEFn {V E} (zeros : List V) (g f : Stage V E) :
    ∃ r, joinFn zeros (fmapEFn g f).fn (fmapEFn g f).err = some r ∧ r.log = [] ∧
      (bindE zeros g f) = { res := r.res, err := r.err, log := (fmapEFn g f).log } := by
  unfold joinFn fmapEFn bindE
  cases hg : g.run [] with
  | mk v err =>
    cases err with
    | some e => exact ⟨_, rfl, rfl, rfl⟩
    | none => exact ⟨_, rfl, rfl, rfl⟩

theorem toError_eq_spec {V E} (err : E) (f : List V → List V × Bool) (args : List V) :
    toError err f args = toErrorSpec err f args := by
  unfold toError toErrorSpec
  cases h : f args with
  | mk outs ok => cases ok <;> simp

end Goderive.ErrChain

namespace Goderive.ErrChain
open Goderive Goderive.Spec

/-- types whose zero value is written `nil` -/
def nilable : Ty → Bool
  | .ptr _ | .slice _ | .map _ _ | .chan _ | .func | .iface => true
  | _ => false

def isBasic : Ty → Bool
  | .basic _ => true
  | _ => false

/-- the types for which `derive.Zero` is right: unnamed basic types, and everything whose underlying
type is a pointer, slice, map, channel, function or interface -/
def ZeroSupported (env : Env) (T : Ty) : Prop :=
  nilable (env.under T) = true ∨ (isBasic T = true)

instance (env : Env) (T : Ty) : Decidable (ZeroSupported env T) := by
  unfold ZeroSupported; exact inferInstance

/-- an underlying type is never a name or a bare field list -/
def properTy : Ty → Bool
  | .fnil | .fcons _ _ | .named _ => false
  | _ => true

theorem zero_ok_of_supported (env : Env) (T : Ty) (h : ZeroSupported env T) : ZeroOk env T (zeroText T) := by
  unfold ZeroOk
  rcases h with h | h
  · cases T with
    | named i =>
      simp only [zeroText, zeroOkB]
      generalize env.under (.named i) = U at h ⊢
      cases U <;> simp_all [nilable]
    | basic b => simp [Env.under, nilable] at h
    | _ => simp_all [Env.under, nilable, zeroText, zeroOkB]
  · cases T with
    | basic b => cases b <;> simp [zeroText, zeroOkB, Env.under]
    | _ => simp [isBasic] at h

/-- a repaired `Zero` is right for every proper type -/
theorem zero_ok_fixed (env : Env) (T : Ty) (h : properTy (env.under T) = true) :
    ZeroOk env T (fixedZero env T) := by
  unfold ZeroOk fixedZero zeroOkB
  generalize env.under T = U at h ⊢
  cases U with
  | basic b => cases b <;> simp
  | _ => simp_all [properTy]

theorem indexFrom_fst {V} : ∀ (l : List (List V)) (i : Nat), (indexFrom i l).map Prod.fst = List.range' i l.length
  | [], _ => rfl
  | _ :: r, i => by simp [indexFrom, indexFrom_fst r (i + 1), List.range'_succ]

end Goderive.ErrChain

/-! ### static semantics: the wrappers type-check under the same naming condition -/
namespace Goderive.Plumb
open Goderive

theorem nodupB_iff : ∀ (l : List Name), nodupB l = true ↔ l.Nodup
  | [] => by simp [nodupB]
  | a :: r => by simp [nodupB, nodupB_iff r, List.nodup_cons]

theorem lookupB_of_mem : ∀ (env : List Binder) (b : Binder),
    (env.map (·.name)).Nodup → b ∈ env → lookupB env b.name = some b.ty
  | [], _, _, h => by cases h
  | c :: rest, b, hnd, hmem => by
    simp only [List.map_cons, List.nodup_cons] at hnd
    simp only [lookupB]
    rcases List.mem_cons.1 hmem with h | h
    · subst h; simp
    · have hne : c.name ≠ b.name := fun e => hnd.1 (e ▸ List.mem_map.2 ⟨b, h, rfl⟩)
      simp [hne, lookupB_of_mem rest b hnd.2 h]

theorem argsOk_of_mem (env : List Binder) (hnd : (env.map (·.name)).Nodup) :
    ∀ (ps : List Param), (∀ p ∈ ps, usable p.name = true ∧ p.toBinder ∈ env) → argsOk env (names ps) (tys ps) = true
  | [], _ => rfl
  | p :: r, h => by
    have h1 := h p (List.mem_cons_self ..)
    have := lookupB_of_mem env p.toBinder hnd h1.2
    simp only [Param.toBinder] at this
    simp [argsOk, names, tys, h1.1, this]
    exact argsOk_of_mem env hnd r (fun q hq => h q (List.mem_cons_of_mem _ hq))

theorem groupOk_binders {avoid : List Name} {ps : List Param} (h : NamesOk avoid ps) : groupOk (binders ps) = true := by
  have hn : (binders ps).map (·.name) = names ps := by simp [binders, names, Param.toBinder, Function.comp_def]
  have hus : (names ps).filter usable = names ps := List.filter_eq_self.2 h.1
  simp only [groupOk, hn, hus, Bool.and_eq_true, Bool.or_eq_true, List.all_eq_true, nodupB_iff]
  refine ⟨Or.inr fun n hn => ?_, h.2.1⟩
  have := h.1 n hn
  simp only [usable, Bool.and_eq_true] at this
  exact this.1

/-- whether `return` is printed matches whether there is something to return -/
theorem retFlag_ok {cfg : Cfg} {nres : Nat} (h : 0 < nres ∨ cfg.voidFixed = true) :
    (retFlag cfg nres == decide (0 < nres)) = true := by
  unfold retFlag
  rcases Nat.eq_zero_or_pos nres with h0 | hp
  · subst h0
    rcases h with h | h
    · omega
    · simp [h]
  · have : (nres == 0) = false := by simp; omega
    simp [this, hp]

end Goderive.Plumb

namespace Goderive.Plumb
open Goderive

def envBOf (base : List Binder) : List (List Param) → List Binder
  | [] => base
  | g :: rest => envBOf ((binders g).reverse ++ base) rest

theorem names_binders (ps : List Param) : (binders ps).map (·.name) = names ps := by
  simp [binders, names, Param.toBinder, Function.comp_def]

theorem envBOf_ok : ∀ (gs : List (List Param)) (base : List Binder),
    (base.map (·.name) ++ names gs.flatten).Nodup →
    ((envBOf base gs).map (·.name)).Nodup ∧ (∀ x ∈ base, x ∈ envBOf base gs) ∧
      (∀ p ∈ gs.flatten, p.toBinder ∈ envBOf base gs)
  | [], base, h => by simpa [envBOf, names] using h
  | g :: rest, base, h => by
    have hperm : ((((binders g).reverse ++ base).map (·.name)) ++ names rest.flatten).Perm
        (base.map (·.name) ++ names (g :: rest).flatten) := by
      simp only [List.map_append, List.map_reverse, names_binders, List.flatten_cons, names_append]
      rw [← List.append_assoc (base.map (·.name))]
      exact ((List.reverse_perm _).append_right _ |>.trans List.perm_append_comm).append_right _
    obtain ⟨h1, h2, h3⟩ := envBOf_ok rest ((binders g).reverse ++ base) (hperm.nodup_iff.2 h)
    refine ⟨h1, fun x hx => h2 x (List.mem_append_right _ hx), fun p hm => ?_⟩
    rcases List.mem_append.1 (List.flatten_cons ▸ hm) with hk | hr
    · exact h2 _ (List.mem_append_left _ (List.mem_reverse.2 (List.mem_map.2 ⟨p, hk, rfl⟩)))
    · exact h3 p hr

/-- the emitted body type-checks below binder groups with good names -/
theorem wf_call1 (gs : List (List Param)) (ps : List Param) (nres : Nat) (ret : Bool)
    (hnd : (fName :: names gs.flatten).Nodup) (hus : ∀ p ∈ ps, usable p.name = true)
    (hsub : ∀ p ∈ ps, p ∈ gs.flatten) (hret : (ret == decide (0 < nres)) = true) :
    wf (envBOf [⟨fName, .fn [tys ps] nres⟩] gs) (.call fName [names ps] ret) = true := by
  obtain ⟨h1, h2, h3⟩ := envBOf_ok gs [⟨fName, .fn [tys ps] nres⟩] (by simpa using hnd)
  have hf := lookupB_of_mem _ ⟨fName, .fn [tys ps] nres⟩ h1 (h2 _ (by simp))
  simp only at hf
  simp only [wf, hf, groupsOk, Bool.and_true, hret]
  exact argsOk_of_mem _ h1 ps fun p hp => ⟨hus p hp, h3 p (hsub p hp)⟩

theorem groupOk_f (b : BTy) : groupOk [⟨fName, b⟩] = true := by
  simp only [groupOk, List.map_cons, List.map_nil]
  decide

theorem curry_wf (cfg : Cfg) (ps : List Param) (nres : Nat) (hlen : 1 ≤ ps.length)
    (hok : NamesOk [fName] (effParams cfg [fName] paramPrefix ps))
    (hret : 0 < nres ∨ cfg.voidFixed = true) :
    wrapperWellFormed (curryTm cfg ps nres) = true := by
  unfold wrapperWellFormed curryTm
  have hl := length_effParams cfg [fName] paramPrefix ps
  generalize effParams cfg [fName] paramPrefix ps = e at hok hl ⊢
  match e, hl with
  | p :: ps', hl =>
    simp only [currySig, List.take_succ_cons, List.take_zero, List.drop_succ_cons, List.drop_zero, wf,
      Bool.and_eq_true]
    have hok' : NamesOk [fName] ([p] ++ ps') := hok
    refine ⟨groupOk_f _, groupOk_binders hok'.left, groupOk_binders hok'.right, ?_⟩
    have henv : ((binders ps').reverse ++ ((binders [p]).reverse ++ ([fBinder [p :: ps'] nres].reverse ++ [])))
        = envBOf [⟨fName, .fn [tys (p :: ps')] nres⟩] [[p], ps'] := by
      simp [envBOf, fBinder]
    rw [henv]
    exact wf_call1 _ _ _ _ (by simpa using hok.nodup_f) (fun q hq => hok.1 _ (List.mem_map.2 ⟨q, hq, rfl⟩))
      (by simp) (retFlag_ok hret)
  | [], hl => simp at hl; omega

end Goderive.Plumb

namespace Goderive.Plumb
open Goderive

theorem wf_call2 (gs : List (List Param)) (o i : List Param) (nres : Nat) (ret : Bool)
    (hnd : (fName :: names gs.flatten).Nodup) (hus : ∀ p ∈ o ++ i, usable p.name = true)
    (hsub : ∀ p ∈ o ++ i, p ∈ gs.flatten) (hret : (ret == decide (0 < nres)) = true) :
    wf (envBOf [⟨fName, .fn [tys o, tys i] nres⟩] gs) (.call fName [names o, names i] ret) = true := by
  obtain ⟨h1, h2, h3⟩ := envBOf_ok gs [⟨fName, .fn [tys o, tys i] nres⟩] (by simpa using hnd)
  have hf := lookupB_of_mem _ ⟨fName, .fn [tys o, tys i] nres⟩ h1 (h2 _ (by simp))
  simp only at hf
  simp only [wf, hf, groupsOk, Bool.and_true, hret, Bool.and_eq_true]
  exact ⟨argsOk_of_mem _ h1 o fun p hp => ⟨hus p (List.mem_append_left _ hp), h3 p (hsub p (List.mem_append_left _ hp))⟩,
    argsOk_of_mem _ h1 i fun p hp => ⟨hus p (List.mem_append_right _ hp), h3 p (hsub p (List.mem_append_right _ hp))⟩⟩

theorem flip_wf (cfg : Cfg) (ps : List Param) (nres : Nat) (hlen : 2 ≤ ps.length)
    (hok : NamesOk [fName] (effParams cfg [fName] paramPrefix ps))
    (hret : 0 < nres ∨ cfg.voidFixed = true) :
    wrapperWellFormed (flipTm cfg ps nres) = true := by
  unfold wrapperWellFormed flipTm
  have hl := length_effParams cfg [fName] paramPrefix ps
  generalize effParams cfg [fName] paramPrefix ps = e at hok hl ⊢
  match e, hl with
  | p :: q :: ps', hl =>
    have hperm : (names (flipSig (p :: q :: ps'))).Perm (names (p :: q :: ps')) := List.Perm.swap _ _ _
    have hokf : NamesOk [fName] (flipSig (p :: q :: ps')) :=
      ⟨fun n hn => hok.1 n (hperm.mem_iff.1 hn), hperm.nodup_iff.2 hok.2.1, fun n hn => hok.2.2 n (hperm.mem_iff.1 hn)⟩
    simp only [wf, Bool.and_eq_true]
    refine ⟨groupOk_f _, groupOk_binders hokf, ?_⟩
    have henv : ((binders (flipSig (p :: q :: ps'))).reverse ++ ([fBinder [p :: q :: ps'] nres].reverse ++ []))
        = envBOf [⟨fName, .fn [tys (p :: q :: ps')] nres⟩] [flipSig (p :: q :: ps')] := by
      simp [envBOf, fBinder]
    rw [henv]
    exact wf_call1 _ _ _ _ (by simpa using hokf.nodup_f) (fun r hr => hok.1 _ (List.mem_map.2 ⟨r, hr, rfl⟩))
      (by
        intro r hr
        simp only [flipSig, List.flatten_cons, List.flatten_nil, List.append_nil]
        exact (List.Perm.swap q p ps').mem_iff.1 hr)
      (retFlag_ok hret)
  | [_], hl => simp at hl; omega
  | [], hl => simp at hl; omega

theorem apply_wf (cfg : Cfg) (ps : List Param) (nres : Nat) (hlen : 1 ≤ ps.length)
    (hok : NamesOk [fName] (effParams cfg [fName] paramPrefix ps))
    (hret : 0 < nres ∨ cfg.voidFixed = true) :
    wrapperWellFormed (applyTm cfg ps nres) = true := by
  unfold wrapperWellFormed applyTm
  have hl := length_effParams cfg [fName] paramPrefix ps
  generalize effParams cfg [fName] paramPrefix ps = e at hok hl ⊢
  have hne : e ≠ [] := by intro h; subst h; simp at hl; omega
  obtain ⟨o, l, rfl⟩ : ∃ o l, e = o ++ [l] := ⟨e.dropLast, e.getLast hne, (List.dropLast_concat_getLast hne).symm⟩
  simp only [applySig_append, wf, Bool.and_eq_true]
  have hlus := hok.right.1 l.name (by simp [names])
  have hlf : l.name ≠ fName := fun e => hok.right.2.2 l.name (by simp [names]) (by simp [e])
  refine ⟨?_, groupOk_binders hok.left, ?_⟩
  · have hne0 : l.name ≠ [] := by
      intro e; simp [usable, e] at hlus
    have hfl : List.filter usable [fName, l.name] = [fName, l.name] :=
      List.filter_eq_self.2 (by
        intro n hn
        rcases List.mem_cons.1 hn with rfl | hn
        · decide
        · rcases List.mem_cons.1 hn with rfl | hn
          · exact hlus
          · cases hn)
    simp only [groupOk, fBinder, binders, Param.toBinder, List.map_cons, List.map_nil, hfl, Bool.and_eq_true,
      Bool.or_eq_true, List.all_eq_true, nodupB_iff]
    refine ⟨Or.inr ?_, List.nodup_cons.2 ⟨?_, by simp⟩⟩
    · intro n hn
      rcases List.mem_cons.1 hn with rfl | hn
      · decide
      · rcases List.mem_cons.1 hn with rfl | hn
        · simpa using hne0
        · cases hn
    · intro hm
      rcases List.mem_cons.1 hm with e | hm
      · exact hlf e.symm
      · cases hm
  · have henv : ((binders o).reverse ++ ((fBinder [o ++ [l]] nres :: binders [l]).reverse ++ []))
        = envBOf [⟨fName, .fn [tys (o ++ [l])] nres⟩] [[l], o] := by
      simp [envBOf, fBinder, binders]
    rw [henv]
    refine wf_call1 _ _ _ _ ?_ (fun r hr => hok.1 _ (List.mem_map.2 ⟨r, hr, rfl⟩)) (by
      intro r hr
      simp only [List.flatten_cons, List.flatten_nil, List.append_nil]
      exact List.perm_append_comm.mem_iff.1 hr) (retFlag_ok hret)
    have := hok.nodup_f
    simp only [List.flatten_cons, List.flatten_nil, List.append_nil, names_append, names_cons, names_nil] at this ⊢
    exact (List.Perm.cons _ List.perm_append_comm).nodup_iff.1 this

theorem uncurry_wf (cfg : Cfg) (outer inner : List Param) (nres : Nat)
    (hok : NamesOk [fName] ((uncurryParams cfg outer inner).1 ++ (uncurryParams cfg outer inner).2))
    (hret : 0 < nres ∨ cfg.voidFixed = true) :
    wrapperWellFormed (uncurryTm cfg outer inner nres) = true := by
  unfold wrapperWellFormed uncurryTm
  generalize uncurryParams cfg outer inner = pr at hok ⊢
  obtain ⟨o, i⟩ := pr
  dsimp only at hok ⊢
  simp only [wf, Bool.and_eq_true]
  refine ⟨groupOk_f _, groupOk_binders hok, ?_⟩
  have henv : ((binders (uncurrySig o i)).reverse ++ ([fBinder [o, i] nres].reverse ++ []))
      = envBOf [⟨fName, .fn [tys o, tys i] nres⟩] [o ++ i] := by
    simp [envBOf, fBinder, uncurrySig]
  rw [henv]
  exact wf_call2 _ _ _ _ _ (by simpa using hok.nodup_f) (fun r hr => hok.1 _ (List.mem_map.2 ⟨r, hr, rfl⟩))
    (by simp) (retFlag_ok hret)

theorem tuple_wf (ts : List Nat) : wrapperWellFormed (tupleTm ts) = true := by
  unfold wrapperWellFormed tupleTm
  have hok : NamesOk [] (tupleParams ts) := namesOk_positional (by simp [vPrefix]) (by simp) _ 0
  simp only [wf, Bool.and_eq_true]
  refine ⟨groupOk_binders hok, by simp [groupOk, nodupB], ?_⟩
  have hnd : (((([] : List Binder).reverse ++ ((binders (tupleParams ts)).reverse ++ []))).map Binder.name).Nodup := by
    simp only [List.reverse_nil, List.nil_append, List.append_nil, List.map_reverse, names_binders]
    exact (List.reverse_perm _).nodup_iff.2 hok.2.1
  have hmem : ∀ p ∈ tupleParams ts, p.toBinder ∈ (([] : List Binder).reverse ++ ((binders (tupleParams ts)).reverse ++ [])) := by
    intro p hp
    simp only [List.reverse_nil, List.nil_append, List.append_nil, List.mem_reverse]
    exact List.mem_map.2 ⟨p, hp, rfl⟩
  generalize (([] : List Binder).reverse ++ ((binders (tupleParams ts)).reverse ++ [])) = env at hnd hmem
  have : ∀ (ps : List Param), (∀ p ∈ ps, usable p.name = true ∧ p.toBinder ∈ env) → retOk env (names ps) = true := by
    intro ps
    induction ps with
    | nil => intro _; rfl
    | cons p r ih =>
      intro h
      have h1 := h p (List.mem_cons_self ..)
      have hb := lookupB_of_mem env p.toBinder hnd h1.2
      simp only [Param.toBinder] at hb
      simp only [names_cons, retOk, h1.1, hb, Bool.and_true, Bool.true_and]
      exact ih fun q hq => h q (List.mem_cons_of_mem _ hq)
  exact this _ fun p hp => ⟨hok.1 _ (List.mem_map.2 ⟨p, hp, rfl⟩), hmem p hp⟩

end Goderive.Plumb

/-! ### C16: corollaries in the wording of the property, compile predictions -/
namespace Goderive.ErrChain
open Goderive Goderive.Spec

theorem takeWhile_all_none {E} : ∀ (es : List (Option E)), (∀ e ∈ es, e = none) → es.takeWhile Option.isNone = es
  | [], _ => rfl
  | e :: r, h => by
    have := h e (List.mem_cons_self ..)
    subst this
    simp [takeWhile_all_none r (fun x hx => h x (List.mem_cons_of_mem _ hx))]

/-- the position of the first failure, characterised pointwise -/
theorem takeWhile_first {E} : ∀ (k : Nat) (es : List (Option E)) (e : E),
    es[k]? = some (some e) → (∀ j, j < k → es[j]? = some none) → (es.takeWhile Option.isNone).length = k
  | 0, [], _, h, _ => by simp at h
  | 0, x :: r, e, h, _ => by
    simp only [List.getElem?_cons_zero, Option.some.injEq] at h
    subst h; simp
  | k + 1, [], _, h, _ => by simp at h
  | k + 1, x :: r, e, h, hb => by
    have h0 := hb 0 (by omega)
    simp only [List.getElem?_cons_zero, Option.some.injEq] at h0
    subst h0
    simp only [List.getElem?_cons_succ] at h
    have := takeWhile_first k r e h (fun j hj => by simpa using hb (j + 1) (by omega))
    simp [this]

theorem compose_no_failure' {V E} (zeros : List V) (stages : List (Stage V E)) (args : List V)
    (h : ∀ e ∈ errors stages args, e = none) :
    compose zeros stages args =
      { res := finalOut stages args, err := none, log := indexFrom 0 (inputs stages args) } := by
  rw [compose_eq_spec]
  simp only [composeSpec, takeWhile_all_none _ h]
  have : (errors stages args)[(errors stages args).length]? = none := by simp
  rw [this]

theorem compose_first_failure' {V E} (zeros : List V) (stages : List (Stage V E)) (args : List V) (k : Nat) (e : E)
    (hk : (errors stages args)[k]? = some (some e))
    (hb : ∀ j, j < k → (errors stages args)[j]? = some none) :
    compose zeros stages args =
      { res := zeros, err := some e, log := indexFrom 0 ((inputs stages args).take (k + 1)) } := by
  rw [compose_eq_spec]
  simp only [composeSpec, takeWhile_first k _ e hk hb, hk]

theorem length_indexFrom {V} : ∀ (l : List (List V)) (i : Nat), (indexFrom i l).length = l.length
  | [], _ => rfl
  | _ :: r, i => by simp [indexFrom, length_indexFrom r (i + 1)]

theorem compose_log_order {V E} (zeros : List V) (stages : List (Stage V E)) (args : List V) :
    (compose zeros stages args).log.map Prod.fst = List.range (compose zeros stages args).log.length := by
  rw [compose_eq_spec]
  unfold composeSpec
  dsimp only
  split <;> simp [indexFrom_fst, length_indexFrom, List.range_eq_range']

theorem length_inputs {V E} : ∀ (stages : List (Stage V E)) (args : List V), (inputs stages args).length = stages.length
  | [], _ => rfl
  | s :: r, a => by simp [inputs, length_inputs r]

theorem compose_log_bound {V E} (zeros : List V) (stages : List (Stage V E)) (args : List V) :
    (compose zeros stages args).log.length ≤ stages.length := by
  rw [compose_eq_spec]
  unfold composeSpec
  dsimp only
  split <;> simp [length_indexFrom, length_inputs, List.length_take] <;> omega

end Goderive.ErrChain

namespace Goderive.ErrChain
open Goderive Goderive.Spec Goderive.Plumb

/-- compose compiles as soon as every stage has a non-error result (or that is repaired) and every
printed zero is well typed -/
theorem composeWf_of (cfg : Cfg) (env : Env) (outs : List (List Ty))
    (hl : cfg.lhsFixed = true ∨ ∀ o ∈ outs, o ≠ [])
    (hz : ∀ T ∈ outs.getLast?.getD [], ZeroOk env T (zeroTextC cfg env T)) :
    composeWf cfg env outs = true := by
  simp only [composeWf, zerosOk, Bool.and_eq_true, Bool.or_eq_true, List.all_eq_true]
  refine ⟨?_, fun T hT => hz T hT⟩
  rcases hl with h | h
  · exact Or.inl h
  · refine Or.inr fun o ho => ?_
    have := h o ho
    cases o <;> simp_all

theorem zeroOk_zeroTextC (cfg : Cfg) (env : Env) (T : Ty)
    (h : (cfg.zeroFixed = true ∧ properTy (env.under T) = true) ∨
         (cfg.zeroFixed = false ∧ ZeroSupported env T)) :
    ZeroOk env T (zeroTextC cfg env T) := by
  unfold zeroTextC
  rcases h with ⟨hc, h⟩ | ⟨hc, h⟩
  · rw [if_pos hc]; exact zero_ok_fixed env T h
  · rw [hc]; exact zero_ok_of_supported env T h

theorem toErrorWf_of (cfg : Plumb.Cfg) (ps : List Param)
    (hok : NamesOk [fName, errName] (toErrorParams cfg ps))
    (hloc : ∀ n ∈ names (toErrorParams cfg ps), n ≠ successName ∧ outPrefix.isPrefixOf n = false) :
    toErrorWf cfg ps = true := by
  unfold toErrorWf toErrorTm wrapperWellFormed
  generalize toErrorParams cfg ps = e at hok hloc
  simp only [wf, Bool.and_eq_true, List.all_eq_true]
  refine ⟨⟨by simp only [groupOk, fBinder, errBinder, List.map_cons, List.map_nil]; decide, groupOk_binders hok, ?_⟩, ?_⟩
  · -- the call `f(ps…)` below `err`, `f`, `ps`
    have hkeys : (((binders e).reverse ++ ([errBinder, fBinder [e] 1].reverse ++ [])).map
        Binder.name).Nodup := by
      simp only [List.map_append, List.map_reverse, names_binders, List.reverse_cons, List.reverse_nil,
        List.nil_append, List.map_cons, List.map_nil, List.append_nil, fBinder, errBinder, List.cons_append]
      refine List.nodup_append.2 ⟨(List.reverse_perm _).nodup_iff.2 hok.2.1, by decide, ?_⟩
      intro a ha b hb e'
      subst e'
      exact hok.2.2 a (List.mem_reverse.1 ha) (by
        rcases List.mem_cons.1 hb with rfl | hb
        · simp
        · rcases List.mem_cons.1 hb with rfl | hb
          · simp
          · cases hb)
    have hf := lookupB_of_mem _ (fBinder [e] 1) hkeys (by simp)
    simp only [fBinder] at hf ⊢
    rw [hf]
    have ha := argsOk_of_mem _ hkeys e fun p hp => ⟨hok.1 _ (List.mem_map.2 ⟨p, hp, rfl⟩),
      List.mem_append_left _ (List.mem_reverse.2 (List.mem_map.2 ⟨p, hp, rfl⟩))⟩
    simp only [fBinder, List.map_cons, List.map_nil] at ha ⊢
    simp only [groupsOk, ha, Bool.and_true, Bool.true_and]
    decide
  · intro n hn
    have h1 := hloc n hn
    have h2 : n ≠ errName := fun e' => hok.2.2 n hn (by simp [e'])
    simp [h1.1, h1.2, h2]

end Goderive.ErrChain

/-! ### after c612461: the generator's own prefixes are unusable as user names -/

namespace Goderive.Plumb

theorem prefix_false_of_usable_name {cfg : Cfg} (hpf : cfg.prefixFixed = true) {n : Name}
    (h : unusable cfg n = false) : paramPrefix.isPrefixOf n = false ∧ innerPrefix.isPrefixOf n = false := by
  simp only [unusable, hpf, Bool.true_and, Bool.or_eq_false_iff] at h
  exact ⟨h.1.1.2.1, h.1.1.2.2⟩

/-- outer and inner list of uncurry no longer clash through the renaming itself: a name the two
effective lists share is a name the USER wrote in both (and that was not renamed) -/
theorem eff_disjoint (cfg : Cfg) (hpf : cfg.prefixFixed = true) (av1 av2 : List Name) (a b : List Param)
    (hd : ∀ n ∈ names a, n ∈ names b → unusable cfg n = true) :
    ∀ n ∈ names (effParams cfg av1 paramPrefix a), n ∉ names (effParams cfg av2 innerPrefix b) := by
  intro n hn hm
  unfold effParams at hn hm
  rcases mem_names_renameBlankWith hn with ⟨i, ei⟩ | ⟨ha, hua⟩ <;>
    rcases mem_names_renameBlankWith hm with ⟨j, ej⟩ | ⟨hb, hub⟩
  · exact genName_param_ne_inner i j (ei ▸ ej)
  · have := (prefix_false_of_usable_name hpf hub).1
    rw [ei, genName_prefix] at this; cases this
  · have := (prefix_false_of_usable_name hpf hua).2
    rw [ej, genName_prefix] at this; cases this
  · rw [hd n ha hb] at hua; cases hua

/-- the merged list of uncurry for an arbitrary (pre-processed) inner list `inner1`, on a variant where
unnamed, `f`/`err` and the generator's own prefixes are unusable -/
theorem uncurry_merged_namesOk (cfg : Cfg) (hu : cfg.unnamedFixed = true) (hs : cfg.shadowFixed = true)
    (hpf : cfg.prefixFixed = true) (outer inner1 : List Param) (hvo : ValidSig outer)
    (hk : ((names inner1).filter (keepable cfg innerPrefix)).Nodup)
    (hv' : hasBlank cfg inner1 = false → ValidSig inner1)
    (hd : ∀ n ∈ names outer, n ∈ names inner1 → unusable cfg n = true) :
    NamesOk [fName] (effParams cfg [fName] paramPrefix outer ++ effParams cfg [fName] innerPrefix inner1) := by
  have hf1 : ∀ n ∈ [fName], n.length ≤ paramPrefix.length := by simp [fName, paramPrefix]
  have ho := effParams_namesOk cfg (pre := paramPrefix) (by simp [paramPrefix]) hf1 avoidOk_f outer hvo
    (side_of_flags hu hs _ _)
  have hi : NamesOk [fName] (effParams cfg [fName] innerPrefix inner1) := by
    unfold effParams
    refine namesOk_renameBlankWith' cfg (by simp [innerPrefix]) inner1 hk hv' (fun n hn e => ?_) (fun n hn hm => ?_)
    · rcases mem_names_renameBlankWith hn with ⟨j, ej⟩ | ⟨_, hun⟩
      · have := genName_length innerPrefix j; rw [← ej, e] at this; simp at this
      · subst e; simp [unusable, hu] at hun
    · rcases mem_names_renameBlankWith hn with ⟨j, ej⟩ | ⟨_, hun⟩
      · have := genName_length innerPrefix j
        simp only [List.mem_cons, List.not_mem_nil, or_false] at hm
        rw [← ej, hm] at this; simp [fName, innerPrefix] at this
      · simp only [List.mem_cons, List.not_mem_nil, or_false] at hm
        subst hm; simp [unusable, hs] at hun
  exact namesOk_append ho hi (eff_disjoint cfg hpf _ _ outer inner1 hd)

/-- the naming condition of uncurry on such a variant without the last repair: the only clause left is
the user's own clash -/
theorem uncurryParams_namesOk_prefix (cfg : Cfg) (hu : cfg.unnamedFixed = true) (hs : cfg.shadowFixed = true)
    (hpf : cfg.prefixFixed = true) (hc : cfg.crossFixed = false)
    (outer inner : List Param) (hvo : ValidSig outer) (hvi : ValidSig inner)
    (hd : ∀ n ∈ names outer, n ∈ names inner → unusable cfg n = true) :
    NamesOk [fName] ((uncurryParams cfg outer inner).1 ++ (uncurryParams cfg outer inner).2) := by
  unfold uncurryParams
  simp only [hc, Bool.false_eq_true, if_false]
  exact uncurry_merged_namesOk cfg hu hs hpf outer inner hvo (keepable_nodup_of_validSig cfg _ hvi) (fun _ => hvi) hd

/-! ### after 94a60e5: `renameParam` -/

theorem mem_names_renameParam (x pre : Name) : ∀ (ps : List Param) (i : Nat) (n : Name),
    n ∈ names (renameParam x pre i ps) → (∃ j, i ≤ j ∧ n = genName pre j) ∨ (n ∈ names ps ∧ (x = [] ∨ x = blank ∨ n ≠ x))
  | [], _, _, h => by simp [renameParam, names] at h
  | p :: r, i, n, h => by
    simp only [renameParam, names_cons, List.mem_cons] at h
    rcases h with h | h
    · by_cases c : (x != [] && x != blank && p.name == x) = true
      · rw [if_pos c] at h; exact Or.inl ⟨i, Nat.le_refl _, h⟩
      · rw [if_neg c] at h
        subst h
        refine Or.inr ⟨List.mem_cons_self .., ?_⟩
        simp only [Bool.and_eq_true, bne_iff_ne, ne_eq, beq_iff_eq, not_and] at c
        by_cases h1 : x = []
        · exact Or.inl h1
        · by_cases h2 : x = blank
          · exact Or.inr (Or.inl h2)
          · exact Or.inr (Or.inr (c ⟨h1, h2⟩))
    · rcases mem_names_renameParam x pre r (i + 1) n h with ⟨j, hj, e⟩ | ⟨hm, h1⟩
      · exact Or.inl ⟨j, by omega, e⟩
      · exact Or.inr ⟨List.mem_cons_of_mem _ hm, h1⟩

/-- nothing to rename: the list is unchanged -/
theorem renameParam_of_not_mem (x pre : Name) : ∀ (ps : List Param) (i : Nat),
    x ∉ names ps → renameParam x pre i ps = ps
  | [], _, _ => rfl
  | p :: r, i, h => by
    simp only [names_cons, List.mem_cons, not_or] at h
    have : (x != [] && x != blank && p.name == x) = false := by
      have : (p.name == x) = false := by simpa using fun e => h.1 e.symm
      simp [this]
    simp [renameParam, this, renameParam_of_not_mem x pre r (i + 1) h.2]

/-- an outer parameter without a real name renames nothing -/
theorem renameParam_of_unreal (x pre : Name) (h : x = [] ∨ x = blank) : ∀ (ps : List Param) (i : Nat),
    renameParam x pre i ps = ps
  | [], _ => rfl
  | p :: r, i => by
    have : (x != [] && x != blank && p.name == x) = false := by
      rcases h with h | h <;> simp [h]
    simp [renameParam, this, renameParam_of_unreal x pre h r (i + 1)]

/-- the names `renameParam` leaves alone and `rename` will leave alone are among the user's -/
theorem keepable_renameParam_sublist (cfg : Cfg) (hpf : cfg.prefixFixed = true) (x : Name) :
    ∀ (ps : List Param) (i : Nat),
      ((names (renameParam x innerPrefix i ps)).filter (keepable cfg innerPrefix)).Sublist ((names ps).filter usable)
  | [], _ => by simp [renameParam, names]
  | p :: r, i => by
    have ih := keepable_renameParam_sublist cfg hpf x r (i + 1)
    simp only [renameParam, names_cons]
    by_cases c : (x != [] && x != blank && p.name == x) = true
    · rw [if_pos c]
      have hk : keepable cfg innerPrefix (genName innerPrefix i) = false := by
        simp [keepable, genName_prefix]
      simp only [List.filter_cons, hk, Bool.false_eq_true, if_false]
      by_cases hu : usable p.name = true
      · simp only [hu, if_true]; exact ih.cons _
      · simp only [hu, if_false]; exact ih
    · rw [if_neg c]
      by_cases hk : keepable cfg innerPrefix p.name = true
      · have hu : usable p.name = true := by
          simp only [keepable, Bool.and_eq_true] at hk; exact hk.1.1
        simp only [List.filter_cons, hk, hu, if_true]
        exact ih.cons_cons _
      · by_cases hu : usable p.name = true
        · simp only [List.filter_cons, hk, hu, if_true, if_false]; exact ih.cons _
        · simp only [List.filter_cons, hk, hu, if_false]; exact ih

/-- THE UNCONDITIONAL STATEMENT (all naming repairs in place): for every outer parameter and every
inner parameter list that Go accepts, the merged parameter list of the uncurry wrapper consists of
usable, pairwise distinct names none of which is `f` -/
theorem uncurryParams_namesOk_fixed (cfg : Cfg) (hu : cfg.unnamedFixed = true) (hs : cfg.shadowFixed = true)
    (hpf : cfg.prefixFixed = true) (hc : cfg.crossFixed = true)
    (outer inner : List Param) (hlen : outer.length = 1) (hvo : ValidSig outer) (hvi : ValidSig inner) :
    NamesOk [fName] ((uncurryParams cfg outer inner).1 ++ (uncurryParams cfg outer inner).2) := by
  unfold uncurryParams
  simp only [hc, if_true]
  match outer, hlen with
  | [q], _ =>
    simp only [outerName]
    refine uncurry_merged_namesOk cfg hu hs hpf [q] _ hvo ?_ ?_ ?_
    · exact hvi.sublist (keepable_renameParam_sublist cfg hpf q.name inner 0)
    · -- nothing unusable in the pre-processed list: then nothing was renamed by `renameParam` either
      intro hb
      have hno : q.name ∉ names inner ∨ q.name = [] ∨ q.name = blank := by
        by_cases hm : q.name ∈ names inner
        · by_cases h1 : q.name = []
          · exact Or.inr (Or.inl h1)
          · by_cases h2 : q.name = blank
            · exact Or.inr (Or.inr h2)
            · exfalso
              -- the position that bears the outer name was renamed to a generated (unusable) name
              have : ∀ (ps : List Param) (i : Nat), q.name ∈ names ps →
                  ∃ j, genName innerPrefix j ∈ names (renameParam q.name innerPrefix i ps) := by
                intro ps
                induction ps with
                | nil => intro _ h; cases h
                | cons p r ih =>
                  intro i h
                  simp only [names_cons, List.mem_cons] at h
                  by_cases e : p.name = q.name
                  · exact ⟨i, by simp [renameParam, h1, h2, e, names_cons]⟩
                  · rcases h with h | h
                    · exact absurd h.symm e
                    · obtain ⟨j, hj⟩ := ih (i + 1) h
                      exact ⟨j, by simp only [renameParam, names_cons]; exact List.mem_cons_of_mem _ hj⟩
              obtain ⟨j, hj⟩ := this inner 0 hm
              simp only [hasBlank, List.any_eq_false] at hb
              obtain ⟨p, hp, e⟩ := List.mem_map.1 hj
              have := hb p hp
              rw [e] at this
              simp [unusable, hpf, genName_prefix] at this
        · exact Or.inl hm
      have : renameParam q.name innerPrefix 0 inner = inner := by
        rcases hno with h | h | h
        · exact renameParam_of_not_mem _ _ _ _ h
        · exact renameParam_of_unreal _ _ (Or.inl h) _ _
        · exact renameParam_of_unreal _ _ (Or.inr h) _ _
      rw [this]; exact hvi
    · intro n hn hm
      simp only [names_cons, names_nil, List.mem_cons, List.not_mem_nil, or_false] at hn
      subst hn
      rcases mem_names_renameParam q.name innerPrefix inner 0 _ hm with ⟨j, _, e⟩ | ⟨_, h | h | h⟩
      · rw [e]; simp [unusable, hpf, genName_prefix]
      · rw [h]; simp [unusable, hu]
      · rw [h]; exact unusable_blank cfg
      · exact absurd rfl h

theorem validSig_of_namesOk {avoid : List Name} {ps : List Param} (h : NamesOk avoid ps) : ValidSig ps := by
  unfold ValidSig
  rw [List.filter_eq_self.2 h.1]
  exact h.2.1

/-- stripping the result names when one of them is capturing leaves nothing that could clash -/
theorem resultsOk_stripped (cfg : Cfg) (hr : cfg.resultsFixed = true) (outerPs inner rs : List Name)
    (hc : rs.any capturing = true) (hin : nodupB (inner.filter fun n => n != [] && n != blank) = true) :
    resultsOk outerPs inner (effResults cfg rs) = true := by
  have hall : ∀ n ∈ rs.map (fun _ => ([] : Name)), n = [] := by
    intro n hn; obtain ⟨_, _, e⟩ := List.mem_map.1 hn; exact e.symm
  have hf : ((rs.map fun _ => ([] : Name)) ++ inner).filter (fun n => n != [] && n != blank)
      = inner.filter (fun n => n != [] && n != blank) := by
    rw [List.filter_append]
    have : (rs.map fun _ => ([] : Name)).filter (fun n => n != [] && n != blank) = [] :=
      List.filter_eq_nil_iff.2 fun n hn => by simp [hall n hn]
    rw [this, List.nil_append]
  simp only [effResults, hr, hc, Bool.and_self, if_true, resultsOk, hf, hin, Bool.and_true, Bool.true_and,
    Bool.and_eq_true, Bool.or_eq_true, List.all_eq_true]
  refine ⟨Or.inl fun n hn => by simp [hall n hn], fun n hn => ?_⟩
  simp [hall n hn]

end Goderive.Plumb
