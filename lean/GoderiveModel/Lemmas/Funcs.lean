/-
Helper lemmas for properties C15 (S/Plumb) and C16 (S/ErrChain).
-/
import GoderiveModel.S.Plumb
import GoderiveModel.S.ErrChain
import GoderiveModel.Spec.Funcs

namespace Goderive.Plumb

/-! ### environments with distinct keys -/

theorem lookupV_of_mem {α} : ∀ (env : List (Name × RV α)) (n : Name) (v : RV α),
    (env.map Prod.fst).Nodup → (n, v) ∈ env → lookupV env n = some v
  | [], _, _, _, h => by cases h
  | (m, w) :: rest, n, v, hnd, hmem => by
    simp only [List.map_cons, List.nodup_cons] at hnd
    simp only [lookupV]
    rcases List.mem_cons.1 hmem with h | h
    · cases h; simp
    · have hne : m ≠ n := by
        intro e; subst e; exact hnd.1 (List.mem_map.2 ⟨(m, v), h, rfl⟩)
      simp [hne, lookupV_of_mem rest n v hnd.2 h]

/-- a list of (name, value) pairs all of which are bound in `env` -/
def Bound {α} (env : List (Name × RV α)) (kv : List (Name × α)) : Prop :=
  ∀ n a, (n, a) ∈ kv → usable n = true ∧ (n, RV.val a) ∈ env

theorem lookupVals_of_bound {α} (env : List (Name × RV α)) (hnd : (env.map Prod.fst).Nodup) :
    ∀ (kv : List (Name × α)), Bound env kv → lookupVals env (kv.map Prod.fst) = some (kv.map Prod.snd)
  | [], _ => rfl
  | (n, a) :: rest, hb => by
    have h1 := hb n a (List.mem_cons_self ..)
    have hrest : Bound env rest := fun m b hm => hb m b (List.mem_cons_of_mem _ hm)
    simp [lookupVals, lookupVal, h1.1, lookupV_of_mem env n _ hnd h1.2, lookupVals_of_bound env hnd rest hrest]

theorem lookupGroups_of_bound {α} (env : List (Name × RV α)) (hnd : (env.map Prod.fst).Nodup) :
    ∀ (kvs : List (List (Name × α))), (∀ kv ∈ kvs, Bound env kv) →
      lookupGroups env (kvs.map (·.map Prod.fst)) = some (kvs.map (·.map Prod.snd))
  | [], _ => rfl
  | kv :: rest, hb => by
    simp [lookupGroups, lookupVals_of_bound env hnd kv (hb kv (List.mem_cons_self ..)),
      lookupGroups_of_bound env hnd rest (fun k hk => hb k (List.mem_cons_of_mem _ hk))]

/-- the body `f(names…)(names…)` in an environment with distinct keys where `f` is the function under
test and every name is bound to its own argument: one call of `g` with the arguments in the order
in which the names are written -/
theorem eval_call {α} (env : List (Name × RV α)) (g : List (List α) → Out α) (r : Bool)
    (kvs : List (List (Name × α)))
    (hnd : (env.map Prod.fst).Nodup) (hf : (fName, RV.fn g) ∈ env) (hb : ∀ kv ∈ kvs, Bound env kv) :
    eval env (.call fName (kvs.map (·.map Prod.fst)) r) [] = g (kvs.map (·.map Prod.snd)) := by
  simp [eval, lookupV_of_mem env fName _ hnd hf, lookupGroups_of_bound env hnd kvs hb]

/-! ### binding parameter lists -/

/-- the naming condition under which the emitted text means what the generator intends: every name
of the (effective) parameter list can be written as an operand, no two are the same, none is one of
the generator's own binders `avoid` -/
def NamesOk (avoid : List Name) (ps : List Param) : Prop :=
  (∀ n ∈ names ps, usable n = true) ∧ (names ps).Nodup ∧ (∀ n ∈ names ps, n ∉ avoid)

def liftKV {α} (kv : List (Name × α)) : List (Name × RV α) := kv.map fun p => (p.1, RV.val p.2)

theorem bindG_binders {α} (ps : List Param) (as : List α) :
    bindG (binders ps) (vals as) = (liftKV ((names ps).zip as)).reverse := by
  simp [bindG, binders, vals, liftKV, names, Param.toBinder, List.zip_map_right, List.map_map, Function.comp_def]

theorem keys_liftKV {α} (kv : List (Name × α)) : (liftKV kv).map Prod.fst = kv.map Prod.fst := by
  simp [liftKV, List.map_map, Function.comp_def]

theorem mem_liftKV {α} {kv : List (Name × α)} {n : Name} {a : α} (h : (n, a) ∈ kv) :
    (n, RV.val a) ∈ liftKV kv := List.mem_map.2 ⟨(n, a), h, rfl⟩

theorem length_binders (ps : List Param) : (binders ps).length = ps.length := by simp [binders]
theorem length_vals {α} (as : List α) : (vals as).length = as.length := by simp [vals]
theorem length_names (ps : List Param) : (names ps).length = ps.length := by simp [names]
theorem names_append (a b : List Param) : names (a ++ b) = names a ++ names b := by simp [names]
theorem names_cons (p : Param) (ps : List Param) : names (p :: ps) = p.name :: names ps := rfl
theorem names_nil : names [] = [] := rfl

theorem eval_lam {α} (env : List (Name × RV α)) (bs : List Binder) (body : Tm) (vs : List (RV α))
    (rest : List (List (RV α))) (h : bs.length = vs.length) :
    eval env (.lam bs body) (vs :: rest) = eval (bindG bs vs ++ env) body rest := by
  simp [eval, h]

/-- the environment after binding the groups `gs` (outermost first) on top of `base` -/
def envOf {α} (base : List (Name × RV α)) : List (List (Name × α)) → List (Name × RV α)
  | [] => base
  | kv :: rest => envOf ((liftKV kv).reverse ++ base) rest

theorem envOf_ok {α} : ∀ (gs : List (List (Name × α))) (base : List (Name × RV α)),
    (base.map Prod.fst ++ gs.flatten.map Prod.fst).Nodup →
    ((envOf base gs).map Prod.fst).Nodup ∧ (∀ x ∈ base, x ∈ envOf base gs) ∧
      (∀ n a, (n, a) ∈ gs.flatten → (n, RV.val a) ∈ envOf base gs)
  | [], base, h => by simpa [envOf] using h
  | kv :: rest, base, h => by
    have hperm : ((((liftKV kv).reverse ++ base).map Prod.fst) ++ rest.flatten.map Prod.fst).Perm
        (base.map Prod.fst ++ (kv :: rest).flatten.map Prod.fst) := by
      simp only [List.map_append, List.map_reverse, keys_liftKV, List.flatten_cons]
      rw [← List.append_assoc (base.map Prod.fst)]
      exact ((List.reverse_perm _).append_right _ |>.trans List.perm_append_comm).append_right _
    obtain ⟨h1, h2, h3⟩ := envOf_ok rest ((liftKV kv).reverse ++ base) (hperm.nodup_iff.2 h)
    refine ⟨h1, fun x hx => h2 x (List.mem_append_right _ hx), fun n a hm => ?_⟩
    rcases List.mem_append.1 (List.flatten_cons ▸ hm) with hk | hr
    · exact h2 _ (List.mem_append_left _ (List.mem_reverse.2 (mem_liftKV hk)))
    · exact h3 n a hr

/-- the emitted body `f(ns…)` below the binder groups `gs`: if all bound names are distinct and
different from `f`, and every written name is usable and bound to the value listed beside it, the
body is one call of the function under test with exactly those values -/
theorem call_groups1 {α} (g : List (List α) → Out α) (r : Bool) (gs : List (List (Name × α)))
    (ns : List Name) (as : List α) (hlen : ns.length = as.length)
    (hnd : (fName :: gs.flatten.map Prod.fst).Nodup) (hus : ∀ n ∈ ns, usable n = true)
    (hsub : ∀ x ∈ ns.zip as, x ∈ gs.flatten) :
    eval (envOf [(fName, RV.fn g)] gs) (.call fName [ns] r) [] = g [as] := by
  obtain ⟨h1, h2, h3⟩ := envOf_ok gs [(fName, RV.fn g)] (by simpa using hnd)
  have hb : Bound (envOf [(fName, RV.fn g)] gs) (ns.zip as) := fun n a hm =>
    ⟨hus n (List.of_mem_zip hm).1, h3 n a (hsub _ hm)⟩
  have := eval_call _ g r [ns.zip as] h1 (h2 _ (by simp)) (by simpa using hb)
  simpa [List.map_fst_zip, List.map_snd_zip, hlen] using this

theorem call_groups2 {α} (g : List (List α) → Out α) (r : Bool) (gs : List (List (Name × α)))
    (ns1 ns2 : List Name) (as1 as2 : List α) (hlen1 : ns1.length = as1.length) (hlen2 : ns2.length = as2.length)
    (hnd : (fName :: gs.flatten.map Prod.fst).Nodup) (hus : ∀ n ∈ ns1 ++ ns2, usable n = true)
    (hsub : ∀ x ∈ ns1.zip as1 ++ ns2.zip as2, x ∈ gs.flatten) :
    eval (envOf [(fName, RV.fn g)] gs) (.call fName [ns1, ns2] r) [] = g [as1, as2] := by
  obtain ⟨h1, h2, h3⟩ := envOf_ok gs [(fName, RV.fn g)] (by simpa using hnd)
  have hb1 : Bound (envOf [(fName, RV.fn g)] gs) (ns1.zip as1) := fun n a hm =>
    ⟨hus n (List.mem_append_left _ (List.of_mem_zip hm).1), h3 n a (hsub _ (List.mem_append_left _ hm))⟩
  have hb2 : Bound (envOf [(fName, RV.fn g)] gs) (ns2.zip as2) := fun n a hm =>
    ⟨hus n (List.mem_append_right _ (List.of_mem_zip hm).1), h3 n a (hsub _ (List.mem_append_right _ hm))⟩
  have := eval_call _ g r [ns1.zip as1, ns2.zip as2] h1 (h2 _ (by simp)) (by
    intro kv hkv
    rcases List.mem_cons.1 hkv with e | hkv
    · exact e ▸ hb1
    · rcases List.mem_cons.1 hkv with e | hkv
      · exact e ▸ hb2
      · cases hkv)
  simpa [List.map_fst_zip, List.map_snd_zip, hlen1, hlen2] using this

theorem NamesOk.nodup_f {ps : List Param} (h : NamesOk [fName] ps) : (fName :: names ps).Nodup :=
  List.nodup_cons.2 ⟨fun hm => h.2.2 _ hm (List.mem_cons_self ..), h.2.1⟩

/-! ### the four wrappers on an effective parameter list with good names -/

theorem curry_core {α} (p : Param) (ps : List Param) (nres : Nat) (r : Bool) (g : List (List α) → Out α)
    (a : α) (rest : List α) (hlen : ps.length = rest.length) (hok : NamesOk [fName] (p :: ps)) :
    eval [] (.lam [fBinder [p :: ps] nres]
        (.lam (binders [p]) (.lam (binders ps) (.call fName [names (p :: ps)] r))))
      [[.fn g], [.val a], vals rest] = g [a :: rest] := by
  have hE : ([RV.val a] : List (RV α)) = vals [a] := rfl
  rw [eval_lam _ _ _ _ _ (by simp), hE, eval_lam _ _ _ _ _ (by simp [binders, vals]),
    eval_lam _ _ _ _ _ (by simp [binders, vals, hlen]), bindG_binders, bindG_binders]
  have henv : ((liftKV ((names ps).zip rest)).reverse ++
      ((liftKV ((names [p]).zip [a])).reverse ++ (bindG [fBinder [p :: ps] nres] [RV.fn g] ++ [])))
      = envOf [(fName, RV.fn g)] [[(p.name, a)], (names ps).zip rest] := by
    simp [envOf, bindG, fBinder, names, liftKV]
  rw [henv, call_groups1 g r _ (names (p :: ps)) (a :: rest) (by simp [names, hlen])]
  · have := hok.nodup_f
    simpa [List.map_fst_zip, hlen, names] using this
  · exact hok.1
  · intro x hx
    simpa [names] using hx

theorem flip_core {α} (p q : Param) (ps : List Param) (nres : Nat) (r : Bool) (g : List (List α) → Out α)
    (a b : α) (rest : List α) (hlen : ps.length = rest.length) (hok : NamesOk [fName] (p :: q :: ps)) :
    eval [] (.lam [fBinder [p :: q :: ps] nres]
        (.lam (binders (flipSig (p :: q :: ps))) (.call fName [names (p :: q :: ps)] r)))
      [[.fn g], vals (b :: a :: rest)] = g [a :: b :: rest] := by
  rw [eval_lam _ _ _ _ _ (by simp), eval_lam _ _ _ _ _ (by simp [binders, vals, flipSig, hlen]), bindG_binders]
  have henv : ((liftKV ((names (flipSig (p :: q :: ps))).zip (b :: a :: rest))).reverse ++
      (bindG [fBinder [p :: q :: ps] nres] [RV.fn g] ++ []))
      = envOf [(fName, RV.fn g)] [(names (flipSig (p :: q :: ps))).zip (b :: a :: rest)] := by
    simp [envOf, bindG, fBinder]
  rw [henv, call_groups1 g r _ (names (p :: q :: ps)) (a :: b :: rest) (by simp [names, hlen])]
  · have := hok.nodup_f
    have hl : (List.map (fun x => x.name) ps).length ≤ rest.length := by simp [hlen]
    simp only [flipSig, names, List.map_cons, List.zip_cons_cons, List.flatten_cons, List.flatten_nil,
      List.append_nil, List.map_fst_zip hl] at this ⊢
    exact ((List.Perm.swap _ _ _).cons _).nodup_iff.1 this
  · exact hok.1
  · intro x hx
    simp only [flipSig, names, List.map_cons, List.zip_cons_cons, List.flatten_cons, List.flatten_nil,
      List.append_nil, List.mem_cons] at hx ⊢
    rcases hx with h | h | h
    · exact Or.inr (Or.inl h)
    · exact Or.inl h
    · exact Or.inr (Or.inr h)

theorem applySig_append (others : List Param) (l : Param) : applySig (others ++ [l]) = ([l], others) := by
  simp [applySig]

theorem apply_core {α} (others : List Param) (l : Param) (nres : Nat) (r : Bool) (g : List (List α) → Out α)
    (lastv : α) (ovs : List α) (hlen : others.length = ovs.length) (hok : NamesOk [fName] (others ++ [l])) :
    eval [] (.lam (fBinder [others ++ [l]] nres :: binders [l])
        (.lam (binders others) (.call fName [names (others ++ [l])] r)))
      [[.fn g, .val lastv], vals ovs] = g [ovs ++ [lastv]] := by
  rw [eval_lam _ _ _ _ _ (by simp [binders]), eval_lam _ _ _ _ _ (by simp [binders, vals, hlen]), bindG_binders]
  have henv : ((liftKV ((names others).zip ovs)).reverse ++
      (bindG (fBinder [others ++ [l]] nres :: binders [l]) [RV.fn g, RV.val lastv] ++ []))
      = envOf [(fName, RV.fn g)] [[(l.name, lastv)], (names others).zip ovs] := by
    simp [envOf, bindG, fBinder, liftKV, binders, Param.toBinder]
  have hl : (names others).length ≤ ovs.length := by simp [names, hlen]
  rw [henv, call_groups1 g r _ (names (others ++ [l])) (ovs ++ [lastv]) (by simp [names, hlen])]
  · have := hok.nodup_f
    simp only [List.flatten_cons, List.flatten_nil, List.append_nil, List.map_append, List.map_cons,
      List.map_nil, List.map_fst_zip hl, names_append, names_cons, names_nil] at this ⊢
    exact (List.Perm.cons _ List.perm_append_comm).nodup_iff.1 this
  · exact hok.1
  · intro x hx
    have hz : (names (others ++ [l])).zip (ovs ++ [lastv]) = (names others).zip ovs ++ [(l.name, lastv)] := by
      simp [names, List.zip_append, hlen]
    rw [hz] at hx
    simp only [List.flatten_cons, List.flatten_nil, List.append_nil, List.mem_append, List.mem_cons,
      List.not_mem_nil, or_false] at hx ⊢
    exact hx.symm

theorem uncurry_core {α} (outer inner : List Param) (nres : Nat) (r : Bool) (g : List (List α) → Out α)
    (as1 as2 : List α) (hlen1 : outer.length = as1.length) (hlen2 : inner.length = as2.length)
    (hok : NamesOk [fName] (outer ++ inner)) :
    eval [] (.lam [fBinder [outer, inner] nres]
        (.lam (binders (uncurrySig outer inner)) (.call fName [names outer, names inner] r)))
      [[.fn g], vals (as1 ++ as2)] = g [as1, as2] := by
  rw [eval_lam _ _ _ _ _ (by simp), eval_lam _ _ _ _ _ (by simp [binders, vals, uncurrySig, hlen1, hlen2]),
    bindG_binders]
  have henv : ((liftKV ((names (uncurrySig outer inner)).zip (as1 ++ as2))).reverse ++
      (bindG [fBinder [outer, inner] nres] [RV.fn g] ++ []))
      = envOf [(fName, RV.fn g)] [(names (uncurrySig outer inner)).zip (as1 ++ as2)] := by
    simp [envOf, bindG, fBinder]
  have hl : (names (uncurrySig outer inner)).length ≤ (as1 ++ as2).length := by
    simp [names, uncurrySig, hlen1, hlen2]
  rw [henv, call_groups2 g r _ (names outer) (names inner) as1 as2 (by simp [names, hlen1]) (by simp [names, hlen2])]
  · have := hok.nodup_f
    simp only [List.flatten_cons, List.flatten_nil, List.append_nil]
    rw [List.map_fst_zip hl]
    exact this
  · intro n hn
    exact hok.1 n (by simpa [names] using hn)
  · intro x hx
    have hz : (names (uncurrySig outer inner)).zip (as1 ++ as2) = (names outer).zip as1 ++ (names inner).zip as2 := by
      simp [names, uncurrySig, List.zip_append, hlen1]
    simpa [hz] using hx

end Goderive.Plumb
