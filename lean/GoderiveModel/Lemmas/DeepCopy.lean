/-
Helper lemmas for property C05 (DeepCopy and Clone produce an equal, fully independent copy).

* `DeepCopy/Base`      generic facts (typing inversion, shape of `structEq`, Go `==`), local copies
* `DeepCopy/Model`     shape of the model per underlying type, spines, zero values, addresses
* `DeepCopy/Fresh`     freshness and tree shape (`FTL`, `freshOK`)
* `DeepCopy/Supported` `SupportedCopy`, `SupportedClone`, `topPre`, maps, reflexivity
* `DeepCopy/Correct`   no panic + well-typed + structurally equal result (`corrOK`)
* `DeepCopy/Clone`     `deriveClone`, `memAddrs`, `writeAt`
* `DeepCopy/Shape`     the same as `Correct` without NaN-freeness, for the bit-level `Spec.shapeEq`
                       (`shapeOK`, `clone_goodS`); `shapeEq_structEq`
* `DeepCopy/Example`   evaluation tactic `dc_eval` and the concrete world of the examples
-/
import GoderiveModel.Lemmas.DeepCopy.Base
import GoderiveModel.Lemmas.DeepCopy.Model
import GoderiveModel.Lemmas.DeepCopy.Fresh
import GoderiveModel.Lemmas.DeepCopy.Supported
import GoderiveModel.Lemmas.DeepCopy.Correct
import GoderiveModel.Lemmas.DeepCopy.Clone
import GoderiveModel.Lemmas.DeepCopy.Shape
import GoderiveModel.Lemmas.DeepCopy.Example
